# per-property configuration for bin/check
COMMON_TB = []
PROPS = {
    "C04": {
        "lean_target": ["Props.C04"],
        "gens": ["gen-civil", "gen-jd"],
        "searches": ["search-C04"],
        "shards": {"quick": 8, "thorough": 16},
        "trusted_base": [
            "modelled, not verified: float evaluation inside SolarUtil.GetJulianDay / NewSolarFromJulianDay (the model is exact-integer; tied by bit-exact sweeps over family J and by the 2^-27-day tolerance check)",
        ],
        "assumptions": ["years 1..9998; Go int modelled as unbounded Int"],
        "open_obligations": [],
    },
}
