# per-property configuration for bin/check
#   lean_target : lake targets whose theorems are the proof obligations (Props.* modules; they import Proofs/*, Gen/*)
#   gens        : harness observation generators piped into modeldrv (model vs implementation correspondence)
#   searches    : implementation-level failing-input searches
#   shards      : processes per generator/search at each tier
FLOAT_TB = "modelled, not verified: float evaluation inside SolarUtil.GetJulianDay / NewSolarFromJulianDay (the model is exact-integer; tied by bit-exact sweeps and the 2^-27-day tolerance check)"
ASTRO_TB = "modelled, not verified: ShouXingUtil (new-moon / solar-term series, floating point): its outputs enter as the per-year oracle table regenerated from the current code on this run (Gen/Astro), kernel-checked for well-formedness (Gen/AstroK)"
STD_TB = "Go standard library behaviour (fmt.Sprintf, strings.Compare/Index/Replace, container/list, maps) modelled by documented semantics"

PROPS = {
    "C01": {"lean_target": ["Props.C01", "Props.Purity", "Props.FnC01"], "gens": ["gen-ly", "gen-lunar"], "searches": ["search-C01"],
            "trusted_base": [ASTRO_TB, STD_TB]},
    "C02": {"lean_target": ["Props.C02", "Props.Purity", "Props.FnC01"], "gens": ["gen-ly"], "searches": ["search-C02"],
            "trusted_base": [ASTRO_TB, "independent Meeus new-moon / solar-longitude computation in the harness is an oracle definition (validation, not proof)"],
            "open_obligations": ["month begins on the civil day of the true new moon (1645..3000): validated against the independent ephemeris in search-C02, not a theorem",
                                 "ICU comparison: ICU is not installed; not checked"]},
    "C03": {"lean_target": ["Props.C03", "Props.FnSC03", "Props.Purity"], "gens": ["gen-ly", "gen-terms"], "searches": ["search-C03"],
            "trusted_base": [ASTRO_TB, STD_TB],
            "open_obligations": ["term instant = root of the apparent solar longitude: validated in search-C03 against the library's own ephemeris (hook VerifSaLon), not a theorem"]},
    "C04": {"lean_target": ["Props.C04", "Props.Purity", "Props.FnC04"], "gens": ["gen-civil", "gen-jd"], "searches": ["search-C04"],
            "trusted_base": [FLOAT_TB]},
    "C05": {"lean_target": ["Props.C05", "Props.Purity", "Props.FnC05", "Props.AstroBase", "Props.FnSC05"], "gens": ["gen-lunar", "gen-ec"], "searches": ["search-C05"],
            "trusted_base": [ASTRO_TB, STD_TB]},
    "C06": {"lean_target": ["Props.C06", "Props.Purity", "Props.FnC01"], "gens": ["gen-ly"], "searches": ["search-C06"],
            "trusted_base": [ASTRO_TB]},
    "C07": {"lean_target": ["Props.C07", "Props.Purity", "Props.FnC07"], "gens": ["gen-box", "gen-civil"], "searches": ["search-C07"],
            "trusted_base": [ASTRO_TB, FLOAT_TB]},
    "C08": {"lean_target": ["Props.C08", "Props.Purity", "Props.FnSC08", "Props.AstroBase", "Props.FnC04", "Props.FnC05", "Props.FnC12", "Props.FnC13", "Props.FnC15", "Props.FnC16", "Props.FnC17"], "gens": ["gen-alm", "gen-ec", "gen-terms", "gen-week"], "searches": ["search-C08"],
            "trusted_base": [ASTRO_TB, STD_TB],
            "open_obligations": ["accessors outside the modelled set are covered by the reflection sweep of search-C08 only (counted in search_stats.methods)"]},
    "C09": {"lean_target": ["Props.C09", "Props.Purity"], "gens": [], "searches": ["search-C09"],
            "trusted_base": ["Go memory model and scheduler are outside the model: data races / real blocking are exercised by search-C09 (history sweeps; goroutine stress under -race), not proved",
                             "the protocol model has a crash step (compute panics): the lock is released by the deferred unlock, which the regenerated shape fact of NewLunarYear requires"]},
    "C10": {"lean_target": ["Props.C10", "Props.Purity", "Props.AstroBase"], "gens": ["gen-bazi"], "searches": ["search-C10"],
            "trusted_base": [ASTRO_TB, "time.Now() is a parameter (endYear) of the model"],
            "open_obligations": ["completeness fails when a Jie instant lies inside the queried two-hour slot (known finding); completeness elsewhere is checked by search-C10, not proved"]},
    "C11": {"lean_target": ["Props.C11", "Props.Purity", "Props.C18Reads", "Props.FnSC11", "Props.AstroBase"], "gens": ["gen-alm", "gen-ec", "gen-terms"], "searches": ["search-C11"],
            "trusted_base": [ASTRO_TB, STD_TB]},
    "C12": {"lean_target": ["Props.C12", "Props.Purity", "Props.FnC12", "Props.AstroBase", "Props.FnSC12"], "gens": ["gen-ec"], "searches": ["search-C12"],
            "trusted_base": [ASTRO_TB]},
    "C13": {"lean_target": ["Props.C13", "Props.Purity", "Props.FnC13", "Props.AstroBase", "Props.FnSC13"], "gens": ["gen-terms"], "searches": ["search-C13"],
            "trusted_base": [ASTRO_TB, STD_TB]},
    "C14": {"lean_target": ["Props.C14", "Props.Purity", "Props.FnC14"], "gens": ["gen-holiday"], "searches": ["search-C14"],
            "trusted_base": [STD_TB]},
    "C15": {"lean_target": ["Props.C15", "Props.Purity", "Props.FnC15"], "gens": ["gen-week"], "searches": ["search-C15"],
            "trusted_base": [FLOAT_TB]},
    "C16": {"lean_target": ["Props.C16", "Props.Purity", "Props.FnC16", "Props.AstroBase", "Props.FnSC16"], "gens": ["gen-terms", "gen-alm"], "searches": ["search-C16"],
            "trusted_base": [ASTRO_TB, STD_TB]},
    "C17": {"lean_target": ["Props.C17", "Props.Purity", "Props.FnC17", "Props.FnSC17"], "gens": ["gen-alm", "gen-box"], "searches": ["search-C17"],
            "trusted_base": [ASTRO_TB]},
    "C18": {"lean_target": ["Props.C18", "Props.Purity", "Props.C18Reads", "Props.FnSC18", "Props.AstroBase"], "gens": ["gen-alm", "gen-ec"], "searches": ["search-C18"],
            "trusted_base": [ASTRO_TB, STD_TB]},
    "C19": {"lean_target": ["Props.C19", "Props.Purity", "Props.FnSC19"], "gens": ["gen-fmt", "gen-alm"], "searches": ["search-C19"],
            "trusted_base": [STD_TB]},
    "C20": {"lean_target": ["Props.C20", "Props.Purity", "Props.FnSC20"], "gens": ["gen-sfest"], "searches": ["search-C20"],
            "trusted_base": [STD_TB]},
}
for _p in PROPS.values():
    _p.setdefault("shards", {"quick": 8, "thorough": 16})
    _p.setdefault("assumptions", ["civil years 1..9998 (lunar years 0..9999); Go int modelled as unbounded Int"])
