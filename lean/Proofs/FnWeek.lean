/-
Proofs.FnWeek — SolarUtil.GetWeeksOfMonth and SolarWeek index / first day: generated code = model (split from the worker's FnMisc; helper prefix `mi_`).
-/
import Proofs.FnMiscBase

namespace FnEq
open Gen.Fn

/-! ## 1. SolarUtil.GetWeeksOfMonth -/

/-- `-((-x)/7)` (the translator's exact integer ceiling) is `(x+6)/7`. -/
theorem mi_ceil7 (x : Int) : -((-x) / 7) = (x + 6) / 7 := by omega

theorem mi_wrap7 (x : Int) : (if x < 0 then x + 7 else x) = Model.wrap7 x := rfl

/-- Atom `a1` = `GetWeek(year, month, 1)` = `Model.week year month 1`. -/
theorem getWeeksOfMonth_eq (y m start : Int) (h1 : 1 ≤ m) (h12 : m ≤ 12) :
    Gen.Fn.SolarUtil_GetWeeksOfMonth (Model.week y m 1) y m start =
      .ok (Model.weeksOfMonth y m start) := by
  simp only [Gen.Fn.SolarUtil_GetWeeksOfMonth, getDaysOfMonth_eq y m h1 h12, Model.weeksOfMonth,
    Model.wrap7]
  by_cases h : Model.week y m 1 - start < 0 <;> simp [h, mi_ceil7]

/-- The same with the atom left abstract. -/
theorem getWeeksOfMonth_eq' (a1 y m start : Int) (h1 : 1 ≤ m) (h12 : m ≤ 12)
    (ha : a1 = Model.week y m 1) :
    Gen.Fn.SolarUtil_GetWeeksOfMonth a1 y m start = .ok (Model.weeksOfMonth y m start) := by
  subst ha; exact getWeeksOfMonth_eq y m start h1 h12

/-- Outside `1 ≤ m ≤ 12` the Go code panics on the `DAYS_OF_MONTH` index (the model is totalised). -/
theorem getWeeksOfMonth_panic (a1 y m start : Int) (h : m < 1 ∨ 12 < m) :
    Gen.Fn.SolarUtil_GetWeeksOfMonth a1 y m start = .error .panic := by
  simp only [Gen.Fn.SolarUtil_GetWeeksOfMonth, getDaysOfMonth_panic y m h]
  by_cases h : a1 - start < 0 <;> simp [h]

/-! ## 2. SolarWeek -/

def mi_weekToM (w : Gen.Fn.SolarWeek) : Model.SolarWeek := ⟨w.year, w.month, w.day, w.start⟩
def mi_weekOfM (w : Model.SolarWeek) : Gen.Fn.SolarWeek := ⟨w.year, w.month, w.day, w.start⟩

@[simp] theorem mi_weekToM_ofM (w : Model.SolarWeek) : mi_weekToM (mi_weekOfM w) = w := rfl
@[simp] theorem mi_weekOfM_toM (w : Gen.Fn.SolarWeek) : mi_weekOfM (mi_weekToM w) = w := rfl

theorem newSolarWeekFromYmd_eq (y m d start : Int) :
    Gen.Fn.calendar_NewSolarWeekFromYmd y m d start = .ok (mi_weekOfM ⟨y, m, d, start⟩) := rfl

@[simp] theorem solarWeekGetYear_eq (w : Gen.Fn.SolarWeek) :
    Gen.Fn.calendar_SolarWeek_GetYear w = .ok (mi_weekToM w).year := rfl
@[simp] theorem solarWeekGetMonth_eq (w : Gen.Fn.SolarWeek) :
    Gen.Fn.calendar_SolarWeek_GetMonth w = .ok (mi_weekToM w).month := rfl

/-- `SolarWeek.GetIndex` with the weekday of the first of the month left abstract. -/
theorem mi_getIndex (k : Int) (w : Gen.Fn.SolarWeek) :
    Gen.Fn.calendar_SolarWeek_GetIndex k w =
      .ok (((if w.year = 1582 ∧ w.month = 10 ∧ w.day > 4 then w.day - 10 else w.day) +
        Model.wrap7 (k - w.start) + 6) / 7) := by
  simp only [Gen.Fn.calendar_SolarWeek_GetIndex, Model.wrap7]
  by_cases h : k - w.start < 0 <;>
    by_cases c : w.year = 1582 ∧ w.month = 10 ∧ w.day > 4
  · obtain ⟨c1, c2, c3⟩ := c
    simp [h, c1, c2, c3, mi_ceil7]
  · have c'' : ¬ ((1582 = w.year ∧ 10 = w.month) ∧ 4 < w.day) :=
      fun e => c ⟨e.1.1.symm, e.1.2.symm, e.2⟩
    simp [h, c, c'', mi_ceil7]
  · obtain ⟨c1, c2, c3⟩ := c
    simp [h, c1, c2, c3, mi_ceil7]
  · have c'' : ¬ ((1582 = w.year ∧ 10 = w.month) ∧ 4 < w.day) :=
      fun e => c ⟨e.1.1.symm, e.1.2.symm, e.2⟩
    simp [h, c, c'', mi_ceil7]

/-- Atom `a1` = `NewSolarFromYmd(year, month, 1).GetWeek()` = `Model.week year month 1`
(when that constructor does not panic, i.e. `1 ≤ month ≤ 12`; the generated function itself
does not see the panic, it is inside the atom). -/
theorem solarWeekGetIndex_eq (w : Gen.Fn.SolarWeek) :
    Gen.Fn.calendar_SolarWeek_GetIndex (Model.week w.year w.month 1) w =
      .ok (mi_weekToM w).index := mi_getIndex _ w

/-- Atom `a1` = `NewSolarFromYmd(year, 1, 1).GetWeek()` = `Model.week year 1 1`. For a month
`≥ 14` the Go code panics inside `GetDaysInYear` (table index), where the model is totalised. -/
theorem solarWeekGetIndexInYear_eq (w : Gen.Fn.SolarWeek) (hm : w.month ≤ 13) :
    Gen.Fn.calendar_SolarWeek_GetIndexInYear (Model.week w.year 1 1) w =
      (match (mi_weekToM w).indexInYear with | some r => .ok r | none => .error .panic) := by
  simp only [Gen.Fn.calendar_SolarWeek_GetIndexInYear, Model.SolarWeek.indexInYear, mi_weekToM,
    Model.wrap7, getDaysInYear_eq _ _ _ hm]
  cases Model.daysInYear w.year w.month w.day with
  | none => by_cases h : Model.week w.year 1 1 - w.start < 0 <;> simp [h]
  | some diy => by_cases h : Model.week w.year 1 1 - w.start < 0 <;> simp [h, mi_ceil7]

theorem solarWeekGetIndexInYear_panic (a1 : Int) (w : Gen.Fn.SolarWeek) (hm : 13 < w.month) :
    Gen.Fn.calendar_SolarWeek_GetIndexInYear a1 w = .error .panic := by
  simp only [Gen.Fn.calendar_SolarWeek_GetIndexInYear, getDaysInYear_panic _ _ _ hm]
  by_cases h : a1 - w.start < 0 <;> simp [h]

/-- Atom `a1` = `c.GetWeek()` for `c = NewSolarFromYmd(year, month, day)`, i.e.
`Model.week year month day`.  The `NextDay` call is the hypothesis `mi_NextDayOk`. -/
theorem solarWeekGetFirstDay_eq (fuel : Nat) (w : Gen.Fn.SolarWeek)
    (hnd : mi_NextDayOk fuel ⟨w.year, w.month, w.day, 0, 0, 0⟩
      (-(Model.wrap7 (Model.week w.year w.month w.day - w.start)))) :
    Gen.Fn.calendar_SolarWeek_GetFirstDay fuel (Model.week w.year w.month w.day) w =
      (match (mi_weekToM w).firstDay with | some r => .ok (ofM r) | none => .error .panic) := by
  simp only [Gen.Fn.calendar_SolarWeek_GetFirstDay, Model.SolarWeek.firstDay, mi_weekToM,
    newSolarFromYmd_eq]
  cases hc : Model.newSolarYmd w.year w.month w.day with
  | none => simp
  | some c =>
    have hc' : c = ⟨w.year, w.month, w.day, 0, 0, 0⟩ := by
      unfold Model.newSolarYmd Model.newSolar at hc
      split at hc
      · injection hc with hc; exact hc.symm
      · cases hc
    subst hc'
    unfold mi_NextDayOk at hnd
    simp only [Model.wrap7, toM_mk] at hnd
    simp only [c1_ok_bind, ofM_mk, Model.Solar.week, Model.wrap7]
    by_cases h : Model.week w.year w.month w.day - w.start < 0
    · simp only [h, decide_true, ↓reduceIte] at hnd ⊢
      exact hnd
    · simp only [h, decide_false, Bool.false_eq_true, ↓reduceIte] at hnd ⊢
      exact hnd


end FnEq
