import Model.Civil
set_option linter.unusedVariables false
namespace Model

/-- `jdn` with the Boolean flag turned into a `Prop`-`if`. -/
theorem jdn_eq_step (y m d : Int) :
    jdn y m d =
      (1461 * ((if m ≤ 2 then y - 1 else y) + 4716)) / 4
        + (306001 * ((if m ≤ 2 then m + 12 else m) + 1)) / 10000 + d
        + (if y * 372 + m * 31 + d ≥ 588829 then
            2 - (if m ≤ 2 then y - 1 else y) / 100 + (if m ≤ 2 then y - 1 else y) / 100 / 4
           else 0) - 1524 := by
  unfold jdn
  by_cases h : y * 372 + m * 31 + d ≥ 588829 <;> simp [h]

theorem isLeapYear_eq (y : Int) :
    isLeapYear y = true ↔
      (if y < 1600 then y % 4 = 0 else (y % 4 = 0 ∧ y % 100 ≠ 0) ∨ y % 400 = 0) := by
  unfold isLeapYear
  split <;> simp

theorem quarter_step (y : Int) :
    1461 * (y + 4716) / 4 = 1461 * (y - 1 + 4716) / 4 + (if y % 4 = 0 then 366 else 365) := by
  have h : y % 4 = 0 ∨ y % 4 = 1 ∨ y % 4 = 2 ∨ y % 4 = 3 := by omega
  rcases h with h | h | h | h <;> simp [h] <;> omega

theorem jdn_feb_succ (y : Int) : jdn y 3 1 = jdn y 2 1 + daysOfMonth y 2 := by
  simp [jdn_eq_step, daysOfMonth, baseDaysOfMonth, isLeapYear_eq]
  have h1 := quarter_step y
  repeat' split
  all_goals omega

/-- In the model (`Int` division is Euclidean, hence periodic) the month-length identities hold for
every year, not only `y ≥ 1`. -/
theorem jdn_month_succ_all (y m : Int) (hm1 : 1 ≤ m) (hm : m ≤ 11) :
    jdn y (m + 1) 1 = jdn y m 1 + daysOfMonth y m := by
  have hc : m = 1 ∨ m = 2 ∨ m = 3 ∨ m = 4 ∨ m = 5 ∨ m = 6 ∨ m = 7 ∨ m = 8 ∨ m = 9 ∨ m = 10 ∨ m = 11 := by
    omega
  rcases hc with rfl | rfl | rfl | rfl | rfl | rfl | rfl | rfl | rfl | rfl | rfl
  case inr.inl => exact jdn_feb_succ y
  all_goals simp [jdn_eq_step, daysOfMonth, baseDaysOfMonth, isLeapYear_eq]
  all_goals (repeat' split)
  all_goals omega

theorem jdn_year_succ_all (y : Int) : jdn (y + 1) 1 1 = jdn y 12 1 + daysOfMonth y 12 := by
  simp [jdn_eq_step, daysOfMonth, baseDaysOfMonth]
  repeat' split
  all_goals omega

theorem jdn_year_len_all (y : Int) : jdn (y + 1) 1 1 = jdn y 1 1 + daysOfYear y := by
  simp [jdn_eq_step, daysOfYear, isLeapYear_eq]
  have h1 := quarter_step y
  repeat' split
  all_goals omega

/-- consecutive first-of-month day numbers differ by the month length (Oct 1582 has 21 days) -/
theorem jdn_month_succ (y m : Int) (hy : 1 ≤ y) (hm1 : 1 ≤ m) (hm : m ≤ 11) :
    jdn y (m + 1) 1 = jdn y m 1 + daysOfMonth y m := jdn_month_succ_all y m hm1 hm

theorem jdn_year_succ (y : Int) (hy : 1 ≤ y) : jdn (y + 1) 1 1 = jdn y 12 1 + daysOfMonth y 12 :=
  jdn_year_succ_all y

theorem jdn_year_len (y : Int) (hy : 1 ≤ y) : jdn (y + 1) 1 1 = jdn y 1 1 + daysOfYear y :=
  jdn_year_len_all y

/-- the weekday advances by one per day, across the 1582 switch too -/

theorem week_nextDay (s r : Solar) (n : Int) (h : r.jdn = s.jdn + n) : r.week = (s.week + n) % 7 := by
  unfold Solar.week week
  unfold Solar.jdn at h
  omega

/-! ### linear day coordinate of the loop state -/

/-- day number of the loop state `(y, m, d)` where `d` is the (possibly out-of-range, and in
October 1582 compressed) day of month -/
def lin (y m d : Int) : Int := jdn y m 1 + (d - 1)

def comp (y m d : Int) : Int := if y = 1582 ∧ m = 10 ∧ d > 4 then d - 10 else d
def uncomp (y m d : Int) : Int := if y = 1582 ∧ m = 10 ∧ d > 4 then d + 10 else d

theorem daysOfMonth_bounds (y m : Int) (hm1 : 1 ≤ m) (hm : m ≤ 12) :
    21 ≤ daysOfMonth y m ∧ daysOfMonth y m ≤ 31 := by
  have hc : m = 1 ∨ m = 2 ∨ m = 3 ∨ m = 4 ∨ m = 5 ∨ m = 6 ∨ m = 7 ∨ m = 8 ∨ m = 9 ∨ m = 10 ∨ m = 11 ∨ m = 12 := by
    omega
  rcases hc with rfl | rfl | rfl | rfl | rfl | rfl | rfl | rfl | rfl | rfl | rfl | rfl
  all_goals simp [daysOfMonth, baseDaysOfMonth]
  all_goals (repeat' split)
  all_goals omega

theorem jdn_lin_of_g (y m d : Int)
    (hg : (y * 372 + m * 31 + d ≥ 588829) ↔ (y * 372 + m * 31 + 1 ≥ 588829)) :
    jdn y m d = jdn y m 1 + (d - 1) := by
  rw [jdn_eq_step, jdn_eq_step]
  simp only [hg]
  repeat' split
  all_goals omega

theorem validYmd_iff_step (y m d : Int) :
    validYmd y m d = true ↔
      (1 ≤ m ∧ m ≤ 12 ∧ 1 ≤ d ∧ d ≤ 31 ∧
        (if y = 1582 ∧ m = 10 then ¬ (4 < d ∧ d < 15) else d ≤ daysOfMonth y m)) := by
  unfold validYmd
  split
  · simp [Bool.and_eq_true, decide_eq_true_eq, and_assoc]
    intros
    omega
  · simp [Bool.and_eq_true, decide_eq_true_eq, and_assoc]

theorem jdn_comp (y m d : Int) (hv : validYmd y m d = true) :
    jdn y m d = lin y m (comp y m d) ∧ 1 ≤ comp y m d ∧ comp y m d ≤ daysOfMonth y m := by
  rw [validYmd_iff_step] at hv
  obtain ⟨hm1, hm, hd1, hd, hx⟩ := hv
  unfold lin comp
  by_cases hO : y = 1582 ∧ m = 10
  · obtain ⟨rfl, rfl⟩ := hO
    simp at hx
    simp [jdn_eq_step, daysOfMonth]
    repeat' split
    all_goals omega
  · simp [hO] at hx
    have hc : ¬ (y = 1582 ∧ m = 10 ∧ d > 4) := fun h => hO ⟨h.1, h.2.1⟩
    simp only [hc, if_false]
    refine ⟨jdn_lin_of_g y m d (by omega), hd1, hx⟩

theorem jdn_uncomp (y m d : Int) (hm1 : 1 ≤ m) (hm : m ≤ 12) (hd1 : 1 ≤ d)
    (hd : d ≤ daysOfMonth y m) :
    validYmd y m (uncomp y m d) = true ∧ jdn y m (uncomp y m d) = lin y m d := by
  have hb := daysOfMonth_bounds y m hm1 hm
  rw [validYmd_iff_step]
  unfold lin uncomp
  by_cases hO : y = 1582 ∧ m = 10
  · obtain ⟨rfl, rfl⟩ := hO
    simp [daysOfMonth] at hd
    simp [jdn_eq_step]
    repeat' split
    all_goals omega
  · have hc : ¬ (y = 1582 ∧ m = 10 ∧ d > 4) := fun h => hO ⟨h.1, h.2.1⟩
    simp only [hc, hO, if_false]
    refine ⟨⟨hm1, hm, hd1, by omega, hd⟩, jdn_lin_of_g y m d (by omega)⟩

/-! ### the loops -/

theorem lin_month_succ (y m d : Int) (hm1 : 1 ≤ m) (hm : m ≤ 11) :
    lin y (m + 1) (d - daysOfMonth y m) = lin y m d := by
  unfold lin
  have := jdn_month_succ_all y m hm1 hm
  omega

theorem lin_year_succ (y d : Int) :
    lin (y + 1) 1 (d - daysOfMonth y 12) = lin y 12 d := by
  unfold lin
  have := jdn_year_succ_all y
  omega

theorem fwdLoop_spec (fuel : Nat) : ∀ (y m d : Int), 1 ≤ m → m ≤ 12 → 1 ≤ d →
    d ≤ 21 + 21 * (fuel : Int) →
    1 ≤ (fwdLoop fuel y m d).2.1 ∧ (fwdLoop fuel y m d).2.1 ≤ 12 ∧
    1 ≤ (fwdLoop fuel y m d).2.2 ∧
    (fwdLoop fuel y m d).2.2 ≤ daysOfMonth (fwdLoop fuel y m d).1 (fwdLoop fuel y m d).2.1 ∧
    lin (fwdLoop fuel y m d).1 (fwdLoop fuel y m d).2.1 (fwdLoop fuel y m d).2.2 = lin y m d := by
  induction fuel with
  | zero =>
    intro y m d hm1 hm hd1 hf
    have hb := daysOfMonth_bounds y m hm1 hm
    simp only [fwdLoop]
    refine ⟨hm1, hm, hd1, by omega, trivial⟩
  | succ k ih =>
    intro y m d hm1 hm hd1 hf
    have hb := daysOfMonth_bounds y m hm1 hm
    simp only [fwdLoop]
    by_cases hgt : d > daysOfMonth y m
    · simp only [hgt, if_true]
      by_cases hm12 : m + 1 > 12
      · simp only [hm12, if_true]
        have hm' : m = 12 := by omega
        subst hm'
        have := ih (y + 1) 1 (d - daysOfMonth y 12) (by omega) (by omega) (by omega) (by omega)
        rw [lin_year_succ y d] at this
        exact this
      · simp only [hm12, if_false]
        have := ih y (m + 1) (d - daysOfMonth y m) (by omega) (by omega) (by omega) (by omega)
        rw [lin_month_succ y m d hm1 (by omega)] at this
        exact this
    · simp only [hgt, if_false]
      refine ⟨hm1, hm, hd1, by omega, trivial⟩

theorem bwdLoop_spec (fuel : Nat) : ∀ (y m d n : Int),
    1 ≤ m → m ≤ 12 → d + n ≤ daysOfMonth y m → 1 ≤ d + n + 21 * (fuel : Int) →
    1 ≤ (bwdLoop fuel y m d n).2.1 ∧ (bwdLoop fuel y m d n).2.1 ≤ 12 ∧
    1 ≤ (bwdLoop fuel y m d n).2.2 + n ∧
    (bwdLoop fuel y m d n).2.2 + n ≤ daysOfMonth (bwdLoop fuel y m d n).1 (bwdLoop fuel y m d n).2.1 ∧
    lin (bwdLoop fuel y m d n).1 (bwdLoop fuel y m d n).2.1 (bwdLoop fuel y m d n).2.2 = lin y m d := by
  induction fuel with
  | zero =>
    intro y m d n hm1 hm hdn hf
    simp only [bwdLoop]
    refine ⟨hm1, hm, by omega, hdn, trivial⟩
  | succ k ih =>
    intro y m d n hm1 hm hdn hf
    simp only [bwdLoop]
    by_cases hle : d + n ≤ 0
    · simp only [hle, if_true]
      by_cases hm0 : m - 1 < 1
      · simp only [hm0, if_true]
        have hm' : m = 1 := by omega
        subst hm'
        have hb := daysOfMonth_bounds (y - 1) 12 (by omega) (by omega)
        have := ih (y - 1) 12 (d + daysOfMonth (y - 1) 12) n (by omega) (by omega) (by omega) (by omega)
        have hl : lin (y - 1) 12 (d + daysOfMonth (y - 1) 12) = lin y 1 d := by
          have h := lin_year_succ (y - 1) (d + daysOfMonth (y - 1) 12)
          rw [show y - 1 + 1 = y by omega,
            show d + daysOfMonth (y - 1) 12 - daysOfMonth (y - 1) 12 = d by omega] at h
          exact h.symm
        rw [hl] at this
        exact this
      · simp only [hm0, if_false]
        have hb := daysOfMonth_bounds y (m - 1) (by omega) (by omega)
        have := ih y (m - 1) (d + daysOfMonth y (m - 1)) n (by omega) (by omega) (by omega) (by omega)
        have hl : lin y (m - 1) (d + daysOfMonth y (m - 1)) = lin y m d := by
          have h := lin_month_succ y (m - 1) (d + daysOfMonth y (m - 1)) (by omega) (by omega)
          rw [show m - 1 + 1 = m by omega,
            show d + daysOfMonth y (m - 1) - daysOfMonth y (m - 1) = d by omega] at h
          exact h.symm
        rw [hl] at this
        exact this
    · simp only [hle, if_false]
      refine ⟨hm1, hm, by omega, hdn, trivial⟩

/-! ### `nextDayYmd` / `Solar.nextDay` -/

/-- the loop part of `nextDayYmd` (result still in compressed October-1582 numbering) -/
def stepCore (y m d n : Int) : Int × Int × Int :=
  if n > 0 then fwdLoop (n.toNat + 1) y m (comp y m d + n)
  else if n < 0 then
    ((bwdLoop (n.natAbs + 1) y m (comp y m d) n).1, (bwdLoop (n.natAbs + 1) y m (comp y m d) n).2.1,
      (bwdLoop (n.natAbs + 1) y m (comp y m d) n).2.2 + n)
  else (y, m, comp y m d)

theorem nextDayYmd_eq (y m d n : Int) :
    nextDayYmd y m d n =
      ((stepCore y m d n).1, (stepCore y m d n).2.1,
        uncomp (stepCore y m d n).1 (stepCore y m d n).2.1 (stepCore y m d n).2.2) := by
  unfold nextDayYmd stepCore comp uncomp
  rfl

theorem stepCore_spec (y m d n : Int) (hv : validYmd y m d = true) :
    1 ≤ (stepCore y m d n).2.1 ∧ (stepCore y m d n).2.1 ≤ 12 ∧ 1 ≤ (stepCore y m d n).2.2 ∧
    (stepCore y m d n).2.2 ≤ daysOfMonth (stepCore y m d n).1 (stepCore y m d n).2.1 ∧
    lin (stepCore y m d n).1 (stepCore y m d n).2.1 (stepCore y m d n).2.2 = jdn y m d + n := by
  obtain ⟨hj, hc1, hc2⟩ := jdn_comp y m d hv
  have hmm := (validYmd_iff_step y m d).1 hv
  obtain ⟨hm1, hm, -⟩ := hmm
  have hb := daysOfMonth_bounds y m hm1 hm
  unfold stepCore
  by_cases hpos : n > 0
  · simp only [hpos, if_true]
    have h := fwdLoop_spec (n.toNat + 1) y m (comp y m d + n) hm1 hm (by omega) (by omega)
    obtain ⟨h2, h3, h4, h5, h6⟩ := h
    refine ⟨h2, h3, h4, h5, ?_⟩
    rw [h6, hj]; unfold lin; omega
  · by_cases hneg : n < 0
    · simp only [hpos, hneg, if_true, if_false]
      have h := bwdLoop_spec (n.natAbs + 1) y m (comp y m d) n hm1 hm (by omega) (by omega)
      obtain ⟨h2, h3, h4, h5, h6⟩ := h
      refine ⟨h2, h3, h4, h5, ?_⟩
      rw [hj, ← h6]; unfold lin; omega
    · simp only [hpos, hneg, if_false]
      have hn : n = 0 := by omega
      subst hn
      refine ⟨hm1, hm, hc1, hc2, ?_⟩
      rw [hj]; omega

theorem nextDayYmd_spec (y m d n : Int) (hv : validYmd y m d = true) :
    validYmd (nextDayYmd y m d n).1 (nextDayYmd y m d n).2.1 (nextDayYmd y m d n).2.2 = true ∧
    jdn (nextDayYmd y m d n).1 (nextDayYmd y m d n).2.1 (nextDayYmd y m d n).2.2 = jdn y m d + n := by
  rw [nextDayYmd_eq]
  simp only
  obtain ⟨h1, h2, h3, h4, h5⟩ := stepCore_spec y m d n hv
  obtain ⟨ha, hb⟩ := jdn_uncomp _ _ _ h1 h2 h3 h4
  exact ⟨ha, hb.trans h5⟩

theorem Solar.nextDay_eq (s : Solar) (n : Int) :
    s.nextDay n =
      newSolar (nextDayYmd s.year s.month s.day n).1 (nextDayYmd s.year s.month s.day n).2.1
        (nextDayYmd s.year s.month s.day n).2.2 s.hour s.minute s.second := rfl

/-- Stronger variant of `nextDay_spec`: in the MODEL (unbounded `Int`, Euclidean `/`) neither the
lower bound on the start year nor the one on the result year is needed.  (For years `< 1` the model's
`/`,`%` no longer coincide with Go's truncating ones, so this extra generality says nothing about the
Go code; `nextDay_spec` below is the statement that transfers.) -/
theorem nextDay_spec_strong (s : Solar) (n : Int) (hv : s.valid = true) :
    ∃ r, s.nextDay n = some r ∧ r.valid = true ∧ r.jdn = s.jdn + n ∧
         r.hour = s.hour ∧ r.minute = s.minute ∧ r.second = s.second := by
  unfold Solar.valid at hv
  rw [Bool.and_eq_true] at hv
  obtain ⟨hv1, hv2⟩ := hv
  obtain ⟨ha, hb⟩ := nextDayYmd_spec s.year s.month s.day n hv1
  rw [Solar.nextDay_eq]
  unfold newSolar
  simp only [ha, hv2, Bool.and_self, if_true]
  refine ⟨_, rfl, ?_, ?_, rfl, rfl, rfl⟩
  · simp only [Solar.valid, ha, hv2, Bool.and_self]
  · exact hb

/-- stepping n days changes the day number by exactly n, yields a valid date and keeps the time of day;
    any n of either sign, no bound on n or on the year above -/
theorem nextDay_spec (s : Solar) (n : Int) (hv : s.valid = true) (hy : 1 ≤ s.year)
    (hr : 1 ≤ (nextDayYmd s.year s.month s.day n).1) :
    ∃ r, s.nextDay n = some r ∧ r.valid = true ∧ r.jdn = s.jdn + n ∧
         r.hour = s.hour ∧ r.minute = s.minute ∧ r.second = s.second :=
  nextDay_spec_strong s n hv

end Model

#print axioms Model.nextDay_spec
#print axioms Model.nextDay_spec_strong
#print axioms Model.jdn_month_succ
#print axioms Model.jdn_year_succ
#print axioms Model.jdn_year_len
#print axioms Model.week_nextDay
