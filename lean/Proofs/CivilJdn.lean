import Model.Civil
set_option linter.unusedVariables false
namespace Model

/-! ## The "Julian core": the part of the Meeus formulas shared by both calendars -/

/-- inverse core: from the corrected day count `d2` to (year, month, day) -/
def invCore (d2 : Int) : Int × Int × Int :=
  let K := (20 * d2 - 2442) / 7305
  let d3 := d2 - (1461 * K) / 4
  let Mo := (1000 * d3) / 30601
  let day := d3 - (30601 * Mo) / 1000
  if Mo > 13 then (K - 4715, Mo - 13, day) else (K - 4716, Mo - 1, day)

/-- the corrected day count fed to the inverse core -/
def corr (n : Int) : Int :=
  (if n ≥ 2299161 then n + 1 + (4 * n - 7468865) / 146097 - (4 * n - 7468865) / 146097 / 4
  else n) + 1524

theorem fromJdn_eq (n : Int) : fromJdn n = invCore (corr n) := by
  rfl

/-- forward core, March-based year `Y` and month `M ∈ 3..14` -/
def fwdCore (Y M d : Int) : Int :=
  (1461 * (Y + 4716)) / 4 + (306001 * (M + 1)) / 10000 + d

/-- Julian-rule month length in March-based terms -/
def okDay (Y M d : Int) : Prop :=
  1 ≤ d ∧ d ≤ 31 ∧ ((M = 4 ∨ M = 6 ∨ M = 9 ∨ M = 11) → d ≤ 30) ∧
  (M = 14 → d ≤ 29) ∧ (M = 14 → (Y + 1) % 4 ≠ 0 → d ≤ 28)

/-- A: inverse ∘ forward on the core -/
theorem coreA_year (Y M d : Int) (hM : 3 ≤ M) (hM' : M ≤ 14) (hd : okDay Y M d) :
    (20 * fwdCore Y M d - 2442) / 7305 = Y + 4716 := by
  unfold fwdCore
  obtain ⟨h1, h2, h3, h4, h5⟩ := hd
  have hcases : M = 3 ∨ M = 4 ∨ M = 5 ∨ M = 6 ∨ M = 7 ∨ M = 8 ∨ M = 9 ∨ M = 10 ∨ M = 11 ∨
      M = 12 ∨ M = 13 ∨ M = 14 := by omega
  rcases hcases with h | h | h | h | h | h | h | h | h | h | h | h <;> subst h <;> omega

theorem coreA_md (K M d : Int) (hM : 3 ≤ M) (hM' : M ≤ 14) (h1 : 1 ≤ d) (h2 : d ≤ 31)
    (h3 : (M = 4 ∨ M = 6 ∨ M = 9 ∨ M = 11) → d ≤ 30) (h4 : M = 14 → d ≤ 29) :
    (1000 * ((306001 * (M + 1)) / 10000 + d)) / 30601 = M + 1 ∧
    ((306001 * (M + 1)) / 10000 + d) - (30601 * (M + 1)) / 1000 = d := by
  have hcases : M = 3 ∨ M = 4 ∨ M = 5 ∨ M = 6 ∨ M = 7 ∨ M = 8 ∨ M = 9 ∨ M = 10 ∨ M = 11 ∨
      M = 12 ∨ M = 13 ∨ M = 14 := by omega
  rcases hcases with h | h | h | h | h | h | h | h | h | h | h | h <;> subst h <;> omega

theorem coreA (Y M d : Int) (hM : 3 ≤ M) (hM' : M ≤ 14) (hd : okDay Y M d) :
    invCore (fwdCore Y M d) =
      if M + 1 > 13 then (Y + 1, M - 12, d) else (Y, M, d) := by
  have hy := coreA_year Y M d hM hM' hd
  obtain ⟨h1, h2, h3, h4, h5⟩ := hd
  have hmd := coreA_md Y M d hM hM' h1 h2 h3 h4
  unfold invCore
  simp only [hy]
  have e : fwdCore Y M d - 1461 * (Y + 4716) / 4 = (306001 * (M + 1)) / 10000 + d := by
    unfold fwdCore; omega
  simp only [e, hmd.1, hmd.2]
  split <;> (rw [Prod.mk.injEq, Prod.mk.injEq]; omega)


/-- B: forward ∘ inverse on the core, stage 1 (year and remainder) -/
theorem coreB_d3 (d2 : Int) :
    let K := (20 * d2 - 2442) / 7305
    let d3 := d2 - (1461 * K) / 4
    123 ≤ d3 ∧ d3 ≤ 488 ∧ (d3 = 488 → K % 4 = 3) := by
  intro K d3
  omega

theorem coreB_md (d3 : Int) (h1 : 123 ≤ d3) (h2 : d3 ≤ 488) :
    let Mo := (1000 * d3) / 30601
    let day := d3 - (30601 * Mo) / 1000
    4 ≤ Mo ∧ Mo ≤ 15 ∧ 1 ≤ day ∧ day ≤ 31 ∧ ((Mo = 5 ∨ Mo = 7 ∨ Mo = 10 ∨ Mo = 12) → day ≤ 30) ∧
    (Mo = 15 → day ≤ 29) ∧ (Mo = 15 → day = 29 → d3 = 488) ∧
    (306001 * Mo) / 10000 + day = d3 := by
  intro Mo day
  have hMo : 4 ≤ Mo ∧ Mo ≤ 15 := by omega
  have hcases : Mo = 4 ∨ Mo = 5 ∨ Mo = 6 ∨ Mo = 7 ∨ Mo = 8 ∨ Mo = 9 ∨ Mo = 10 ∨ Mo = 11 ∨
      Mo = 12 ∨ Mo = 13 ∨ Mo = 14 ∨ Mo = 15 := by omega
  have hday : day = d3 - (30601 * Mo) / 1000 := rfl
  have hMo' : Mo = (1000 * d3) / 30601 := rfl
  rcases hcases with h | h | h | h | h | h | h | h | h | h | h | h <;> rw [h] at hday hMo' ⊢ <;> omega

/-- March-based year / month of a civil (y, m) -/
def mY (y m : Int) : Int := if m ≤ 2 then y - 1 else y
def mM (m : Int) : Int := if m ≤ 2 then m + 12 else m

theorem coreB (d2 : Int) :
    1 ≤ (invCore d2).2.1 ∧ (invCore d2).2.1 ≤ 12 ∧
    okDay (mY (invCore d2).1 (invCore d2).2.1) (mM (invCore d2).2.1) (invCore d2).2.2 ∧
    fwdCore (mY (invCore d2).1 (invCore d2).2.1) (mM (invCore d2).2.1) (invCore d2).2.2 = d2 := by
  have h3 := coreB_d3 d2
  simp only at h3
  obtain ⟨a1, a2, a3⟩ := h3
  have hm := coreB_md _ a1 a2
  simp only at hm
  obtain ⟨b1, b2, b3, b4, b5, b6, b7, b8⟩ := hm
  unfold invCore okDay fwdCore mY mM
  simp only
  generalize hK : (20 * d2 - 2442) / 7305 = K at *
  generalize hd3 : d2 - 1461 * K / 4 = d3 at *
  generalize hMo : 1000 * d3 / 30601 = Mo at *
  generalize hday : d3 - 30601 * Mo / 1000 = day at *
  split
  · simp only
    have : Mo - 13 ≤ 2 := by omega
    simp only [this, if_true]
    have e1 : K - 4715 - 1 + 4716 = K := by omega
    have e2 : Mo - 13 + 12 + 1 = Mo := by omega
    rw [e1, e2]
    refine ⟨by omega, by omega, ⟨b3, b4, by omega, by omega, ?_⟩, by omega⟩
    omega
  · simp only
    have : ¬ (Mo - 1 ≤ 2) := by omega
    simp only [this, if_false]
    have e1 : K - 4716 + 4716 = K := by omega
    have e2 : Mo - 1 + 1 = Mo := by omega
    rw [e1, e2]
    refine ⟨by omega, by omega, ⟨b3, b4, by omega, by omega, by omega⟩, by omega⟩


/-! ## Validity in Prop form -/

def leapP (y : Int) : Prop :=
  if y < 1600 then y % 4 = 0 else (y % 4 = 0 ∧ y % 100 ≠ 0) ∨ y % 400 = 0

theorem isLeapYear_iff (y : Int) : isLeapYear y = true ↔ leapP y := by
  unfold isLeapYear leapP
  split <;> simp

/-- Prop form of `validYmd` -/
def validP (y m d : Int) : Prop :=
  1 ≤ m ∧ m ≤ 12 ∧ 1 ≤ d ∧ d ≤ 31 ∧ ((m = 4 ∨ m = 6 ∨ m = 9 ∨ m = 11) → d ≤ 30) ∧
  (m = 2 → d ≤ 29) ∧ (m = 2 → ¬ leapP y → d ≤ 28) ∧ (y = 1582 → m = 10 → ¬ (4 < d ∧ d < 15))

theorem validYmd_iff (y m d : Int) : validYmd y m d = true ↔ validP y m d := by
  unfold validYmd validP
  simp only [Bool.and_eq_true, decide_eq_true_eq]
  by_cases hs : y = 1582 ∧ m = 10
  · simp only [hs, and_self, if_true]
    obtain ⟨rfl, rfl⟩ := hs
    simp
    omega
  · simp only [hs, if_false, decide_eq_true_eq]
    by_cases hl : leapP y
    · have hl' := (isLeapYear_iff y).2 hl
      constructor
      · rintro ⟨⟨⟨⟨h1, h2⟩, h3⟩, h4⟩, h5⟩
        have hcases : m = 1 ∨ m = 2 ∨ m = 3 ∨ m = 4 ∨ m = 5 ∨ m = 6 ∨ m = 7 ∨ m = 8 ∨ m = 9 ∨
          m = 10 ∨ m = 11 ∨ m = 12 := by omega
        rcases hcases with h | h | h | h | h | h | h | h | h | h | h | h <;> subst h <;>
          simp [daysOfMonth, baseDaysOfMonth, hl', hl] at h5 ⊢ <;> omega
      · rintro ⟨h1, h2, h3, h4, h5, h6, h7, h8⟩
        have hcases : m = 1 ∨ m = 2 ∨ m = 3 ∨ m = 4 ∨ m = 5 ∨ m = 6 ∨ m = 7 ∨ m = 8 ∨ m = 9 ∨
          m = 10 ∨ m = 11 ∨ m = 12 := by omega
        rcases hcases with h | h | h | h | h | h | h | h | h | h | h | h <;> subst h <;>
          simp [daysOfMonth, baseDaysOfMonth, hl', hl] at h7 ⊢ <;> omega
    · have hl' : isLeapYear y = false := by
        cases h : isLeapYear y
        · rfl
        · exact absurd ((isLeapYear_iff y).1 h) hl
      constructor
      · rintro ⟨⟨⟨⟨h1, h2⟩, h3⟩, h4⟩, h5⟩
        have hcases : m = 1 ∨ m = 2 ∨ m = 3 ∨ m = 4 ∨ m = 5 ∨ m = 6 ∨ m = 7 ∨ m = 8 ∨ m = 9 ∨
          m = 10 ∨ m = 11 ∨ m = 12 := by omega
        rcases hcases with h | h | h | h | h | h | h | h | h | h | h | h <;> subst h <;>
          simp [daysOfMonth, baseDaysOfMonth, hl', hl] at h5 ⊢ <;> omega
      · rintro ⟨h1, h2, h3, h4, h5, h6, h7, h8⟩
        have hcases : m = 1 ∨ m = 2 ∨ m = 3 ∨ m = 4 ∨ m = 5 ∨ m = 6 ∨ m = 7 ∨ m = 8 ∨ m = 9 ∨
          m = 10 ∨ m = 11 ∨ m = 12 := by omega
        rcases hcases with h | h | h | h | h | h | h | h | h | h | h | h <;> subst h <;>
          simp [daysOfMonth, baseDaysOfMonth, hl', hl] at h7 ⊢ <;> omega


/-! ## The Gregorian century correction -/

theorem fwdCore_bounds (Y M d : Int) (hM : 3 ≤ M) (hM' : M ≤ 14) (hd : okDay Y M d) :
    36525 * (Y / 100) + 1722519 + 123 ≤ fwdCore Y M d ∧
    fwdCore Y M d ≤ 36525 * (Y / 100) + 1722519 + 36647 ∧
    (fwdCore Y M d = 36525 * (Y / 100) + 1722519 + 36647 → M = 14 ∧ d = 29 ∧ Y % 100 = 99) ∧
    (M = 14 → d = 29 → Y % 100 = 99 → fwdCore Y M d = 36525 * (Y / 100) + 1722519 + 36647) := by
  unfold fwdCore
  obtain ⟨h1, h2, h3, h4, h5⟩ := hd
  have hcases : M = 3 ∨ M = 4 ∨ M = 5 ∨ M = 6 ∨ M = 7 ∨ M = 8 ∨ M = 9 ∨ M = 10 ∨ M = 11 ∨
      M = 12 ∨ M = 13 ∨ M = 14 := by omega
  rcases hcases with h | h | h | h | h | h | h | h | h | h | h | h <;> subst h <;> omega

theorem gregC_fwd (Y M d : Int) (hM : 3 ≤ M) (hM' : M ≤ 14) (hd : okDay Y M d)
    (hG : M = 14 → (Y + 1) % 100 = 0 → (Y + 1) % 400 ≠ 0 → d ≤ 28) :
    (4 * (fwdCore Y M d - 1524 + (2 - Y / 100 + Y / 100 / 4)) - 7468865) / 146097 = Y / 100 - 4 := by
  have hb := fwdCore_bounds Y M d hM hM' hd
  generalize fwdCore Y M d = D at *
  omega

theorem gregC_bwd (n Y M d : Int) (hM : 3 ≤ M) (hM' : M ≤ 14) (hd : okDay Y M d)
    (hD : fwdCore Y M d =
      n + 1 + (4 * n - 7468865) / 146097 - (4 * n - 7468865) / 146097 / 4 + 1524) :
    Y / 100 = (4 * n - 7468865) / 146097 + 4 ∧
    (M = 14 → d = 29 → (Y + 1) % 100 = 0 → (Y + 1) % 400 = 0) := by
  have hb := fwdCore_bounds Y M d hM hM' hd
  generalize fwdCore Y M d = D at *
  generalize hc : (4 * n - 7468865) / 146097 = c at *
  have hA : Y / 100 = c + 4 := by omega
  refine ⟨hA, ?_⟩
  intro h14 h29 h100
  have h99 : Y % 100 = 99 := by omega
  have hD' := hb.2.2.2 h14 h29 h99
  rw [hA] at hD'
  have hn : n = 36524 * c + c / 4 + 1903741 := by omega
  have hc3 : c % 4 = 3 := by omega
  omega


/-! ## Bridging `jdn` / `validYmd` to the core -/

theorem jdn_eq (y m d : Int) :
    jdn y m d = fwdCore (mY y m) (mM m) d - 1524 +
      (if y * 372 + m * 31 + d ≥ 588829 then 2 - mY y m / 100 + mY y m / 100 / 4 else 0) := by
  unfold jdn fwdCore mY mM
  simp only [decide_eq_true_eq]
  omega

theorem leapP_lt (y : Int) (h : y < 1600) : leapP y ↔ y % 4 = 0 := by
  unfold leapP; simp [h]

theorem leapP_ge (y : Int) (h : 1600 ≤ y) :
    leapP y ↔ ((y % 4 = 0 ∧ y % 100 ≠ 0) ∨ y % 400 = 0) := by
  unfold leapP
  have : ¬ y < 1600 := by omega
  simp [this]

theorem ok_of_valid (y m d : Int) (hv : validP y m d) :
    3 ≤ mM m ∧ mM m ≤ 14 ∧ okDay (mY y m) (mM m) d ∧
    (1582 ≤ y → mM m = 14 → (mY y m + 1) % 100 = 0 → (mY y m + 1) % 400 ≠ 0 → d ≤ 28) := by
  unfold validP at hv
  unfold okDay mY mM
  by_cases hy : y < 1600
  · rw [leapP_lt y hy] at hv
    by_cases hm : m ≤ 2
    · simp only [hm, if_true]; omega
    · simp only [hm, if_false]; omega
  · rw [leapP_ge y (by omega)] at hv
    by_cases hm : m ≤ 2
    · simp only [hm, if_true]; omega
    · simp only [hm, if_false]; omega

theorem valid_of_ok (y m d : Int) (h1 : 1 ≤ m) (h2 : m ≤ 12) (hd : okDay (mY y m) (mM m) d)
    (hl : y < 1600 ∨ (m = 2 → d = 29 → y % 100 = 0 → y % 400 = 0))
    (hg : y = 1582 → m = 10 → ¬ (4 < d ∧ d < 15)) : validP y m d := by
  unfold validP
  unfold okDay mY mM at hd
  by_cases hy : y < 1600
  · rw [leapP_lt y hy]
    by_cases hm : m ≤ 2
    · simp only [hm, if_true] at hd; omega
    · simp only [hm, if_false] at hd; omega
  · rw [leapP_ge y (by omega)]
    by_cases hm : m ≤ 2
    · simp only [hm, if_true] at hd; omega
    · simp only [hm, if_false] at hd; omega

/-- order thresholds: lexicographic key versus core day count -/
theorem core_thresholds (y m d : Int) (h1 : 1 ≤ m) (h2 : m ≤ 12) (h3 : 1 ≤ d) (h4 : d ≤ 31) :
    (y * 372 + m * 31 + d ≤ 588818 → fwdCore (mY y m) (mM m) d ≤ 2300684) ∧
    (588829 ≤ y * 372 + m * 31 + d → 2300695 ≤ fwdCore (mY y m) (mM m) d) ∧
    (588819 ≤ y * 372 + m * 31 + d → 2300685 ≤ fwdCore (mY y m) (mM m) d) ∧
    (y * 372 + m * 31 + d ≤ 588828 → fwdCore (mY y m) (mM m) d ≤ 2300694) ∧
    (1 ≤ y → 1722948 ≤ fwdCore (mY y m) (mM m) d) ∧
    (y ≤ 0 → fwdCore (mY y m) (mM m) d ≤ 1722947) := by
  unfold fwdCore mY mM
  have hcases : m = 1 ∨ m = 2 ∨ m = 3 ∨ m = 4 ∨ m = 5 ∨ m = 6 ∨ m = 7 ∨ m = 8 ∨ m = 9 ∨
    m = 10 ∨ m = 11 ∨ m = 12 := by omega
  rcases hcases with h | h | h | h | h | h | h | h | h | h | h | h <;> subst h <;>
    omega


/-! ## Main theorems -/

/-- a Gregorian-branch day number is at least 2299161 -/
theorem greg_ge (Y M d : Int) (hM : 3 ≤ M) (hM' : M ≤ 14) (hd : okDay Y M d)
    (h : 2300695 ≤ fwdCore Y M d) :
    2299161 ≤ fwdCore Y M d - 1524 + (2 - Y / 100 + Y / 100 / 4) := by
  have hb := fwdCore_bounds Y M d hM hM' hd
  generalize fwdCore Y M d = D at *
  have hA : 15 ≤ Y / 100 := by omega
  by_cases h15 : Y / 100 = 15
  · omega
  · omega

/-- the corrected day count of a valid date's day number is the core day count -/
theorem corr_jdn (y m d : Int) (hv : validP y m d) :
    corr (jdn y m d) = fwdCore (mY y m) (mM m) d := by
  obtain ⟨hM, hM', hd, hG⟩ := ok_of_valid y m d hv
  have hv' := hv
  obtain ⟨v1, v2, v3, v4, v5, v6, v7, v8⟩ := hv'
  have ht := core_thresholds y m d v1 v2 v3 v4
  rw [jdn_eq]
  by_cases hg : y * 372 + m * 31 + d ≥ 588829
  · simp only [hg, if_true]
    have hge := greg_ge _ _ _ hM hM' hd (ht.2.1 hg)
    have hy : 1582 ≤ y := by omega
    have hc := gregC_fwd _ _ _ hM hM' hd (hG hy)
    unfold corr
    simp only [hge, if_true]
    rw [hc]
    omega
  · simp only [hg, if_false]
    have hk : y * 372 + m * 31 + d ≤ 588818 := by
      by_cases h1582 : y = 1582
      · by_cases h10 : m = 10
        · have := v8 h1582 h10; omega
        · omega
      · omega
    have := ht.1 hk
    unfold corr
    have hlt : ¬ (fwdCore (mY y m) (mM m) d - 1524 + 0 ≥ 2299161) := by omega
    simp only [hlt, if_false]
    omega

/-- a valid date of year ≥ 1 converts to its day number and back unchanged; no upper bound on the year -/
theorem fromJdn_jdn (y m d : Int) (hy : 1 ≤ y) (hv : validYmd y m d = true) :
    fromJdn (jdn y m d) = (y, m, d) := by
  rw [validYmd_iff] at hv
  obtain ⟨hM, hM', hd, hG⟩ := ok_of_valid y m d hv
  rw [fromJdn_eq, corr_jdn y m d hv, coreA _ _ _ hM hM' hd]
  obtain ⟨v1, v2, v3, v4, v5, v6, v7, v8⟩ := hv
  unfold mY mM
  by_cases hm : m ≤ 2
  · simp only [hm, if_true]
    have : m + 12 + 1 > 13 := by omega
    simp only [this, if_true]
    rw [Prod.mk.injEq, Prod.mk.injEq]; omega
  · simp only [hm, if_false]
    have : ¬ (m + 1 > 13) := by omega
    simp only [this, if_false]

theorem jdn_lower (y m d : Int) (hy : 1 ≤ y) (hv : validYmd y m d = true) : 1721424 ≤ jdn y m d := by
  rw [validYmd_iff] at hv
  obtain ⟨hM, hM', hd, hG⟩ := ok_of_valid y m d hv
  obtain ⟨v1, v2, v3, v4, v5, v6, v7, v8⟩ := hv
  have ht := core_thresholds y m d v1 v2 v3 v4
  rw [jdn_eq]
  by_cases hg : y * 372 + m * 31 + d ≥ 588829
  · simp only [hg, if_true]
    have hge := greg_ge _ _ _ hM hM' hd (ht.2.1 hg)
    omega
  · simp only [hg, if_false]
    have := ht.2.2.2.2.1 hy
    omega

/-- hence the day number is injective on valid dates -/
theorem jdn_inj (y m d y' m' d' : Int) (hy : 1 ≤ y) (hy' : 1 ≤ y')
    (hv : validYmd y m d = true) (hv' : validYmd y' m' d' = true)
    (h : jdn y m d = jdn y' m' d') : (y, m, d) = (y', m', d') := by
  rw [← fromJdn_jdn y m d hy hv, ← fromJdn_jdn y' m' d' hy' hv', h]

/-- every day number from 0001-01-01 (JDN 1721424) on maps to a valid date whose day number it is; no upper bound -/
theorem jdn_fromJdn (n : Int) (h : 1721424 ≤ n) :
    validYmd (fromJdn n).1 (fromJdn n).2.1 (fromJdn n).2.2 = true ∧
    1 ≤ (fromJdn n).1 ∧
    jdn (fromJdn n).1 (fromJdn n).2.1 (fromJdn n).2.2 = n := by
  rw [validYmd_iff, fromJdn_eq, jdn_eq]
  obtain ⟨b1, b2, hd, hD⟩ := coreB (corr n)
  generalize (invCore (corr n)).1 = y at *
  generalize (invCore (corr n)).2.1 = m at *
  generalize (invCore (corr n)).2.2 = d at *
  have hd' := hd
  obtain ⟨d1, d2, d3, d4, d5⟩ := hd'
  have ht := core_thresholds y m d b1 b2 d1 d2
  have hMM : 3 ≤ mM m ∧ mM m ≤ 14 := by unfold mM; omega
  have hy1 : 1 ≤ y := by
    have hc : 1722948 ≤ corr n := by unfold corr; omega
    have := ht.2.2.2.2.2
    omega
  by_cases hn : n ≥ 2299161
  · have hcorr : corr n =
        n + 1 + (4 * n - 7468865) / 146097 - (4 * n - 7468865) / 146097 / 4 + 1524 := by
      unfold corr; simp only [hn, if_true]
    rw [hcorr] at hD
    obtain ⟨hA, hL⟩ := gregC_bwd n _ _ _ hMM.1 hMM.2 hd hD
    have hbig : 2300695 ≤ fwdCore (mY y m) (mM m) d := by omega
    have hg : y * 372 + m * 31 + d ≥ 588829 := by
      have := ht.2.2.2.1; omega
    refine ⟨?_, hy1, ?_⟩
    · apply valid_of_ok y m d b1 b2 hd
      · by_cases hy16 : y < 1600
        · exact Or.inl hy16
        · refine Or.inr ?_
          intro hm2 h29 h100
          have e1 : mM m = 14 := by unfold mM; omega
          have e2 : mY y m + 1 = y := by unfold mY; omega
          have := hL e1 h29
          rw [e2] at this
          exact this h100
      · omega
    · simp only [hg, if_true]
      rw [hD, hA]
      omega
  · have hcorr : corr n = n + 1524 := by
      unfold corr; simp only [hn, if_false]
    rw [hcorr] at hD
    have hk : y * 372 + m * 31 + d ≤ 588818 := by
      have := ht.2.2.1; omega
    have hg : ¬ (y * 372 + m * 31 + d ≥ 588829) := by omega
    refine ⟨?_, hy1, ?_⟩
    · apply valid_of_ok y m d b1 b2 hd
      · exact Or.inl (by omega)
      · omega
    · simp only [hg, if_false]
      omega

/-- the calendar switch: the day after 1582-10-04 is 1582-10-15 -/
theorem jdn_gap : jdn 1582 10 15 = jdn 1582 10 4 + 1 := by decide

end Model

#print axioms Model.jdn_fromJdn
#print axioms Model.fromJdn_jdn
#print axioms Model.jdn_lower
#print axioms Model.jdn_inj
#print axioms Model.jdn_gap
