/-
Proofs.FnSLunarFest — Lunar.GetFestivals (New Year's Eve rule) (string-mode generated code with atoms = model; split from the worker's FnSFest; helper prefix `sf_`).
-/
import Proofs.FnSFestBase

namespace FnSEq
open FnEq
open Gen.Fn (Err)
open Gen.Tables

/-! ### 1. `Lunar.GetFestivals` (atom `a1` = `lunar.Next(1)`) -/

theorem sf_LF_keys : LunarUtil.«FESTIVAL».map Prod.fst = LunarUtil.«FESTIVAL_ikeys».map sf_enc2 := by decide
theorem sf_LF_len : LunarUtil.«FESTIVAL_ikeys».all (fun a => a.length == 2) = true := by decide
/-- no table festival is called 除夕 -/
theorem sf_LF_noChuXi : LunarUtil.«FESTIVAL».all (fun p => p.2 != "除夕") = true := by decide

/-- the New Year's Eve condition of the Go code -/
def sf_chuXi (a1 l : Gen.FnS.Lunar) : Prop :=
  (l.month = 12 ∨ l.month = -12) ∧ l.day ≥ 29 ∧ l.year ≠ a1.year

instance (a1 l : Gen.FnS.Lunar) : Decidable (sf_chuXi a1 l) := by unfold sf_chuXi; infer_instance

/-- (c) exact shape, all inputs: the table entry of "month-day" (if any), then 除夕 (if the condition holds) -/
theorem lunarGetFestivals_shape (a1 l : Gen.FnS.Lunar) :
    Gen.FnS.calendar_Lunar_GetFestivals a1 l = .ok (
      (if Gen.FnS.mhas LunarUtil.«FESTIVAL» (Gen.FnS.fmtD l.month ++ "-" ++ Gen.FnS.fmtD l.day) = true
        then [Gen.FnS.mlookupS LunarUtil.«FESTIVAL» (Gen.FnS.fmtD l.month ++ "-" ++ Gen.FnS.fmtD l.day)] else []) ++
      (if (l.month = 12 ∨ l.month = -12) ∧ l.day ≥ 29 ∧ l.year ≠ a1.year then ["除夕"] else [])) := by
  unfold Gen.FnS.calendar_Lunar_GetFestivals
  simp only [lunarGetYear_eq, sb_bind_ok]
  generalize Gen.FnS.mhas LunarUtil.«FESTIVAL» _ = b
  generalize Gen.FnS.mlookupS LunarUtil.«FESTIVAL» _ = v
  have e12 : (-l.month = 12) = (l.month = -12) := propext ⟨fun h => by omega, fun h => by omega⟩
  by_cases hy : l.year = a1.year <;> by_cases hd : l.day ≥ 29 <;> by_cases hn : l.month < 0 <;>
    by_cases h12 : l.month = 12 <;> by_cases hm12 : l.month = -12 <;> cases b <;>
    first
      | omega
      | simp [hy, hd, hn, h12, hm12, e12, pure, Except.pure]

/-- (a) no panic, no fuel error: for all inputs the result is `.ok` -/
theorem lunarGetFestivals_ok (a1 l : Gen.FnS.Lunar) :
    ∃ r, Gen.FnS.calendar_Lunar_GetFestivals a1 l = .ok r :=
  ⟨_, lunarGetFestivals_shape a1 l⟩

/-- the table part never contains 除夕 -/
theorem sf_LF_base_noChuXi (k : String) :
    "除夕" ∉ (if Gen.FnS.mhas LunarUtil.«FESTIVAL» k = true then [Gen.FnS.mlookupS LunarUtil.«FESTIVAL» k] else []) := by
  rw [sf_optList]
  cases h : Model.lookupS LunarUtil.«FESTIVAL» k with
  | none => simp
  | some f =>
    obtain ⟨p, hp, hpf⟩ := sf_lookupS_mem _ _ _ h
    have := List.all_eq_true.mp sf_LF_noChuXi p hp
    simp only [bne_iff_ne, ne_eq] at this
    simp only [List.mem_singleton]
    intro e; exact this (by rw [hpf, ← e])

/-- (b) the New Year's Eve rule, all inputs: 除夕 is reported exactly when the month is the 12th (leap or
not), the day is ≥ 29 and the next day lies in another lunar year -/
theorem lunarGetFestivals_chuXi_iff (a1 l : Gen.FnS.Lunar) (r : List String)
    (h : Gen.FnS.calendar_Lunar_GetFestivals a1 l = .ok r) :
    "除夕" ∈ r ↔ ((l.month = 12 ∨ l.month = -12) ∧ l.day ≥ 29 ∧ l.year ≠ a1.year) := by
  rw [lunarGetFestivals_shape] at h
  injection h with h
  subst h
  rw [List.mem_append]
  constructor
  · rintro (h | h)
    · exact absurd h (sf_LF_base_noChuXi _)
    · by_cases c : (l.month = 12 ∨ l.month = -12) ∧ l.day ≥ 29 ∧ l.year ≠ a1.year
      · exact c
      · rw [if_neg c] at h; simp at h
  · intro c; right; rw [if_pos c]; simp

/-- 除夕, when present, is the LAST element and occurs once -/
theorem lunarGetFestivals_chuXi_last (a1 l : Gen.FnS.Lunar)
    (c : (l.month = 12 ∨ l.month = -12) ∧ l.day ≥ 29 ∧ l.year ≠ a1.year) :
    ∃ base, Gen.FnS.calendar_Lunar_GetFestivals a1 l = .ok (base ++ ["除夕"]) ∧ "除夕" ∉ base := by
  refine ⟨_, ?_, sf_LF_base_noChuXi (Gen.FnS.fmtD l.month ++ "-" ++ Gen.FnS.fmtD l.day)⟩
  rw [lunarGetFestivals_shape, if_pos c]

/-- the model's table part = the Go map read -/
theorem sf_LF_lookup (m d : Int) :
    Model.lookupI LunarUtil.«FESTIVAL_ikeys» LunarUtil.«FESTIVAL» [m, d]
      = Model.lookupS LunarUtil.«FESTIVAL» (Gen.FnS.fmtD m ++ "-" ++ Gen.FnS.fmtD d) :=
  sf_lookupI2 _ _ sf_LF_keys sf_LF_len m d

theorem sf_abs12 (m : Int) : (if m < 0 then -m else m) = 12 ↔ (m = 12 ∨ m = -12) := by
  by_cases h : m < 0 <;> simp only [h, if_true, if_false] <;> omega

/-- `Model.Lunar.festivals` restated: Go map read on the rendered key, 12th-month test as a disjunction -/
theorem sf_festivals_model (A : Model.Astro) (L : Model.Lunar) :
    L.festivals A =
      (if (L.month = 12 ∨ L.month = -12) ∧ L.day ≥ 29 then
        match L.next A 1 with
        | none => none
        | some nx => some ((match Model.lookupS LunarUtil.«FESTIVAL» (Gen.FnS.fmtD L.month ++ "-" ++ Gen.FnS.fmtD L.day) with
            | some f => [f] | none => []) ++ (if L.year ≠ nx.year then ["除夕"] else []))
      else some (match Model.lookupS LunarUtil.«FESTIVAL» (Gen.FnS.fmtD L.month ++ "-" ++ Gen.FnS.fmtD L.day) with
            | some f => [f] | none => [])) := by
  unfold Model.Lunar.festivals
  simp only [sf_LF_lookup, sf_abs12]
  by_cases c : (L.month = 12 ∨ L.month = -12) ∧ L.day ≥ 29
  · simp only [if_pos c]
    cases L.next A 1 with
    | none => rfl
    | some nx => by_cases hy : L.year ≠ nx.year <;> simp [hy] <;> rfl
  · simp only [if_neg c]; rfl

/-- (d) equality with the model. The atom `lunar.Next(1)` is evaluated by the Go code only when
|month| = 12 and day ≥ 29 (short-circuit `&&`); exactly there it is bound to the model's next day `nx`
(only its lunar year is used). -/
theorem lunarGetFestivals_eq (A : Model.Astro) (a1 l : Gen.FnS.Lunar) (terms : List Model.Solar)
    (ha1 : (l.month = 12 ∨ l.month = -12) → l.day ≥ 29 →
      ∃ nx, (lunarToM l terms).next A 1 = some nx ∧ a1.year = nx.year) :
    Gen.FnS.calendar_Lunar_GetFestivals a1 l
      = (match Model.Lunar.festivals A (lunarToM l terms) with | some r => .ok r | none => .error .panic) := by
  rw [lunarGetFestivals_shape, sf_optList, sf_festivals_model]
  by_cases c : (l.month = 12 ∨ l.month = -12) ∧ l.day ≥ 29
  · have c' : ((lunarToM l terms).month = 12 ∨ (lunarToM l terms).month = -12) ∧ (lunarToM l terms).day ≥ 29 := c
    obtain ⟨nx, hnx, hy⟩ := ha1 c.1 c.2
    rw [if_pos c']
    simp only [hnx]
    by_cases hyy : l.year = a1.year
    · have h1 : ¬ ((l.month = 12 ∨ l.month = -12) ∧ l.day ≥ 29 ∧ l.year ≠ a1.year) := fun h => h.2.2 hyy
      have h2 : ¬ ((lunarToM l terms).year ≠ nx.year) := fun h => h (hyy.trans hy)
      rw [if_neg h1, if_neg h2]; rfl
    · have h1 : (l.month = 12 ∨ l.month = -12) ∧ l.day ≥ 29 ∧ l.year ≠ a1.year := ⟨c.1, c.2, hyy⟩
      have h2 : (lunarToM l terms).year ≠ nx.year := fun h => hyy (Eq.trans h hy.symm)
      rw [if_pos h1, if_pos h2]; rfl
  · have c' : ¬ (((lunarToM l terms).month = 12 ∨ (lunarToM l terms).month = -12) ∧ (lunarToM l terms).day ≥ 29) := c
    have h1 : ¬ ((l.month = 12 ∨ l.month = -12) ∧ l.day ≥ 29 ∧ l.year ≠ a1.year) := fun h => c ⟨h.1, h.2.1⟩
    rw [if_neg c', if_neg h1, List.append_nil]; rfl

/-- outside the 12th month's last days the atom is irrelevant and the model needs no oracle fact -/
theorem lunarGetFestivals_eq_of_not_last (A : Model.Astro) (a1 l : Gen.FnS.Lunar) (terms : List Model.Solar)
    (c : ¬ ((l.month = 12 ∨ l.month = -12) ∧ l.day ≥ 29)) :
    Gen.FnS.calendar_Lunar_GetFestivals a1 l
      = (match Model.Lunar.festivals A (lunarToM l terms) with | some r => .ok r | none => .error .panic) :=
  lunarGetFestivals_eq A a1 l terms (fun h1 h2 => absurd ⟨h1, h2⟩ c)

/-- where Go would panic evaluating the atom (no next day / no lunar date for it), the model says `none` -/
theorem lunarGetFestivals_model_none (A : Model.Astro) (l : Gen.FnS.Lunar) (terms : List Model.Solar)
    (c : (l.month = 12 ∨ l.month = -12) ∧ l.day ≥ 29) (hn : (lunarToM l terms).next A 1 = none) :
    Model.Lunar.festivals A (lunarToM l terms) = none := by
  have c' : ((lunarToM l terms).month = 12 ∨ (lunarToM l terms).month = -12) ∧ (lunarToM l terms).day ≥ 29 := c
  rw [sf_festivals_model, if_pos c', hn]

/-- the model never fails otherwise -/
theorem lunarGetFestivals_model_some (A : Model.Astro) (L : Model.Lunar)
    (h : (L.month = 12 ∨ L.month = -12) → L.day ≥ 29 → ∃ nx, L.next A 1 = some nx) :
    ∃ r, L.festivals A = some r := by
  rw [sf_festivals_model]
  by_cases c : (L.month = 12 ∨ L.month = -12) ∧ L.day ≥ 29
  · obtain ⟨nx, hnx⟩ := h c.1 c.2
    rw [if_pos c, hnx]; exact ⟨_, rfl⟩
  · rw [if_neg c]; exact ⟨_, rfl⟩

/-- (d'), atom instantiated: with `a1` := the model's next day the generated code IS the model -/
theorem lunarGetFestivals_eq_next (A : Model.Astro) (l : Gen.FnS.Lunar) (terms : List Model.Solar) (nx : Model.Lunar)
    (hnx : (lunarToM l terms).next A 1 = some nx) :
    Gen.FnS.calendar_Lunar_GetFestivals (lunarOfM nx) l
      = (match Model.Lunar.festivals A (lunarToM l terms) with | some r => .ok r | none => .error .panic) :=
  lunarGetFestivals_eq A (lunarOfM nx) l terms (fun _ _ => ⟨nx, hnx, rfl⟩)


end FnSEq
