/-
Proofs.HolidayData — kernel-checked facts about the REGENERATED holiday table
`Gen.Tables.HolidayUtil.data` (821 records of 18 digits).

How the string is reached.  In this toolchain `String` is a structure over a UTF-8 `ByteArray`;
`String.toList` / `String.length` of a 14 778-character literal do not reduce in the kernel in any
reasonable time, and `decide +kernel` of a `String` equality runs through `ByteArray`s as well
(measured: > 9 min, then "deterministic timeout").  What the kernel CAN do cheaply is its built-in
conversion of a string literal `"…"` to `String.ofList [Char.ofNat …, …]`.  So:
  * `holiday_data_chars%` is a small term elaborator that reads the literal in the definition of
    `Gen.Tables.HolidayUtil.data` and produces the explicit list `dataChars : List Char`;
  * `data_eq : Gen.Tables.HolidayUtil.data = String.ofList dataChars` is `Eq.refl`, checked by the
    KERNEL (`kernel_rfl` only skips the elaborator's own, very slow, defeq pre-check; a wrong list would
    be rejected by the kernel when the theorem is added);
  * all other facts are `decide +kernel` on Bool checkers over `dataChars` (never `List.length` of
    a long list, which recurses too deeply in the kernel).
No axioms at all are used by `data_eq`; nothing here is `native_decide`/`unsafe`.
-/
import Lean
import Model.Holiday
import Gen.Tables
set_option linter.unusedVariables false
namespace Model
namespace HolidayData

open Lean Elab Tactic Meta in
/-- closes `a = b` with `Eq.refl a`, leaving the definitional-equality check to the kernel -/
elab "kernel_rfl" : tactic => do
  let g ← getMainGoal
  let t ← instantiateMVars (← g.getType)
  match t.eq? with
  | some (α, a, _) =>
    let u ← getLevel α
    g.assign (mkApp2 (mkConst ``Eq.refl [u]) α a)
  | none => throwError "kernel_rfl: not an equality"

open Lean Elab Term Meta in
/-- the explicit `List Char` of the string literal that defines `Gen.Tables.HolidayUtil.data` -/
elab "holiday_data_chars%" : term => do
  let some (.defnInfo v) := (← getEnv).find? ``Gen.Tables.HolidayUtil.data | throwError "no data"
  let .lit (.strVal s) := v.value | throwError "not a literal"
  let mut e := mkApp (mkConst ``List.nil [Level.zero]) (mkConst ``Char)
  for c in s.toList.reverse do
    e := mkApp3 (mkConst ``List.cons [Level.zero]) (mkConst ``Char)
      (mkApp (mkConst ``Char.ofNat) (mkRawNatLit c.toNat)) e
  return e

set_option maxRecDepth 1000000 in
noncomputable def dataChars : List Char := holiday_data_chars%

/-- kernel-checked: the table string IS the explicit character list -/
theorem data_eq : Gen.Tables.HolidayUtil.data = String.ofList dataChars := by kernel_rfl

theorem data_toList : Gen.Tables.HolidayUtil.data.toList = dataChars := by
  rw [data_eq, String.toList_ofList]

theorem data_length : Gen.Tables.HolidayUtil.data.length = dataChars.length := by
  rw [data_eq, String.length_ofList]

/-! ## generic checkers -/

/-- `l.length = n`, evaluated iteratively -/
def lenIs {α} : List α → Nat → Bool
  | [], n => n == 0
  | _ :: t, n => match n with
    | 0 => false
    | n + 1 => lenIs t n

theorem lenIs_sound {α} (l : List α) (n : Nat) (h : lenIs l n = true) : l.length = n := by
  induction l generalizing n with
  | nil =>
    simp only [lenIs, beq_iff_eq] at h
    rw [h]; rfl
  | cons a t ih =>
    cases n with
    | zero => simp [lenIs] at h
    | succ n => simp only [lenIs] at h; rw [List.length_cons, ih n h]

def chunk18 : Nat → List Char → List (List Char)
  | 0, _ => []
  | f + 1, l => match l with
    | [] => []
    | c :: cs => (c :: cs).take 18 :: chunk18 f ((c :: cs).drop 18)

theorem chunk18_flatten (f : Nat) (l : List Char) (h : l.length ≤ f) : (chunk18 f l).flatten = l := by
  induction f generalizing l with
  | zero =>
    have : l = [] := List.eq_nil_of_length_eq_zero (by omega)
    subst this; rfl
  | succ f ih =>
    cases l with
    | nil => rfl
    | cons c cs =>
      simp only [chunk18, List.flatten_cons]
      rw [ih _ (by simp only [List.length_drop, List.length_cons] at h ⊢; omega), List.take_append_drop]

theorem chunk18_wf (f : Nat) (l : List Char) (h : l.length ≤ f) (h18 : l.length % 18 = 0) :
    ∀ r ∈ chunk18 f l, r.length = 18 := by
  induction f generalizing l with
  | zero => intro r hr; simp [chunk18] at hr
  | succ f ih =>
    cases l with
    | nil => intro r hr; simp [chunk18] at hr
    | cons c cs =>
      intro r hr
      simp only [chunk18, List.mem_cons] at hr
      have hl : 18 ≤ (c :: cs).length := by
        simp only [List.length_cons] at h18 ⊢; omega
      rcases hr with rfl | hr
      · rw [List.length_take]; omega
      · exact ih _ (by rw [List.length_drop]; omega) (by rw [List.length_drop]; omega) r hr

/-! ## the records -/

noncomputable def dataRecs : List (List Char) := chunk18 1000000 dataChars

theorem dataChars_length : dataChars.length = 14778 :=
  lenIs_sound _ _ (by decide +kernel)

theorem dataRecs_length : dataRecs.length = 821 :=
  lenIs_sound _ _ (by decide +kernel)

/-- the table is the concatenation of `dataRecs` … -/
theorem data_flat : Gen.Tables.HolidayUtil.data.toList = dataRecs.flatten := by
  rw [data_toList, dataRecs, chunk18_flatten _ _ (by rw [dataChars_length]; decide)]

/-- … which are 821 records of 18 characters -/
theorem data_wf : ∀ r ∈ dataRecs, r.length = 18 :=
  chunk18_wf _ _ (by rw [dataChars_length]; decide) (by rw [dataChars_length])

theorem data_len : Gen.Tables.HolidayUtil.data.length % 18 = 0 := by
  rw [data_length, dataChars_length]

theorem data_size : Gen.Tables.HolidayUtil.size = 18 := rfl

theorem data_digits : Gen.Tables.HolidayUtil.data.toList.all Char.isDigit = true := by
  rw [data_toList]; decide +kernel

/-- every record's name digit indexes into `NAMES` (9 names) -/
theorem data_names_ok : ∀ r ∈ dataRecs,
    48 ≤ (r.getD 8 '0').toNat ∧ (r.getD 8 '0').toNat - 48 < Gen.Tables.HolidayUtil.NAMES.length := by
  have h : dataRecs.all (fun r => decide (48 ≤ (r.getD 8 '0').toNat ∧
      (r.getD 8 '0').toNat - 48 < Gen.Tables.HolidayUtil.NAMES.length)) = true := by decide +kernel
  intro r hr
  have := List.all_eq_true.1 h r hr
  simpa using this

/-- hence `buildHolidayForward` never panics on a record of the table -/
theorem data_buildable (data : List Char) : ∀ r ∈ dataRecs,
    (buildForward ⟨data, Gen.Tables.HolidayUtil.NAMES⟩ r).isSome = true := by
  intro r hr
  obtain ⟨h1, h2⟩ := data_names_ok r hr
  have h3 := data_wf r hr
  unfold buildForward
  rw [if_neg (by rw [h3, recSize]; omega), if_neg (by simp only []; omega)]
  rfl

/-! ## sorted by day -/

theorem hd_cmpChars_lt_trans (a b c : List Char) (h1 : cmpChars a b = .lt) (h2 : cmpChars b c = .lt) :
    cmpChars a c = .lt := by
  induction a generalizing b c with
  | nil =>
    cases b with
    | nil => simp [cmpChars] at h1
    | cons y ys =>
      cases c with
      | nil => simp [cmpChars] at h2
      | cons z zs => simp [cmpChars]
  | cons x xs ih =>
    cases b with
    | nil => simp [cmpChars] at h1
    | cons y ys =>
      cases c with
      | nil => simp [cmpChars] at h2
      | cons z zs =>
        simp only [cmpChars] at h1 h2 ⊢
        by_cases hxy : x < y
        · by_cases hyz : y < z
          · simp [Char.lt_trans hxy hyz]
          · by_cases hzy : z < y
            · simp [hyz, hzy] at h2
            · have : y = z := Char.le_antisymm (Char.not_lt.1 hzy) (Char.not_lt.1 hyz)
              subst this; simp [hxy]
        · by_cases hyx : y < x
          · simp [hxy, hyx] at h1
          · have : x = y := Char.le_antisymm (Char.not_lt.1 hyx) (Char.not_lt.1 hxy)
            subst this
            simp only [hxy, if_false] at h1
            by_cases hxz : x < z
            · simp [hxz]
            · by_cases hzx : z < x
              · simp [hxz, hzx] at h2
              · simp only [hxz, hzx, if_false] at h2 ⊢
                exact ih ys zs h1 h2

/-- strictly increasing under `cmpChars ∘ f`, evaluated iteratively -/
def sortedFrom (f : List Char → List Char) (prev : List Char) : List (List Char) → Bool
  | [] => true
  | b :: t => strLt (f prev) (f b) && sortedFrom f b t

def sortedBy (f : List Char → List Char) : List (List Char) → Bool
  | [] => true
  | a :: t => sortedFrom f a t

theorem sortedFrom_sound (f : List Char → List Char) (a : List Char) (l : List (List Char))
    (h : sortedFrom f a l = true) :
    (∀ b ∈ l, cmpChars (f a) (f b) = .lt) ∧ l.Pairwise (fun a b => cmpChars (f a) (f b) = .lt) := by
  induction l generalizing a with
  | nil => simp
  | cons b t ih =>
    simp only [sortedFrom, Bool.and_eq_true, strLt, beq_iff_eq] at h
    obtain ⟨h1, h2⟩ := ih b h.2
    refine ⟨?_, List.pairwise_cons.2 ⟨h1, h2⟩⟩
    intro c hc
    rcases List.mem_cons.1 hc with rfl | hc
    · exact h.1
    · exact hd_cmpChars_lt_trans _ _ _ h.1 (h1 c hc)

theorem sortedBy_sound (f : List Char → List Char) (l : List (List Char)) (h : sortedBy f l = true) :
    l.Pairwise (fun a b => cmpChars (f a) (f b) = .lt) := by
  cases l with
  | nil => exact List.Pairwise.nil
  | cons a t =>
    obtain ⟨h1, h2⟩ := sortedFrom_sound f a t h
    exact List.pairwise_cons.2 ⟨h1, h2⟩

/-- the records are strictly increasing by their 8-digit day (this is `SortedByDay dataRecs` of
`Proofs.HolidaySpec`, unfolded) -/
theorem data_sorted : dataRecs.Pairwise (fun a b => cmpChars (a.take 8) (b.take 8) = .lt) :=
  sortedBy_sound (fun r => r.take 8) dataRecs (by decide +kernel)

theorem hd_cmpChars_irrefl (l : List Char) : cmpChars l l ≠ .lt := by
  induction l with
  | nil => simp [cmpChars]
  | cons a t ih => simpa [cmpChars] using ih

/-- hence no day occurs twice -/
theorem data_days_unique : dataRecs.Pairwise (fun a b => a.take 8 ≠ b.take 8) := by
  refine data_sorted.imp ?_
  intro a b h e
  rw [e] at h
  exact hd_cmpChars_irrefl _ h

/-! ## by-target contiguity

NOTE (after the `fix:` commit of the library). The by-target view `findHolidaysBackward` NO LONGER depends
on contiguity: it now filters ALL aligned 18-character records by their target suffix
(`backward_view_eq_filter` in Proofs.HolidaySpec is unconditional). The facts of this section are still
true facts about the table and are kept because they explain why the OLD algorithm (one contiguous
run ending at the `strings.LastIndex` hit; `hol_findHolidaysBackwardOld` / `hol_backwardRunOld_spec0` /
`hol_backwardOld_view_eq_filter` in Proofs.HolidaySpec) was wrong on exactly three targets. -/

/-- the hypothesis `hc` of `hol_backwardOld_view_eq_filter` (Proofs.HolidaySpec; the OLD by-target algorithm) -/
def TargetContiguous (recs : List (List Char)) (key : List Char) : Prop :=
  ∀ a b c : List Char, ∀ l1 l2 l3 l4, recs = l1 ++ [a] ++ l2 ++ [b] ++ l3 ++ [c] ++ l4 →
    a.drop 10 = key → c.drop 10 = key → b.drop 10 = key

theorem drop_seg {α} (l : List α) (a b : Nat) (hab : a ≤ b) (hb : b ≤ l.length) :
    l.drop a = (l.take b).drop a ++ l.drop b := by
  conv => lhs; rw [← List.take_append_drop b l]
  rw [List.drop_append_of_le_length (by rw [List.length_take]; omega)]

theorem hd_drop_cons_getD {α} (l : List α) (i : Nat) (d : α) (h : i < l.length) :
    l.drop i = l.getD i d :: l.drop (i + 1) := by
  rw [List.drop_eq_getElem_cons h, List.getD_eq_getElem?_getD, List.getElem?_eq_getElem h]
  rfl

theorem split3 {α} (l : List α) (d : α) (i j k : Nat) (hij : i < j) (hjk : j < k) (hk : k < l.length) :
    l = l.take i ++ [l.getD i d] ++ (l.take j).drop (i + 1) ++ [l.getD j d]
      ++ (l.take k).drop (j + 1) ++ [l.getD k d] ++ l.drop (k + 1) := by
  conv => lhs; rw [← List.take_append_drop i l, hd_drop_cons_getD l i d (by omega),
    drop_seg l (i + 1) j (by omega) (by omega), hd_drop_cons_getD l j d (by omega),
    drop_seg l (j + 1) k (by omega) (by omega), hd_drop_cons_getD l k d hk]
  simp

/-- witness of non-contiguity: records `i < j < k`, the outer two with target `key`, the middle one not -/
theorem not_contiguous_of (recs : List (List Char)) (key : List Char) (i j k : Nat)
    (hij : i < j) (hjk : j < k) (hk : k < recs.length)
    (ha : (recs.getD i []).drop 10 = key) (hc : (recs.getD k []).drop 10 = key)
    (hb : (recs.getD j []).drop 10 ≠ key) : ¬ TargetContiguous recs key :=
  fun hcont => hb (hcont _ _ _ _ _ _ _ (split3 recs [] i j k hij hjk hk) ha hc)

def t2014 : List Char := ['2', '0', '1', '4', '1', '0', '0', '1']
def t2015 : List Char := ['2', '0', '1', '5', '1', '0', '0', '1']
def t2017 : List Char := ['2', '0', '1', '7', '1', '0', '0', '1']

theorem t2017_eq : "20171001".toList = t2017 := by decide

/-- records 521–524 and 526–529 (days 2017-09-30 … 10-03 and 10-05 … 10-08) have target 20171001,
record 525 (2017-10-04, the Mid-Autumn day) has target 20171004 -/
theorem data_target_not_contiguous : ¬ TargetContiguous dataRecs "20171001".toList := by
  rw [t2017_eq]
  exact not_contiguous_of dataRecs _ 524 525 526 (by decide) (by decide) (by rw [dataRecs_length]; decide)
    (by decide +kernel) (by decide +kernel) (by decide +kernel)

/-- records 418–421, 423–426 have target 20141001; record 422 not -/
theorem data_target_not_contiguous_2014 : ¬ TargetContiguous dataRecs t2014 :=
  not_contiguous_of dataRecs _ 421 422 423 (by decide) (by decide) (by rw [dataRecs_length]; decide)
    (by decide +kernel) (by decide +kernel) (by decide +kernel)

/-- records 455–457, 459–462 have target 20151001; record 458 not -/
theorem data_target_not_contiguous_2015 : ¬ TargetContiguous dataRecs t2015 :=
  not_contiguous_of dataRecs _ 457 458 459 (by decide) (by decide) (by rw [dataRecs_length]; decide)
    (by decide +kernel) (by decide +kernel) (by decide +kernel)

/-- keep the last element of every run of equal neighbours -/
def compress : List (List Char) → List (List Char)
  | [] => []
  | a :: t => match t with
    | [] => [a]
    | b :: _ => if a = b then compress t else a :: compress t

theorem compress_cons_cons (a b : List Char) (t : List (List Char)) :
    compress (a :: b :: t) = if a = b then compress (b :: t) else a :: compress (b :: t) := by
  rw [compress]

theorem count_compress_cons_ge (key a : List Char) (t : List (List Char)) :
    (compress t).count key ≤ (compress (a :: t)).count key := by
  cases t with
  | nil => simp [compress]
  | cons b t =>
    rw [compress_cons_cons]
    split
    · exact Nat.le_refl _
    · rw [List.count_cons]; omega

theorem count_compress_append_ge (key : List Char) (w t : List (List Char)) :
    (compress t).count key ≤ (compress (w ++ t)).count key := by
  induction w with
  | nil => exact Nat.le_refl _
  | cons a w ih => exact Nat.le_trans ih (count_compress_cons_ge key a _)

theorem one_le_count_compress (key : List Char) (t : List (List Char)) (h : key ∈ t) :
    1 ≤ (compress t).count key := by
  induction t with
  | nil => simp at h
  | cons a t ih =>
    cases t with
    | nil =>
      simp only [List.mem_cons, List.not_mem_nil, or_false] at h
      subst h; simp [compress]
    | cons b t =>
      rw [compress_cons_cons]
      split
      · rename_i hab
        apply ih
        rcases List.mem_cons.1 h with rfl | h
        · rw [hab]; simp
        · exact h
      · rw [List.count_cons]
        rcases List.mem_cons.1 h with rfl | h
        · simp
        · have := ih h; omega

theorem two_le_count_compress (key x : List Char) (u v : List (List Char)) (hx : x ≠ key) (hv : key ∈ v) :
    2 ≤ (compress (key :: (u ++ x :: v))).count key := by
  induction u with
  | nil =>
    rw [List.nil_append, compress_cons_cons, if_neg (fun h => hx h.symm), List.count_cons]
    have := one_le_count_compress key (x :: v) (by simp [hv])
    simp only [beq_self_eq_true, if_true]
    omega
  | cons y u ih =>
    rw [List.cons_append, compress_cons_cons]
    split
    · rename_i hy
      rw [← hy]; exact ih
    · rw [List.count_cons]
      have := one_le_count_compress key (y :: (u ++ x :: v)) (by simp [hv])
      simp only [beq_self_eq_true, if_true]
      omega

/-- soundness of the run-count test: a target occurring in at most one run is contiguous -/
theorem contiguous_of_count (recs : List (List Char)) (key : List Char)
    (h : (compress (recs.map (fun r => r.drop 10))).count key ≤ 1) : TargetContiguous recs key := by
  intro a b c l1 l2 l3 l4 hl ha hc
  apply Classical.byContradiction
  intro hb
  have e : recs.map (fun r => r.drop 10) =
      l1.map (fun r => r.drop 10) ++ (key :: ((l2.map (fun r => r.drop 10)) ++ (b.drop 10) ::
        ((l3.map (fun r => r.drop 10)) ++ key :: l4.map (fun r => r.drop 10)))) := by
    rw [hl]; simp [ha, hc]
  rw [e] at h
  have h2 := two_le_count_compress key (b.drop 10) (l2.map (fun r => r.drop 10))
    ((l3.map (fun r => r.drop 10)) ++ key :: l4.map (fun r => r.drop 10)) hb (by simp)
  have h3 := count_compress_append_ge key (l1.map (fun r => r.drop 10))
    (key :: ((l2.map (fun r => r.drop 10)) ++ (b.drop 10) ::
        ((l3.map (fun r => r.drop 10)) ++ key :: l4.map (fun r => r.drop 10))))
  omega

/-- the targets whose records are NOT contiguous in the table: National Day 2014, 2015, 2017 -/
def badTargets : List (List Char) := [t2014, t2015, t2017]

/-- the sequence of targets with runs of equal neighbours compressed -/
noncomputable def dataRuns : List (List Char) := compress (dataRecs.map (fun r => r.drop 10))

/-- the table has 154 runs of equal targets; each of the three `badTargets` occurs in exactly two runs
(its records are interrupted by one record of another festival), and all the other runs have
pairwise different — indeed strictly increasing — targets -/
theorem data_runs :
    dataRuns.length = 154 ∧
    dataRuns.filter (fun k => badTargets.contains k) = [t2014, t2014, t2015, t2015, t2017, t2017] ∧
    (dataRuns.filter (fun k => !badTargets.contains k)).Pairwise (fun a b => cmpChars a b = .lt) :=
  ⟨lenIs_sound _ _ (by decide +kernel), by decide +kernel, sortedBy_sound id _ (by decide +kernel)⟩

/-- complete list: a target's records are contiguous iff it is not one of the three `badTargets` -/
theorem data_target_contiguous_iff (key : List Char) :
    TargetContiguous dataRecs key ↔ key ∉ badTargets := by
  constructor
  · intro h hk
    simp only [badTargets, List.mem_cons, List.not_mem_nil, or_false] at hk
    rcases hk with rfl | rfl | rfl
    · exact data_target_not_contiguous_2014 h
    · exact data_target_not_contiguous_2015 h
    · exact data_target_not_contiguous (t2017_eq ▸ h)
  · intro hk
    apply contiguous_of_count
    show dataRuns.count key ≤ 1
    have hp : (fun k => !badTargets.contains k) key = true := by
      simpa [List.contains_iff_mem] using hk
    rw [← List.count_filter (l := dataRuns) (p := fun k => !badTargets.contains k) (a := key) hp]
    have hnd : (dataRuns.filter (fun k => !badTargets.contains k)).Nodup := by
      unfold List.Nodup
      refine data_runs.2.2.imp ?_
      intro a b h e
      rw [e] at h
      exact hd_cmpChars_irrefl b h
    exact List.nodup_iff_count.1 hnd key

/-- what the OLD `GetHolidaysByTarget("2017-10-01")` saw on the table, in terms of the specification of
the old algorithm (`hol_backwardRunOld_spec0` in Proofs.HolidaySpec: the maximal run of records with that
target ending at the last such record): 4 records (10-05 … 10-08) out of the 8 carrying the target -/
theorem data_byTarget_20171001 :
    lenIs (((dataRecs.reverse.dropWhile (fun r => !isSuffix "20171001".toList r)).takeWhile
        (fun r => isSuffix "20171001".toList r))) 4 = true ∧
    lenIs (dataRecs.filter (fun r => r.drop 10 == "20171001".toList)) 8 = true := by
  constructor <;> decide +kernel

/-! ## the by-target view after the fix -/

theorem hol_alignedRecords_flatten (l : List (List Char)) (hw : ∀ r ∈ l, r.length = 18) (fuel : Nat)
    (hf : l.length < fuel) : alignedRecords fuel l.flatten = l := by
  induction l generalizing fuel with
  | nil =>
    cases fuel with
    | zero => omega
    | succ f => simp [alignedRecords, recSize]
  | cons r rs ih =>
    cases fuel with
    | zero => omega
    | succ f =>
      have hr : r.length = 18 := hw r (by simp)
      have hl : ¬ (r :: rs).flatten.length < recSize := by
        rw [List.flatten_cons, List.length_append, hr]; simp [recSize]
      have ht : (r :: rs).flatten.take recSize = r := by
        rw [List.flatten_cons]; exact List.take_left' (by rw [hr, recSize])
      have hd : (r :: rs).flatten.drop recSize = rs.flatten := by
        rw [List.flatten_cons, recSize, ← hr, List.drop_left]
      unfold alignedRecords
      rw [if_neg hl, ht, hd, ih (fun x hx => hw x (by simp [hx])) f (by simpa using hf)]

/-- the aligned records the fixed `findHolidaysBackward` filters are exactly `dataRecs` -/
theorem data_aligned :
    alignedRecords (Gen.Tables.HolidayUtil.data.toList.length / recSize + 1) Gen.Tables.HolidayUtil.data.toList
      = dataRecs := by
  have hlen : Gen.Tables.HolidayUtil.data.toList.length = 14778 := by rw [data_toList, dataChars_length]
  rw [hlen, data_flat]
  exact hol_alignedRecords_flatten dataRecs data_wf _ (by rw [dataRecs_length]; decide)

/-- the fixed `GetHolidaysByTarget("2017-10-01")` maps `buildHolidayForward` over all 8 records carrying
the target (the old one saw 4, `data_byTarget_20171001`) -/
theorem data_byTarget_20171001_fixed :
    lenIs ((alignedRecords (Gen.Tables.HolidayUtil.data.toList.length / recSize + 1)
      Gen.Tables.HolidayUtil.data.toList).filter (fun r => isSuffix "20171001".toList r)) 8 = true := by
  rw [data_aligned]; decide +kernel

/-! ## hypotheses of `fix_replace` / `fix_remove_present` (Proofs.HolidaySpec) on the table -/

/-- the nine names are pairwise distinct -/
theorem data_names_nodup : Gen.Tables.HolidayUtil.NAMES.Nodup := by decide

/-- every record's work flag is '0' or '1' (the no-'-' hypothesis follows from `data_digits`) -/
theorem data_workflag_ok : ∀ r ∈ dataRecs, r.getD 9 ' ' = '0' ∨ r.getD 9 ' ' = '1' := by
  have h : dataRecs.all (fun r => r.getD 9 ' ' == '0' || r.getD 9 ' ' == '1') = true := by decide +kernel
  intro r hr
  have := List.all_eq_true.1 h r hr
  simpa using this

#print axioms data_eq
#print axioms data_len
#print axioms data_digits
#print axioms data_flat
#print axioms data_wf
#print axioms data_names_ok
#print axioms data_buildable
#print axioms data_sorted
#print axioms data_days_unique
#print axioms data_target_not_contiguous
#print axioms data_runs
#print axioms data_target_contiguous_iff
#print axioms data_byTarget_20171001
#print axioms data_aligned
#print axioms data_byTarget_20171001_fixed
#print axioms data_names_nodup
#print axioms data_workflag_ok

end HolidayData
end Model
