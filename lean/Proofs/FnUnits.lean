/-
Proofs.FnUnits — SolarYear / SolarHalfYear / SolarSeason: generated code = model (split from the worker's FnCivil2; helper prefix `c2_`).
-/
import Proofs.FnSolarMonth

namespace FnEq

/-! ## 7. SolarYear, SolarHalfYear, SolarSeason -/

@[simp] theorem newSolarYearFromYear_eq (y : Int) :
    Gen.Fn.calendar_NewSolarYearFromYear y = .ok ⟨y⟩ := rfl
@[simp] theorem solarYearGetYear_eq (sy : Gen.Fn.SolarYear) :
    Gen.Fn.calendar_SolarYear_GetYear sy = .ok sy.year := rfl
theorem solarYearNext_eq (sy : Gen.Fn.SolarYear) (years : Int) :
    Gen.Fn.calendar_SolarYear_Next sy years = .ok ⟨sy.year + years⟩ := rfl

@[simp] theorem newSolarHalfYearFromYm_eq (y m : Int) :
    Gen.Fn.calendar_NewSolarHalfYearFromYm y m = .ok ⟨y, m⟩ := rfl
@[simp] theorem newSolarSeasonFromYm_eq (y m : Int) :
    Gen.Fn.calendar_NewSolarSeasonFromYm y m = .ok ⟨y, m⟩ := rfl

/-- `SolarHalfYear.GetIndex` = ⌈month / 6⌉ -/
theorem solarHalfYearGetIndex_eq (hy : Gen.Fn.SolarHalfYear) :
    Gen.Fn.calendar_SolarHalfYear_GetIndex hy = .ok (Model.halfYearIndex hy.month) := by
  simp only [Gen.Fn.calendar_SolarHalfYear_GetIndex, Model.halfYearIndex, c1_pure]
  congr 1
  omega

/-- `SolarSeason.GetIndex` = ⌈month / 3⌉ -/
theorem solarSeasonGetIndex_eq (ss : Gen.Fn.SolarSeason) :
    Gen.Fn.calendar_SolarSeason_GetIndex ss = .ok (Model.seasonIndex ss.month) := by
  simp only [Gen.Fn.calendar_SolarSeason_GetIndex, Model.seasonIndex, c1_pure]
  congr 1
  omega

theorem solarHalfYearNext_eq (hy : Gen.Fn.SolarHalfYear) (n : Int) :
    Gen.Fn.calendar_SolarHalfYear_Next hy n =
      .ok ⟨(Model.halfYearNext hy.year hy.month n).1, (Model.halfYearNext hy.year hy.month n).2⟩ := by
  simp only [Gen.Fn.calendar_SolarHalfYear_Next, newSolarMonthFromYm_eq, c1_ok_bind,
    solarMonthNext_eq, solarMonthGetYear_eq, solarMonthGetMonth_eq, newSolarHalfYearFromYm_eq,
    Model.halfYearNext]

theorem solarSeasonNext_eq (ss : Gen.Fn.SolarSeason) (n : Int) :
    Gen.Fn.calendar_SolarSeason_Next ss n =
      .ok ⟨(Model.seasonNext ss.year ss.month n).1, (Model.seasonNext ss.year ss.month n).2⟩ := by
  simp only [Gen.Fn.calendar_SolarSeason_Next, newSolarMonthFromYm_eq, c1_ok_bind,
    solarMonthNext_eq, solarMonthGetYear_eq, solarMonthGetMonth_eq, newSolarSeasonFromYm_eq,
    Model.seasonNext]


end FnEq
