/-
Proofs.TaoFotoSpec — C17: Taoist / Buddhist year offsets, constructors, day-class predicates.
(Part (C) of the AlmanacSpec task; parts (A)+(B) are in Proofs/AlmanacSpec.lean, (D) in Proofs/BaZiSpec.lean.)
-/
import Model.TaoFoto
import Proofs.Convert
set_option linter.unusedVariables false
set_option linter.unusedSimpArgs false
namespace Model
open Gen.Tables

theorem tao_year (l : Lunar) : taoYear l = l.year + 2697 := by
  unfold taoYear calendar.BIRTH_YEAR
  omega

theorem foto_year (l : Lunar) : fotoYear l = l.year + 544 := by
  unfold fotoYear calendar.DEAD_YEAR
  omega

theorem newTao_roundtrip (A : Astro) (lo hi : Int) (h : AstroOK A lo hi) (y m d hh mi ss : Int) (l : Lunar)
    (hy : 2 ≤ y - 2697) (hlo : lo < y - 2697) (hhi : y - 2697 < hi) (hl : newTao A y m d hh mi ss = some l) :
    taoYear l = y ∧ l.month = m ∧ l.day = d ∧ l.hour = hh ∧ l.minute = mi ∧ l.second = ss ∧ Lunar.fromSolar A l.solar = some l ∧
    Lunar.fromYmdHms A (y - 2697) m d hh mi ss = some l := by
  have e : y + calendar.BIRTH_YEAR = y - 2697 := by unfold calendar.BIRTH_YEAR; omega
  unfold newTao at hl
  rw [e] at hl
  obtain ⟨a1, a2, a3, a4, a5, a6, a7, a8⟩ := fromSolar_fromYmd A lo hi h (y - 2697) m d hh mi ss l hy hlo hhi hl
  refine ⟨?_, a3, a4, a5, a6, a7, a8, hl⟩
  rw [tao_year, a2]
  omega

theorem newFoto_roundtrip (A : Astro) (lo hi : Int) (h : AstroOK A lo hi) (y m d hh mi ss : Int) (l : Lunar)
    (hy : 2 ≤ y - 544) (hlo : lo < y - 544) (hhi : y - 544 < hi) (hl : newFoto A y m d hh mi ss = some l) :
    fotoYear l = y ∧ l.month = m ∧ l.day = d ∧ l.hour = hh ∧ l.minute = mi ∧ l.second = ss ∧ Lunar.fromSolar A l.solar = some l ∧
    Lunar.fromYmdHms A (y - 544) m d hh mi ss = some l := by
  have e : y + calendar.DEAD_YEAR - 1 = y - 544 := by unfold calendar.DEAD_YEAR; omega
  unfold newFoto at hl
  rw [e] at hl
  obtain ⟨a1, a2, a3, a4, a5, a6, a7, a8⟩ := fromSolar_fromYmd A lo hi h (y - 544) m d hh mi ss l hy hlo hhi hl
  refine ⟨?_, a3, a4, a5, a6, a7, a8, hl⟩
  rw [foto_year, a2]
  omega

/-- day-class predicates depend only on (lunar month, lunar day, day pillar, the day's solar term) — and the month length for ZhaiSix -/
theorem tao_preds_congr (l l' : Lunar) (hm : l.month = l'.month) (hd : l.day = l'.day) (hg : l.dayGanIndex = l'.dayGanIndex) (hz : l.dayZhiIndex = l'.dayZhiIndex)
    (hj : l.jieQi = l'.jieQi) :
    taoSanHui l = taoSanHui l' ∧ taoSanYuan l = taoSanYuan l' ∧ taoWuLa l = taoWuLa l' ∧ taoBaJie l = taoBaJie l' ∧ taoBaHui l = taoBaHui l' ∧
    taoMingWu l = taoMingWu l' ∧ taoAnWu l = taoAnWu l' ∧ taoWu l = taoWu l' ∧ taoFestivals l = taoFestivals l' := by
  simp only [taoSanHui, taoSanYuan, taoWuLa, taoBaJie, taoBaHui, taoMingWu, taoAnWu, taoWu, taoFestivals, taoIsDayIn,
    hm, hd, hg, hz, hj, and_self]

theorem foto_preds_congr (A : Astro) (l l' : Lunar) (hy : l.year = l'.year) (hm : l.month = l'.month) (hd : l.day = l'.day) :
    fotoMonthZhai l = fotoMonthZhai l' ∧ fotoYangGong l = fotoYangGong l' ∧ fotoZhaiShuoWang l = fotoZhaiShuoWang l' ∧ fotoZhaiSix A l = fotoZhaiSix A l' ∧
    fotoZhaiTen l = fotoZhaiTen l' ∧ fotoZhaiGuanYin l = fotoZhaiGuanYin l' ∧ fotoXiu l = fotoXiu l' ∧ fotoFestivalNames l = fotoFestivalNames l' := by
  simp only [fotoMonthZhai, fotoYangGong, fotoZhaiShuoWang, fotoZhaiSix, fotoZhaiTen, fotoZhaiGuanYin, fotoXiu, fotoFestivalNames,
    hy, hm, hd, and_self]

theorem foto_zhaiSix_needs_only_length (A : Astro) (l l' : Lunar) (hd : l.day = l'.day)
    (hlen : (findMonth (A l.year).months l.year l.month).map (·.dayCount) = (findMonth (A l'.year).months l'.year l'.month).map (·.dayCount)) :
    fotoZhaiSix A l = fotoZhaiSix A l' := by
  unfold fotoZhaiSix
  simp only [hd]
  cases h1 : findMonth (A l.year).months l.year l.month with
  | none =>
    cases h2 : findMonth (A l'.year).months l'.year l'.month with
    | none => rfl
    | some b => rw [h1, h2] at hlen; simp only [Option.map_none, Option.map_some, reduceCtorEq] at hlen
  | some a =>
    cases h2 : findMonth (A l'.year).months l'.year l'.month with
    | none => rw [h1, h2] at hlen; simp only [Option.map_none, Option.map_some, reduceCtorEq] at hlen
    | some b =>
      rw [h1, h2] at hlen
      simp only [Option.map_some, Option.some.injEq] at hlen
      simp only [hlen]

#print axioms tao_year
#print axioms foto_year
#print axioms newTao_roundtrip
#print axioms newFoto_roundtrip
#print axioms tao_preds_congr
#print axioms foto_preds_congr
#print axioms foto_zhaiSix_needs_only_length

end Model
