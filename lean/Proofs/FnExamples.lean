/-
Proofs.FnExamples — NON-VACUITY WITNESSES for the `FnEq` / `FnSEq` / `FnE2E` equivalence theorems:
each theorem is instantiated with concrete, realistic values (a real date, real pillar indices, an
atom assignment computed from the model itself) and ALL its hypotheses are discharged, so the
hypotheses are jointly satisfiable and the theorem is not vacuous.
-/
import Proofs.FnCivil1
import Proofs.FnCivil2
import Proofs.FnPillars
import Proofs.FnNineStar
import Proofs.FnE2EStar
import Proofs.FnWeek
import Proofs.FnYun
import Proofs.FnSeason
import Proofs.FnS1
import Proofs.FnS2
import Proofs.FnS3
import Proofs.FnSFortune
import Proofs.FnSLunarFest
import Proofs.FnSolarNext

namespace FnExamples
open FnEq

/-! ## 1. Solar.NextDay: 2024-02-28 10:30:00 + 2 days = 2024-03-01 10:30:00 (leap day crossed) -/

def s20240228 : Gen.Fn.Solar := ⟨2024, 2, 28, 10, 30, 0⟩

theorem nextDay_witness :
    Gen.Fn.calendar_Solar_NextDay 4 s20240228 2 = .ok ⟨2024, 3, 1, 10, 30, 0⟩ := by
  have h := solarNextDay_eq 4 s20240228 2 (by decide) (by decide)
  have e : (toM s20240228).nextDay 2 = some ⟨2024, 3, 1, 10, 30, 0⟩ := by decide
  rw [e] at h
  exact h

#eval Gen.Fn.calendar_Solar_NextDay 4 s20240228 2
#eval (toM s20240228).nextDay 2

/-! ## 2. Solar.Subtract / Solar.IsBefore across the 1582 reform gap -/

def s15821004 : Gen.Fn.Solar := ⟨1582, 10, 4, 0, 0, 0⟩
def s15821015 : Gen.Fn.Solar := ⟨1582, 10, 15, 0, 0, 0⟩

/-- 1582-10-15 is the day after 1582-10-04 -/
theorem subtract_witness : Gen.Fn.calendar_Solar_Subtract s15821015 s15821004 = .ok 1 := by
  have h := solarSubtract_eq_of_valid s15821015 s15821004 (by decide) (by decide)
  have e : (toM s15821015).subtract (toM s15821004) = some 1 := by decide
  rw [e] at h
  exact h

theorem isBefore_witness :
    Gen.Fn.calendar_Solar_IsBefore s15821004 s15821015 = .ok true ∧
    Gen.Fn.calendar_Solar_IsBefore s15821015 s15821004 = .ok false := by
  refine ⟨(solarIsBefore_eq s15821004 s15821015).trans ?_, (solarIsBefore_eq s15821015 s15821004).trans ?_⟩
  · have e : (toM s15821004).isBefore (toM s15821015) = true := by decide
    rw [e]
  · have e : (toM s15821015).isBefore (toM s15821004) = false := by decide
    rw [e]

#eval Gen.Fn.calendar_Solar_Subtract s15821015 s15821004
#eval (toM s15821015).subtract (toM s15821004)

/-! ## 3. computeYear: 2024-02-03 23:30, the day before Lichun 2024-02-04 16:27:00.
Lunar date 2023-12-24, so `lunar.year = 2023 < solarYear = 2024`: the atoms `a5`, `a6` are the ones
read.  All three year pillars are 癸卯 (stem 9, branch 3). -/

def lichun2024 : Model.Solar := ⟨2024, 2, 4, 16, 27, 0⟩
def lichun2025 : Model.Solar := ⟨2025, 2, 3, 22, 10, 0⟩

/-- the 31-entry term table of lunar year 2024 in `JIE_QI_IN_USE` order (Beijing time, rounded to the
minute; approximate values are enough here: only the order of the stamps matters) -/
def terms2024 : List Model.Solar :=
  [⟨2023, 12, 7, 17, 33, 0⟩, ⟨2023, 12, 22, 11, 27, 0⟩, ⟨2024, 1, 6, 4, 49, 0⟩, ⟨2024, 1, 20, 22, 7, 0⟩,
   lichun2024, ⟨2024, 2, 19, 12, 13, 0⟩, ⟨2024, 3, 5, 10, 23, 0⟩, ⟨2024, 3, 20, 11, 6, 0⟩,
   ⟨2024, 4, 4, 15, 2, 0⟩, ⟨2024, 4, 19, 22, 0, 0⟩, ⟨2024, 5, 5, 8, 10, 0⟩, ⟨2024, 5, 20, 21, 0, 0⟩,
   ⟨2024, 6, 5, 12, 10, 0⟩, ⟨2024, 6, 21, 4, 51, 0⟩, ⟨2024, 7, 6, 22, 20, 0⟩, ⟨2024, 7, 22, 15, 44, 0⟩,
   ⟨2024, 8, 7, 8, 9, 0⟩, ⟨2024, 8, 22, 22, 55, 0⟩, ⟨2024, 9, 7, 11, 11, 0⟩, ⟨2024, 9, 22, 20, 44, 0⟩,
   ⟨2024, 10, 8, 3, 0, 0⟩, ⟨2024, 10, 23, 6, 15, 0⟩, ⟨2024, 11, 7, 6, 20, 0⟩, ⟨2024, 11, 22, 3, 56, 0⟩,
   ⟨2024, 12, 6, 23, 17, 0⟩, ⟨2024, 12, 21, 17, 21, 0⟩, ⟨2025, 1, 5, 10, 33, 0⟩, ⟨2025, 1, 20, 4, 0, 0⟩,
   lichun2025, ⟨2025, 2, 18, 18, 7, 0⟩, ⟨2025, 3, 5, 16, 7, 0⟩]

def l20240203 : Gen.Fn.Lunar :=
  { (default : Gen.Fn.Lunar) with
    year := 2023, month := 12, day := 24, hour := 23, minute := 30, second := 0,
    solar := ⟨2024, 2, 3, 23, 30, 0⟩ }

def gLichun2024 : Gen.Fn.Solar := ⟨2024, 2, 4, 16, 27, 0⟩
def gLichun2025 : Gen.Fn.Solar := ⟨2025, 2, 3, 22, 10, 0⟩

/-- Go's `strings.Compare(solarYmd, liChunYmd)` / `(solarYmdHms, liChunYmdHms)` computed by the model -/
def cmpYmd : Int := pl_goCmp (pl_toM l20240203.solar).toYmd
  (pl_toM (pl_liChunG gLichun2024 gLichun2025 l20240203)).toYmd
def cmpYmdHms : Int := pl_goCmp (pl_toM l20240203.solar).toYmdHms
  (pl_toM (pl_liChunG gLichun2024 gLichun2025 l20240203)).toYmdHms

theorem terms2024_liChun : Model.termByName terms2024 "立春" = lichun2024 := by decide
theorem terms2024_LI_CHUN : Model.termByName terms2024 "LI_CHUN" = lichun2025 := by decide

theorem computeYear_witness :
    Gen.Fn.calendar_computeYear gLichun2024 gLichun2025 cmpYmd cmpYmdHms cmpYmd cmpYmdHms l20240203 =
      .ok { l20240203 with yearGanIndex := 9, yearZhiIndex := 3,
                           yearGanIndexByLiChun := 9, yearZhiIndexByLiChun := 3,
                           yearGanIndexExact := 9, yearZhiIndexExact := 3 } := by
  have h := computeYear_eq_cmp terms2024 gLichun2024 gLichun2025 cmpYmd cmpYmdHms cmpYmd cmpYmdHms
    l20240203 (by rw [terms2024_liChun]; rfl) (by rw [terms2024_LI_CHUN]; rfl)
    (pl_goCmp_spec _ _) (pl_goCmp_spec _ _) (pl_goCmp_spec _ _) (pl_goCmp_spec _ _)
  have e : Model.computeYear l20240203.year (pl_toM l20240203.solar) terms2024 = (9, 3, 9, 3, 9, 3) := by
    decide
  rw [e] at h
  exact h

#eval cmpYmd
#eval Gen.Fn.calendar_computeYear gLichun2024 gLichun2025 cmpYmd cmpYmdHms cmpYmd cmpYmdHms l20240203
#eval Model.computeYear 2023 ⟨2024, 2, 3, 23, 30, 0⟩ terms2024

/-! ## 4. computeDay / computeTime for 2024-02-03 23:30 (late-rat hour: the early-rat school's day
pillar is the NEXT one).  jdn 2460344: day pillar 丁酉 (3, 9); `Exact` 戊戌 (4, 10); `Exact2` 丁酉. -/

theorem computeDay_witness :
    Gen.Fn.calendar_computeDay (Model.jdn 2024 2 3 - 11)
        (pl_goCmp (Model.fmtHm 23 30) ['2', '3', ':', '0', '0'])
        (pl_goCmp (Model.fmtHm 23 30) ['2', '3', ':', '5', '9']) l20240203 =
      .ok { l20240203 with dayGanIndex := 3, dayZhiIndex := 9, dayGanIndexExact := 4,
                           dayZhiIndexExact := 10, dayGanIndexExact2 := 3, dayZhiIndexExact2 := 9 } := by
  have h := computeDay_eq_cmp (Model.jdn 2024 2 3 - 11)
    (pl_goCmp (Model.fmtHm 23 30) ['2', '3', ':', '0', '0'])
    (pl_goCmp (Model.fmtHm 23 30) ['2', '3', ':', '5', '9']) l20240203
    (by decide) rfl (by decide) (pl_goCmp_spec _ _) (pl_goCmp_spec _ _)
  have e : Model.computeDay (pl_toM l20240203.solar) l20240203.hour l20240203.minute = (3, 9, 4, 10, 3, 9) := by
    decide
  rw [e] at h
  exact h

/-- the receiver of `computeTime`: the result of `computeDay` above (`dayGanIndexExact = 4`) -/
def l20240203d : Gen.Fn.Lunar :=
  { l20240203 with dayGanIndex := 3, dayZhiIndex := 9, dayGanIndexExact := 4,
                   dayZhiIndexExact := 10, dayGanIndexExact2 := 3, dayZhiIndexExact2 := 9 }

/-- 23:30 is hour branch 子 (0); five-rats rule from day stem 戊 (4): hour stem 壬 (8) -/
theorem computeTime_witness :
    Gen.Fn.calendar_computeTime (Model.timeZhiIndexOf 23 30) l20240203d =
      .ok { l20240203d with timeZhiIndex := 0, timeGanIndex := 8 } := by
  have h := computeTime_eq (Model.timeZhiIndexOf 23 30) l20240203d rfl (by decide)
  have e : Model.timeZhiIndexOf l20240203d.hour l20240203d.minute = 0 := by decide
  rw [e] at h
  exact h

#eval Model.jdn 2024 2 3
#eval Model.computeDay ⟨2024, 2, 3, 23, 30, 0⟩ 23 30
#eval Model.timeZhiIndexOf 23 30

/-! ## 5. Nine stars: the year star of 2024 and the month star of the (solar) month 寅 of 2024 -/

/-- `NewLunarYear(2024)`: stem 甲 (0), branch 辰 (4); the atom is the 60-cycle position 甲辰 = 40 -/
theorem lunarYear_star_witness :
    Gen.Fn.calendar_LunarYear_GetNineStar 40 ⟨2024, 0, 4⟩ = .ok ⟨2⟩ := by
  have h := lunarYear_getNineStar_eq 40 ⟨2024, 0, 4⟩ (by decide) (by decide) (by decide)
  have e : Model.lunarYearNineStar (⟨2024, 0, 4⟩ : Gen.Fn.LunarYear).year = 2 := by decide
  rw [e] at h
  exact h

/-- the same statement as already packaged in `FnE2E` -/
example : Gen.Fn.calendar_LunarYear_GetNineStar 40 ⟨2024, 0, 4⟩ = .ok ⟨2⟩ := FnE2E.lunarYear_star_2024'

/-- 2024-02-10 (lunar 2024-01-01): year branch 辰 (4) under all three conventions, month branch 寅 (2) -/
def l20240210 : Gen.Fn.Lunar :=
  { (default : Gen.Fn.Lunar) with
    year := 2024, month := 1, day := 1, hour := 12,
    yearGanIndex := 0, yearZhiIndex := 4, yearGanIndexByLiChun := 0, yearZhiIndexByLiChun := 4,
    yearGanIndexExact := 0, yearZhiIndexExact := 4,
    monthGanIndex := 2, monthZhiIndex := 2, monthGanIndexExact := 2, monthZhiIndexExact := 2,
    solar := ⟨2024, 2, 10, 12, 0, 0⟩ }

/-- month 寅 of a 辰 year: star index 4 (五黄), whichever school -/
theorem monthNineStar_witness :
    Gen.Fn.calendar_Lunar_GetMonthNineStarBySect l20240210 1 = .ok ⟨4⟩ ∧
    Gen.Fn.calendar_Lunar_GetMonthNineStarBySect l20240210 2 = .ok ⟨4⟩ ∧
    Gen.Fn.calendar_Lunar_GetMonthNineStarBySect l20240210 3 = .ok ⟨4⟩ := by
  refine ⟨(getMonthNineStarBySect_eq l20240210 terms2024 1).trans ?_,
    (getMonthNineStarBySect_eq l20240210 terms2024 2).trans ?_,
    (getMonthNineStarBySect_eq l20240210 terms2024 3).trans ?_⟩
  · have e : (ns_lunarToM l20240210 terms2024).monthNineStar 1 = 4 := by decide
    rw [e]
  · have e : (ns_lunarToM l20240210 terms2024).monthNineStar 2 = 4 := by decide
    rw [e]
  · have e : (ns_lunarToM l20240210 terms2024).monthNineStar 3 = 4 := by decide
    rw [e]

#eval Gen.Fn.calendar_Lunar_GetMonthNineStarBySect l20240210 2
#eval (ns_lunarToM l20240210 terms2024).monthNineStar 2

/-! ## 6. SolarUtil.GetWeeksOfMonth: May 2022 with Monday start spans 6 weeks; October 1582 (21 days) -/

theorem weeksOfMonth_witness_2022_05 :
    Gen.Fn.SolarUtil_GetWeeksOfMonth 0 2022 5 1 = .ok 6 := by
  have h := getWeeksOfMonth_eq' 0 2022 5 1 (by decide) (by decide) (by decide)
  have e : Model.weeksOfMonth 2022 5 1 = 6 := by decide
  rw [e] at h
  exact h

/-- the atom computed by the model: 1582-10-01 is a Monday (1) -/
theorem weeksOfMonth_witness_1582_10 :
    Gen.Fn.SolarUtil_GetWeeksOfMonth (Model.week 1582 10 1) 1582 10 0 = .ok 4 := by
  have h := getWeeksOfMonth_eq 1582 10 0 (by decide) (by decide)
  have e : Model.weeksOfMonth 1582 10 0 = 4 := by decide
  rw [e] at h
  exact h

#eval Model.week 2022 5 1
#eval Model.week 1582 10 1
#eval Gen.Fn.SolarUtil_GetWeeksOfMonth 0 2022 5 1
#eval Gen.Fn.SolarUtil_GetWeeksOfMonth 1 1582 10 0

/-! ## 7. Yun.computeStart: birth 1990-05-15 08:20:00 between the Jie 立夏 1990-05-06 03:35:00 and
芒种 1990-06-06 07:46:00 (minute-rounded stamps), both schools, both directions -/

def birth1990 : Gen.Fn.Solar := ⟨1990, 5, 15, 8, 20, 0⟩
def prevJie1990 : Gen.Fn.JieQi := ⟨⟨1990, 5, 6, 3, 35, 0⟩, true, false⟩
def nextJie1990 : Gen.Fn.JieQi := ⟨⟨1990, 6, 6, 7, 46, 0⟩, true, false⟩
def yun1990 (forward : Bool) : Gen.Fn.Yun :=
  { gender := 1, startYear := 0, startMonth := 0, startDay := 0, startHour := 0, forward := forward,
    lunar := { (default : Gen.Fn.Lunar) with solar := birth1990 } }

/-- school 2 (minute count), forward: 22 days minus 34 minutes to 芒种 → 7 years 3 months 27 days 4 hours -/
theorem yun_witness_sect2_forward :
    Gen.Fn.calendar_Yun_computeStart prevJie1990 nextJie1990 0 0 (yun1990 true) 2 =
      .ok { (yun1990 true) with startYear := 7, startMonth := 3, startDay := 27, startHour := 4 } := by
  have h := yunComputeStart_eq prevJie1990 nextJie1990 0 0 (yun1990 true) 2 (by decide) (by decide)
    (fun c => absurd rfl c) (fun c => absurd rfl c)
  have e : mi_yunStart (toM (yun1990 true).lunar.solar) (toM prevJie1990.solar) (toM nextJie1990.solar)
      (yun1990 true).forward 2 = some (7, 3, 27, 4) := by decide
  rw [e] at h
  exact h

/-- school 1 (day + hour-branch count), forward; atoms `a3` / `a4` = hour branches of 07:46 / 08:20 -/
theorem yun_witness_sect1_forward :
    Gen.Fn.calendar_Yun_computeStart prevJie1990 nextJie1990
        (Model.timeZhiIndexOf 7 46) (Model.timeZhiIndexOf 8 20) (yun1990 true) 1 =
      .ok { (yun1990 true) with startYear := 7, startMonth := 4, startDay := 0, startHour := 0 } := by
  have h := yunComputeStart_eq prevJie1990 nextJie1990 (Model.timeZhiIndexOf 7 46)
    (Model.timeZhiIndexOf 8 20) (yun1990 true) 1 (by decide) (by decide) (fun _ _ => by decide) (fun _ _ => by decide)
  have e : mi_yunStart (toM (yun1990 true).lunar.solar) (toM prevJie1990.solar) (toM nextJie1990.solar)
      (yun1990 true).forward 1 = some (7, 4, 0, 0) := by decide
  rw [e] at h
  exact h

/-- school 1, backward (from 立夏 to the birth moment); atoms = hour branches of 08:20 / 03:35 -/
theorem yun_witness_sect1_backward :
    Gen.Fn.calendar_Yun_computeStart prevJie1990 nextJie1990
        (Model.timeZhiIndexOf 8 20) (Model.timeZhiIndexOf 3 35) (yun1990 false) 1 =
      .ok { (yun1990 false) with startYear := 3, startMonth := 0, startDay := 20, startHour := 0 } := by
  have h := yunComputeStart_eq prevJie1990 nextJie1990 (Model.timeZhiIndexOf 8 20)
    (Model.timeZhiIndexOf 3 35) (yun1990 false) 1 (by decide) (by decide) (fun _ _ => by decide) (fun _ _ => by decide)
  have e : mi_yunStart (toM (yun1990 false).lunar.solar) (toM prevJie1990.solar) (toM nextJie1990.solar)
      (yun1990 false).forward 1 = some (3, 0, 20, 0) := by decide
  rw [e] at h
  exact h

#eval mi_yunStart (toM birth1990) (toM prevJie1990.solar) (toM nextJie1990.solar) true 2
#eval mi_yunStart (toM birth1990) (toM prevJie1990.solar) (toM nextJie1990.solar) true 1
#eval mi_yunStart (toM birth1990) (toM prevJie1990.solar) (toM nextJie1990.solar) false 1
#eval Gen.Fn.calendar_Yun_computeStart prevJie1990 nextJie1990 (Model.timeZhiIndexOf 8 20) (Model.timeZhiIndexOf 3 35) (yun1990 false) 1

/-! ## 8. Lunar.GetShuJiu / Lunar.GetFu, the `NextDay` hypotheses discharged by `solarNextDay_eq` -/

def l20240115 : Gen.Fn.Lunar :=
  { (default : Gen.Fn.Lunar) with year := 2023, month := 12, day := 5, solar := ⟨2024, 1, 15, 0, 0, 0⟩ }
def l20240801 : Gen.Fn.Lunar :=
  { (default : Gen.Fn.Lunar) with year := 2024, month := 6, day := 27, solar := ⟨2024, 8, 1, 0, 0, 0⟩ }

/-- 2024-01-15 is 24 days after the solstice 2023-12-22: third nine, day 7 (三九第7天) -/
theorem shuJiu_witness :
    Gen.Fn.calendar_Lunar_GetShuJiu 83 ⟨2024, 12, 21, 17, 21, 0⟩ ⟨2023, 12, 22, 11, 27, 0⟩ l20240115 =
      .ok (some ⟨7⟩) := by
  have h := lunarGetShuJiu_eq 83 ⟨2024, 12, 21, 17, 21, 0⟩ ⟨2023, 12, 22, 11, 27, 0⟩ l20240115 terms2024
    (by decide) (by decide) (by decide) (by decide) (fun _ => by decide)
    (solarNextDay_eq 83 _ 81 (by decide) (by decide))
  have e : (mi_lunarToM l20240115 terms2024).shuJiu.map (Option.map Prod.snd) = some (some 7) := by decide
  rw [e] at h
  exact h

/-- 2024-08-01: the solstice 2024-06-21 is a 丙 day (stem 2), so 初伏 starts 24 days later on
2024-07-15, 中伏 on 2024-07-25: 中伏 day 8 -/
theorem fu_witness :
    Gen.Fn.calendar_Lunar_GetFu 83 ⟨2024, 6, 21, 4, 51, 0⟩ ⟨2024, 8, 7, 8, 9, 0⟩
        { (default : Gen.Fn.Lunar) with dayGanIndex := 2 } l20240801 = .ok (some ⟨8⟩) := by
  have h := lunarGetFu_eq 83 ⟨2024, 6, 21, 4, 51, 0⟩ ⟨2024, 8, 7, 8, 9, 0⟩
    { (default : Gen.Fn.Lunar) with dayGanIndex := 2 } l20240801 terms2024
    (by decide) (by decide) (by decide) (by decide) (by decide) (by decide)
    (solarNextDay_eq 83 _ _ (by decide) (by decide))
    (fun s hs => solarNextDay_eq 83 (ofM s) 10 (by simpa using hs) (by decide))
  have e : (mi_lunarToM l20240801 terms2024).fu.map (Option.map Prod.snd) = some (some 8) := by decide
  rw [e] at h
  exact h

#eval (mi_lunarToM l20240115 terms2024).shuJiu
#eval Gen.Fn.calendar_Lunar_GetShuJiu 83 ⟨2024, 12, 21, 17, 21, 0⟩ ⟨2023, 12, 22, 11, 27, 0⟩ l20240115
#eval (mi_lunarToM l20240801 terms2024).fu
#eval Gen.Fn.calendar_Lunar_GetFu 83 ⟨2024, 6, 21, 4, 51, 0⟩ ⟨2024, 8, 7, 8, 9, 0⟩ { (default : Gen.Fn.Lunar) with dayGanIndex := 2 } l20240801
#eval Model.dayGanOf ⟨2024, 6, 21, 4, 51, 0⟩

/-! ## 9. String mode (`Gen.FnS`): the index guards are jointly satisfiable on a real `Lunar`.
The conclusions stay symbolic in the table value (string tables are kept opaque); `#eval` prints them. -/

/-- 2024-02-03 23:30:00 (Saturday) = lunar 2023-12-24: year 癸卯 (9, 3), month 乙丑 (1, 1), day 丁酉 (3, 9)
(early-rat school: 戊戌 (4, 10)), hour 壬子 (8, 0) — the values computed in §3 and §4 -/
def ls20240203 : Gen.FnS.Lunar :=
  { (default : Gen.FnS.Lunar) with
    year := 2023, month := 12, day := 24, hour := 23, minute := 30, second := 0,
    yearGanIndex := 9, yearZhiIndex := 3, yearGanIndexByLiChun := 9, yearZhiIndexByLiChun := 3,
    yearGanIndexExact := 9, yearZhiIndexExact := 3,
    monthGanIndex := 1, monthZhiIndex := 1, monthGanIndexExact := 1, monthZhiIndexExact := 1,
    dayGanIndex := 3, dayZhiIndex := 9, dayGanIndexExact := 4, dayZhiIndexExact := 10,
    dayGanIndexExact2 := 3, dayZhiIndexExact2 := 9, timeGanIndex := 8, timeZhiIndex := 0,
    weekIndex := 6, solar := ⟨2024, 2, 3, 23, 30, 0⟩ }

theorem positionXi_witness :
    Gen.FnS.calendar_Lunar_GetDayPositionXi ls20240203 = .ok (Model.positionXi 3) :=
  FnSEq.lunarGetDayPositionXi_eq ls20240203 (by decide) (by decide)

theorem tianShen_witness :
    Gen.FnS.calendar_Lunar_GetDayTianShen ls20240203 = .ok (Model.tianShen 9 1) :=
  FnSEq.lunarGetDayTianShen_eq ls20240203 (by decide) (by decide) (by decide)

/-- the eight-char object of that moment, late-rat school (`sect = 2`: day pillar 丁酉) -/
def ec20240203 : Gen.FnS.EightChar := ⟨2, ls20240203⟩

theorem dayDiShi_witness :
    Gen.FnS.calendar_EightChar_GetDayDiShi ec20240203 = .ok (FnSEq.ecToM ec20240203 terms2024).dayDiShi :=
  FnSEq.eightCharGetDayDiShi_eq ec20240203 terms2024 (by decide) (by decide) (by decide) (by decide)

#eval Gen.FnS.calendar_Lunar_GetDayPositionXi ls20240203
#eval Model.positionXi 3
#eval Gen.FnS.calendar_Lunar_GetDayTianShen ls20240203
#eval Model.tianShen 9 1
#eval Gen.FnS.calendar_EightChar_GetDayDiShi ec20240203
#eval (FnSEq.ecToM ec20240203 terms2024).dayDiShi

/-- 2024-02-09 = lunar 2023-12-30, the atom `a1` = `lunar.Next(1)` = lunar 2024-01-01 -/
def ls20240209 : Gen.FnS.Lunar := { ls20240203 with day := 30, hour := 12, minute := 0 }
def ls20240210 : Gen.FnS.Lunar := { ls20240203 with year := 2024, month := 1, day := 1, hour := 12, minute := 0 }

/-- New Year's Eve is reported on 2023-12-30 … -/
theorem chuXi_witness :
    ∃ r, Gen.FnS.calendar_Lunar_GetFestivals ls20240210 ls20240209 = .ok r ∧ "除夕" ∈ r :=
  ⟨_, FnSEq.lunarGetFestivals_shape ls20240210 ls20240209,
    (FnSEq.lunarGetFestivals_chuXi_iff ls20240210 ls20240209 _
      (FnSEq.lunarGetFestivals_shape ls20240210 ls20240209)).mpr ⟨Or.inl rfl, by decide, by decide⟩⟩

/-- … and not on 2023-12-24 (whatever the atom) -/
theorem chuXi_witness_neg (a1 : Gen.FnS.Lunar) :
    ∃ r, Gen.FnS.calendar_Lunar_GetFestivals a1 ls20240203 = .ok r ∧ "除夕" ∉ r :=
  ⟨_, FnSEq.lunarGetFestivals_shape a1 ls20240203, fun hm =>
    absurd ((FnSEq.lunarGetFestivals_chuXi_iff a1 ls20240203 _
      (FnSEq.lunarGetFestivals_shape a1 ls20240203)).mp hm).2.1 (by decide)⟩

#eval Gen.FnS.calendar_Lunar_GetFestivals ls20240210 ls20240209
#eval Gen.FnS.calendar_Lunar_GetFestivals ls20240210 ls20240203

/-! ## 10. Fortune periods (Proofs/FnS6) -/

/-- a male (gender 1) born 2024-02-03 23:30: year stem 癸 is yin, so the periods run BACKWARD from the
month pillar 乙丑; the third period (index 3) is 壬戌 -/
def yunS : Gen.FnS.Yun :=
  { gender := 1, startYear := 0, startMonth := 8, startDay := 28, startHour := 0, forward := false,
    lunar := ls20240203 }
def daYun3 : Gen.FnS.DaYun :=
  { startYear := 2044, endYear := 2053, startAge := 21, endAge := 30, index := 3, yun := yunS,
    lunar := ls20240203 }

theorem daYunGanZhi_witness :
    Gen.FnS.calendar_DaYun_GetGanZhi daYun3 =
      .ok (Model.DaYun.ganZhi (FnSEq.daYunToM daYun3) (FnSEq.yunToM daYun3.yun terms2024)) :=
  FnSEq.daYunGetGanZhi_eq' daYun3 terms2024 rfl (by decide) (by decide) (by decide) (by decide)
    (by decide) (by decide)

/-- the first month (index 0) of a flowing year 甲辰: 丙寅 (five-tigers rule) -/
def liuYue0 : Gen.FnS.LiuYue := { (default : Gen.FnS.LiuYue) with index := 0 }

theorem liuYueGanZhi_witness :
    Gen.FnS.calendar_LiuYue_GetGanZhi "甲辰" liuYue0 = .ok (Model.liuYueGanZhi "甲辰" 0) :=
  FnSEq.liuYueGetGanZhi_eq' "甲辰" liuYue0 (by decide) (by decide)

#eval Gen.FnS.calendar_DaYun_GetGanZhi daYun3
#eval Model.DaYun.ganZhi (FnSEq.daYunToM daYun3) (FnSEq.yunToM daYun3.yun terms2024)
#eval Gen.FnS.calendar_LiuYue_GetGanZhi "甲辰" liuYue0
#eval Model.liuYueGanZhi "甲辰" 0

/-! ## 11. Solar.Next(days, true) (Proofs/FnNext): one working day ahead, empty holiday table -/

/-- no holiday records at all: `GetHoliday` finds nothing for any day -/
def noHolidays : Model.HolidayState := ⟨[], []⟩

/-- Monday 2024-03-04 09:00 → Tuesday 2024-03-05.  Atoms of the single iteration: "no record"
(`a2 0 = true`), weekday 2 (`a3 0 = 2`); `a1` (the record) is not read. -/
theorem next_witness_monday :
    Gen.Fn.calendar_Solar_Next 3 (fun _ => default) (fun _ => true) (fun _ => 2)
      ⟨2024, 3, 4, 9, 0, 0⟩ 1 true = .ok ⟨2024, 3, 5, 9, 0, 0⟩ := by
  refine solarNext_eq 3 1 noHolidays (fun _ => default) (fun _ => true) (fun _ => 2)
    ⟨2024, 3, 4, 9, 0, 0⟩ 1 ⟨2024, 3, 5, 9, 0, 0⟩ (by decide) (by decide) (by decide) ?_ (by decide)
  intro k d hk hd
  obtain rfl : k = 0 := by omega
  have e : nx_iter (if (1 : Int) < 0 then -1 else 1) (0 + 1) (toM ⟨2024, 3, 4, 9, 0, 0⟩) =
      some ⟨2024, 3, 5, 9, 0, 0⟩ := by decide
  rw [e] at hd
  injection hd with hd
  subst hd
  decide

/-- Friday 2024-03-08 → Monday 2024-03-11: three iterations, weekdays 6, 0, 1 (the first two do not
count).  Model fuel 3, generated fuel 4. -/
theorem next_witness_friday :
    Gen.Fn.calendar_Solar_Next 4 (fun _ => default) (fun _ => true) (fun k => (6 + k) % 7)
      ⟨2024, 3, 8, 9, 0, 0⟩ 1 true = .ok ⟨2024, 3, 11, 9, 0, 0⟩ := by
  refine solarNext_eq 4 3 noHolidays (fun _ => default) (fun _ => true) (fun k => (6 + k) % 7)
    ⟨2024, 3, 8, 9, 0, 0⟩ 1 ⟨2024, 3, 11, 9, 0, 0⟩ (by decide) (by decide) (by decide) ?_ (by decide)
  intro k d hk hd
  have hk3 : k = 0 ∨ k = 1 ∨ k = 2 := by omega
  rcases hk3 with rfl | rfl | rfl
  · have e : nx_iter (if (1 : Int) < 0 then -1 else 1) (0 + 1) (toM ⟨2024, 3, 8, 9, 0, 0⟩) =
        some ⟨2024, 3, 9, 9, 0, 0⟩ := by decide
    rw [e] at hd; injection hd with hd; subst hd; decide
  · have e : nx_iter (if (1 : Int) < 0 then -1 else 1) (1 + 1) (toM ⟨2024, 3, 8, 9, 0, 0⟩) =
        some ⟨2024, 3, 10, 9, 0, 0⟩ := by decide
    rw [e] at hd; injection hd with hd; subst hd; decide
  · have e : nx_iter (if (1 : Int) < 0 then -1 else 1) (2 + 1) (toM ⟨2024, 3, 8, 9, 0, 0⟩) =
        some ⟨2024, 3, 11, 9, 0, 0⟩ := by decide
    rw [e] at hd; injection hd with hd; subst hd; decide

#eval Gen.Fn.calendar_Solar_Next 4 (fun _ => default) (fun _ => true) (fun k => (6 + k) % 7) ⟨2024, 3, 8, 9, 0, 0⟩ 1 true
#eval Model.nextWorkday noHolidays ⟨2024, 3, 8, 9, 0, 0⟩ 1 3
#eval Model.week 2024 3 4

/-! ## Axioms -/
section Axioms
#print axioms nextDay_witness
#print axioms subtract_witness
#print axioms isBefore_witness
#print axioms computeYear_witness
#print axioms computeDay_witness
#print axioms computeTime_witness
#print axioms lunarYear_star_witness
#print axioms monthNineStar_witness
#print axioms weeksOfMonth_witness_2022_05
#print axioms weeksOfMonth_witness_1582_10
#print axioms yun_witness_sect2_forward
#print axioms yun_witness_sect1_forward
#print axioms yun_witness_sect1_backward
#print axioms shuJiu_witness
#print axioms fu_witness
#print axioms positionXi_witness
#print axioms tianShen_witness
#print axioms dayDiShi_witness
#print axioms chuXi_witness
#print axioms chuXi_witness_neg
#print axioms daYunGanZhi_witness
#print axioms liuYueGanZhi_witness
#print axioms next_witness_monday
#print axioms next_witness_friday
end Axioms

end FnExamples
