/-
Proofs.CivilFestSpec — specification theorems for `Model.CivilFest`:
zodiac sign (`xingZuoIndex`) against the run table, and the weekday-rule facts behind
`solarFestivals` (occurrence number, last-weekday test, uniqueness of k-th / last weekday).
-/
import Model.CivilFest
import Proofs.CivilArith
set_option linter.unusedVariables false
namespace Model
open Gen.Tables

/-! ## zodiac sign -/

/-- conventional first day of each of the twelve signs, in the order of the table XINGZUO (index 0 = 白羊 … 11 = 双鱼) -/
def signStart : List (Int × Int) := [(3,21),(4,20),(5,21),(6,22),(7,23),(8,23),(9,23),(10,24),(11,23),(12,22),(1,20),(2,19)]

/-- strict month-day (lexicographic) order -/
def mdLt (a b : Int × Int) : Bool :=
  decide (a.1 < b.1) || (decide (a.1 = b.1) && decide (a.2 < b.2))

/-- `(m,d)` lies in the run of sign `i`: from `start_i` up to the day before `start_{i+1}`,
wrapping over the year end when `start_{i+1}` precedes `start_i` -/
def inRun (i : Nat) (m d : Int) : Bool :=
  let s := signStart.getD i (0, 0)
  let e := signStart.getD ((i + 1) % 12) (0, 0)
  if mdLt s e then !mdLt (m, d) s && mdLt (m, d) e
  else !mdLt (m, d) s || mdLt (m, d) e

/-- the sign whose run (from its start day up to the day before the next sign's start, wrapping over the year end) contains (m,d) -/
def specSign (m d : Int) : Int :=
  match (List.range 12).find? (fun i => inRun i m d) with
  | some i => (i : Int)
  | none => -1


/-- per-pair check: model = spec, range, and `specSign = i ↔ inRun i` for every `i < 12` -/
def xzOk (m d : Int) : Bool :=
  (xingZuoIndex m d == specSign m d) &&
  decide (0 ≤ xingZuoIndex m d) && decide (xingZuoIndex m d < 12) &&
  (List.range 12).all (fun i => (specSign m d == (i : Int)) == inRun i m d)

def xzCheck : Bool :=
  (List.range 12).all fun mi => (List.range 31).all fun di => xzOk ((mi : Int) + 1) ((di : Int) + 1)

theorem xzCheck_true : xzCheck = true := by decide +kernel

theorem xzOk_all (m d : Int) (h1 : 1 ≤ m) (h2 : m ≤ 12) (h3 : 1 ≤ d) (h4 : d ≤ 31) : xzOk m d = true := by
  have h := xzCheck_true
  unfold xzCheck at h
  rw [List.all_eq_true] at h
  have hm := h (m - 1).toNat (List.mem_range.mpr (by omega))
  rw [List.all_eq_true] at hm
  have hd := hm (d - 1).toNat (List.mem_range.mpr (by omega))
  have e1 : (((m - 1).toNat : Nat) : Int) + 1 = m := by omega
  have e2 : (((d - 1).toNat : Nat) : Int) + 1 = d := by omega
  rw [e1, e2] at hd
  exact hd

/-- every month-day pair (all 12×31, so including all 366 real ones) gets exactly the sign of its run; the answer depends on month and day only by construction -/
theorem xingZuo_spec : ∀ m d : Int, 1 ≤ m → m ≤ 12 → 1 ≤ d → d ≤ 31 → xingZuoIndex m d = specSign m d := by
  intro m d h1 h2 h3 h4
  have h := xzOk_all m d h1 h2 h3 h4
  simp only [xzOk, Bool.and_eq_true, beq_iff_eq, decide_eq_true_eq] at h
  exact h.1.1.1

theorem xingZuo_range : ∀ m d : Int, 1 ≤ m → m ≤ 12 → 1 ≤ d → d ≤ 31 → 0 ≤ xingZuoIndex m d ∧ xingZuoIndex m d < 12 := by
  intro m d h1 h2 h3 h4
  have h := xzOk_all m d h1 h2 h3 h4
  simp only [xzOk, Bool.and_eq_true, beq_iff_eq, decide_eq_true_eq] at h
  exact ⟨h.1.1.2, h.1.2⟩

theorem xingZuo_table_len : Gen.Tables.SolarUtil.XINGZUO.length = 12 := by decide

/-- `specSign m d = i` exactly when `(m,d)` is in the run of sign `i` (so the runs partition the pairs) -/
theorem specSign_run (m d : Int) (h1 : 1 ≤ m) (h2 : m ≤ 12) (h3 : 1 ≤ d) (h4 : d ≤ 31) (i : Nat) (hi : i < 12) :
    specSign m d = (i : Int) ↔ inRun i m d = true := by
  have h := xzOk_all m d h1 h2 h3 h4
  simp only [xzOk, Bool.and_eq_true] at h
  have h' := h.2
  rw [List.all_eq_true] at h'
  have hi' := h' i (List.mem_range.mpr hi)
  rw [beq_iff_eq] at hi'
  rw [← hi', beq_iff_eq]

/-- the model's sign, stated directly as run membership -/
theorem xingZuo_run (m d : Int) (h1 : 1 ≤ m) (h2 : m ≤ 12) (h3 : 1 ≤ d) (h4 : d ≤ 31) (i : Nat) (hi : i < 12) :
    xingZuoIndex m d = (i : Int) ↔ inRun i m d = true := by
  rw [xingZuo_spec m d h1 h2 h3 h4]; exact specSign_run m d h1 h2 h3 h4 i hi

/-! ## weekday rules -/

/-- inside any month other than October 1582 the day number is linear in the day of month -/
theorem jdn_lin_month (y m d : Int) (hm1 : 1 ≤ m) (hm : m ≤ 12) (hd1 : 1 ≤ d) (hd : d ≤ 31)
    (h : ¬ (y = 1582 ∧ m = 10)) : jdn y m d = jdn y m 1 + (d - 1) :=
  jdn_lin_of_g y m d (by omega)

theorem week_lin (y m d : Int) (hm1 : 1 ≤ m) (hm : m ≤ 12) (hd1 : 1 ≤ d) (hd : d ≤ 31)
    (h : ¬ (y = 1582 ∧ m = 10)) : week y m d = (week y m 1 + (d - 1)) % 7 := by
  unfold week
  rw [jdn_lin_month y m d hm1 hm hd1 hd h]
  omega

theorem week_range (y m d : Int) : 0 ≤ week y m d ∧ week y m d < 7 := by
  unfold week; omega

theorem daysOfMonth_ge28 (y m : Int) (hm1 : 1 ≤ m) (hm : m ≤ 12) (h : ¬ (y = 1582 ∧ m = 10)) :
    28 ≤ daysOfMonth y m ∧ daysOfMonth y m ≤ 31 := by
  have hc : m = 1 ∨ m = 2 ∨ m = 3 ∨ m = 4 ∨ m = 5 ∨ m = 6 ∨ m = 7 ∨ m = 8 ∨ m = 9 ∨ m = 10 ∨ m = 11 ∨ m = 12 := by
    omega
  unfold daysOfMonth
  rw [if_neg h]
  rcases hc with rfl | rfl | rfl | rfl | rfl | rfl | rfl | rfl | rfl | rfl | rfl | rfl
  all_goals simp [baseDaysOfMonth]
  all_goals (repeat' split)
  all_goals omega

theorem valid_parts_ymd (y m d : Int) (hv : validYmd y m d = true) (h : ¬ (y = 1582 ∧ m = 10)) :
    1 ≤ m ∧ m ≤ 12 ∧ 1 ≤ d ∧ d ≤ 31 ∧ d ≤ daysOfMonth y m := by
  rw [validYmd_iff_step] at hv
  obtain ⟨a, b, c, e, f⟩ := hv
  rw [if_neg h] at f
  exact ⟨a, b, c, e, f⟩

/-- occurrence number of day d's weekday within its month = ceil(d/7) -/
def occurrence (y m d : Int) : Nat := ((List.range d.toNat).filter fun (i : Nat) => week y m ((i:Int)+1) == week y m d).length

/-- the same count on the residues: first-of-month weekday `w`, day `n` -/
def occW (w : Int) (n : Nat) : Nat :=
  ((List.range n).filter fun (i : Nat) => (w + (i : Int)) % 7 == (w + ((n : Int) - 1)) % 7).length

def occCheck : Bool :=
  (List.range 7).all fun w => (List.range 31).all fun n => occW (w : Int) (n + 1) == (n + 1 + 6) / 7

theorem occCheck_true : occCheck = true := by decide +kernel

theorem occW_eq (w : Int) (n : Nat) (hw0 : 0 ≤ w) (hw : w < 7) (hn1 : 1 ≤ n) (hn : n ≤ 31) :
    occW w n = (n + 6) / 7 := by
  have h := occCheck_true
  unfold occCheck at h
  rw [List.all_eq_true] at h
  have h1 := h w.toNat (List.mem_range.mpr (by omega))
  rw [List.all_eq_true] at h1
  have h2 := h1 (n - 1) (List.mem_range.mpr (by omega))
  have e1 : ((w.toNat : Nat) : Int) = w := by omega
  have e2 : n - 1 + 1 = n := by omega
  rw [e1, e2, beq_iff_eq] at h2
  exact h2

theorem occurrence_eq (y m d : Int) (hv : validYmd y m d = true) (h : ¬ (y = 1582 ∧ m = 10)) : (occurrence y m d : Int) = (d + 6) / 7 := by
  obtain ⟨hm1, hm, hd1, hd, hdm⟩ := valid_parts_ymd y m d hv h
  have hwr := week_range y m 1
  have key : occurrence y m d = occW (week y m 1) d.toNat := by
    unfold occurrence occW
    congr 1
    apply List.filter_congr
    intro i hi
    rw [List.mem_range] at hi
    rw [week_lin y m ((i : Int) + 1) hm1 hm (by omega) (by omega) h, week_lin y m d hm1 hm hd1 hd h]
    have e1 : (i : Int) + 1 - 1 = (i : Int) := by omega
    have e2 : ((d.toNat : Nat) : Int) = d := by omega
    rw [e1, e2]
  rw [key, occW_eq (week y m 1) d.toNat hwr.1 hwr.2 (by omega) (by omega)]
  omega

/-- the "last weekday" test -/
theorem last_weekday_iff (y m d : Int) (hv : validYmd y m d = true) (h : ¬ (y = 1582 ∧ m = 10)) :
    d + 7 > daysOfMonth y m ↔ ∀ d', d < d' → d' ≤ daysOfMonth y m → week y m d' ≠ week y m d := by
  obtain ⟨hm1, hm, hd1, hd, hdm⟩ := valid_parts_ymd y m d hv h
  have hb := daysOfMonth_ge28 y m hm1 hm h
  have hwr := week_range y m 1
  constructor
  · intro hlast d' h1 h2
    rw [week_lin y m d' hm1 hm (by omega) (by omega) h, week_lin y m d hm1 hm hd1 hd h]
    omega
  · intro hall
    apply Classical.byContradiction
    intro hn
    have := hall (d + 7) (by omega) (by omega)
    rw [week_lin y m (d + 7) hm1 hm (by omega) (by omega) h, week_lin y m d hm1 hm hd1 hd h] at this
    omega

/-- a k-th-weekday festival (1 ≤ k ≤ 4) falls on exactly one day of its month in every year; so does a last-weekday festival -/
theorem kth_weekday_unique (y m k w : Int) (hm : 1 ≤ m ∧ m ≤ 12) (hk : 1 ≤ k ∧ k ≤ 4) (hw : 0 ≤ w ∧ w ≤ 6) (h : ¬ (y = 1582 ∧ m = 10)) :
    ∃ d, (1 ≤ d ∧ d ≤ daysOfMonth y m ∧ (d + 6) / 7 = k ∧ week y m d = w) ∧
      ∀ d', (1 ≤ d' ∧ d' ≤ daysOfMonth y m ∧ (d' + 6) / 7 = k ∧ week y m d' = w) → d' = d := by
  obtain ⟨hm1, hm2⟩ := hm
  have hb := daysOfMonth_ge28 y m hm1 hm2 h
  have hwr := week_range y m 1
  refine ⟨7 * (k - 1) + 1 + (w - week y m 1) % 7, ⟨by omega, by omega, by omega, ?_⟩, ?_⟩
  · rw [week_lin y m _ hm1 hm2 (by omega) (by omega) h]
    omega
  · rintro d' ⟨a, b, c, e⟩
    rw [week_lin y m d' hm1 hm2 a (by omega) h] at e
    omega

theorem last_weekday_unique (y m w : Int) (hm : 1 ≤ m ∧ m ≤ 12) (hw : 0 ≤ w ∧ w ≤ 6) (h : ¬ (y = 1582 ∧ m = 10)) :
    ∃ d, (1 ≤ d ∧ d ≤ daysOfMonth y m ∧ d + 7 > daysOfMonth y m ∧ week y m d = w) ∧
      ∀ d', (1 ≤ d' ∧ d' ≤ daysOfMonth y m ∧ d' + 7 > daysOfMonth y m ∧ week y m d' = w) → d' = d := by
  obtain ⟨hm1, hm2⟩ := hm
  have hb := daysOfMonth_ge28 y m hm1 hm2 h
  have hwr := week_range y m 1
  refine ⟨daysOfMonth y m - 6 + (w - week y m 1 - (daysOfMonth y m - 7)) % 7, ⟨by omega, by omega, by omega, ?_⟩, ?_⟩
  · rw [week_lin y m _ hm1 hm2 (by omega) (by omega) h]
    omega
  · rintro d' ⟨a, b, c, e⟩
    rw [week_lin y m d' hm1 hm2 a (by omega) h] at e
    omega

/-- October 1582 (days 1–4 and 15–31): the one October key of the table is still hit exactly once -/
theorem oct1582_keys : (Gen.Tables.SolarUtil.WEEK_FESTIVAL_ikeys.filter (fun k => k.head? == some 10)).all (fun k =>
    ((List.range 31).filter (fun (i : Nat) => validYmd 1582 10 ((i:Int)+1) && (k == [10, (((i:Int)+1) + 6) / 7, week 1582 10 ((i:Int)+1)]))).length == 1) = true := by
  decide +kernel

/-- table facts (regenerated tables): keys are well-formed -/
theorem week_keys_ok : Gen.Tables.SolarUtil.WEEK_FESTIVAL_ikeys.all (fun k => match k with
    | [m, k, w] => decide (1 ≤ m) && decide (m ≤ 12) && decide (0 ≤ k) && decide (k ≤ 4) && decide (0 ≤ w) && decide (w ≤ 6) | _ => false) = true := by
  decide +kernel

theorem fixed_keys_ok : Gen.Tables.SolarUtil.FESTIVAL_ikeys.all (fun k => match k with
    | [m, d] => validYmd 2000 m d | _ => false) = true := by
  decide +kernel

theorem keys_len : Gen.Tables.SolarUtil.FESTIVAL_ikeys.length = Gen.Tables.SolarUtil.FESTIVAL.length ∧
    Gen.Tables.SolarUtil.WEEK_FESTIVAL_ikeys.length = Gen.Tables.SolarUtil.WEEK_FESTIVAL.length := by
  decide +kernel

/-- what `solarFestivals` reports, unfolded: fixed-date entry of (m,d), the k-th-weekday entry, and the last-weekday entry -/
theorem solarFestivals_mem (y m d : Int) (f : String) :
    f ∈ solarFestivals y m d ↔
      (lookupI Gen.Tables.SolarUtil.FESTIVAL_ikeys Gen.Tables.SolarUtil.FESTIVAL [m, d] = some f ∨
       lookupI Gen.Tables.SolarUtil.WEEK_FESTIVAL_ikeys Gen.Tables.SolarUtil.WEEK_FESTIVAL [m, (d + 6) / 7, week y m d] = some f ∨
       (d + 7 > daysOfMonth y m ∧ lookupI Gen.Tables.SolarUtil.WEEK_FESTIVAL_ikeys Gen.Tables.SolarUtil.WEEK_FESTIVAL [m, 0, week y m d] = some f)) := by
  unfold solarFestivals
  simp only [List.mem_append, or_assoc]
  generalize lookupI SolarUtil.FESTIVAL_ikeys SolarUtil.FESTIVAL [m, d] = a
  generalize lookupI SolarUtil.WEEK_FESTIVAL_ikeys SolarUtil.WEEK_FESTIVAL [m, (d + 6) / 7, week y m d] = b
  generalize lookupI SolarUtil.WEEK_FESTIVAL_ikeys SolarUtil.WEEK_FESTIVAL [m, 0, week y m d] = c
  by_cases hl : d + 7 > daysOfMonth y m <;> cases a <;> cases b <;> cases c <;> simp [hl, eq_comm]

end Model

open Model in
#print axioms xingZuo_spec
open Model in
#print axioms xingZuo_range
open Model in
#print axioms xingZuo_table_len
open Model in
#print axioms specSign_run
open Model in
#print axioms occurrence_eq
open Model in
#print axioms last_weekday_iff
open Model in
#print axioms kth_weekday_unique
open Model in
#print axioms last_weekday_unique
open Model in
#print axioms oct1582_keys
open Model in
#print axioms week_keys_ok
open Model in
#print axioms fixed_keys_ok
open Model in
#print axioms keys_len
open Model in
#print axioms solarFestivals_mem
