/-
Proofs.YunSpec — fortune periods (`Yun`, `DaYun`, `LiuNian`, `XiaoYun`, `LiuYue`) of `Model.EightChar`:
direction, the two start-offset conversions (school 1 / school 2), the start moment, the chain of
great-fortune periods and the pillar closed forms.
All helper lemmas carry a `yun_` prefix.
-/
import Model.EightChar
import Model.AstroWF
import Proofs.CivilArith
import Proofs.JieQiSpec
import Proofs.Pillars
set_option linter.unusedVariables false
set_option linter.unusedSimpArgs false
namespace Model
open Gen.Tables

/-! ## direction -/

/-- the direction flag computed by `mkYun` -/
def yun_dir (l : Lunar) (gender : Int) : Bool :=
  (decide (l.yearGanIndexExact % 2 = 0) && decide (gender = 1)) ||
    (!decide (l.yearGanIndexExact % 2 = 0) && !decide (gender = 1))

theorem yun_fwd_eq (l : Lunar) (gender : Int) :
    yun_dir l gender = (decide (l.yearGanIndexExact % 2 = 0) == decide (gender = 1)) := by
  unfold yun_dir
  cases decide (l.yearGanIndexExact % 2 = 0) <;> cases decide (gender = 1) <;> rfl

/-- the school-2 record built from a minute count -/
def yun_ofMinutes (l : Lunar) (gender minutes : Int) : Yun :=
  let year := Int.tdiv minutes 4320
  let m1 := minutes - year * 4320
  let month := Int.tdiv m1 360
  let m2 := m1 - month * 360
  let day := Int.tdiv m2 12
  let m3 := m2 - day * 12
  ⟨gender, year, month, day, m3 * 2, yun_dir l gender, l⟩

/-- the school-1 record built from a day difference and the two time-branch indices -/
def yun_ofDays (l : Lunar) (gender dayDiff0 hd0 : Int) : Yun :=
  let hourDiff := if hd0 < 0 then hd0 + 12 else hd0
  let dayDiff := if hd0 < 0 then dayDiff0 - 1 else dayDiff0
  let monthDiff := Int.tdiv (hourDiff * 10) 30
  let month := dayDiff * 4 + monthDiff
  let day := hourDiff * 10 - monthDiff * 30
  let year := Int.tdiv month 12
  ⟨gender, year, month - year * 12, day, 0, yun_dir l gender, l⟩

/-- `mkYun` unfolded once the two neighbouring Jie are known -/
theorem yun_mkYun_eq (l : Lunar) (gender sect : Int) (prev next : String × Solar)
    (hp : l.prevJie false = some prev) (hn : l.nextJie false = some next) :
    mkYun l gender sect =
      if sect = 2 then
        ((if yun_dir l gender then next.2 else l.solar).subtractMinute
            (if !yun_dir l gender then prev.2 else l.solar)).map (yun_ofMinutes l gender)
      else
        ((if yun_dir l gender then next.2 else l.solar).subtract
            (if !yun_dir l gender then prev.2 else l.solar)).map fun dayDiff0 =>
          yun_ofDays l gender dayDiff0
            (yunZhiIndex (if yun_dir l gender then next.2 else l.solar) -
              yunZhiIndex (if !yun_dir l gender then prev.2 else l.solar)) := by
  obtain ⟨pn, ps⟩ := prev
  obtain ⟨nn, ns⟩ := next
  unfold mkYun yun_dir
  simp only [hp, hn]
  by_cases h2 : sect = 2
  · simp only [h2, if_true]
    generalize Solar.subtractMinute _ _ = X
    cases X <;> rfl
  · simp only [h2, if_false]
    generalize Solar.subtract _ _ = X
    generalize yunZhiIndex _ - yunZhiIndex _ = hd0
    cases X with
    | none => rfl
    | some d =>
      simp only [Option.map_some, yun_ofDays]
      by_cases hlt : hd0 < 0
      · simp only [hlt, if_true]; rfl
      · simp only [hlt, if_false]; rfl

/-- direction: forward exactly for yang-year males and yin-year females -/
theorem yun_direction (l : Lunar) (gender sect : Int) (y : Yun) (h : mkYun l gender sect = some y) :
    y.forward = (decide (l.yearGanIndexExact % 2 = 0) == decide (gender = 1)) ∧ y.gender = gender ∧ y.lunar = l := by
  rw [← yun_fwd_eq]
  cases hp : l.prevJie false with
  | none => unfold mkYun at h; simp only [hp] at h; cases h
  | some prev =>
    cases hn : l.nextJie false with
    | none => unfold mkYun at h; simp only [hp, hn] at h; cases h
    | some next =>
      rw [yun_mkYun_eq l gender sect prev next hp hn] at h
      split at h
      · rw [Option.map_eq_some_iff] at h
        obtain ⟨m, _, rfl⟩ := h
        exact ⟨rfl, rfl, rfl⟩
      · rw [Option.map_eq_some_iff] at h
        obtain ⟨m, _, rfl⟩ := h
        exact ⟨rfl, rfl, rfl⟩

/-! ## the two conversions -/

/-- school 2: 4320 minutes = 1 year, 360 = 1 month, 12 = 1 day, 1 minute = 2 hours -/
theorem yun_sect2_arith (minutes : Int) (hm : 0 ≤ minutes) :
    let year := Int.tdiv minutes 4320
    let m1 := minutes - year * 4320
    let month := Int.tdiv m1 360
    let m2 := m1 - month * 360
    let day := Int.tdiv m2 12
    let hour := (m2 - day * 12) * 2
    minutes = 4320 * year + 360 * month + 12 * day + hour / 2 ∧ 0 ≤ year ∧ 0 ≤ month ∧ month ≤ 11 ∧ 0 ≤ day ∧ day ≤ 29 ∧ 0 ≤ hour ∧ hour ≤ 22 ∧ hour % 2 = 0 := by
  intro year m1 month m2 day hour
  have e1 : year = minutes / 4320 := Int.tdiv_eq_ediv_of_nonneg hm
  have h1 : 0 ≤ m1 ∧ m1 < 4320 := by simp only [m1]; omega
  have e2 : month = m1 / 360 := Int.tdiv_eq_ediv_of_nonneg h1.1
  have h2 : 0 ≤ m2 ∧ m2 < 360 := by simp only [m2]; omega
  have e3 : day = m2 / 12 := Int.tdiv_eq_ediv_of_nonneg h2.1
  have h3 : 0 ≤ m2 - day * 12 ∧ m2 - day * 12 < 12 := by omega
  have e4 : hour = (m2 - day * 12) * 2 := rfl
  have e5 : m2 = m1 - month * 360 := rfl
  have e6 : m1 = minutes - year * 4320 := rfl
  omega

/-- school 1: one day = four months, one two-hour slot = ten days -/
theorem yun_sect1_arith (dayDiff hourDiff : Int) (hd : 0 ≤ dayDiff) (hh : 0 ≤ hourDiff ∧ hourDiff ≤ 11) :
    let monthDiff := Int.tdiv (hourDiff * 10) 30
    let month := dayDiff * 4 + monthDiff
    let day := hourDiff * 10 - monthDiff * 30
    let year := Int.tdiv month 12
    month - year * 12 + 12 * year = 4 * dayDiff + hourDiff / 3 ∧ day = 10 * (hourDiff % 3) ∧
    0 ≤ year ∧ 0 ≤ month - year * 12 ∧ month - year * 12 ≤ 11 ∧ (day = 0 ∨ day = 10 ∨ day = 20) := by
  intro monthDiff month day year
  have e1 : monthDiff = hourDiff * 10 / 30 := Int.tdiv_eq_ediv_of_nonneg (by omega)
  have e1' : monthDiff = hourDiff / 3 := by omega
  have e2 : month = dayDiff * 4 + monthDiff := rfl
  have h2 : 0 ≤ month := by omega
  have e3 : year = month / 12 := Int.tdiv_eq_ediv_of_nonneg h2
  have e4 : day = hourDiff * 10 - monthDiff * 30 := rfl
  omega

/-! ## the neighbouring Jie of a real birth moment -/

theorem yun_nextJie_facts (yv : Int) (l : Lunar) (hts : termsOk yv l.terms = true) (hnow : stampValid l.solar = true)
    (next : String × Solar) (hn : l.nextJie false = some next) :
    stampValid next.2 = true ∧ l.solar.stamp < next.2.stamp := by
  unfold Lunar.nextJie at hn
  rw [near_forward yv l _ hts hnow, Option.map_eq_some_iff] at hn
  obtain ⟨e, he, rfl⟩ := hn
  have hmem := List.mem_of_find?_eq_some he
  have hp := List.find?_some he
  unfold selected at hmem
  have hv := (entries_facts yv l.terms hts).1 e (List.mem_filter.1 hmem).1
  simp only [decide_eq_true_eq] at hp
  exact ⟨hv, (key_lt_iff_stamp _ _ hnow hv).1 hp⟩

theorem yun_prevJie_facts (yv : Int) (l : Lunar) (hts : termsOk yv l.terms = true) (hnow : stampValid l.solar = true)
    (prev : String × Solar) (hp : l.prevJie false = some prev) :
    stampValid prev.2 = true ∧ prev.2.stamp ≤ l.solar.stamp := by
  unfold Lunar.prevJie at hp
  rw [near_backward yv l _ hts hnow, Option.map_eq_some_iff] at hp
  obtain ⟨e, he, rfl⟩ := hp
  have hmem := List.mem_of_getLast? he
  rw [List.mem_filter] at hmem
  obtain ⟨hmem, hk⟩ := hmem
  unfold selected at hmem
  have hv := (entries_facts yv l.terms hts).1 e (List.mem_filter.1 hmem).1
  simp only [decide_eq_true_eq] at hk
  refine ⟨hv, ?_⟩
  have := key_lt_iff_stamp _ _ hnow hv
  simp only at this ⊢
  omega

/-- day difference without any year bound (the bound of `daysBetween_eq` is not used by its proof) -/
theorem yun_daysBetween_eq (ay am ad by_ bm bd : Int) (ha : validYmd ay am ad = true) (hb : validYmd by_ bm bd = true) :
    daysBetween ay am ad by_ bm bd = some (jdn by_ bm bd - jdn ay am ad) := by
  unfold daysBetween
  rw [daysInYear_eq ay am ad ha, daysInYear_eq by_ bm bd hb]
  simp only
  by_cases he : ay = by_
  · subst he
    simp only [if_true]
    congr 1; omega
  · simp only [he, if_false]
    by_cases hgt : ay > by_
    · simp only [hgt, if_true]
      rw [yearsLoop_eq]
      have := jdn_year_len_all by_
      rw [show by_ + 1 + ((ay - by_ - 1).toNat : Int) = ay by omega]
      congr 1; omega
    · simp only [hgt, if_false]
      rw [yearsLoop_eq]
      have := jdn_year_len_all ay
      rw [show ay + 1 + ((by_ - ay - 1).toNat : Int) = by_ by omega]
      congr 1; omega

theorem yun_subtract_eq (s o : Solar) (hs : s.valid = true) (ho : o.valid = true) :
    s.subtract o = some (s.jdn - o.jdn) := by
  unfold Solar.subtract Solar.jdn
  exact yun_daysBetween_eq _ _ _ _ _ _ (valid_parts o ho).1 (valid_parts s hs).1

theorem yun_subtractMinute_eq (s o : Solar) (hs : s.valid = true) (ho : o.valid = true) :
    s.subtractMinute o = some ((s.jdn * 1440 + s.hour * 60 + s.minute) - (o.jdn * 1440 + o.hour * 60 + o.minute)) := by
  unfold Solar.subtractMinute
  rw [yun_subtract_eq s o hs ho]
  simp only
  split <;> (congr 1; omega)

/-- the interval [a, b] measured by `mkYun`: from the birth moment to the next Jie (forward) or from the previous Jie to the birth moment -/
theorem yun_interval (yv : Int) (l : Lunar) (gender : Int) (hts : termsOk yv l.terms = true) (hnow : stampValid l.solar = true)
    (prev next : String × Solar) (hp : l.prevJie false = some prev) (hn : l.nextJie false = some next) :
    stampValid (if !yun_dir l gender then prev.2 else l.solar) = true ∧
    stampValid (if yun_dir l gender then next.2 else l.solar) = true ∧
    (if !yun_dir l gender then prev.2 else l.solar).stamp ≤ (if yun_dir l gender then next.2 else l.solar).stamp := by
  obtain ⟨hv1, ho1⟩ := yun_nextJie_facts yv l hts hnow next hn
  obtain ⟨hv2, ho2⟩ := yun_prevJie_facts yv l hts hnow prev hp
  cases yun_dir l gender
  · simp only [Bool.not_false, if_true, Bool.false_eq_true, if_false]
    exact ⟨hv2, hnow, ho2⟩
  · simp only [Bool.not_true, if_true, Bool.false_eq_true, if_false]
    exact ⟨hnow, hv1, by omega⟩

/-- the full statement for a real birth moment: the offset is the distance from the birth moment to the next Jie (forward) / from the previous Jie (backward), converted as above -/
theorem yun_sect2_spec (yv : Int) (l : Lunar) (gender : Int) (hts : termsOk yv l.terms = true) (hnow : stampValid l.solar = true)
    (prev next : String × Solar) (hp : l.prevJie false = some prev) (hn : l.nextJie false = some next) :
    ∃ y, mkYun l gender 2 = some y ∧
      let a := if y.forward then l.solar else prev.2
      let b := if y.forward then next.2 else l.solar
      let minutes := (b.jdn * 1440 + b.hour * 60 + b.minute) - (a.jdn * 1440 + a.hour * 60 + a.minute)
      0 ≤ minutes ∧ minutes = 4320 * y.startYear + 360 * y.startMonth + 12 * y.startDay + y.startHour / 2 ∧
      0 ≤ y.startMonth ∧ y.startMonth ≤ 11 ∧ 0 ≤ y.startDay ∧ y.startDay ≤ 29 ∧ 0 ≤ y.startHour ∧ y.startHour ≤ 23 := by
  obtain ⟨hva, hvb, hle⟩ := yun_interval yv l gender hts hnow prev next hp hn
  rw [yun_mkYun_eq l gender 2 prev next hp hn]
  simp only [if_true]
  rw [yun_subtractMinute_eq _ _ (stampValid_parts _ hvb).1 (stampValid_parts _ hva).1]
  simp only [Option.map_some]
  refine ⟨_, rfl, ?_⟩
  have hfw : (yun_ofMinutes l gender
      ((if yun_dir l gender then next.2 else l.solar).jdn * 1440 + (if yun_dir l gender then next.2 else l.solar).hour * 60 +
        (if yun_dir l gender then next.2 else l.solar).minute -
       ((if !yun_dir l gender then prev.2 else l.solar).jdn * 1440 + (if !yun_dir l gender then prev.2 else l.solar).hour * 60 +
        (if !yun_dir l gender then prev.2 else l.solar).minute))).forward = yun_dir l gender := rfl
  simp only [hfw]
  have ea : (if yun_dir l gender then l.solar else prev.2) = (if !yun_dir l gender then prev.2 else l.solar) := by
    cases yun_dir l gender <;> rfl
  rw [ea]
  generalize (if !yun_dir l gender then prev.2 else l.solar) = a at *
  generalize (if yun_dir l gender then next.2 else l.solar) = b at *
  have ba := stampValid_bounds a hva
  have bb := stampValid_bounds b hvb
  have hmin : 0 ≤ (b.jdn * 1440 + b.hour * 60 + b.minute) - (a.jdn * 1440 + a.hour * 60 + a.minute) := by
    unfold Solar.stamp Solar.secOfDay at hle
    omega
  generalize (b.jdn * 1440 + b.hour * 60 + b.minute) - (a.jdn * 1440 + a.hour * 60 + a.minute) = minutes at *
  have := yun_sect2_arith minutes hmin
  simp only at this
  simp only [yun_ofMinutes]
  omega

/-- the time-branch index used by school 1: 0 for 00:xx, ⌊(h+1)/2⌋ up to 11 for 21:00–23:59 (so it is monotone within a civil day) -/
theorem yun_zhi_eq (s : Solar) (hs : stampValid s = true) :
    yunZhiIndex s = if s.hour = 23 then 11 else (s.hour + 1) / 2 := by
  have b := stampValid_bounds s hs
  unfold yunZhiIndex
  by_cases h : s.hour = 23
  · simp only [h, ne_eq, not_true_eq_false, if_false, if_true]
  · simp only [ne_eq, h, not_false_eq_true, if_true, if_false]
    rw [timeZhi_eq s.hour s.minute (by omega) (by omega)]
    omega

theorem yun_sect1_spec (yv : Int) (l : Lunar) (gender : Int) (hts : termsOk yv l.terms = true) (hnow : stampValid l.solar = true)
    (prev next : String × Solar) (hp : l.prevJie false = some prev) (hn : l.nextJie false = some next) :
    ∃ y, mkYun l gender 1 = some y ∧ y.startHour = 0 ∧ 0 ≤ y.startYear ∧ 0 ≤ y.startMonth ∧ y.startMonth ≤ 11 ∧
      (y.startDay = 0 ∨ y.startDay = 10 ∨ y.startDay = 20) := by
  obtain ⟨hva, hvb, hle⟩ := yun_interval yv l gender hts hnow prev next hp hn
  rw [yun_mkYun_eq l gender 1 prev next hp hn]
  rw [if_neg (by omega)]
  rw [yun_subtract_eq _ _ (stampValid_parts _ hvb).1 (stampValid_parts _ hva).1]
  simp only [Option.map_some]
  refine ⟨_, rfl, ?_⟩
  generalize (if !yun_dir l gender then prev.2 else l.solar) = a at *
  generalize (if yun_dir l gender then next.2 else l.solar) = b at *
  have ba := stampValid_bounds a hva
  have bb := stampValid_bounds b hvb
  have za := yun_zhi_eq a hva
  have zb := yun_zhi_eq b hvb
  unfold Solar.stamp Solar.secOfDay at hle
  have hD : 0 ≤ b.jdn - a.jdn := by omega
  have hza : 0 ≤ yunZhiIndex a ∧ yunZhiIndex a ≤ 11 := by rw [za]; split <;> omega
  have hzb : 0 ≤ yunZhiIndex b ∧ yunZhiIndex b ≤ 11 := by rw [zb]; split <;> omega
  have hsame : b.jdn - a.jdn = 0 → 0 ≤ yunZhiIndex b - yunZhiIndex a := by
    intro h0
    have hh : a.hour ≤ b.hour := by omega
    rw [za, zb]
    split <;> split <;> omega
  have hrange : -11 ≤ yunZhiIndex b - yunZhiIndex a ∧ yunZhiIndex b - yunZhiIndex a ≤ 11 := by omega
  clear hza hzb za zb hle ba bb
  generalize yunZhiIndex b - yunZhiIndex a = hd0 at *
  generalize b.jdn - a.jdn = D at *
  by_cases hlt : hd0 < 0
  · obtain ⟨t1, t2, t3, t4, t5, t6⟩ := yun_sect1_arith (D - 1) (hd0 + 12) (by omega) (by omega)
    simp only [yun_ofDays, hlt, if_true]
    exact ⟨trivial, t3, t4, t5, t6⟩
  · obtain ⟨t1, t2, t3, t4, t5, t6⟩ := yun_sect1_arith D hd0 hD (by omega)
    simp only [yun_ofDays, hlt, if_false]
    exact ⟨trivial, t3, t4, t5, t6⟩

/-! ## the start moment -/

/-- the start moment is the birth moment plus the offsets, applied year, month, day, hour in turn (definitional) -/
theorem startSolar_def (y : Yun) : y.startSolar =
    (y.lunar.solar.nextYear y.startYear).bind fun a => (a.nextMonth y.startMonth).bind fun b => (b.nextDay y.startDay).bind fun c => c.nextHour y.startHour := rfl

/-- hour stepping never fails in the model and yields a valid date (no year bound needed) -/
theorem yun_nextHour_valid (s : Solar) (hours : Int) (hv : s.valid = true) :
    ∃ r, s.nextHour hours = some r ∧ r.valid = true := by
  rw [nextHour_eq]
  obtain ⟨k1, k2, k3⟩ := hourDays_spec (s.hour + hours)
  obtain ⟨o, eo, hov, hj, a1, a2, a3⟩ := nextDay_spec_strong s (hourDays (s.hour + hours)).2 hv
  rw [eo]
  simp only
  have bo := hms_bounds o hov
  obtain ⟨e, hv0⟩ := newSolar_some o.year o.month o.day (hourDays (s.hour + hours)).1 o.minute o.second
    (valid_parts o hov).1 ((validHms_iff _ _ _).2 (by omega))
  exact ⟨_, e, hv0⟩

theorem startSolar_total (y : Yun) (hv : y.lunar.solar.valid = true) (hy : 1 ≤ y.lunar.solar.year) (h0 : 0 ≤ y.startYear) :
    ∃ s, y.startSolar = some s ∧ s.valid = true := by
  obtain ⟨a, ea, hva, _⟩ := nextYear_spec y.lunar.solar y.startYear hv
  obtain ⟨b, eb, hvb, _⟩ := nextMonth_spec a y.startMonth hva
  obtain ⟨c, ec, hvc, _⟩ := nextDay_spec_strong b y.startDay hvb
  obtain ⟨d, ed, hvd⟩ := yun_nextHour_valid c y.startHour hvc
  refine ⟨d, ?_, hvd⟩
  rw [startSolar_def, ea, Option.bind_some, eb, Option.bind_some, ec, Option.bind_some, ed]

/-! ## great-fortune periods -/

/-- great-fortune periods: period 0 runs from the birth year to the year before the start year (ages 1 …), periods 1,2,… are consecutive ten-year spans
    whose ages and years line up with the birth year -/
theorem daYun_chain (y : Yun) (ss : Solar) (hs : y.startSolar = some ss) (i : Int) (hi : 1 ≤ i) :
    ∃ d d', mkDaYun y i = some d ∧ mkDaYun y (i + 1) = some d' ∧
      d.endYear = d.startYear + 9 ∧ d.endAge = d.startAge + 9 ∧ d.startAge = d.startYear - y.lunar.solar.year + 1 ∧
      d'.startYear = d.endYear + 1 ∧ d'.startAge = d.endAge + 1 ∧ d.startYear = ss.year + (i - 1) * 10 := by
  have h1 : ¬ i < 1 := by omega
  have h2 : ¬ i + 1 < 1 := by omega
  unfold mkDaYun
  simp only [hs, h1, h2, if_false]
  refine ⟨_, _, rfl, rfl, ?_⟩
  dsimp only
  omega

theorem daYun_zero (y : Yun) (ss : Solar) (hs : y.startSolar = some ss) :
    ∃ d0 d1, mkDaYun y 0 = some d0 ∧ mkDaYun y 1 = some d1 ∧ d0.startYear = y.lunar.solar.year ∧ d0.startAge = 1 ∧
      d1.startYear = d0.endYear + 1 ∧ d1.startAge = d0.endAge + 1 ∧ d0.endAge = d0.endYear - y.lunar.solar.year + 1 := by
  have h1 : (0 : Int) < 1 := by omega
  have h2 : ¬ (1 : Int) < 1 := by omega
  unfold mkDaYun
  simp only [hs, h1, h2, if_true, if_false]
  refine ⟨_, _, rfl, rfl, ?_⟩
  dsimp only
  omega

theorem jiazi_len : Gen.Tables.LunarUtil.JIA_ZI.length = 60 := by decide

/-- great-fortune pillars step one by one from the (exact) month pillar in the fortune direction -/
theorem daYun_pillar (y : Yun) (d : DaYun) (hi : 1 ≤ d.index) (hi2 : d.index ≤ 60)
    (hm : 0 ≤ ganZhiIndex y.lunar.monthGanIndexExact y.lunar.monthZhiIndexExact ∧ ganZhiIndex y.lunar.monthGanIndexExact y.lunar.monthZhiIndexExact ≤ 59)
    (hlen : Gen.Tables.LunarUtil.JIA_ZI.length = 60) :
    d.ganZhi y = jiaZiStr ((ganZhiIndex y.lunar.monthGanIndexExact y.lunar.monthZhiIndexExact + (if y.forward then d.index else -d.index)) % 60) := by
  unfold DaYun.ganZhi
  have h1 : ¬ d.index < 1 := by omega
  simp only [h1, if_false, hlen]
  generalize ganZhiIndex y.lunar.monthGanIndexExact y.lunar.monthZhiIndexExact = o at *
  congr 1
  cases y.forward
  · simp only [Bool.false_eq_true, if_false]
    split <;> split <;> omega
  · simp only [if_true]
    split <;> split <;> omega

/-! ## annual, minor and monthly fortunes -/

/-- annual fortunes: entry k of a period is the calendar year startYear + k at age startAge + k, and its pillar index is
    (pillar index of the birth civil year + (that year − birth year)) mod 60 -/
theorem liuNian_pillar (A : Astro) (y : Yun) (d : DaYun) (k : Int) (ll : Lunar) (hk : 0 ≤ k)
    (hl : Lunar.fromSolar A (termByName y.lunar.terms "立春") = some ll)
    (hL : 0 ≤ ganZhiIndex ll.yearGanIndexExact ll.yearZhiIndexExact)
    (hd : (d.index ≤ 0 ∧ d.startYear = y.lunar.solar.year) ∨ (0 < d.index ∧ d.startAge = d.startYear - y.lunar.solar.year + 1 ∧ 0 ≤ d.startAge - 1)) :
    liuNianGanZhi A y d k = some (jiaZiStr ((ganZhiIndex ll.yearGanIndexExact ll.yearZhiIndexExact + ((d.startYear + k) - y.lunar.solar.year)) % 60)) := by
  unfold liuNianGanZhi
  simp only [hl, jiazi_len]
  generalize ganZhiIndex ll.yearGanIndexExact ll.yearZhiIndexExact = G at *
  congr 2
  rcases hd with ⟨h1, h2⟩ | ⟨h1, h2, h3⟩
  · have hc : ¬ d.index > 0 := by omega
    simp only [hc, if_false]
    rw [Int.tmod_eq_emod_of_nonneg (by omega)]
    congr 1
    omega
  · have hc : d.index > 0 := h1
    simp only [hc, if_true]
    rw [Int.tmod_eq_emod_of_nonneg (by omega)]
    congr 1
    omega

/-- minor fortunes step from the hour pillar by age (age = k+1 in period 0, startAge + k afterwards), in the fortune direction -/
theorem xiaoYun_pillar (y : Yun) (d : DaYun) (k : Int) :
    xiaoYunGanZhi y d k = jiaZiStr ((ganZhiIndex y.lunar.timeGanIndex y.lunar.timeZhiIndex +
      (if y.forward then 1 else -1) * (k + 1 + (if d.index > 0 then d.startAge - 1 else 0))) % 60) := by
  unfold xiaoYunGanZhi
  simp only [jiazi_len]
  generalize ganZhiIndex y.lunar.timeGanIndex y.lunar.timeZhiIndex = G
  generalize (k + 1 + (if d.index > 0 then d.startAge - 1 else 0)) = add
  congr 1
  cases y.forward
  · simp only [Bool.false_eq_true, if_false]
    omega
  · simp only [if_true]
    omega

/-- the first character of a pillar name is its stem name -/
theorem yun_firstChar : ∀ g : Fin 10, ∀ z : Fin 12,
    String.ofList ((ganStr (g.val : Int) ++ zhiStr (z.val : Int)).toList.take 1) = ganStr (g.val : Int) := by
  decide

/-- the offset selected by `liuYueGanZhi` from the stem name -/
def yun_liuYueOffset (yearGan : String) : Int :=
  if yearGan == "甲" || yearGan == "己" then 2
  else if yearGan == "乙" || yearGan == "庚" then 4
  else if yearGan == "丙" || yearGan == "辛" then 6
  else if yearGan == "丁" || yearGan == "壬" then 8
  else 0

/-- the ten stem names are pairwise distinct, so the name comparisons select by stem index -/
theorem yun_offset : ∀ g : Fin 10, yun_liuYueOffset (ganStr (g.val : Int)) = (2 * ((g.val : Int) % 5) + 2) % 10 := by
  decide

/-- monthly fortunes follow the five-tigers rule from that year's stem g: month index i (0 = 寅月) has stem (2·(g mod 5) + 2 + i) mod 10 and branch (i + 2) mod 12 -/
theorem liuYue_pillar (g z : Int) (i : Int) (hg : 0 ≤ g ∧ g ≤ 9) (hz : 0 ≤ z ∧ z ≤ 11) (hi : 0 ≤ i ∧ i ≤ 11) :
    liuYueGanZhi (ganStr g ++ zhiStr z) i = ganStr ((2 * (g % 5) + 2 + i) % 10) ++ zhiStr ((i + 2) % 12) := by
  obtain ⟨g', rfl⟩ := Int.eq_ofNat_of_zero_le hg.1
  obtain ⟨z', rfl⟩ := Int.eq_ofNat_of_zero_le hz.1
  have hfc := yun_firstChar ⟨g', by omega⟩ ⟨z', by omega⟩
  have hoff := yun_offset ⟨g', by omega⟩
  simp only at hfc hoff
  have e : liuYueGanZhi (ganStr (g' : Int) ++ zhiStr (z' : Int)) i =
      strGetD LunarUtil.GAN ((i + yun_liuYueOffset (String.ofList ((ganStr (g' : Int) ++ zhiStr (z' : Int)).toList.take 1))) % 10 + 1) ++
        strGetD LunarUtil.ZHI ((i + LunarUtil.BASE_MONTH_ZHI_INDEX) % 12 + 1) := rfl
  rw [e, hfc, hoff]
  have e1 : (i + (2 * ((g' : Int) % 5) + 2) % 10) % 10 = (2 * ((g' : Int) % 5) + 2 + i) % 10 := by omega
  have e2 : (i + LunarUtil.BASE_MONTH_ZHI_INDEX) % 12 = (i + 2) % 12 := rfl
  rw [e1, e2]
  have hz2 : ¬ ((i + 2) % 12 + 1 < 0) := by omega
  simp only [ganStr, ganStr.strGetD', zhiStr, strGetD, hz2, if_false]

#print axioms yun_direction
#print axioms yun_sect2_arith
#print axioms yun_sect1_arith
#print axioms yun_sect2_spec
#print axioms yun_sect1_spec
#print axioms startSolar_def
#print axioms startSolar_total
#print axioms daYun_chain
#print axioms daYun_zero
#print axioms daYun_pillar
#print axioms jiazi_len
#print axioms liuNian_pillar
#print axioms xiaoYun_pillar
#print axioms liuYue_pillar

end Model
