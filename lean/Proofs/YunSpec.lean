/-
Proofs.YunSpec — fortune periods (`Yun`, `DaYun`, `LiuNian`, `XiaoYun`, `LiuYue`) of `Model.EightChar`:
direction, the two start-offset conversions (school 1 / school 2), the start moment, the chain of
great-fortune periods and the pillar closed forms.
All helper lemmas carry a `yun_` prefix.
-/
import Model.EightChar
import Model.AstroWF
import Proofs.CivilArith
import Proofs.JieQiSpec
import Proofs.Pillars
set_option linter.unusedVariables false
set_option linter.unusedSimpArgs false
namespace Model
open Gen.Tables

/-! ## direction -/

/-- the direction flag computed by `mkYun` -/
def yunFwd (l : Lunar) (gender : Int) : Bool :=
  (decide (l.yearGanIndexExact % 2 = 0) && decide (gender = 1)) ||
    (!decide (l.yearGanIndexExact % 2 = 0) && !decide (gender = 1))

theorem yun_fwd_eq (l : Lunar) (gender : Int) :
    yunFwd l gender = (decide (l.yearGanIndexExact % 2 = 0) == decide (gender = 1)) := by
  unfold yunFwd
  cases decide (l.yearGanIndexExact % 2 = 0) <;> cases decide (gender = 1) <;> rfl

/-- the school-2 record built from a minute count -/
def yunOfMinutes (l : Lunar) (gender minutes : Int) : Yun :=
  let year := Int.tdiv minutes 4320
  let m1 := minutes - year * 4320
  let month := Int.tdiv m1 360
  let m2 := m1 - month * 360
  let day := Int.tdiv m2 12
  let m3 := m2 - day * 12
  ⟨gender, year, month, day, m3 * 2, yunFwd l gender, l⟩

/-- the school-1 record built from a day difference and the two time-branch indices -/
def yunOfDays (l : Lunar) (gender dayDiff0 hd0 : Int) : Yun :=
  let hourDiff := if hd0 < 0 then hd0 + 12 else hd0
  let dayDiff := if hd0 < 0 then dayDiff0 - 1 else dayDiff0
  let monthDiff := Int.tdiv (hourDiff * 10) 30
  let month := dayDiff * 4 + monthDiff
  let day := hourDiff * 10 - monthDiff * 30
  let year := Int.tdiv month 12
  ⟨gender, year, month - year * 12, day, 0, yunFwd l gender, l⟩

/-- `mkYun` unfolded once the two neighbouring Jie are known -/
theorem yun_mkYun_eq (l : Lunar) (gender sect : Int) (prev next : String × Solar)
    (hp : l.prevJie false = some prev) (hn : l.nextJie false = some next) :
    mkYun l gender sect =
      if sect = 2 then
        ((if yunFwd l gender then next.2 else l.solar).subtractMinute
            (if !yunFwd l gender then prev.2 else l.solar)).map (yunOfMinutes l gender)
      else
        ((if yunFwd l gender then next.2 else l.solar).subtract
            (if !yunFwd l gender then prev.2 else l.solar)).map fun dayDiff0 =>
          yunOfDays l gender dayDiff0
            (yunZhiIndex (if yunFwd l gender then next.2 else l.solar) -
              yunZhiIndex (if !yunFwd l gender then prev.2 else l.solar)) := by
  obtain ⟨pn, ps⟩ := prev
  obtain ⟨nn, ns⟩ := next
  unfold mkYun
  simp only [hp, hn]
  by_cases h2 : sect = 2
  · simp only [h2, if_true]
    cases hs : (if yunFwd l gender then ns else l.solar).subtractMinute
        (if !yunFwd l gender then ps else l.solar) with
    | none =>
      simp only [yunFwd] at hs
      simp only [hs, Option.map_none]
    | some minutes =>
      simp only [yunFwd] at hs
      simp only [hs, Option.map_some, yunOfMinutes, yunFwd]
  · simp only [h2, if_false]
    cases hs : (if yunFwd l gender then ns else l.solar).subtract
        (if !yunFwd l gender then ps else l.solar) with
    | none =>
      simp only [yunFwd] at hs
      simp only [hs, Option.map_none]
    | some dayDiff0 =>
      simp only [yunFwd] at hs
      simp only [hs, Option.map_some, yunOfDays, yunFwd]
      split <;> rfl

/-- direction: forward exactly for yang-year males and yin-year females -/
theorem yun_direction (l : Lunar) (gender sect : Int) (y : Yun) (h : mkYun l gender sect = some y) :
    y.forward = (decide (l.yearGanIndexExact % 2 = 0) == decide (gender = 1)) ∧ y.gender = gender ∧ y.lunar = l := by
  rw [← yun_fwd_eq]
  cases hp : l.prevJie false with
  | none => unfold mkYun at h; simp only [hp] at h; cases h
  | some prev =>
    cases hn : l.nextJie false with
    | none => unfold mkYun at h; simp only [hp, hn] at h; cases h
    | some next =>
      rw [yun_mkYun_eq l gender sect prev next hp hn] at h
      split at h
      · rw [Option.map_eq_some_iff] at h
        obtain ⟨m, _, rfl⟩ := h
        exact ⟨rfl, rfl, rfl⟩
      · rw [Option.map_eq_some_iff] at h
        obtain ⟨m, _, rfl⟩ := h
        exact ⟨rfl, rfl, rfl⟩

end Model
