/-
Proofs.FnWeekNext — SolarWeek.Next: generated code = Model.SolarWeek.next / nextSepLoop.
-/
import Proofs.FnCivil2
import Proofs.FnWeek
import Proofs.CivilStep
import Model.Week

namespace FnEq
open Gen.Fn
set_option linter.unusedSimpArgs false

/-! ## 2. SolarWeek.Next -/

/-- (a) `weeks = 0`: a copy of the receiver (no validation, no fuel; the model returns the receiver). -/
theorem solarWeekNext_zero (fuel : Nat) (a1 : Int → Int) (a2 : Int → Gen.Fn.Solar) (a3 : Int → Int) (a4 : Int → Gen.Fn.Solar)
    (w : Gen.Fn.SolarWeek) (sep : Bool) :
    Gen.Fn.calendar_SolarWeek_Next fuel a1 a2 a3 a4 w 0 sep =
      (match (mi_weekToM w).next 0 sep with | some r => .ok (mi_weekOfM r) | none => .error .panic) := by
  simp only [Gen.Fn.calendar_SolarWeek_Next, decide_true, if_true, newSolarWeekFromYmd_eq, c1_ok_bind,
    Model.SolarWeek.next, c1_pure]
  rfl

theorem nx_newSolarYmd_some (y m d : Int) (c : Model.Solar) (h : Model.newSolarYmd y m d = some c) :
    c = ⟨y, m, d, 0, 0, 0⟩ ∧ c.valid = true := by
  refine ⟨?_, c2_newSolar_valid _ _ _ _ _ _ _ h⟩
  unfold Model.newSolarYmd Model.newSolar at h
  split at h
  · injection h with h; exact h.symm
  · cases h

/-- (b) `separateMonth = false`: the week of `NewSolarFromYmd(y, m, d).NextDay(7·weeks)`. -/
theorem solarWeekNext_eq_false (fuel : Nat) (a1 : Int → Int) (a2 : Int → Gen.Fn.Solar) (a3 : Int → Int) (a4 : Int → Gen.Fn.Solar)
    (w : Gen.Fn.SolarWeek) (weeks : Int) (hf : (weeks * 7).natAbs + 2 ≤ fuel) :
    Gen.Fn.calendar_SolarWeek_Next fuel a1 a2 a3 a4 w weeks false =
      (match (mi_weekToM w).next weeks false with
        | some r => .ok (mi_weekOfM r) | none => .error .panic) := by
  by_cases h0 : weeks = 0
  · subst h0; exact solarWeekNext_zero fuel a1 a2 a3 a4 w false
  · have h0' : ¬ 0 = weeks := fun e => h0 e.symm
    simp only [Gen.Fn.calendar_SolarWeek_Next, h0', decide_false, Bool.false_eq_true, if_false,
      Model.SolarWeek.next, if_neg h0, newSolarFromYmd_eq, mi_weekToM]
    cases hc : Model.newSolarYmd w.year w.month w.day with
    | none => rfl
    | some c =>
      have hv := (nx_newSolarYmd_some _ _ _ _ hc).2
      simp only [c1_ok_bind, solarNextDay_eq fuel (ofM c) (weeks * 7) (by simpa using hv) hf, toM_ofM]
      cases c.nextDay (weeks * 7) with
      | none => rfl
      | some c1 => rfl

/-- One iteration of `Model.nextSepLoop` as a function of the loop state `(c, month)` (the current
`week` is overwritten before it is read): the new `(c, week, month)`; `none` = panic. -/
def nx_sepStep (start : Int) (plus : Bool) (c : Model.Solar) (month : Int) :
    Option (Model.Solar × Model.SolarWeek × Int) :=
  match c.nextDay (if plus then 7 else -7) with
  | none => none
  | some c1 =>
    let week := Model.weekOf c1 start
    if month ≠ week.month then
      if plus then
        if week.index = 1 then
          match week.firstDay with
          | none => none
          | some fd => some (c1, Model.weekOf fd start, (Model.weekOf fd start).month)
        else
          match Model.newSolarYmd week.year week.month 1 with
          | none => none
          | some c2 => some (c2, Model.weekOf c2 start, week.month)
      else
        if Model.weeksOfMonth week.year week.month start = week.index then
          match week.firstDay with
          | none => none
          | some fd =>
            match fd.nextDay 6 with
            | none => none
            | some ld => some (c1, Model.weekOf ld start, (Model.weekOf ld start).month)
        else
          match (Model.newSolarYmd week.year week.month 1).bind
              (fun f => f.nextDay (Model.daysOfMonth week.year week.month - 1)) with
          | none => none
          | some c2 => some (c2, Model.weekOf c2 start, week.month)
    else some (c1, week, month)

/-- (c) one-step unfolding of the model loop -/
theorem nx_sepLoop_step (start : Int) (plus : Bool) (k : Nat) (c : Model.Solar) (w : Model.SolarWeek)
    (month : Int) :
    Model.nextSepLoop start plus (k + 1) c w month =
      (match nx_sepStep start plus c month with
        | none => none
        | some st => Model.nextSepLoop start plus k st.1 st.2.1 st.2.2) := by
  rw [Model.nextSepLoop, nx_sepStep]
  cases c.nextDay (if plus then 7 else -7) with
  | none => rfl
  | some c1 =>
    dsimp only
    by_cases hm : month ≠ (Model.weekOf c1 start).month
    · rw [if_pos hm, if_pos hm]
      cases plus with
      | true =>
        simp only [if_true]
        by_cases hi : (Model.weekOf c1 start).index = 1
        · rw [if_pos hi, if_pos hi]
          cases (Model.weekOf c1 start).firstDay <;> rfl
        · rw [if_neg hi, if_neg hi]
          cases Model.newSolarYmd (Model.weekOf c1 start).year (Model.weekOf c1 start).month 1 <;> rfl
      | false =>
        simp only [Bool.false_eq_true, if_false]
        by_cases hi : Model.weeksOfMonth (Model.weekOf c1 start).year (Model.weekOf c1 start).month start
            = (Model.weekOf c1 start).index
        · rw [if_pos hi, if_pos hi]
          cases (Model.weekOf c1 start).firstDay with
          | none => rfl
          | some fd =>
            dsimp only
            cases fd.nextDay 6 <;> rfl
        · rw [if_neg hi, if_neg hi]
          cases (Model.newSolarYmd (Model.weekOf c1 start).year (Model.weekOf c1 start).month 1).bind
              (fun f => f.nextDay (Model.daysOfMonth (Model.weekOf c1 start).year
                (Model.weekOf c1 start).month - 1)) <;> rfl
    · rw [if_neg hm, if_neg hm]

abbrev nx_WSt := Gen.Fn.Solar × Int × Gen.Fn.SolarWeek × Int × Bool

/-- body of the translated loop for `weeks > 0`; state `(c, n, week, month, done)` -/
abbrev nx_stepP (fuel : Nat) (a1 : Int → Int) (a2 : Int → Gen.Fn.Solar) (start : Int) :
    Nat → nx_WSt → Except Gen.Fn.Err (ForInStep nx_WSt) := fun k7 __s =>
  if (!decide (0 ≠ __s.snd.fst)) = true then
    pure (ForInStep.done (__s.fst, __s.snd.fst, __s.snd.snd.fst, __s.snd.snd.snd.fst, true))
  else do
    let t9 ← calendar_Solar_NextDay fuel __s.fst 7
    let t11 ← calendar_Solar_GetYear t9
    let t12 ← calendar_Solar_GetMonth t9
    let t13 ← calendar_Solar_GetDay t9
    let t14 ← calendar_NewSolarWeekFromYmd t11 t12 t13 start
    let t15 ← calendar_SolarWeek_GetMonth t14
    if decide (__s.snd.snd.snd.fst ≠ t15) = true then
        if decide (1 = a1 ↑k7) = true then do
          let t16 ← calendar_Solar_GetYear (a2 ↑k7)
          let t17 ← calendar_Solar_GetMonth (a2 ↑k7)
          let t18 ← calendar_Solar_GetDay (a2 ↑k7)
          let t19 ← calendar_NewSolarWeekFromYmd t16 t17 t18 start
          pure (ForInStep.yield (t9, __s.snd.fst - 1, t19, t19.month, __s.snd.snd.snd.snd))
        else do
          let t20 ← calendar_NewSolarFromYmd t14.year t14.month 1
          let t21 ← calendar_Solar_GetYear t20
          let t22 ← calendar_Solar_GetMonth t20
          let t23 ← calendar_Solar_GetDay t20
          let t24 ← calendar_NewSolarWeekFromYmd t21 t22 t23 start
          pure (ForInStep.yield (t20, __s.snd.fst - 1, t24, t15, __s.snd.snd.snd.snd))
      else pure (ForInStep.yield (t9, __s.snd.fst - 1, t14, __s.snd.snd.snd.fst, __s.snd.snd.snd.snd))

/-- body of the translated loop for `weeks < 0` -/
abbrev nx_stepM (fuel : Nat) (a1 : Int → Int) (a3 : Int → Int) (a4 : Int → Gen.Fn.Solar) (start : Int) :
    Nat → nx_WSt → Except Gen.Fn.Err (ForInStep nx_WSt) := fun k7 __s =>
  if (!decide (0 ≠ __s.snd.fst)) = true then
    pure (ForInStep.done (__s.fst, __s.snd.fst, __s.snd.snd.fst, __s.snd.snd.snd.fst, true))
  else do
    let t9 ← calendar_Solar_NextDay fuel __s.fst (-7)
    let t11 ← calendar_Solar_GetYear t9
    let t12 ← calendar_Solar_GetMonth t9
    let t13 ← calendar_Solar_GetDay t9
    let t14 ← calendar_NewSolarWeekFromYmd t11 t12 t13 start
    let t15 ← calendar_SolarWeek_GetMonth t14
    if decide (__s.snd.snd.snd.fst ≠ t15) = true then
        if decide (a3 ↑k7 = a1 ↑k7) = true then do
          let t25 ← calendar_Solar_NextDay fuel (a4 ↑k7) 6
          let t19 ← calendar_NewSolarWeekFromYmd t25.year t25.month t25.day start
          pure (ForInStep.yield (t9, __s.snd.fst - -1, t19, t19.month, __s.snd.snd.snd.snd))
        else do
          let t27 ← calendar_SolarWeek_GetYear t14
          let t28 ← calendar_SolarWeek_GetMonth t14
          let t29 ← calendar_NewSolarFromYmd t27 t28 1
          let t30 ← SolarUtil_GetDaysOfMonth t14.year t14.month
          let t20 ← calendar_Solar_NextDay fuel t29 (t30 - 1)
          let t21 ← calendar_Solar_GetYear t20
          let t22 ← calendar_Solar_GetMonth t20
          let t23 ← calendar_Solar_GetDay t20
          let t24 ← calendar_NewSolarWeekFromYmd t21 t22 t23 start
          pure (ForInStep.yield (t20, __s.snd.fst - -1, t24, t15, __s.snd.snd.snd.snd))
      else pure (ForInStep.yield (t9, __s.snd.fst - -1, t14, __s.snd.snd.snd.fst, __s.snd.snd.snd.snd))

abbrev nx_finW : nx_WSt → Except Gen.Fn.Err Gen.Fn.SolarWeek := fun __s =>
  if (!__s.snd.snd.snd.snd) = true then do
      throw Err.fuel
      pure __s.snd.snd.fst
    else pure __s.snd.snd.fst

/-- Meaning of the atoms of one iteration of the `weeks > 0` loop whose state is `(c, month)`:
when the month changes at `c1 = c.NextDay(7)`, `i` (atom `week.GetIndex()`) is the model's index of
the week of `c1`, and if that index is 1, `fd` (atom `week.GetFirstDay()`) is the model's first day
of that week (in particular `GetFirstDay` did not panic). -/
def nx_atomsP (start : Int) (c : Model.Solar) (month : Int) (i : Int) (fd : Gen.Fn.Solar) : Prop :=
  ∀ c1, c.nextDay 7 = some c1 → month ≠ c1.month →
    i = (Model.weekOf c1 start).index ∧
    ((Model.weekOf c1 start).index = 1 → (Model.weekOf c1 start).firstDay = some (toM fd))

/-- The same for the `weeks < 0` loop: `i` = `week.GetIndex()`, `wom` =
`SolarUtil.GetWeeksOfMonth(week.year, week.month, start)`, and, if these are equal, `fd` =
`week.GetFirstDay()`. -/
def nx_atomsM (start : Int) (c : Model.Solar) (month : Int) (i wom : Int) (fd : Gen.Fn.Solar) : Prop :=
  ∀ c1, c.nextDay (-7) = some c1 → month ≠ c1.month →
    i = (Model.weekOf c1 start).index ∧ wom = Model.weeksOfMonth c1.year c1.month start ∧
    (Model.weeksOfMonth c1.year c1.month start = (Model.weekOf c1 start).index →
      (Model.weekOf c1 start).firstDay = some (toM fd))

/-- (c) one-step correspondence, `weeks > 0` -/
theorem nx_stepP_eq (fuel : Nat) (a1 : Int → Int) (a2 : Int → Gen.Fn.Solar) (start : Int) (k : Nat)
    (c : Model.Solar) (n : Int) (wk : Gen.Fn.SolarWeek) (month : Int)
    (hv : c.valid = true) (hf : 9 ≤ fuel) (hn : n ≠ 0)
    (hat : nx_atomsP start c month (a1 (k : Int)) (a2 (k : Int))) :
    nx_stepP fuel a1 a2 start k (ofM c, n, wk, month, false) =
      (match nx_sepStep start true c month with
        | none => .error .panic
        | some st => .ok (ForInStep.yield (ofM st.1, n - 1, mi_weekOfM st.2.1, st.2.2, false))) := by
  have hn' : (!decide (0 ≠ n)) = false := by simpa using fun e : 0 = n => hn e.symm
  have hnd := solarNextDay_eq fuel (ofM c) 7 (by simpa using hv) (by simpa using hf)
  simp only [toM_ofM] at hnd
  simp only [nx_stepP, nx_sepStep, hn', Bool.false_eq_true, if_false, if_true, hnd]
  cases ho : c.nextDay 7 with
  | none => rfl
  | some c1 =>
    have hv1 := c2_nextDay_valid c c1 7 ho
    simp only [c1_ok_bind, getYear_eq, getMonth_eq, getDay_eq, newSolarWeekFromYmd_eq, solarWeekGetMonth_eq,
      mi_weekToM_ofM, ofM_year, ofM_month, ofM_day]
    by_cases hm : month ≠ c1.month
    · obtain ⟨hi, hfd⟩ := hat c1 ho hm
      simp only [Model.weekOf] at hi hfd
      simp only [Model.weekOf, hm, decide_true, if_true, hi, ne_eq, not_false_eq_true]
      by_cases h1 : (Model.SolarWeek.mk c1.year c1.month c1.day start).index = 1
      · simp only [h1, decide_true, if_true, hfd h1, c1_pure]
        rfl
      · have e : ¬ (1 = (Model.SolarWeek.mk c1.year c1.month c1.day start).index) := fun e => h1 e.symm
        simp only [h1, e, decide_false, Bool.false_eq_true, if_false, newSolarFromYmd_eq, mi_weekOfM]
        cases Model.newSolarYmd c1.year c1.month 1 <;> rfl
    · simp only [Model.weekOf, hm, decide_false, Bool.false_eq_true, if_false, c1_pure]

theorem nx_firstDay_valid (w : Model.SolarWeek) (fd : Model.Solar) (h : w.firstDay = some fd) :
    fd.valid = true := by
  unfold Model.SolarWeek.firstDay at h
  cases hc : Model.newSolarYmd w.year w.month w.day with
  | none => rw [hc] at h; cases h
  | some c => rw [hc] at h; exact c2_nextDay_valid _ _ _ h

/-- (c) one-step correspondence, `weeks < 0` -/
theorem nx_stepM_eq (fuel : Nat) (a1 a3 : Int → Int) (a4 : Int → Gen.Fn.Solar) (start : Int) (k : Nat)
    (c : Model.Solar) (n : Int) (wk : Gen.Fn.SolarWeek) (month : Int)
    (hv : c.valid = true) (hf : 32 ≤ fuel) (hn : n ≠ 0)
    (hat : nx_atomsM start c month (a1 (k : Int)) (a3 (k : Int)) (a4 (k : Int))) :
    nx_stepM fuel a1 a3 a4 start k (ofM c, n, wk, month, false) =
      (match nx_sepStep start false c month with
        | none => .error .panic
        | some st => .ok (ForInStep.yield (ofM st.1, n - -1, mi_weekOfM st.2.1, st.2.2, false))) := by
  have hn' : (!decide (0 ≠ n)) = false := by simpa using fun e : 0 = n => hn e.symm
  have hnd := solarNextDay_eq fuel (ofM c) (-7) (by simpa using hv) (by omega)
  simp only [toM_ofM] at hnd
  simp only [nx_stepM, nx_sepStep, hn', Bool.false_eq_true, if_false, if_true, hnd]
  cases ho : c.nextDay (-7) with
  | none => rfl
  | some c1 =>
    have hv1 := c2_nextDay_valid c c1 (-7) ho
    obtain ⟨hm1, hm12, _, _⟩ := c2_valid_facts c1.year c1.month c1.day c1.hour c1.minute c1.second hv1
    simp only [c1_ok_bind, getYear_eq, getMonth_eq, getDay_eq, newSolarWeekFromYmd_eq, solarWeekGetMonth_eq,
      solarWeekGetYear_eq, mi_weekToM_ofM, ofM_year, ofM_month, ofM_day]
    by_cases hm : month ≠ c1.month
    · obtain ⟨hi, hw, hfd⟩ := hat c1 ho hm
      simp only [Model.weekOf] at hi hfd
      simp only [Model.weekOf, hm, decide_true, if_true, hi, hw, ne_eq, not_false_eq_true]
      by_cases h1 : Model.weeksOfMonth c1.year c1.month start =
          (Model.SolarWeek.mk c1.year c1.month c1.day start).index
      · have hfd' := hfd h1
        have hv4 := nx_firstDay_valid _ _ hfd'
        have hnd6 := solarNextDay_eq fuel (a4 (k : Int)) 6 hv4 (by omega)
        simp only [h1, decide_true, if_true, hfd', c1_pure, hnd6]
        cases (toM (a4 (k : Int))).nextDay 6 <;> rfl
      · simp only [h1, decide_false, Bool.false_eq_true, if_false, newSolarFromYmd_eq, mi_weekOfM,
          getDaysOfMonth_eq c1.year c1.month hm1 hm12]
        cases hc : Model.newSolarYmd c1.year c1.month 1 with
        | none => rfl
        | some c2 =>
          have hv2 := (nx_newSolarYmd_some _ _ _ _ hc).2
          have hb := Model.daysOfMonth_bounds c1.year c1.month hm1 hm12
          have hndl := solarNextDay_eq fuel (ofM c2) (Model.daysOfMonth c1.year c1.month - 1)
            (by simpa using hv2) (by omega)
          simp only [toM_ofM] at hndl
          simp only [c1_ok_bind, hndl, Option.bind_some]
          cases c2.nextDay (Model.daysOfMonth c1.year c1.month - 1) <;> rfl
    · simp only [Model.weekOf, hm, decide_false, Bool.false_eq_true, if_false, c1_pure]

/-- the model's loop state `(c, week, month)` after `k` iterations (`none` = a panic on the way) -/
def nx_sepIter (start : Int) (plus : Bool) :
    Nat → Model.Solar × Model.SolarWeek × Int → Option (Model.Solar × Model.SolarWeek × Int)
  | 0, st => some st
  | k + 1, st => (nx_sepStep start plus st.1 st.2.2).bind (nx_sepIter start plus k)

theorem nx_sepStep_valid (start : Int) (plus : Bool) (c : Model.Solar) (month : Int)
    (st : Model.Solar × Model.SolarWeek × Int) (h : nx_sepStep start plus c month = some st) :
    st.1.valid = true := by
  unfold nx_sepStep at h
  cases ho : c.nextDay (if plus then 7 else -7) with
  | none => rw [ho] at h; cases h
  | some c1 =>
    rw [ho] at h
    have hv1 := c2_nextDay_valid _ _ _ ho
    dsimp only at h
    split at h
    · split at h
      · split at h
        · split at h
          · cases h
          · injection h with h; subst h; exact hv1
        · split at h
          · cases h
          · rename_i c2 hc
            injection h with h; subst h; exact (nx_newSolarYmd_some _ _ _ _ hc).2
      · split at h
        · split at h
          · cases h
          · split at h
            · cases h
            · injection h with h; subst h; exact hv1
        · split at h
          · cases h
          · rename_i c2 hc
            injection h with h; subst h
            cases hn : Model.newSolarYmd (Model.weekOf c1 start).year (Model.weekOf c1 start).month 1 with
            | none => rw [hn] at hc; cases hc
            | some f => rw [hn] at hc; exact c2_nextDay_valid _ _ _ hc
    · injection h with h; subst h; exact hv1

def nx_resW (r : Option Model.SolarWeek) : Except Gen.Fn.Err Gen.Fn.SolarWeek :=
  match r with | some r => .ok (mi_weekOfM r) | none => .error .panic

theorem nx_sepP_list (fuel : Nat) (a1 : Int → Int) (a2 : Int → Gen.Fn.Solar) (start : Int)
    (hf : 9 ≤ fuel) (L : Nat) :
    ∀ (i K : Nat) (c : Model.Solar) (wk : Model.SolarWeek) (month : Int), c.valid = true → K < L →
    (∀ j st, j < K → nx_sepIter start true j (c, wk, month) = some st →
      nx_atomsP start st.1 st.2.2 (a1 ((i + j : Nat) : Int)) (a2 ((i + j : Nat) : Int))) →
    (forIn (List.range' i L 1) (ofM c, (K : Int), mi_weekOfM wk, month, false)
        (nx_stepP fuel a1 a2 start) >>= nx_finW) =
      nx_resW (Model.nextSepLoop start true K c wk month) := by
  induction L with
  | zero => intro i K c wk month _ hK; omega
  | succ L ih =>
    intro i K c wk month hv hK hat
    rw [List.range'_succ, List.forIn_cons]
    cases K with
    | zero =>
      simp only [nx_stepP, Int.natCast_zero, ne_eq, not_true_eq_false, decide_false, Bool.not_false, if_true,
        c1_pure, c1_ok_bind, nx_finW, Bool.not_true, Bool.false_eq_true, if_false, Model.nextSepLoop, nx_resW,
        Int.cast_ofNat_Int]
    | succ K =>
      have hn : ((K + 1 : Nat) : Int) ≠ 0 := by omega
      rw [nx_stepP_eq fuel a1 a2 start i c _ (mi_weekOfM wk) month hv hf hn (hat 0 (c, wk, month) (by omega) rfl),
        nx_sepLoop_step]
      cases hst : nx_sepStep start true c month with
      | none => rfl
      | some st =>
        have e : ((K + 1 : Nat) : Int) - 1 = (K : Int) := by omega
        simp only [c1_ok_bind, e]
        refine ih (i + 1) K st.1 st.2.1 st.2.2 (nx_sepStep_valid _ _ _ _ _ hst) (by omega) ?_
        intro j st' hj hit
        have := hat (j + 1) st' (by omega) (by simp only [nx_sepIter, hst, Option.bind_some]; exact hit)
        have e2 : i + (j + 1) = i + 1 + j := by omega
        rw [e2] at this
        exact this

theorem nx_sepM_list (fuel : Nat) (a1 a3 : Int → Int) (a4 : Int → Gen.Fn.Solar) (start : Int)
    (hf : 32 ≤ fuel) (L : Nat) :
    ∀ (i K : Nat) (c : Model.Solar) (wk : Model.SolarWeek) (month : Int), c.valid = true → K < L →
    (∀ j st, j < K → nx_sepIter start false j (c, wk, month) = some st →
      nx_atomsM start st.1 st.2.2 (a1 ((i + j : Nat) : Int)) (a3 ((i + j : Nat) : Int))
        (a4 ((i + j : Nat) : Int))) →
    (forIn (List.range' i L 1) (ofM c, -(K : Int), mi_weekOfM wk, month, false)
        (nx_stepM fuel a1 a3 a4 start) >>= nx_finW) =
      nx_resW (Model.nextSepLoop start false K c wk month) := by
  induction L with
  | zero => intro i K c wk month _ hK; omega
  | succ L ih =>
    intro i K c wk month hv hK hat
    rw [List.range'_succ, List.forIn_cons]
    cases K with
    | zero =>
      simp only [nx_stepM, Int.natCast_zero, Int.neg_zero, ne_eq, not_true_eq_false, decide_false, Bool.not_false,
        if_true, c1_pure, c1_ok_bind, nx_finW, Bool.not_true, Bool.false_eq_true, if_false, Model.nextSepLoop,
        nx_resW, Int.cast_ofNat_Int]
    | succ K =>
      have hn : -((K + 1 : Nat) : Int) ≠ 0 := by omega
      rw [nx_stepM_eq fuel a1 a3 a4 start i c _ (mi_weekOfM wk) month hv hf hn
        (hat 0 (c, wk, month) (by omega) rfl), nx_sepLoop_step]
      cases hst : nx_sepStep start false c month with
      | none => rfl
      | some st =>
        have e : -((K + 1 : Nat) : Int) - -1 = -(K : Int) := by omega
        simp only [c1_ok_bind, e]
        refine ih (i + 1) K st.1 st.2.1 st.2.2 (nx_sepStep_valid _ _ _ _ _ hst) (by omega) ?_
        intro j st' hj hit
        have := hat (j + 1) st' (by omega) (by simp only [nx_sepIter, hst, Option.bind_some]; exact hit)
        have e2 : i + (j + 1) = i + 1 + j := by omega
        rw [e2] at this
        exact this

theorem nx_sepP_forIn (fuel : Nat) (a1 : Int → Int) (a2 : Int → Gen.Fn.Solar) (start : Int)
    (hf : 9 ≤ fuel) (K : Nat) (c : Model.Solar) (wk : Model.SolarWeek) (month : Int)
    (hv : c.valid = true) (hK : K < fuel)
    (hat : ∀ j st, j < K → nx_sepIter start true j (c, wk, month) = some st →
      nx_atomsP start st.1 st.2.2 (a1 (j : Int)) (a2 (j : Int))) :
    (forIn [:fuel] (ofM c, (K : Int), mi_weekOfM wk, month, false)
        (nx_stepP fuel a1 a2 start) >>= nx_finW) =
      nx_resW (Model.nextSepLoop start true K c wk month) := by
  rw [Std.Legacy.Range.forIn_eq_forIn_range']
  have := nx_sepP_list fuel a1 a2 start hf fuel 0 K c wk month hv hK
    (by intro j st hj h; simpa using hat j st hj h)
  simpa [Std.Legacy.Range.size] using this

theorem nx_sepM_forIn (fuel : Nat) (a1 a3 : Int → Int) (a4 : Int → Gen.Fn.Solar) (start : Int)
    (hf : 32 ≤ fuel) (K : Nat) (c : Model.Solar) (wk : Model.SolarWeek) (month : Int)
    (hv : c.valid = true) (hK : K < fuel)
    (hat : ∀ j st, j < K → nx_sepIter start false j (c, wk, month) = some st →
      nx_atomsM start st.1 st.2.2 (a1 (j : Int)) (a3 (j : Int)) (a4 (j : Int))) :
    (forIn [:fuel] (ofM c, -(K : Int), mi_weekOfM wk, month, false)
        (nx_stepM fuel a1 a3 a4 start) >>= nx_finW) =
      nx_resW (Model.nextSepLoop start false K c wk month) := by
  rw [Std.Legacy.Range.forIn_eq_forIn_range']
  have := nx_sepM_list fuel a1 a3 a4 start hf fuel 0 K c wk month hv hK
    (by intro j st hj h; simpa using hat j st hj h)
  simpa [Std.Legacy.Range.size] using this

/-- **`SolarWeek.Next(weeks, true)` = `Model.SolarWeek.next … true`.**

`hat`: for every iteration `k < |weeks|`, if the model's loop state after `k` iterations
(`nx_sepIter`, started at `(NewSolarFromYmd(y,m,d), receiver, receiver.month)`) is `st`, the atoms
of iteration `k` have the model's values for the week examined in that iteration (`nx_atomsP` /
`nx_atomsM`: index, first day, weeks of month — each only where the code reads it).

Fuel: `|weeks|` iterations plus one to observe `n = 0`; the inner `NextDay` calls need 9 (`±7`),
8 (`+6`) and at most 32 (`daysOfMonth − 1 ≤ 30`). -/
theorem solarWeekNext_eq_true (fuel : Nat) (a1 : Int → Int) (a2 : Int → Gen.Fn.Solar) (a3 : Int → Int)
    (a4 : Int → Gen.Fn.Solar) (w : Gen.Fn.SolarWeek) (weeks : Int)
    (hf1 : weeks.natAbs + 1 ≤ fuel) (hf2 : (if weeks > 0 then 9 else 32) ≤ fuel)
    (hat : ∀ (k : Nat) st, k < weeks.natAbs →
      nx_sepIter w.start (decide (weeks > 0)) k
        (⟨w.year, w.month, w.day, 0, 0, 0⟩, mi_weekToM w, w.month) = some st →
      if weeks > 0 then nx_atomsP w.start st.1 st.2.2 (a1 (k : Int)) (a2 (k : Int))
      else nx_atomsM w.start st.1 st.2.2 (a1 (k : Int)) (a3 (k : Int)) (a4 (k : Int))) :
    Gen.Fn.calendar_SolarWeek_Next fuel a1 a2 a3 a4 w weeks true =
      (match (mi_weekToM w).next weeks true with
        | some r => .ok (mi_weekOfM r) | none => .error .panic) := by
  by_cases h0 : weeks = 0
  · subst h0; exact solarWeekNext_zero fuel a1 a2 a3 a4 w true
  · have h0' : ¬ 0 = weeks := fun e => h0 e.symm
    simp only [Gen.Fn.calendar_SolarWeek_Next, h0', decide_false, Bool.false_eq_true, if_false, if_true,
      Model.SolarWeek.next, if_neg h0]
    rw [newSolarFromYmd_eq]
    simp only [mi_weekToM]
    cases hc : Model.newSolarYmd w.year w.month w.day with
    | none => rfl
    | some c =>
      obtain ⟨hc', hv⟩ := nx_newSolarYmd_some _ _ _ _ hc
      subst hc'
      by_cases hp : weeks > 0
      · simp only [hp, decide_true, if_true] at hat hf2 ⊢
        obtain ⟨K, rfl⟩ : ∃ K : Nat, weeks = (K : Int) := ⟨weeks.toNat, by omega⟩
        have := nx_sepP_forIn fuel a1 a2 w.start hf2 K ⟨w.year, w.month, w.day, 0, 0, 0⟩ (mi_weekToM w) w.month
          hv (by omega) (by intro j st hj h; exact hat j st (by omega) h)
        simp only [Int.natAbs_natCast]
        exact this
      · simp only [hp, decide_false, Bool.false_eq_true, if_false] at hat hf2 ⊢
        obtain ⟨K, rfl⟩ : ∃ K : Nat, weeks = -(K : Int) := ⟨weeks.natAbs, by omega⟩
        have := nx_sepM_forIn fuel a1 a3 a4 w.start hf2 K ⟨w.year, w.month, w.day, 0, 0, 0⟩ (mi_weekToM w) w.month
          hv (by omega) (by intro j st hj h; exact hat j st (by omega) h)
        simp only [Int.natAbs_neg, Int.natAbs_natCast]
        exact this


end FnEq
