/-
Proofs.FnPillars — equivalence of the machine-generated pillar functions of `Gen.Fn`
(`calendar_computeYear`, `calendar_computeMonth`, `calendar_computeDay`, `calendar_computeTime`,
`calendar_computeWeek`) with `Model.computeYear / computeMonth / computeDay / timeZhiIndexOf / computeAll`.
Helper lemmas and definitions are prefixed `pl_`.  Self-contained (does not import `Proofs.FnCivil1`;
the few civil lemmas needed for `NewSolar(y,m,d,12,0,0)` are re-proved locally with the `pl_` prefix).

Method: every generated `do` block is first split, by `rfl`, into stages (`pl_yPre → pl_yAdj → pl_yFix`,
`pl_mS1 → pl_mP1 → pl_mS2 → pl_mP2`) whose text is copied from `Gen/Fn.lean` and which tail-call each
other; each stage is then characterised separately (this avoids the exponential blow-up of the
join points of the monolithic block).

Main theorems: `computeYear_eq(_cmp)`, `computeMonth_raw`, `computeMonth_eq(_cmp)`, `computeDay_raw`,
`computeDay_eq(_cmp)`, `computeDay_panic`, `computeDay_disagree` (model/Go difference for `jdn < 11`),
`computeTime_raw`, `computeTime_eq`, `computeWeek_eq`, `computeWeek_model`, `compute_steps_eq`.
-/
import Model.Lunar
import Gen.Fn

set_option linter.unusedSimpArgs false
set_option linter.unusedVariables false
namespace FnEq
open Gen.Fn

/-- last stage of `computeYear`: the four `if v < 0 { v += m }` and the four field writes -/
def pl_yFix (lunar : Lunar) (g z gExact zExact : Int) : Except Err Lunar := do
  let mut lunar := lunar
  let mut g := g
  let mut z := z
  let mut gExact := gExact
  let mut zExact := zExact
  if decide (g < 0) then
    g := (g + 10)
  if decide (z < 0) then
    z := (z + 12)
  if decide (gExact < 0) then
    gExact := (gExact + 10)
  if decide (zExact < 0) then
    zExact := (zExact + 12)
  lunar := { lunar with yearGanIndexByLiChun := (Int.tmod g 10) }
  lunar := { lunar with yearZhiIndexByLiChun := (Int.tmod z 12) }
  lunar := { lunar with yearGanIndexExact := (Int.tmod gExact 10) }
  lunar := { lunar with yearZhiIndexExact := (Int.tmod zExact 12) }
  return lunar

/-- middle stage of `computeYear` -/
def pl_yAdj (a1 : Solar) (a2 : Solar) (a3 : Int) (a4 : Int) (a5 : Int) (a6 : Int) (lunar : Lunar) : Except Err Lunar := do
  let mut g : Int := lunar.yearGanIndex
  let mut z : Int := lunar.yearZhiIndex
  let mut gExact : Int := lunar.yearGanIndex
  let mut zExact : Int := lunar.yearZhiIndex
  let t1 ← calendar_Solar_GetYear lunar.solar
  let mut solarYear : Int := t1
  let mut liChun : Solar := a1
  let t2 ← calendar_Solar_GetYear liChun
  if decide (t2 ≠ solarYear) then
    liChun := a2
  if decide (lunar.year = solarYear) then
    if decide (a3 < 0) then
      g := (g - 1)
      z := (z - 1)
    if decide (a4 < 0) then
      gExact := (gExact - 1)
      zExact := (zExact - 1)
  else
    if decide (lunar.year < solarYear) then
      if decide (a5 ≥ 0) then
        g := (g + 1)
        z := (z + 1)
      if decide (a6 ≥ 0) then
        gExact := (gExact + 1)
        zExact := (zExact + 1)
    else
      g := (g - 1)
      z := (z - 1)
      gExact := (gExact - 1)
      zExact := (zExact - 1)
  pl_yFix lunar g z gExact zExact

/-- first stage of `computeYear` -/
def pl_yPre (a1 : Solar) (a2 : Solar) (a3 : Int) (a4 : Int) (a5 : Int) (a6 : Int) (lunar : Lunar) : Except Err Lunar := do
  let mut lunar := lunar
  let mut offset : Int := (lunar.year - 4)
  lunar := { lunar with yearGanIndex := (Int.tmod offset 10) }
  lunar := { lunar with yearZhiIndex := (Int.tmod offset 12) }
  if decide (lunar.yearGanIndex < 0) then
    lunar := { lunar with yearGanIndex := (lunar.yearGanIndex + 10) }
  if decide (lunar.yearZhiIndex < 0) then
    lunar := { lunar with yearZhiIndex := (lunar.yearZhiIndex + 12) }
  pl_yAdj a1 a2 a3 a4 a5 a6 lunar

theorem pl_year_split (a1 a2 : Solar) (a3 a4 a5 a6 : Int) (l : Lunar) :
    calendar_computeYear a1 a2 a3 a4 a5 a6 l = pl_yPre a1 a2 a3 a4 a5 a6 l := rfl


theorem pl_yFix_eq (lunar : Lunar) (g z gE zE : Int) :
    pl_yFix lunar g z gE zE = .ok { lunar with
      yearGanIndexByLiChun := Int.tmod (if g < 0 then g + 10 else g) 10,
      yearZhiIndexByLiChun := Int.tmod (if z < 0 then z + 12 else z) 12,
      yearGanIndexExact := Int.tmod (if gE < 0 then gE + 10 else gE) 10,
      yearZhiIndexExact := Int.tmod (if zE < 0 then zE + 12 else zE) 12 } := by
  unfold pl_yFix
  by_cases h1 : g < 0 <;> by_cases h2 : z < 0 <;> by_cases h3 : gE < 0 <;> by_cases h4 : zE < 0 <;>
    simp only [h1, h2, h3, h4, decide_true, decide_false, if_true, if_false, pure, Except.pure, bind, Except.bind] <;> rfl

/-- the `(g, z, gExact, zExact)` adjustment of `computeYear` before the final fix-up, as a pure function
of the four comparison outcomes -/
def pl_yAdjVals (b3 b4 b5 b6 : Bool) (year solarYear yg yz : Int) : Int × Int × Int × Int :=
  if year = solarYear then
    (if b3 then yg - 1 else yg, if b3 then yz - 1 else yz,
     if b4 then yg - 1 else yg, if b4 then yz - 1 else yz)
  else if year < solarYear then
    (if b5 then yg + 1 else yg, if b5 then yz + 1 else yz,
     if b6 then yg + 1 else yg, if b6 then yz + 1 else yz)
  else (yg - 1, yz - 1, yg - 1, yz - 1)

theorem pl_yAdj_eq (a1 a2 : Solar) (a3 a4 a5 a6 : Int) (lunar : Lunar) :
    pl_yAdj a1 a2 a3 a4 a5 a6 lunar =
      (let v := pl_yAdjVals (decide (a3 < 0)) (decide (a4 < 0)) (decide (a5 ≥ 0)) (decide (a6 ≥ 0))
          lunar.year lunar.solar.year lunar.yearGanIndex lunar.yearZhiIndex
       pl_yFix lunar v.1 v.2.1 v.2.2.1 v.2.2.2) := by
  unfold pl_yAdj pl_yAdjVals
  simp only [calendar_Solar_GetYear, pure, Except.pure, bind, Except.bind]
  by_cases c3 : a1.year ≠ lunar.solar.year <;> by_cases hy : lunar.year = lunar.solar.year
  · by_cases h3 : a3 < 0 <;> by_cases h4 : a4 < 0 <;> simp [c3, hy, h3, h4]
  · by_cases hlt : lunar.year < lunar.solar.year
    · by_cases h5 : a5 ≥ 0 <;> by_cases h6 : a6 ≥ 0 <;> simp [c3, hy, hlt, h5, h6]
    · simp [c3, hy, hlt]
  · by_cases h3 : a3 < 0 <;> by_cases h4 : a4 < 0 <;> simp [c3, hy, h3, h4]
  · by_cases hlt : lunar.year < lunar.solar.year
    · by_cases h5 : a5 ≥ 0 <;> by_cases h6 : a6 ≥ 0 <;> simp [c3, hy, hlt, h5, h6]
    · simp [c3, hy, hlt]

theorem pl_tmod_cases (x m : Int) : Int.tmod x m = if 0 ≤ x then x % m else -((-x) % m) := by
  split
  · next h => exact Int.tmod_eq_emod_of_nonneg h
  · next h =>
    have : Int.tmod (-x) m = (-x) % m := Int.tmod_eq_emod_of_nonneg (by omega)
    rw [Int.neg_tmod] at this
    omega

theorem pl_norm10 (x : Int) : (if Int.tmod x 10 < 0 then Int.tmod x 10 + 10 else Int.tmod x 10) = x % 10 := by
  rw [pl_tmod_cases]; split <;> split <;> omega
theorem pl_norm12 (x : Int) : (if Int.tmod x 12 < 0 then Int.tmod x 12 + 12 else Int.tmod x 12) = x % 12 := by
  rw [pl_tmod_cases]; split <;> split <;> omega

theorem pl_yPre_eq (a1 a2 : Solar) (a3 a4 a5 a6 : Int) (l : Lunar) :
    pl_yPre a1 a2 a3 a4 a5 a6 l = pl_yAdj a1 a2 a3 a4 a5 a6
      { l with yearGanIndex := Model.normMod (l.year - 4) 10, yearZhiIndex := Model.normMod (l.year - 4) 12 } := by
  unfold pl_yPre Model.normMod
  rw [← pl_norm10, ← pl_norm12]
  by_cases c1 : Int.tmod (l.year - 4) 10 < 0 <;> by_cases c2 : Int.tmod (l.year - 4) 12 < 0 <;>
    simp only [c1, c2, decide_true, decide_false, if_true, if_false] <;> rfl


/-! ### model side -/

def pl_toM (s : Solar) : Model.Solar := ⟨s.year, s.month, s.day, s.hour, s.minute, s.second⟩

/-- the Lichun entry `Model.computeYear` compares with -/
def pl_liChunM (solar : Model.Solar) (terms : List Model.Solar) : Model.Solar :=
  if (Model.termByName terms "立春").year ≠ solar.year then Model.termByName terms "LI_CHUN"
  else Model.termByName terms "立春"

theorem pl_model_year (year : Int) (solar : Model.Solar) (terms : List Model.Solar) :
    Model.computeYear year solar terms =
      (let lc := pl_liChunM solar terms
       let yg := Model.normMod (year - 4) 10
       let yz := Model.normMod (year - 4) 12
       let v := pl_yAdjVals (Model.strLt solar.toYmd lc.toYmd) (Model.strLt solar.toYmdHms lc.toYmdHms)
          (Model.strGe solar.toYmd lc.toYmd) (Model.strGe solar.toYmdHms lc.toYmdHms) year solar.year yg yz
       (yg, yz, (if v.1 < 0 then v.1 + 10 else v.1) % 10, (if v.2.1 < 0 then v.2.1 + 12 else v.2.1) % 12,
        (if v.2.2.1 < 0 then v.2.2.1 + 10 else v.2.2.1) % 10,
        (if v.2.2.2 < 0 then v.2.2.2 + 12 else v.2.2.2) % 12)) := by
  unfold Model.computeYear pl_yAdjVals pl_liChunM
  generalize Model.termByName terms "立春" = t0
  generalize Model.termByName terms "LI_CHUN" = t1
  simp only []
  generalize (if t0.year ≠ solar.year then t1 else t0) = lc
  generalize Model.strLt solar.toYmd lc.toYmd = b3
  generalize Model.strLt solar.toYmdHms lc.toYmdHms = b4
  generalize Model.strGe solar.toYmd lc.toYmd = b5
  generalize Model.strGe solar.toYmdHms lc.toYmdHms = b6
  by_cases hy : year = solar.year
  · simp only [hy, if_true]
    cases b3 <;> cases b4 <;> rfl
  · by_cases hlt : year < solar.year
    · simp only [hy, hlt, if_true, if_false]
      cases b5 <;> cases b6 <;> rfl
    · simp only [hy, hlt, if_false]


theorem pl_yAdjVals_bounds (b3 b4 b5 b6 : Bool) (year sy yg yz : Int) :
    let v := pl_yAdjVals b3 b4 b5 b6 year sy yg yz
    yg - 1 ≤ v.1 ∧ yz - 1 ≤ v.2.1 ∧ yg - 1 ≤ v.2.2.1 ∧ yz - 1 ≤ v.2.2.2 := by
  unfold pl_yAdjVals
  by_cases hy : year = sy
  · simp only [hy, if_true]; cases b3 <;> cases b4 <;> simp <;> omega
  · by_cases hlt : year < sy
    · simp only [hy, hlt, if_true, if_false]; cases b5 <;> cases b6 <;> simp <;> omega
    · simp only [hy, hlt, if_false]; omega

theorem pl_fix_tmod (v m : Int) (hm : 0 < m) (hv : -m ≤ v) :
    Int.tmod (if v < 0 then v + m else v) m = (if v < 0 then v + m else v) % m :=
  Int.tmod_eq_emod_of_nonneg (by split <;> omega)

/-- the `liChun` variable of the Go code after `if liChun.GetYear() != solarYear { liChun = … }` -/
def pl_liChunG (a1 a2 : Solar) (l : Lunar) : Solar := if a1.year ≠ l.solar.year then a2 else a1

/-- `l` with the six year-pillar fields replaced -/
def pl_withYear (l : Lunar) (r : Int × Int × Int × Int × Int × Int) : Lunar :=
  { l with yearGanIndex := r.1, yearZhiIndex := r.2.1, yearGanIndexByLiChun := r.2.2.1,
           yearZhiIndexByLiChun := r.2.2.2.1, yearGanIndexExact := r.2.2.2.2.1,
           yearZhiIndexExact := r.2.2.2.2.2 }

theorem pl_liChun_agree (terms : List Model.Solar) (a1 a2 : Solar) (l : Lunar)
    (ha1 : pl_toM a1 = Model.termByName terms "立春") (ha2 : pl_toM a2 = Model.termByName terms "LI_CHUN") :
    pl_toM (pl_liChunG a1 a2 l) = pl_liChunM (pl_toM l.solar) terms := by
  unfold pl_liChunG pl_liChunM
  rw [← ha1, ← ha2]
  show pl_toM (if a1.year ≠ l.solar.year then a2 else a1) = if a1.year ≠ l.solar.year then pl_toM a2 else pl_toM a1
  split <;> rfl

theorem pl_decide_eq {p : Prop} [Decidable p] {b : Bool} (h : p ↔ b = true) : decide p = b := by
  cases b <;> simp_all

theorem computeYear_eq (terms : List Model.Solar) (a1 a2 : Solar) (a3 a4 a5 a6 : Int) (l : Lunar)
    (ha1 : pl_toM a1 = Model.termByName terms "立春")
    (ha2 : pl_toM a2 = Model.termByName terms "LI_CHUN")
    (ha3 : a3 < 0 ↔ Model.strLt (pl_toM l.solar).toYmd (pl_toM (pl_liChunG a1 a2 l)).toYmd = true)
    (ha4 : a4 < 0 ↔ Model.strLt (pl_toM l.solar).toYmdHms (pl_toM (pl_liChunG a1 a2 l)).toYmdHms = true)
    (ha5 : a5 ≥ 0 ↔ Model.strGe (pl_toM l.solar).toYmd (pl_toM (pl_liChunG a1 a2 l)).toYmd = true)
    (ha6 : a6 ≥ 0 ↔ Model.strGe (pl_toM l.solar).toYmdHms (pl_toM (pl_liChunG a1 a2 l)).toYmdHms = true) :
    calendar_computeYear a1 a2 a3 a4 a5 a6 l =
      .ok (pl_withYear l (Model.computeYear l.year (pl_toM l.solar) terms)) := by
  rw [pl_year_split, pl_yPre_eq, pl_yAdj_eq, pl_model_year]
  rw [pl_liChun_agree terms a1 a2 l ha1 ha2] at ha3 ha4 ha5 ha6
  rw [pl_decide_eq ha3, pl_decide_eq ha4, pl_decide_eq ha5, pl_decide_eq ha6]
  simp only [pl_yFix_eq, pl_withYear]
  have hb := pl_yAdjVals_bounds
    (Model.strLt (pl_toM l.solar).toYmd (pl_liChunM (pl_toM l.solar) terms).toYmd)
    (Model.strLt (pl_toM l.solar).toYmdHms (pl_liChunM (pl_toM l.solar) terms).toYmdHms)
    (Model.strGe (pl_toM l.solar).toYmd (pl_liChunM (pl_toM l.solar) terms).toYmd)
    (Model.strGe (pl_toM l.solar).toYmdHms (pl_liChunM (pl_toM l.solar) terms).toYmdHms)
    l.year l.solar.year (Model.normMod (l.year - 4) 10) (Model.normMod (l.year - 4) 12)
  have h10 : 0 ≤ Model.normMod (l.year - 4) 10 := Int.emod_nonneg _ (by decide)
  have h12 : 0 ≤ Model.normMod (l.year - 4) 12 := Int.emod_nonneg _ (by decide)
  simp only [] at hb
  obtain ⟨hb1, hb2, hb3, hb4⟩ := hb
  rw [pl_fix_tmod _ 10 (by decide) (by omega), pl_fix_tmod _ 12 (by decide) (by omega),
      pl_fix_tmod _ 10 (by decide) (by omega), pl_fix_tmod _ 12 (by decide) (by omega)]
  rfl


/-! ## computeMonth -/

open Gen.Tables

abbrev pl_St := Solar × Solar × Int

def pl_mStep (c1 c2 : Int → Int) (e : Int → Solar) (k1 : Nat) (s : pl_St) : Except Err (ForInStep pl_St) :=
  if (decide (c1 (0 + 2 * (k1 : Int)) ≥ 0) && decide (c2 (0 + 2 * (k1 : Int)) < 0)) = true then
    pure (ForInStep.done (s.1, e (0 + 2 * (k1 : Int)), s.2.2))
  else pure (ForInStep.yield (e (0 + 2 * (k1 : Int)), e (0 + 2 * (k1 : Int)), s.2.2 + 1))

def pl_mBody (e : Int → Solar) (n : Int → Bool) (c1 c2 : Int → Int) (k1 : Nat) (s : pl_St) :
    Except Err (ForInStep pl_St) :=
  if n (0 + 2 * (k1 : Int)) = true then pl_mStep c1 c2 e k1 s else pl_mStep c1 c2 e k1 s

/-- last stage of computeMonth -/
def pl_mP2 (lunar : Lunar) (index : Int) : Except Err Lunar := do
  let mut lunar := lunar
  let mut add : Int := 0
  let mut offset : Int := 0
  add := 0
  if decide (index < 0) then
    add := 1
  offset := (Int.tmod (((Int.tmod (lunar.yearGanIndexExact + add) 5) + 1) * 2) 10)
  add := index
  if decide (add < 0) then
    add := (add + 10)
  lunar := { lunar with monthGanIndexExact := (Int.tmod (add + offset) 10) }
  add := index
  if decide (add < 0) then
    add := (add + 12)
  lunar := { lunar with monthZhiIndexExact := (Int.tmod (add + 2) 12) }
  return lunar

def pl_mS2 (a5 : Int → Solar) (a6 : Int → Bool) (a7 a8 : Int → Int) (lunar : Lunar) («end» : Solar) : Except Err Lunar := do
  let __s ← forIn [0:16] ((default : Solar), «end», (-3 : Int)) (pl_mBody a5 a6 a7 a8)
  pl_mP2 lunar __s.2.2

def pl_mP1 (a5 : Int → Solar) (a6 : Int → Bool) (a7 a8 : Int → Int) (lunar : Lunar) («end» : Solar) (index : Int) : Except Err Lunar := do
  let mut lunar := lunar
  let mut add : Int := 0
  if decide (index < 0) then
    add := 1
  let mut offset : Int := (Int.tmod (((Int.tmod (lunar.yearGanIndexByLiChun + add) 5) + 1) * 2) 10)
  add := index
  if decide (add < 0) then
    add := (add + 10)
  lunar := { lunar with monthGanIndex := (Int.tmod (add + offset) 10) }
  add := index
  if decide (add < 0) then
    add := (add + 12)
  lunar := { lunar with monthZhiIndex := (Int.tmod (add + 2) 12) }
  pl_mS2 a5 a6 a7 a8 lunar «end»

def pl_mS1 (a1 : Int → Solar) (a2 : Int → Bool) (a3 a4 : Int → Int) (a5 : Int → Solar) (a6 : Int → Bool) (a7 a8 : Int → Int) (lunar : Lunar) : Except Err Lunar := do
  let __s ← forIn [0:16] ((default : Solar), (default : Solar), (-3 : Int)) (pl_mBody a1 a2 a3 a4)
  pl_mP1 a5 a6 a7 a8 lunar __s.2.1 __s.2.2

theorem pl_month_split (a1 : Int → Solar) (a2 : Int → Bool) (a3 a4 : Int → Int) (a5 : Int → Solar) (a6 : Int → Bool) (a7 a8 : Int → Int) (l : Lunar) :
    calendar_computeMonth a1 a2 a3 a4 a5 a6 a7 a8 l = pl_mS1 a1 a2 a3 a4 a5 a6 a7 a8 l := rfl
def pl_scan (c : Nat → Bool) : Nat → Nat → Int → Int
  | 0, _, idx => idx
  | n + 1, k, idx => if c k then idx else pl_scan c n (k + 1) (idx + 1)

def pl_condG (c1 c2 : Int → Int) (k : Nat) : Bool := decide (c1 (2 * (k : Int)) ≥ 0) && decide (c2 (2 * (k : Int)) < 0)

theorem pl_mBody_eq (e : Int → Solar) (n : Int → Bool) (c1 c2 : Int → Int) (k : Nat) (s : pl_St) :
    pl_mBody e n c1 c2 k s =
      if pl_condG c1 c2 k then .ok (ForInStep.done (s.1, e (2 * (k : Int)), s.2.2))
      else .ok (ForInStep.yield (e (2 * (k : Int)), e (2 * (k : Int)), s.2.2 + 1)) := by
  unfold pl_mBody pl_mStep pl_condG
  simp only [Int.zero_add, ite_self]
  rfl

theorem pl_loop_list (e : Int → Solar) (n : Int → Bool) (c1 c2 : Int → Int) :
    ∀ (m k0 : Nat) (s : pl_St), ∃ st en,
      forIn (List.range' k0 m 1) s (pl_mBody e n c1 c2) =
        Except.ok (st, en, pl_scan (pl_condG c1 c2) m k0 s.2.2) := by
  intro m
  induction m with
  | zero => intro k0 s; exact ⟨s.1, s.2.1, rfl⟩
  | succ m ih =>
    intro k0 s
    rw [List.range'_succ, List.forIn_cons, pl_mBody_eq]
    unfold pl_scan
    by_cases hc : pl_condG c1 c2 k0 = true
    · simp only [hc, if_true]; exact ⟨_, _, rfl⟩
    · simp only [hc]
      obtain ⟨st, en, h⟩ := ih (k0 + 1) (e (2 * (k0 : Int)), e (2 * (k0 : Int)), s.2.2 + 1)
      exact ⟨st, en, h⟩

theorem pl_loop_range (e : Int → Solar) (n : Int → Bool) (c1 c2 : Int → Int) (s : pl_St) : ∃ st en,
      forIn [0:16] s (pl_mBody e n c1 c2) = Except.ok (st, en, pl_scan (pl_condG c1 c2) 16 0 s.2.2) := by
  rw [Std.Legacy.Range.forIn_eq_forIn_range']
  show ∃ st en, forIn (List.range' 0 16 1) s (pl_mBody e n c1 c2) = _
  exact pl_loop_list e n c1 c2 16 0 s

/-- the month pillar `(gan, zhi)` from the scan result, with Go's truncating `%` -/
def pl_pillarT (index yearGan : Int) : Int × Int :=
  (Int.tmod ((if index < 0 then index + 10 else index) +
      Int.tmod ((Int.tmod (yearGan + (if index < 0 then 1 else 0)) 5 + 1) * 2) 10) 10,
   Int.tmod ((if index < 0 then index + 12 else index) + 2) 12)

/-- the month pillar as `Model.computeMonth` computes it (its local `pillar`) -/
def pl_pillarM (index yearGan : Int) : Int × Int :=
  (((if index < 0 then index + 10 else index) + (((yearGan + (if index < 0 then 1 else 0)) % 5 + 1) * 2) % 10) % 10,
   ((if index < 0 then index + 12 else index) + LunarUtil.BASE_MONTH_ZHI_INDEX) % 12)

theorem pl_mP2_eq (lunar : Lunar) (index : Int) :
    pl_mP2 lunar index = .ok { lunar with
      monthGanIndexExact := (pl_pillarT index lunar.yearGanIndexExact).1,
      monthZhiIndexExact := (pl_pillarT index lunar.yearGanIndexExact).2 } := by
  unfold pl_mP2 pl_pillarT
  by_cases h : index < 0 <;> simp [h, pure, Except.pure]

theorem pl_mP1_eq (a5 : Int → Solar) (a6 : Int → Bool) (a7 a8 : Int → Int) (lunar : Lunar) (en : Solar) (index : Int) :
    pl_mP1 a5 a6 a7 a8 lunar en index = pl_mS2 a5 a6 a7 a8 { lunar with
      monthGanIndex := (pl_pillarT index lunar.yearGanIndexByLiChun).1,
      monthZhiIndex := (pl_pillarT index lunar.yearGanIndexByLiChun).2 } en := by
  unfold pl_mP1 pl_pillarT
  by_cases h : index < 0 <;> simp [h]

theorem pl_scan_ge (c : Nat → Bool) : ∀ n k idx, idx ≤ pl_scan c n k idx := by
  intro n; induction n with
  | zero => intro k idx; exact Int.le_refl _
  | succ n ih =>
    intro k idx; unfold pl_scan; split
    · exact Int.le_refl _
    · have := ih (k + 1) (idx + 1); omega

theorem pl_scan_congr (c c' : Nat → Bool) : ∀ n k idx, (∀ j, k ≤ j → j < k + n → c j = c' j) →
    pl_scan c n k idx = pl_scan c' n k idx := by
  intro n; induction n with
  | zero => intro k idx _; rfl
  | succ n ih =>
    intro k idx h
    unfold pl_scan
    rw [h k (Nat.le_refl _) (by omega), ih (k + 1) (idx + 1) (fun j h1 h2 => h j (by omega) (by omega))]

theorem pl_pillar_agree (index yearGan : Int) (hi : -10 ≤ index) (hy : 0 ≤ yearGan) :
    pl_pillarT index yearGan = pl_pillarM index yearGan := by
  unfold pl_pillarT pl_pillarM
  have e1 : Int.tmod (yearGan + (if index < 0 then 1 else 0)) 5 = (yearGan + (if index < 0 then 1 else 0)) % 5 :=
    Int.tmod_eq_emod_of_nonneg (by split <;> omega)
  rw [e1]
  have h5 : 0 ≤ (yearGan + (if index < 0 then 1 else 0)) % 5 := Int.emod_nonneg _ (by decide)
  have e2 : Int.tmod (((yearGan + (if index < 0 then 1 else 0)) % 5 + 1) * 2) 10 =
      (((yearGan + (if index < 0 then 1 else 0)) % 5 + 1) * 2) % 10 := Int.tmod_eq_emod_of_nonneg (by omega)
  rw [e2]
  have h10 : 0 ≤ (((yearGan + (if index < 0 then 1 else 0)) % 5 + 1) * 2) % 10 := Int.emod_nonneg _ (by decide)
  have e3 : ∀ x, 0 ≤ x → Int.tmod ((if index < 0 then index + 10 else index) + x) 10 =
      ((if index < 0 then index + 10 else index) + x) % 10 :=
    fun x hx => Int.tmod_eq_emod_of_nonneg (by split <;> omega)
  rw [e3 _ h10]
  have e4 : Int.tmod ((if index < 0 then index + 12 else index) + 2) 12 =
      ((if index < 0 then index + 12 else index) + 2) % 12 := Int.tmod_eq_emod_of_nonneg (by split <;> omega)
  rw [e4]; rfl

/-- `lunar.jieQi[JIE_QI_IN_USE[i]]` as the model reads it -/
def pl_jieAt (terms : List Model.Solar) (i : Nat) : Model.Solar :=
  Model.termByName terms (calendar.JIE_QI_IN_USE.getD i "")

/-- the string `symd` / `stime` of the `k`-th iteration (`i = 2k`): the solar date itself in the first
iteration (`start == nil`), afterwards the rendering of the previous Jie entry -/
def pl_startKey (key : Model.Solar → List Char) (now : List Char) (terms : List Model.Solar) (k : Nat) : List Char :=
  if k = 0 then now else key (pl_jieAt terms (2 * (k - 1)))

def pl_condM (key : Model.Solar → List Char) (now : List Char) (terms : List Model.Solar) (k : Nat) : Bool :=
  Model.strGe now (pl_startKey key now terms k) && Model.strLt now (key (pl_jieAt terms (2 * k)))

theorem pl_jie_len : calendar.JIE_QI_IN_USE.length = 31 := by decide

theorem pl_monthScan_eq (key : Model.Solar → List Char) (now : List Char) (terms : List Model.Solar) :
    ∀ (fuel k : Nat) (index : Int) (start : Option Model.Solar), fuel + k ≤ 16 →
      start = (if k = 0 then none else some (pl_jieAt terms (2 * (k - 1)))) →
      Model.monthScan key now terms fuel (2 * k) start index =
      pl_scan (pl_condM key now terms) fuel k index := by
  intro fuel
  induction fuel with
  | zero => intro k index start _ _; rfl
  | succ fuel ih =>
    intro k index start hk hstart
    have hlt : ¬ (2 * k ≥ calendar.JIE_QI_IN_USE.length) := by rw [pl_jie_len]; omega
    have hnext := ih (k + 1) (index + 1)
      (some (Model.termByName terms (calendar.JIE_QI_IN_USE.getD (2 * k) ""))) (by omega)
      (by simp [pl_jieAt])
    have h2 : 2 * (k + 1) = 2 * k + 2 := by omega
    rw [h2] at hnext
    unfold Model.monthScan pl_scan
    simp only [hlt, if_false]
    rw [hnext]
    by_cases hk0 : k = 0
    · subst hk0; subst hstart
      simp only [if_true, pl_condM, pl_startKey, pl_jieAt]
    · rw [if_neg hk0] at hstart; subst hstart
      simp only [pl_condM, pl_startKey, pl_jieAt, hk0, if_false]
      rfl

theorem pl_model_month (solar : Model.Solar) (terms : List Model.Solar) (ygL ygE : Int) :
    Model.computeMonth solar terms ygL ygE =
      ((pl_pillarM (pl_scan (pl_condM Model.Solar.toYmd solar.toYmd terms) 16 0 (-3)) ygL).1,
       (pl_pillarM (pl_scan (pl_condM Model.Solar.toYmd solar.toYmd terms) 16 0 (-3)) ygL).2,
       (pl_pillarM (pl_scan (pl_condM Model.Solar.toYmdHms solar.toYmdHms terms) 16 0 (-3)) ygE).1,
       (pl_pillarM (pl_scan (pl_condM Model.Solar.toYmdHms solar.toYmdHms terms) 16 0 (-3)) ygE).2) := by
  have h1 := pl_monthScan_eq Model.Solar.toYmd solar.toYmd terms 16 0 (-3) none (by omega) rfl
  have h2 := pl_monthScan_eq Model.Solar.toYmdHms solar.toYmdHms terms 16 0 (-3) none (by omega) rfl
  rw [Nat.mul_zero] at h1 h2
  unfold Model.computeMonth
  simp only [h1, h2]
  rfl

/-- `l` with the four month-pillar fields replaced -/
def pl_withMonth (l : Lunar) (r : Int × Int × Int × Int) : Lunar :=
  { l with monthGanIndex := r.1, monthZhiIndex := r.2.1, monthGanIndexExact := r.2.2.1,
           monthZhiIndexExact := r.2.2.2 }

/-- What the generated `computeMonth` computes, for ALL inputs and atom values (no hypotheses):
two scans `pl_scan` over `k = 0..15` (`i = 2k`) and the pillar arithmetic with Go's truncating `%`.
The atoms `a1 a2 a5 a6` (`lunar.jieQi[jie]`, `start != nil`) do not influence the result. -/
theorem computeMonth_raw (a1 : Int → Solar) (a2 : Int → Bool) (a3 a4 : Int → Int) (a5 : Int → Solar)
    (a6 : Int → Bool) (a7 a8 : Int → Int) (l : Lunar) :
    calendar_computeMonth a1 a2 a3 a4 a5 a6 a7 a8 l = .ok (pl_withMonth l
      ((pl_pillarT (pl_scan (pl_condG a3 a4) 16 0 (-3)) l.yearGanIndexByLiChun).1,
       (pl_pillarT (pl_scan (pl_condG a3 a4) 16 0 (-3)) l.yearGanIndexByLiChun).2,
       (pl_pillarT (pl_scan (pl_condG a7 a8) 16 0 (-3)) l.yearGanIndexExact).1,
       (pl_pillarT (pl_scan (pl_condG a7 a8) 16 0 (-3)) l.yearGanIndexExact).2)) := by
  rw [pl_month_split]
  unfold pl_mS1
  obtain ⟨st, en, h⟩ := pl_loop_range a1 a2 a3 a4 ((default : Solar), (default : Solar), (-3 : Int))
  simp only [h, bind, Except.bind, pl_mP1_eq]
  unfold pl_mS2
  obtain ⟨st', en', h'⟩ := pl_loop_range a5 a6 a7 a8 ((default : Solar), en, (-3 : Int))
  simp only [h', bind, Except.bind, pl_mP2_eq]
  rfl

theorem computeMonth_eq (terms : List Model.Solar) (a1 : Int → Solar) (a2 : Int → Bool) (a3 a4 : Int → Int)
    (a5 : Int → Solar) (a6 : Int → Bool) (a7 a8 : Int → Int) (l : Lunar)
    (hgL : 0 ≤ l.yearGanIndexByLiChun) (hgE : 0 ≤ l.yearGanIndexExact)
    (ha3 : ∀ k : Nat, k < 16 → (a3 (2 * (k : Int)) ≥ 0 ↔
      Model.strGe (pl_toM l.solar).toYmd (pl_startKey Model.Solar.toYmd (pl_toM l.solar).toYmd terms k) = true))
    (ha4 : ∀ k : Nat, k < 16 → (a4 (2 * (k : Int)) < 0 ↔
      Model.strLt (pl_toM l.solar).toYmd (pl_jieAt terms (2 * k)).toYmd = true))
    (ha7 : ∀ k : Nat, k < 16 → (a7 (2 * (k : Int)) ≥ 0 ↔
      Model.strGe (pl_toM l.solar).toYmdHms (pl_startKey Model.Solar.toYmdHms (pl_toM l.solar).toYmdHms terms k) = true))
    (ha8 : ∀ k : Nat, k < 16 → (a8 (2 * (k : Int)) < 0 ↔
      Model.strLt (pl_toM l.solar).toYmdHms (pl_jieAt terms (2 * k)).toYmdHms = true)) :
    calendar_computeMonth a1 a2 a3 a4 a5 a6 a7 a8 l =
      .ok (pl_withMonth l (Model.computeMonth (pl_toM l.solar) terms l.yearGanIndexByLiChun l.yearGanIndexExact)) := by
  rw [computeMonth_raw, pl_model_month]
  have e1 : pl_scan (pl_condG a3 a4) 16 0 (-3) =
      pl_scan (pl_condM Model.Solar.toYmd (pl_toM l.solar).toYmd terms) 16 0 (-3) := by
    apply pl_scan_congr
    intro j _ hj
    unfold pl_condG pl_condM
    rw [pl_decide_eq (ha3 j (by omega)), pl_decide_eq (ha4 j (by omega))]
  have e2 : pl_scan (pl_condG a7 a8) 16 0 (-3) =
      pl_scan (pl_condM Model.Solar.toYmdHms (pl_toM l.solar).toYmdHms terms) 16 0 (-3) := by
    apply pl_scan_congr
    intro j _ hj
    unfold pl_condG pl_condM
    rw [pl_decide_eq (ha7 j (by omega)), pl_decide_eq (ha8 j (by omega))]
  rw [e1, e2]
  have b1 := pl_scan_ge (pl_condM Model.Solar.toYmd (pl_toM l.solar).toYmd terms) 16 0 (-3)
  have b2 := pl_scan_ge (pl_condM Model.Solar.toYmdHms (pl_toM l.solar).toYmdHms terms) 16 0 (-3)
  rw [pl_pillar_agree _ _ (by omega) hgL, pl_pillar_agree _ _ (by omega) hgE]


/-! ## NewSolar at noon (local copies of the civil lemmas, prefixed) -/

theorem pl_tmod_eq_zero_iff (y k : Int) : Int.tmod y k = 0 ↔ y % k = 0 := by
  constructor
  · intro h; exact Int.emod_eq_zero_of_dvd (Int.dvd_of_tmod_eq_zero h)
  · intro h; exact Int.tmod_eq_zero_of_dvd (Int.dvd_of_emod_eq_zero h)

theorem pl_beq (a b : Int) : (a == b) = decide (a = b) := by
  cases h : decide (a = b) <;> simp_all
theorem pl_bne (a b : Int) : (a != b) = !decide (a = b) := by
  simp [bne, pl_beq]

theorem pl_isLeapYear_eq (y : Int) : SolarUtil_IsLeapYear y = .ok (Model.isLeapYear y) := by
  unfold SolarUtil_IsLeapYear Model.isLeapYear
  by_cases h : y < 1600 <;>
    simp [h, pl_tmod_eq_zero_iff, pl_beq, pl_bne, pure, Except.pure]

theorem pl_idx_dom (m : Int) (h1 : 1 ≤ m) (h12 : m ≤ 12) :
    idx Gen.Tables.SolarUtil.«DAYS_OF_MONTH» (m - 1) = .ok (Model.baseDaysOfMonth m) := by
  have : m = 1 ∨ m = 2 ∨ m = 3 ∨ m = 4 ∨ m = 5 ∨ m = 6 ∨ m = 7 ∨ m = 8 ∨ m = 9 ∨ m = 10 ∨
      m = 11 ∨ m = 12 := by omega
  rcases this with h | h | h | h | h | h | h | h | h | h | h | h <;> subst h <;> rfl

theorem pl_getDaysOfMonth_eq (y m : Int) (h1 : 1 ≤ m) (h12 : m ≤ 12) :
    SolarUtil_GetDaysOfMonth y m = .ok (Model.daysOfMonth y m) := by
  unfold Model.daysOfMonth
  simp only [SolarUtil_GetDaysOfMonth, pl_idx_dom m h1 h12, pl_isLeapYear_eq]
  by_cases hy : y = 1582 ∧ m = 10
  · obtain ⟨rfl, rfl⟩ := hy; simp [pure, Except.pure]
  · have hy' : ¬ (1582 = y ∧ 10 = m) := fun e => hy ⟨e.1.symm, e.2.symm⟩
    by_cases hm : m = 2
    · cases hl : Model.isLeapYear y <;>
        simp [hm, pure, Except.pure, bind, Except.bind]
    · simp [hy, hy', hm, pure, Except.pure, bind, Except.bind]

/-- `NewSolar(y, m, d, 12, 0, 0)`: succeeds exactly on the valid dates -/
theorem pl_newSolar_noon (y m d : Int) :
    calendar_NewSolar y m d 12 0 0 =
      if Model.validYmd y m d then .ok ⟨y, m, d, 12, 0, 0⟩ else .error .panic := by
  unfold Model.validYmd
  by_cases hm1 : m < 1
  · have : ¬ (1 ≤ m) := by omega
    simp [calendar_NewSolar, hm1, this, throw, throwThe, MonadExceptOf.throw, bind, Except.bind]
  by_cases hm12 : m > 12
  · have : ¬ (m ≤ 12) := by omega
    simp [calendar_NewSolar, hm12, this, throw, throwThe, MonadExceptOf.throw, bind, Except.bind]
  have h1 : 1 ≤ m := by omega
  have h12 : m ≤ 12 := by omega
  simp only [calendar_NewSolar, pl_getDaysOfMonth_eq y m h1 h12]
  by_cases hd1 : d < 1
  · have : ¬ (1 ≤ d) := by omega
    simp [hm1, hm12, hd1, this, throw, throwThe, MonadExceptOf.throw, bind, Except.bind]
  by_cases hd31 : d > 31
  · have : ¬ (d ≤ 31) := by omega
    simp [hm1, hm12, hd1, hd31, this, throw, throwThe, MonadExceptOf.throw, bind, Except.bind]
  have hd1' : 1 ≤ d := by omega
  have hd31' : d ≤ 31 := by omega
  by_cases hy : y = 1582 ∧ m = 10
  · obtain ⟨rfl, rfl⟩ := hy
    by_cases hg : d > 4 ∧ d < 15
    · simp [hd1, hd31, hd1', hd31', hg.1, hg.2, throw, throwThe, MonadExceptOf.throw, bind, Except.bind]
    · have : ¬ (4 < d ∧ d < 15) := hg
      by_cases h4 : d > 4
      · have : ¬ d < 15 := fun h => hg ⟨h4, h⟩
        simp [hd1, hd31, hd1', hd31', h4, this, throw, throwThe, MonadExceptOf.throw, bind, Except.bind, pure, Except.pure]
      · have h4' : ¬ 4 < d := h4
        simp [hd1, hd31, hd1', hd31', h4, h4', throw, throwThe, MonadExceptOf.throw, bind, Except.bind, pure, Except.pure]
  · have hy' : ¬ (1582 = y ∧ 10 = m) := fun e => hy ⟨e.1.symm, e.2.symm⟩
    by_cases hdm : d > Model.daysOfMonth y m
    · have : ¬ d ≤ Model.daysOfMonth y m := by omega
      simp [hm1, hm12, hd1, hd31, h1, h12, hd1', hd31', hy, hy', hdm, this, throw, throwThe, MonadExceptOf.throw, bind, Except.bind]
    · have : d ≤ Model.daysOfMonth y m := by omega
      simp [hm1, hm12, hd1, hd31, h1, h12, hd1', hd31', hy, hy', hdm, this, throw, throwThe, MonadExceptOf.throw, bind, Except.bind, pure, Except.pure]

/-! ## computeDay -/

/-- the six day-pillar values with Go's truncating `%`, from `offset` and the "late hour" flag -/
def pl_dayT (offset : Int) (late : Bool) : Int × Int × Int × Int × Int × Int :=
  (Int.tmod offset 10, Int.tmod offset 12,
   if late then (if Int.tmod offset 10 + 1 ≥ 10 then Int.tmod offset 10 + 1 - 10 else Int.tmod offset 10 + 1)
     else Int.tmod offset 10,
   if late then (if Int.tmod offset 12 + 1 ≥ 12 then Int.tmod offset 12 + 1 - 12 else Int.tmod offset 12 + 1)
     else Int.tmod offset 12,
   Int.tmod offset 10, Int.tmod offset 12)

/-- `l` with the six day-pillar fields replaced (order of `Model.computeDay`'s result) -/
def pl_withDay (l : Lunar) (r : Int × Int × Int × Int × Int × Int) : Lunar :=
  { l with dayGanIndex := r.1, dayZhiIndex := r.2.1, dayGanIndexExact := r.2.2.1,
           dayZhiIndexExact := r.2.2.2.1, dayGanIndexExact2 := r.2.2.2.2.1,
           dayZhiIndexExact2 := r.2.2.2.2.2 }

/-- What the generated `computeDay` does for ALL inputs: panics iff the solar date is not a valid
`NewSolar` date (receiver invariant), otherwise writes `pl_dayT`. -/
theorem computeDay_raw (a1 a2 a3 : Int) (l : Lunar) :
    calendar_computeDay a1 a2 a3 l =
      if Model.validYmd l.solar.year l.solar.month l.solar.day
      then .ok (pl_withDay l (pl_dayT a1 (decide (a2 ≥ 0) && decide (a3 ≤ 0))))
      else .error .panic := by
  unfold calendar_computeDay
  simp only [calendar_Solar_GetYear, calendar_Solar_GetMonth, calendar_Solar_GetDay, bind, Except.bind,
    pure, Except.pure, pl_newSolar_noon]
  cases hv : Model.validYmd l.solar.year l.solar.month l.solar.day
  · rfl
  · simp only [if_true, pl_dayT, pl_withDay]
    cases hl : (decide (a2 ≥ 0) && decide (a3 ≤ 0))
    · rfl
    · by_cases h10 : Int.tmod a1 10 + 1 ≥ 10 <;> by_cases h12 : Int.tmod a1 12 + 1 ≥ 12 <;>
        simp only [h10, h12, decide_true, decide_false, if_true, if_false] <;> rfl


theorem pl_hm2300 : Model.fmtHm 23 0 = ['2', '3', ':', '0', '0'] := by decide
theorem pl_hm2359 : Model.fmtHm 23 59 = ['2', '3', ':', '5', '9'] := by decide

theorem computeDay_eq (a1 a2 a3 : Int) (l : Lunar)
    (hv : Model.validYmd l.solar.year l.solar.month l.solar.day = true)
    (ha1 : a1 = Model.jdn l.solar.year l.solar.month l.solar.day - 11)
    (h0 : 11 ≤ Model.jdn l.solar.year l.solar.month l.solar.day)
    (ha2 : a2 ≥ 0 ↔ Model.strGe (Model.fmtHm l.hour l.minute) ['2', '3', ':', '0', '0'] = true)
    (ha3 : a3 ≤ 0 ↔ Model.strLe (Model.fmtHm l.hour l.minute) ['2', '3', ':', '5', '9'] = true) :
    calendar_computeDay a1 a2 a3 l =
      .ok (pl_withDay l (Model.computeDay (pl_toM l.solar) l.hour l.minute)) := by
  rw [computeDay_raw, hv, if_pos rfl]
  congr 2
  unfold pl_dayT Model.computeDay
  rw [pl_decide_eq ha2, pl_decide_eq ha3, pl_hm2300, pl_hm2359]
  have e10 : Int.tmod a1 10 = a1 % 10 := Int.tmod_eq_emod_of_nonneg (by omega)
  have e12 : Int.tmod a1 12 = a1 % 12 := Int.tmod_eq_emod_of_nonneg (by omega)
  rw [e10, e12, ha1]
  rfl

/-- outside the receiver invariant the Go code panics (in `NewSolar`); `Model.computeDay` is total -/
theorem computeDay_panic (a1 a2 a3 : Int) (l : Lunar)
    (hv : Model.validYmd l.solar.year l.solar.month l.solar.day = false) :
    calendar_computeDay a1 a2 a3 l = .error .panic := by
  rw [computeDay_raw, hv]; rfl

/-! ## computeTime, computeWeek -/

theorem pl_timeZhiScan_nonneg (hm : List Char) : ∀ fuel i x, 0 ≤ x → 0 ≤ Model.timeZhiScan hm fuel i x := by
  intro fuel
  induction fuel with
  | zero => intro i x _; exact Int.le_refl 0
  | succ fuel ih =>
    intro i x hx
    unfold Model.timeZhiScan
    split
    · exact Int.le_refl 0
    · split
      · exact hx
      · exact ih _ _ (by omega)

theorem pl_timeZhi_nonneg (h mi : Int) : 0 ≤ Model.timeZhiIndexOf h mi :=
  pl_timeZhiScan_nonneg _ _ _ _ (by decide)

/-- What the generated `computeTime` does for all inputs. -/
theorem computeTime_raw (a1 : Int) (l : Lunar) :
    calendar_computeTime a1 l = .ok { l with
      timeZhiIndex := a1,
      timeGanIndex := Int.tmod (Int.tmod l.dayGanIndexExact 5 * 2 + a1) 10 } := rfl

/-- `computeTime` against the model: `timeZhiIndex` is the atom (`LunarUtil.GetTimeZhiIndex` on `"%02d:%02d"`,
modelled by `Model.timeZhiIndexOf`), `timeGanIndex` is the formula of `Model.computeAll`. The guard
`0 ≤ dayGanIndexExact` holds after `computeDay` on every date with `jdn ≥ 11`. -/
theorem computeTime_eq (a1 : Int) (l : Lunar)
    (ha1 : a1 = Model.timeZhiIndexOf l.hour l.minute) (hd : 0 ≤ l.dayGanIndexExact) :
    calendar_computeTime a1 l = .ok { l with
      timeZhiIndex := Model.timeZhiIndexOf l.hour l.minute,
      timeGanIndex := (l.dayGanIndexExact % 5 * 2 + Model.timeZhiIndexOf l.hour l.minute) % 10 } := by
  rw [computeTime_raw, ha1]
  have hz := pl_timeZhi_nonneg l.hour l.minute
  have e5 : Int.tmod l.dayGanIndexExact 5 = l.dayGanIndexExact % 5 := Int.tmod_eq_emod_of_nonneg hd
  have h5 : 0 ≤ l.dayGanIndexExact % 5 := Int.emod_nonneg _ (by decide)
  rw [e5, Int.tmod_eq_emod_of_nonneg (by omega)]

/-- `computeWeek`: the atom is `lunar.solar.GetWeek()` (= `Model.Solar.week`, as in `Model.computeAll`). -/
theorem computeWeek_eq (a1 : Int) (l : Lunar) :
    calendar_computeWeek a1 l = .ok { l with weekIndex := a1 } := rfl

theorem computeWeek_model (a1 : Int) (l : Lunar) (ha1 : a1 = (pl_toM l.solar).week) :
    calendar_computeWeek a1 l = .ok { l with weekIndex := (pl_toM l.solar).week } := by
  rw [computeWeek_eq, ha1]



/-! ## `strings.Compare` atoms -/

/-- `a` is a possible value of Go's `strings.Compare(x, y)`: only its sign is specified. -/
def pl_CmpSpec (a : Int) (x y : List Char) : Prop :=
  (a < 0 ↔ Model.cmpChars x y = .lt) ∧ (0 < a ↔ Model.cmpChars x y = .gt)

/-- Go's `strings.Compare` on the model's strings (-1 / 0 / +1) -/
def pl_goCmp (x y : List Char) : Int :=
  match Model.cmpChars x y with
  | .lt => -1
  | .eq => 0
  | .gt => 1

theorem pl_goCmp_spec (x y : List Char) : pl_CmpSpec (pl_goCmp x y) x y := by
  unfold pl_CmpSpec pl_goCmp
  cases Model.cmpChars x y <;> simp

theorem pl_CmpSpec.lt {a : Int} {x y : List Char} (h : pl_CmpSpec a x y) : a < 0 ↔ Model.strLt x y = true := by
  unfold Model.strLt; rw [h.1]; cases Model.cmpChars x y <;> decide

theorem pl_CmpSpec.ge {a : Int} {x y : List Char} (h : pl_CmpSpec a x y) : a ≥ 0 ↔ Model.strGe x y = true := by
  unfold Model.strGe
  have h1 := h.1
  cases hc : Model.cmpChars x y <;> rw [hc] at h1 <;> simp at h1 ⊢ <;> omega

theorem pl_CmpSpec.le {a : Int} {x y : List Char} (h : pl_CmpSpec a x y) : a ≤ 0 ↔ Model.strLe x y = true := by
  unfold Model.strLe
  have h2 := h.2
  cases hc : Model.cmpChars x y <;> rw [hc] at h2 <;> simp at h2 ⊢ <;> omega


/-- `computeYear` with the four `strings.Compare` atoms bound by `pl_CmpSpec` (the two textual
occurrences `a3`/`a5` and `a4`/`a6` compare the same pair of strings). -/
theorem computeYear_eq_cmp (terms : List Model.Solar) (a1 a2 : Solar) (a3 a4 a5 a6 : Int) (l : Lunar)
    (ha1 : pl_toM a1 = Model.termByName terms "立春")
    (ha2 : pl_toM a2 = Model.termByName terms "LI_CHUN")
    (ha3 : pl_CmpSpec a3 (pl_toM l.solar).toYmd (pl_toM (pl_liChunG a1 a2 l)).toYmd)
    (ha4 : pl_CmpSpec a4 (pl_toM l.solar).toYmdHms (pl_toM (pl_liChunG a1 a2 l)).toYmdHms)
    (ha5 : pl_CmpSpec a5 (pl_toM l.solar).toYmd (pl_toM (pl_liChunG a1 a2 l)).toYmd)
    (ha6 : pl_CmpSpec a6 (pl_toM l.solar).toYmdHms (pl_toM (pl_liChunG a1 a2 l)).toYmdHms) :
    calendar_computeYear a1 a2 a3 a4 a5 a6 l =
      .ok (pl_withYear l (Model.computeYear l.year (pl_toM l.solar) terms)) :=
  computeYear_eq terms a1 a2 a3 a4 a5 a6 l ha1 ha2 ha3.lt ha4.lt ha5.ge ha6.ge

theorem computeMonth_eq_cmp (terms : List Model.Solar) (a1 : Int → Solar) (a2 : Int → Bool) (a3 a4 : Int → Int)
    (a5 : Int → Solar) (a6 : Int → Bool) (a7 a8 : Int → Int) (l : Lunar)
    (hgL : 0 ≤ l.yearGanIndexByLiChun) (hgE : 0 ≤ l.yearGanIndexExact)
    (ha3 : ∀ k : Nat, k < 16 → pl_CmpSpec (a3 (2 * (k : Int))) (pl_toM l.solar).toYmd
      (pl_startKey Model.Solar.toYmd (pl_toM l.solar).toYmd terms k))
    (ha4 : ∀ k : Nat, k < 16 → pl_CmpSpec (a4 (2 * (k : Int))) (pl_toM l.solar).toYmd
      (pl_jieAt terms (2 * k)).toYmd)
    (ha7 : ∀ k : Nat, k < 16 → pl_CmpSpec (a7 (2 * (k : Int))) (pl_toM l.solar).toYmdHms
      (pl_startKey Model.Solar.toYmdHms (pl_toM l.solar).toYmdHms terms k))
    (ha8 : ∀ k : Nat, k < 16 → pl_CmpSpec (a8 (2 * (k : Int))) (pl_toM l.solar).toYmdHms
      (pl_jieAt terms (2 * k)).toYmdHms) :
    calendar_computeMonth a1 a2 a3 a4 a5 a6 a7 a8 l =
      .ok (pl_withMonth l (Model.computeMonth (pl_toM l.solar) terms l.yearGanIndexByLiChun l.yearGanIndexExact)) :=
  computeMonth_eq terms a1 a2 a3 a4 a5 a6 a7 a8 l hgL hgE
    (fun k hk => (ha3 k hk).ge) (fun k hk => (ha4 k hk).lt) (fun k hk => (ha7 k hk).ge) (fun k hk => (ha8 k hk).lt)

theorem computeDay_eq_cmp (a1 a2 a3 : Int) (l : Lunar)
    (hv : Model.validYmd l.solar.year l.solar.month l.solar.day = true)
    (ha1 : a1 = Model.jdn l.solar.year l.solar.month l.solar.day - 11)
    (h0 : 11 ≤ Model.jdn l.solar.year l.solar.month l.solar.day)
    (ha2 : pl_CmpSpec a2 (Model.fmtHm l.hour l.minute) ['2', '3', ':', '0', '0'])
    (ha3 : pl_CmpSpec a3 (Model.fmtHm l.hour l.minute) ['2', '3', ':', '5', '9']) :
    calendar_computeDay a1 a2 a3 l =
      .ok (pl_withDay l (Model.computeDay (pl_toM l.solar) l.hour l.minute)) :=
  computeDay_eq a1 a2 a3 l hv ha1 h0 ha2.ge ha3.le

/-! ## the five steps in sequence = `Model.computeAll` -/

theorem pl_model_year_nonneg (year : Int) (solar : Model.Solar) (terms : List Model.Solar) :
    0 ≤ (Model.computeYear year solar terms).2.2.1 ∧ 0 ≤ (Model.computeYear year solar terms).2.2.2.2.1 := by
  rw [pl_model_year]
  exact ⟨Int.emod_nonneg _ (by decide), Int.emod_nonneg _ (by decide)⟩

theorem pl_model_day_nonneg (solar : Model.Solar) (h mi : Int) :
    0 ≤ (Model.computeDay solar h mi).2.2.1 := by
  unfold Model.computeDay
  have : 0 ≤ (Model.jdn solar.year solar.month solar.day - 11) % 10 := Int.emod_nonneg _ (by decide)
  simp only []
  split
  · split <;> omega
  · exact this

/-- the Go struct image of a model `Lunar` (the fields `Gen.Fn.Lunar` has), keeping `eightChar` -/
def pl_ofLunar (m : Model.Lunar) (s : Solar) (ec : EightChar) : Lunar :=
  { year := m.year, month := m.month, day := m.day, hour := m.hour, minute := m.minute, second := m.second,
    yearGanIndex := m.yearGanIndex, yearZhiIndex := m.yearZhiIndex,
    yearGanIndexByLiChun := m.yearGanIndexByLiChun, yearZhiIndexByLiChun := m.yearZhiIndexByLiChun,
    yearGanIndexExact := m.yearGanIndexExact, yearZhiIndexExact := m.yearZhiIndexExact,
    monthGanIndex := m.monthGanIndex, monthZhiIndex := m.monthZhiIndex,
    monthGanIndexExact := m.monthGanIndexExact, monthZhiIndexExact := m.monthZhiIndexExact,
    dayGanIndex := m.dayGanIndex, dayZhiIndex := m.dayZhiIndex,
    dayGanIndexExact := m.dayGanIndexExact, dayZhiIndexExact := m.dayZhiIndexExact,
    dayGanIndexExact2 := m.dayGanIndexExact2, dayZhiIndexExact2 := m.dayZhiIndexExact2,
    timeGanIndex := m.timeGanIndex, timeZhiIndex := m.timeZhiIndex, weekIndex := m.weekIndex,
    solar := s, eightChar := ec }

/-- Go's `compute` runs computeYear, computeMonth, computeDay, computeTime, computeWeek in this order
(after `computeJieQi`, which fills the term table `ya.terms`). With every atom bound to its meaning on the
INPUT struct `l` (the steps only read `year`, `hour`, `minute`, `solar` and pillar fields written by
earlier steps), the sequence returns exactly the fields of `Model.computeAll`. -/
theorem compute_steps_eq (ya : Model.YearAstro)
    (y1 y2 : Solar) (y3 y4 y5 y6 : Int)
    (m1 : Int → Solar) (m2 : Int → Bool) (m3 m4 : Int → Int) (m5 : Int → Solar) (m6 : Int → Bool) (m7 m8 : Int → Int)
    (d1 d2 d3 t1 w1 : Int) (l : Lunar)
    (hv : Model.validYmd l.solar.year l.solar.month l.solar.day = true)
    (h0 : 11 ≤ Model.jdn l.solar.year l.solar.month l.solar.day)
    (hy1 : pl_toM y1 = Model.termByName ya.terms "立春")
    (hy2 : pl_toM y2 = Model.termByName ya.terms "LI_CHUN")
    (hy3 : pl_CmpSpec y3 (pl_toM l.solar).toYmd (pl_toM (pl_liChunG y1 y2 l)).toYmd)
    (hy4 : pl_CmpSpec y4 (pl_toM l.solar).toYmdHms (pl_toM (pl_liChunG y1 y2 l)).toYmdHms)
    (hy5 : pl_CmpSpec y5 (pl_toM l.solar).toYmd (pl_toM (pl_liChunG y1 y2 l)).toYmd)
    (hy6 : pl_CmpSpec y6 (pl_toM l.solar).toYmdHms (pl_toM (pl_liChunG y1 y2 l)).toYmdHms)
    (hm3 : ∀ k : Nat, k < 16 → pl_CmpSpec (m3 (2 * (k : Int))) (pl_toM l.solar).toYmd
      (pl_startKey Model.Solar.toYmd (pl_toM l.solar).toYmd ya.terms k))
    (hm4 : ∀ k : Nat, k < 16 → pl_CmpSpec (m4 (2 * (k : Int))) (pl_toM l.solar).toYmd
      (pl_jieAt ya.terms (2 * k)).toYmd)
    (hm7 : ∀ k : Nat, k < 16 → pl_CmpSpec (m7 (2 * (k : Int))) (pl_toM l.solar).toYmdHms
      (pl_startKey Model.Solar.toYmdHms (pl_toM l.solar).toYmdHms ya.terms k))
    (hm8 : ∀ k : Nat, k < 16 → pl_CmpSpec (m8 (2 * (k : Int))) (pl_toM l.solar).toYmdHms
      (pl_jieAt ya.terms (2 * k)).toYmdHms)
    (hd1 : d1 = Model.jdn l.solar.year l.solar.month l.solar.day - 11)
    (hd2 : pl_CmpSpec d2 (Model.fmtHm l.hour l.minute) ['2', '3', ':', '0', '0'])
    (hd3 : pl_CmpSpec d3 (Model.fmtHm l.hour l.minute) ['2', '3', ':', '5', '9'])
    (ht1 : t1 = Model.timeZhiIndexOf l.hour l.minute)
    (hw1 : w1 = (pl_toM l.solar).week) :
    (do let l1 ← calendar_computeYear y1 y2 y3 y4 y5 y6 l
        let l2 ← calendar_computeMonth m1 m2 m3 m4 m5 m6 m7 m8 l1
        let l3 ← calendar_computeDay d1 d2 d3 l2
        let l4 ← calendar_computeTime t1 l3
        calendar_computeWeek w1 l4) =
      .ok (pl_ofLunar (Model.computeAll l.year l.month l.day l.hour l.minute l.second (pl_toM l.solar) ya)
            l.solar l.eightChar) := by
  have e1 := computeYear_eq_cmp ya.terms y1 y2 y3 y4 y5 y6 l hy1 hy2 hy3 hy4 hy5 hy6
  obtain ⟨hn1, hn2⟩ := pl_model_year_nonneg l.year (pl_toM l.solar) ya.terms
  generalize hr1 : Model.computeYear l.year (pl_toM l.solar) ya.terms = r1 at e1 hn1 hn2
  have e2 : calendar_computeMonth m1 m2 m3 m4 m5 m6 m7 m8 (pl_withYear l r1) =
      .ok (pl_withMonth (pl_withYear l r1) (Model.computeMonth (pl_toM l.solar) ya.terms r1.2.2.1 r1.2.2.2.2.1)) :=
    computeMonth_eq_cmp ya.terms m1 m2 m3 m4 m5 m6 m7 m8 (pl_withYear l r1) hn1 hn2 hm3 hm4 hm7 hm8
  generalize hr2 : Model.computeMonth (pl_toM l.solar) ya.terms r1.2.2.1 r1.2.2.2.2.1 = r2 at e2
  have e3 : calendar_computeDay d1 d2 d3 (pl_withMonth (pl_withYear l r1) r2) =
      .ok (pl_withDay (pl_withMonth (pl_withYear l r1) r2) (Model.computeDay (pl_toM l.solar) l.hour l.minute)) :=
    computeDay_eq_cmp d1 d2 d3 (pl_withMonth (pl_withYear l r1) r2) hv hd1 h0 hd2 hd3
  have hdn := pl_model_day_nonneg (pl_toM l.solar) l.hour l.minute
  generalize hr3 : Model.computeDay (pl_toM l.solar) l.hour l.minute = r3 at e3 hdn
  have e4 : calendar_computeTime t1 (pl_withDay (pl_withMonth (pl_withYear l r1) r2) r3) =
      .ok { pl_withDay (pl_withMonth (pl_withYear l r1) r2) r3 with
        timeZhiIndex := Model.timeZhiIndexOf l.hour l.minute,
        timeGanIndex := (r3.2.2.1 % 5 * 2 + Model.timeZhiIndexOf l.hour l.minute) % 10 } :=
    computeTime_eq t1 (pl_withDay (pl_withMonth (pl_withYear l r1) r2) r3) ht1 hdn
  simp only [bind, Except.bind, e1, e2, e3, e4, computeWeek_eq, hw1]
  obtain ⟨yg, yz, ygL, yzL, ygE, yzE⟩ := r1
  obtain ⟨mg, mz, mgE, mzE⟩ := r2
  obtain ⟨dg, dz, dgE, dzE, dg2, dz2⟩ := r3
  simp only [] at hr2
  unfold Model.computeAll
  simp only [hr1, hr2, hr3]
  rfl


/-! ## DISAGREEMENT (outside the guard `11 ≤ jdn`, i.e. before 12 January 4713 BC = year -4712)

`Model.computeDay` takes `offset % 10` / `offset % 12` with Lean's Euclidean `%`; the Go code uses the
truncating `%` WITHOUT the `if x < 0 { x += m }` fix-up that `computeYear` has.  For `offset < 0`
(`jdn < 11`) the two differ: on -4712-01-01 (`jdn = 0`, `offset = -11`) Go writes
`dayGanIndex = -1`, `dayZhiIndex = -11`; the model says `9`, `1`.  (Civil years 1..9999, the domain of the
registered properties, all have `jdn ≥ 1721424`, so no registered property is affected.) -/

def pl_cexLunar : Lunar := { (default : Lunar) with solar := ⟨-4712, 1, 1, 0, 0, 0⟩ }

theorem computeDay_disagree :
    Model.validYmd (-4712) 1 1 = true ∧ Model.jdn (-4712) 1 1 - 11 = -11 ∧
    calendar_computeDay (-11) (-1) (-1) pl_cexLunar =
      .ok (pl_withDay pl_cexLunar (-1, -11, -1, -11, -1, -11)) ∧
    Model.computeDay (pl_toM pl_cexLunar.solar) 0 0 = (9, 1, 9, 1, 9, 1) := by
  refine ⟨by decide, by decide, ?_, by decide⟩
  rw [computeDay_raw]; rfl

#eval calendar_computeDay (-11) (-1) (-1) pl_cexLunar |>.toOption |>.map fun l =>
  (l.dayGanIndex, l.dayZhiIndex, l.dayGanIndexExact, l.dayZhiIndexExact, l.dayGanIndexExact2, l.dayZhiIndexExact2)
#eval Model.computeDay (pl_toM pl_cexLunar.solar) 0 0

section Axioms
#print axioms computeYear_eq
#print axioms computeYear_eq_cmp
#print axioms computeMonth_raw
#print axioms computeMonth_eq
#print axioms computeMonth_eq_cmp
#print axioms computeDay_raw
#print axioms computeDay_eq
#print axioms computeDay_eq_cmp
#print axioms computeDay_panic
#print axioms computeDay_disagree
#print axioms computeTime_raw
#print axioms computeTime_eq
#print axioms computeWeek_eq
#print axioms computeWeek_model
#print axioms compute_steps_eq
end Axioms

end FnEq
