/-
Proofs.FnSTaoDay — Tao day predicates whose body is one atom (string-mode generated code with atoms = model; split from the worker's FnSFest; helper prefix `sf_`).
-/
import Proofs.FnSFestBase

namespace FnSEq
open FnEq
open Gen.Fn (Err)
open Gen.Tables

/-! ### 4. Tao day predicates whose body is one atom -/

/-- atom `t.isDayIn(TaoUtil.SAN_HUI)`: the function only forwards it -/
theorem taoIsDaySanHui_eq (a1 : Bool) (t : Gen.FnS.Tao) : Gen.FnS.calendar_Tao_IsDaySanHui a1 t = .ok a1 := rfl
theorem taoIsDaySanYuan_eq (a1 : Bool) (t : Gen.FnS.Tao) : Gen.FnS.calendar_Tao_IsDaySanYuan a1 t = .ok a1 := rfl
theorem taoIsDayWuLa_eq (a1 : Bool) (t : Gen.FnS.Tao) : Gen.FnS.calendar_Tao_IsDayWuLa a1 t = .ok a1 := rfl

/-- with the atoms bound to the model's `isDayIn` -/
theorem taoIsDaySanHui_eq_model (t : Gen.FnS.Tao) (terms : List Model.Solar) :
    Gen.FnS.calendar_Tao_IsDaySanHui (Model.taoIsDayIn (lunarToM t.lunar terms) TaoUtil.«SAN_HUI») t
      = .ok (Model.taoSanHui (lunarToM t.lunar terms)) := rfl
theorem taoIsDaySanYuan_eq_model (t : Gen.FnS.Tao) (terms : List Model.Solar) :
    Gen.FnS.calendar_Tao_IsDaySanYuan (Model.taoIsDayIn (lunarToM t.lunar terms) TaoUtil.«SAN_YUAN») t
      = .ok (Model.taoSanYuan (lunarToM t.lunar terms)) := rfl
theorem taoIsDayWuLa_eq_model (t : Gen.FnS.Tao) (terms : List Model.Solar) :
    Gen.FnS.calendar_Tao_IsDayWuLa (Model.taoIsDayIn (lunarToM t.lunar terms) TaoUtil.«WU_LA») t
      = .ok (Model.taoWuLa (lunarToM t.lunar terms)) := rfl

/-- `IsDayBaJie` for every value of the atom (`t.lunar.GetJieQi()`): membership of the key in `BA_JIE` -/
theorem taoIsDayBaJie_shape (a1 : String) (t : Gen.FnS.Tao) :
    Gen.FnS.calendar_Tao_IsDayBaJie a1 t = .ok (Gen.FnS.mhas TaoUtil.«BA_JIE» a1) := by
  show (if Gen.FnS.mhas TaoUtil.«BA_JIE» a1 = true then (pure true : Except Err Bool) else pure false) = _
  cases Gen.FnS.mhas TaoUtil.«BA_JIE» a1 <;> rfl

theorem taoIsDayBaJie_lookup (a1 : String) (t : Gen.FnS.Tao) :
    Gen.FnS.calendar_Tao_IsDayBaJie a1 t = .ok (Model.lookupS TaoUtil.«BA_JIE» a1).isSome := by
  rw [taoIsDayBaJie_shape, mhas_eq]

/-- MAIN: with the atom bound to the model's `GetJieQi` string -/
theorem taoIsDayBaJie_eq (a1 : String) (t : Gen.FnS.Tao) (terms : List Model.Solar)
    (ha1 : a1 = (lunarToM t.lunar terms).jieQi) :
    Gen.FnS.calendar_Tao_IsDayBaJie a1 t = .ok (Model.taoBaJie (lunarToM t.lunar terms)) := by
  subst ha1; rw [taoIsDayBaJie_lookup]; rfl


end FnSEq
