import Proofs.CivilJdn
import Proofs.CivilStep
set_option linter.unusedVariables false
namespace Model

/-! ## day differences -/

theorem daysInYearLoop_eq (k : Nat) : ∀ (y i : Int), 1 ≤ i → i + (k : Int) ≤ 12 →
    daysInYearLoop k y i = jdn y (i + k) 1 - jdn y i 1 := by
  induction k with
  | zero => intro y i h1 h2; simp [daysInYearLoop]
  | succ k ih =>
    intro y i h1 h2
    simp only [daysInYearLoop]
    rw [ih y (i + 1) (by omega) (by omega)]
    have := jdn_month_succ_all y i h1 (by omega)
    rw [show i + ((k + 1 : Nat) : Int) = i + 1 + (k : Int) by omega]
    omega

theorem daysInYear_eq (y m d : Int) (hv : validYmd y m d = true) :
    daysInYear y m d = some (jdn y m d - jdn y 1 1 + 1) := by
  obtain ⟨hj, hc1, hc2⟩ := jdn_comp y m d hv
  obtain ⟨hm1, hm, hd1, hd, hx⟩ := (validYmd_iff_step y m d).1 hv
  have hl := daysInYearLoop_eq (m - 1).toNat y 1 (by omega) (by omega)
  rw [show (1 : Int) + ((m - 1).toNat : Int) = m by omega] at hl
  unfold daysInYear
  simp only [hl]
  rw [hj]
  unfold lin comp
  by_cases hO : y = 1582 ∧ m = 10
  · simp only [hO, and_self, if_true, true_and] at hx ⊢
    by_cases h15 : d ≥ 15
    · have : d > 4 := by omega
      simp only [h15, this, if_true]
      congr 1; omega
    · have : ¬ d > 4 := by omega
      simp only [h15, this, if_false]
      congr 1; omega
  · have hc : ¬ (y = 1582 ∧ m = 10 ∧ d > 4) := fun h => hO ⟨h.1, h.2.1⟩
    simp only [hO, hc, if_false]
    congr 1; omega

theorem yearsLoop_eq (k : Nat) : ∀ (a : Int), yearsLoop k a = jdn (a + k) 1 1 - jdn a 1 1 := by
  induction k with
  | zero => intro a; simp [yearsLoop]
  | succ k ih =>
    intro a
    simp only [yearsLoop]
    rw [ih (a + 1)]
    have := jdn_year_len_all a
    rw [show a + ((k + 1 : Nat) : Int) = a + 1 + (k : Int) by omega]
    omega

/-- day difference = difference of day numbers (the Go code sums year lengths in a loop) -/
theorem daysBetween_eq (ay am ad by_ bm bd : Int) (ha : validYmd ay am ad = true) (hb : validYmd by_ bm bd = true)
    (hya : 1 ≤ ay) (hyb : 1 ≤ by_) :
    daysBetween ay am ad by_ bm bd = some (jdn by_ bm bd - jdn ay am ad) := by
  unfold daysBetween
  rw [daysInYear_eq ay am ad ha, daysInYear_eq by_ bm bd hb]
  simp only
  by_cases he : ay = by_
  · subst he
    simp only [if_true]
    congr 1; omega
  · simp only [he, if_false]
    by_cases hgt : ay > by_
    · simp only [hgt, if_true]
      rw [yearsLoop_eq]
      have := jdn_year_len_all by_
      rw [show by_ + 1 + ((ay - by_ - 1).toNat : Int) = ay by omega]
      congr 1; omega
    · simp only [hgt, if_false]
      rw [yearsLoop_eq]
      have := jdn_year_len_all ay
      rw [show ay + 1 + ((by_ - ay - 1).toNat : Int) = by_ by omega]
      congr 1; omega

theorem valid_parts (s : Solar) (hs : s.valid = true) :
    validYmd s.year s.month s.day = true ∧ validHms s.hour s.minute s.second = true := by
  unfold Solar.valid at hs
  rw [Bool.and_eq_true] at hs
  exact hs

theorem subtract_eq (s o : Solar) (hs : s.valid = true) (ho : o.valid = true) (hys : 1 ≤ s.year) (hyo : 1 ≤ o.year) :
    s.subtract o = some (s.jdn - o.jdn) := by
  unfold Solar.subtract Solar.jdn
  exact daysBetween_eq _ _ _ _ _ _ (valid_parts o ho).1 (valid_parts s hs).1 hyo hys

/-- minute difference = difference of (day number · 1440 + minute of day) -/
theorem subtractMinute_eq (s o : Solar) (hs : s.valid = true) (ho : o.valid = true) (hys : 1 ≤ s.year) (hyo : 1 ≤ o.year) :
    s.subtractMinute o = some ((s.jdn * 1440 + s.hour * 60 + s.minute) - (o.jdn * 1440 + o.hour * 60 + o.minute)) := by
  unfold Solar.subtractMinute
  rw [subtract_eq s o hs ho hys hyo]
  simp only
  split <;> (congr 1; omega)

/-! ## order -/

theorem monthStart_mono (k : Nat) : ∀ (y m : Int), 1 ≤ m → m + (k : Int) ≤ 12 →
    jdn y m 1 + 21 * (k : Int) ≤ jdn y (m + k) 1 := by
  induction k with
  | zero => intro y m h1 h2; simp
  | succ k ih =>
    intro y m h1 h2
    have h := ih y (m + 1) (by omega) (by omega)
    have hs := jdn_month_succ_all y m h1 (by omega)
    have hb := daysOfMonth_bounds y m h1 (by omega)
    rw [show m + ((k + 1 : Nat) : Int) = m + 1 + (k : Int) by omega]
    omega

theorem monthStart_le (y m m' : Int) (h1 : 1 ≤ m) (h2 : m ≤ m') (h3 : m' ≤ 12) :
    jdn y m 1 ≤ jdn y m' 1 := by
  have h := monthStart_mono (m' - m).toNat y m h1 (by omega)
  rw [show m + ((m' - m).toNat : Int) = m' by omega] at h
  omega

theorem yearStart_mono (k : Nat) : ∀ (y : Int), jdn y 1 1 + 355 * (k : Int) ≤ jdn (y + k) 1 1 := by
  induction k with
  | zero => intro y; simp
  | succ k ih =>
    intro y
    have h := ih (y + 1)
    have hs := jdn_year_len_all y
    have hb : 355 ≤ daysOfYear y := by unfold daysOfYear; repeat' split <;> omega
    rw [show y + ((k + 1 : Nat) : Int) = y + 1 + (k : Int) by omega]
    omega

theorem yearStart_le (y y' : Int) (h : y ≤ y') : jdn y 1 1 ≤ jdn y' 1 1 := by
  have h := yearStart_mono (y' - y).toNat y
  rw [show y + ((y' - y).toNat : Int) = y' by omega] at h
  omega

/-- a valid date lies between the start of its month and the start of the next one -/
theorem jdn_in_month (y m d : Int) (hv : validYmd y m d = true) :
    jdn y m 1 ≤ jdn y m d ∧ jdn y m d < jdn y m 1 + daysOfMonth y m := by
  obtain ⟨hj, hc1, hc2⟩ := jdn_comp y m d hv
  rw [hj]; unfold lin; omega

theorem monthEnd_le_yearEnd (y m : Int) (h1 : 1 ≤ m) (h2 : m ≤ 12) :
    jdn y m 1 + daysOfMonth y m ≤ jdn (y + 1) 1 1 := by
  have hy := jdn_year_succ_all y
  by_cases h : m = 12
  · subst h; omega
  · have hs := jdn_month_succ_all y m h1 (by omega)
    have := monthStart_le y (m + 1) 12 (by omega) (by omega) (by omega)
    have hb := daysOfMonth_bounds y 12 (by omega) (by omega)
    omega

theorem comp_lt (y m d d' : Int) (hv : validYmd y m d = true) (hv' : validYmd y m d' = true)
    (h : d < d') : comp y m d < comp y m d' := by
  obtain ⟨_, _, _, _, hx⟩ := (validYmd_iff_step y m d).1 hv
  obtain ⟨_, _, _, _, hx'⟩ := (validYmd_iff_step y m d').1 hv'
  unfold comp
  by_cases hO : y = 1582 ∧ m = 10
  · obtain ⟨rfl, rfl⟩ := hO
    simp only [and_self, if_true, true_and] at hx hx' ⊢
    repeat' split
    all_goals omega
  · have hc : ¬ (y = 1582 ∧ m = 10 ∧ d > 4) := fun h => hO ⟨h.1, h.2.1⟩
    have hc' : ¬ (y = 1582 ∧ m = 10 ∧ d' > 4) := fun h => hO ⟨h.1, h.2.1⟩
    simp only [hc, hc', if_false]; exact h

theorem lex_jdn_lt (y m d y' m' d' : Int) (hv : validYmd y m d = true) (hv' : validYmd y' m' d' = true)
    (h : y < y' ∨ (y = y' ∧ (m < m' ∨ (m = m' ∧ d < d')))) : jdn y m d < jdn y' m' d' := by
  obtain ⟨a1, a2⟩ := jdn_in_month y m d hv
  obtain ⟨b1, b2⟩ := jdn_in_month y' m' d' hv'
  obtain ⟨hm1, hm, _, _, _⟩ := (validYmd_iff_step y m d).1 hv
  obtain ⟨hm1', hm', _, _, _⟩ := (validYmd_iff_step y' m' d').1 hv'
  rcases h with h | ⟨rfl, h | ⟨rfl, h⟩⟩
  · have e1 := monthEnd_le_yearEnd y m hm1 hm
    have e2 := yearStart_le (y + 1) y' (by omega)
    have e3 := monthStart_le y' 1 m' (by omega) hm1' hm'
    omega
  · have hs := jdn_month_succ_all y m hm1 (by omega)
    have e3 := monthStart_le y (m + 1) m' (by omega) (by omega) hm'
    omega
  · obtain ⟨hj, _, _⟩ := jdn_comp y m d hv
    obtain ⟨hj', _, _⟩ := jdn_comp y m d' hv'
    have := comp_lt y m d d' hv hv' h
    rw [hj, hj']; unfold lin; omega

/-- the lexicographic (year, month, day) order is the day-number order -/
theorem jdn_lt_iff_lex (y m d y' m' d' : Int) (hv : validYmd y m d = true) (hv' : validYmd y' m' d' = true)
    (hy : 1 ≤ y) (hy' : 1 ≤ y') :
    jdn y m d < jdn y' m' d' ↔ (y < y' ∨ (y = y' ∧ (m < m' ∨ (m = m' ∧ d < d')))) := by
  constructor
  · intro hlt
    by_cases h : (y < y' ∨ (y = y' ∧ (m < m' ∨ (m = m' ∧ d < d'))))
    · exact h
    · by_cases h' : (y' < y ∨ (y' = y ∧ (m' < m ∨ (m' = m ∧ d' < d))))
      · have := lex_jdn_lt _ _ _ _ _ _ hv' hv h'
        omega
      · have e1 : y = y' := by omega
        have e2 : m = m' := by omega
        have e3 : d = d' := by omega
        subst e1 e2 e3
        omega
  · exact lex_jdn_lt _ _ _ _ _ _ hv hv'

theorem hms_bounds (s : Solar) (hs : s.valid = true) :
    0 ≤ s.hour ∧ s.hour ≤ 23 ∧ 0 ≤ s.minute ∧ s.minute ≤ 59 ∧ 0 ≤ s.second ∧ s.second ≤ 59 := by
  have h := (valid_parts s hs).2
  unfold validHms at h
  simp only [Bool.and_eq_true, decide_eq_true_eq] at h
  omega

theorem lexLt_cons (a b : Int) (r : List (Int × Int)) :
    lexLt ((a, b) :: r) = true ↔ (a < b ∨ (a = b ∧ lexLt r = true)) := by
  simp only [lexLt]
  by_cases h1 : a > b
  · simp only [h1, if_true]; constructor
    · intro h; cases h
    · omega
  · by_cases h2 : a < b
    · simp only [h1, h2, if_true, if_false, true_or]
    · have : a = b := by omega
      subst this
      simp [Int.lt_irrefl]

theorem lexLt_nil : lexLt [] = true ↔ False := by simp [lexLt]

theorem lexLt6_aux (a b c d e f a' b' c' d' e' f' J J' : Int)
    (h1 : J < J' ↔ (a < a' ∨ (a = a' ∧ (b < b' ∨ (b = b' ∧ c < c')))))
    (h2 : J' < J ↔ (a' < a ∨ (a' = a ∧ (b' < b ∨ (b' = b ∧ c' < c)))))
    (b1 : 0 ≤ d ∧ d ≤ 23 ∧ 0 ≤ e ∧ e ≤ 59 ∧ 0 ≤ f ∧ f ≤ 59)
    (b2 : 0 ≤ d' ∧ d' ≤ 23 ∧ 0 ≤ e' ∧ e' ≤ 59 ∧ 0 ≤ f' ∧ f' ≤ 59) :
    lexLt [(a,a'),(b,b'),(c,c'),(d,d'),(e,e'),(f,f')] = true ↔
      J * 86400 + (d*3600+e*60+f) < J' * 86400 + (d'*3600+e'*60+f') := by
  simp only [lexLt_cons, lexLt_nil]
  have t : J < J' ∨ J = J' ∨ J' < J := by omega
  rcases t with t | t | t
  · have := h1.1 t; omega
  · have n1 : ¬ (a < a' ∨ (a = a' ∧ (b < b' ∨ (b = b' ∧ c < c')))) := fun h => by have := h1.2 h; omega
    have n2 : ¬ (a' < a ∨ (a' = a ∧ (b' < b ∨ (b' = b ∧ c' < c)))) := fun h => by have := h2.2 h; omega
    have e1 : a = a' := by omega
    have e2 : b = b' := by omega
    have e3 : c = c' := by omega
    subst e1 e2 e3 t
    clear h1 h2 n1 n2
    simp only [Int.lt_irrefl, false_or, true_and, and_false, or_false]
    constructor
    · intro h; omega
    · intro h; omega
  · have := h2.1 t; omega

theorem lexLt6_iff (s o : Solar) (hs : s.valid = true) (ho : o.valid = true) (hys : 1 ≤ s.year) (hyo : 1 ≤ o.year) :
    lexLt [(s.year, o.year), (s.month, o.month), (s.day, o.day), (s.hour, o.hour),
         (s.minute, o.minute), (s.second, o.second)] = true ↔ s.stamp < o.stamp := by
  have h1 := jdn_lt_iff_lex _ _ _ _ _ _ (valid_parts s hs).1 (valid_parts o ho).1 hys hyo
  have h2 := jdn_lt_iff_lex _ _ _ _ _ _ (valid_parts o ho).1 (valid_parts s hs).1 hyo hys
  exact lexLt6_aux _ _ _ _ _ _ _ _ _ _ _ _ _ _ h1 h2 (hms_bounds s hs) (hms_bounds o ho)

/-- before/after comparisons agree with the continuous time stamp -/
theorem isBefore_iff (s o : Solar) (hs : s.valid = true) (ho : o.valid = true) (hys : 1 ≤ s.year) (hyo : 1 ≤ o.year) :
    s.isBefore o = true ↔ s.stamp < o.stamp := by
  unfold Solar.isBefore
  exact lexLt6_iff s o hs ho hys hyo

theorem isAfter_iff (s o : Solar) (hs : s.valid = true) (ho : o.valid = true) (hys : 1 ≤ s.year) (hyo : 1 ≤ o.year) :
    s.isAfter o = true ↔ o.stamp < s.stamp := by
  unfold Solar.isAfter
  exact lexLt6_iff o s ho hs hyo hys

/-! ## stepping days -/

/-- in the model the day number is injective on all valid dates (no year bound needed) -/
theorem jdn_inj_all (y m d y' m' d' : Int) (hv : validYmd y m d = true) (hv' : validYmd y' m' d' = true)
    (h : jdn y m d = jdn y' m' d') : y = y' ∧ m = m' ∧ d = d' := by
  by_cases h1 : (y < y' ∨ (y = y' ∧ (m < m' ∨ (m = m' ∧ d < d'))))
  · have := lex_jdn_lt _ _ _ _ _ _ hv hv' h1; omega
  · by_cases h2 : (y' < y ∨ (y' = y ∧ (m' < m ∨ (m' = m ∧ d' < d))))
    · have := lex_jdn_lt _ _ _ _ _ _ hv' hv h2; omega
    · omega

theorem solar_eq_of_jdn (s t : Solar) (hs : s.valid = true) (ht : t.valid = true) (hj : s.jdn = t.jdn)
    (h1 : s.hour = t.hour) (h2 : s.minute = t.minute) (h3 : s.second = t.second) : s = t := by
  obtain ⟨e1, e2, e3⟩ := jdn_inj_all _ _ _ _ _ _ (valid_parts s hs).1 (valid_parts t ht).1 hj
  cases s; cases t
  simp only at e1 e2 e3 h1 h2 h3
  subst e1 e2 e3 h1 h2 h3
  rfl

/-- stepping is undone by the opposite step and composes additively (whenever the intermediate and final years stay ≥ 1) -/
theorem nextDay_neg (s r : Solar) (n : Int) (hv : s.valid = true) (hy : 1 ≤ s.year) (h : s.nextDay n = some r) (hr : 1 ≤ r.year) :
    r.nextDay (-n) = some s := by
  obtain ⟨r', e, hrv, hj, a1, a2, a3⟩ := nextDay_spec_strong s n hv
  rw [h] at e
  cases e
  obtain ⟨t, et, htv, hj', c1, c2, c3⟩ := nextDay_spec_strong r (-n) hrv
  rw [et]
  congr 1
  exact solar_eq_of_jdn t s htv hv (by omega) (by omega) (by omega) (by omega)

theorem nextDay_add (s r t : Solar) (a b : Int) (hv : s.valid = true) (hy : 1 ≤ s.year)
    (h1 : s.nextDay a = some r) (hr : 1 ≤ r.year) (h2 : r.nextDay b = some t) (ht : 1 ≤ t.year) :
    s.nextDay (a + b) = some t := by
  obtain ⟨r', e, hrv, hj, a1, a2, a3⟩ := nextDay_spec_strong s a hv
  rw [h1] at e
  cases e
  obtain ⟨t', e', htv, hj', c1, c2, c3⟩ := nextDay_spec_strong r b hrv
  rw [h2] at e'
  cases e'
  obtain ⟨u, eu, huv, hj'', d1, d2, d3⟩ := nextDay_spec_strong s (a + b) hv
  rw [eu]
  congr 1
  exact solar_eq_of_jdn u t huv htv (by omega) (by omega) (by omega) (by omega)

/-! ## `fromJD` -/

def carryHms (hour minute second : Int) : Int × Int × Int :=
  let sm : Int × Int := if second > 59 then (second - 60, minute + 1) else (second, minute)
  let mh : Int × Int := if sm.2 > 59 then (sm.2 - 60, hour + 1) else (sm.2, hour)
  (mh.2, mh.1, sm.1)

def finishJD (y m d : Int) (hms : Int × Int × Int) : Option Solar :=
  if hms.1 > 23 then
    match newSolar y m d (hms.1 - 24) hms.2.1 hms.2.2 with
    | none => none
    | some s => s.nextDay 1
  else newSolar y m d hms.1 hms.2.1 hms.2.2

def fracHour (f : Int) : Int := f * 24 / 4294967296
def fracF2 (f : Int) : Int := (f * 24 - fracHour f * 4294967296) * 60
def fracMinute (f : Int) : Int := fracF2 f / 4294967296
def fracF3 (f : Int) : Int := (fracF2 f - fracMinute f * 4294967296) * 60
def fracSecond (f : Int) : Int := (2 * fracF3 f + 4294967296) / (2 * 4294967296)

theorem fromJD_eq (n : Int) :
    fromJD n =
      finishJD (fromJdn ((n + 2147483648) / 4294967296)).1 (fromJdn ((n + 2147483648) / 4294967296)).2.1
        (fromJdn ((n + 2147483648) / 4294967296)).2.2
        (carryHms (fracHour ((n + 2147483648) % 4294967296)) (fracMinute ((n + 2147483648) % 4294967296))
          (fracSecond ((n + 2147483648) % 4294967296))) := by
  rfl

theorem frac_spec (f : Int) (h0 : 0 ≤ f) (h1 : f < 4294967296) :
    0 ≤ fracHour f ∧ fracHour f ≤ 23 ∧ 0 ≤ fracMinute f ∧ fracMinute f ≤ 59 ∧
    0 ≤ fracSecond f ∧ fracSecond f ≤ 60 ∧
    -4294967296 < 2 * ((fracHour f * 3600 + fracMinute f * 60 + fracSecond f) * 4294967296 - f * 86400) ∧
    2 * ((fracHour f * 3600 + fracMinute f * 60 + fracSecond f) * 4294967296 - f * 86400) ≤ 4294967296 := by
  unfold fracSecond fracF3 fracMinute fracF2 fracHour
  omega

theorem carry_spec (H M S : Int) (h1 : 0 ≤ H) (h2 : H ≤ 23) (h3 : 0 ≤ M) (h4 : M ≤ 59) (h5 : 0 ≤ S) (h6 : S ≤ 60) :
    0 ≤ (carryHms H M S).1 ∧ (carryHms H M S).1 ≤ 24 ∧ 0 ≤ (carryHms H M S).2.1 ∧ (carryHms H M S).2.1 ≤ 59 ∧
    0 ≤ (carryHms H M S).2.2 ∧ (carryHms H M S).2.2 ≤ 59 ∧
    ((carryHms H M S).1 = 24 → (carryHms H M S).2.1 = 0 ∧ (carryHms H M S).2.2 = 0) ∧
    (carryHms H M S).1 * 3600 + (carryHms H M S).2.1 * 60 + (carryHms H M S).2.2 = H * 3600 + M * 60 + S := by
  unfold carryHms
  by_cases c1 : S > 59
  · simp only [c1, if_true]
    by_cases c2 : M + 1 > 59
    · simp only [c2, if_true]
      refine ⟨?_, ?_, ?_, ?_, ?_, ?_, ?_, ?_⟩ <;> first | omega | trivial
    · simp only [c2, if_false]
      refine ⟨?_, ?_, ?_, ?_, ?_, ?_, ?_, ?_⟩ <;> first | omega | trivial
  · simp only [c1, if_false]
    have c2 : ¬ M > 59 := by omega
    simp only [c2, if_false]
    refine ⟨?_, ?_, ?_, ?_, ?_, ?_, ?_, ?_⟩ <;> first | omega | trivial

theorem validHms_iff (h mi s : Int) :
    validHms h mi s = true ↔ (0 ≤ h ∧ h ≤ 23 ∧ 0 ≤ mi ∧ mi ≤ 59 ∧ 0 ≤ s ∧ s ≤ 59) := by
  unfold validHms
  simp only [Bool.and_eq_true, decide_eq_true_eq, and_assoc]

theorem newSolar_some (y m d h mi s : Int) (hv : validYmd y m d = true) (hh : validHms h mi s = true) :
    newSolar y m d h mi s = some ⟨y, m, d, h, mi, s⟩ ∧ (Solar.mk y m d h mi s).valid = true := by
  unfold newSolar Solar.valid
  simp only [hv, hh, Bool.and_self, if_true, and_self]

theorem finish_spec (y m d H M S : Int) (hv : validYmd y m d = true)
    (h1 : 0 ≤ H) (h2 : H ≤ 24) (h3 : 0 ≤ M) (h4 : M ≤ 59) (h5 : 0 ≤ S) (h6 : S ≤ 59)
    (h7 : H = 24 → M = 0 ∧ S = 0) :
    ∃ r, finishJD y m d (H, M, S) = some r ∧ r.valid = true ∧
      r.stamp = jdn y m d * 86400 + (H * 3600 + M * 60 + S) := by
  unfold finishJD
  simp only
  by_cases c : H > 23
  · simp only [c, if_true]
    have hH : H = 24 := by omega
    obtain ⟨hM, hS⟩ := h7 hH
    subst hH hM hS
    obtain ⟨e, hv0⟩ := newSolar_some y m d (24 - 24) 0 0 hv (by decide)
    rw [e]
    simp only
    obtain ⟨r, er, hrv, hj, a1, a2, a3⟩ := nextDay_spec_strong _ 1 hv0
    refine ⟨r, er, hrv, ?_⟩
    unfold Solar.stamp Solar.secOfDay
    rw [hj, a1, a2, a3]
    simp only [Solar.jdn]
    omega
  · simp only [c, if_false]
    obtain ⟨e, hv0⟩ := newSolar_some y m d H M S hv ((validHms_iff _ _ _).2 (by omega))
    exact ⟨_, e, hv0, rfl⟩

theorem jdn_fromJdn' (n : Int) (h : 1721423 ≤ n) :
    validYmd (fromJdn n).1 (fromJdn n).2.1 (fromJdn n).2.2 = true ∧
    jdn (fromJdn n).1 (fromJdn n).2.1 (fromJdn n).2.2 = n := by
  by_cases c : n = 1721423
  · subst c; decide
  · have := jdn_fromJdn n (by omega)
    exact ⟨this.1, this.2.2⟩

/-- core of both `fromJD` theorems; also covers the last half day before 0001-01-01 -/
theorem fromJD_core (n : Int) (h : 1721423 * 4294967296 - 2147483648 ≤ n) :
    ∃ r, fromJD n = some r ∧ r.valid = true ∧
      -4294967296 ≤ 2 * (r.jdNum * 4294967296 - n * 86400) ∧
      2 * (r.jdNum * 4294967296 - n * 86400) ≤ 4294967296 := by
  rw [fromJD_eq]
  have hd : 1721423 ≤ (n + 2147483648) / 4294967296 := by omega
  have hf0 : 0 ≤ (n + 2147483648) % 4294967296 := by omega
  have hf1 : (n + 2147483648) % 4294967296 < 4294967296 := by omega
  have hn : n = (n + 2147483648) / 4294967296 * 4294967296 + (n + 2147483648) % 4294967296 - 2147483648 := by omega
  generalize (n + 2147483648) / 4294967296 = d at *
  generalize (n + 2147483648) % 4294967296 = f at *
  obtain ⟨hv, hj⟩ := jdn_fromJdn' d hd
  obtain ⟨f1, f2, f3, f4, f5, f6, f7, f8⟩ := frac_spec f hf0 hf1
  obtain ⟨c1, c2, c3, c4, c5, c6, c7, c8⟩ := carry_spec _ _ _ f1 f2 f3 f4 f5 f6
  obtain ⟨r, er, hrv, hst⟩ := finish_spec _ _ _ _ _ _ hv c1 c2 c3 c4 c5 c6 c7
  refine ⟨r, er, hrv, ?_⟩
  have hjd : r.jdNum = r.stamp - 43200 := by unfold Solar.jdNum Solar.stamp; omega
  rw [hjd, hst, hj, c8, hn]
  generalize fracHour f * 3600 + fracMinute f * 60 + fracSecond f = tot at *
  omega

/-- every instant given as a Julian Day (exact value n/2^32 with n ≥ 1721424·2^32 − 2^31, i.e. from 0001-01-01 00:00 on) converts to a valid
    date-time whose exact Julian Day is within half a second of the input -/
theorem fromJD_total (n : Int) (h : 1721424 * 4294967296 - 2147483648 ≤ n) :
    ∃ r, fromJD n = some r ∧ r.valid = true ∧
      (r.jdNum * 4294967296 - n * 86400).natAbs * 2 ≤ 4294967296 := by
  obtain ⟨r, e, hv, h1, h2⟩ := fromJD_core n (by omega)
  exact ⟨r, e, hv, by omega⟩

theorem hms_unique (s t : Solar) (hs : s.valid = true) (ht : t.valid = true) (h : s.secOfDay = t.secOfDay) :
    s.hour = t.hour ∧ s.minute = t.minute ∧ s.second = t.second := by
  have b1 := hms_bounds s hs
  have b2 := hms_bounds t ht
  unfold Solar.secOfDay at h
  omega

/-- a date-time converts to its Julian Day and back without change, for any representation error up to 2^-27 day -/
theorem fromJD_near (s : Solar) (hv : s.valid = true) (hy : 1 ≤ s.year) (n : Int)
    (hn : (n * 86400 - s.jdNum * 4294967296).natAbs ≤ 86400 * 32) : fromJD n = some s := by
  have hl := jdn_lower s.year s.month s.day hy (valid_parts s hv).1
  have bs := hms_bounds s hv
  have hjs : s.jdNum = s.jdn * 86400 - 43200 + s.secOfDay := rfl
  have hsec : 0 ≤ s.secOfDay ∧ s.secOfDay ≤ 86399 := by unfold Solar.secOfDay; omega
  have hl' : 1721424 ≤ s.jdn := hl
  obtain ⟨r, e, hrv, h1, h2⟩ := fromJD_core n (by omega)
  have br := hms_bounds r hrv
  have hjr : r.jdNum = r.jdn * 86400 - 43200 + r.secOfDay := rfl
  have hsecr : 0 ≤ r.secOfDay ∧ r.secOfDay ≤ 86399 := by unfold Solar.secOfDay; omega
  have heq : r.jdNum = s.jdNum := by omega
  have hj : r.jdn = s.jdn := by omega
  have hs : r.secOfDay = s.secOfDay := by omega
  obtain ⟨a1, a2, a3⟩ := hms_unique r s hrv hv hs
  rw [e]
  congr 1
  exact solar_eq_of_jdn r s hrv hv hj a1 a2 a3


/-! ## hour / month / year stepping -/

def hourDays (h : Int) : Int × Int :=
  let n : Int := if h < 0 then -1 else 1
  let a : Int := if h < 0 then -h else h
  let days := a / 24 * n
  let hour := (a % 24) * n
  if hour < 0 then (hour + 24, days - 1) else (hour, days)

theorem nextHour_eq (s : Solar) (hours : Int) :
    s.nextHour hours =
      match s.nextDay (hourDays (s.hour + hours)).2 with
      | none => none
      | some o => newSolar o.year o.month o.day (hourDays (s.hour + hours)).1 o.minute o.second := by
  rfl

theorem hourDays_spec (h : Int) :
    0 ≤ (hourDays h).1 ∧ (hourDays h).1 ≤ 23 ∧ (hourDays h).2 * 24 + (hourDays h).1 = h := by
  unfold hourDays
  by_cases c : h < 0
  · simp only [c, if_true]
    split <;> (simp only; omega)
  · simp only [c, if_false]
    split <;> (simp only; omega)

/-- hour stepping = stepping the total hour count: result is valid and its stamp moved by exactly 3600·hours seconds -/
theorem nextHour_spec (s : Solar) (hours : Int) (hv : s.valid = true) (hy : 1 ≤ s.year) :
    ∃ r, s.nextHour hours = some r ∧ r.valid = true ∧ r.stamp = s.stamp + 3600 * hours := by
  rw [nextHour_eq]
  obtain ⟨k1, k2, k3⟩ := hourDays_spec (s.hour + hours)
  obtain ⟨o, eo, hov, hj, a1, a2, a3⟩ := nextDay_spec_strong s (hourDays (s.hour + hours)).2 hv
  rw [eo]
  simp only
  have bo := hms_bounds o hov
  obtain ⟨e, hv0⟩ := newSolar_some o.year o.month o.day (hourDays (s.hour + hours)).1 o.minute o.second
    (valid_parts o hov).1 ((validHms_iff _ _ _).2 (by omega))
  refine ⟨_, e, hv0, ?_⟩
  unfold Solar.stamp Solar.secOfDay
  simp only [Solar.jdn] at hj ⊢
  rw [hj, a2, a3]
  omega


theorem nextYm_spec (y m n : Int) (h1 : 1 ≤ m) (h2 : m ≤ 12) :
    1 ≤ (nextYm y m n).2 ∧ (nextYm y m n).2 ≤ 12 ∧
    (nextYm y m n).1 * 12 + ((nextYm y m n).2 - 1) = y * 12 + (m - 1) + n := by
  unfold nextYm
  by_cases c : n < 0
  · simp only [c, if_true]
    repeat' split
    all_goals (simp only; omega)
  · simp only [c, if_false]
    repeat' split
    all_goals (simp only; omega)

theorem nextMonth_eq (s : Solar) (n : Int) :
    s.nextMonth n =
      newSolar (nextYm s.year s.month n).1 (nextYm s.year s.month n).2
        (if (nextYm s.year s.month n).1 = 1582 ∧ (nextYm s.year s.month n).2 = 10 then
            (if s.day > 4 ∧ s.day < 15 then s.day + 10 else s.day)
         else (if s.day > daysOfMonth (nextYm s.year s.month n).1 (nextYm s.year s.month n).2 then
            daysOfMonth (nextYm s.year s.month n).1 (nextYm s.year s.month n).2 else s.day))
        s.hour s.minute s.second := by
  rfl

/-- month / year stepping lands in the target month, on the same day clamped into that month (or moved past the 1582 gap) -/
theorem nextMonth_spec (s : Solar) (n : Int) (hv : s.valid = true) :
    ∃ r, s.nextMonth n = some r ∧ r.valid = true ∧
      r.year * 12 + (r.month - 1) = s.year * 12 + (s.month - 1) + n ∧
      r.hour = s.hour ∧ r.minute = s.minute ∧ r.second = s.second ∧
      (r.day = s.day ∨ (r.day = daysOfMonth r.year r.month ∧ r.day < s.day) ∨ (r.year = 1582 ∧ r.month = 10 ∧ r.day = s.day + 10)) := by
  obtain ⟨hymd, hhms⟩ := valid_parts s hv
  obtain ⟨hm1, hm, hd1, hd, hx⟩ := (validYmd_iff_step _ _ _).1 hymd
  obtain ⟨k1, k2, k3⟩ := nextYm_spec s.year s.month n hm1 hm
  rw [nextMonth_eq]
  generalize (nextYm s.year s.month n).1 = y at *
  generalize (nextYm s.year s.month n).2 = m at *
  have hb := daysOfMonth_bounds y m k1 k2
  by_cases hO : y = 1582 ∧ m = 10
  · simp only [hO, and_self, if_true]
    obtain ⟨rfl, rfl⟩ := hO
    by_cases hg : s.day > 4 ∧ s.day < 15
    · simp only [hg, and_self, if_true]
      obtain ⟨e, hv0⟩ := newSolar_some 1582 10 (s.day + 10) s.hour s.minute s.second
        ((validYmd_iff_step _ _ _).2 ⟨by omega, by omega, by omega, by omega, by simp only [and_self, if_true]; omega⟩) hhms
      exact ⟨_, e, hv0, k3, rfl, rfl, rfl, Or.inr (Or.inr ⟨rfl, rfl, rfl⟩)⟩
    · simp only [hg, if_false]
      obtain ⟨e, hv0⟩ := newSolar_some 1582 10 s.day s.hour s.minute s.second
        ((validYmd_iff_step _ _ _).2 ⟨by omega, by omega, by omega, by omega, by simp only [and_self, if_true]; omega⟩) hhms
      exact ⟨_, e, hv0, k3, rfl, rfl, rfl, Or.inl rfl⟩
  · simp only [hO, if_false]
    by_cases hg : s.day > daysOfMonth y m
    · simp only [hg, if_true]
      obtain ⟨e, hv0⟩ := newSolar_some y m (daysOfMonth y m) s.hour s.minute s.second
        ((validYmd_iff_step _ _ _).2 ⟨k1, k2, by omega, by omega, by simp only [hO, if_false]; omega⟩) hhms
      exact ⟨_, e, hv0, k3, rfl, rfl, rfl, Or.inr (Or.inl ⟨rfl, hg⟩)⟩
    · simp only [hg, if_false]
      obtain ⟨e, hv0⟩ := newSolar_some y m s.day s.hour s.minute s.second
        ((validYmd_iff_step _ _ _).2 ⟨k1, k2, by omega, by omega, by simp only [hO, if_false]; omega⟩) hhms
      exact ⟨_, e, hv0, k3, rfl, rfl, rfl, Or.inl rfl⟩

theorem daysOfMonth_other (y y' m : Int) (hm1 : 1 ≤ m) (hm : m ≤ 12) (h2 : m ≠ 2)
    (h : ¬ (y' = 1582 ∧ m = 10)) : daysOfMonth y m ≤ daysOfMonth y' m := by
  unfold daysOfMonth
  have c2 : ∀ z, ¬ (m = 2 ∧ isLeapYear z = true) := fun z hh => h2 hh.1
  simp only [h, c2, if_false]
  split
  · unfold baseDaysOfMonth
    have : m = 10 := by omega
    subst this; simp
  · omega

theorem daysOfMonth_feb (y : Int) : daysOfMonth y 2 = if isLeapYear y = true then 29 else 28 := by
  unfold daysOfMonth baseDaysOfMonth
  have : ¬ (y = 1582 ∧ (2:Int) = 10) := by omega
  simp only [this, if_false]
  by_cases hl : isLeapYear y = true
  · simp [hl]
  · simp [hl]

theorem nextYear_spec (s : Solar) (n : Int) (hv : s.valid = true) :
    ∃ r, s.nextYear n = some r ∧ r.valid = true ∧ r.year = s.year + n ∧ r.month = s.month ∧
      r.hour = s.hour ∧ r.minute = s.minute ∧ r.second = s.second ∧
      (r.day = s.day ∨ (r.month = 2 ∧ r.day = 28 ∧ s.day = 29) ∨ (r.year = 1582 ∧ r.month = 10 ∧ r.day = s.day + 10)) := by
  obtain ⟨hymd, hhms⟩ := valid_parts s hv
  obtain ⟨hm1, hm, hd1, hd, hx⟩ := (validYmd_iff_step _ _ _).1 hymd
  unfold Solar.nextYear
  obtain ⟨y0, m, d, hh, mi, se⟩ := s
  simp only at hymd hhms hm1 hm hd1 hd hx ⊢
  generalize hy : y0 + n = y
  by_cases hO : y = 1582 ∧ m = 10
  · simp only [hO, and_self, if_true]
    obtain ⟨rfl, rfl⟩ := hO
    by_cases hg : d > 4 ∧ d < 15
    · simp only [hg, and_self, if_true]
      obtain ⟨e, hv0⟩ := newSolar_some 1582 10 (d + 10) hh mi se
        ((validYmd_iff_step _ _ _).2 ⟨by omega, by omega, by omega, by omega, by simp only [and_self, if_true]; omega⟩) hhms
      exact ⟨_, e, hv0, rfl, rfl, rfl, rfl, rfl, Or.inr (Or.inr ⟨rfl, rfl, rfl⟩)⟩
    · simp only [hg, if_false]
      obtain ⟨e, hv0⟩ := newSolar_some 1582 10 d hh mi se
        ((validYmd_iff_step _ _ _).2 ⟨by omega, by omega, by omega, by omega, by simp only [and_self, if_true]; omega⟩) hhms
      exact ⟨_, e, hv0, rfl, rfl, rfl, rfl, rfl, Or.inl rfl⟩
  · simp only [hO, if_false]
    by_cases h2 : m = 2
    · subst h2
      simp only [if_true]
      have hO' : ¬ (y0 = 1582 ∧ (2:Int) = 10) := by omega
      simp only [hO', if_false] at hx
      rw [daysOfMonth_feb] at hx
      have hd29 : d ≤ 29 := by split at hx <;> omega
      have hvy : ∀ e : Int, 1 ≤ e → e ≤ daysOfMonth y 2 → validYmd y 2 e = true := by
        intro e he1 he2
        have := daysOfMonth_bounds y 2 (by omega) (by omega)
        exact (validYmd_iff_step _ _ _).2 ⟨by omega, by omega, he1, by omega, by simp only [hO, if_false]; exact he2⟩
      rw [daysOfMonth_feb] at hvy
      by_cases hl : isLeapYear y = true
      · have hc : ¬ (d > 28 ∧ (!isLeapYear y) = true) := by simp [hl]
        simp only [hc, if_false]
        simp only [hl, if_true] at hvy
        obtain ⟨e, hv0⟩ := newSolar_some y 2 d hh mi se (hvy d hd1 hd29) hhms
        exact ⟨_, e, hv0, rfl, rfl, rfl, rfl, rfl, Or.inl rfl⟩
      · have hl' : (!isLeapYear y) = true := by simp [hl]
        simp only [hl] at hvy
        by_cases hg : d > 28
        · have hc : (d > 28 ∧ (!isLeapYear y) = true) := ⟨hg, hl'⟩
          simp only [hc, and_self, if_true]
          obtain ⟨e, hv0⟩ := newSolar_some y 2 28 hh mi se (hvy 28 (by omega) (by omega)) hhms
          exact ⟨_, e, hv0, rfl, rfl, rfl, rfl, rfl, Or.inr (Or.inl ⟨rfl, rfl, by omega⟩)⟩
        · have hc : ¬ (d > 28 ∧ (!isLeapYear y) = true) := fun h => hg h.1
          simp only [hc, if_false]
          obtain ⟨e, hv0⟩ := newSolar_some y 2 d hh mi se (hvy d hd1 (by omega)) hhms
          exact ⟨_, e, hv0, rfl, rfl, rfl, rfl, rfl, Or.inl rfl⟩
    · simp only [h2, if_false]
      have hle : d ≤ daysOfMonth y m := by
        by_cases hO' : y0 = 1582 ∧ m = 10
        · have hy' : ¬ y = 1582 := fun h => hO ⟨h, hO'.2⟩
          unfold daysOfMonth baseDaysOfMonth
          simp [hO'.2, hy']
          omega
        · simp only [hO', if_false] at hx
          have := daysOfMonth_other y0 y m hm1 hm h2 hO
          omega
      obtain ⟨e, hv0⟩ := newSolar_some y m d hh mi se
        ((validYmd_iff_step _ _ _).2 ⟨by omega, by omega, by omega, by omega, by simp only [hO, if_false]; exact hle⟩) hhms
      exact ⟨_, e, hv0, rfl, rfl, rfl, rfl, rfl, Or.inl rfl⟩

end Model

#print axioms Model.daysBetween_eq
#print axioms Model.subtract_eq
#print axioms Model.subtractMinute_eq
#print axioms Model.isBefore_iff
#print axioms Model.isAfter_iff
#print axioms Model.jdn_lt_iff_lex
#print axioms Model.nextDay_neg
#print axioms Model.nextDay_add
#print axioms Model.nextHour_spec
#print axioms Model.nextMonth_spec
#print axioms Model.nextYear_spec
#print axioms Model.fromJD_total
#print axioms Model.fromJD_near
