import Proofs.CivilJdn
import Proofs.CivilStep
set_option linter.unusedVariables false
namespace Model

/-! ## day differences -/

theorem daysInYearLoop_eq (k : Nat) : ∀ (y i : Int), 1 ≤ i → i + (k : Int) ≤ 12 →
    daysInYearLoop k y i = jdn y (i + k) 1 - jdn y i 1 := by
  induction k with
  | zero => intro y i h1 h2; simp [daysInYearLoop]
  | succ k ih =>
    intro y i h1 h2
    simp only [daysInYearLoop]
    rw [ih y (i + 1) (by omega) (by omega)]
    have := jdn_month_succ_all y i h1 (by omega)
    rw [show i + ((k + 1 : Nat) : Int) = i + 1 + (k : Int) by omega]
    omega

theorem daysInYear_eq (y m d : Int) (hv : validYmd y m d = true) :
    daysInYear y m d = some (jdn y m d - jdn y 1 1 + 1) := by
  obtain ⟨hj, hc1, hc2⟩ := jdn_comp y m d hv
  obtain ⟨hm1, hm, hd1, hd, hx⟩ := (validYmd_iff_step y m d).1 hv
  have hl := daysInYearLoop_eq (m - 1).toNat y 1 (by omega) (by omega)
  rw [show (1 : Int) + ((m - 1).toNat : Int) = m by omega] at hl
  unfold daysInYear
  simp only [hl]
  rw [hj]
  unfold lin comp
  by_cases hO : y = 1582 ∧ m = 10
  · simp only [hO, and_self, if_true, true_and] at hx ⊢
    by_cases h15 : d ≥ 15
    · have : d > 4 := by omega
      simp only [h15, this, if_true]
      congr 1; omega
    · have : ¬ d > 4 := by omega
      simp only [h15, this, if_false]
      congr 1; omega
  · have hc : ¬ (y = 1582 ∧ m = 10 ∧ d > 4) := fun h => hO ⟨h.1, h.2.1⟩
    simp only [hO, hc, if_false]
    congr 1; omega

theorem yearsLoop_eq (k : Nat) : ∀ (a : Int), yearsLoop k a = jdn (a + k) 1 1 - jdn a 1 1 := by
  induction k with
  | zero => intro a; simp [yearsLoop]
  | succ k ih =>
    intro a
    simp only [yearsLoop]
    rw [ih (a + 1)]
    have := jdn_year_len_all a
    rw [show a + ((k + 1 : Nat) : Int) = a + 1 + (k : Int) by omega]
    omega

/-- day difference = difference of day numbers (the Go code sums year lengths in a loop) -/
theorem daysBetween_eq (ay am ad by_ bm bd : Int) (ha : validYmd ay am ad = true) (hb : validYmd by_ bm bd = true)
    (hya : 1 ≤ ay) (hyb : 1 ≤ by_) :
    daysBetween ay am ad by_ bm bd = some (jdn by_ bm bd - jdn ay am ad) := by
  unfold daysBetween
  rw [daysInYear_eq ay am ad ha, daysInYear_eq by_ bm bd hb]
  simp only
  by_cases he : ay = by_
  · subst he
    simp only [if_true]
    congr 1; omega
  · simp only [he, if_false]
    by_cases hgt : ay > by_
    · simp only [hgt, if_true]
      rw [yearsLoop_eq]
      have := jdn_year_len_all by_
      rw [show by_ + 1 + ((ay - by_ - 1).toNat : Int) = ay by omega]
      congr 1; omega
    · simp only [hgt, if_false]
      rw [yearsLoop_eq]
      have := jdn_year_len_all ay
      rw [show ay + 1 + ((by_ - ay - 1).toNat : Int) = by_ by omega]
      congr 1; omega

theorem valid_parts (s : Solar) (hs : s.valid = true) :
    validYmd s.year s.month s.day = true ∧ validHms s.hour s.minute s.second = true := by
  unfold Solar.valid at hs
  rw [Bool.and_eq_true] at hs
  exact hs

theorem subtract_eq (s o : Solar) (hs : s.valid = true) (ho : o.valid = true) (hys : 1 ≤ s.year) (hyo : 1 ≤ o.year) :
    s.subtract o = some (s.jdn - o.jdn) := by
  unfold Solar.subtract Solar.jdn
  exact daysBetween_eq _ _ _ _ _ _ (valid_parts o ho).1 (valid_parts s hs).1 hyo hys

/-- minute difference = difference of (day number · 1440 + minute of day) -/
theorem subtractMinute_eq (s o : Solar) (hs : s.valid = true) (ho : o.valid = true) (hys : 1 ≤ s.year) (hyo : 1 ≤ o.year) :
    s.subtractMinute o = some ((s.jdn * 1440 + s.hour * 60 + s.minute) - (o.jdn * 1440 + o.hour * 60 + o.minute)) := by
  unfold Solar.subtractMinute
  rw [subtract_eq s o hs ho hys hyo]
  simp only
  split <;> (congr 1; omega)

/-! ## order -/

theorem monthStart_mono (k : Nat) : ∀ (y m : Int), 1 ≤ m → m + (k : Int) ≤ 12 →
    jdn y m 1 + 21 * (k : Int) ≤ jdn y (m + k) 1 := by
  induction k with
  | zero => intro y m h1 h2; simp
  | succ k ih =>
    intro y m h1 h2
    have h := ih y (m + 1) (by omega) (by omega)
    have hs := jdn_month_succ_all y m h1 (by omega)
    have hb := daysOfMonth_bounds y m h1 (by omega)
    rw [show m + ((k + 1 : Nat) : Int) = m + 1 + (k : Int) by omega]
    omega

theorem monthStart_le (y m m' : Int) (h1 : 1 ≤ m) (h2 : m ≤ m') (h3 : m' ≤ 12) :
    jdn y m 1 ≤ jdn y m' 1 := by
  have h := monthStart_mono (m' - m).toNat y m h1 (by omega)
  rw [show m + ((m' - m).toNat : Int) = m' by omega] at h
  omega

theorem yearStart_mono (k : Nat) : ∀ (y : Int), jdn y 1 1 + 355 * (k : Int) ≤ jdn (y + k) 1 1 := by
  induction k with
  | zero => intro y; simp
  | succ k ih =>
    intro y
    have h := ih (y + 1)
    have hs := jdn_year_len_all y
    have hb : 355 ≤ daysOfYear y := by unfold daysOfYear; repeat' split <;> omega
    rw [show y + ((k + 1 : Nat) : Int) = y + 1 + (k : Int) by omega]
    omega

theorem yearStart_le (y y' : Int) (h : y ≤ y') : jdn y 1 1 ≤ jdn y' 1 1 := by
  have h := yearStart_mono (y' - y).toNat y
  rw [show y + ((y' - y).toNat : Int) = y' by omega] at h
  omega

/-- a valid date lies between the start of its month and the start of the next one -/
theorem jdn_in_month (y m d : Int) (hv : validYmd y m d = true) :
    jdn y m 1 ≤ jdn y m d ∧ jdn y m d < jdn y m 1 + daysOfMonth y m := by
  obtain ⟨hj, hc1, hc2⟩ := jdn_comp y m d hv
  rw [hj]; unfold lin; omega

theorem monthEnd_le_yearEnd (y m : Int) (h1 : 1 ≤ m) (h2 : m ≤ 12) :
    jdn y m 1 + daysOfMonth y m ≤ jdn (y + 1) 1 1 := by
  have hy := jdn_year_succ_all y
  by_cases h : m = 12
  · subst h; omega
  · have hs := jdn_month_succ_all y m h1 (by omega)
    have := monthStart_le y (m + 1) 12 (by omega) (by omega) (by omega)
    have hb := daysOfMonth_bounds y 12 (by omega) (by omega)
    omega

theorem comp_lt (y m d d' : Int) (hv : validYmd y m d = true) (hv' : validYmd y m d' = true)
    (h : d < d') : comp y m d < comp y m d' := by
  obtain ⟨_, _, _, _, hx⟩ := (validYmd_iff_step y m d).1 hv
  obtain ⟨_, _, _, _, hx'⟩ := (validYmd_iff_step y m d').1 hv'
  unfold comp
  by_cases hO : y = 1582 ∧ m = 10
  · obtain ⟨rfl, rfl⟩ := hO
    simp only [and_self, if_true, true_and] at hx hx' ⊢
    repeat' split
    all_goals omega
  · have hc : ¬ (y = 1582 ∧ m = 10 ∧ d > 4) := fun h => hO ⟨h.1, h.2.1⟩
    have hc' : ¬ (y = 1582 ∧ m = 10 ∧ d' > 4) := fun h => hO ⟨h.1, h.2.1⟩
    simp only [hc, hc', if_false]; exact h

theorem lex_jdn_lt (y m d y' m' d' : Int) (hv : validYmd y m d = true) (hv' : validYmd y' m' d' = true)
    (h : y < y' ∨ (y = y' ∧ (m < m' ∨ (m = m' ∧ d < d')))) : jdn y m d < jdn y' m' d' := by
  obtain ⟨a1, a2⟩ := jdn_in_month y m d hv
  obtain ⟨b1, b2⟩ := jdn_in_month y' m' d' hv'
  obtain ⟨hm1, hm, _, _, _⟩ := (validYmd_iff_step y m d).1 hv
  obtain ⟨hm1', hm', _, _, _⟩ := (validYmd_iff_step y' m' d').1 hv'
  rcases h with h | ⟨rfl, h | ⟨rfl, h⟩⟩
  · have e1 := monthEnd_le_yearEnd y m hm1 hm
    have e2 := yearStart_le (y + 1) y' (by omega)
    have e3 := monthStart_le y' 1 m' (by omega) hm1' hm'
    omega
  · have hs := jdn_month_succ_all y m hm1 (by omega)
    have e3 := monthStart_le y (m + 1) m' (by omega) (by omega) hm'
    omega
  · obtain ⟨hj, _, _⟩ := jdn_comp y m d hv
    obtain ⟨hj', _, _⟩ := jdn_comp y m d' hv'
    have := comp_lt y m d d' hv hv' h
    rw [hj, hj']; unfold lin; omega

/-- the lexicographic (year, month, day) order is the day-number order -/
theorem jdn_lt_iff_lex (y m d y' m' d' : Int) (hv : validYmd y m d = true) (hv' : validYmd y' m' d' = true)
    (hy : 1 ≤ y) (hy' : 1 ≤ y') :
    jdn y m d < jdn y' m' d' ↔ (y < y' ∨ (y = y' ∧ (m < m' ∨ (m = m' ∧ d < d')))) := by
  constructor
  · intro hlt
    by_cases h : (y < y' ∨ (y = y' ∧ (m < m' ∨ (m = m' ∧ d < d'))))
    · exact h
    · by_cases h' : (y' < y ∨ (y' = y ∧ (m' < m ∨ (m' = m ∧ d' < d))))
      · have := lex_jdn_lt _ _ _ _ _ _ hv' hv h'
        omega
      · have e1 : y = y' := by omega
        have e2 : m = m' := by omega
        have e3 : d = d' := by omega
        subst e1 e2 e3
        omega
  · exact lex_jdn_lt _ _ _ _ _ _ hv hv'

theorem hms_bounds (s : Solar) (hs : s.valid = true) :
    0 ≤ s.hour ∧ s.hour ≤ 23 ∧ 0 ≤ s.minute ∧ s.minute ≤ 59 ∧ 0 ≤ s.second ∧ s.second ≤ 59 := by
  have h := (valid_parts s hs).2
  unfold validHms at h
  simp only [Bool.and_eq_true, decide_eq_true_eq] at h
  omega

theorem lexLt_cons (a b : Int) (r : List (Int × Int)) :
    lexLt ((a, b) :: r) = true ↔ (a < b ∨ (a = b ∧ lexLt r = true)) := by
  simp only [lexLt]
  by_cases h1 : a > b
  · simp only [h1, if_true]; constructor
    · intro h; cases h
    · omega
  · by_cases h2 : a < b
    · simp only [h1, h2, if_true, if_false, true_or]
    · have : a = b := by omega
      subst this
      simp [Int.lt_irrefl]

theorem lexLt_nil : lexLt [] = true ↔ False := by simp [lexLt]

theorem lexLt6_aux (a b c d e f a' b' c' d' e' f' J J' : Int)
    (h1 : J < J' ↔ (a < a' ∨ (a = a' ∧ (b < b' ∨ (b = b' ∧ c < c')))))
    (h2 : J' < J ↔ (a' < a ∨ (a' = a ∧ (b' < b ∨ (b' = b ∧ c' < c)))))
    (b1 : 0 ≤ d ∧ d ≤ 23 ∧ 0 ≤ e ∧ e ≤ 59 ∧ 0 ≤ f ∧ f ≤ 59)
    (b2 : 0 ≤ d' ∧ d' ≤ 23 ∧ 0 ≤ e' ∧ e' ≤ 59 ∧ 0 ≤ f' ∧ f' ≤ 59) :
    lexLt [(a,a'),(b,b'),(c,c'),(d,d'),(e,e'),(f,f')] = true ↔
      J * 86400 + (d*3600+e*60+f) < J' * 86400 + (d'*3600+e'*60+f') := by
  simp only [lexLt_cons, lexLt_nil]
  have t : J < J' ∨ J = J' ∨ J' < J := by omega
  rcases t with t | t | t
  · have := h1.1 t; omega
  · have n1 : ¬ (a < a' ∨ (a = a' ∧ (b < b' ∨ (b = b' ∧ c < c')))) := fun h => by have := h1.2 h; omega
    have n2 : ¬ (a' < a ∨ (a' = a ∧ (b' < b ∨ (b' = b ∧ c' < c)))) := fun h => by have := h2.2 h; omega
    have e1 : a = a' := by omega
    have e2 : b = b' := by omega
    have e3 : c = c' := by omega
    subst e1 e2 e3 t
    clear h1 h2 n1 n2
    simp only [Int.lt_irrefl, false_or, true_and, and_false, or_false]
    constructor
    · intro h; omega
    · intro h; omega
  · have := h2.1 t; omega

theorem lexLt6_iff (s o : Solar) (hs : s.valid = true) (ho : o.valid = true) (hys : 1 ≤ s.year) (hyo : 1 ≤ o.year) :
    lexLt [(s.year, o.year), (s.month, o.month), (s.day, o.day), (s.hour, o.hour),
         (s.minute, o.minute), (s.second, o.second)] = true ↔ s.stamp < o.stamp := by
  have h1 := jdn_lt_iff_lex _ _ _ _ _ _ (valid_parts s hs).1 (valid_parts o ho).1 hys hyo
  have h2 := jdn_lt_iff_lex _ _ _ _ _ _ (valid_parts o ho).1 (valid_parts s hs).1 hyo hys
  exact lexLt6_aux _ _ _ _ _ _ _ _ _ _ _ _ _ _ h1 h2 (hms_bounds s hs) (hms_bounds o ho)

/-- before/after comparisons agree with the continuous time stamp -/
theorem isBefore_iff (s o : Solar) (hs : s.valid = true) (ho : o.valid = true) (hys : 1 ≤ s.year) (hyo : 1 ≤ o.year) :
    s.isBefore o = true ↔ s.stamp < o.stamp := by
  unfold Solar.isBefore
  exact lexLt6_iff s o hs ho hys hyo

theorem isAfter_iff (s o : Solar) (hs : s.valid = true) (ho : o.valid = true) (hys : 1 ≤ s.year) (hyo : 1 ≤ o.year) :
    s.isAfter o = true ↔ o.stamp < s.stamp := by
  unfold Solar.isAfter
  exact lexLt6_iff o s ho hs hyo hys

/-! ## stepping days -/

/-- in the model the day number is injective on all valid dates (no year bound needed) -/
theorem jdn_inj_all (y m d y' m' d' : Int) (hv : validYmd y m d = true) (hv' : validYmd y' m' d' = true)
    (h : jdn y m d = jdn y' m' d') : y = y' ∧ m = m' ∧ d = d' := by
  by_cases h1 : (y < y' ∨ (y = y' ∧ (m < m' ∨ (m = m' ∧ d < d'))))
  · have := lex_jdn_lt _ _ _ _ _ _ hv hv' h1; omega
  · by_cases h2 : (y' < y ∨ (y' = y ∧ (m' < m ∨ (m' = m ∧ d' < d))))
    · have := lex_jdn_lt _ _ _ _ _ _ hv' hv h2; omega
    · omega

theorem solar_eq_of_jdn (s t : Solar) (hs : s.valid = true) (ht : t.valid = true) (hj : s.jdn = t.jdn)
    (h1 : s.hour = t.hour) (h2 : s.minute = t.minute) (h3 : s.second = t.second) : s = t := by
  obtain ⟨e1, e2, e3⟩ := jdn_inj_all _ _ _ _ _ _ (valid_parts s hs).1 (valid_parts t ht).1 hj
  cases s; cases t
  simp only at e1 e2 e3 h1 h2 h3
  subst e1 e2 e3 h1 h2 h3
  rfl

/-- stepping is undone by the opposite step and composes additively (whenever the intermediate and final years stay ≥ 1) -/
theorem nextDay_neg (s r : Solar) (n : Int) (hv : s.valid = true) (hy : 1 ≤ s.year) (h : s.nextDay n = some r) (hr : 1 ≤ r.year) :
    r.nextDay (-n) = some s := by
  obtain ⟨r', e, hrv, hj, a1, a2, a3⟩ := nextDay_spec_strong s n hv
  rw [h] at e
  cases e
  obtain ⟨t, et, htv, hj', c1, c2, c3⟩ := nextDay_spec_strong r (-n) hrv
  rw [et]
  congr 1
  exact solar_eq_of_jdn t s htv hv (by omega) (by omega) (by omega) (by omega)

theorem nextDay_add (s r t : Solar) (a b : Int) (hv : s.valid = true) (hy : 1 ≤ s.year)
    (h1 : s.nextDay a = some r) (hr : 1 ≤ r.year) (h2 : r.nextDay b = some t) (ht : 1 ≤ t.year) :
    s.nextDay (a + b) = some t := by
  obtain ⟨r', e, hrv, hj, a1, a2, a3⟩ := nextDay_spec_strong s a hv
  rw [h1] at e
  cases e
  obtain ⟨t', e', htv, hj', c1, c2, c3⟩ := nextDay_spec_strong r b hrv
  rw [h2] at e'
  cases e'
  obtain ⟨u, eu, huv, hj'', d1, d2, d3⟩ := nextDay_spec_strong s (a + b) hv
  rw [eu]
  congr 1
  exact solar_eq_of_jdn u t huv htv (by omega) (by omega) (by omega) (by omega)

end Model
