/-
Proofs.FnS7 — string-mode generated code (`Gen.FnS`) = model for the year / month nine-star functions of `Lunar`
(no atoms: the 60-cycle index is computed by the translated `LunarUtil.GetJiaZiIndex` on the translated pillar
strings), `LunarYear.GetNineStar / GetYuan / GetYun`, `Lunar.GetWeekInChinese` and the Tai Sui position
descriptions. Helper prefix `s7_`.
-/
import Proofs.FnSBase
import Proofs.FnS2
import Proofs.FnSNineStarObj
import Model.NineStar
import Model.Almanac

namespace FnSEq
open Gen.Fn (Err)
open Gen.Tables

/-! ### 1. `Lunar.getYearNineStar` -/

/-- `Model.Lunar.yearNineStarOf` with the argument pillar given as an arbitrary STRING (what the Go function takes) -/
def s7_yearStarOfStr (l : Model.Lunar) (s : String) : Int :=
  let indexExact := Model.jiaZiIndexOfStr s + 1
  let index := Model.ganZhiIndex l.yearGanIndex l.yearZhiIndex + 1
  let yo := indexExact - index
  let yearOffset := if yo > 1 then yo - 60 else if yo < -1 then yo + 60 else yo
  let yuan := (Int.tdiv (l.year + yearOffset + 2696) 60).tmod 3
  let offset := (62 + yuan * 3 - indexExact).tmod 9
  (if offset = 0 then 9 else offset) - 1

theorem s7_yearNineStarOf_eq (l : Model.Lunar) (g z : Int) :
    l.yearNineStarOf g z = s7_yearStarOfStr l (Model.EightChar.pillarStr g z) := rfl

/-- for EVERY argument string (an unknown pillar has 60-cycle index −1, i.e. `indexExact = 0`) -/
theorem getYearNineStar_str_eq (l : Gen.FnS.Lunar) (terms : List Model.Solar) (s : String)
    (g0 : -1 ≤ l.yearGanIndex) (g1 : l.yearGanIndex < 10)
    (z0 : -1 ≤ l.yearZhiIndex) (z1 : l.yearZhiIndex < 12) :
    Gen.FnS.calendar_Lunar_getYearNineStar l s = .ok ⟨s7_yearStarOfStr (lunarToM l terms) s⟩ := by
  unfold Gen.FnS.calendar_Lunar_getYearNineStar
  rw [getJiaZiIndex_eq, sb_bind_ok, lunarGetYearInGanZhi_eq l g0 g1 z0 z1, sb_bind_ok, getJiaZiIndex_eq, sb_bind_ok]
  have hgz : Model.ganZhiIndex (lunarToM l terms).yearGanIndex (lunarToM l terms).yearZhiIndex
      = Model.jiaZiIndexOfStr (Model.EightChar.pillarStr l.yearGanIndex l.yearZhiIndex) := rfl
  simp only [newNineStar_eq, s7_yearStarOfStr, hgz, lunarToM_year]
  generalize Model.jiaZiIndexOfStr s = a
  generalize Model.jiaZiIndexOfStr (Model.EightChar.pillarStr l.yearGanIndex l.yearZhiIndex) = b
  generalize l.year = y
  by_cases h1 : a + 1 - (b + 1) > 1
  · simp only [h1, decide_true, if_true]
    split <;> rename_i h3
    · simp only [decide_eq_true_eq] at h3; simp [← h3]
    · simp only [decide_eq_true_eq] at h3; simp [Ne.symm h3]
  · by_cases h2 : a + 1 - (b + 1) < -1
    · simp only [h1, h2, decide_true, decide_false, if_true, if_false, Bool.false_eq_true]
      split <;> rename_i h3
      · simp only [decide_eq_true_eq] at h3; simp [← h3]
      · simp only [decide_eq_true_eq] at h3; simp [Ne.symm h3]
    · simp only [h1, h2, decide_false, if_false, Bool.false_eq_true]
      split <;> rename_i h3
      · simp only [decide_eq_true_eq] at h3; simp [← h3]
      · simp only [decide_eq_true_eq] at h3; simp [Ne.symm h3]

/-- item 1: the pillar given by indices -/
theorem getYearNineStar_eq (l : Gen.FnS.Lunar) (terms : List Model.Solar) (yearInGanZhi : String) (g z : Int)
    (hs : yearInGanZhi = Model.EightChar.pillarStr g z)
    (g0 : -1 ≤ l.yearGanIndex) (g1 : l.yearGanIndex < 10)
    (z0 : -1 ≤ l.yearZhiIndex) (z1 : l.yearZhiIndex < 12) :
    Gen.FnS.calendar_Lunar_getYearNineStar l yearInGanZhi = .ok ⟨(lunarToM l terms).yearNineStarOf g z⟩ := by
  subst hs
  rw [getYearNineStar_str_eq l terms _ g0 g1 z0 z1, s7_yearNineStarOf_eq]

/-- outside the guard: the receiver's own lunar-year pillar cannot be rendered, Go panics (whatever the argument) -/
theorem getYearNineStar_panic (l : Gen.FnS.Lunar) (s : String)
    (h : l.yearGanIndex < -1 ∨ 10 ≤ l.yearGanIndex ∨ l.yearZhiIndex < -1 ∨ 12 ≤ l.yearZhiIndex) :
    Gen.FnS.calendar_Lunar_getYearNineStar l s = .error .panic := by
  unfold Gen.FnS.calendar_Lunar_getYearNineStar
  rw [getJiaZiIndex_eq, sb_bind_ok]
  have hp : Gen.FnS.calendar_Lunar_GetYearInGanZhi l = .error .panic := by
    unfold Gen.FnS.calendar_Lunar_GetYearInGanZhi
    by_cases hg : l.yearGanIndex < -1 ∨ 10 ≤ l.yearGanIndex
    · rw [lunarGetYearGan_panic l hg]; rfl
    · rw [lunarGetYearGan_eq l (by omega) (by omega), sb_bind_ok, lunarGetYearZhi_panic l (by omega)]; rfl
  rw [hp]; rfl

/-! ### 2. `GetYearNineStarBySect`, `GetYearNineStar` -/

theorem lunarGetYearNineStarBySect_eq (l : Gen.FnS.Lunar) (terms : List Model.Solar) (sect : Int)
    (g0 : -1 ≤ l.yearGanIndex) (g1 : l.yearGanIndex < 10)
    (z0 : -1 ≤ l.yearZhiIndex) (z1 : l.yearZhiIndex < 12)
    (e0 : sect = 3 → -1 ≤ l.yearGanIndexExact ∧ l.yearGanIndexExact < 10 ∧
                      -1 ≤ l.yearZhiIndexExact ∧ l.yearZhiIndexExact < 12)
    (c0 : sect ≠ 1 → sect ≠ 3 → -1 ≤ l.yearGanIndexByLiChun ∧ l.yearGanIndexByLiChun < 10 ∧
                      -1 ≤ l.yearZhiIndexByLiChun ∧ l.yearZhiIndexByLiChun < 12) :
    Gen.FnS.calendar_Lunar_GetYearNineStarBySect l sect = .ok ⟨(lunarToM l terms).yearNineStar sect⟩ := by
  unfold Gen.FnS.calendar_Lunar_GetYearNineStarBySect Model.Lunar.yearNineStar
  by_cases hs1 : sect = 1
  · simp only [hs1, decide_true, if_true]
    rw [lunarGetYearInGanZhi_eq l g0 g1 z0 z1]
    simp only [sb_bind_ok]
    rw [getYearNineStar_eq l terms _ _ _ rfl g0 g1 z0 z1]; rfl
  by_cases hs3 : sect = 3
  · obtain ⟨a, b, c, d⟩ := e0 hs3
    simp only [hs3, decide_true, if_true, show ¬ ((3 : Int) = 1) by decide, if_false, decide_false, Bool.false_eq_true]
    rw [lunarGetYearInGanZhiExact_eq l a b c d]
    simp only [sb_bind_ok]
    rw [getYearNineStar_eq l terms _ _ _ rfl g0 g1 z0 z1]; rfl
  · obtain ⟨a, b, c, d⟩ := c0 hs1 hs3
    simp only [hs1, hs3, if_false, decide_false, Bool.false_eq_true]
    rw [lunarGetYearInGanZhiByLiChun_eq l a b c d]
    simp only [sb_bind_ok]
    rw [getYearNineStar_eq l terms _ _ _ rfl g0 g1 z0 z1]; rfl

/-- the default (sect 2): Lichun-day year pillar -/
theorem lunarGetYearNineStar_eq (l : Gen.FnS.Lunar) (terms : List Model.Solar)
    (g0 : -1 ≤ l.yearGanIndex) (g1 : l.yearGanIndex < 10)
    (z0 : -1 ≤ l.yearZhiIndex) (z1 : l.yearZhiIndex < 12)
    (c0 : -1 ≤ l.yearGanIndexByLiChun) (c1 : l.yearGanIndexByLiChun < 10)
    (d0 : -1 ≤ l.yearZhiIndexByLiChun) (d1 : l.yearZhiIndexByLiChun < 12) :
    Gen.FnS.calendar_Lunar_GetYearNineStar l = .ok ⟨(lunarToM l terms).yearNineStar 2⟩ := by
  unfold Gen.FnS.calendar_Lunar_GetYearNineStar
  rw [lunarGetYearNineStarBySect_eq l terms 2 g0 g1 z0 z1 (by omega) (fun _ _ => ⟨c0, c1, d0, d1⟩)]

/-! ### 3. month star (integers only, no guard) -/

theorem getMonthNineStar_eq (l : Gen.FnS.Lunar) (yz mz : Int) :
    Gen.FnS.calendar_Lunar_getMonthNineStar l yz mz = .ok ⟨Model.monthNineStarOf yz mz⟩ := by
  unfold Gen.FnS.calendar_Lunar_getMonthNineStar Model.monthNineStarOf
  simp only [show Gen.Tables.LunarUtil.«BASE_MONTH_ZHI_INDEX» = 2 from rfl, newNineStar_eq]
  by_cases h : mz < 2
  · simp [h]
  · simp [h]

theorem lunarGetMonthNineStarBySect_eq (l : Gen.FnS.Lunar) (terms : List Model.Solar) (sect : Int) :
    Gen.FnS.calendar_Lunar_GetMonthNineStarBySect l sect = .ok ⟨(lunarToM l terms).monthNineStar sect⟩ := by
  unfold Gen.FnS.calendar_Lunar_GetMonthNineStarBySect Model.Lunar.monthNineStar
  by_cases hs1 : sect = 1
  · simp only [hs1, decide_true, if_true, getMonthNineStar_eq]; rfl
  by_cases hs3 : sect = 3
  · simp only [hs3, decide_true, if_true, show ¬ ((3 : Int) = 1) by decide, if_false, decide_false,
      Bool.false_eq_true, getMonthNineStar_eq]; rfl
  · simp only [hs1, hs3, if_false, decide_false, Bool.false_eq_true, getMonthNineStar_eq]; rfl

theorem lunarGetMonthNineStar_eq (l : Gen.FnS.Lunar) (terms : List Model.Solar) :
    Gen.FnS.calendar_Lunar_GetMonthNineStar l = .ok ⟨(lunarToM l terms).monthNineStar 2⟩ := by
  unfold Gen.FnS.calendar_Lunar_GetMonthNineStar
  rw [lunarGetMonthNineStarBySect_eq l terms 2]


/-! ### 4. `LunarYear.GetNineStar` -/

theorem lunarYearGetGanZhi_eq (ly : Gen.FnS.LunarYear) (g0 : -1 ≤ ly.ganIndex) (g1 : ly.ganIndex < 10)
    (z0 : -1 ≤ ly.zhiIndex) (z1 : ly.zhiIndex < 12) :
    Gen.FnS.calendar_LunarYear_GetGanZhi ly = .ok (Model.EightChar.pillarStr ly.ganIndex ly.zhiIndex) := by
  unfold Gen.FnS.calendar_LunarYear_GetGanZhi Gen.FnS.calendar_LunarYear_GetGan Gen.FnS.calendar_LunarYear_GetZhi
  rw [sidx_GAN _ g0 g1, sidx_ZHI _ z0 z1]; rfl

theorem lunarYearGetGanZhi_panic (ly : Gen.FnS.LunarYear)
    (h : ly.ganIndex < -1 ∨ 10 ≤ ly.ganIndex ∨ ly.zhiIndex < -1 ∨ 12 ≤ ly.zhiIndex) :
    Gen.FnS.calendar_LunarYear_GetGanZhi ly = .error .panic := by
  unfold Gen.FnS.calendar_LunarYear_GetGanZhi Gen.FnS.calendar_LunarYear_GetGan Gen.FnS.calendar_LunarYear_GetZhi
  by_cases hg : ly.ganIndex < -1 ∨ 10 ≤ ly.ganIndex
  · rw [sidx_GAN_panic _ hg]; rfl
  · rw [sidx_GAN _ (by omega) (by omega), sidx_ZHI_panic _ (by omega)]; rfl

/-- the star of a `LunarYear` record with arbitrary (in-range) pillar fields -/
def s7_lunarYearStar (year g z : Int) : Int :=
  let index := Model.ganZhiIndex g z + 1
  let yuan := (Int.tdiv (year + 2696) 60).tmod 3
  let offset := (62 + yuan * 3 - index).tmod 9
  (if offset = 0 then 9 else offset) - 1

theorem s7_lunarYearNineStar_eq (year : Int) :
    Model.lunarYearNineStar year = s7_lunarYearStar year ((year - 4) % 10) ((year - 4) % 12) := rfl

theorem lunarYearGetNineStar_gen (ly : Gen.FnS.LunarYear) (g0 : -1 ≤ ly.ganIndex) (g1 : ly.ganIndex < 10)
    (z0 : -1 ≤ ly.zhiIndex) (z1 : ly.zhiIndex < 12) :
    Gen.FnS.calendar_LunarYear_GetNineStar ly = .ok ⟨s7_lunarYearStar ly.year ly.ganIndex ly.zhiIndex⟩ := by
  unfold Gen.FnS.calendar_LunarYear_GetNineStar
  rw [lunarYearGetGanZhi_eq ly g0 g1 z0 z1, sb_bind_ok, getJiaZiIndex_eq, sb_bind_ok]
  have hgz : Model.ganZhiIndex ly.ganIndex ly.zhiIndex
      = Model.jiaZiIndexOfStr (Model.EightChar.pillarStr ly.ganIndex ly.zhiIndex) := rfl
  simp only [newNineStar_eq, s7_lunarYearStar, hgz]
  generalize Model.jiaZiIndexOfStr (Model.EightChar.pillarStr ly.ganIndex ly.zhiIndex) = b
  split <;> rename_i h3
  · simp only [decide_eq_true_eq] at h3; simp [← h3]
  · simp only [decide_eq_true_eq] at h3; simp [Ne.symm h3]

theorem lunarYearGetNineStar_panic (ly : Gen.FnS.LunarYear)
    (h : ly.ganIndex < -1 ∨ 10 ≤ ly.ganIndex ∨ ly.zhiIndex < -1 ∨ 12 ≤ ly.zhiIndex) :
    Gen.FnS.calendar_LunarYear_GetNineStar ly = .error .panic := by
  unfold Gen.FnS.calendar_LunarYear_GetNineStar
  rw [lunarYearGetGanZhi_panic ly h]; rfl

/-- item 4: a record built by the library (`ganIndex = (year−4) mod 10`, `zhiIndex = (year−4) mod 12`, floor mod):
the pillar indices are then automatically in range, no further guard -/
theorem lunarYearGetNineStar_eq (ly : Gen.FnS.LunarYear)
    (hg : ly.ganIndex = (ly.year - 4) % 10) (hz : ly.zhiIndex = (ly.year - 4) % 12) :
    Gen.FnS.calendar_LunarYear_GetNineStar ly = .ok ⟨Model.lunarYearNineStar ly.year⟩ := by
  rw [lunarYearGetNineStar_gen ly (by omega) (by omega) (by omega) (by omega), s7_lunarYearNineStar_eq, hg, hz]

/-! ### 5. `LunarYear.GetYuan`, `GetYun` -/

theorem s7_YUAN_length : calendar.«YUAN».length = 3 := by decide
theorem s7_YUN_length : calendar.«YUN».length = 9 := by decide

/-- total: the index is `((year+2696) tdiv 60) tmod 3 ∈ (−3, 3)`; Go panics exactly when it is negative -/
theorem lunarYearGetYuan_total (ly : Gen.FnS.LunarYear) :
    Gen.FnS.calendar_LunarYear_GetYuan ly
      = if 0 ≤ (Int.tdiv (ly.year + 2696) 60).tmod 3
        then .ok (Model.strGetD calendar.«YUAN» ((Int.tdiv (ly.year + 2696) 60).tmod 3) ++ "元")
        else .error .panic := by
  unfold Gen.FnS.calendar_LunarYear_GetYuan
  have hlt : (Int.tdiv (ly.year + 2696) 60).tmod 3 < 3 := Int.tmod_lt_of_pos _ (by decide)
  rw [sidx_total, s7_YUAN_length]
  by_cases h : 0 ≤ (Int.tdiv (ly.year + 2696) 60).tmod 3
  · rw [if_pos ⟨h, by omega⟩, if_pos h]; rfl
  · rw [if_neg (by omega), if_neg h]; rfl

theorem lunarYearGetYun_total (ly : Gen.FnS.LunarYear) :
    Gen.FnS.calendar_LunarYear_GetYun ly
      = if 0 ≤ (Int.tdiv (ly.year + 2696) 20).tmod 9
        then .ok (Model.strGetD calendar.«YUN» ((Int.tdiv (ly.year + 2696) 20).tmod 9) ++ "运")
        else .error .panic := by
  unfold Gen.FnS.calendar_LunarYear_GetYun
  have hlt : (Int.tdiv (ly.year + 2696) 20).tmod 9 < 9 := Int.tmod_lt_of_pos _ (by decide)
  rw [sidx_total, s7_YUN_length]
  by_cases h : 0 ≤ (Int.tdiv (ly.year + 2696) 20).tmod 9
  · rw [if_pos ⟨h, by omega⟩, if_pos h]; rfl
  · rw [if_neg (by omega), if_neg h]; rfl

theorem s7_tdiv_nonneg (a b : Int) (hb : 0 < b) (h : -b < a) : 0 ≤ a.tdiv b := by
  by_cases ha : 0 ≤ a
  · exact Int.tdiv_nonneg ha (Int.le_of_lt hb)
  · have h1 : (-a).tdiv b = 0 := Int.tdiv_eq_zero_of_lt (by omega) (by omega)
    rw [Int.neg_tdiv] at h1; omega

/-- the years for which the index is certainly non-negative: `year ≥ −2755` (then `(year+2696) tdiv 60 ≥ 0`) -/
theorem lunarYearGetYuan_eq (ly : Gen.FnS.LunarYear) (h : -2755 ≤ ly.year) :
    Gen.FnS.calendar_LunarYear_GetYuan ly
      = .ok (Model.strGetD calendar.«YUAN» ((Int.tdiv (ly.year + 2696) 60).tmod 3) ++ "元") := by
  rw [lunarYearGetYuan_total, if_pos]
  exact Int.tmod_nonneg _ (s7_tdiv_nonneg _ _ (by decide) (by omega))

/-- `year ≥ −2715` (then `(year+2696) tdiv 20 ≥ 0`) -/
theorem lunarYearGetYun_eq (ly : Gen.FnS.LunarYear) (h : -2715 ≤ ly.year) :
    Gen.FnS.calendar_LunarYear_GetYun ly
      = .ok (Model.strGetD calendar.«YUN» ((Int.tdiv (ly.year + 2696) 20).tmod 9) ++ "运") := by
  rw [lunarYearGetYun_total, if_pos]
  exact Int.tmod_nonneg _ (s7_tdiv_nonneg _ _ (by decide) (by omega))

/-- for `year ≥ −2696` Go's truncating operators are the floor ones -/
theorem lunarYearGetYuan_eq' (ly : Gen.FnS.LunarYear) (h : -2696 ≤ ly.year) :
    Gen.FnS.calendar_LunarYear_GetYuan ly
      = .ok (Model.strGetD calendar.«YUAN» ((ly.year + 2696) / 60 % 3) ++ "元") := by
  rw [lunarYearGetYuan_eq ly (by omega)]
  have h1 : Int.tdiv (ly.year + 2696) 60 = (ly.year + 2696) / 60 := Int.tdiv_eq_ediv_of_nonneg (by omega)
  rw [h1, Int.tmod_eq_emod_of_nonneg (by omega)]

theorem lunarYearGetYun_eq' (ly : Gen.FnS.LunarYear) (h : -2696 ≤ ly.year) :
    Gen.FnS.calendar_LunarYear_GetYun ly
      = .ok (Model.strGetD calendar.«YUN» ((ly.year + 2696) / 20 % 9) ++ "运") := by
  rw [lunarYearGetYun_eq ly (by omega)]
  have h1 : Int.tdiv (ly.year + 2696) 20 = (ly.year + 2696) / 20 := Int.tdiv_eq_ediv_of_nonneg (by omega)
  rw [h1, Int.tmod_eq_emod_of_nonneg (by omega)]

/-! ### 6. `GetWeekInChinese` -/

theorem s7_WEEK_length : SolarUtil.«WEEK».length = 7 := by decide

theorem lunarGetWeekInChinese_eq (l : Gen.FnS.Lunar) (h0 : 0 ≤ l.weekIndex) (h1 : l.weekIndex < 7) :
    Gen.FnS.calendar_Lunar_GetWeekInChinese l = .ok (Model.strGetD SolarUtil.«WEEK» l.weekIndex) := by
  unfold Gen.FnS.calendar_Lunar_GetWeekInChinese
  rw [lunarGetWeek_eq, sb_bind_ok, sidx_eq_strGetD _ _ h0 (by rw [s7_WEEK_length]; exact h1)]

theorem lunarGetWeekInChinese_panic (l : Gen.FnS.Lunar) (h : l.weekIndex < 0 ∨ 7 ≤ l.weekIndex) :
    Gen.FnS.calendar_Lunar_GetWeekInChinese l = .error .panic := by
  unfold Gen.FnS.calendar_Lunar_GetWeekInChinese
  rw [lunarGetWeek_eq, sb_bind_ok, sidx_panic _ _ (by rw [s7_WEEK_length]; exact h)]

/-! ### 7. Tai Sui position descriptions -/

section
variable (l : Gen.FnS.Lunar)

theorem lunarGetDayPositionTaiSuiDescBySect_eq (sect : Int)
    (g0 : -1 ≤ (if sect = 1 ∨ sect = 3 then l.dayGanIndex else l.dayGanIndexExact2))
    (g1 : (if sect = 1 ∨ sect = 3 then l.dayGanIndex else l.dayGanIndexExact2) < 10)
    (z0 : -1 ≤ (if sect = 1 ∨ sect = 3 then l.dayZhiIndex else l.dayZhiIndexExact2))
    (z1 : (if sect = 1 ∨ sect = 3 then l.dayZhiIndex else l.dayZhiIndexExact2) < 12)
    (hne : 0 ≤ (if sect = 1 ∨ sect = 3 then l.dayGanIndex else l.dayGanIndexExact2) ∨
           0 ≤ (if sect = 1 ∨ sect = 3 then l.dayZhiIndex else l.dayZhiIndexExact2))
    (y0 : 0 ≤ (if sect = 1 then l.yearZhiIndex else if sect = 3 then l.yearZhiIndexExact else l.yearZhiIndexByLiChun))
    (y1 : (if sect = 1 then l.yearZhiIndex else if sect = 3 then l.yearZhiIndexExact else l.yearZhiIndexByLiChun) < 12) :
    Gen.FnS.calendar_Lunar_GetDayPositionTaiSuiDescBySect l sect
      = .ok (Model.positionDesc (Model.dayPositionTaiSui
          (Model.EightChar.pillarStr (if sect = 1 ∨ sect = 3 then l.dayGanIndex else l.dayGanIndexExact2)
             (if sect = 1 ∨ sect = 3 then l.dayZhiIndex else l.dayZhiIndexExact2))
          (if sect = 1 then l.yearZhiIndex else if sect = 3 then l.yearZhiIndexExact else l.yearZhiIndexByLiChun))) := by
  unfold Gen.FnS.calendar_Lunar_GetDayPositionTaiSuiDescBySect
  rw [lunarGetDayPositionTaiSuiBySect_eq l sect g0 g1 z0 z1 hne y0 y1, sb_bind_ok, mlookupS_eq_lookupStr]; rfl

theorem lunarGetDayPositionTaiSuiDesc_eq
    (g0 : -1 ≤ l.dayGanIndexExact2) (g1 : l.dayGanIndexExact2 < 10)
    (z0 : -1 ≤ l.dayZhiIndexExact2) (z1 : l.dayZhiIndexExact2 < 12)
    (hne : 0 ≤ l.dayGanIndexExact2 ∨ 0 ≤ l.dayZhiIndexExact2)
    (y0 : 0 ≤ l.yearZhiIndexByLiChun) (y1 : l.yearZhiIndexByLiChun < 12) :
    Gen.FnS.calendar_Lunar_GetDayPositionTaiSuiDesc l
      = .ok (Model.positionDesc (Model.dayPositionTaiSui
               (Model.EightChar.pillarStr l.dayGanIndexExact2 l.dayZhiIndexExact2) l.yearZhiIndexByLiChun)) := by
  unfold Gen.FnS.calendar_Lunar_GetDayPositionTaiSuiDesc
  have := lunarGetDayPositionTaiSuiDescBySect_eq l 2 (by simpa using g0) (by simpa using g1) (by simpa using z0)
    (by simpa using z1) (by simpa using hne) (by simpa using y0) (by simpa using y1)
  rw [this]; simp

theorem lunarGetMonthPositionTaiSuiDescBySect_eq (sect : Int)
    (h : (if (if sect = 3 then l.monthZhiIndexExact else l.monthZhiIndex) - 2 < 0
            then (if sect = 3 then l.monthZhiIndexExact else l.monthZhiIndex) - 2 + 12
            else (if sect = 3 then l.monthZhiIndexExact else l.monthZhiIndex) - 2).tmod 4 ∈ [0, 2, 3] ∨
         (0 ≤ (if sect = 3 then l.monthGanIndexExact else l.monthGanIndex) ∧
          (if sect = 3 then l.monthGanIndexExact else l.monthGanIndex) < 10)) :
    Gen.FnS.calendar_Lunar_GetMonthPositionTaiSuiDescBySect l sect
      = .ok (Model.positionDesc (Model.monthPositionTaiSui (if sect = 3 then l.monthZhiIndexExact else l.monthZhiIndex)
               (if sect = 3 then l.monthGanIndexExact else l.monthGanIndex))) := by
  unfold Gen.FnS.calendar_Lunar_GetMonthPositionTaiSuiDescBySect
  rw [lunarGetMonthPositionTaiSuiBySect_eq l sect h, sb_bind_ok, mlookupS_eq_lookupStr]; rfl

/-- simple guard: month stem 0..9 -/
theorem lunarGetMonthPositionTaiSuiDesc_eq (g0 : 0 ≤ l.monthGanIndex) (g1 : l.monthGanIndex < 10) :
    Gen.FnS.calendar_Lunar_GetMonthPositionTaiSuiDesc l
      = .ok (Model.positionDesc (Model.monthPositionTaiSui l.monthZhiIndex l.monthGanIndex)) := by
  unfold Gen.FnS.calendar_Lunar_GetMonthPositionTaiSuiDesc
  have := lunarGetMonthPositionTaiSuiDescBySect_eq l 2 (Or.inr (by simp; omega))
  rw [this]; rfl

/-- the stem is not read at all when `(monthZhi − 2 (+12)) tmod 4 ≠ 1` -/
theorem lunarGetMonthPositionTaiSuiDesc_eq'
    (h : (if l.monthZhiIndex - 2 < 0 then l.monthZhiIndex - 2 + 12 else l.monthZhiIndex - 2).tmod 4 ∈ [0, 2, 3]) :
    Gen.FnS.calendar_Lunar_GetMonthPositionTaiSuiDesc l
      = .ok (Model.positionDesc (Model.monthPositionTaiSui l.monthZhiIndex l.monthGanIndex)) := by
  unfold Gen.FnS.calendar_Lunar_GetMonthPositionTaiSuiDesc
  have := lunarGetMonthPositionTaiSuiDescBySect_eq l 2 (Or.inl (by simpa using h))
  rw [this]; rfl
end

/-! ### 8. ranges: the stars produced are valid `NineStar` indices (0..8), so the accessors of
`Proofs.FnSNineStarObj` apply to them -/

theorem s7_star_range (X : Int) (hX : 0 ≤ X) :
    0 ≤ (if X.tmod 9 = 0 then 9 else X.tmod 9) - 1 ∧ (if X.tmod 9 = 0 then 9 else X.tmod 9) - 1 < 9 := by
  have h0 : 0 ≤ X.tmod 9 := Int.tmod_nonneg _ hX
  have h1 : X.tmod 9 < 9 := Int.tmod_lt_of_pos _ (by decide)
  split <;> omega

theorem s7_yearStar_int (y a b : Int) (a0 : -1 ≤ a) (a1 : a < 60) (b0 : -1 ≤ b) (b1 : b < 60) (hy : -2697 ≤ y) :
    let yo := a + 1 - (b + 1)
    let yearOffset := if yo > 1 then yo - 60 else if yo < -1 then yo + 60 else yo
    let X := 62 + (Int.tdiv (y + yearOffset + 2696) 60).tmod 3 * 3 - (a + 1)
    0 ≤ (if X.tmod 9 = 0 then 9 else X.tmod 9) - 1 ∧ (if X.tmod 9 = 0 then 9 else X.tmod 9) - 1 < 9 := by
  intro yo yearOffset X
  have hyo' : -58 ≤ yearOffset := by
    show -58 ≤ (if yo > 1 then yo - 60 else if yo < -1 then yo + 60 else yo)
    have : yo = a + 1 - (b + 1) := rfl
    split
    · omega
    · split <;> omega
  have hq : 0 ≤ Int.tdiv (y + yearOffset + 2696) 60 := s7_tdiv_nonneg _ _ (by decide) (by omega)
  have hu0 : 0 ≤ (Int.tdiv (y + yearOffset + 2696) 60).tmod 3 := Int.tmod_nonneg _ hq
  apply s7_star_range
  show 0 ≤ 62 + (Int.tdiv (y + yearOffset + 2696) 60).tmod 3 * 3 - (a + 1)
  omega

theorem s7_yearStarOfStr_range (l : Model.Lunar) (s : String) (hy : -2697 ≤ l.year) :
    0 ≤ s7_yearStarOfStr l s ∧ s7_yearStarOfStr l s < 9 :=
  s7_yearStar_int l.year (Model.jiaZiIndexOfStr s)
    (Model.jiaZiIndexOfStr (Model.ganStr l.yearGanIndex ++ Model.zhiStr l.yearZhiIndex))
    (s2_jiaZiIndexOfStr_ge _) (s2_jiaZiIndexOfStr_lt _) (s2_jiaZiIndexOfStr_ge _) (s2_jiaZiIndexOfStr_lt _) hy

/-- for lunar years ≥ −2697 the year star is a valid index -/
theorem yearNineStarOf_range (l : Model.Lunar) (g z : Int) (hy : -2697 ≤ l.year) :
    0 ≤ l.yearNineStarOf g z ∧ l.yearNineStarOf g z < 9 := by
  rw [s7_yearNineStarOf_eq]; exact s7_yearStarOfStr_range l _ hy

theorem yearNineStar_range (l : Model.Lunar) (sect : Int) (hy : -2697 ≤ l.year) :
    0 ≤ l.yearNineStar sect ∧ l.yearNineStar sect < 9 := by
  unfold Model.Lunar.yearNineStar
  split
  · exact yearNineStarOf_range l _ _ hy
  · split <;> exact yearNineStarOf_range l _ _ hy

theorem lunarYearNineStar_range (year : Int) (hy : -2755 ≤ year) :
    0 ≤ Model.lunarYearNineStar year ∧ Model.lunarYearNineStar year < 9 := by
  unfold Model.lunarYearNineStar Model.ganZhiIndex
  have b0 := s2_jiaZiIndexOfStr_ge (Model.ganStr ((year - 4) % 10) ++ Model.zhiStr ((year - 4) % 12))
  have b1 := s2_jiaZiIndexOfStr_lt (Model.ganStr ((year - 4) % 10) ++ Model.zhiStr ((year - 4) % 12))
  dsimp only
  generalize Model.jiaZiIndexOfStr (Model.ganStr ((year - 4) % 10) ++ Model.zhiStr ((year - 4) % 12)) = b at *
  have hq : 0 ≤ Int.tdiv (year + 2696) 60 := s7_tdiv_nonneg _ _ (by decide) (by omega)
  have hu0 : 0 ≤ (Int.tdiv (year + 2696) 60).tmod 3 := Int.tmod_nonneg _ hq
  exact s7_star_range _ (by omega)

/-- month star: valid index for a non-negative year branch and a month branch ≤ 18 (library: 0..11) -/
theorem monthNineStarOf_range (yz mz : Int) (hy : 0 ≤ yz) (hm : mz ≤ 18) :
    0 ≤ Model.monthNineStarOf yz mz ∧ Model.monthNineStarOf yz mz < 9 := by
  unfold Model.monthNineStarOf
  have h0 : 0 ≤ yz.tmod 3 := Int.tmod_nonneg _ hy
  have h1 : yz.tmod 3 < 3 := Int.tmod_lt_of_pos _ (by decide)
  simp only [show Gen.Tables.LunarUtil.«BASE_MONTH_ZHI_INDEX» = 2 from rfl]
  constructor
  · apply Int.tmod_nonneg; split <;> omega
  · exact Int.tmod_lt_of_pos _ (by decide)

section Axioms
#print axioms getYearNineStar_str_eq
#print axioms getYearNineStar_eq
#print axioms getYearNineStar_panic
#print axioms lunarGetYearNineStarBySect_eq
#print axioms lunarGetYearNineStar_eq
#print axioms getMonthNineStar_eq
#print axioms lunarGetMonthNineStarBySect_eq
#print axioms lunarGetMonthNineStar_eq
#print axioms lunarYearGetGanZhi_eq
#print axioms lunarYearGetGanZhi_panic
#print axioms lunarYearGetNineStar_gen
#print axioms lunarYearGetNineStar_panic
#print axioms lunarYearGetNineStar_eq
#print axioms lunarYearGetYuan_total
#print axioms lunarYearGetYun_total
#print axioms lunarYearGetYuan_eq
#print axioms lunarYearGetYun_eq
#print axioms lunarYearGetYuan_eq'
#print axioms lunarYearGetYun_eq'
#print axioms lunarGetWeekInChinese_eq
#print axioms lunarGetWeekInChinese_panic
#print axioms lunarGetDayPositionTaiSuiDescBySect_eq
#print axioms lunarGetDayPositionTaiSuiDesc_eq
#print axioms lunarGetMonthPositionTaiSuiDescBySect_eq
#print axioms lunarGetMonthPositionTaiSuiDesc_eq
#print axioms lunarGetMonthPositionTaiSuiDesc_eq'
#print axioms yearNineStarOf_range
#print axioms yearNineStar_range
#print axioms lunarYearNineStar_range
#print axioms monthNineStarOf_range
end Axioms

end FnSEq
