/-
Proofs.MonthNav — structure of a lunar year's month table and `LunarMonth.Next` (month navigation)
over an arbitrary well-formed oracle without reform years.
-/
import Proofs.Convert
set_option linter.unusedVariables false
set_option linter.unusedSimpArgs false
namespace Model

/-! ## generic list facts -/

/-- records equal up to the table-relative `index` field -/
def Sim (a b : MonthRec) : Prop :=
  a.year = b.year ∧ a.month = b.month ∧ a.first = b.first ∧ a.dayCount = b.dayCount

theorem prefix_cons_inv (a : MonthRec) (as L : List MonthRec) (h : isPrefixOf' (a :: as) L = true) :
    ∃ b bs, L = b :: bs ∧ Sim a b ∧ isPrefixOf' as bs = true := by
  cases L with
  | nil => simp [isPrefixOf'] at h
  | cons b bs =>
    simp only [isPrefixOf', Bool.and_eq_true, beq_iff_eq] at h
    exact ⟨b, bs, rfl, ⟨h.1.1.1.1, h.1.1.1.2, h.1.1.2, h.1.2⟩, h.2⟩

theorem prefix_length : ∀ (X L : List MonthRec), isPrefixOf' X L = true → X.length ≤ L.length
  | [], L, _ => by simp
  | a :: X, L, h => by
    obtain ⟨b, bs, rfl, _, h'⟩ := prefix_cons_inv a X L h
    have := prefix_length X bs h'
    simp; omega

theorem prefix_get : ∀ (X L : List MonthRec), isPrefixOf' X L = true → ∀ (k : Nat) (a : MonthRec), X[k]? = some a →
    ∃ b, L[k]? = some b ∧ Sim a b
  | [], L, _, k, a, hk => by simp at hk
  | c :: X, L, h, k, a, hk => by
    obtain ⟨b, bs, rfl, hs, h'⟩ := prefix_cons_inv c X L h
    cases k with
    | zero =>
      simp at hk; subst hk
      exact ⟨b, by simp, hs⟩
    | succ k =>
      simp at hk
      obtain ⟨b', hb', hs'⟩ := prefix_get X bs h' k a hk
      exact ⟨b', by simpa using hb', hs'⟩

theorem suffix_get (X L : List MonthRec) (h : isPrefixOf' X.reverse L.reverse = true) (k : Nat) (a : MonthRec)
    (hk : X[k]? = some a) : X.length ≤ L.length ∧ ∃ b, L[L.length - X.length + k]? = some b ∧ Sim a b := by
  have hl := prefix_length _ _ h
  simp only [List.length_reverse] at hl
  have hkl : k < X.length := by
    rw [List.getElem?_eq_some_iff] at hk
    exact hk.1
  refine ⟨hl, ?_⟩
  have h1 : X.reverse[X.length - 1 - k]? = some a := by
    rw [List.getElem?_reverse (by omega)]
    rw [show X.length - 1 - (X.length - 1 - k) = k by omega]
    exact hk
  obtain ⟨b, hb, hs⟩ := prefix_get _ _ h _ _ h1
  refine ⟨b, ?_, hs⟩
  rw [List.getElem?_reverse (by omega)] at hb
  rw [show L.length - 1 - (X.length - 1 - k) = L.length - X.length + k by omega] at hb
  exact hb

theorem get_split {α : Type} : ∀ (l : List α) (i : Nat) (a : α), l[i]? = some a → l = l.take i ++ a :: l.drop (i + 1)
  | [], i, a, h => by simp at h
  | c :: l, 0, a, h => by simp at h; simp [h]
  | c :: l, i + 1, a, h => by
    simp at h
    have := get_split l i a h
    simp only [List.take_succ_cons, List.drop_succ_cons, List.cons_append]
    rw [← this]

/-- position of `l[i]` inside `l.filter p` -/
def fpos {α : Type} (p : α → Bool) (l : List α) (i : Nat) : Nat := ((l.take i).filter p).length

theorem fpos_get {α : Type} (p : α → Bool) (l : List α) (i : Nat) (a : α) (h : l[i]? = some a) (hp : p a = true) :
    (l.filter p)[fpos p l i]? = some a := by
  have hs := get_split l i a h
  unfold fpos
  conv => lhs; arg 1; rw [hs]
  rw [List.filter_append, List.filter_cons, hp]
  simp

theorem fpos_succ {α : Type} (p : α → Bool) (l : List α) (i : Nat) (a : α) (h : l[i]? = some a) :
    fpos p l (i + 1) = fpos p l i + (if p a then 1 else 0) := by
  unfold fpos
  rw [List.take_add_one, h]
  simp only [Option.toList_some, List.filter_append, List.length_append]
  by_cases c : p a = true <;> simp [c, List.filter_cons]

theorem fpos_zero {α : Type} (p : α → Bool) (l : List α) (i : Nat) (h : ∀ x ∈ l.take i, p x = false) : fpos p l i = 0 := by
  unfold fpos
  rw [List.length_eq_zero_iff, List.filter_eq_nil_iff]
  intro x hx
  simp [h x hx]

theorem fpos_end {α : Type} (p : α → Bool) (l : List α) (i : Nat) (h : ∀ x ∈ l.drop i, p x = false) :
    (l.filter p).length = fpos p l i := by
  unfold fpos
  conv => lhs; rw [← List.take_append_drop i l]
  rw [List.filter_append, List.length_append]
  have : (l.drop i).filter p = [] := by
    rw [List.filter_eq_nil_iff]
    intro x hx
    simp [h x hx]
  rw [this]; simp

theorem fpos_le {α : Type} (p : α → Bool) (l : List α) (i : Nat) : fpos p l i ≤ (l.filter p).length := by
  unfold fpos
  conv => rhs; rw [← List.take_append_drop i l]
  rw [List.filter_append, List.length_append]
  omega

/-- number of `p`-elements strictly after position `i` is bounded by the number of elements after `i` -/
theorem fpos_room {α : Type} (p : α → Bool) (l : List α) (i : Nat) (hi : i ≤ l.length) :
    (l.filter p).length ≤ fpos p l i + (l.length - i) := by
  unfold fpos
  conv => lhs; rw [← List.take_append_drop i l]
  rw [List.filter_append, List.length_append]
  have := List.length_filter_le p (l.drop i)
  rw [List.length_drop] at this
  omega

theorem pairwise_take_drop {α : Type} (R : α → α → Prop) (l : List α) (hp : l.Pairwise R) (i : Nat) (a : α) (h : l[i]? = some a) :
    (∀ x ∈ l.take i, R x a) ∧ (∀ z ∈ l.drop (i + 1), R a z) := by
  have hs := get_split l i a h
  rw [hs, List.pairwise_append] at hp
  obtain ⟨_, h2, h3⟩ := hp
  rw [List.pairwise_cons] at h2
  exact ⟨fun x hx => h3 x hx a (by simp), h2.1⟩

theorem fy_mem (l : List MonthRec) (Y : Int) (x : MonthRec) : x ∈ monthsInYear l Y ↔ x ∈ l ∧ x.year = Y := by
  unfold monthsInYear; rw [List.mem_filter, beq_iff_eq]

theorem findIdx_of_get : ∀ (L : List MonthRec) (k : Nat) (a : MonthRec),
    L.Pairwise (fun x y => y.month ≠ x.month) → L[k]? = some a →
    L.findIdx? (fun r => r.month == a.month) = some k
  | [], k, a, _, h => by simp at h
  | c :: L, 0, a, _, h => by simp at h; subst h; simp [List.findIdx?_cons]
  | c :: L, k + 1, a, hp, h => by
    simp at h
    rw [List.pairwise_cons] at hp
    have hm : a ∈ L := List.mem_of_getElem? h
    have hne : (c.month == a.month) = false := by
      rw [beq_eq_false_iff_ne]
      exact fun e => hp.1 a hm e.symm
    rw [List.findIdx?_cons, hne]
    simp [findIdx_of_get L k a hp.2 h]

theorem disjoint_filter_len {α : Type} (p q : α → Bool) : ∀ (l : List α), (∀ x ∈ l, ¬ (p x = true ∧ q x = true)) →
    (l.filter p).length + (l.filter q).length ≤ l.length
  | [], _ => by simp
  | a :: l, h => by
    have ih := disjoint_filter_len p q l (fun x hx => h x (List.mem_cons_of_mem _ hx))
    have ha := h a (by simp)
    simp only [List.filter_cons, List.length_cons]
    by_cases c1 : p a = true <;> by_cases c2 : q a = true <;> simp [c1, c2] <;> first | omega | (exact absurd ⟨c1, c2⟩ ha)


theorem fy_cons_pos (a : MonthRec) (l : List MonthRec) (Y : Int) (h : a.year = Y) :
    monthsInYear (a :: l) Y = a :: monthsInYear l Y := by
  unfold monthsInYear; rw [List.filter_cons]; simp [h]

theorem fy_cons_neg (a : MonthRec) (l : List MonthRec) (Y : Int) (h : a.year ≠ Y) :
    monthsInYear (a :: l) Y = monthsInYear l Y := by
  unfold monthsInYear; rw [List.filter_cons]; simp [h]

theorem fy_nil_of (l : List MonthRec) (Y : Int) (h : ∀ x ∈ l, x.year ≠ Y) : monthsInYear l Y = [] := by
  unfold monthsInYear
  rw [List.filter_eq_nil_iff]
  intro x hx
  simp [h x hx]

/-! ## the in-year numbering checker -/

theorem seq_cons (k : Int) (u : Bool) (m : Int) (rest : List Int) (h : inYearSeqOk k u (m :: rest) = true) :
    (m = k + 1 ∧ inYearSeqOk (k + 1) u rest = true) ∨
    (m ≠ k + 1 ∧ m = -k ∧ u = false ∧ 1 ≤ k ∧ inYearSeqOk k true rest = true) := by
  unfold inYearSeqOk at h
  by_cases c : m = k + 1
  · left
    simp only [c, beq_self_eq_true, if_true] at h
    exact ⟨c, h⟩
  · right
    have c' : (m == k + 1) = false := by rw [beq_eq_false_iff_ne]; exact c
    simp only [c', Bool.false_eq_true, if_false] at h
    split at h
    · rename_i c2
      simp only [Bool.and_eq_true, beq_iff_eq, Bool.not_eq_true', decide_eq_true_eq] at c2
      exact ⟨c, c2.1.1, c2.1.2, c2.2, h⟩
    · cases h

theorem seq_nil (k : Int) (u : Bool) (h : inYearSeqOk k u [] = true) : k = 12 := by
  unfold inYearSeqOk at h
  simpa using h

theorem seq_le : ∀ (L : List Int) (k : Int) (u : Bool), inYearSeqOk k u L = true → k ≤ 12
  | [], k, u, h => by have := seq_nil k u h; omega
  | m :: rest, k, u, h => by
    rcases seq_cons k u m rest h with ⟨_, h'⟩ | ⟨_, _, _, _, h'⟩
    · have := seq_le rest _ _ h'; omega
    · exact seq_le rest _ _ h'

def seqTo12 : Nat → Int → List Int
  | 0, _ => []
  | n + 1, k => (k + 1) :: seqTo12 n (k + 1)

theorem seq_pos : ∀ (L : List Int) (k : Int) (u : Bool), 0 ≤ k → inYearSeqOk k u L = true →
    L.filter (fun m => decide (m > 0)) = seqTo12 (12 - k).toNat k
  | [], k, u, _, h => by
    have := seq_nil k u h
    subst this
    rfl
  | m :: rest, k, u, hk, h => by
    rcases seq_cons k u m rest h with ⟨e, h'⟩ | ⟨_, e, _, k1, h'⟩
    · have hle := seq_le rest _ _ h'
      have ih := seq_pos rest (k + 1) u (by omega) h'
      have hp : decide (m > 0) = true := by simp; omega
      rw [List.filter_cons, hp, if_pos rfl, ih, e]
      rw [show (12 - k).toNat = (12 - (k + 1)).toNat + 1 by omega]
      rfl
    · have ih := seq_pos rest k true hk h'
      have hp : decide (m > 0) = false := by simp; omega
      rw [List.filter_cons, hp]
      simpa using ih

theorem seq_neg : ∀ (L : List Int) (k : Int) (u : Bool), 0 ≤ k → inYearSeqOk k u L = true →
    (L.filter (fun m => decide (m < 0))).length ≤ (if u = true then 0 else 1)
  | [], k, u, _, h => by simp
  | m :: rest, k, u, hk, h => by
    rcases seq_cons k u m rest h with ⟨e, h'⟩ | ⟨_, e, eu, k1, h'⟩
    · have ih := seq_neg rest (k + 1) u (by omega) h'
      have hp : decide (m < 0) = false := by simp; omega
      rw [List.filter_cons, hp]
      simpa using ih
    · have ih := seq_neg rest k true hk h'
      have hp : decide (m < 0) = true := by simp; omega
      rw [List.filter_cons, hp, if_pos rfl, eu]
      simp at ih ⊢
      exact ih

theorem seq_adj : ∀ (L : List Int) (k : Int) (u : Bool), 0 ≤ k → inYearSeqOk k u L = true →
    (∀ b, L[0]? = some b → b < 0 → b = -k ∧ u = false) ∧
    (∀ (i : Nat) (a b : Int), L[i]? = some a → L[i + 1]? = some b → b < 0 → b = -a)
  | [], k, u, _, h => by simp
  | m :: rest, k, u, hk, h => by
    rcases seq_cons k u m rest h with ⟨e, h'⟩ | ⟨_, e, eu, k1, h'⟩
    · obtain ⟨ih1, ih2⟩ := seq_adj rest (k + 1) u (by omega) h'
      constructor
      · intro b hb hneg
        simp at hb; omega
      · intro i a b ha hb hneg
        cases i with
        | zero =>
          simp at ha hb
          have := (ih1 b hb hneg).1
          omega
        | succ i =>
          simp at ha hb
          exact ih2 i a b ha hb hneg
    · obtain ⟨ih1, ih2⟩ := seq_adj rest k true hk h'
      constructor
      · intro b hb hneg
        simp at hb
        exact ⟨by omega, eu⟩
      · intro i a b ha hb hneg
        cases i with
        | zero =>
          simp at ha hb
          have := (ih1 b hb hneg).2
          cases this
        | succ i =>
          simp at ha hb
          exact ih2 i a b ha hb hneg

theorem seq_last : ∀ (L : List Int) (k : Int) (u : Bool), inYearSeqOk k u L = true →
    ∀ x, L.getLast? = some x → x = 12 ∨ x = -12
  | [], k, u, _, x, hx => by simp at hx
  | [m], k, u, h, x, hx => by
    simp at hx; subst hx
    rcases seq_cons k u m [] h with ⟨e, h'⟩ | ⟨_, e, eu, k1, h'⟩
    · have := seq_nil _ _ h'; omega
    · have := seq_nil _ _ h'; omega
  | m :: c :: rest, k, u, h, x, hx => by
    rw [List.getLast?_cons_cons] at hx
    rcases seq_cons k u m _ h with ⟨e, h'⟩ | ⟨_, e, eu, k1, h'⟩
    · exact seq_last _ _ _ h' x hx
    · exact seq_last _ _ _ h' x hx

theorem seq_head (u : Bool) (m : Int) (rest : List Int) (h : inYearSeqOk 0 u (m :: rest) = true) : m = 1 := by
  rcases seq_cons 0 u m rest h with ⟨e, _⟩ | ⟨_, _, _, k1, _⟩
  · omega
  · omega


/-! ## Prop forms of the structural checkers -/

structure StructP (y : Int) (ms : List MonthRec) : Prop where
  days : ∀ r ∈ ms, r.dayCount = 29 ∨ r.dayCount = 30
  seq : inYearSeqOk 0 false ((monthsInYear ms y).map (·.month)) = true
  total : (353 ≤ yearDayCount ms y ∧ yearDayCount ms y ≤ 355) ∨ (383 ≤ yearDayCount ms y ∧ yearDayCount ms y ≤ 385)
  len : ((monthsInYear ms y).length : Int) = if leapMonthOf ms y = 0 then 12 else 13

theorem structP_of (y : Int) (ms : List MonthRec) (h : yearStructOk y ms = true) : StructP y ms := by
  unfold yearStructOk at h
  simp only [Bool.and_eq_true, List.all_eq_true, Bool.or_eq_true, beq_iff_eq, decide_eq_true_eq] at h
  obtain ⟨⟨⟨⟨h1, h2⟩, h3⟩, _⟩, h5⟩ := h
  exact ⟨h1, h2, h3, h5⟩

theorem structP_year (A : Astro) (lo hi : Int) (h : AstroOK A lo hi) (y : Int) (hlo : lo ≤ y) (hhi : y ≤ hi)
    (hnr : isReformYear y = false) : StructP y (A y).months := by
  have := h.year y hlo hhi
  unfold yearOk at this
  simp only [Bool.and_eq_true, Bool.or_eq_true, hnr, Bool.false_eq_true, false_or] at this
  exact structP_of _ _ this.2

structure PairS (y : Int) (ms ms' : List MonthRec) : Prop where
  fwd : recordsAgree (fun _ => true) (y + 1) ms ms' = true
  bwd : recordsAgree (fun _ => true) y ms' ms = true
  pre : isPrefixOf' (monthsInYear ms (y + 1)) (monthsInYear ms' (y + 1)) = true
  suf : isPrefixOf' (monthsInYear ms' y).reverse (monthsInYear ms y).reverse = true
  link : monthsInYear ms' y ≠ [] ∨ monthsInYear ms (y + 1) ≠ []

theorem pairS_year (A : Astro) (lo hi : Int) (h : AstroOK A lo hi) (y : Int) (hlo : lo ≤ y) (hhi : y < hi)
    (hnr : isReformYear y = false) (hnr' : isReformYear (y + 1) = false) : PairS y (A y).months (A (y + 1)).months := by
  have := h.pair y hlo hhi
  unfold pairOk at this
  simp only [hnr, hnr', Bool.or_false, Bool.false_eq_true, if_false, Bool.and_eq_true] at this
  have hs := this.1.1
  unfold pairStructOk at hs
  simp only [Bool.and_eq_true, Bool.or_eq_true, Bool.not_eq_true', List.isEmpty_eq_false_iff] at hs
  exact ⟨hs.1.1.1.1, hs.1.1.1.2, hs.1.1.2, hs.1.2, hs.2⟩

theorem allAdj_get_nav {α : Type} (f : α → α → Bool) : ∀ (l : List α), allAdj f l = true →
    ∀ (i : Nat) (a b : α), l[i]? = some a → l[i + 1]? = some b → f a b = true
  | [], _, i, a, b, ha, _ => by simp at ha
  | [c], _, i, a, b, ha, hb => by simp at hb
  | c :: d :: rest, h, i, a, b, ha, hb => by
    simp only [allAdj, Bool.and_eq_true] at h
    cases i with
    | zero =>
      simp at ha hb
      subst ha hb
      exact h.1
    | succ i =>
      simp only [List.getElem?_cons_succ] at ha hb
      exact allAdj_get_nav f (d :: rest) h.2 i a b ha hb

theorem chain_own (Y : Int) : ∀ (ms : List MonthRec), allAdj chainF ms = true →
    ms.Pairwise (fun a b => a.year ≤ b.year) → allAdj chainF (monthsInYear ms Y) = true
  | [], _, _ => by simp [monthsInYear, allAdj]
  | [a], _, _ => by
    unfold monthsInYear
    rw [List.filter_cons]
    split <;> simp [allAdj]
  | a :: b :: rest, hc, hp => by
    simp only [allAdj, Bool.and_eq_true] at hc
    rw [List.pairwise_cons] at hp
    have ih := chain_own Y (b :: rest) hc.2 hp.2
    by_cases ca : a.year = Y
    · rw [fy_cons_pos a _ Y ca]
      by_cases cb : b.year = Y
      · rw [fy_cons_pos b _ Y cb] at ih ⊢
        simp only [allAdj, Bool.and_eq_true]
        exact ⟨hc.1, ih⟩
      · have hb := hp.1 b (by simp)
        have hnil : monthsInYear (b :: rest) Y = [] := by
          apply fy_nil_of
          intro x hx
          rw [List.pairwise_cons] at hp
          rcases List.mem_cons.1 hx with rfl | hx
          · exact cb
          · have := hp.2.1 x hx
            omega
        rw [hnil]
        simp [allAdj]
    · rw [fy_cons_neg a _ Y ca]
      exact ih


/-! ## structure of one year -/

theorem sortedY (y : Int) (ms : List MonthRec) (hc : CoreP y ms) : ms.Pairwise (fun a b => a.year ≤ b.year) :=
  (chain_pairwise ms hc.chain (coreP_pos y ms hc)).imp (fun h => h.2)

theorem own_distinct (y : Int) (ms : List MonthRec) (hc : CoreP y ms) (Y : Int) :
    (monthsInYear ms Y).Pairwise (fun a b => b.month ≠ a.month) := by
  unfold monthsInYear
  refine List.Pairwise.imp_of_mem ?_ (List.Pairwise.filter _ (labels_pairwise _ hc.distinct))
  intro a b ha hb hab e
  rw [List.mem_filter, beq_iff_eq] at ha hb
  exact hab ⟨by rw [ha.2, hb.2], e⟩

theorem own_len (y : Int) (ms : List MonthRec) (hs : StructP y ms) :
    (monthsInYear ms y).length = 12 ∨ (monthsInYear ms y).length = 13 := by
  have := hs.len
  split at this <;> omega

/-- STRUCTURE of a year (read off `yearStructOk`) -/
theorem year_structure (A : Astro) (lo hi : Int) (h : AstroOK A lo hi) (y : Int) (hlo : lo ≤ y) (hhi : y ≤ hi) (hnr : isReformYear y = false) :
    let own := monthsInYear (A y).months y
    (own.filter (fun r => decide (r.month > 0))).map (·.month) = [1,2,3,4,5,6,7,8,9,10,11,12] ∧
    (own.filter (fun r => decide (r.month < 0))).length ≤ 1 ∧
    (∀ i, ∀ r q, own[i]? = some r → own[i+1]? = some q → q.month < 0 → q.month = -r.month) ∧
    (∀ r ∈ own, r.dayCount = 29 ∨ r.dayCount = 30) ∧
    (∀ i r q, own[i]? = some r → own[i+1]? = some q → q.first = r.first + r.dayCount) ∧
    ((353 ≤ yearDayCount (A y).months y ∧ yearDayCount (A y).months y ≤ 355) ∨ (383 ≤ yearDayCount (A y).months y ∧ yearDayCount (A y).months y ≤ 385)) ∧
    ((own.length : Int) = if leapMonthOf (A y).months y = 0 then 12 else 13) := by
  intro own
  have hc := coreP_year A lo hi h y hlo hhi
  have hs := structP_year A lo hi h y hlo hhi hnr
  refine ⟨?_, ?_, ?_, ?_, ?_, hs.total, hs.len⟩
  · have := seq_pos _ 0 false (by omega) hs.seq
    rw [List.filter_map] at this
    exact this
  · have := seq_neg _ 0 false (by omega) hs.seq
    rw [List.filter_map, List.length_map] at this
    exact this
  · intro i r q hr hq hneg
    have := (seq_adj _ 0 false (by omega) hs.seq).2 i r.month q.month
      (by rw [List.getElem?_map, hr]; rfl) (by rw [List.getElem?_map, hq]; rfl) hneg
    exact this
  · intro r hr
    exact hs.days r ((fy_mem _ _ _).1 hr).1
  · intro i r q hr hq
    have := allAdj_get_nav chainF _ (chain_own y _ hc.chain (sortedY y _ hc)) i r q hr hq
    exact ((chainF_iff r q).1 this).1

/-- the month tables computed for neighbouring years agree on every month they share -/
theorem neighbours_agree (A : Astro) (lo hi : Int) (h : AstroOK A lo hi) (y : Int) (hlo : lo ≤ y) (hhi : y < hi)
    (hnr : isReformYear y = false) (hnr' : isReformYear (y + 1) = false) (r : MonthRec) :
    (r ∈ (A y).months → r.year = y + 1 → ∃ q, findMonth (A (y+1)).months (y+1) r.month = some q ∧ q.first = r.first ∧ q.dayCount = r.dayCount) ∧
    (r ∈ (A (y+1)).months → r.year = y → ∃ q, findMonth (A y).months y r.month = some q ∧ q.first = r.first ∧ q.dayCount = r.dayCount) := by
  have hp := pairS_year A lo hi h y hlo hhi hnr hnr'
  exact ⟨fun hr e => recordsAgree_spec _ _ _ _ hp.fwd r hr e rfl, fun hr e => recordsAgree_spec _ _ _ _ hp.bwd r hr e rfl⟩

/-! ## decomposition of a table into the months of the previous, own and next year -/

theorem dec3 (Y : Int) : ∀ (ms : List MonthRec), ms.Pairwise (fun a b => a.year ≤ b.year) →
    (∀ r ∈ ms, r.year = Y - 1 ∨ r.year = Y ∨ r.year = Y + 1) →
    ms = monthsInYear ms (Y - 1) ++ monthsInYear ms Y ++ monthsInYear ms (Y + 1)
  | [], _, _ => by simp [monthsInYear]
  | a :: rest, hp, hy => by
    rw [List.pairwise_cons] at hp
    have ih := dec3 Y rest hp.2 (fun r hr => hy r (List.mem_cons_of_mem _ hr))
    rcases hy a (by simp) with e | e | e
    · rw [fy_cons_pos a rest _ e, fy_cons_neg a rest Y (by omega), fy_cons_neg a rest (Y + 1) (by omega)]
      simp only [List.cons_append]
      rw [← ih]
    · have h1 : monthsInYear rest (Y - 1) = [] := fy_nil_of _ _ (fun x hx => by have := hp.1 x hx; omega)
      rw [fy_cons_neg a rest (Y - 1) (by omega), fy_cons_pos a rest _ e, fy_cons_neg a rest (Y + 1) (by omega), h1]
      rw [h1] at ih
      simp only [List.nil_append, List.cons_append] at ih ⊢
      rw [← ih]
    · have h1 : monthsInYear rest (Y - 1) = [] := fy_nil_of _ _ (fun x hx => by have := hp.1 x hx; omega)
      have h2 : monthsInYear rest Y = [] := fy_nil_of _ _ (fun x hx => by have := hp.1 x hx; omega)
      rw [fy_cons_neg a rest (Y - 1) (by omega), fy_cons_neg a rest Y (by omega), fy_cons_pos a rest _ e, h1, h2]
      rw [h1, h2] at ih
      simp only [List.nil_append] at ih ⊢
      rw [← ih]

theorem dec3_core (Y : Int) (ms : List MonthRec) (hc : CoreP Y ms) :
    ms = monthsInYear ms (Y - 1) ++ monthsInYear ms Y ++ monthsInYear ms (Y + 1) :=
  dec3 Y ms (sortedY Y ms hc) (fun r hr => (hc.recs r hr).2.2.1)

theorem allAdj_mid {α : Type} (f : α → α → Bool) : ∀ (X : List α) (a b : α) (Z : List α),
    allAdj f (X ++ a :: b :: Z) = true → f a b = true
  | [], a, b, Z, h => by
    simp only [List.nil_append, allAdj, Bool.and_eq_true] at h
    exact h.1
  | [c], a, b, Z, h => by
    simp only [List.cons_append, List.nil_append, allAdj, Bool.and_eq_true] at h
    exact h.2.1
  | c :: d :: X, a, b, Z, h => by
    simp only [List.cons_append, allAdj, Bool.and_eq_true] at h
    exact allAdj_mid f (d :: X) a b Z h.2

theorem exists_concat {α : Type} (l : List α) (a : α) (h : l.getLast? = some a) : ∃ X, l = X ++ [a] := by
  rw [List.getLast?_eq_head?_reverse] at h
  cases hr : l.reverse with
  | nil => rw [hr] at h; simp at h
  | cons c t =>
    rw [hr] at h
    simp at h
    subst h
    refine ⟨t.reverse, ?_⟩
    have := congrArg List.reverse hr
    simpa using this

/-! ## gluing two adjacent years -/

/-- everything the checkers say about one non-reform year -/
structure GoodY (A : Astro) (y : Int) : Prop where
  core : CoreP y (A y).months
  str : StructP y (A y).months

/-- everything the checkers say about two adjacent non-reform years -/
structure GoodP (A : Astro) (y : Int) : Prop where
  ps : PairS y (A y).months (A (y + 1)).months
  pp : PairP y (A y).months (A (y + 1)).months

theorem goodY_of (A : Astro) (lo hi : Int) (h : AstroOK A lo hi) (y : Int) (hlo : lo ≤ y) (hhi : y ≤ hi)
    (hnr : isReformYear y = false) : GoodY A y :=
  ⟨coreP_year A lo hi h y hlo hhi, structP_year A lo hi h y hlo hhi hnr⟩

theorem goodP_of (A : Astro) (lo hi : Int) (h : AstroOK A lo hi) (y : Int) (hlo : lo ≤ y) (hhi : y < hi)
    (hnr : isReformYear y = false) (hnr' : isReformYear (y + 1) = false) : GoodP A y :=
  ⟨pairS_year A lo hi h y hlo hhi hnr hnr', pairP_year A lo hi h y hlo hhi⟩

theorem own_last (A : Astro) (y : Int) (g : GoodY A y) :
    ∃ X last, monthsInYear (A y).months y = X ++ [last] ∧ (last.month = 12 ∨ last.month = -12) := by
  have hl := own_len y _ g.str
  cases hg : (monthsInYear (A y).months y).getLast? with
  | none =>
    rw [List.getLast?_eq_none_iff] at hg
    rw [hg] at hl; simp at hl
  | some last =>
    obtain ⟨X, hX⟩ := exists_concat _ _ hg
    refine ⟨X, last, hX, ?_⟩
    have := seq_last _ 0 false g.str.seq last.month (by rw [List.getLast?_map, hg]; rfl)
    exact this

theorem own_first (A : Astro) (y : Int) (g : GoodY A y) :
    ∃ first R, monthsInYear (A y).months y = first :: R ∧ first.month = 1 ∧ findMonth (A y).months y 1 = some first := by
  have hl := own_len y _ g.str
  have hseq := g.str.seq
  cases ho : monthsInYear (A y).months y with
  | nil => rw [ho] at hl; simp at hl
  | cons first R =>
    rw [ho] at hseq
    have hm : first.month = 1 := seq_head false first.month _ hseq
    refine ⟨first, R, rfl, hm, ?_⟩
    have hmem : first ∈ monthsInYear (A y).months y := by rw [ho]; simp
    obtain ⟨m1, m2⟩ := (fy_mem _ _ _).1 hmem
    have := findMonth_self _ g.core.distinct first m1
    rw [m2, hm] at this
    exact this

theorem glue (A : Astro) (y : Int) (g : GoodY A y) (g' : GoodY A (y + 1)) (gp : GoodP A y)
    (X : List MonthRec) (last first : MonthRec) (R : List MonthRec)
    (hX : monthsInYear (A y).months y = X ++ [last]) (hR : monthsInYear (A (y + 1)).months (y + 1) = first :: R) :
    first.first = last.first + last.dayCount := by
  have hd := dec3_core y _ g.core
  have hd' := dec3_core (y + 1) _ g'.core
  rw [show y + 1 - 1 = y by omega] at hd'
  rw [hX] at hd
  rw [hR] at hd'
  by_cases c1 : monthsInYear (A (y + 1)).months y = []
  · by_cases c2 : monthsInYear (A y).months (y + 1) = []
    · -- degenerate: no shared month at all; the civil-year coverage forces the glue
      rw [c2] at hd
      rw [c1] at hd'
      simp only [List.append_nil, List.nil_append] at hd hd'
      obtain ⟨h0, l0, hh, hl, e1, e2⟩ := g.core.ends
      obtain ⟨h0', l0', hh', hl', e1', e2'⟩ := g'.core.ends
      have el : l0 = last := by
        rw [hd, ← List.append_assoc, List.getLast?_concat] at hl
        cases hl; rfl
      have eh : h0' = first := by
        rw [hd'] at hh'
        simp at hh'
        exact hh'.symm
      subst el eh
      have lm : l0 ∈ (A y).months := List.mem_of_getLast? hl
      have fm : h0' ∈ (A (y + 1)).months := List.mem_of_head? hh'
      have hdd : ∀ r ∈ (A y).months, 1 ≤ r.dayCount ∧ r.dayCount ≤ 30 := fun r hr => by have := g.core.recs r hr; omega
      have hdd' : ∀ r ∈ (A (y + 1)).months, 1 ≤ r.dayCount ∧ r.dayCount ≤ 30 := fun r hr => by have := g'.core.recs r hr; omega
      have s1 := chain_span _ h0 g.core.chain hh hdd l0 lm
      have s2 := chain_span _ h0' g'.core.chain hh' hdd' l0' (List.mem_of_getLast? hl')
      rw [g.core.len] at s1
      rw [g'.core.len] at s2
      have d1 := jdn_dec31 y
      have d2 := jdn_dec31 (y + 1)
      have y2 := yearStart_mono 2 y
      rw [show y + ((2 : Nat) : Int) = y + 1 + 1 by omega] at y2
      have ly : l0.year = y := ((fy_mem _ _ _).1 (by rw [hX]; simp)).2
      have fy : h0'.year = y + 1 := ((fy_mem _ _ _).1 (by rw [hR]; simp)).2
      have := hdd l0 lm
      have := hdd' h0' fm
      false_or_by_contra
      rename_i hne
      by_cases c3 : jdn (y + 1) 1 1 < l0.first + l0.dayCount
      · have ov : overlapsCivil (y + 1) l0 = true := by
          unfold overlapsCivil
          simp only [Bool.and_eq_true, decide_eq_true_eq]
          omega
        obtain ⟨q, q1, _, _⟩ := gp.pp.img1 l0 lm ly ov
        obtain ⟨qm, qy, _⟩ := findMonth_some _ _ _ _ q1
        have : q ∈ monthsInYear (A (y + 1)).months y := (fy_mem _ _ _).2 ⟨qm, qy⟩
        rw [c1] at this
        simp at this
      · have ov : overlapsCivil y h0' = true := by
          unfold overlapsCivil
          simp only [Bool.and_eq_true, decide_eq_true_eq]
          omega
        obtain ⟨q, q1, _, _⟩ := gp.pp.img2 h0' fm fy ov
        obtain ⟨qm, qy, _⟩ := findMonth_some _ _ _ _ q1
        have : q ∈ monthsInYear (A y).months (y + 1) := (fy_mem _ _ _).2 ⟨qm, qy⟩
        rw [c2] at this
        simp at this
    · -- table y holds the first month(s) of year y+1
      cases hpost : monthsInYear (A y).months (y + 1) with
      | nil => exact absurd hpost c2
      | cons b P =>
        rw [hpost] at hd
        have hch : allAdj chainF ((monthsInYear (A y).months (y - 1) ++ X) ++ last :: b :: P) = true := by
          have := g.core.chain
          rw [hd] at this
          simpa [List.append_assoc] using this
        have hlb := (chainF_iff _ _).1 (allAdj_mid chainF _ last b P hch)
        have hpre := gp.ps.pre
        rw [hpost, hR] at hpre
        obtain ⟨b', bs, e, hs, _⟩ := prefix_cons_inv b P _ hpre
        cases e
        rw [← hs.2.2.1]
        exact hlb.1
  · -- table y+1 holds the last month(s) of year y
    cases hpre : (monthsInYear (A (y + 1)).months y).getLast? with
    | none => rw [List.getLast?_eq_none_iff] at hpre; exact absurd hpre c1
    | some c =>
      obtain ⟨X', hX'⟩ := exists_concat _ _ hpre
      rw [hX'] at hd'
      have hch : allAdj chainF (X' ++ c :: first :: (R ++ monthsInYear (A (y + 1)).months (y + 1 + 1))) = true := by
        have := g'.core.chain
        rw [hd'] at this
        simpa [List.append_assoc] using this
      have hcf := (chainF_iff _ _).1 (allAdj_mid chainF _ c first _ hch)
      have hsuf := gp.ps.suf
      rw [hX', hX] at hsuf
      simp only [List.reverse_append, List.reverse_cons, List.reverse_nil, List.nil_append, List.cons_append] at hsuf
      obtain ⟨c', bs, e, hs, _⟩ := prefix_cons_inv c _ _ hsuf
      cases e
      rw [← hs.2.2.1, ← hs.2.2.2]
      exact hcf.1

/-- NEW YEAR'S EVE is followed by day 1 of month 1 of the next year -/
theorem new_years_eve (A : Astro) (lo hi : Int) (h : AstroOK A lo hi) (y : Int) (hlo : lo ≤ y) (hhi : y < hi)
    (hnr : isReformYear y = false) (hnr' : isReformYear (y + 1) = false) :
    ∃ last first, (monthsInYear (A y).months y).getLast? = some last ∧ findMonth (A (y+1)).months (y+1) 1 = some first ∧
      (last.month = 12 ∨ last.month = -12) ∧ first.first = last.first + last.dayCount := by
  have g := goodY_of A lo hi h y hlo (by omega) hnr
  have g' := goodY_of A lo hi h (y + 1) (by omega) (by omega) hnr'
  have gp := goodP_of A lo hi h y hlo hhi hnr hnr'
  obtain ⟨X, last, hX, hm⟩ := own_last A y g
  obtain ⟨first, R, hR, _, hf⟩ := own_first A (y + 1) g'
  exact ⟨last, first, by rw [hX, List.getLast?_concat], hf, hm, glue A y g g' gp X last first R hX hR⟩

/-! ## the successor of a month -/

/-- `succMonth` of the last own month of year y is the first own month (month 1) of year y+1;
otherwise the next own month of the same year -/
def succMonth (A : Astro) (y m : Int) : Option (Int × Int) :=
  let own := monthsInYear (A y).months y
  match own.findIdx? (fun r => r.month == m) with
  | none => none
  | some i => match own[i+1]? with
    | some q => some (y, q.month)
    | none => (monthsInYear (A (y+1)).months (y+1)).head?.map (fun q => (y + 1, q.month))

theorem succ_same (A : Astro) (Y : Int) (g : GoodY A Y) (k : Nat) (a b : MonthRec)
    (ha : (monthsInYear (A Y).months Y)[k]? = some a) (hb : (monthsInYear (A Y).months Y)[k + 1]? = some b) :
    succMonth A Y a.month = some (Y, b.month) := by
  unfold succMonth
  simp only
  rw [findIdx_of_get _ k a (own_distinct Y _ g.core Y) ha]
  simp only [hb]

theorem succ_cross (A : Astro) (Y Y' : Int) (hY : Y' = Y + 1) (g : GoodY A Y) (k : Nat) (a b : MonthRec)
    (ha : (monthsInYear (A Y).months Y)[k]? = some a) (hk : k + 1 = (monthsInYear (A Y).months Y).length)
    (hb : (monthsInYear (A Y').months Y')[0]? = some b) :
    succMonth A Y a.month = some (Y', b.month) := by
  subst hY
  unfold succMonth
  simp only
  rw [findIdx_of_get _ k a (own_distinct Y _ g.core Y) ha]
  have hn : (monthsInYear (A Y).months Y)[k + 1]? = none := by
    rw [List.getElem?_eq_none_iff]; omega
  simp only [hn]
  rw [List.head?_eq_getElem?, hb]
  rfl

theorem drop_eq_cons {α : Type} : ∀ (l : List α) (j : Nat) (b : α), l[j]? = some b → l.drop j = b :: l.drop (j + 1)
  | [], j, b, h => by simp at h
  | c :: l, 0, b, h => by simp at h; simp [h]
  | c :: l, j + 1, b, h => by
    simp at h
    simpa using drop_eq_cons l j b h

theorem sorted_before (l : List MonthRec) (hp : l.Pairwise (fun a b => a.year ≤ b.year)) (i : Nat) (a : MonthRec)
    (h : l[i]? = some a) : ∀ x ∈ l.take (i + 1), x.year ≤ a.year := by
  intro x hx
  rw [List.take_add_one, h] at hx
  simp only [Option.toList_some, List.mem_append, List.mem_singleton] at hx
  rcases hx with hx | rfl
  · exact (pairwise_take_drop _ l hp i a h).1 x hx
  · omega

theorem sorted_after (l : List MonthRec) (hp : l.Pairwise (fun a b => a.year ≤ b.year)) (i : Nat) (a : MonthRec)
    (h : l[i]? = some a) : ∀ x ∈ l.drop i, a.year ≤ x.year := by
  intro x hx
  rw [drop_eq_cons l i a h] at hx
  rcases List.mem_cons.1 hx with rfl | hx
  · omega
  · exact (pairwise_take_drop _ l hp i a h).2 x hx

/-- predicate "labelled with year Y" -/
abbrev PY (Y : Int) : MonthRec → Bool := fun r => r.year == Y

theorem own_eq_filter (ms : List MonthRec) (Y : Int) : monthsInYear ms Y = ms.filter (PY Y) := rfl

theorem goodP_pred (A : Astro) (ny : Int) (gp : GoodP A (ny - 1)) : PairS (ny - 1) (A (ny - 1)).months (A ny).months := by
  have := gp.ps
  rwa [show ny - 1 + 1 = ny by omega] at this

/-- consecutive records of one table are consecutive months -/
theorem window (A : Astro) (ny : Int) (gm : GoodY A (ny - 1)) (g : GoodY A ny) (gn : GoodY A (ny + 1))
    (gpm : GoodP A (ny - 1)) (gp : GoodP A ny) (i : Nat) (a b : MonthRec)
    (ha : (A ny).months[i]? = some a) (hb : (A ny).months[i + 1]? = some b) :
    succMonth A a.year a.month = some (b.year, b.month) := by
  have hs := sortedY ny _ g.core
  have hab : a.year ≤ b.year := ((chainF_iff a b).1 (allAdj_get_nav chainF _ g.core.chain i a b ha hb)).2
  have ya := (g.core.recs a (List.mem_of_getElem? ha)).2.2.1
  have yb := (g.core.recs b (List.mem_of_getElem? hb)).2.2.1
  have bef := sorted_before _ hs i a ha
  have aft := sorted_after _ hs (i + 1) b hb
  by_cases e : a.year = b.year
  · -- same year
    have pa : PY a.year a = true := by simp [PY]
    have pb : PY a.year b = true := by simp [PY, e]
    have ga := fpos_get (PY a.year) _ i a ha pa
    have gb := fpos_get (PY a.year) _ (i + 1) b hb pb
    rw [fpos_succ (PY a.year) _ i a ha, pa, if_pos rfl] at gb
    rw [← own_eq_filter] at ga gb
    rw [← e]
    rcases ya with y1 | y1 | y1
    · -- both in the head part: a suffix of year ny-1's own months
      have suf := (goodP_pred A ny gpm).suf
      rw [← y1] at suf
      obtain ⟨_, a', ha', sa⟩ := suffix_get _ _ suf _ a ga
      obtain ⟨_, b', hb', sb⟩ := suffix_get _ _ suf _ b gb
      have := succ_same A a.year (by rw [y1]; exact gm) _ a' b' ha' (by rw [Nat.add_assoc]; exact hb')
      rw [← sa.2.1, ← sb.2.1] at this
      exact this
    · exact succ_same A a.year (by rw [y1]; exact g) _ a b (by rw [y1] at ga ⊢; exact ga) (by rw [y1] at gb ⊢; exact gb)
    · have pre := gp.ps.pre
      rw [← y1] at pre
      obtain ⟨a', ha', sa⟩ := prefix_get _ _ pre _ a ga
      obtain ⟨b', hb', sb⟩ := prefix_get _ _ pre _ b gb
      have := succ_same A a.year (by rw [y1]; exact gn) _ a' b' ha' hb'
      rw [← sa.2.1, ← sb.2.1] at this
      exact this
  · -- year boundary
    have pa : PY a.year a = true := by simp [PY]
    have pb : PY b.year b = true := by simp [PY]
    have ga := fpos_get (PY a.year) _ i a ha pa
    have gb := fpos_get (PY b.year) _ (i + 1) b hb pb
    have ea := fpos_end (PY a.year) (A ny).months (i + 1) (fun x hx => by have := aft x hx; simp [PY]; omega)
    rw [fpos_succ (PY a.year) _ i a ha, pa, if_pos rfl] at ea
    have zb := fpos_zero (PY b.year) (A ny).months (i + 1) (fun x hx => by have := bef x hx; simp [PY]; omega)
    rw [zb] at gb
    rw [← own_eq_filter] at ga gb ea
    by_cases y1 : a.year = ny
    · have y2 : b.year = ny + 1 := by omega
      have pre := gp.ps.pre
      rw [← y2] at pre
      obtain ⟨b', hb', sb⟩ := prefix_get _ _ pre _ b gb
      have := succ_cross A a.year b.year (by omega) (by rw [y1]; exact g) _ a b'
        (by rw [y1] at ga ⊢; exact ga) (by rw [y1] at ea ⊢; exact ea.symm) hb'
      rw [← sb.2.1] at this
      exact this
    · by_cases y2 : b.year = ny
      · have y1' : a.year = ny - 1 := by omega
        have suf := (goodP_pred A ny gpm).suf
        rw [← y1'] at suf
        obtain ⟨hle, a', ha', sa⟩ := suffix_get _ _ suf _ a ga
        have := succ_cross A a.year b.year (by omega) (by rw [y1']; exact gm) _ a' b ha' (by omega)
          (by rw [y2] at gb ⊢; exact gb)
        rw [← sa.2.1] at this
        exact this
      · -- year ny would have no month at all
        exfalso
        have y1' : a.year = ny - 1 := by omega
        have y2' : b.year = ny + 1 := by omega
        have e0 := fpos_end (PY ny) (A ny).months (i + 1) (fun x hx => by have := aft x hx; simp [PY]; omega)
        have z0 := fpos_zero (PY ny) (A ny).months (i + 1) (fun x hx => by have := bef x hx; simp [PY]; omega)
        rw [z0, ← own_eq_filter] at e0
        have := own_len ny _ g.str
        omega

/-! ## canonical records, iterated successor -/

/-- the record `q` agrees with the one its own year's table holds for its label -/
def Canon (A : Astro) (q : MonthRec) : Prop :=
  ∃ t, findMonth (A q.year).months q.year q.month = some t ∧ t.first = q.first ∧ t.dayCount = q.dayCount

theorem canon_of (A : Astro) (ny : Int) (g : GoodY A ny) (gpm : GoodP A (ny - 1)) (gp : GoodP A ny)
    (a : MonthRec) (ha : a ∈ (A ny).months) : Canon A a := by
  rcases (g.core.recs a ha).2.2.1 with e | e | e
  · have := recordsAgree_spec _ _ _ _ (goodP_pred A ny gpm).bwd a ha e rfl
    unfold Canon; rw [e]; exact this
  · have := findMonth_self _ g.core.distinct a ha
    unfold Canon
    rw [e] at this ⊢
    exact ⟨a, this, rfl, rfl⟩
  · have := recordsAgree_spec _ _ _ _ gp.ps.fwd a ha e rfl
    unfold Canon; rw [e]; exact this

theorem succ_year (A : Astro) (y m y' m' : Int) (h : succMonth A y m = some (y', m')) : y' = y ∨ y' = y + 1 := by
  unfold succMonth at h
  simp only at h
  split at h
  · cases h
  · split at h
    · cases h; exact Or.inl rfl
    · cases hh : (monthsInYear (A (y + 1)).months (y + 1)).head? with
      | none => rw [hh] at h; cases h
      | some q => rw [hh] at h; cases h; exact Or.inr rfl

/-- what `succMonth` returns for a month that exists -/
theorem succ_spec (A : Astro) (y : Int) (g : GoodY A y) (g' : GoodY A (y + 1)) (gp : GoodP A y) (m : Int) (r : MonthRec)
    (hr : findMonth (A y).months y m = some r) :
    ∃ y' m' t, succMonth A y m = some (y', m') ∧ findMonth (A y').months y' m' = some t ∧
      t.first = r.first + r.dayCount ∧ (y' = y ∨ y' = y + 1) := by
  obtain ⟨rm, ry, rmo⟩ := findMonth_some _ _ _ _ hr
  have hmem : r ∈ monthsInYear (A y).months y := (fy_mem _ _ _).2 ⟨rm, ry⟩
  obtain ⟨k, hk⟩ := List.getElem?_of_mem hmem
  cases hn : (monthsInYear (A y).months y)[k + 1]? with
  | some b =>
    have hs := succ_same A y g k r b hk hn
    rw [rmo] at hs
    obtain ⟨bm, by_⟩ := (fy_mem _ _ _).1 (List.mem_of_getElem? hn)
    have hf := findMonth_self _ g.core.distinct b bm
    rw [by_] at hf
    have hch := allAdj_get_nav chainF _ (chain_own y _ g.core.chain (sortedY y _ g.core)) k r b hk hn
    exact ⟨y, b.month, b, hs, hf, ((chainF_iff r b).1 hch).1, Or.inl rfl⟩
  | none =>
    rw [List.getElem?_eq_none_iff] at hn
    have hkl : k < (monthsInYear (A y).months y).length := (List.getElem?_eq_some_iff.1 hk).1
    obtain ⟨first, R, hR, fm, ff⟩ := own_first A (y + 1) g'
    obtain ⟨X, last, hX, _⟩ := own_last A y g
    have hs := succ_cross A y (y + 1) rfl g k r first hk (by omega) (by rw [hR]; rfl)
    rw [rmo, fm] at hs
    have hgl := glue A y g g' gp X last first R hX hR
    have el : last = r := by
      rw [hX] at hk hn hkl
      simp only [List.length_append, List.length_singleton] at hn hkl
      have : k = X.length := by omega
      subst this
      simp at hk
      exact hk
    rw [el] at hgl
    exact ⟨y + 1, 1, first, hs, ff, hgl, Or.inr rfl⟩

/-- `n` successor steps -/
def succN (A : Astro) : Nat → Int × Int → Option (Int × Int)
  | 0, l => some l
  | n + 1, l => (succN A n l).bind (fun l' => succMonth A l'.1 l'.2)

theorem succN_add (A : Astro) (l : Int × Int) (d : Nat) : ∀ (e : Nat), succN A (d + e) l = (succN A d l).bind (succN A e)
  | 0 => by
    cases h : succN A d l <;> simp [succN]
  | e + 1 => by
    rw [← Nat.add_assoc]
    simp only [succN]
    rw [succN_add A l d e]
    cases h : succN A d l <;> simp

theorem succN_year (A : Astro) (l : Int × Int) : ∀ (n : Nat) (l' : Int × Int), succN A n l = some l' →
    l.1 ≤ l'.1 ∧ l'.1 ≤ l.1 + n
  | 0, l', h => by simp [succN] at h; subst h; simp
  | n + 1, l', h => by
    simp only [succN] at h
    cases hm : succN A n l with
    | none => rw [hm] at h; simp at h
    | some l1 =>
      rw [hm] at h
      simp only [Option.bind_some] at h
      have ih := succN_year A l n l1 hm
      have := succ_year A l1.1 l1.2 l'.1 l'.2 h
      push_cast
      omega

theorem findIdx_label : ∀ (L : List MonthRec) (k : Nat) (a : MonthRec),
    L.Pairwise (fun x y => ¬ (y.year = x.year ∧ y.month = x.month)) → L[k]? = some a →
    L.findIdx? (fun r => r.year == a.year && r.month == a.month) = some k
  | [], k, a, _, h => by simp at h
  | c :: L, 0, a, _, h => by simp at h; subst h; simp [List.findIdx?_cons]
  | c :: L, k + 1, a, hp, h => by
    simp at h
    rw [List.pairwise_cons] at hp
    have hm : a ∈ L := List.mem_of_getElem? h
    have hne : (c.year == a.year && c.month == a.month) = false := by
      rw [Bool.and_eq_false_iff, beq_eq_false_iff_ne, beq_eq_false_iff_ne]
      have := hp.1 a hm
      false_or_by_contra
      rename_i c1
      simp only [not_or, Decidable.not_not] at c1
      exact this ⟨c1.1.symm, c1.2.symm⟩
    rw [List.findIdx?_cons, hne]
    simp [findIdx_label L k a hp.2 h]

theorem indexIn_get (y : Int) (ms : List MonthRec) (hc : CoreP y ms) (i : Nat) (a : MonthRec) (ha : ms[i]? = some a) (d : Nat) :
    indexIn ms a.year a.month d = i := by
  unfold indexIn
  rw [findIdx_label ms i a (labels_pairwise ms hc.distinct) ha]

/-- walking `d` records to the right inside one table = `d` successor steps -/
theorem window_n (A : Astro) (ny : Int) (gm : GoodY A (ny - 1)) (g : GoodY A ny) (gn : GoodY A (ny + 1))
    (gpm : GoodP A (ny - 1)) (gp : GoodP A ny) (i : Nat) (a : MonthRec) (ha : (A ny).months[i]? = some a) :
    ∀ (d : Nat) (c : MonthRec), (A ny).months[i + d]? = some c → succN A d (a.year, a.month) = some (c.year, c.month)
  | 0, c, hc => by
    rw [Nat.add_zero, ha] at hc
    cases hc
    rfl
  | d + 1, c, hc => by
    have hlt : i + (d + 1) < (A ny).months.length := (List.getElem?_eq_some_iff.1 hc).1
    have hex : ∃ b, (A ny).months[i + d]? = some b := ⟨(A ny).months[i + d]'(by omega), List.getElem?_eq_getElem (by omega)⟩
    obtain ⟨b, hb⟩ := hex
    have ih := window_n A ny gm g gn gpm gp i a ha d b hb
    simp only [succN]
    rw [ih]
    exact window A ny gm g gn gpm gp (i + d) b c hb hc

/-! ## crossing to the next table -/

theorem post_small (A : Astro) (ny : Int) (g : GoodY A ny) : (monthsInYear (A ny).months (ny + 1)).length ≤ 3 := by
  have := disjoint_filter_len (PY ny) (PY (ny + 1)) (A ny).months (fun x _ hx => by
    simp only [PY, beq_iff_eq] at hx
    omega)
  rw [← own_eq_filter, ← own_eq_filter, g.core.len] at this
  have := own_len ny _ g.str
  omega

theorem pre_small (A : Astro) (ny : Int) (g : GoodY A ny) : (monthsInYear (A ny).months (ny - 1)).length ≤ 3 := by
  have := disjoint_filter_len (PY ny) (PY (ny - 1)) (A ny).months (fun x _ hx => by
    simp only [PY, beq_iff_eq] at hx
    omega)
  rw [← own_eq_filter, ← own_eq_filter, g.core.len] at this
  have := own_len ny _ g.str
  omega

/-- the label of the last record of table `ny` is found in table `ny+1`, with at least two records after it -/
theorem jump_fwd (A : Astro) (ny : Int) (g : GoodY A ny) (gn : GoodY A (ny + 1)) (gp : GoodP A ny)
    (last : MonthRec) (hl : (A ny).months[14]? = some last) :
    ∃ i' a2, (A (ny + 1)).months[i']? = some a2 ∧ a2.year = last.year ∧ a2.month = last.month ∧ i' ≤ 12 := by
  have hs := sortedY ny _ g.core
  have hs' := sortedY (ny + 1) _ gn.core
  have bef := sorted_before _ hs 14 last hl
  rw [List.take_of_length_le (by rw [g.core.len]; omega)] at bef
  have lm := List.mem_of_getElem? hl
  have ol := own_len ny _ g.str
  have ol' := own_len (ny + 1) _ gn.str
  rcases (g.core.recs last lm).2.2.1 with e | e | e
  · exfalso
    have : monthsInYear (A ny).months ny = [] := fy_nil_of _ _ (fun x hx => by have := bef x hx; omega)
    rw [this] at ol
    simp at ol
  · -- the last record is the last month of year ny: table ny+1 starts with it (link)
    have hpost : monthsInYear (A ny).months (ny + 1) = [] := fy_nil_of _ _ (fun x hx => by have := bef x hx; omega)
    have hpre : monthsInYear (A (ny + 1)).months ny ≠ [] := by
      rcases gp.ps.link with l1 | l1
      · exact l1
      · exact absurd hpost l1
    cases hg : (monthsInYear (A (ny + 1)).months ny).getLast? with
    | none => rw [List.getLast?_eq_none_iff] at hg; exact absurd hg hpre
    | some c =>
      have hgi := hg
      rw [List.getLast?_eq_getElem?] at hgi
      obtain ⟨hle, c', hc', sc⟩ := suffix_get _ _ gp.ps.suf _ c hgi
      have plen : 0 < (monthsInYear (A (ny + 1)).months ny).length := List.length_pos_iff.2 hpre
      -- `last` is the last own month of year ny
      have pl : PY ny last = true := by simp [PY, e]
      have gl := fpos_get (PY ny) _ 14 last hl pl
      have el := fpos_end (PY ny) (A ny).months 15 (fun x hx => by
        rw [List.drop_of_length_le (by rw [g.core.len]; omega)] at hx; simp at hx)
      rw [fpos_succ (PY ny) _ 14 last hl, pl, if_pos rfl] at el
      rw [← own_eq_filter] at gl el
      have : c' = last := by
        rw [show (monthsInYear (A ny).months ny).length - (monthsInYear (A (ny + 1)).months ny).length +
          ((monthsInYear (A (ny + 1)).months ny).length - 1) = fpos (PY ny) (A ny).months 14 by omega] at hc'
        rw [gl] at hc'
        cases hc'; rfl
      subst this
      obtain ⟨cm, cy⟩ := (fy_mem _ _ _).1 (List.mem_of_getLast? hg)
      obtain ⟨i', hi'⟩ := List.getElem?_of_mem cm
      refine ⟨i', c, hi', sc.1, sc.2.1, ?_⟩
      have bef' := sorted_before _ hs' i' c hi'
      have z := fpos_zero (PY (ny + 1)) (A (ny + 1)).months (i' + 1) (fun x hx => by
        have := bef' x hx; simp [PY]; omega)
      have il : i' < (A (ny + 1)).months.length := (List.getElem?_eq_some_iff.1 hi').1
      have room := fpos_room (PY (ny + 1)) (A (ny + 1)).months (i' + 1) (by omega)
      rw [z, ← own_eq_filter, gn.core.len] at room
      omega
  · -- the last record is a month of year ny+1: found in its own table
    obtain ⟨t, ht, _, _⟩ := recordsAgree_spec _ _ _ _ gp.ps.fwd last lm e rfl
    obtain ⟨tm, ty, tmo⟩ := findMonth_some _ _ _ _ ht
    obtain ⟨i', hi'⟩ := List.getElem?_of_mem tm
    refine ⟨i', t, hi', by omega, tmo, ?_⟩
    have pt : PY (ny + 1) t = true := by simp [PY, ty]
    have pl : PY (ny + 1) last = true := by simp [PY, e]
    have gt := fpos_get (PY (ny + 1)) _ i' t hi' pt
    have gl := fpos_get (PY (ny + 1)) _ 14 last hl pl
    rw [← own_eq_filter] at gt gl
    obtain ⟨l', hl', sl⟩ := prefix_get _ _ gp.ps.pre _ last gl
    have d := own_distinct (ny + 1) _ gn.core (ny + 1)
    have f1 := findIdx_of_get _ _ t d gt
    have f2 := findIdx_of_get _ _ l' d hl'
    rw [← sl.2.1, ← tmo, f1] at f2
    have kp : fpos (PY (ny + 1)) (A ny).months 14 < (monthsInYear (A ny).months (ny + 1)).length :=
      (List.getElem?_eq_some_iff.1 gl).1
    have ps := post_small A ny g
    have il : i' < (A (ny + 1)).months.length := (List.getElem?_eq_some_iff.1 hi').1
    have room := fpos_room (PY (ny + 1)) (A (ny + 1)).months (i' + 1) (by omega)
    rw [fpos_succ (PY (ny + 1)) _ i' t hi', pt, if_pos rfl, ← own_eq_filter, gn.core.len] at room
    have : fpos (PY (ny + 1)) (A (ny + 1)).months i' = fpos (PY (ny + 1)) (A ny).months 14 := by
      injection f2
    omega

/-! ## the forward walk -/

theorem fwd_main (A : Astro) (lo hi : Int) (G : ∀ Y, lo ≤ Y → Y ≤ hi → GoodY A Y) (GP : ∀ Y, lo ≤ Y → Y < hi → GoodP A Y) :
    ∀ (fuel : Nat) (rest : Int) (ny : Int) (i : Nat) (a : MonthRec) (dflt : Nat),
      0 ≤ rest → lo < ny → (A ny).months[i]? = some a →
      ((i ≤ 12 ∧ ny + rest / 2 < hi) ∨ (12 < i ∧ ny + 1 + rest / 2 < hi)) →
      ((i ≤ 12 ∧ rest + 1 ≤ (fuel : Int)) ∨ (12 < i ∧ rest + 2 ≤ (fuel : Int))) →
      ∃ q, nextFwd A fuel rest ny a.year a.month dflt = some q ∧
        succN A rest.toNat (a.year, a.month) = some (q.year, q.month) ∧ Canon A q
  | 0, rest, ny, i, a, dflt, h0, hlo, ha, hR, hF => by omega
  | fuel + 1, rest, ny, i, a, dflt, h0, hlo, ha, hR, hF => by
    have g := G ny (by omega) (by omega)
    have gm := G (ny - 1) (by omega) (by omega)
    have gn := G (ny + 1) (by omega) (by omega)
    have gp := GP ny (by omega) (by omega)
    have gpm := GP (ny - 1) (by omega) (by omega)
    have il : i < 15 := by
      have := (List.getElem?_eq_some_iff.1 ha).1
      rw [g.core.len] at this
      exact this
    unfold nextFwd
    simp only
    rw [indexIn_get ny _ g.core i a ha, g.core.len]
    by_cases c : rest < ((15 : Nat) : Int) - (i : Int) - 1
    · rw [if_pos c]
      have hlt : i + rest.toNat < (A ny).months.length := by rw [g.core.len]; omega
      refine ⟨(A ny).months[i + rest.toNat]'hlt, List.getElem?_eq_getElem hlt, ?_, ?_⟩
      · exact window_n A ny gm g gn gpm gp i a ha rest.toNat _ (List.getElem?_eq_getElem hlt)
      · exact canon_of A ny g gpm gp _ (List.getElem_mem hlt)
    · rw [if_neg c]
      have h14 : 14 < (A ny).months.length := by rw [g.core.len]; omega
      have hl : (A ny).months[14]? = some ((A ny).months[14]'h14) := List.getElem?_eq_getElem h14
      have hgl : (A ny).months.getLast? = some ((A ny).months[14]'h14) := by
        rw [List.getLast?_eq_getElem?, g.core.len]; exact hl
      generalize (A ny).months[14]'h14 = last at hl hgl
      rw [hgl]
      simp only
      obtain ⟨i', a2, ha2, e1, e2, hi'⟩ := jump_fwd A ny g gn gp last hl
      rw [← e1, ← e2]
      obtain ⟨q, q1, q2, q3⟩ := fwd_main A lo hi G GP fuel (rest - (((15 : Nat) : Int) - (i : Int) - 1)) (ny + 1) i' a2 i
        (by omega) (by omega) ha2 (by omega) (by omega)
      refine ⟨q, q1, ?_, q3⟩
      have hw := window_n A ny gm g gn gpm gp i a ha (14 - i) last (by rw [show i + (14 - i) = 14 by omega]; exact hl)
      rw [show rest.toNat = (14 - i) + (rest - (((15 : Nat) : Int) - (i : Int) - 1)).toNat by omega, succN_add, hw]
      simp only [Option.bind_some]
      rw [← e1, ← e2]
      exact q2

theorem good_all (A : Astro) (lo hi : Int) (h : AstroOK A lo hi) (hnr : ∀ y, lo ≤ y → y ≤ hi → isReformYear y = false) :
    (∀ Y, lo ≤ Y → Y ≤ hi → GoodY A Y) ∧ (∀ Y, lo ≤ Y → Y < hi → GoodP A Y) :=
  ⟨fun Y h1 h2 => goodY_of A lo hi h Y h1 h2 (hnr Y h1 h2),
   fun Y h1 h2 => goodP_of A lo hi h Y h1 h2 (hnr Y h1 (by omega)) (hnr (Y + 1) (by omega) (by omega))⟩

theorem canon_unique (A : Astro) (p q : MonthRec) (hp : Canon A p) (hq : Canon A q) (ey : p.year = q.year) (em : p.month = q.month) :
    p.first = q.first ∧ p.dayCount = q.dayCount := by
  obtain ⟨t, t1, t2, t3⟩ := hp
  obtain ⟨s, s1, s2, s3⟩ := hq
  rw [ey, em, s1] at t1
  cases t1
  omega

/-- `Next(n)` for `n ≥ 0` lands on the `n`-th successor, with the canonical first day and length -/
theorem monthNext_nat (A : Astro) (lo hi : Int) (h : AstroOK A lo hi) (hnr : ∀ y, lo ≤ y → y ≤ hi → isReformYear y = false)
    (y m : Int) (n : Nat) (hlo : lo < y) (hhi : y + (n : Int) < hi) (r : MonthRec) (hr : findMonth (A y).months y m = some r) :
    ∃ q, monthNext A y m (n : Int) = some q ∧ succN A n (y, m) = some (q.year, q.month) ∧ Canon A q := by
  obtain ⟨G, GP⟩ := good_all A lo hi h hnr
  obtain ⟨rm, ry, rmo⟩ := findMonth_some _ _ _ _ hr
  cases n with
  | zero =>
    refine ⟨r, ?_, ?_, ?_⟩
    · unfold monthNext
      simp [hr]
    · simp [succN, ry, rmo]
    · exact ⟨r, by rw [ry, rmo]; exact hr, rfl, rfl⟩
  | succ n =>
    obtain ⟨i, hidx⟩ := List.getElem?_of_mem rm
    have il : i < 15 := by
      have := (List.getElem?_eq_some_iff.1 hidx).1
      rw [(G y (by omega) (by omega)).core.len] at this
      exact this
    obtain ⟨q, q1, q2, q3⟩ := fwd_main A lo hi G GP (((n + 1 : Nat) : Int).toNat + 2) ((n + 1 : Nat) : Int) y i r 0
      (by omega) hlo hidx (by omega) (by omega)
    refine ⟨q, ?_, ?_, q3⟩
    · unfold monthNext
      have c1 : ¬ (((n + 1 : Nat) : Int) = 0) := by omega
      have c2 : ((n + 1 : Nat) : Int) > 0 := by omega
      rw [if_neg c1, if_pos c2]
      rw [ry, rmo] at q1
      exact q1
    · rw [ry, rmo] at q2
      simpa using q2

/-- one step forward of `monthNext` is `succMonth`, and the record returned is the one year y's (resp. y+1's) own table holds for that label -/
theorem next_one (A : Astro) (lo hi : Int) (h : AstroOK A lo hi) (hnr : ∀ y, lo ≤ y → y ≤ hi → isReformYear y = false)
    (y m : Int) (hlo : lo < y) (hhi : y + 1 < hi) (r : MonthRec) (hr : findMonth (A y).months y m = some r) :
    ∃ q y' m', succMonth A y m = some (y', m') ∧ monthNext A y m 1 = some q ∧ q.year = y' ∧ q.month = m' ∧
      q.first = r.first + r.dayCount ∧ (findMonth (A y').months y' m').map (fun t => (t.first, t.dayCount)) = some (q.first, q.dayCount) := by
  obtain ⟨G, GP⟩ := good_all A lo hi h hnr
  obtain ⟨q, q1, q2, t, t1, t2, t3⟩ := monthNext_nat A lo hi h hnr y m 1 hlo (by omega) r hr
  have hs : succMonth A y m = some (q.year, q.month) := by simpa [succN] using q2
  obtain ⟨y', m', t', s1, s2, s3, _⟩ := succ_spec A y (G y (by omega) (by omega)) (G (y + 1) (by omega) (by omega))
    (GP y (by omega) (by omega)) m r hr
  rw [hs] at s1
  cases s1
  rw [t1] at s2
  cases s2
  refine ⟨q, q.year, q.month, hs, q1, rfl, rfl, by omega, ?_⟩
  rw [t1]
  simp [t2, t3]

/-- moving n months = moving one month n times (n ≥ 0), as long as the walk stays inside (lo, hi) -/
theorem next_iter (A : Astro) (lo hi : Int) (h : AstroOK A lo hi) (hnr : ∀ y, lo ≤ y → y ≤ hi → isReformYear y = false)
    (y m : Int) (n : Nat) (hlo : lo < y) (hhi : y + (n : Int) + 1 < hi) (r : MonthRec) (hr : findMonth (A y).months y m = some r) :
    ∃ q, monthNext A y m (n + 1) = some q ∧
      ∃ p, monthNext A y m n = some p ∧ (monthNext A p.year p.month 1).map (fun t => (t.year, t.month, t.first)) = some (q.year, q.month, q.first) := by
  obtain ⟨q, q1, q2, q3⟩ := monthNext_nat A lo hi h hnr y m (n + 1) hlo (by omega) r hr
  obtain ⟨p, p1, p2, p3⟩ := monthNext_nat A lo hi h hnr y m n hlo (by omega) r hr
  have py := succN_year A (y, m) n _ p2
  simp only at py
  obtain ⟨t, t1, _, _⟩ := p3
  obtain ⟨q', q1', q2', q3'⟩ := monthNext_nat A lo hi h hnr p.year p.month 1 (by omega) (by omega) t t1
  have e : ((n + 1 : Nat) : Int) = (n : Int) + 1 := by omega
  rw [e] at q1
  refine ⟨q, q1, p, p1, ?_⟩
  simp only [succN, p2, Option.bind_some] at q2 q2'
  rw [q2] at q2'
  simp only [Option.some.injEq, Prod.mk.injEq] at q2'
  obtain ⟨f1, _⟩ := canon_unique A q' q q3' q3 q2'.1.symm q2'.2.symm
  have q1'' : monthNext A p.year p.month 1 = some q' := q1'
  rw [q1'']
  simp [f1, q2'.1, q2'.2]

/-- additivity for non-negative offsets -/
theorem next_add (A : Astro) (lo hi : Int) (h : AstroOK A lo hi) (hnr : ∀ y, lo ≤ y → y ≤ hi → isReformYear y = false)
    (y m : Int) (a b : Nat) (hlo : lo < y) (hhi : y + (a : Int) + (b : Int) + 1 < hi) (r p : MonthRec)
    (hr : findMonth (A y).months y m = some r) (hp : monthNext A y m a = some p) :
    (monthNext A p.year p.month b).map (fun t => (t.year, t.month, t.first)) = (monthNext A y m (a + b)).map (fun t => (t.year, t.month, t.first)) := by
  obtain ⟨p', p1, p2, p3⟩ := monthNext_nat A lo hi h hnr y m a hlo (by omega) r hr
  rw [hp] at p1
  cases p1
  have py := succN_year A (y, m) a _ p2
  simp only at py
  obtain ⟨t, t1, _, _⟩ := p3
  obtain ⟨q1, q11, q12, q13⟩ := monthNext_nat A lo hi h hnr p.year p.month b (by omega) (by omega) t t1
  obtain ⟨q2, q21, q22, q23⟩ := monthNext_nat A lo hi h hnr y m (a + b) hlo (by omega) r hr
  have e : ((a + b : Nat) : Int) = (a : Int) + (b : Int) := by omega
  rw [e] at q21
  rw [succN_add, p2, Option.bind_some, q12] at q22
  simp only [Option.some.injEq, Prod.mk.injEq] at q22
  obtain ⟨f1, _⟩ := canon_unique A q1 q2 q13 q23 q22.1 q22.2
  rw [q11, q21]
  simp [f1, q22.1, q22.2]

/-! ## the backward walk -/

theorem fpos_le_idx {α : Type} (p : α → Bool) (l : List α) (i : Nat) : fpos p l i ≤ i := by
  unfold fpos
  have h1 := List.length_filter_le p (l.take i)
  have h2 := List.length_take_le i l
  omega

/-- the label of the first record of table `y+1` is found in table `y`, with at least two records before it -/
theorem jump_bwd (A : Astro) (y : Int) (g : GoodY A y) (gn : GoodY A (y + 1)) (gp : GoodP A y)
    (head : MonthRec) (hh : (A (y + 1)).months[0]? = some head) :
    ∃ i' a2, (A y).months[i']? = some a2 ∧ a2.year = head.year ∧ a2.month = head.month ∧ 2 ≤ i' := by
  have hs := sortedY y _ g.core
  have hs' := sortedY (y + 1) _ gn.core
  have aft := sorted_after _ hs' 0 head hh
  rw [List.drop_zero] at aft
  have hm := List.mem_of_getElem? hh
  have ol := own_len y _ g.str
  have ol' := own_len (y + 1) _ gn.str
  rcases (gn.core.recs head hm).2.2.1 with e | e | e
  · -- the first record is a month of year y: found in its own table
    have e' : head.year = y := by omega
    obtain ⟨t, ht, _, _⟩ := recordsAgree_spec _ _ _ _ gp.ps.bwd head hm e' rfl
    obtain ⟨tm, ty, tmo⟩ := findMonth_some _ _ _ _ ht
    obtain ⟨i', hi'⟩ := List.getElem?_of_mem tm
    refine ⟨i', t, hi', by omega, tmo, ?_⟩
    have pt : PY y t = true := by simp [PY, ty]
    have ph : PY y head = true := by simp [PY, e']
    have gt := fpos_get (PY y) _ i' t hi' pt
    have gh := fpos_get (PY y) _ 0 head hh ph
    have z : fpos (PY y) (A (y + 1)).months 0 = 0 := by simp [fpos]
    rw [z] at gh
    rw [← own_eq_filter] at gt gh
    obtain ⟨hle, h', hh', sh⟩ := suffix_get _ _ gp.ps.suf _ head gh
    have d := own_distinct y _ g.core y
    have f1 := findIdx_of_get _ _ t d gt
    have f2 := findIdx_of_get _ _ h' d hh'
    rw [← sh.2.1, ← tmo, f1] at f2
    have ps := pre_small A (y + 1) gn
    rw [show y + 1 - 1 = y by omega] at ps
    have := fpos_le_idx (PY y) (A y).months i'
    have : fpos (PY y) (A y).months i' = (monthsInYear (A y).months y).length - (monthsInYear (A (y + 1)).months y).length + 0 := by
      injection f2
    omega
  · -- the first record is month 1 of year y+1: table y ends with it (link)
    have hpre : monthsInYear (A (y + 1)).months y = [] := fy_nil_of _ _ (fun x hx => by have := aft x hx; omega)
    have hpost : monthsInYear (A y).months (y + 1) ≠ [] := by
      rcases gp.ps.link with l1 | l1
      · exact absurd hpre l1
      · exact l1
    cases hg : (monthsInYear (A y).months (y + 1))[0]? with
    | none =>
      rw [List.getElem?_eq_none_iff] at hg
      have := List.length_pos_iff.2 hpost
      omega
    | some c =>
      obtain ⟨c', hc', sc⟩ := prefix_get _ _ gp.ps.pre _ c hg
      have ph : PY (y + 1) head = true := by simp [PY, e]
      have gh := fpos_get (PY (y + 1)) _ 0 head hh ph
      have z : fpos (PY (y + 1)) (A (y + 1)).months 0 = 0 := by simp [fpos]
      rw [z, ← own_eq_filter, hc'] at gh
      cases gh
      obtain ⟨cm, cy⟩ := (fy_mem _ _ _).1 (List.mem_of_getElem? hg)
      obtain ⟨i', hi'⟩ := List.getElem?_of_mem cm
      refine ⟨i', c, hi', sc.1, sc.2.1, ?_⟩
      have aft' := sorted_after _ hs i' c hi'
      have en := fpos_end (PY y) (A y).months i' (fun x hx => by have := aft' x hx; simp [PY]; omega)
      rw [← own_eq_filter] at en
      have := fpos_le_idx (PY y) (A y).months i'
      omega
  · exfalso
    have : monthsInYear (A (y + 1)).months (y + 1) = [] := fy_nil_of _ _ (fun x hx => by have := aft x hx; omega)
    rw [this] at ol'
    simp at ol'

theorem bwd_main (A : Astro) (lo hi : Int) (G : ∀ Y, lo ≤ Y → Y ≤ hi → GoodY A Y) (GP : ∀ Y, lo ≤ Y → Y < hi → GoodP A Y) :
    ∀ (fuel : Nat) (rest : Int) (ny : Int) (i : Nat) (a : MonthRec) (dflt : Nat),
      0 ≤ rest → ny < hi → (A ny).months[i]? = some a →
      ((rest ≤ (i : Int) ∧ lo < ny) ∨ (2 ≤ i ∧ lo < ny - rest / 2) ∨ (i < 2 ∧ lo < ny - 1 - rest / 2)) →
      ((2 ≤ i ∧ rest + 1 ≤ (fuel : Int)) ∨ (i < 2 ∧ rest + 2 ≤ (fuel : Int))) →
      ∃ q, nextBwd A fuel rest ny a.year a.month dflt = some q ∧
        succN A rest.toNat (q.year, q.month) = some (a.year, a.month) ∧ Canon A q
  | 0, rest, ny, i, a, dflt, h0, hhi, ha, hR, hF => by omega
  | fuel + 1, rest, ny, i, a, dflt, h0, hhi, ha, hR, hF => by
    have g := G ny (by omega) (by omega)
    have gm := G (ny - 1) (by omega) (by omega)
    have gn := G (ny + 1) (by omega) (by omega)
    have gp := GP ny (by omega) (by omega)
    have gpm := GP (ny - 1) (by omega) (by omega)
    have il : i < 15 := by
      have := (List.getElem?_eq_some_iff.1 ha).1
      rw [g.core.len] at this
      exact this
    unfold nextBwd
    simp only
    rw [indexIn_get ny _ g.core i a ha]
    by_cases c : rest ≤ (i : Int)
    · rw [if_pos c]
      have hlt : i - rest.toNat < (A ny).months.length := by rw [g.core.len]; omega
      refine ⟨(A ny).months[i - rest.toNat]'hlt, List.getElem?_eq_getElem hlt, ?_, ?_⟩
      · exact window_n A ny gm g gn gpm gp (i - rest.toNat) _ (List.getElem?_eq_getElem hlt) rest.toNat a
          (by rw [show i - rest.toNat + rest.toNat = i by omega]; exact ha)
      · exact canon_of A ny g gpm gp _ (List.getElem_mem hlt)
    · rw [if_neg c]
      have h00 : 0 < (A ny).months.length := by rw [g.core.len]; omega
      have hh : (A ny).months[0]? = some ((A ny).months[0]'h00) := List.getElem?_eq_getElem h00
      have hgh : (A ny).months.head? = some ((A ny).months[0]'h00) := by
        rw [List.head?_eq_getElem?]; exact hh
      generalize (A ny).months[0]'h00 = head at hh hgh
      rw [hgh]
      simp only
      have e : ny - 1 + 1 = ny := by omega
      obtain ⟨i', a2, ha2, e1, e2, hi'⟩ := jump_bwd A (ny - 1) gm (by rw [e]; exact g) gpm head (by rw [e]; exact hh)
      rw [← e1, ← e2]
      obtain ⟨q, q1, q2, q3⟩ := bwd_main A lo hi G GP fuel (rest - (i : Int)) (ny - 1) i' a2 i
        (by omega) (by omega) ha2 (by omega) (by omega)
      refine ⟨q, q1, ?_, q3⟩
      have hw := window_n A ny gm g gn gpm gp 0 head hh i a (by rw [Nat.zero_add]; exact ha)
      rw [show rest.toNat = (rest - (i : Int)).toNat + i by omega, succN_add, q2]
      simp only [Option.bind_some]
      rw [e1, e2]
      exact hw

/-! ## the successor is injective; `+1` then `−1` -/

theorem succ_inv (A : Astro) (y m y' m' : Int) (h : succMonth A y m = some (y', m')) :
    ∃ i a, (monthsInYear (A y).months y)[i]? = some a ∧ a.month = m ∧
      ((y' = y ∧ ∃ b, (monthsInYear (A y).months y)[i + 1]? = some b ∧ b.month = m') ∨
       (y' = y + 1 ∧ (monthsInYear (A y).months y)[i + 1]? = none ∧
          ∃ b, (monthsInYear (A (y + 1)).months (y + 1))[0]? = some b ∧ b.month = m')) := by
  unfold succMonth at h
  simp only at h
  cases hf : (monthsInYear (A y).months y).findIdx? (fun r => r.month == m) with
  | none => rw [hf] at h; cases h
  | some i =>
    rw [hf] at h
    simp only at h
    have hi := List.of_findIdx?_eq_some hf
    cases ha : (monthsInYear (A y).months y)[i]? with
    | none => rw [ha] at hi; cases hi
    | some a =>
      rw [ha] at hi
      simp only [beq_iff_eq] at hi
      refine ⟨i, a, ha, hi, ?_⟩
      cases hb : (monthsInYear (A y).months y)[i + 1]? with
      | some b =>
        rw [hb] at h
        cases h
        exact Or.inl ⟨rfl, b, rfl, rfl⟩
      | none =>
        rw [hb] at h
        simp only at h
        rw [List.head?_eq_getElem?] at h
        cases hc : (monthsInYear (A (y + 1)).months (y + 1))[0]? with
        | none => rw [hc] at h; cases h
        | some b =>
          rw [hc] at h
          cases h
          exact Or.inr ⟨rfl, rfl, b, rfl, rfl⟩

theorem succ_inj (A : Astro) (y1 m1 y2 m2 y' m' : Int) (g' : GoodY A y')
    (h1 : succMonth A y1 m1 = some (y', m')) (h2 : succMonth A y2 m2 = some (y', m')) : y1 = y2 ∧ m1 = m2 := by
  have d := own_distinct y' _ g'.core y'
  obtain ⟨i1, a1, ha1, em1, c1⟩ := succ_inv A y1 m1 y' m' h1
  obtain ⟨i2, a2, ha2, em2, c2⟩ := succ_inv A y2 m2 y' m' h2
  rcases c1 with ⟨e1, b1, hb1, eb1⟩ | ⟨e1, n1, b1, hb1, eb1⟩
  · rcases c2 with ⟨e2, b2, hb2, eb2⟩ | ⟨e2, n2, b2, hb2, eb2⟩
    · subst e1
      subst e2
      have f1 := findIdx_of_get _ _ b1 d hb1
      have f2 := findIdx_of_get _ _ b2 d hb2
      rw [eb1] at f1
      rw [eb2, f1] at f2
      have : i1 = i2 := by injection f2; omega
      subst this
      rw [ha1] at ha2
      cases ha2
      exact ⟨rfl, by rw [← em1, ← em2]⟩
    · exfalso
      subst e1
      have e2' : y2 + 1 = y' := e2.symm
      subst e2'
      have f1 := findIdx_of_get _ _ b1 d hb1
      have f2 := findIdx_of_get _ _ b2 d hb2
      rw [eb1] at f1
      rw [eb2, f1] at f2
      injection f2 with f2
      omega
  · rcases c2 with ⟨e2, b2, hb2, eb2⟩ | ⟨e2, n2, b2, hb2, eb2⟩
    · exfalso
      subst e2
      have e1' : y1 + 1 = y' := e1.symm
      subst e1'
      have f1 := findIdx_of_get _ _ b1 d hb1
      have f2 := findIdx_of_get _ _ b2 d hb2
      rw [eb1] at f1
      rw [eb2, f1] at f2
      injection f2 with f2
      omega
    · have ey : y1 = y2 := by omega
      subst ey
      rw [List.getElem?_eq_none_iff] at n1 n2
      have l1 := (List.getElem?_eq_some_iff.1 ha1).1
      have l2 := (List.getElem?_eq_some_iff.1 ha2).1
      have : i1 = i2 := by omega
      subst this
      rw [ha1] at ha2
      cases ha2
      exact ⟨rfl, by rw [← em1, ← em2]⟩

/-- `Next(−n)` for `n ≥ 1` lands on the month whose `n`-th successor is the start, with the canonical first day and length -/
theorem monthNext_neg' (A : Astro) (lo hi : Int) (h : AstroOK A lo hi) (hnr : ∀ y, lo ≤ y → y ≤ hi → isReformYear y = false)
    (y m : Int) (n : Nat) (hn : 1 ≤ n) (r : MonthRec) (hr : findMonth (A y).months y m = some r)
    (hlo : lo < y - (n : Int) ∨ (lo < y ∧ ∀ i, (A y).months[i]? = some r → n ≤ i)) (hhi : y < hi) :
    ∃ q, monthNext A y m (-(n : Int)) = some q ∧ succN A n (q.year, q.month) = some (y, m) ∧ Canon A q := by
  obtain ⟨G, GP⟩ := good_all A lo hi h hnr
  obtain ⟨rm, ry, rmo⟩ := findMonth_some _ _ _ _ hr
  obtain ⟨i, hidx⟩ := List.getElem?_of_mem rm
  have hR : ((-(-(n : Int)) ≤ (i : Int) ∧ lo < y) ∨ (2 ≤ i ∧ lo < y - (-(-(n : Int))) / 2) ∨ (i < 2 ∧ lo < y - 1 - (-(-(n : Int))) / 2)) := by
    rcases hlo with c | ⟨c1, c2⟩
    · omega
    · have := c2 i hidx
      omega
  obtain ⟨q, q1, q2, q3⟩ := bwd_main A lo hi G GP ((-(n : Int)).natAbs + 2) (-(-(n : Int))) y i r 0
    (by omega) hhi hidx hR (by omega)
  refine ⟨q, ?_, ?_, q3⟩
  · unfold monthNext
    have c1 : ¬ (-(n : Int) = 0) := by omega
    have c2 : ¬ (-(n : Int) > 0) := by omega
    rw [if_neg c1, if_neg c2]
    rw [ry, rmo] at q1
    exact q1
  · rw [ry, rmo] at q2
    rw [show (-(-(n : Int))).toNat = n by omega] at q2
    exact q2

theorem monthNext_neg (A : Astro) (lo hi : Int) (h : AstroOK A lo hi) (hnr : ∀ y, lo ≤ y → y ≤ hi → isReformYear y = false)
    (y m : Int) (n : Nat) (hn : 1 ≤ n) (hlo : lo < y - (n : Int)) (hhi : y < hi) (r : MonthRec) (hr : findMonth (A y).months y m = some r) :
    ∃ q, monthNext A y m (-(n : Int)) = some q ∧ succN A n (q.year, q.month) = some (y, m) ∧ Canon A q :=
  monthNext_neg' A lo hi h hnr y m n hn r hr (Or.inl hlo) hhi

/-- +1 followed by −1 returns to the start -/
theorem next_prev (A : Astro) (lo hi : Int) (h : AstroOK A lo hi) (hnr : ∀ y, lo ≤ y → y ≤ hi → isReformYear y = false)
    (y m : Int) (hlo : lo < y) (hhi : y + 1 < hi) (r q : MonthRec) (hr : findMonth (A y).months y m = some r) (hq : monthNext A y m 1 = some q) :
    (monthNext A q.year q.month (-1)).map (fun t => (t.year, t.month, t.first, t.dayCount)) = some (r.year, r.month, r.first, r.dayCount) := by
  obtain ⟨G, GP⟩ := good_all A lo hi h hnr
  obtain ⟨rm, ry, rmo⟩ := findMonth_some _ _ _ _ hr
  obtain ⟨q', q1, q2, q3⟩ := monthNext_nat A lo hi h hnr y m 1 hlo (by omega) r hr
  have q1' : monthNext A y m 1 = some q' := q1
  rw [hq] at q1'
  cases q1'
  have hs : succMonth A y m = some (q.year, q.month) := by simpa [succN] using q2
  have qy := succ_year A y m _ _ hs
  obtain ⟨t, t1, _, _⟩ := q3
  -- the record of `q` in its own table is not the first one when `q` is a month of year `y`
  obtain ⟨y', m', t', s1, s2, s3, _⟩ := succ_spec A y (G y (by omega) (by omega)) (G (y + 1) (by omega) (by omega))
    (GP y (by omega) (by omega)) m r hr
  rw [hs] at s1
  cases s1
  rw [t1] at s2
  cases s2
  have hcond : lo < q.year - ((1 : Nat) : Int) ∨ (lo < q.year ∧ ∀ i, (A q.year).months[i]? = some t → 1 ≤ i) := by
    rcases qy with e | e
    · right
      refine ⟨by omega, ?_⟩
      intro i hi
      cases i with
      | zero =>
        exfalso
        have gq := G q.year (by omega) (by omega)
        have hh : (A q.year).months.head? = some t := by rw [List.head?_eq_getElem?]; exact hi
        have hd : ∀ x ∈ (A q.year).months, 1 ≤ x.dayCount ∧ x.dayCount ≤ 30 := fun x hx => by
          have := gq.core.recs x hx; omega
        have rm' : r ∈ (A q.year).months := by rw [e]; exact rm
        have := chain_span _ t gq.core.chain hh hd r rm'
        have := hd r rm'
        omega
      | succ i => omega
    · left; omega
  obtain ⟨p, p1, p2, p3⟩ := monthNext_neg' A lo hi h hnr q.year q.month 1 (by omega) t t1 hcond (by omega)
  have p1' : monthNext A q.year q.month (-1) = some p := p1
  have hs' : succMonth A p.year p.month = some (q.year, q.month) := by simpa [succN] using p2
  obtain ⟨e1, e2⟩ := succ_inj A p.year p.month y m q.year q.month (G q.year (by omega) (by omega)) hs' hs
  obtain ⟨f1, f2⟩ := canon_unique A p r p3 ⟨r, by rw [ry, rmo]; exact hr, rfl, rfl⟩ (by omega) (by omega)
  rw [p1']
  simp [f1, f2, e1, e2, ry, rmo]

/-! ## backward analogues -/

theorem succN_succ_inv (A : Astro) (n : Nat) (l z : Int × Int) (h : succN A (n + 1) l = some z) :
    ∃ z1, succN A n l = some z1 ∧ succMonth A z1.1 z1.2 = some (z.1, z.2) := by
  simp only [succN] at h
  cases hm : succN A n l with
  | none => rw [hm] at h; simp at h
  | some z1 =>
    rw [hm] at h
    simp only [Option.bind_some] at h
    exact ⟨z1, rfl, h⟩

theorem succN_inj (A : Astro) (a b : Int) (G : ∀ Y, a ≤ Y → Y ≤ b → GoodY A Y) :
    ∀ (n : Nat) (l1 l2 z : Int × Int), a ≤ l1.1 → a ≤ l2.1 → z.1 ≤ b →
      succN A n l1 = some z → succN A n l2 = some z → l1 = l2
  | 0, l1, l2, z, _, _, _, h1, h2 => by
    simp only [succN, Option.some.injEq] at h1 h2
    rw [h1, h2]
  | n + 1, l1, l2, z, a1, a2, hb, h1, h2 => by
    obtain ⟨z1, e1, s1⟩ := succN_succ_inv A n l1 z h1
    obtain ⟨z2, e2, s2⟩ := succN_succ_inv A n l2 z h2
    have y1 := succN_year A l1 n z1 e1
    have y2 := succN_year A l2 n z2 e2
    have sy := succ_year A _ _ _ _ s1
    obtain ⟨f1, f2⟩ := succ_inj A z1.1 z1.2 z2.1 z2.2 z.1 z.2 (G z.1 (by omega) hb) s1 s2
    have : z1 = z2 := Prod.ext f1 f2
    subst this
    exact succN_inj A a b G n l1 l2 z1 a1 a2 (by omega) e1 e2

/-- moving −(n+1) months = moving −n months and then one more month back -/
theorem prev_iter (A : Astro) (lo hi : Int) (h : AstroOK A lo hi) (hnr : ∀ y, lo ≤ y → y ≤ hi → isReformYear y = false)
    (y m : Int) (n : Nat) (hlo : lo < y - (n : Int) - 1) (hhi : y < hi) (r : MonthRec) (hr : findMonth (A y).months y m = some r) :
    ∃ q, monthNext A y m (-((n : Int) + 1)) = some q ∧
      ∃ p, monthNext A y m (-(n : Int)) = some p ∧
        (monthNext A p.year p.month (-1)).map (fun t => (t.year, t.month, t.first)) = some (q.year, q.month, q.first) := by
  obtain ⟨G, GP⟩ := good_all A lo hi h hnr
  obtain ⟨q, q1, q2, q3⟩ := monthNext_neg A lo hi h hnr y m (n + 1) (by omega) (by omega) hhi r hr
  have e : -(((n + 1 : Nat)) : Int) = -((n : Int) + 1) := by omega
  rw [e] at q1
  -- the month reached after −n
  have hp : ∃ p, monthNext A y m (-(n : Int)) = some p ∧ succN A n (p.year, p.month) = some (y, m) ∧ Canon A p := by
    cases n with
    | zero =>
      obtain ⟨p, p1, p2, p3⟩ := monthNext_nat A lo hi h hnr y m 0 (by omega) (by omega) r hr
      simp only [succN, Option.some.injEq] at p2
      refine ⟨p, by simpa using p1, ?_, p3⟩
      simp only [succN, p2]
    | succ k => exact monthNext_neg A lo hi h hnr y m (k + 1) (by omega) (by omega) hhi r hr
  obtain ⟨p, p1, p2, p3⟩ := hp
  have py := succN_year A _ n _ p2
  simp only at py
  obtain ⟨t, t1, _, _⟩ := p3
  obtain ⟨p', p1', p2', p3'⟩ := monthNext_neg A lo hi h hnr p.year p.month 1 (by omega) (by omega) (by omega) t t1
  have p1'' : monthNext A p.year p.month (-1) = some p' := p1'
  refine ⟨q, q1, p, p1, ?_⟩
  have qy := succN_year A _ (n + 1) _ q2
  simp only at qy
  -- split the n+1 steps from q as 1 + n
  rw [show n + 1 = 1 + n by omega, succN_add] at q2
  cases hz : succN A 1 (q.year, q.month) with
  | none => rw [hz] at q2; simp at q2
  | some z =>
    rw [hz] at q2
    simp only [Option.bind_some] at q2
    have zy := succN_year A _ 1 _ hz
    simp only at zy
    have ez : z = (p.year, p.month) :=
      succN_inj A (lo + 1) (hi - 1) (fun Y h1 h2 => G Y (by omega) (by omega)) n z (p.year, p.month) (y, m)
        (by omega) (by show lo + 1 ≤ p.year; omega) (by show y ≤ hi - 1; omega) q2 p2
    rw [ez] at hz
    have e2 := succN_inj A (lo + 1) (hi - 1) (fun Y h1 h2 => G Y (by omega) (by omega)) 1 (q.year, q.month) (p'.year, p'.month)
      (p.year, p.month) (by show lo + 1 ≤ q.year; omega)
      (by have := succN_year A _ 1 _ p2'; simp only at this; show lo + 1 ≤ p'.year; omega)
      (by show p.year ≤ hi - 1; omega) hz p2'
    simp only [Prod.mk.injEq] at e2
    obtain ⟨f1, _⟩ := canon_unique A p' q p3' q3 e2.1.symm e2.2.symm
    rw [p1'']
    simp [f1, e2.1, e2.2]

/-- `l'` is `n` months after `l` (before, for negative `n`) -/
def RelN (A : Astro) (n : Int) (l l' : Int × Int) : Prop :=
  (0 ≤ n ∧ succN A n.toNat l = some l') ∨ (n < 0 ∧ succN A (-n).toNat l' = some l)

theorem bind_some_inv {α β : Type} (o : Option α) (f : α → Option β) (z : β) (h : o.bind f = some z) :
    ∃ w, o = some w ∧ f w = some z := by
  cases o with
  | none => simp at h
  | some w => exact ⟨w, rfl, by simpa using h⟩

theorem relN_add (A : Astro) (lo' hi' : Int) (G : ∀ Y, lo' ≤ Y → Y ≤ hi' → GoodY A Y) (a b : Int) (l p q1 q2 : Int × Int)
    (rl : lo' ≤ l.1 ∧ l.1 ≤ hi') (rp : lo' ≤ p.1 ∧ p.1 ≤ hi') (r1 : lo' ≤ q1.1 ∧ q1.1 ≤ hi') (r2 : lo' ≤ q2.1 ∧ q2.1 ≤ hi')
    (h1 : RelN A a l p) (h2 : RelN A b p q1) (h3 : RelN A (a + b) l q2) : q1 = q2 := by
  have inj := succN_inj A lo' hi' G
  rcases h1 with ⟨a0, h1⟩ | ⟨a0, h1⟩
  · rcases h2 with ⟨b0, h2⟩ | ⟨b0, h2⟩
    · rcases h3 with ⟨c0, h3⟩ | ⟨c0, h3⟩
      · rw [show (a + b).toNat = a.toNat + b.toNat by omega, succN_add, h1, Option.bind_some, h2] at h3
        cases h3; rfl
      · omega
    · rcases h3 with ⟨c0, h3⟩ | ⟨c0, h3⟩
      · rw [show a.toNat = (a + b).toNat + (-b).toNat by omega, succN_add, h3, Option.bind_some] at h1
        exact inj _ q1 q2 p r1.1 r2.1 rp.2 h2 h1
      · rw [show (-b).toNat = (-(a + b)).toNat + a.toNat by omega, succN_add] at h2
        obtain ⟨w, w1, w2⟩ := bind_some_inv _ _ _ h2
        have wy := succN_year A _ _ _ w1
        have : w = l := inj _ w l p (by omega) rl.1 rp.2 w2 h1
        subst this
        exact inj _ q1 q2 w r1.1 r2.1 rl.2 w1 h3
  · rcases h2 with ⟨b0, h2⟩ | ⟨b0, h2⟩
    · rcases h3 with ⟨c0, h3⟩ | ⟨c0, h3⟩
      · rw [show b.toNat = (-a).toNat + (a + b).toNat by omega, succN_add, h1, Option.bind_some, h3] at h2
        cases h2; rfl
      · rw [show (-a).toNat = b.toNat + (-(a + b)).toNat by omega, succN_add, h2, Option.bind_some] at h1
        exact inj _ q1 q2 l r1.1 r2.1 rl.2 h1 h3
    · rcases h3 with ⟨c0, h3⟩ | ⟨c0, h3⟩
      · omega
      · have : succN A ((-b).toNat + (-a).toNat) q1 = some l := by
          rw [succN_add, h2, Option.bind_some, h1]
        rw [show (-(a + b)).toNat = (-b).toNat + (-a).toNat by omega] at h3
        exact inj _ q1 q2 l r1.1 r2.1 rl.2 this h3

/-- `Next(n)` for any integer `n` -/
theorem monthNext_int (A : Astro) (lo hi : Int) (h : AstroOK A lo hi) (hnr : ∀ y, lo ≤ y → y ≤ hi → isReformYear y = false)
    (y m : Int) (n : Int) (hlo : lo < y - (n.natAbs : Int)) (hhi : y + (n.natAbs : Int) < hi) (r : MonthRec)
    (hr : findMonth (A y).months y m = some r) :
    ∃ q, monthNext A y m n = some q ∧ Canon A q ∧ RelN A n (y, m) (q.year, q.month) ∧
      y - (n.natAbs : Int) ≤ q.year ∧ q.year ≤ y + (n.natAbs : Int) := by
  by_cases c : 0 ≤ n
  · obtain ⟨q, q1, q2, q3⟩ := monthNext_nat A lo hi h hnr y m n.toNat (by omega) (by omega) r hr
    rw [show ((n.toNat : Nat) : Int) = n by omega] at q1
    have := succN_year A _ _ _ q2
    simp only at this
    exact ⟨q, q1, q3, Or.inl ⟨c, q2⟩, by omega, by omega⟩
  · obtain ⟨q, q1, q2, q3⟩ := monthNext_neg A lo hi h hnr y m (-n).toNat (by omega) (by omega) (by omega) r hr
    rw [show -(((-n).toNat : Nat) : Int) = n by omega] at q1
    have := succN_year A _ _ _ q2
    simp only at this
    exact ⟨q, q1, q3, Or.inr ⟨by omega, q2⟩, by omega, by omega⟩

/-- additivity for offsets of any sign -/
theorem next_add_int (A : Astro) (lo hi : Int) (h : AstroOK A lo hi) (hnr : ∀ y, lo ≤ y → y ≤ hi → isReformYear y = false)
    (y m : Int) (a b : Int) (hlo : lo < y - (a.natAbs : Int) - (b.natAbs : Int) - 1)
    (hhi : y + (a.natAbs : Int) + (b.natAbs : Int) + 1 < hi) (r p : MonthRec)
    (hr : findMonth (A y).months y m = some r) (hp : monthNext A y m a = some p) :
    (monthNext A p.year p.month b).map (fun t => (t.year, t.month, t.first)) =
      (monthNext A y m (a + b)).map (fun t => (t.year, t.month, t.first)) := by
  obtain ⟨G, GP⟩ := good_all A lo hi h hnr
  obtain ⟨p', p1, p3, p2, py⟩ := monthNext_int A lo hi h hnr y m a (by omega) (by omega) r hr
  rw [hp] at p1
  cases p1
  obtain ⟨t, t1, _, _⟩ := p3
  obtain ⟨q1, q11, q13, q12, q1y⟩ := monthNext_int A lo hi h hnr p.year p.month b (by omega) (by omega) t t1
  obtain ⟨q2, q21, q23, q22, q2y⟩ := monthNext_int A lo hi h hnr y m (a + b) (by omega) (by omega) r hr
  have e := relN_add A (lo + 1) (hi - 1) (fun Y h1 h2 => G Y (by omega) (by omega)) a b (y, m) (p.year, p.month)
    (q1.year, q1.month) (q2.year, q2.month) ⟨by show lo + 1 ≤ y; omega, by show y ≤ hi - 1; omega⟩
    ⟨by show lo + 1 ≤ p.year; omega, by show p.year ≤ hi - 1; omega⟩
    ⟨by show lo + 1 ≤ q1.year; omega, by show q1.year ≤ hi - 1; omega⟩
    ⟨by show lo + 1 ≤ q2.year; omega, by show q2.year ≤ hi - 1; omega⟩ p2 q12 q22
  simp only [Prod.mk.injEq] at e
  obtain ⟨f1, _⟩ := canon_unique A q1 q2 q13 q23 e.1 e.2
  rw [q11, q21]
  simp [f1, e.1, e.2]

end Model

#print axioms Model.year_structure
#print axioms Model.neighbours_agree
#print axioms Model.new_years_eve
#print axioms Model.next_one
#print axioms Model.next_prev
#print axioms Model.next_iter
#print axioms Model.next_add
#print axioms Model.prev_iter
#print axioms Model.next_add_int
