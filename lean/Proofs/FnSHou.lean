/-
Proofs.FnSHou — Lunar.GetHou / GetWuHou (string-mode generated code with atoms = model; split from the worker's FnSFest; helper prefix `sf_`).
-/
import Proofs.FnSFestBase

namespace FnSEq
open FnEq
open Gen.Fn (Err)
open Gen.Tables

/-! ### 3. `Lunar.GetHou`, `Lunar.GetWuHou` (atom `a1` = `lunar.GetPrevJieQiByWholeDay(true)`) -/

/-- the string-mode copy of `Solar.Subtract` is the int-mode one (same body), hence the model's -/
theorem sf_solarSubtract_eq (s o : Gen.FnS.Solar) (hs : s.month ≤ 13) (ho : o.month ≤ 13) :
    Gen.FnS.calendar_Solar_Subtract s o = (match (solarToM s).subtract (solarToM o) with
      | some r => .ok r | none => .error .panic) :=
  getDaysBetween_eq o.year o.month o.day s.year s.month s.day ho hs

theorem sf_solarSubtract_panic (s o : Gen.FnS.Solar) (h : 13 < s.month ∨ 13 < o.month) :
    Gen.FnS.calendar_Solar_Subtract s o = .error .panic :=
  getDaysBetween_panic o.year o.month o.day s.year s.month s.day (Or.symm h)

theorem sf_HOU_len : LunarUtil.«HOU».length = 3 := by decide
theorem sf_WUHOU_len : LunarUtil.«WU_HOU».length = 72 := by decide
theorem sf_JIEQI_len : calendar.«JIE_QI».length = 24 := by decide

/-- the tail of `GetHou` after the subtraction, on the day difference `d` -/
theorem sf_hou_tail (name : String) (d : Int) :
    (Gen.FnS.sidx LunarUtil.«HOU» (if decide (Int.tdiv d 5 > 3 - 1) = true then 3 - 1 else Int.tdiv d 5) >>=
        fun t4 => (pure (name ++ " " ++ t4) : Except Err String))
      = if -5 < d then .ok (name ++ " " ++ Model.strGetD LunarUtil.«HOU» (if Int.tdiv d 5 > 2 then 2 else Int.tdiv d 5))
        else .error .panic := by
  by_cases h : -5 < d
  · rw [if_pos h]
    have h0 : 0 ≤ Int.tdiv d 5 := by
      rcases Int.le_total 0 d with hd | hd
      · exact Int.tdiv_nonneg hd (by omega)
      · have : Int.tdiv d 5 = 0 := by
          have : d = -4 ∨ d = -3 ∨ d = -2 ∨ d = -1 ∨ d = 0 := by omega
          rcases this with h | h | h | h | h <;> subst h <;> decide
        omega
    by_cases c : Int.tdiv d 5 > 2
    · have c' : Int.tdiv d 5 > 3 - 1 := by omega
      simp only [c', decide_true, if_true, c]
      rw [sidx_eq_strGetD _ _ (by omega) (by rw [sf_HOU_len]; omega)]; rfl
    · have c' : ¬ Int.tdiv d 5 > 3 - 1 := by omega
      simp only [c', decide_false, Bool.false_eq_true, if_false, c]
      rw [sidx_eq_strGetD _ _ h0 (by rw [sf_HOU_len]; omega)]; rfl
  · rw [if_neg h]
    have hneg : Int.tdiv d 5 < 0 := by
      have h1 : Int.tdiv d 5 = -(Int.tdiv (-d) 5) := by rw [Int.neg_tdiv, Int.neg_neg]
      have h2 : (-d) / 5 = Int.tdiv (-d) 5 := (Int.tdiv_eq_ediv_of_nonneg (by omega)).symm
      omega
    have c' : ¬ Int.tdiv d 5 > 3 - 1 := by omega
    simp only [c', decide_false, Bool.false_eq_true, if_false]
    rw [sidx_panic _ _ (Or.inl hneg)]; rfl

/-- `GetHou` for all inputs, in terms of the day difference `lunar.solar − a1.solar` -/
theorem lunarGetHou_total (a1 : Gen.FnS.JieQi) (l : Gen.FnS.Lunar) :
    Gen.FnS.calendar_Lunar_GetHou a1 l =
      if 13 < l.solar.month ∨ 13 < a1.solar.month then .error .panic else
      match (solarToM l.solar).subtract (solarToM a1.solar) with
      | none => .error .panic
      | some d =>
        if -5 < d then .ok (a1.name ++ " " ++ Model.strGetD LunarUtil.«HOU» (if Int.tdiv d 5 > 2 then 2 else Int.tdiv d 5))
        else .error .panic := by
  unfold Gen.FnS.calendar_Lunar_GetHou
  simp only [show Gen.FnS.calendar_JieQi_GetSolar a1 = .ok a1.solar from rfl,
    show Gen.FnS.calendar_JieQi_GetName a1 = .ok a1.name from rfl, sb_bind_ok]
  by_cases hm : 13 < l.solar.month ∨ 13 < a1.solar.month
  · rw [if_pos hm, sf_solarSubtract_panic _ _ hm]; rfl
  · rw [if_neg hm, sf_solarSubtract_eq _ _ (by omega) (by omega)]
    cases (solarToM l.solar).subtract (solarToM a1.solar) with
    | none => rfl
    | some d =>
      simp only [sb_bind_ok]
      rw [← sf_hou_tail a1.name d]
      by_cases c : d.tdiv 5 > 3 - 1 <;>
        simp only [c, decide_true, decide_false, if_true, if_false, Bool.false_eq_true] <;> rfl

/-- `Model.Lunar.hou` restated on the previous term and the day difference -/
theorem sf_hou_model (L : Model.Lunar) (name : String) (js : Model.Solar) (hp : L.prevJieQi true = some (name, js)) :
    L.hou = match L.solar.subtract js with
      | none => none
      | some d => some (name ++ " " ++ Model.strGetD LunarUtil.«HOU» (if d / 5 > 2 then 2 else d / 5)) := by
  unfold Model.Lunar.hou
  rw [hp]
  have h2 : ((LunarUtil.«HOU».length : Nat) : Int) - 1 = 2 := by rw [sf_HOU_len]; rfl
  simp only [h2]
  cases L.solar.subtract js <;> rfl

/-- MAIN: `Lunar.GetHou` = `Model.Lunar.hou` when the atom is the model's previous term `(name, js)`.
Guards: months ≤ 13 (`GetDaysInYear` walks the month table; true of every date the library builds) and the
previous term is not after today (`0 ≤ d`; true of `GetPrevJieQiByWholeDay(true)`, which the model's totalised
`strGetD` / floor division do not reproduce for `d < 0`, see `lunarGetHou_total`). -/
theorem lunarGetHou_eq (a1 : Gen.FnS.JieQi) (l : Gen.FnS.Lunar) (terms : List Model.Solar)
    (name : String) (js : Model.Solar)
    (hp : (lunarToM l terms).prevJieQi true = some (name, js))
    (hn : a1.name = name) (hs : solarToM a1.solar = js)
    (hm1 : l.solar.month ≤ 13) (hm2 : a1.solar.month ≤ 13)
    (hd : ∀ d, (solarToM l.solar).subtract js = some d → 0 ≤ d) :
    Gen.FnS.calendar_Lunar_GetHou a1 l
      = (match Model.Lunar.hou (lunarToM l terms) with | some r => .ok r | none => .error .panic) := by
  rw [lunarGetHou_total, if_neg (by omega), sf_hou_model _ name js hp]
  subst hn hs
  simp only [lunarToM_solar]
  cases hsub : (solarToM l.solar).subtract (solarToM a1.solar) with
  | none => rfl
  | some d =>
    have h0 : 0 ≤ d := hd d hsub
    have ht : Int.tdiv d 5 = d / 5 := Int.tdiv_eq_ediv_of_nonneg h0
    simp only [if_pos (show -5 < d by omega), ht]

/-- when there is no previous term the Go code dereferences nil; the model says `none` -/
theorem lunarGetHou_model_none (L : Model.Lunar) (hp : L.prevJieQi true = none) : L.hou = none := by
  unfold Model.Lunar.hou; rw [hp]

theorem sf_strCompare_eq_zero (a b : String) : Gen.FnS.strCompare a b = 0 ↔ a = b := by
  unfold Gen.FnS.strCompare
  by_cases h : a = b
  · subst h; simp [String.lt_irrefl]
  · simp only [h, if_false]
    split <;> simp

/-- the `range` loop with `break` of `GetWuHou`: index of the first table entry equal to `name`, else the initial value -/
theorem sf_break_loop (T : List String) (name : String) (init : Int) (rest : List String) (s : Nat) (h : T.drop s = rest) :
    forIn (m := Except Err) (List.range' s rest.length 1) init
      (fun (k : Nat) (__s : Int) => do
        let v ← Gen.FnS.sidx T (k : Int)
        if decide (Gen.FnS.strCompare name v = 0) = true then pure (ForInStep.done (k : Int))
        else pure (ForInStep.yield __s)) =
      Except.ok (match rest.findIdx? (· == name) with
        | some i => ((s + i : Nat) : Int)
        | none => init) := by
  induction rest generalizing s with
  | nil => simp [pure, Except.pure]
  | cons x r ih =>
    have hd : T.drop (s + 1) = r := by
      have := congrArg List.tail h
      simpa using this
    have hx : Gen.FnS.sidx T (s : Int) = .ok x := by
      have h2 : T[s]? = some x := by
        have := List.getElem?_drop (xs := T) (i := s) (j := 0)
        rw [h] at this
        simpa using this.symm
      unfold Gen.FnS.sidx
      simp [h2, pure, Except.pure]
    simp only [List.length_cons, List.range'_succ, List.forIn_cons, hx, sb_bind_ok, List.findIdx?_cons]
    by_cases hxg : x = name
    · subst hxg
      have hc : Gen.FnS.strCompare x x = 0 := (sf_strCompare_eq_zero _ _).mpr rfl
      simp [hc, pure, Except.pure, bind, Except.bind]
    · have hb : (x == name) = false := by simpa using hxg
      have hc : ¬ Gen.FnS.strCompare name x = 0 := fun h => hxg ((sf_strCompare_eq_zero _ _).mp h).symm
      simp only [hc, decide_false, Bool.false_eq_true, if_false, hb]
      refine (ih (s + 1) hd).trans ?_
      cases r.findIdx? (· == name) with
      | none => rfl
      | some i =>
        have : s + 1 + i = s + (i + 1) := by omega
        simp only [Option.map_some, this]

/-- position of a term name in `JIE_QI` as the Go loop computes it (0 when absent) -/
def sf_jqOffset (name : String) : Int :=
  match calendar.«JIE_QI».findIdx? (· == name) with | some i => (i : Int) | none => 0

theorem sf_jqOffset_nonneg (name : String) : 0 ≤ sf_jqOffset name := by
  unfold sf_jqOffset; split <;> omega

/-- `GetWuHou` for all inputs, in terms of the day difference `lunar.solar − a1.solar` -/
theorem lunarGetWuHou_total (a1 : Gen.FnS.JieQi) (l : Gen.FnS.Lunar) :
    Gen.FnS.calendar_Lunar_GetWuHou a1 l =
      if 13 < l.solar.month ∨ 13 < a1.solar.month then .error .panic else
      match (solarToM l.solar).subtract (solarToM a1.solar) with
      | none => .error .panic
      | some d =>
        Gen.FnS.sidx LunarUtil.«WU_HOU»
          (Int.tmod (sf_jqOffset a1.name * 3 + (if Int.tdiv d 5 > 2 then 2 else Int.tdiv d 5)) 72) := by
  unfold Gen.FnS.calendar_Lunar_GetWuHou
  simp only [show Gen.FnS.calendar_JieQi_GetSolar a1 = .ok a1.solar from rfl,
    show Gen.FnS.calendar_JieQi_GetName a1 = .ok a1.name from rfl, sb_bind_ok]
  rw [Std.Legacy.Range.forIn_eq_forIn_range']
  simp only [Std.Legacy.Range.size, Nat.sub_zero, Nat.add_sub_cancel, Nat.div_one]
  have hl := sf_break_loop calendar.«JIE_QI» a1.name 0 calendar.«JIE_QI» 0 rfl
  rw [sf_JIEQI_len] at hl
  have hl' := hl.trans (congrArg Except.ok (a₂ := sf_jqOffset a1.name) (by
    unfold sf_jqOffset; cases List.findIdx? (fun x => x == a1.name) calendar.«JIE_QI» <;> simp))
  rw [hl', sb_bind_ok]
  by_cases hm : 13 < l.solar.month ∨ 13 < a1.solar.month
  · rw [if_pos hm, sf_solarSubtract_panic _ _ hm]; rfl
  · rw [if_neg hm, sf_solarSubtract_eq _ _ (by omega) (by omega)]
    cases (solarToM l.solar).subtract (solarToM a1.solar) with
    | none => rfl
    | some d =>
      simp only [sb_bind_ok]
      by_cases c : d.tdiv 5 > 2 <;>
        simp only [c, decide_true, decide_false, if_true, if_false, Bool.false_eq_true] <;> rfl

/-- `Model.Lunar.wuHou` restated on the previous term and the day difference -/
theorem sf_wuHou_model (L : Model.Lunar) (name : String) (js : Model.Solar) (hp : L.prevJieQi true = some (name, js)) :
    L.wuHou = match L.solar.subtract js with
      | none => none
      | some d => some (Model.strGetD LunarUtil.«WU_HOU»
          ((sf_jqOffset name * 3 + (if d / 5 > 2 then 2 else d / 5)) % 72)) := by
  unfold Model.Lunar.wuHou
  rw [hp]
  have h72 : ((LunarUtil.«WU_HOU».length : Nat) : Int) = 72 := by rw [sf_WUHOU_len]; rfl
  have ho : (match calendar.«JIE_QI».findIdx? (· == name) with | some i => (i : Int) | none => 0) = sf_jqOffset name := by
    unfold sf_jqOffset; cases calendar.«JIE_QI».findIdx? (· == name) <;> rfl
  simp only [h72]
  cases L.solar.subtract js with
  | none => rfl
  | some d => simp only [← ho]; rfl

/-- MAIN: `Lunar.GetWuHou` = `Model.Lunar.wuHou` when the atom is the model's previous term `(name, js)`;
guards as for `lunarGetHou_eq` -/
theorem lunarGetWuHou_eq (a1 : Gen.FnS.JieQi) (l : Gen.FnS.Lunar) (terms : List Model.Solar)
    (name : String) (js : Model.Solar)
    (hp : (lunarToM l terms).prevJieQi true = some (name, js))
    (hn : a1.name = name) (hs : solarToM a1.solar = js)
    (hm1 : l.solar.month ≤ 13) (hm2 : a1.solar.month ≤ 13)
    (hd : ∀ d, (solarToM l.solar).subtract js = some d → 0 ≤ d) :
    Gen.FnS.calendar_Lunar_GetWuHou a1 l
      = (match Model.Lunar.wuHou (lunarToM l terms) with | some r => .ok r | none => .error .panic) := by
  rw [lunarGetWuHou_total, if_neg (by omega), sf_wuHou_model _ name js hp]
  subst hn hs
  simp only [lunarToM_solar]
  cases hsub : (solarToM l.solar).subtract (solarToM a1.solar) with
  | none => rfl
  | some d =>
    have h0 : 0 ≤ d := hd d hsub
    have ht : Int.tdiv d 5 = d / 5 := Int.tdiv_eq_ediv_of_nonneg h0
    have ho := sf_jqOffset_nonneg a1.name
    have hi : 0 ≤ (if d / 5 > 2 then 2 else d / 5) := by split <;> omega
    have hnn : 0 ≤ sf_jqOffset a1.name * 3 + (if d / 5 > 2 then 2 else d / 5) := by omega
    simp only [ht, Int.tmod_eq_emod_of_nonneg hnn]
    rw [sidx_eq_strGetD _ _ (Int.emod_nonneg _ (by omega)) (by rw [sf_WUHOU_len]; exact Int.emod_lt_of_pos _ (by omega))]

theorem lunarGetWuHou_model_none (L : Model.Lunar) (hp : L.prevJieQi true = none) : L.wuHou = none := by
  unfold Model.Lunar.wuHou; rw [hp]


end FnSEq
