import Model.Fmt
set_option linter.unusedVariables false
namespace Model

/-! ## `cmpChars` basics -/

theorem cmpChars_self (l : List Char) : cmpChars l l = .eq := by
  induction l with
  | nil => rfl
  | cons a t ih => simp [cmpChars, Char.lt_irrefl, ih]

/-- for equal-length prefixes, comparison of concatenations is lexicographic -/
theorem cmpChars_append (a b x y : List Char) (h : a.length = b.length) :
    cmpChars (a ++ x) (b ++ y) = (cmpChars a b).then (cmpChars x y) := by
  induction a generalizing b with
  | nil =>
    cases b with
    | nil => simp [cmpChars]
    | cons _ _ => simp at h
  | cons c t ih =>
    cases b with
    | nil => simp at h
    | cons d u =>
      simp only [List.length_cons, Nat.add_right_cancel_iff] at h
      simp only [List.cons_append, cmpChars]
      by_cases h1 : c < d
      · simp [h1]
      · by_cases h2 : d < c
        · simp [h1, h2]
        · simp [h1, h2, ih u h]

/-! ## digits -/

theorem digitChar_mod (d : Nat) : digitChar (d % 10) = digitChar d := by
  simp [digitChar]

theorem digitChar_lt_fin : ∀ a b : Fin 10, (digitChar a < digitChar b) ↔ a < b := by decide

theorem digitChar_lt (a b : Nat) (ha : a < 10) (hb : b < 10) :
    (digitChar a < digitChar b) ↔ a < b := by
  have := digitChar_lt_fin ⟨a, ha⟩ ⟨b, hb⟩
  simpa using this

theorem digitChar_parse_fin : ∀ a : Fin 10,
    ('0' ≤ digitChar a ∧ digitChar a ≤ '9') ∧ (digitChar a).toNat - 48 = a := by decide

theorem digitChar_range (d : Nat) : '0' ≤ digitChar d ∧ digitChar d ≤ '9' := by
  have := (digitChar_parse_fin ⟨d % 10, Nat.mod_lt _ (by decide)⟩).1
  simpa [digitChar_mod] using this

theorem digitChar_val (d : Nat) : (digitChar d).toNat - 48 = d % 10 := by
  have := (digitChar_parse_fin ⟨d % 10, Nat.mod_lt _ (by decide)⟩).2
  simpa [digitChar_mod] using this

theorem cmp_digit (a b : Nat) (ha : a < 10) (hb : b < 10) :
    cmpChars [digitChar a] [digitChar b] = compare a b := by
  simp only [cmpChars, digitChar_lt a b ha hb, digitChar_lt b a hb ha]
  by_cases h1 : a < b
  · simp [h1, Nat.compare_eq_lt.mpr h1]
  · by_cases h2 : b < a
    · simp [h1, h2, Nat.compare_eq_gt.mpr h2]
    · have : a = b := by omega
      simp [this]

theorem fixedDigits_length (w n : Nat) : (fixedDigits w n).length = w := by
  induction w generalizing n with
  | zero => rfl
  | succ w ih => simp [fixedDigits, ih]

/-- base-10 lexicographic decomposition of `compare` on `Nat` -/
theorem compare_div10 (a b : Nat) :
    compare a b = (compare (a / 10) (b / 10)).then (compare (a % 10) (b % 10)) := by
  by_cases h1 : a / 10 < b / 10
  · have : a < b := by omega
    simp [Nat.compare_eq_lt.mpr h1, Nat.compare_eq_lt.mpr this]
  · by_cases h2 : b / 10 < a / 10
    · have : b < a := by omega
      simp [Nat.compare_eq_gt.mpr h2, Nat.compare_eq_gt.mpr this]
    · have he : a / 10 = b / 10 := by omega
      rw [he]
      simp only [Nat.compare_eq_eq.mpr rfl, Ordering.eq_then]
      by_cases h3 : a % 10 < b % 10
      · have : a < b := by omega
        simp [Nat.compare_eq_lt.mpr h3, Nat.compare_eq_lt.mpr this]
      · by_cases h4 : b % 10 < a % 10
        · have : b < a := by omega
          simp [Nat.compare_eq_gt.mpr h4, Nat.compare_eq_gt.mpr this]
        · have h5 : a % 10 = b % 10 := by omega
          have : a = b := by omega
          simp [this]

/-- for equal-width zero-padded decimal renderings, lexicographic order is numeric order (any width) -/
theorem cmp_fixedDigits (w a b : Nat) (ha : a < 10 ^ w) (hb : b < 10 ^ w) :
    cmpChars (fixedDigits w a) (fixedDigits w b) = compare a b := by
  induction w generalizing a b with
  | zero =>
    have h1 : a = 0 := by simpa using ha
    have h2 : b = 0 := by simpa using hb
    subst h1; subst h2
    simp [fixedDigits, cmpChars]
  | succ w ih =>
    have ha' : a / 10 < 10 ^ w := by
      rw [Nat.pow_succ] at ha; omega
    have hb' : b / 10 < 10 ^ w := by
      rw [Nat.pow_succ] at hb; omega
    simp only [fixedDigits]
    rw [cmpChars_append _ _ _ _ (by simp [fixedDigits_length]), ih _ _ ha' hb',
      cmp_digit _ _ (Nat.mod_lt _ (by decide)) (Nat.mod_lt _ (by decide))]
    exact (compare_div10 a b).symm

/-! ## `padInt` within its width -/

theorem padInt_eq (w : Nat) (x : Int) (h0 : 0 ≤ x) (h1 : x.toNat < 10 ^ w) :
    padInt w x = fixedDigits w x.toNat := by
  simp [padInt, padNat, h0, h1]

theorem padInt2_eq (x : Int) (h0 : 0 ≤ x) (h1 : x ≤ 99) : padInt 2 x = fixedDigits 2 x.toNat :=
  padInt_eq 2 x h0 (by omega)

theorem padInt4_eq (x : Int) (h0 : 0 ≤ x) (h1 : x ≤ 9999) : padInt 4 x = fixedDigits 4 x.toNat :=
  padInt_eq 4 x h0 (by omega)

theorem compare_toNat (x y : Int) (hx : 0 ≤ x) (hy : 0 ≤ y) :
    compare x.toNat y.toNat = compare x y := by
  by_cases h1 : x < y
  · rw [Int.compare_eq_lt.mpr h1, Nat.compare_eq_lt]; omega
  · by_cases h2 : y < x
    · rw [Int.compare_eq_gt.mpr h2, Nat.compare_eq_gt]; omega
    · have : x = y := by omega
      subst this
      simp

theorem cmp_fixed2 (x y : Int) (hx : 0 ≤ x ∧ x ≤ 99) (hy : 0 ≤ y ∧ y ≤ 99) :
    cmpChars (fixedDigits 2 x.toNat) (fixedDigits 2 y.toNat) = compare x y := by
  rw [cmp_fixedDigits 2 _ _ (by omega) (by omega), compare_toNat _ _ hx.1 hy.1]

theorem cmp_fixed4 (x y : Int) (hx : 0 ≤ x ∧ x ≤ 9999) (hy : 0 ≤ y ∧ y ≤ 9999) :
    cmpChars (fixedDigits 4 x.toNat) (fixedDigits 4 y.toNat) = compare x y := by
  rw [cmp_fixedDigits 4 _ _ (by omega) (by omega), compare_toNat _ _ hx.1 hy.1]

/-- base-100 lexicographic decomposition of `compare` on `Int` -/
theorem compare_mul100 (q q' r r' : Int) (hr : 0 ≤ r ∧ r ≤ 99) (hr' : 0 ≤ r' ∧ r' ≤ 99) :
    compare (q * 100 + r) (q' * 100 + r') = (compare q q').then (compare r r') := by
  by_cases h1 : q < q'
  · have : q * 100 + r < q' * 100 + r' := by omega
    simp [Int.compare_eq_lt.mpr h1, Int.compare_eq_lt.mpr this]
  · by_cases h2 : q' < q
    · have : q' * 100 + r' < q * 100 + r := by omega
      simp [Int.compare_eq_gt.mpr h2, Int.compare_eq_gt.mpr this]
    · have he : q = q' := by omega
      subst he
      simp only [Int.compare_eq_eq.mpr rfl, Ordering.eq_then]
      by_cases h3 : r < r'
      · have : q * 100 + r < q * 100 + r' := by omega
        simp [Int.compare_eq_lt.mpr h3, Int.compare_eq_lt.mpr this]
      · by_cases h4 : r' < r
        · have : q * 100 + r' < q * 100 + r := by omega
          simp [Int.compare_eq_gt.mpr h4, Int.compare_eq_gt.mpr this]
        · have : r = r' := by omega
          subst this
          simp

/-! ## the date renderings -/

/-- numeric key of a date-time -/
def key14 (s : Solar) : Int :=
  ((((s.year * 100 + s.month) * 100 + s.day) * 100 + s.hour) * 100 + s.minute) * 100 + s.second
def key8 (s : Solar) : Int := (s.year * 100 + s.month) * 100 + s.day

/-- fields fit their print width -/
def InWidth (s : Solar) : Prop :=
  0 ≤ s.year ∧ s.year ≤ 9999 ∧ 0 ≤ s.month ∧ s.month ≤ 99 ∧ 0 ≤ s.day ∧ s.day ≤ 99 ∧
  0 ≤ s.hour ∧ s.hour ≤ 99 ∧ 0 ≤ s.minute ∧ s.minute ≤ 99 ∧ 0 ≤ s.second ∧ s.second ≤ 99

theorem toYmd_eq (s : Solar) (h : InWidth s) :
    s.toYmd = fixedDigits 4 s.year.toNat ++ ['-'] ++ fixedDigits 2 s.month.toNat ++ ['-'] ++
      fixedDigits 2 s.day.toNat := by
  obtain ⟨h1, h2, h3, h4, h5, h6, _⟩ := h
  simp only [Solar.toYmd, padInt4_eq _ h1 h2, padInt2_eq _ h3 h4, padInt2_eq _ h5 h6]

theorem toYmdHms_eq (s : Solar) (h : InWidth s) :
    s.toYmdHms = s.toYmd ++ [' '] ++ fixedDigits 2 s.hour.toNat ++ [':'] ++
      fixedDigits 2 s.minute.toNat ++ [':'] ++ fixedDigits 2 s.second.toNat := by
  obtain ⟨_, _, _, _, _, _, h7, h8, h9, h10, h11, h12⟩ := h
  simp only [Solar.toYmdHms, padInt2_eq _ h7 h8, padInt2_eq _ h9 h10, padInt2_eq _ h11 h12]

theorem toYmd_length (s : Solar) (h : InWidth s) : s.toYmd.length = 10 := by
  simp [toYmd_eq s h, fixedDigits_length]

theorem toYmdHms_length (s : Solar) (h : InWidth s) : s.toYmdHms.length = 19 := by
  simp [toYmdHms_eq s h, toYmd_length s h, fixedDigits_length]

/-- comparing the printed short forms = comparing (year, month, day) -/
theorem cmp_toYmd (s o : Solar) (hs : InWidth s) (ho : InWidth o) :
    cmpChars s.toYmd o.toYmd = compare (key8 s) (key8 o) := by
  rw [toYmd_eq s hs, toYmd_eq o ho]
  obtain ⟨a1, a2, a3, a4, a5, a6, _⟩ := hs
  obtain ⟨b1, b2, b3, b4, b5, b6, _⟩ := ho
  rw [cmpChars_append _ _ _ _ (by simp [fixedDigits_length]),
    cmpChars_append _ _ _ _ (by simp [fixedDigits_length]),
    cmpChars_append _ _ _ _ (by simp [fixedDigits_length]),
    cmpChars_append _ _ _ _ (by simp [fixedDigits_length])]
  rw [cmp_fixed4 _ _ ⟨a1, a2⟩ ⟨b1, b2⟩, cmp_fixed2 _ _ ⟨a3, a4⟩ ⟨b3, b4⟩,
    cmp_fixed2 _ _ ⟨a5, a6⟩ ⟨b5, b6⟩, cmpChars_self]
  simp only [key8]
  rw [compare_mul100 _ _ _ _ ⟨a5, a6⟩ ⟨b5, b6⟩, compare_mul100 _ _ _ _ ⟨a3, a4⟩ ⟨b3, b4⟩]
  simp [Ordering.then_assoc]

/-- comparing the printed long forms = comparing the six fields lexicographically -/
theorem cmp_toYmdHms (s o : Solar) (hs : InWidth s) (ho : InWidth o) :
    cmpChars s.toYmdHms o.toYmdHms = compare (key14 s) (key14 o) := by
  rw [toYmdHms_eq s hs, toYmdHms_eq o ho]
  have hl : s.toYmd.length = o.toYmd.length := by rw [toYmd_length s hs, toYmd_length o ho]
  have hc := cmp_toYmd s o hs ho
  obtain ⟨a1, a2, a3, a4, a5, a6, a7, a8, a9, a10, a11, a12⟩ := hs
  obtain ⟨b1, b2, b3, b4, b5, b6, b7, b8, b9, b10, b11, b12⟩ := ho
  rw [cmpChars_append _ _ _ _ (by simp [fixedDigits_length, hl]),
    cmpChars_append _ _ _ _ (by simp [fixedDigits_length, hl]),
    cmpChars_append _ _ _ _ (by simp [fixedDigits_length, hl]),
    cmpChars_append _ _ _ _ (by simp [fixedDigits_length, hl]),
    cmpChars_append _ _ _ _ (by simp [hl]),
    cmpChars_append _ _ _ _ (by simp [hl])]
  rw [hc, cmp_fixed2 _ _ ⟨a7, a8⟩ ⟨b7, b8⟩, cmp_fixed2 _ _ ⟨a9, a10⟩ ⟨b9, b10⟩,
    cmp_fixed2 _ _ ⟨a11, a12⟩ ⟨b11, b12⟩, cmpChars_self, cmpChars_self]
  simp only [key14]
  rw [compare_mul100 _ _ _ _ ⟨a11, a12⟩ ⟨b11, b12⟩, compare_mul100 _ _ _ _ ⟨a9, a10⟩ ⟨b9, b10⟩,
    compare_mul100 _ _ _ _ ⟨a7, a8⟩ ⟨b7, b8⟩]
  simp [key8, Ordering.then_assoc]

/-! ## parsing back -/

theorem parseDigits2 (n : Nat) (h : n < 100) : parseDigits (fixedDigits 2 n) = some n := by
  simp only [fixedDigits, List.nil_append, List.cons_append, parseDigits, List.foldl,
    digitChar_range, digitChar_val, and_self, if_true]
  congr 1
  omega

theorem parseDigits4 (n : Nat) (h : n < 10000) : parseDigits (fixedDigits 4 n) = some n := by
  simp only [fixedDigits, List.nil_append, List.cons_append, parseDigits, List.foldl,
    digitChar_range, digitChar_val, and_self, if_true]
  congr 1
  omega

theorem fixedDigits2_eq (n : Nat) : fixedDigits 2 n = [digitChar (n / 10 % 10), digitChar (n % 10)] := by
  simp [fixedDigits]

theorem fixedDigits4_eq (n : Nat) : fixedDigits 4 n =
    [digitChar (n / 10 / 10 / 10 % 10), digitChar (n / 10 / 10 % 10), digitChar (n / 10 % 10),
      digitChar (n % 10)] := by
  simp [fixedDigits]

theorem parse_toYmd (s : Solar) (h : InWidth s) : parseYmd s.toYmd = some (s.year, s.month, s.day) := by
  rw [toYmd_eq s h]
  obtain ⟨a1, a2, a3, a4, a5, a6, _⟩ := h
  have p1 := parseDigits4 s.year.toNat (by omega)
  have p2 := parseDigits2 s.month.toNat (by omega)
  have p3 := parseDigits2 s.day.toNat (by omega)
  rw [fixedDigits4_eq] at p1 ⊢
  rw [fixedDigits2_eq] at p2 p3 ⊢
  rw [fixedDigits2_eq]
  simp only [List.cons_append, List.nil_append, parseYmd, p1, p2, p3,
    Int.toNat_of_nonneg a1, Int.toNat_of_nonneg a3, Int.toNat_of_nonneg a5]

/-- the printed forms parse back to the same fields -/
theorem parse_toYmdHms (s : Solar) (h : InWidth s) : parseYmdHms s.toYmdHms = some s := by
  rw [toYmdHms_eq s h, toYmd_eq s h]
  obtain ⟨a1, a2, a3, a4, a5, a6, a7, a8, a9, a10, a11, a12⟩ := h
  have p1 := parseDigits4 s.year.toNat (by omega)
  have p2 := parseDigits2 s.month.toNat (by omega)
  have p3 := parseDigits2 s.day.toNat (by omega)
  have p4 := parseDigits2 s.hour.toNat (by omega)
  have p5 := parseDigits2 s.minute.toNat (by omega)
  have p6 := parseDigits2 s.second.toNat (by omega)
  rw [fixedDigits4_eq] at p1
  rw [fixedDigits2_eq] at p2 p3 p4 p5 p6
  simp only [fixedDigits4_eq, fixedDigits2_eq]
  simp only [List.cons_append, List.nil_append, parseYmdHms, p1, p2, p3, p4, p5, p6,
    Int.toNat_of_nonneg a1, Int.toNat_of_nonneg a3, Int.toNat_of_nonneg a5,
    Int.toNat_of_nonneg a7, Int.toNat_of_nonneg a9, Int.toNat_of_nonneg a11]

/-- hence printing is injective -/
theorem toYmdHms_inj (s o : Solar) (hs : InWidth s) (ho : InWidth o) (h : s.toYmdHms = o.toYmdHms) : s = o := by
  have h1 := parse_toYmdHms s hs
  rw [h, parse_toYmdHms o ho] at h1
  exact (Option.some.inj h1).symm

/-- "%02d:%02d" order = (hour, minute) order, used by the 23:00 and two-hour-slot tests -/
theorem cmp_fmtHm (h1 m1 h2 m2 : Int) (a : 0 ≤ h1 ∧ h1 ≤ 99) (b : 0 ≤ m1 ∧ m1 ≤ 99) (c : 0 ≤ h2 ∧ h2 ≤ 99) (d : 0 ≤ m2 ∧ m2 ≤ 99) :
    cmpChars (fmtHm h1 m1) (fmtHm h2 m2) = compare (h1 * 100 + m1) (h2 * 100 + m2) := by
  simp only [fmtHm, padInt2_eq _ a.1 a.2, padInt2_eq _ b.1 b.2, padInt2_eq _ c.1 c.2,
    padInt2_eq _ d.1 d.2]
  rw [cmpChars_append _ _ _ _ (by simp [fixedDigits_length]),
    cmpChars_append _ _ _ _ (by simp [fixedDigits_length]),
    cmp_fixed2 _ _ a c, cmp_fixed2 _ _ b d, cmpChars_self, compare_mul100 _ _ _ _ b d]
  simp

/-- the width bound is necessary: a five-digit year breaks the order -/
example : cmpChars (Solar.toYmd ⟨10000, 1, 1, 0, 0, 0⟩) (Solar.toYmd ⟨9999, 12, 31, 0, 0, 0⟩) = .lt := by decide

/-- named copy of the example above, so that its axioms can be printed -/
theorem width_bound_necessary :
    cmpChars (Solar.toYmd ⟨10000, 1, 1, 0, 0, 0⟩) (Solar.toYmd ⟨9999, 12, 31, 0, 0, 0⟩) = .lt := by decide

#print axioms width_bound_necessary
#print axioms fixedDigits_length
#print axioms cmp_fixedDigits
#print axioms toYmd_length
#print axioms toYmdHms_length
#print axioms cmp_toYmd
#print axioms cmp_toYmdHms
#print axioms parse_toYmdHms
#print axioms parse_toYmd
#print axioms toYmdHms_inj
#print axioms cmp_fmtHm

end Model
