/-
Proofs.FnSolarNext — Solar.Next (workday stepping): generated code = Model.nextWorkday.
-/
import Proofs.FnCivil2
import Proofs.CivilStep
import Model.Holiday

namespace FnEq
open Gen.Fn
set_option linter.unusedSimpArgs false

/-! ## 1. Solar.Next -/

/-- the working-day flag the generated loop computes in iteration `k` from its atoms -/
def nx_flag (a1 : Int → Gen.Fn.Holiday) (a2 : Int → Bool) (a3 : Int → Int) (k : Nat) : Bool :=
  if a2 (k : Int) then !(decide (0 = a3 (k : Int)) || decide (6 = a3 (k : Int))) else (a1 (k : Int)).work

/-- The generated loop as a recursive function over model dates: `L` = remaining trip count of the
`for k in [0:fuel]`, `k` = loop index, `rest` = remaining working days. -/
def nx_walk (flag : Nat → Bool) (add : Int) : Nat → Nat → Int → Model.Solar → Except Gen.Fn.Err Model.Solar
  | 0, _, _, _ => .error .fuel
  | L + 1, k, rest, o =>
    if rest > 0 then
      match o.nextDay add with
      | none => .error .panic
      | some o' => nx_walk flag add L (k + 1) (if flag k then rest - 1 else rest) o'
    else .ok o

abbrev nx_step (fuel : Nat) (a1 : Int → Gen.Fn.Holiday) (a2 : Int → Bool) (a3 : Int → Int) (add : Int) :
    Nat → Gen.Fn.Solar × Int × Bool → Except Gen.Fn.Err (ForInStep (Gen.Fn.Solar × Int × Bool)) :=
  fun k9 __s =>
    if (!decide (__s.snd.fst > 0)) = true then pure (ForInStep.done (__s.fst, __s.snd.fst, true))
    else do
      let t11 ← calendar_Solar_NextDay fuel __s.fst add
      if a2 ↑k9 = true then
          if (decide (0 = a3 ↑k9) || decide (6 = a3 ↑k9)) = true then
            pure (ForInStep.yield (t11, __s.snd.fst, __s.snd.snd))
          else pure (ForInStep.yield (t11, __s.snd.fst - 1, __s.snd.snd))
        else do
          let t12 ← HolidayUtil_Holiday_IsWork (a1 ↑k9)
          if t12 = true then pure (ForInStep.yield (t11, __s.snd.fst - 1, __s.snd.snd))
            else pure (ForInStep.yield (t11, __s.snd.fst, __s.snd.snd))

abbrev nx_fin : Gen.Fn.Solar × Int × Bool → Except Gen.Fn.Err Gen.Fn.Solar := fun __s =>
  if (!__s.snd.snd) = true then do
      throw Err.fuel
      pure __s.fst
    else pure __s.fst

def nx_res (r : Except Gen.Fn.Err Model.Solar) : Except Gen.Fn.Err Gen.Fn.Solar :=
  match r with | .ok r => .ok (ofM r) | .error e => .error e

theorem nx_walk_list (fuel : Nat) (a1 : Int → Gen.Fn.Holiday) (a2 : Int → Bool) (a3 : Int → Int) (add : Int)
    (hf : add.natAbs + 2 ≤ fuel) (L : Nat) :
    ∀ (i : Nat) (rest : Int) (o : Model.Solar), o.valid = true →
    (forIn (List.range' i L 1) (ofM o, rest, false) (nx_step fuel a1 a2 a3 add) >>= nx_fin) =
      nx_res (nx_walk (nx_flag a1 a2 a3) add L i rest o) := by
  induction L with
  | zero => intro i rest o _; rfl
  | succ L ih =>
    intro i rest o hv
    rw [List.range'_succ, List.forIn_cons]
    by_cases c : rest > 0
    · simp only [nx_walk, if_pos c]
      have hnd := solarNextDay_eq fuel (ofM o) add (by simpa using hv) hf
      simp only [toM_ofM] at hnd
      cases ho : o.nextDay add with
      | none =>
        rw [ho] at hnd
        simp only [nx_step, c, decide_true, Bool.not_true, Bool.false_eq_true, if_false, hnd,
          c1_error_bind, nx_res]
      | some o' =>
        rw [ho] at hnd
        have hv' := c2_nextDay_valid o o' add ho
        simp only [nx_step, c, decide_true, Bool.not_true, Bool.false_eq_true, if_false, hnd,
          c1_ok_bind, nx_flag, HolidayUtil_Holiday_IsWork, c1_pure]
        by_cases h2 : a2 (i : Int) = true
        · by_cases h3 : (decide (0 = a3 ↑i) || decide (6 = a3 ↑i)) = true
          · simp only [h2, h3, if_true, c1_ok_bind, Bool.not_true, Bool.false_eq_true, if_false]
            exact ih (i + 1) _ o' hv'
          · simp only [h2, h3, if_true, c1_ok_bind, if_false, Bool.not_false]
            exact ih (i + 1) _ o' hv'
        · by_cases h3 : (a1 (i : Int)).work = true
          · simp only [h2, h3, if_true, c1_ok_bind, if_false]
            exact ih (i + 1) _ o' hv'
          · simp only [h2, h3, if_true, c1_ok_bind, if_false]
            exact ih (i + 1) _ o' hv'
    · simp only [nx_walk, if_neg c, nx_step, c, decide_false, Bool.not_false, if_true, c1_pure, c1_ok_bind,
        nx_res, nx_fin, Bool.not_true, Bool.false_eq_true, if_false]

/-- the date reached from `s` after `k` single steps of `add` days (`none` = some `NextDay` panicked) -/
def nx_iter (add : Int) : Nat → Model.Solar → Option Model.Solar
  | 0, s => some s
  | k + 1, s => (s.nextDay add).bind (nx_iter add k)

theorem nx_forIn (fuel : Nat) (a1 : Int → Gen.Fn.Holiday) (a2 : Int → Bool) (a3 : Int → Int) (add : Int)
    (hf : add.natAbs + 2 ≤ fuel) (rest : Int) (o : Model.Solar) (hv : o.valid = true) :
    (forIn [:fuel] (ofM o, rest, false) (nx_step fuel a1 a2 a3 add) >>= nx_fin) =
      nx_res (nx_walk (nx_flag a1 a2 a3) add fuel 0 rest o) := by
  rw [Std.Legacy.Range.forIn_eq_forIn_range']
  have := nx_walk_list fuel a1 a2 a3 add hf fuel 0 rest o hv
  simpa [Std.Legacy.Range.size] using this

/-- EXACT behaviour of the generated `Solar.Next(days, true)` on a valid receiver, for every outcome
(result / panic / out of fuel): it is `nx_walk` started at loop index 0. -/
theorem solarNext_walk (fuel : Nat) (a1 : Int → Gen.Fn.Holiday) (a2 : Int → Bool) (a3 : Int → Int)
    (s : Gen.Fn.Solar) (days : Int) (hs : (toM s).valid = true) (hd : days ≠ 0) (hf : 3 ≤ fuel) :
    Gen.Fn.calendar_Solar_Next fuel a1 a2 a3 s days true =
      nx_res (nx_walk (nx_flag a1 a2 a3) (if days < 0 then -1 else 1) fuel 0 (days.natAbs : Int) (toM s)) := by
  have hns : Gen.Fn.calendar_NewSolar s.year s.month s.day s.hour s.minute s.second = .ok s := by
    rw [newSolar_eq]
    have : Model.newSolar s.year s.month s.day s.hour s.minute s.second = some (toM s) := by
      unfold Model.newSolar
      rw [if_pos (by simpa [Model.Solar.valid, toM] using hs)]; rfl
    rw [this]; rfl
  by_cases hneg : days < 0
  · have e : (days.natAbs : Int) = -days := by omega
    rw [if_pos hneg, e, ← nx_forIn fuel a1 a2 a3 (-1) (by simpa using hf) (-days) (toM s) hs]
    simp only [Gen.Fn.calendar_Solar_Next, Bool.not_true, Bool.false_eq_true, if_false, getYear_eq, getMonth_eq,
      getDay_eq, getHour_eq, getMinute_eq, getSecond_eq, c1_ok_bind, hd, hneg, decide_true, if_true, ne_eq,
      not_false_eq_true, hns, ofM_toM]
  · have e : (days.natAbs : Int) = days := by omega
    rw [if_neg hneg, e, ← nx_forIn fuel a1 a2 a3 1 (by simpa using hf) days (toM s) hs]
    simp only [Gen.Fn.calendar_Solar_Next, Bool.not_true, Bool.false_eq_true, if_false, getYear_eq, getMonth_eq,
      getDay_eq, getHour_eq, getMinute_eq, getSecond_eq, c1_ok_bind, hd, hneg, decide_true, decide_false, if_true, ne_eq,
      not_false_eq_true, hns, ofM_toM]

theorem nx_iter_succ (add : Int) (j : Nat) (o o' d : Model.Solar) (ho : o.nextDay add = some o')
    (h : nx_iter add j o' = some d) : nx_iter add (j + 1) o = some d := by
  simp only [nx_iter, ho, Option.bind_some, h]

/-- model loop succeeds ⇒ the generated loop (as `nx_walk`) returns the same date, for every trip
count `L > mf`; the flags of iterations `k … k+mf-1` are the model's `isWorkday` of the visited days -/
theorem nx_walk_of_work (st : Model.HolidayState) (flag : Nat → Bool) (add : Int) (mf : Nat) :
    ∀ (rest k L : Nat) (o r : Model.Solar), mf + 1 ≤ L →
    (∀ j d, j < mf → nx_iter add (j + 1) o = some d → Model.isWorkday st d = some (flag (k + j))) →
    Model.workLoop st add mf rest o = some r → nx_walk flag add L k (rest : Int) o = .ok r := by
  induction mf with
  | zero =>
    intro rest k L o r hL _ hw
    obtain ⟨L, rfl⟩ : ∃ L', L = L' + 1 := ⟨L - 1, by omega⟩
    cases rest with
    | zero => simp only [Model.workLoop] at hw; injection hw with hw; subst hw; simp [nx_walk]
    | succ rest => simp [Model.workLoop] at hw
  | succ mf ih =>
    intro rest k L o r hL hat hw
    obtain ⟨L, rfl⟩ : ∃ L', L = L' + 1 := ⟨L - 1, by omega⟩
    cases rest with
    | zero => simp only [Model.workLoop] at hw; injection hw with hw; subst hw; simp [nx_walk]
    | succ rest =>
      have hpos : ((rest + 1 : Nat) : Int) > 0 := by omega
      simp only [Model.workLoop] at hw
      simp only [nx_walk, if_pos hpos]
      cases ho : o.nextDay add with
      | none => rw [ho] at hw; cases hw
      | some o' =>
        rw [ho] at hw
        have hw0 := hat 0 o' (by omega) (by simp [nx_iter, ho])
        have hat' : ∀ j d, j < mf → nx_iter add (j + 1) o' = some d →
            Model.isWorkday st d = some (flag (k + 1 + j)) := by
          intro j d hj hd
          have := hat (j + 1) d (by omega) (nx_iter_succ add (j + 1) o o' d ho hd)
          rw [this]; congr 2; omega
        simp only [Nat.add_zero] at hw0
        simp only [hw0] at hw
        cases hfl : flag k with
        | true =>
          simp only [hfl] at hw
          simp only [if_true]
          have e : ((rest + 1 : Nat) : Int) - 1 = (rest : Int) := by omega
          rw [e]
          exact ih rest (k + 1) L o' r (by omega) hat' hw
        | false =>
          simp only [hfl] at hw
          simp only [Bool.false_eq_true, if_false]
          exact ih (rest + 1) (k + 1) L o' r (by omega) hat' hw

/-- conversely, with exactly `mf + 1` trips: what the generated loop returns, the model returns -/
theorem nx_work_of_walk (st : Model.HolidayState) (flag : Nat → Bool) (add : Int) (mf : Nat) :
    ∀ (rest k : Nat) (o r : Model.Solar),
    (∀ j d, j < mf → nx_iter add (j + 1) o = some d → Model.isWorkday st d = some (flag (k + j))) →
    nx_walk flag add (mf + 1) k (rest : Int) o = .ok r → Model.workLoop st add mf rest o = some r := by
  induction mf with
  | zero =>
    intro rest k o r _ hw
    cases rest with
    | zero => simp [nx_walk] at hw; subst hw; simp [Model.workLoop]
    | succ rest =>
      have hpos : ((rest + 1 : Nat) : Int) > 0 := by omega
      simp only [nx_walk, if_pos hpos] at hw
      cases ho : o.nextDay add with
      | none => rw [ho] at hw; cases hw
      | some o' => rw [ho] at hw; cases hw
  | succ mf ih =>
    intro rest k o r hat hw
    cases rest with
    | zero => simp [nx_walk] at hw; subst hw; simp [Model.workLoop]
    | succ rest =>
      have hpos : ((rest + 1 : Nat) : Int) > 0 := by omega
      rw [nx_walk, if_pos hpos] at hw
      simp only [Model.workLoop]
      cases ho : o.nextDay add with
      | none => rw [ho] at hw; cases hw
      | some o' =>
        rw [ho] at hw
        have hw0 := hat 0 o' (by omega) (by simp [nx_iter, ho])
        have hat' : ∀ j d, j < mf → nx_iter add (j + 1) o' = some d →
            Model.isWorkday st d = some (flag (k + 1 + j)) := by
          intro j d hj hd
          have := hat (j + 1) d (by omega) (nx_iter_succ add (j + 1) o o' d ho hd)
          rw [this]; congr 2; omega
        simp only [Nat.add_zero] at hw0
        simp only [hw0]
        cases hfl : flag k with
        | true =>
          simp only [hfl, if_true] at hw ⊢
          have e : ((rest + 1 : Nat) : Int) - 1 = (rest : Int) := by omega
          rw [e] at hw
          exact ih rest (k + 1) o' r hat' hw
        | false =>
          simp only [hfl, Bool.false_eq_true, if_false] at hw ⊢
          exact ih (rest + 1) (k + 1) o' r hat' hw

/-- (a) without the flag `Solar.Next` is `Solar.NextDay`. -/
theorem solarNext_eq_nextDay (fuel : Nat) (a1 : Int → Gen.Fn.Holiday) (a2 : Int → Bool) (a3 : Int → Int)
    (s : Gen.Fn.Solar) (days : Int) (hs : (toM s).valid = true) (hf : days.natAbs + 2 ≤ fuel) :
    Gen.Fn.calendar_Solar_Next fuel a1 a2 a3 s days false =
      (match (toM s).nextDay days with | some r => .ok (ofM r) | none => .error .panic) := by
  simp only [Gen.Fn.calendar_Solar_Next, Bool.not_false, if_true, solarNextDay_eq fuel s days hs hf]
  cases (toM s).nextDay days <;> rfl

/-- the same without any guard: the generated function IS the generated `NextDay`. -/
theorem solarNext_false (fuel : Nat) (a1 : Int → Gen.Fn.Holiday) (a2 : Int → Bool) (a3 : Int → Int)
    (s : Gen.Fn.Solar) (days : Int) :
    Gen.Fn.calendar_Solar_Next fuel a1 a2 a3 s days false = Gen.Fn.calendar_Solar_NextDay fuel s days := by
  simp only [Gen.Fn.calendar_Solar_Next, Bool.not_false, if_true]

theorem nx_newSolar_self (s : Gen.Fn.Solar) (hs : (toM s).valid = true) :
    Gen.Fn.calendar_NewSolar s.year s.month s.day s.hour s.minute s.second = .ok s := by
  rw [newSolar_eq]
  have : Model.newSolar s.year s.month s.day s.hour s.minute s.second = some (toM s) := by
    unfold Model.newSolar
    rw [if_pos (by simpa [Model.Solar.valid, toM] using hs)]; rfl
  rw [this]; rfl

theorem nx_newSolar_invalid (s : Gen.Fn.Solar) (hs : ¬ (toM s).valid = true) :
    Gen.Fn.calendar_NewSolar s.year s.month s.day s.hour s.minute s.second = .error .panic := by
  rw [newSolar_eq]
  have : Model.newSolar s.year s.month s.day s.hour s.minute s.second = none := by
    unfold Model.newSolar
    rw [if_neg (by simpa [Model.Solar.valid, toM] using hs)]
  rw [this]

/-- (b) `days = 0` with the flag: a copy of the (valid) receiver; no fuel needed. -/
theorem solarNext_zero (fuel : Nat) (a1 : Int → Gen.Fn.Holiday) (a2 : Int → Bool) (a3 : Int → Int)
    (s : Gen.Fn.Solar) (hs : (toM s).valid = true) :
    Gen.Fn.calendar_Solar_Next fuel a1 a2 a3 s 0 true = .ok s := by
  simp only [Gen.Fn.calendar_Solar_Next, Bool.not_true, Bool.false_eq_true, if_false, getYear_eq,
    getMonth_eq, getDay_eq, getHour_eq, getMinute_eq, getSecond_eq, c1_ok_bind, nx_newSolar_self s hs,
    ne_eq, not_true_eq_false, decide_false, c1_pure]

/-- outside the guard: a receiver that no constructor returns makes the copy `NewSolar(…)` panic
(the model, which copies nothing, returns the receiver for `days = 0`). -/
theorem solarNext_invalid (fuel : Nat) (a1 : Int → Gen.Fn.Holiday) (a2 : Int → Bool) (a3 : Int → Int)
    (s : Gen.Fn.Solar) (days : Int) (hs : ¬ (toM s).valid = true) :
    Gen.Fn.calendar_Solar_Next fuel a1 a2 a3 s days true = .error .panic := by
  simp only [Gen.Fn.calendar_Solar_Next, Bool.not_true, Bool.false_eq_true, if_false, getYear_eq,
    getMonth_eq, getDay_eq, getHour_eq, getMinute_eq, getSecond_eq, c1_ok_bind, nx_newSolar_invalid s hs,
    c1_error_bind]

/-- (c) one-step unfoldings, in the same shape.  Generated loop (`L+1` trips left, index `k`): -/
theorem nx_walk_step (flag : Nat → Bool) (add : Int) (L k rest : Nat) (o : Model.Solar) :
    nx_walk flag add (L + 1) k ((rest + 1 : Nat) : Int) o =
      (match o.nextDay add with
        | none => .error .panic
        | some o' => nx_walk flag add L (k + 1) ((if flag k then rest else rest + 1 : Nat) : Int) o') := by
  have hpos : ((rest + 1 : Nat) : Int) > 0 := by omega
  rw [nx_walk, if_pos hpos]
  cases o.nextDay add with
  | none => rfl
  | some o' =>
    cases flag k
    · rfl
    · simp only [if_true]; congr 1; omega

/-- model loop, with the model's own flag: -/
theorem nx_workLoop_step (st : Model.HolidayState) (add : Int) (mf rest : Nat) (o : Model.Solar) :
    Model.workLoop st add (mf + 1) (rest + 1) o =
      (match o.nextDay add with
        | none => none
        | some o' =>
          match Model.isWorkday st o' with
          | none => none
          | some w => Model.workLoop st add mf (if w then rest else rest + 1) o') := by
  rw [Model.workLoop]
  cases o.nextDay add with
  | none => rfl
  | some o' =>
    dsimp only
    cases Model.isWorkday st o' with
    | none => rfl
    | some w => cases w <;> rfl

/-- **`Solar.Next(days, true)` = `Model.nextWorkday`.**

Atoms of iteration `k` (0-based): `a1 k` = the holiday record looked up for the day reached in that
iteration, `a2 k` = "no record", `a3 k` = that day's weekday.  Hypothesis `hat` says: for every
`k < mfuel`, if `d` is the day reached from the receiver after `k+1` single steps of `±1` day
(`nx_iter`, i.e. the day the `k`-th iteration examines), then the model's `isWorkday st d` evaluates
(no panic in the lookup) and equals the flag the generated code computes from the atoms.

Fuel: the model walks at most `mfuel` days; the generated loop needs one more trip to observe
`rest ≤ 0`, and each inner `NextDay(±1)` needs fuel 3. -/
theorem solarNext_eq (fuel mfuel : Nat) (st : Model.HolidayState)
    (a1 : Int → Gen.Fn.Holiday) (a2 : Int → Bool) (a3 : Int → Int)
    (s : Gen.Fn.Solar) (days : Int) (r : Model.Solar)
    (hs : (toM s).valid = true) (hf1 : mfuel + 1 ≤ fuel) (hf2 : 3 ≤ fuel)
    (hat : ∀ (k : Nat) (d : Model.Solar), k < mfuel →
      nx_iter (if days < 0 then -1 else 1) (k + 1) (toM s) = some d →
      Model.isWorkday st d =
        some (if a2 (k : Int) then !(decide (0 = a3 (k : Int)) || decide (6 = a3 (k : Int)))
              else (a1 (k : Int)).work))
    (hm : Model.nextWorkday st (toM s) days mfuel = some r) :
    Gen.Fn.calendar_Solar_Next fuel a1 a2 a3 s days true = .ok (ofM r) := by
  by_cases hd : days = 0
  · subst hd
    simp only [Model.nextWorkday, if_true] at hm
    injection hm with hm; subst hm
    simpa using solarNext_zero fuel a1 a2 a3 s hs
  · rw [solarNext_walk fuel a1 a2 a3 s days hs hd hf2]
    simp only [Model.nextWorkday, if_neg hd] at hm
    rw [nx_walk_of_work st (nx_flag a1 a2 a3) _ mfuel days.natAbs 0 fuel (toM s) r hf1
      (by intro j d hj hd; simpa [nx_flag] using hat j d hj hd) hm]
    rfl

/-- The exact form (model fuel = generated fuel − 1): the generated function returns `r` iff the
model does.  (When the model returns `none`, the generated function returns an error:
`.panic` if a `NextDay` panicked, `.fuel` otherwise — see `solarNext_walk`.) -/
theorem solarNext_ok_iff (fuel : Nat) (st : Model.HolidayState)
    (a1 : Int → Gen.Fn.Holiday) (a2 : Int → Bool) (a3 : Int → Int)
    (s : Gen.Fn.Solar) (days : Int) (r : Model.Solar)
    (hs : (toM s).valid = true) (hf2 : 3 ≤ fuel)
    (hat : ∀ (k : Nat) (d : Model.Solar), k + 1 < fuel →
      nx_iter (if days < 0 then -1 else 1) (k + 1) (toM s) = some d →
      Model.isWorkday st d =
        some (if a2 (k : Int) then !(decide (0 = a3 (k : Int)) || decide (6 = a3 (k : Int)))
              else (a1 (k : Int)).work)) :
    Gen.Fn.calendar_Solar_Next fuel a1 a2 a3 s days true = .ok (ofM r) ↔
      Model.nextWorkday st (toM s) days (fuel - 1) = some r := by
  constructor
  · intro h
    by_cases hd : days = 0
    · subst hd
      rw [solarNext_zero fuel a1 a2 a3 s hs] at h
      injection h with h
      have : toM s = r := by rw [h]; rfl
      simp [Model.nextWorkday, this]
    · rw [solarNext_walk fuel a1 a2 a3 s days hs hd hf2] at h
      simp only [Model.nextWorkday, if_neg hd]
      obtain ⟨mf, rfl⟩ : ∃ mf, fuel = mf + 1 := ⟨fuel - 1, by omega⟩
      apply nx_work_of_walk st (nx_flag a1 a2 a3) _ mf days.natAbs 0 (toM s) r
        (by intro j d hj hd; simpa [nx_flag] using hat j d (by omega) hd)
      revert h
      cases nx_walk (nx_flag a1 a2 a3) (if days < 0 then -1 else 1) (mf + 1) 0 (days.natAbs : Int) (toM s) with
      | error e => intro h; cases h
      | ok r' => intro h; simp only [nx_res] at h; injection h with h; rw [ofM_inj h]
  · intro h
    exact solarNext_eq fuel (fuel - 1) st a1 a2 a3 s days r hs (by omega) hf2
      (fun k d hk => hat k d (by omega)) h


end FnEq
