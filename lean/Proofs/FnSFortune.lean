/-
FnS6 — fortune-period pillars (DaYun / XiaoYun / LiuNian / LiuYue `GetGanZhi`, `GetXun`, `GetXunKong`) of the string-mode
generated code (`Gen.FnS`) versus the model (`Model.DaYun.ganZhi`, `Model.xiaoYunGanZhi`, `Model.liuNianGanZhi`,
`Model.liuYueGanZhi`).
-/
import Proofs.FnSBase
import Proofs.FnS2
import Proofs.FnS3
namespace FnSEq
open Gen.Fn (Err)

/-! ### 0. conversions -/

/-- `Gen.FnS.Yun` → `Model.Yun` (`terms` = the Go `jieQi` table of the lunar, not part of the generated structure) -/
def yunToM (y : Gen.FnS.Yun) (terms : List Model.Solar) : Model.Yun :=
  ⟨y.gender, y.startYear, y.startMonth, y.startDay, y.startHour, y.forward, lunarToM y.lunar terms⟩

/-- `Gen.FnS.DaYun` → `Model.DaYun` (the model's DaYun has no `yun` / `lunar` back references: they are separate arguments) -/
def daYunToM (d : Gen.FnS.DaYun) : Model.DaYun := ⟨d.startYear, d.endYear, d.startAge, d.endAge, d.index⟩

section
variable (y : Gen.FnS.Yun) (t : List Model.Solar) (d : Gen.FnS.DaYun)
@[simp] theorem yunToM_forward : (yunToM y t).forward = y.forward := rfl
@[simp] theorem yunToM_lunar : (yunToM y t).lunar = lunarToM y.lunar t := rfl
@[simp] theorem daYunToM_index : (daYunToM d).index = d.index := rfl
@[simp] theorem daYunToM_startAge : (daYunToM d).startAge = d.startAge := rfl
@[simp] theorem daYunToM_startYear : (daYunToM d).startYear = d.startYear := rfl
@[simp] theorem daYunToM_endYear : (daYunToM d).endYear = d.endYear := rfl
@[simp] theorem daYunToM_endAge : (daYunToM d).endAge = d.endAge := rfl
end

/-! ### 1. the sixty names -/

theorem s6_size : ((Gen.Tables.LunarUtil.«JIA_ZI».length : Nat) : Int) = 60 := by rw [s2_JIA_ZI_length]; rfl

/-- entry `o` of `JIA_ZI` is the pillar name of stem `o % 10`, branch `o % 12` -/
theorem s6_jiaZi_tab : (List.range 60).all (fun o =>
    Model.jiaZiStr (o : Int) == Model.EightChar.pillarStr ((o : Int) % 10) ((o : Int) % 12)) = true := by
  decide

theorem s6_jiaZiStr_pillar (o : Int) (h0 : 0 ≤ o) (h1 : o < 60) :
    Model.jiaZiStr o = Model.EightChar.pillarStr (o % 10) (o % 12) := by
  obtain ⟨o', rfl⟩ := Int.eq_ofNat_of_zero_le h0
  have h := s6_jiaZi_tab
  rw [List.all_eq_true] at h
  exact eq_of_beq (h o' (List.mem_range.mpr (by omega)))

/-- for a proper pillar (stem 0..9, branch 0..11, equal parity) the name at its 60-cycle index is its name -/
theorem s6_jiaZiStr_ganZhiIndex (g z : Int) (g0 : 0 ≤ g) (g1 : g < 10) (z0 : 0 ≤ z) (z1 : z < 12) (hp : g % 2 = z % 2) :
    Model.jiaZiStr (Model.ganZhiIndex g z) = Model.EightChar.pillarStr g z := by
  rw [s2_ganZhiIndex_eq g z g0 g1 z0 z1, if_pos hp, s6_jiaZiStr_pillar _ (by omega) (by omega)]
  have e1 : (6 * g - 5 * z) % 60 % 10 = g := by omega
  have e2 : (6 * g - 5 * z) % 60 % 12 = z := by omega
  rw [e1, e2]

/-- `ganZhiIndex` is always in −1..59 -/
theorem s6_ganZhiIndex_range (g z : Int) : -1 ≤ Model.ganZhiIndex g z ∧ Model.ganZhiIndex g z < 60 :=
  ⟨s2_jiaZiIndexOfStr_ge _, s2_jiaZiIndexOfStr_lt _⟩

theorem s6_sidx_JIA_ZI (o : Int) :
    Gen.FnS.sidx Gen.Tables.LunarUtil.«JIA_ZI» o = if 0 ≤ o ∧ o < 60 then .ok (Model.jiaZiStr o) else .error .panic := by
  rw [sidx_total, s6_size]; rfl

/-! ### 2. DaYun.GetGanZhi -/

/-- the Go code wraps ONCE: `if o >= 60 { o -= 60 }; if o < 0 { o += 60 }` -/
def s6_wrap1 (o : Int) : Int :=
  let o := if o ≥ 60 then o - 60 else o
  if o < 0 then o + 60 else o

theorem s6_wrap_ite {α : Type} (x : Int) (f : Int → α) :
    (if decide (x ≥ 60) = true then (if decide (x - 60 < 0) = true then f (x - 60 + 60) else f (x - 60))
     else (if decide (x < 0) = true then f (x + 60) else f x)) = f (s6_wrap1 x) := by
  unfold s6_wrap1
  by_cases h1 : x ≥ 60
  · by_cases h2 : x - 60 < 0
    · simp only [h1, h2, decide_true, if_true]
    · simp only [h1, h2, decide_true, decide_false, if_true, if_false, Bool.false_eq_true]
  · by_cases h2 : x < 0
    · simp only [h1, h2, decide_true, decide_false, if_true, if_false, Bool.false_eq_true]
    · simp only [h1, h2, decide_false, if_false, Bool.false_eq_true]

/-- the `JIA_ZI` index `DaYun.GetGanZhi` reads (periods `index ≥ 1`): month pillar (exact) ± index, wrapped once -/
def daYunOffset (d : Gen.FnS.DaYun) : Int :=
  let o := Model.ganZhiIndex d.lunar.monthGanIndexExact d.lunar.monthZhiIndexExact
  s6_wrap1 (if d.yun.forward then o + d.index else o - d.index)

/-- what the generated function does on every input whose month-pillar indices are readable (−1..9, −1..11) -/
theorem daYunGetGanZhi_total (d : Gen.FnS.DaYun)
    (g0 : -1 ≤ d.lunar.monthGanIndexExact) (g1 : d.lunar.monthGanIndexExact < 10)
    (z0 : -1 ≤ d.lunar.monthZhiIndexExact) (z1 : d.lunar.monthZhiIndexExact < 12) :
    Gen.FnS.calendar_DaYun_GetGanZhi d =
      if d.index < 1 then .ok ""
      else if 0 ≤ daYunOffset d ∧ daYunOffset d < 60 then .ok (Model.jiaZiStr (daYunOffset d))
      else .error .panic := by
  unfold Gen.FnS.calendar_DaYun_GetGanZhi
  by_cases hi : d.index < 1
  · simp only [hi, decide_true, if_true]; rfl
  · simp only [hi, decide_false, Bool.false_eq_true, if_false]
    rw [lunarGetMonthInGanZhiExact_eq _ g0 g1 z0 z1, sb_bind_ok, getJiaZiIndex_eq, sb_bind_ok]
    change (Gen.FnS.calendar_Yun_IsForward d.yun >>= _) = _
    rw [show Gen.FnS.calendar_Yun_IsForward d.yun = .ok d.yun.forward from rfl, sb_bind_ok]
    rw [← s6_sidx_JIA_ZI]
    unfold daYunOffset Model.ganZhiIndex Model.EightChar.pillarStr
    generalize Model.jiaZiIndexOfStr _ = o
    generalize d.index = i
    cases d.yun.forward <;> simp only [Bool.false_eq_true, if_false, if_true]
    · exact s6_wrap_ite (o - i) _
    · exact s6_wrap_ite (o + i) _

/-- the model on the same data: the same table entry, totalised (`""` outside 0..59) -/
theorem s6_daYun_model (dm : Model.DaYun) (ym : Model.Yun) (d : Gen.FnS.DaYun)
    (hi : dm.index = d.index) (hf : ym.forward = d.yun.forward)
    (hg : ym.lunar.monthGanIndexExact = d.lunar.monthGanIndexExact)
    (hz : ym.lunar.monthZhiIndexExact = d.lunar.monthZhiIndexExact) :
    Model.DaYun.ganZhi dm ym = if d.index < 1 then "" else Model.jiaZiStr (daYunOffset d) := by
  unfold Model.DaYun.ganZhi daYunOffset s6_wrap1
  simp only [hi, hf, hg, hz, s6_size]

/-- in-range condition of the single wrap, for periods `index ≥ 1`: forward `o + index < 120`, backward `index ≤ o + 60`
(`o` = 60-cycle index of the month pillar, −1 when the pillar is not one of the sixty) -/
theorem s6_daYunOffset_inRange (d : Gen.FnS.DaYun) (h1 : 1 ≤ d.index) :
    (0 ≤ daYunOffset d ∧ daYunOffset d < 60) ↔
      (if d.yun.forward then Model.ganZhiIndex d.lunar.monthGanIndexExact d.lunar.monthZhiIndexExact + d.index < 120
       else d.index ≤ Model.ganZhiIndex d.lunar.monthGanIndexExact d.lunar.monthZhiIndexExact + 60) := by
  have hr := s6_ganZhiIndex_range d.lunar.monthGanIndexExact d.lunar.monthZhiIndexExact
  unfold daYunOffset s6_wrap1
  generalize Model.ganZhiIndex _ _ = o at hr ⊢
  cases d.yun.forward <;> simp only [Bool.false_eq_true, if_false, if_true] <;> (repeat' split) <;> omega

/-- general form: any model DaYun / Yun that carry the data the Go code reads -/
theorem daYunGetGanZhi_core (d : Gen.FnS.DaYun) (dm : Model.DaYun) (ym : Model.Yun)
    (hi : dm.index = d.index) (hf : ym.forward = d.yun.forward)
    (hg : ym.lunar.monthGanIndexExact = d.lunar.monthGanIndexExact)
    (hz : ym.lunar.monthZhiIndexExact = d.lunar.monthZhiIndexExact)
    (g0 : -1 ≤ d.lunar.monthGanIndexExact) (g1 : d.lunar.monthGanIndexExact < 10)
    (z0 : -1 ≤ d.lunar.monthZhiIndexExact) (z1 : d.lunar.monthZhiIndexExact < 12)
    (hr : d.index < 1 ∨ (0 ≤ daYunOffset d ∧ daYunOffset d < 60)) :
    Gen.FnS.calendar_DaYun_GetGanZhi d = .ok (Model.DaYun.ganZhi dm ym) := by
  rw [daYunGetGanZhi_total d g0 g1 z0 z1, s6_daYun_model dm ym d hi hf hg hz]
  by_cases h : d.index < 1
  · simp only [h, if_true]
  · simp only [h, if_false, hr.resolve_left h, and_self, if_true]

/-- `DaYun.GetGanZhi`: the generated code reads `daYun.lunar`, the model the Yun's lunar (`NewDaYun` sets
`daYun.lunar = yun.GetLunar()`, see `newDaYun_fields`). Guards: month pillar (exact) readable; its 60-cycle index `o` and
`index` such that ONE wrap suffices (`s6_daYunOffset_inRange`). -/
theorem daYunGetGanZhi_eq (d : Gen.FnS.DaYun) (terms : List Model.Solar) (hl : d.lunar = d.yun.lunar)
    (g0 : -1 ≤ d.lunar.monthGanIndexExact) (g1 : d.lunar.monthGanIndexExact < 10)
    (z0 : -1 ≤ d.lunar.monthZhiIndexExact) (z1 : d.lunar.monthZhiIndexExact < 12)
    (hr : d.index < 1 ∨ (0 ≤ daYunOffset d ∧ daYunOffset d < 60)) :
    Gen.FnS.calendar_DaYun_GetGanZhi d = .ok (Model.DaYun.ganZhi (daYunToM d) (yunToM d.yun terms)) :=
  daYunGetGanZhi_core d _ _ rfl rfl (by rw [hl]; rfl) (by rw [hl]; rfl) g0 g1 z0 z1 hr

/-- natural guards: a proper month pillar (stem 0..9, branch 0..11, equal parity) and `index ≤ 60` -/
theorem daYunGetGanZhi_eq' (d : Gen.FnS.DaYun) (terms : List Model.Solar) (hl : d.lunar = d.yun.lunar)
    (g0 : 0 ≤ d.lunar.monthGanIndexExact) (g1 : d.lunar.monthGanIndexExact < 10)
    (z0 : 0 ≤ d.lunar.monthZhiIndexExact) (z1 : d.lunar.monthZhiIndexExact < 12)
    (hp : d.lunar.monthGanIndexExact % 2 = d.lunar.monthZhiIndexExact % 2) (hidx : d.index ≤ 60) :
    Gen.FnS.calendar_DaYun_GetGanZhi d = .ok (Model.DaYun.ganZhi (daYunToM d) (yunToM d.yun terms)) := by
  apply daYunGetGanZhi_eq d terms hl (by omega) g1 (by omega) z1
  by_cases h : d.index < 1
  · exact Or.inl h
  · refine Or.inr ((s6_daYunOffset_inRange d (by omega)).mpr ?_)
    rw [s2_ganZhiIndex_eq _ _ g0 g1 z0 z1, if_pos hp]
    split <;> omega

/-- outside the single-wrap range the Go code panics (index out of range on `JIA_ZI`) … -/
theorem daYunGetGanZhi_panic (d : Gen.FnS.DaYun)
    (g0 : -1 ≤ d.lunar.monthGanIndexExact) (g1 : d.lunar.monthGanIndexExact < 10)
    (z0 : -1 ≤ d.lunar.monthZhiIndexExact) (z1 : d.lunar.monthZhiIndexExact < 12)
    (h1 : 1 ≤ d.index) (hr : ¬ (0 ≤ daYunOffset d ∧ daYunOffset d < 60)) :
    Gen.FnS.calendar_DaYun_GetGanZhi d = .error .panic := by
  rw [daYunGetGanZhi_total d g0 g1 z0 z1, if_neg (by omega), if_neg hr]

/-- … while the (totalised) model yields `""` there -/
theorem daYunGanZhi_model_out (d : Gen.FnS.DaYun) (terms : List Model.Solar) (hl : d.lunar = d.yun.lunar)
    (h1 : 1 ≤ d.index) (hr : ¬ (0 ≤ daYunOffset d ∧ daYunOffset d < 60)) :
    Model.DaYun.ganZhi (daYunToM d) (yunToM d.yun terms) = "" := by
  rw [s6_daYun_model (daYunToM d) (yunToM d.yun terms) d rfl rfl (by rw [hl]; rfl) (by rw [hl]; rfl), if_neg (by omega)]
  exact strGetD_out _ _ (by rw [s6_size]; omega)

/-- unreadable month pillar: panic for every period `index ≥ 1` -/
theorem daYunGetGanZhi_panic_pillar (d : Gen.FnS.DaYun) (h1 : 1 ≤ d.index)
    (h : (d.lunar.monthGanIndexExact < -1 ∨ 10 ≤ d.lunar.monthGanIndexExact) ∨
         (-1 ≤ d.lunar.monthGanIndexExact ∧ d.lunar.monthGanIndexExact < 10 ∧
          (d.lunar.monthZhiIndexExact < -1 ∨ 12 ≤ d.lunar.monthZhiIndexExact))) :
    Gen.FnS.calendar_DaYun_GetGanZhi d = .error .panic := by
  unfold Gen.FnS.calendar_DaYun_GetGanZhi Gen.FnS.calendar_Lunar_GetMonthInGanZhiExact
  have hi : ¬ d.index < 1 := by omega
  simp only [hi, decide_false, Bool.false_eq_true, if_false]
  rcases h with h | ⟨a, b, h⟩
  · rw [lunarGetMonthGanExact_panic _ h]; rfl
  · rw [lunarGetMonthGanExact_eq _ a b, lunarGetMonthZhiExact_panic _ h]; rfl

/-- period 0 (`index < 1`): `""`, whatever the lunar -/
theorem daYunGetGanZhi_zero (d : Gen.FnS.DaYun) (h : d.index < 1) : Gen.FnS.calendar_DaYun_GetGanZhi d = .ok "" := by
  unfold Gen.FnS.calendar_DaYun_GetGanZhi
  simp only [h, decide_true, if_true]; rfl

/-! ### 3. XiaoYun.GetGanZhi -/

/-- number of `offset += 60` steps of `for offset < 0 { offset += size }` -/
def s6_steps (off : Int) : Nat := ((-off).toNat + 59) / 60

/-- the generated fuel loop: it needs `s6_steps off + 1` iterations (the last one sees `offset ≥ 0` and breaks) -/
theorem s6_neg_loop (fuel s : Nat) (off : Int) :
    forIn (m := Except Err) (List.range' s fuel 1) (off, false)
      (fun (_k : Nat) (st : Int × Bool) =>
        if decide (st.fst ≥ 0) = true then pure (ForInStep.done (st.fst, true))
        else pure (ForInStep.yield (st.fst + 60, st.snd))) =
    .ok (if s6_steps off + 1 ≤ fuel then (off + 60 * (s6_steps off : Int), true) else (off + 60 * (fuel : Int), false)) := by
  induction fuel generalizing s off with
  | zero => simp [pure, Except.pure]
  | succ n ih =>
    simp only [List.range'_succ, List.forIn_cons]
    by_cases h : off ≥ 0
    · have hk : s6_steps off = 0 := by unfold s6_steps; omega
      simp [h, hk, pure, Except.pure, bind, Except.bind]
    · simp only [h, decide_false, Bool.false_eq_true, if_false]
      refine (ih (s + 1) (off + 60)).trans ?_
      have hk : s6_steps off = s6_steps (off + 60) + 1 := by unfold s6_steps; omega
      rw [hk]
      by_cases hc : s6_steps (off + 60) + 1 ≤ n
      · rw [if_pos hc, if_pos (by omega)]; congr 2; simp only [Int.natCast_add, Int.natCast_one]; omega
      · rw [if_neg hc, if_neg (by omega)]; congr 2; simp only [Int.natCast_add, Int.natCast_one]; omega

theorem s6_steps_tmod (off : Int) : (off + 60 * (s6_steps off : Int)).tmod 60 = off % 60 := by
  have h : 0 ≤ off + 60 * (s6_steps off : Int) := by unfold s6_steps; omega
  rw [Int.tmod_eq_emod_of_nonneg h]; omega

/-- the `JIA_ZI` index before reduction: hour pillar ± (index + 1 [+ startAge − 1 for periods ≥ 1]) -/
def xiaoYunOffset (x : Gen.FnS.XiaoYun) : Int :=
  let o := Model.ganZhiIndex x.lunar.timeGanIndex x.lunar.timeZhiIndex
  let add := x.index + 1 + (if x.daYun.index > 0 then x.daYun.startAge - 1 else 0)
  if x.forward then o + add else o - add

/-- the tail of the generated `XiaoYun.GetGanZhi` (copied from `Gen/FnS.lean`) as a function of the unreduced offset -/
def s6_xiaoRun (fuel : Nat) (off0 : Int) : Except Err String := do
  let mut offset : Int := off0
  let mut size : Int := 60
  let mut done6 : Bool := false
  for _k5 in [0:fuel] do
    if decide (offset ≥ 0) then
      done6 := true
      break
    offset := (offset + size)
  if !done6 then
    throw Err.fuel
  if size == 0 then throw Err.panic
  offset := (Int.tmod offset size)
  let t7 ← Gen.FnS.sidx Gen.Tables.LunarUtil.«JIA_ZI» offset
  return t7

theorem s6_xiaoRun_eq (fuel : Nat) (off : Int) :
    s6_xiaoRun fuel off =
      if s6_steps off + 1 ≤ fuel then .ok (Model.jiaZiStr (off % 60)) else .error .fuel := by
  unfold s6_xiaoRun
  have hsz : Std.Legacy.Range.size [:fuel] = fuel := by simp [Std.Legacy.Range.size]
  simp only [Std.Legacy.Range.forIn_eq_forIn_range', hsz]
  rw [s6_neg_loop, sb_bind_ok]
  by_cases hf : s6_steps off + 1 ≤ fuel
  · simp only [hf, if_true, Bool.not_true, Bool.false_eq_true, if_false, s6_steps_tmod]
    rw [show ((60 : Int) == 0) = false from rfl]
    simp only [Bool.false_eq_true, if_false, s6_sidx_JIA_ZI]
    rw [if_pos (by omega)]
  · simp only [hf, if_false, Bool.not_false, if_true]
    rfl

theorem s6_xiaoYun_run (fuel : Nat) (x : Gen.FnS.XiaoYun)
    (g0 : -1 ≤ x.lunar.timeGanIndex) (g1 : x.lunar.timeGanIndex < 10)
    (z0 : -1 ≤ x.lunar.timeZhiIndex) (z1 : x.lunar.timeZhiIndex < 12) :
    Gen.FnS.calendar_XiaoYun_GetGanZhi fuel x = s6_xiaoRun fuel (xiaoYunOffset x) := by
  unfold Gen.FnS.calendar_XiaoYun_GetGanZhi
  rw [lunarGetTimeInGanZhi_eq _ g0 g1 z0 z1, sb_bind_ok, getJiaZiIndex_eq, sb_bind_ok]
  rw [show Gen.FnS.calendar_DaYun_GetIndex x.daYun = .ok x.daYun.index from rfl, sb_bind_ok]
  rw [show Gen.FnS.calendar_DaYun_GetStartAge x.daYun = .ok x.daYun.startAge from rfl]
  unfold xiaoYunOffset
  by_cases hd : x.daYun.index > 0 <;> cases x.forward <;>
    simp only [hd, decide_true, decide_false, if_true, if_false, Bool.false_eq_true, Int.add_zero, sb_bind_ok] <;> rfl

/-- what the generated function does for every fuel (given a readable hour pillar): it never panics -/
theorem xiaoYunGetGanZhi_total (fuel : Nat) (x : Gen.FnS.XiaoYun)
    (g0 : -1 ≤ x.lunar.timeGanIndex) (g1 : x.lunar.timeGanIndex < 10)
    (z0 : -1 ≤ x.lunar.timeZhiIndex) (z1 : x.lunar.timeZhiIndex < 12) :
    Gen.FnS.calendar_XiaoYun_GetGanZhi fuel x =
      if s6_steps (xiaoYunOffset x) + 1 ≤ fuel then .ok (Model.jiaZiStr (xiaoYunOffset x % 60)) else .error .fuel := by
  rw [s6_xiaoYun_run fuel x g0 g1 z0 z1, s6_xiaoRun_eq]

/-- the model on the same data (Euclidean `%` = the Go loop `for offset < 0 { offset += 60 }` followed by `%`) -/
theorem s6_xiaoYun_model (ym : Model.Yun) (dm : Model.DaYun) (x : Gen.FnS.XiaoYun)
    (hg : ym.lunar.timeGanIndex = x.lunar.timeGanIndex) (hz : ym.lunar.timeZhiIndex = x.lunar.timeZhiIndex)
    (hf : ym.forward = x.forward) (hi : dm.index = x.daYun.index) (ha : dm.startAge = x.daYun.startAge) :
    Model.xiaoYunGanZhi ym dm x.index = Model.jiaZiStr (xiaoYunOffset x % 60) := by
  unfold Model.xiaoYunGanZhi xiaoYunOffset
  simp only [hg, hz, hf, hi, ha, s6_size]

/-- general form: any model Yun / DaYun that carry the data the Go code reads -/
theorem xiaoYunGetGanZhi_core (fuel : Nat) (x : Gen.FnS.XiaoYun) (ym : Model.Yun) (dm : Model.DaYun)
    (hg : ym.lunar.timeGanIndex = x.lunar.timeGanIndex) (hz : ym.lunar.timeZhiIndex = x.lunar.timeZhiIndex)
    (hf : ym.forward = x.forward) (hi : dm.index = x.daYun.index) (ha : dm.startAge = x.daYun.startAge)
    (g0 : -1 ≤ x.lunar.timeGanIndex) (g1 : x.lunar.timeGanIndex < 10)
    (z0 : -1 ≤ x.lunar.timeZhiIndex) (z1 : x.lunar.timeZhiIndex < 12)
    (hfuel : s6_steps (xiaoYunOffset x) + 1 ≤ fuel) :
    Gen.FnS.calendar_XiaoYun_GetGanZhi fuel x = .ok (Model.xiaoYunGanZhi ym dm x.index) := by
  rw [xiaoYunGetGanZhi_total fuel x g0 g1 z0 z1, if_pos hfuel, s6_xiaoYun_model ym dm x hg hz hf hi ha]

/-- `XiaoYun.GetGanZhi`: the generated code reads `xiaoYun.lunar` and `xiaoYun.forward`, the model the Yun's
(`NewXiaoYun(daYun, i, daYun.yun.IsForward())` sets `lunar = daYun.GetLunar()`, see `newXiaoYun_eq`). Guards: hour pillar readable;
fuel = number of `+= 60` steps + 1. No parity / range guard: the reduced index is always in 0..59. -/
theorem xiaoYunGetGanZhi_eq (fuel : Nat) (x : Gen.FnS.XiaoYun) (terms : List Model.Solar)
    (hl : x.lunar = x.daYun.yun.lunar) (hfw : x.forward = x.daYun.yun.forward)
    (g0 : -1 ≤ x.lunar.timeGanIndex) (g1 : x.lunar.timeGanIndex < 10)
    (z0 : -1 ≤ x.lunar.timeZhiIndex) (z1 : x.lunar.timeZhiIndex < 12)
    (hfuel : s6_steps (xiaoYunOffset x) + 1 ≤ fuel) :
    Gen.FnS.calendar_XiaoYun_GetGanZhi fuel x
      = .ok (Model.xiaoYunGanZhi (yunToM x.daYun.yun terms) (daYunToM x.daYun) x.index) :=
  xiaoYunGetGanZhi_core fuel x _ _ (by rw [hl]; rfl) (by rw [hl]; rfl) (by rw [hfw]; rfl) rfl rfl g0 g1 z0 z1 hfuel

theorem xiaoYunGetGanZhi_fuel (fuel : Nat) (x : Gen.FnS.XiaoYun)
    (g0 : -1 ≤ x.lunar.timeGanIndex) (g1 : x.lunar.timeGanIndex < 10)
    (z0 : -1 ≤ x.lunar.timeZhiIndex) (z1 : x.lunar.timeZhiIndex < 12)
    (hfuel : fuel < s6_steps (xiaoYunOffset x) + 1) :
    Gen.FnS.calendar_XiaoYun_GetGanZhi fuel x = .error .fuel := by
  rw [xiaoYunGetGanZhi_total fuel x g0 g1 z0 z1, if_neg (by omega)]

/-- a simple sufficient fuel -/
theorem s6_steps_le (off : Int) : s6_steps off + 1 ≤ (-off).toNat / 60 + 2 := by unfold s6_steps; omega

/-- unreadable hour pillar: panic -/
theorem xiaoYunGetGanZhi_panic_pillar (fuel : Nat) (x : Gen.FnS.XiaoYun)
    (h : (x.lunar.timeGanIndex < -1 ∨ 10 ≤ x.lunar.timeGanIndex) ∨
         (-1 ≤ x.lunar.timeGanIndex ∧ x.lunar.timeGanIndex < 10 ∧ (x.lunar.timeZhiIndex < -1 ∨ 12 ≤ x.lunar.timeZhiIndex))) :
    Gen.FnS.calendar_XiaoYun_GetGanZhi fuel x = .error .panic := by
  unfold Gen.FnS.calendar_XiaoYun_GetGanZhi Gen.FnS.calendar_Lunar_GetTimeInGanZhi
  rcases h with h | ⟨a, b, h⟩
  · rw [lunarGetTimeGan_panic _ h]; rfl
  · rw [lunarGetTimeGan_eq _ a b, lunarGetTimeZhi_panic _ h]; rfl

/-! ### 4. LiuNian.GetGanZhi -/

/-- the unreduced `JIA_ZI` offset: year pillar (exact) of the Lichun lunar `a1` + index [+ startAge − 1 for periods ≥ 1] -/
def liuNianOffset (a1 : Gen.FnS.Lunar) (n : Gen.FnS.LiuNian) : Int :=
  Model.ganZhiIndex a1.yearGanIndexExact a1.yearZhiIndexExact + n.index
    + (if n.daYun.index > 0 then n.daYun.startAge - 1 else 0)

/-- what the generated function does for every input with a readable pillar: Go's truncated `%` may be negative → panic -/
theorem liuNianGetGanZhi_total (a1 : Gen.FnS.Lunar) (n : Gen.FnS.LiuNian)
    (g0 : -1 ≤ a1.yearGanIndexExact) (g1 : a1.yearGanIndexExact < 10)
    (z0 : -1 ≤ a1.yearZhiIndexExact) (z1 : a1.yearZhiIndexExact < 12) :
    Gen.FnS.calendar_LiuNian_GetGanZhi a1 n =
      if 0 ≤ (liuNianOffset a1 n).tmod 60 then .ok (Model.jiaZiStr ((liuNianOffset a1 n).tmod 60)) else .error .panic := by
  unfold Gen.FnS.calendar_LiuNian_GetGanZhi
  rw [lunarGetYearInGanZhiExact_eq _ g0 g1 z0 z1, sb_bind_ok, getJiaZiIndex_eq, sb_bind_ok]
  rw [show Gen.FnS.calendar_DaYun_GetIndex n.daYun = .ok n.daYun.index from rfl, sb_bind_ok]
  rw [show Gen.FnS.calendar_DaYun_GetStartAge n.daYun = .ok n.daYun.startAge from rfl]
  have h60 : ((60 : Nat) == 0) = false := rfl
  have hlt : ∀ v : Int, v.tmod 60 < 60 := fun v => Int.tmod_lt_of_pos v (by omega)
  unfold liuNianOffset Model.ganZhiIndex Model.EightChar.pillarStr
  by_cases hd : n.daYun.index > 0 <;>
    simp only [hd, h60, decide_true, decide_false, if_true, if_false, Bool.false_eq_true, Int.add_zero, sb_bind_ok,
      s6_sidx_JIA_ZI, hlt, and_true]

theorem s6_liuNian_model (A : Model.Astro) (ym : Model.Yun) (dm : Model.DaYun) (ll : Model.Lunar)
    (a1 : Gen.FnS.Lunar) (n : Gen.FnS.LiuNian)
    (hll : Model.Lunar.fromSolar A (Model.termByName ym.lunar.terms "立春") = some ll)
    (hg : ll.yearGanIndexExact = a1.yearGanIndexExact) (hz : ll.yearZhiIndexExact = a1.yearZhiIndexExact)
    (hi : dm.index = n.daYun.index) (ha : dm.startAge = n.daYun.startAge) :
    Model.liuNianGanZhi A ym dm n.index = some (Model.jiaZiStr ((liuNianOffset a1 n).tmod 60)) := by
  unfold Model.liuNianGanZhi liuNianOffset
  simp only [hll, hg, hz, hi, ha, s6_size]
  by_cases hd : n.daYun.index > 0
  · simp only [hd, if_true]; congr 3; omega
  · simp only [hd, if_false, Int.add_zero]

/-- general form. `ll` is the model's Lunar at the Lichun instant of the birth table; the atom `a1`
(`jieQi["立春"].GetLunar()`) only has to carry its exact year pillar. Guards: that pillar readable; the unreduced offset not
"negative and not a multiple of 60" (holds when it is ≥ 0). -/
theorem liuNianGetGanZhi_core (A : Model.Astro) (ym : Model.Yun) (dm : Model.DaYun) (ll : Model.Lunar)
    (a1 : Gen.FnS.Lunar) (n : Gen.FnS.LiuNian)
    (hll : Model.Lunar.fromSolar A (Model.termByName ym.lunar.terms "立春") = some ll)
    (hg : ll.yearGanIndexExact = a1.yearGanIndexExact) (hz : ll.yearZhiIndexExact = a1.yearZhiIndexExact)
    (hi : dm.index = n.daYun.index) (ha : dm.startAge = n.daYun.startAge)
    (g0 : -1 ≤ a1.yearGanIndexExact) (g1 : a1.yearGanIndexExact < 10)
    (z0 : -1 ≤ a1.yearZhiIndexExact) (z1 : a1.yearZhiIndexExact < 12)
    (hr : 0 ≤ (liuNianOffset a1 n).tmod 60) :
    Gen.FnS.calendar_LiuNian_GetGanZhi a1 n =
      (match Model.liuNianGanZhi A ym dm n.index with | some s => .ok s | none => .error .panic) := by
  rw [liuNianGetGanZhi_total a1 n g0 g1 z0 z1, if_pos hr, s6_liuNian_model A ym dm ll a1 n hll hg hz hi ha]

/-- `LiuNian.GetGanZhi` with the model images of `liuNian.daYun.yun` / `liuNian.daYun` -/
theorem liuNianGetGanZhi_eq (A : Model.Astro) (terms terms' : List Model.Solar) (ll : Model.Lunar)
    (a1 : Gen.FnS.Lunar) (n : Gen.FnS.LiuNian)
    (hll : Model.Lunar.fromSolar A (Model.termByName terms "立春") = some ll)
    (ha1 : lunarToM a1 terms' = ll)
    (g0 : -1 ≤ a1.yearGanIndexExact) (g1 : a1.yearGanIndexExact < 10)
    (z0 : -1 ≤ a1.yearZhiIndexExact) (z1 : a1.yearZhiIndexExact < 12)
    (hr : 0 ≤ (liuNianOffset a1 n).tmod 60) :
    Gen.FnS.calendar_LiuNian_GetGanZhi a1 n =
      (match Model.liuNianGanZhi A (yunToM n.daYun.yun terms) (daYunToM n.daYun) n.index with
        | some s => .ok s | none => .error .panic) :=
  liuNianGetGanZhi_core A _ _ ll a1 n hll (by rw [← ha1]; rfl) (by rw [← ha1]; rfl) rfl rfl g0 g1 z0 z1 hr

/-- natural guards: proper year pillar, `index ≥ 0`, `startAge ≥ 1` for periods ≥ 1 -/
theorem liuNianGetGanZhi_eq' (A : Model.Astro) (terms terms' : List Model.Solar) (ll : Model.Lunar)
    (a1 : Gen.FnS.Lunar) (n : Gen.FnS.LiuNian)
    (hll : Model.Lunar.fromSolar A (Model.termByName terms "立春") = some ll)
    (ha1 : lunarToM a1 terms' = ll)
    (g0 : -1 ≤ a1.yearGanIndexExact) (g1 : a1.yearGanIndexExact < 10)
    (z0 : -1 ≤ a1.yearZhiIndexExact) (z1 : a1.yearZhiIndexExact < 12)
    (hp : 0 ≤ Model.ganZhiIndex a1.yearGanIndexExact a1.yearZhiIndexExact)
    (hidx : 0 ≤ n.index) (hage : n.daYun.index > 0 → 1 ≤ n.daYun.startAge) :
    Gen.FnS.calendar_LiuNian_GetGanZhi a1 n =
      (match Model.liuNianGanZhi A (yunToM n.daYun.yun terms) (daYunToM n.daYun) n.index with
        | some s => .ok s | none => .error .panic) := by
  apply liuNianGetGanZhi_eq A terms terms' ll a1 n hll ha1 g0 g1 z0 z1
  apply Int.tmod_nonneg
  unfold liuNianOffset
  split
  · rename_i h; have := hage h; omega
  · omega

theorem liuNianGetGanZhi_panic (a1 : Gen.FnS.Lunar) (n : Gen.FnS.LiuNian)
    (g0 : -1 ≤ a1.yearGanIndexExact) (g1 : a1.yearGanIndexExact < 10)
    (z0 : -1 ≤ a1.yearZhiIndexExact) (z1 : a1.yearZhiIndexExact < 12)
    (hr : (liuNianOffset a1 n).tmod 60 < 0) :
    Gen.FnS.calendar_LiuNian_GetGanZhi a1 n = .error .panic := by
  rw [liuNianGetGanZhi_total a1 n g0 g1 z0 z1, if_neg (by omega)]

/-! ### 5. LiuYue.GetGanZhi -/

/-- the five-tigers offset read off the first character of the LiuNian pillar name (the model's expression) -/
def wuHuOffsetOf (yearGan : String) : Int :=
  if yearGan == "甲" || yearGan == "己" then 2
  else if yearGan == "乙" || yearGan == "庚" then 4
  else if yearGan == "丙" || yearGan == "辛" then 6
  else if yearGan == "丁" || yearGan == "壬" then 8
  else 0

def wuHuOffset (gz : String) : Int := wuHuOffsetOf (String.ofList (gz.toList.take 1))

theorem s6_liuYue_model (gz : String) (idx : Int) :
    Model.liuYueGanZhi gz idx =
      Model.strGetD Gen.Tables.LunarUtil.«GAN» ((idx + wuHuOffset gz) % 10 + 1)
        ++ Model.strGetD Gen.Tables.LunarUtil.«ZHI» ((idx + 2) % 12 + 1) := rfl

theorem s6_wuHuOffsetOf_range (s : String) : 0 ≤ wuHuOffsetOf s ∧ wuHuOffsetOf s ≤ 8 := by
  unfold wuHuOffsetOf; (repeat' split) <;> omega

/-- the tail of the generated `LiuYue.GetGanZhi` (copied from `Gen/FnS.lean`) as a function of the first-character string -/
def s6_liuYueRun (yearGan : String) (index : Int) : Except Err String := do
  let mut offset : Int := 0
  if (decide ((Gen.FnS.strCompare "甲" yearGan) = 0) || decide ((Gen.FnS.strCompare "己" yearGan) = 0)) then
    offset := 2
  else
    if (decide ((Gen.FnS.strCompare "乙" yearGan) = 0) || decide ((Gen.FnS.strCompare "庚" yearGan) = 0)) then
      offset := 4
    else
      if (decide ((Gen.FnS.strCompare "丙" yearGan) = 0) || decide ((Gen.FnS.strCompare "辛" yearGan) = 0)) then
        offset := 6
      else
        if (decide ((Gen.FnS.strCompare "丁" yearGan) = 0) || decide ((Gen.FnS.strCompare "壬" yearGan) = 0)) then
          offset := 8
  let t2 ← Gen.FnS.sidx Gen.Tables.LunarUtil.«GAN» ((Int.tmod (index + offset) 10) + 1)
  let mut gan : String := t2
  let t3 ← Gen.FnS.sidx Gen.Tables.LunarUtil.«ZHI» ((Int.tmod (index + 2) 12) + 1)
  let mut zhi : String := t3
  return (gan ++ zhi)

theorem s6_liuYueRun_eq (yg : String) (index : Int) :
    s6_liuYueRun yg index =
      (Gen.FnS.sidx Gen.Tables.LunarUtil.«GAN» ((Int.tmod (index + wuHuOffsetOf yg) 10) + 1) >>= fun t2 =>
       Gen.FnS.sidx Gen.Tables.LunarUtil.«ZHI» ((Int.tmod (index + 2) 12) + 1) >>= fun t3 => pure (t2 ++ t3)) := by
  unfold s6_liuYueRun wuHuOffsetOf
  simp only [s2_strCompare_eq_zero, beq_iff_eq, Bool.or_eq_true, decide_eq_true_eq]
  have sw : ∀ a b : String, (a = yg ∨ b = yg) ↔ (yg = a ∨ yg = b) := fun a b => by
    constructor <;> (intro h; rcases h with h | h <;> simp [h])
  simp only [sw]
  by_cases h1 : yg = "甲" ∨ yg = "己"
  · simp only [h1, if_true]
  · simp only [h1, if_false]
    by_cases h2 : yg = "乙" ∨ yg = "庚"
    · simp only [h2, if_true]
    · simp only [h2, if_false]
      by_cases h3 : yg = "丙" ∨ yg = "辛"
      · simp only [h3, if_true]
      · simp only [h3, if_false]
        by_cases h4 : yg = "丁" ∨ yg = "壬"
        · simp only [h4, if_true]
        · simp only [h4, if_false]

/-- a non-negative truncated remainder is the Euclidean one -/
theorem s6_tmod_eq_emod (x b : Int) (h : 0 ≤ x.tmod b) : x.tmod b = x % b := by
  rw [Int.tmod_eq_emod]
  by_cases hc : 0 ≤ x ∨ b ∣ x
  · simp [hc]
  · exfalso
    have hx : x < 0 := by omega
    have h3 : (-x).tmod b = -(x.tmod b) := Int.neg_tmod x b
    have h4 : 0 ≤ (-x).tmod b := Int.tmod_nonneg _ (by omega)
    have h5 : x.tmod b = 0 := by omega
    exact hc (Or.inr (Int.dvd_of_tmod_eq_zero h5))

/-- `gz[0:1]` on a `[]rune`: panics exactly on the empty slice -/
theorem s6_runesSlice_01 (l : List Char) :
    Gen.FnS.runesSlice l 0 1 = if l = [] then .error .panic else .ok (l.take 1) := by
  unfold Gen.FnS.runesSlice
  cases l with
  | nil => simp [throw, throwThe, MonadExceptOf.throw]
  | cons c r =>
    have : ¬ ((0 : Int) < 0 ∨ (1 : Int) < 0 ∨ (((c :: r).length : Nat) : Int) < 1) := by
      simp only [List.length_cons]; omega
    rw [if_neg this, if_neg (by simp)]; rfl

theorem s6_liuYue_run (a1 : String) (m : Gen.FnS.LiuYue) (h : a1 ≠ "") :
    Gen.FnS.calendar_LiuYue_GetGanZhi a1 m = s6_liuYueRun (String.ofList (a1.toList.take 1)) m.index := by
  unfold Gen.FnS.calendar_LiuYue_GetGanZhi
  dsimp only
  rw [s6_runesSlice_01, if_neg (fun hh => h (String.toList_eq_nil_iff.mp hh)), sb_bind_ok]
  rfl

/-- empty LiuNian name: the rune slice `gz[0:1]` panics -/
theorem liuYueGetGanZhi_panic_empty (m : Gen.FnS.LiuYue) :
    Gen.FnS.calendar_LiuYue_GetGanZhi "" m = .error .panic := by
  unfold Gen.FnS.calendar_LiuYue_GetGanZhi
  dsimp only
  rw [s6_runesSlice_01, if_pos String.toList_empty]; rfl

/-- what the generated function does on every non-empty name: two table reads at Go's truncated remainders -/
theorem liuYueGetGanZhi_total (a1 : String) (m : Gen.FnS.LiuYue) (h : a1 ≠ "") :
    Gen.FnS.calendar_LiuYue_GetGanZhi a1 m =
      (Gen.FnS.sidx Gen.Tables.LunarUtil.«GAN» ((Int.tmod (m.index + wuHuOffset a1) 10) + 1) >>= fun t2 =>
       Gen.FnS.sidx Gen.Tables.LunarUtil.«ZHI» ((Int.tmod (m.index + 2) 12) + 1) >>= fun t3 => pure (t2 ++ t3)) := by
  rw [s6_liuYue_run a1 m h, s6_liuYueRun_eq]; rfl

/-- `LiuYue.GetGanZhi` (atom `a1` = the LiuNian pillar name). Guards: `a1` non-empty; the two truncated remainders
non-negative (then they equal the model's Euclidean ones) -/
theorem liuYueGetGanZhi_eq (a1 : String) (m : Gen.FnS.LiuYue) (h : a1 ≠ "")
    (h1 : 0 ≤ (m.index + wuHuOffset a1).tmod 10) (h2 : 0 ≤ (m.index + 2).tmod 12) :
    Gen.FnS.calendar_LiuYue_GetGanZhi a1 m = .ok (Model.liuYueGanZhi a1 m.index) := by
  rw [liuYueGetGanZhi_total a1 m h, s6_liuYue_model]
  have e1 := s6_tmod_eq_emod _ _ h1
  have e2 := s6_tmod_eq_emod _ _ h2
  rw [e1, e2, sidx_eq_strGetD _ _ (by omega) (by rw [sb_GAN_length]; omega), sb_bind_ok,
    sidx_eq_strGetD _ _ (by omega) (by rw [sb_ZHI_length]; omega), sb_bind_ok]
  rfl

/-- natural guard: month index ≥ 0 (the library uses 0..11) -/
theorem liuYueGetGanZhi_eq' (a1 : String) (m : Gen.FnS.LiuYue) (h : a1 ≠ "") (hi : 0 ≤ m.index) :
    Gen.FnS.calendar_LiuYue_GetGanZhi a1 m = .ok (Model.liuYueGanZhi a1 m.index) := by
  have hr := s6_wuHuOffsetOf_range (String.ofList (a1.toList.take 1))
  apply liuYueGetGanZhi_eq a1 m h
  · exact Int.tmod_nonneg _ (by unfold wuHuOffset; omega)
  · exact Int.tmod_nonneg _ (by omega)

/-- stem remainder below −1: the `GAN` read panics -/
theorem liuYueGetGanZhi_panic (a1 : String) (m : Gen.FnS.LiuYue) (h : a1 ≠ "")
    (h1 : (m.index + wuHuOffset a1).tmod 10 < -1) :
    Gen.FnS.calendar_LiuYue_GetGanZhi a1 m = .error .panic := by
  rw [liuYueGetGanZhi_total a1 m h, sidx_panic _ _ (Or.inl (by omega))]; rfl

/-! ### 6. GetXun / GetXunKong of DaYun and XiaoYun -/

/-- in range, the DaYun pillar name is the pillar of stem `o % 10`, branch `o % 12` (`o = daYunOffset`) -/
theorem daYunGanZhi_pillar (dm : Model.DaYun) (ym : Model.Yun) (d : Gen.FnS.DaYun)
    (hi : dm.index = d.index) (hf : ym.forward = d.yun.forward)
    (hg : ym.lunar.monthGanIndexExact = d.lunar.monthGanIndexExact)
    (hz : ym.lunar.monthZhiIndexExact = d.lunar.monthZhiIndexExact)
    (h1 : 1 ≤ d.index) (hr : 0 ≤ daYunOffset d ∧ daYunOffset d < 60) :
    Model.DaYun.ganZhi dm ym = Model.EightChar.pillarStr (daYunOffset d % 10) (daYunOffset d % 12) := by
  rw [s6_daYun_model dm ym d hi hf hg hz, if_neg (by omega), s6_jiaZiStr_pillar _ hr.1 hr.2]

/-- `DaYun.GetXun`: `""` for period 0, else the xun of the period's pillar (guards as for `GetGanZhi`) -/
theorem daYunGetXun_eq (d : Gen.FnS.DaYun)
    (g0 : -1 ≤ d.lunar.monthGanIndexExact) (g1 : d.lunar.monthGanIndexExact < 10)
    (z0 : -1 ≤ d.lunar.monthZhiIndexExact) (z1 : d.lunar.monthZhiIndexExact < 12)
    (hr : d.index < 1 ∨ (0 ≤ daYunOffset d ∧ daYunOffset d < 60)) :
    Gen.FnS.calendar_DaYun_GetXun d =
      .ok (if d.index < 1 then "" else Model.EightChar.xun (daYunOffset d % 10) (daYunOffset d % 12)) := by
  unfold Gen.FnS.calendar_DaYun_GetXun
  by_cases h : d.index < 1
  · simp only [h, decide_true, if_true]; rfl
  · have hr' := hr.resolve_left h
    simp only [h, decide_false, Bool.false_eq_true, if_false]
    rw [daYunGetGanZhi_total d g0 g1 z0 z1, if_neg h, if_pos hr', sb_bind_ok, s6_jiaZiStr_pillar _ hr'.1 hr'.2,
      getXun_pillar _ _ (by omega) (by omega) (by omega) (by omega)]

theorem daYunGetXunKong_eq (d : Gen.FnS.DaYun)
    (g0 : -1 ≤ d.lunar.monthGanIndexExact) (g1 : d.lunar.monthGanIndexExact < 10)
    (z0 : -1 ≤ d.lunar.monthZhiIndexExact) (z1 : d.lunar.monthZhiIndexExact < 12)
    (hr : d.index < 1 ∨ (0 ≤ daYunOffset d ∧ daYunOffset d < 60)) :
    Gen.FnS.calendar_DaYun_GetXunKong d =
      .ok (if d.index < 1 then "" else Model.EightChar.xunKong (daYunOffset d % 10) (daYunOffset d % 12)) := by
  unfold Gen.FnS.calendar_DaYun_GetXunKong
  by_cases h : d.index < 1
  · simp only [h, decide_true, if_true]; rfl
  · have hr' := hr.resolve_left h
    simp only [h, decide_false, Bool.false_eq_true, if_false]
    rw [daYunGetGanZhi_total d g0 g1 z0 z1, if_neg h, if_pos hr', sb_bind_ok, s6_jiaZiStr_pillar _ hr'.1 hr'.2,
      getXunKong_pillar _ _ (by omega) (by omega) (by omega) (by omega)]

/-- outside the single-wrap range `GetXun` / `GetXunKong` panic with `GetGanZhi` -/
theorem daYunGetXun_panic (d : Gen.FnS.DaYun)
    (g0 : -1 ≤ d.lunar.monthGanIndexExact) (g1 : d.lunar.monthGanIndexExact < 10)
    (z0 : -1 ≤ d.lunar.monthZhiIndexExact) (z1 : d.lunar.monthZhiIndexExact < 12)
    (h1 : 1 ≤ d.index) (hr : ¬ (0 ≤ daYunOffset d ∧ daYunOffset d < 60)) :
    Gen.FnS.calendar_DaYun_GetXun d = .error .panic ∧ Gen.FnS.calendar_DaYun_GetXunKong d = .error .panic := by
  have h : ¬ d.index < 1 := by omega
  unfold Gen.FnS.calendar_DaYun_GetXun Gen.FnS.calendar_DaYun_GetXunKong
  simp only [h, decide_false, Bool.false_eq_true, if_false]
  rw [daYunGetGanZhi_panic d g0 g1 z0 z1 h1 hr]
  exact ⟨rfl, rfl⟩

/-- the XiaoYun pillar name is the pillar of stem `off % 10`, branch `off % 12` (`off = xiaoYunOffset`, unreduced) -/
theorem xiaoYunGanZhi_pillar (ym : Model.Yun) (dm : Model.DaYun) (x : Gen.FnS.XiaoYun)
    (hg : ym.lunar.timeGanIndex = x.lunar.timeGanIndex) (hz : ym.lunar.timeZhiIndex = x.lunar.timeZhiIndex)
    (hf : ym.forward = x.forward) (hi : dm.index = x.daYun.index) (ha : dm.startAge = x.daYun.startAge) :
    Model.xiaoYunGanZhi ym dm x.index = Model.EightChar.pillarStr (xiaoYunOffset x % 10) (xiaoYunOffset x % 12) := by
  rw [s6_xiaoYun_model ym dm x hg hz hf hi ha, s6_jiaZiStr_pillar _ (by omega) (by omega)]
  congr 1 <;> omega

/-- `XiaoYun.GetXun` (guards as for `GetGanZhi`) -/
theorem xiaoYunGetXun_eq (fuel : Nat) (x : Gen.FnS.XiaoYun)
    (g0 : -1 ≤ x.lunar.timeGanIndex) (g1 : x.lunar.timeGanIndex < 10)
    (z0 : -1 ≤ x.lunar.timeZhiIndex) (z1 : x.lunar.timeZhiIndex < 12)
    (hfuel : s6_steps (xiaoYunOffset x) + 1 ≤ fuel) :
    Gen.FnS.calendar_XiaoYun_GetXun fuel x = .ok (Model.EightChar.xun (xiaoYunOffset x % 10) (xiaoYunOffset x % 12)) := by
  unfold Gen.FnS.calendar_XiaoYun_GetXun
  rw [xiaoYunGetGanZhi_total fuel x g0 g1 z0 z1, if_pos hfuel, sb_bind_ok, s6_jiaZiStr_pillar _ (by omega) (by omega),
    getXun_pillar _ _ (by omega) (by omega) (by omega) (by omega)]
  have e1 : xiaoYunOffset x % 60 % 10 = xiaoYunOffset x % 10 := by omega
  have e2 : xiaoYunOffset x % 60 % 12 = xiaoYunOffset x % 12 := by omega
  rw [e1, e2]

theorem xiaoYunGetXunKong_eq (fuel : Nat) (x : Gen.FnS.XiaoYun)
    (g0 : -1 ≤ x.lunar.timeGanIndex) (g1 : x.lunar.timeGanIndex < 10)
    (z0 : -1 ≤ x.lunar.timeZhiIndex) (z1 : x.lunar.timeZhiIndex < 12)
    (hfuel : s6_steps (xiaoYunOffset x) + 1 ≤ fuel) :
    Gen.FnS.calendar_XiaoYun_GetXunKong fuel x
      = .ok (Model.EightChar.xunKong (xiaoYunOffset x % 10) (xiaoYunOffset x % 12)) := by
  unfold Gen.FnS.calendar_XiaoYun_GetXunKong
  rw [xiaoYunGetGanZhi_total fuel x g0 g1 z0 z1, if_pos hfuel, sb_bind_ok, s6_jiaZiStr_pillar _ (by omega) (by omega),
    getXunKong_pillar _ _ (by omega) (by omega) (by omega) (by omega)]
  have e1 : xiaoYunOffset x % 60 % 10 = xiaoYunOffset x % 10 := by omega
  have e2 : xiaoYunOffset x % 60 % 12 = xiaoYunOffset x % 12 := by omega
  rw [e1, e2]

/-! ### 7. the constructors establish the hypotheses used above -/

theorem newXiaoYun_eq (d : Gen.FnS.DaYun) (i : Int) (fw : Bool) :
    Gen.FnS.calendar_NewXiaoYun d i fw = .ok ⟨i, d, d.startYear + i, d.startAge + i, fw, d.lunar⟩ := rfl

theorem newLiuNian_eq (d : Gen.FnS.DaYun) (i : Int) :
    Gen.FnS.calendar_NewLiuNian d i = .ok ⟨i, d, d.startYear + i, d.startAge + i, d.lunar⟩ := rfl

theorem newLiuYue_eq (n : Gen.FnS.LiuNian) (i : Int) : Gen.FnS.calendar_NewLiuYue n i = .ok ⟨i, n⟩ := rfl

/-- whenever `NewDaYun` returns, the period refers to the Yun, shares its lunar and carries the index -/
theorem newDaYun_fields (fuel : Nat) (yun : Gen.FnS.Yun) (index : Int) (d : Gen.FnS.DaYun)
    (h : Gen.FnS.calendar_NewDaYun fuel yun index = .ok d) :
    d.yun = yun ∧ d.lunar = yun.lunar ∧ d.index = index := by
  unfold Gen.FnS.calendar_NewDaYun at h
  rw [show Gen.FnS.calendar_Yun_GetLunar yun = .ok yun.lunar from rfl] at h
  simp only [sb_bind_ok] at h
  rw [show Gen.FnS.calendar_Lunar_GetSolar yun.lunar = .ok yun.lunar.solar from rfl, sb_bind_ok,
    show Gen.FnS.calendar_Solar_GetYear yun.lunar.solar = .ok yun.lunar.solar.year from rfl, sb_bind_ok] at h
  cases hs : Gen.FnS.calendar_Yun_GetStartSolar fuel yun with
  | error e => rw [hs] at h; cases h
  | ok ss =>
    rw [hs, sb_bind_ok, show Gen.FnS.calendar_Solar_GetYear ss = .ok ss.year from rfl, sb_bind_ok] at h
    by_cases hi : index < 1
    · simp only [hi, decide_true, if_true, pure, Except.pure] at h
      cases h; exact ⟨rfl, rfl, rfl⟩
    · simp only [hi, decide_false, Bool.false_eq_true, if_false, pure, Except.pure] at h
      cases h; exact ⟨rfl, rfl, rfl⟩

section Axioms
#print axioms s6_jiaZiStr_pillar
#print axioms s6_jiaZiStr_ganZhiIndex
#print axioms daYunGetGanZhi_total
#print axioms daYunGetGanZhi_core
#print axioms daYunGetGanZhi_eq
#print axioms daYunGetGanZhi_eq'
#print axioms daYunGetGanZhi_panic
#print axioms daYunGanZhi_model_out
#print axioms daYunGetGanZhi_panic_pillar
#print axioms daYunGetGanZhi_zero
#print axioms s6_daYunOffset_inRange
#print axioms xiaoYunGetGanZhi_total
#print axioms xiaoYunGetGanZhi_core
#print axioms xiaoYunGetGanZhi_eq
#print axioms xiaoYunGetGanZhi_fuel
#print axioms xiaoYunGetGanZhi_panic_pillar
#print axioms liuNianGetGanZhi_total
#print axioms liuNianGetGanZhi_core
#print axioms liuNianGetGanZhi_eq
#print axioms liuNianGetGanZhi_eq'
#print axioms liuNianGetGanZhi_panic
#print axioms liuYueGetGanZhi_total
#print axioms liuYueGetGanZhi_eq
#print axioms liuYueGetGanZhi_eq'
#print axioms liuYueGetGanZhi_panic_empty
#print axioms liuYueGetGanZhi_panic
#print axioms daYunGanZhi_pillar
#print axioms daYunGetXun_eq
#print axioms daYunGetXunKong_eq
#print axioms daYunGetXun_panic
#print axioms xiaoYunGanZhi_pillar
#print axioms xiaoYunGetXun_eq
#print axioms xiaoYunGetXunKong_eq
#print axioms newXiaoYun_eq
#print axioms newLiuNian_eq
#print axioms newLiuYue_eq
#print axioms newDaYun_fields
end Axioms
end FnSEq
