/-
FnS2 — string-mode accessors of `Lunar` that depend on a pillar pair, the month / day branches, the weekday, the lunar
month / day: NaYin, ZhiXing, TianShen, mansions, YueXiang / LiuYao / Season / DayLu, foetus god, month / day Tai Sui, xun.
Helper prefix `s2_`.
-/
import Proofs.FnSBase
set_option linter.unusedVariables false
namespace FnSEq
open Gen.Fn (Err)

/-! ### 1. NaYin -/
section
variable (l : Gen.FnS.Lunar)

theorem lunarGetYearNaYin_eq (g0 : -1 ≤ l.yearGanIndex) (g1 : l.yearGanIndex < 10)
    (z0 : -1 ≤ l.yearZhiIndex) (z1 : l.yearZhiIndex < 12) :
    Gen.FnS.calendar_Lunar_GetYearNaYin l = .ok (Model.naYinOf l.yearGanIndex l.yearZhiIndex) := by
  unfold Gen.FnS.calendar_Lunar_GetYearNaYin
  rw [lunarGetYearInGanZhi_eq l g0 g1 z0 z1, sb_bind_ok, mlookupS_eq_lookupStr]; rfl

theorem lunarGetMonthNaYin_eq (g0 : -1 ≤ l.monthGanIndex) (g1 : l.monthGanIndex < 10)
    (z0 : -1 ≤ l.monthZhiIndex) (z1 : l.monthZhiIndex < 12) :
    Gen.FnS.calendar_Lunar_GetMonthNaYin l = .ok (Model.naYinOf l.monthGanIndex l.monthZhiIndex) := by
  unfold Gen.FnS.calendar_Lunar_GetMonthNaYin
  rw [lunarGetMonthInGanZhi_eq l g0 g1 z0 z1, sb_bind_ok, mlookupS_eq_lookupStr]; rfl

theorem lunarGetDayNaYin_eq (g0 : -1 ≤ l.dayGanIndex) (g1 : l.dayGanIndex < 10)
    (z0 : -1 ≤ l.dayZhiIndex) (z1 : l.dayZhiIndex < 12) :
    Gen.FnS.calendar_Lunar_GetDayNaYin l = .ok (Model.naYinOf l.dayGanIndex l.dayZhiIndex) := by
  unfold Gen.FnS.calendar_Lunar_GetDayNaYin
  rw [lunarGetDayInGanZhi_eq l g0 g1 z0 z1, sb_bind_ok, mlookupS_eq_lookupStr]; rfl

theorem lunarGetTimeNaYin_eq (g0 : -1 ≤ l.timeGanIndex) (g1 : l.timeGanIndex < 10)
    (z0 : -1 ≤ l.timeZhiIndex) (z1 : l.timeZhiIndex < 12) :
    Gen.FnS.calendar_Lunar_GetTimeNaYin l = .ok (Model.naYinOf l.timeGanIndex l.timeZhiIndex) := by
  unfold Gen.FnS.calendar_Lunar_GetTimeNaYin
  rw [lunarGetTimeInGanZhi_eq l g0 g1 z0 z1, sb_bind_ok, mlookupS_eq_lookupStr]; rfl

/-! ### 2. ZhiXing, TianShen -/

theorem s2_ZHI_XING_length : Gen.Tables.LunarUtil.«ZHI_XING».length = 13 := by decide
theorem s2_TIAN_SHEN_length : Gen.Tables.LunarUtil.«TIAN_SHEN».length = 13 := by decide

/-- exact guard: the offset `day branch − month branch` lies in −13..11 (it does, −11..11, for branches 0..11) -/
theorem lunarGetZhiXing_eq (h0 : -13 ≤ l.dayZhiIndex - l.monthZhiIndex) (h1 : l.dayZhiIndex - l.monthZhiIndex ≤ 11) :
    Gen.FnS.calendar_Lunar_GetZhiXing l = .ok (Model.zhiXing l.monthZhiIndex l.dayZhiIndex) := by
  unfold Gen.FnS.calendar_Lunar_GetZhiXing Model.zhiXing
  by_cases h : l.dayZhiIndex - l.monthZhiIndex < 0
  · simp only [h, decide_true, if_true]
    exact sidx_eq_strGetD _ _ (by omega) (by rw [s2_ZHI_XING_length]; omega)
  · simp only [h, decide_false, if_false, Bool.false_eq_true]
    exact sidx_eq_strGetD _ _ (by omega) (by rw [s2_ZHI_XING_length]; omega)

theorem lunarGetZhiXing_panic (h : l.dayZhiIndex - l.monthZhiIndex < -13 ∨ 11 < l.dayZhiIndex - l.monthZhiIndex) :
    Gen.FnS.calendar_Lunar_GetZhiXing l = .error .panic := by
  unfold Gen.FnS.calendar_Lunar_GetZhiXing
  simp only []
  split
  · rename_i h'; simp only [decide_eq_true_eq] at h'
    exact sidx_panic _ _ (by rw [s2_ZHI_XING_length]; omega)
  · rename_i h'; simp only [decide_eq_true_eq] at h'
    exact sidx_panic _ _ (by rw [s2_ZHI_XING_length]; omega)

/-- every offset of `ZHI_TIAN_SHEN_OFFSET` is ≥ 0 -/
theorem s2_offsets_nonneg : Gen.Tables.LunarUtil.«ZHI_TIAN_SHEN_OFFSET».all (fun p => decide (0 ≤ p.2)) = true := by decide

theorem s2_lookupS_getD_nonneg (T : List (String × Int)) (hT : T.all (fun p => decide (0 ≤ p.2)) = true) (k : String) :
    0 ≤ (Model.lookupS T k).getD 0 := by
  unfold Model.lookupS
  cases hf : T.find? (fun p => p.1 == k) with
  | none => simp
  | some p =>
    have hm := List.mem_of_find?_eq_some hf
    have := (List.all_eq_true.mp hT) p hm
    simpa using this

theorem s2_tianShenOffset_nonneg (k : String) :
    0 ≤ (Model.lookupS Gen.Tables.LunarUtil.«ZHI_TIAN_SHEN_OFFSET» k).getD 0 :=
  s2_lookupS_getD_nonneg _ s2_offsets_nonneg k

/-- `TIAN_SHEN[(z + offset(container)) % 12 + 1]`: Go's truncating `%` = the model's `%` for `z ≥ 0` -/
theorem s2_tianShen (z : Int) (cs : String) (hz : 0 ≤ z) :
    Gen.FnS.sidx Gen.Tables.LunarUtil.«TIAN_SHEN»
        ((Int.tmod (z + (Gen.FnS.mlookupI Gen.Tables.LunarUtil.«ZHI_TIAN_SHEN_OFFSET» cs)) 12) + 1)
      = .ok (Model.strGetD Gen.Tables.LunarUtil.«TIAN_SHEN»
          ((z + (Model.lookupS Gen.Tables.LunarUtil.«ZHI_TIAN_SHEN_OFFSET» cs).getD 0) % 12 + 1)) := by
  rw [mlookupI_eq]
  have ho := s2_tianShenOffset_nonneg cs
  generalize (Model.lookupS Gen.Tables.LunarUtil.«ZHI_TIAN_SHEN_OFFSET» cs).getD 0 = o at ho ⊢
  rw [Int.tmod_eq_emod_of_nonneg (by omega)]
  exact sidx_eq_strGetD _ _ (by omega) (by rw [s2_TIAN_SHEN_length]; omega)

/-- day spirit: counted unit = day branch, container = month branch -/
theorem lunarGetDayTianShen_eq (m0 : -1 ≤ l.monthZhiIndex) (m1 : l.monthZhiIndex < 12) (hd : 0 ≤ l.dayZhiIndex) :
    Gen.FnS.calendar_Lunar_GetDayTianShen l = .ok (Model.tianShen l.dayZhiIndex l.monthZhiIndex) := by
  unfold Gen.FnS.calendar_Lunar_GetDayTianShen
  rw [lunarGetMonthZhi_eq l m0 m1, sb_bind_ok, s2_tianShen _ _ hd]; rfl

theorem lunarGetDayTianShenType_eq (m0 : -1 ≤ l.monthZhiIndex) (m1 : l.monthZhiIndex < 12) (hd : 0 ≤ l.dayZhiIndex) :
    Gen.FnS.calendar_Lunar_GetDayTianShenType l
      = .ok (Model.tianShenType (Model.tianShen l.dayZhiIndex l.monthZhiIndex)) := by
  unfold Gen.FnS.calendar_Lunar_GetDayTianShenType
  rw [lunarGetDayTianShen_eq l m0 m1 hd, sb_bind_ok, mlookupS_eq_lookupStr]; rfl

theorem lunarGetDayTianShenLuck_eq (m0 : -1 ≤ l.monthZhiIndex) (m1 : l.monthZhiIndex < 12) (hd : 0 ≤ l.dayZhiIndex) :
    Gen.FnS.calendar_Lunar_GetDayTianShenLuck l
      = .ok (Model.tianShenLuck (Model.tianShen l.dayZhiIndex l.monthZhiIndex)) := by
  unfold Gen.FnS.calendar_Lunar_GetDayTianShenLuck
  rw [lunarGetDayTianShenType_eq l m0 m1 hd, sb_bind_ok, mlookupS_eq_lookupStr]; rfl

/-- hour spirit: counted unit = hour branch, container = day branch (exact, i.e. switching at 23:00) -/
theorem lunarGetTimeTianShen_eq (d0 : -1 ≤ l.dayZhiIndexExact) (d1 : l.dayZhiIndexExact < 12) (ht : 0 ≤ l.timeZhiIndex) :
    Gen.FnS.calendar_Lunar_GetTimeTianShen l = .ok (Model.tianShen l.timeZhiIndex l.dayZhiIndexExact) := by
  unfold Gen.FnS.calendar_Lunar_GetTimeTianShen
  rw [lunarGetDayZhiExact_eq l d0 d1, sb_bind_ok, s2_tianShen _ _ ht]; rfl

theorem lunarGetTimeTianShenType_eq (d0 : -1 ≤ l.dayZhiIndexExact) (d1 : l.dayZhiIndexExact < 12) (ht : 0 ≤ l.timeZhiIndex) :
    Gen.FnS.calendar_Lunar_GetTimeTianShenType l
      = .ok (Model.tianShenType (Model.tianShen l.timeZhiIndex l.dayZhiIndexExact)) := by
  unfold Gen.FnS.calendar_Lunar_GetTimeTianShenType
  rw [lunarGetTimeTianShen_eq l d0 d1 ht, sb_bind_ok, mlookupS_eq_lookupStr]; rfl

theorem lunarGetTimeTianShenLuck_eq (d0 : -1 ≤ l.dayZhiIndexExact) (d1 : l.dayZhiIndexExact < 12) (ht : 0 ≤ l.timeZhiIndex) :
    Gen.FnS.calendar_Lunar_GetTimeTianShenLuck l
      = .ok (Model.tianShenLuck (Model.tianShen l.timeZhiIndex l.dayZhiIndexExact)) := by
  unfold Gen.FnS.calendar_Lunar_GetTimeTianShenLuck
  rw [lunarGetTimeTianShenType_eq l d0 d1 ht, sb_bind_ok, mlookupS_eq_lookupStr]; rfl

/-! ### 3. mansions (by day branch and weekday) -/

theorem lunarGetXiu_eq (z0 : -1 ≤ l.dayZhiIndex) (z1 : l.dayZhiIndex < 12) :
    Gen.FnS.calendar_Lunar_GetXiu l = .ok (Model.xiu l.dayZhiIndex l.weekIndex) := by
  unfold Gen.FnS.calendar_Lunar_GetXiu
  rw [lunarGetDayZhi_eq l z0 z1, sb_bind_ok, lunarGetWeek_eq, sb_bind_ok, mlookupS_eq_lookupStr, fmtD_eq]; rfl

theorem lunarGetXiu_panic (h : l.dayZhiIndex < -1 ∨ 12 ≤ l.dayZhiIndex) :
    Gen.FnS.calendar_Lunar_GetXiu l = .error .panic := by
  unfold Gen.FnS.calendar_Lunar_GetXiu
  rw [lunarGetDayZhi_panic l h]; rfl

theorem lunarGetXiuLuck_eq (z0 : -1 ≤ l.dayZhiIndex) (z1 : l.dayZhiIndex < 12) :
    Gen.FnS.calendar_Lunar_GetXiuLuck l = .ok (Model.xiuLuck (Model.xiu l.dayZhiIndex l.weekIndex)) := by
  unfold Gen.FnS.calendar_Lunar_GetXiuLuck
  rw [lunarGetXiu_eq l z0 z1, sb_bind_ok, mlookupS_eq_lookupStr]; rfl

theorem lunarGetXiuSong_eq (z0 : -1 ≤ l.dayZhiIndex) (z1 : l.dayZhiIndex < 12) :
    Gen.FnS.calendar_Lunar_GetXiuSong l = .ok (Model.xiuSong (Model.xiu l.dayZhiIndex l.weekIndex)) := by
  unfold Gen.FnS.calendar_Lunar_GetXiuSong
  rw [lunarGetXiu_eq l z0 z1, sb_bind_ok, mlookupS_eq_lookupStr]; rfl

theorem lunarGetZheng_eq (z0 : -1 ≤ l.dayZhiIndex) (z1 : l.dayZhiIndex < 12) :
    Gen.FnS.calendar_Lunar_GetZheng l = .ok (Model.zheng (Model.xiu l.dayZhiIndex l.weekIndex)) := by
  unfold Gen.FnS.calendar_Lunar_GetZheng
  rw [lunarGetXiu_eq l z0 z1, sb_bind_ok, mlookupS_eq_lookupStr]; rfl

theorem lunarGetAnimal_eq (z0 : -1 ≤ l.dayZhiIndex) (z1 : l.dayZhiIndex < 12) :
    Gen.FnS.calendar_Lunar_GetAnimal l = .ok (Model.animal (Model.xiu l.dayZhiIndex l.weekIndex)) := by
  unfold Gen.FnS.calendar_Lunar_GetAnimal
  rw [lunarGetXiu_eq l z0 z1, sb_bind_ok, mlookupS_eq_lookupStr]; rfl

theorem lunarGetGong_eq (z0 : -1 ≤ l.dayZhiIndex) (z1 : l.dayZhiIndex < 12) :
    Gen.FnS.calendar_Lunar_GetGong l = .ok (Model.gong (Model.xiu l.dayZhiIndex l.weekIndex)) := by
  unfold Gen.FnS.calendar_Lunar_GetGong
  rw [lunarGetXiu_eq l z0 z1, sb_bind_ok, mlookupS_eq_lookupStr]; rfl

theorem lunarGetShou_eq (z0 : -1 ≤ l.dayZhiIndex) (z1 : l.dayZhiIndex < 12) :
    Gen.FnS.calendar_Lunar_GetShou l = .ok (Model.shou (Model.xiu l.dayZhiIndex l.weekIndex)) := by
  unfold Gen.FnS.calendar_Lunar_GetShou
  rw [lunarGetGong_eq l z0 z1, sb_bind_ok, mlookupS_eq_lookupStr]; rfl

/-! ### 4. by lunar month and day -/

theorem s2_YUE_XIANG_length : Gen.Tables.LunarUtil.«YUE_XIANG».length = 31 := by decide
theorem s2_LIU_YAO_length : Gen.Tables.LunarUtil.«LIU_YAO».length = 6 := by decide
theorem s2_SEASON_length : Gen.Tables.LunarUtil.«SEASON».length = 13 := by decide

theorem lunarGetYueXiang_eq (h0 : 0 ≤ l.day) (h1 : l.day < 31) :
    Gen.FnS.calendar_Lunar_GetYueXiang l = .ok (Model.yueXiang l.day) := by
  unfold Gen.FnS.calendar_Lunar_GetYueXiang Model.yueXiang
  rw [sidx_eq_strGetD _ _ h0 (by rw [s2_YUE_XIANG_length]; omega)]

theorem lunarGetYueXiang_panic (h : l.day < 0 ∨ 31 ≤ l.day) :
    Gen.FnS.calendar_Lunar_GetYueXiang l = .error .panic := by
  unfold Gen.FnS.calendar_Lunar_GetYueXiang
  rw [sidx_panic _ _ (by rw [s2_YUE_XIANG_length]; omega)]

/-- |month| of the generated code = the model's `absI'` -/
theorem s2_liuYao_abs (m : Int) : (if m < 0 then 0 - m else m) = Model.liuYao.absI' m := by
  unfold Model.liuYao.absI'; split <;> omega

/-- the only way to leave the table is a negative remainder (`|month| + day < 2` and not a multiple of 6); for month ≠ 0, day ≥ 1
the sum `|month| + day − 2` is ≥ 0. Exact guard: -/
theorem lunarGetLiuYao_eq (h : 0 ≤ (Model.liuYao.absI' l.month + l.day - 2).tmod 6) :
    Gen.FnS.calendar_Lunar_GetLiuYao l = .ok (Model.liuYao l.month l.day) := by
  unfold Gen.FnS.calendar_Lunar_GetLiuYao Model.liuYao
  have hlt : (Model.liuYao.absI' l.month + l.day - 2).tmod 6 < 6 := Int.tmod_lt_of_pos _ (by omega)
  have key : Gen.FnS.sidx Gen.Tables.LunarUtil.«LIU_YAO» ((Model.liuYao.absI' l.month + l.day - 2).tmod 6)
      = .ok (Model.strGetD Gen.Tables.LunarUtil.«LIU_YAO» ((Model.liuYao.absI' l.month + l.day - 2).tmod 6)) :=
    sidx_eq_strGetD _ _ h (by rw [s2_LIU_YAO_length]; omega)
  rw [← s2_liuYao_abs] at key ⊢
  by_cases hm : l.month < 0
  · simp only [hm, decide_true, if_true] at key ⊢; exact key
  · simp only [hm, decide_false, if_false, Bool.false_eq_true] at key ⊢; exact key

/-- the natural guard -/
theorem lunarGetLiuYao_eq' (h : 2 ≤ Model.liuYao.absI' l.month + l.day) :
    Gen.FnS.calendar_Lunar_GetLiuYao l = .ok (Model.liuYao l.month l.day) :=
  lunarGetLiuYao_eq l (Int.tmod_nonneg _ (by omega))

theorem lunarGetLiuYao_panic (h : (Model.liuYao.absI' l.month + l.day - 2).tmod 6 < 0) :
    Gen.FnS.calendar_Lunar_GetLiuYao l = .error .panic := by
  unfold Gen.FnS.calendar_Lunar_GetLiuYao
  have key : Gen.FnS.sidx Gen.Tables.LunarUtil.«LIU_YAO» ((Model.liuYao.absI' l.month + l.day - 2).tmod 6)
      = .error .panic := sidx_panic _ _ (Or.inl h)
  rw [← s2_liuYao_abs] at key
  by_cases hm : l.month < 0
  · simp only [hm, decide_true, if_true] at key ⊢; exact key
  · simp only [hm, decide_false, if_false, Bool.false_eq_true] at key ⊢; exact key

theorem lunarGetSeason_eq (h0 : -13 < l.month) (h1 : l.month < 13) :
    Gen.FnS.calendar_Lunar_GetSeason l = .ok (Model.season l.month) := by
  unfold Gen.FnS.calendar_Lunar_GetSeason Model.season
  by_cases hm : l.month < 0
  · simp only [hm, decide_true, if_true]
    exact sidx_eq_strGetD _ _ (by omega) (by rw [s2_SEASON_length]; omega)
  · simp only [hm, decide_false, if_false, Bool.false_eq_true]
    exact sidx_eq_strGetD _ _ (by omega) (by rw [s2_SEASON_length]; omega)

theorem lunarGetSeason_panic (h : l.month ≤ -13 ∨ 13 ≤ l.month) :
    Gen.FnS.calendar_Lunar_GetSeason l = .error .panic := by
  unfold Gen.FnS.calendar_Lunar_GetSeason
  by_cases hm : l.month < 0
  · simp only [hm, decide_true, if_true]
    exact sidx_panic _ _ (by rw [s2_SEASON_length]; omega)
  · simp only [hm, decide_false, if_false, Bool.false_eq_true]
    exact sidx_panic _ _ (by rw [s2_SEASON_length]; omega)

theorem lunarGetDayLu_eq (g0 : -1 ≤ l.dayGanIndex) (g1 : l.dayGanIndex < 10)
    (z0 : -1 ≤ l.dayZhiIndex) (z1 : l.dayZhiIndex < 12) :
    Gen.FnS.calendar_Lunar_GetDayLu l = .ok (Model.dayLu l.dayGanIndex l.dayZhiIndex) := by
  unfold Gen.FnS.calendar_Lunar_GetDayLu Model.dayLu
  rw [lunarGetDayGan_eq l g0 g1, sb_bind_ok, lunarGetDayZhi_eq l z0 z1, sb_bind_ok]
  simp only [mhas_eq, mlookupS_eq_lookupStr]
  unfold Model.lookupStr
  cases Model.lookupS Gen.Tables.LunarUtil.«LU» (Model.zhiStr l.dayZhiIndex) with
  | none => rfl
  | some v => simp only [Option.isSome_some, if_true, Option.getD_some, String.append_assoc]; rfl

/-! ### 5. foetus god -/

theorem s2_POSITION_TAI_MONTH_length : Gen.Tables.LunarUtil.«POSITION_TAI_MONTH».length = 12 := by decide
theorem s2_POSITION_TAI_DAY_length : Gen.Tables.LunarUtil.«POSITION_TAI_DAY».length = 60 := by decide
theorem s2_JIA_ZI_length : Gen.Tables.LunarUtil.«JIA_ZI».length = 60 := by decide

/-- leap months (negative) give ""; otherwise `POSITION_TAI_MONTH[month-1]`, which needs month 1..12 -/
theorem lunarGetMonthPositionTai_eq (h : l.month < 0 ∨ (1 ≤ l.month ∧ l.month ≤ 12)) :
    Gen.FnS.calendar_Lunar_GetMonthPositionTai l = .ok (Model.positionTaiMonth l.month) := by
  unfold Gen.FnS.calendar_Lunar_GetMonthPositionTai Model.positionTaiMonth
  by_cases hm : l.month < 0
  · simp only [hm, decide_true, if_true]; rfl
  · simp only [hm, decide_false, if_false, Bool.false_eq_true]
    exact sidx_eq_strGetD _ _ (by omega) (by rw [s2_POSITION_TAI_MONTH_length]; omega)

theorem lunarGetMonthPositionTai_panic (h : l.month = 0 ∨ 13 ≤ l.month) :
    Gen.FnS.calendar_Lunar_GetMonthPositionTai l = .error .panic := by
  unfold Gen.FnS.calendar_Lunar_GetMonthPositionTai
  have hm : ¬ l.month < 0 := by omega
  simp only [hm, decide_false, if_false, Bool.false_eq_true]
  exact sidx_panic _ _ (by rw [s2_POSITION_TAI_MONTH_length]; omega)

/-- the generated search loop with early return, over any table: first index of `g` (as `findIdx?`) -/
theorem s2_find_loop (T : List String) (g : String) (rest : List String) (s : Nat) (h : T.drop s = rest) :
    forIn (m := Except Err) (List.range' s rest.length 1) ((none : Option Int), ())
      (fun (k1 : Nat) (__s : Option Int × Unit) => do
        let v ← Gen.FnS.sidx T (k1 : Int)
        if decide (v = g) = true then pure (ForInStep.done (some (k1 : Int), ()))
        else pure (ForInStep.yield (none, ()))) =
      Except.ok (match rest.findIdx? (· == g) with
        | some i => (some ((s + i : Nat) : Int), ())
        | none => (none, ())) := by
  induction rest generalizing s with
  | nil => simp [pure, Except.pure]
  | cons x r ih =>
    have hd : T.drop (s + 1) = r := by
      have := congrArg List.tail h
      simpa using this
    have hx : Gen.FnS.sidx T (s : Int) = .ok x := by
      have h2 : T[s]? = some x := by
        have := List.getElem?_drop (xs := T) (i := s) (j := 0)
        rw [h] at this
        simpa using this.symm
      unfold Gen.FnS.sidx
      simp [h2, pure, Except.pure]
    simp only [List.length_cons, List.range'_succ, List.forIn_cons, hx, sb_bind_ok, List.findIdx?_cons]
    by_cases hxg : x = g
    · simp [hxg, pure, Except.pure, bind, Except.bind]
    · have hb : (x == g) = false := by simpa using hxg
      simp only [hxg, decide_false, Bool.false_eq_true, if_false, hb]
      refine (ih (s + 1) hd).trans ?_
      cases r.findIdx? (· == g) with
      | none => rfl
      | some i => simp only [Option.map_some]; congr 3; omega

/-- `LunarUtil.GetJiaZiIndex` is the model's `jiaZiIndexOfStr` (for every string) -/
theorem getJiaZiIndex_eq (s : String) :
    Gen.FnS.LunarUtil_GetJiaZiIndex s = .ok (Model.jiaZiIndexOfStr s) := by
  unfold Gen.FnS.LunarUtil_GetJiaZiIndex Model.jiaZiIndexOfStr
  simp only [Std.Legacy.Range.forIn_eq_forIn_range']
  have hsz : Std.Legacy.Range.size [:60] = Gen.Tables.LunarUtil.«JIA_ZI».length := by
    rw [s2_JIA_ZI_length]; simp [Std.Legacy.Range.size]
  rw [hsz]
  have := s2_find_loop Gen.Tables.LunarUtil.«JIA_ZI» s Gen.Tables.LunarUtil.«JIA_ZI» 0 rfl
  rw [this, sb_bind_ok]
  cases Gen.Tables.LunarUtil.«JIA_ZI».findIdx? (· == s) with
  | none => rfl
  | some i => simp [pure, Except.pure]

theorem s2_jiaZiIndexOfStr_lt (s : String) : Model.jiaZiIndexOfStr s < 60 := by
  unfold Model.jiaZiIndexOfStr
  cases hf : Gen.Tables.LunarUtil.«JIA_ZI».findIdx? (· == s) with
  | none => simp
  | some i =>
    have := (List.findIdx?_eq_some_iff_getElem.mp hf).1
    rw [s2_JIA_ZI_length] at this
    simp only; omega

theorem s2_jiaZiIndexOfStr_ge (s : String) : -1 ≤ Model.jiaZiIndexOfStr s := by
  unfold Model.jiaZiIndexOfStr
  cases Gen.Tables.LunarUtil.«JIA_ZI».findIdx? (· == s) with
  | none => simp
  | some i => simp only; omega

/-- the day pillar must be one of the sixty (stem and branch of equal parity): guard `0 ≤ ganZhiIndex g z`;
otherwise `GetJiaZiIndex` gives −1 and the table read panics -/
theorem lunarGetDayPositionTai_eq (g0 : -1 ≤ l.dayGanIndex) (g1 : l.dayGanIndex < 10)
    (z0 : -1 ≤ l.dayZhiIndex) (z1 : l.dayZhiIndex < 12) (hp : 0 ≤ Model.ganZhiIndex l.dayGanIndex l.dayZhiIndex) :
    Gen.FnS.calendar_Lunar_GetDayPositionTai l = .ok (Model.positionTaiDay l.dayGanIndex l.dayZhiIndex) := by
  unfold Gen.FnS.calendar_Lunar_GetDayPositionTai Model.positionTaiDay
  rw [lunarGetDayInGanZhi_eq l g0 g1 z0 z1, sb_bind_ok, getJiaZiIndex_eq, sb_bind_ok]
  have hlt := s2_jiaZiIndexOfStr_lt (Model.EightChar.pillarStr l.dayGanIndex l.dayZhiIndex)
  change Gen.FnS.sidx _ (Model.ganZhiIndex l.dayGanIndex l.dayZhiIndex) = _
  change Model.ganZhiIndex l.dayGanIndex l.dayZhiIndex < 60 at hlt
  exact sidx_eq_strGetD _ _ hp (by rw [s2_POSITION_TAI_DAY_length]; omega)

theorem lunarGetDayPositionTai_panic (g0 : -1 ≤ l.dayGanIndex) (g1 : l.dayGanIndex < 10)
    (z0 : -1 ≤ l.dayZhiIndex) (z1 : l.dayZhiIndex < 12) (hp : Model.ganZhiIndex l.dayGanIndex l.dayZhiIndex < 0) :
    Gen.FnS.calendar_Lunar_GetDayPositionTai l = .error .panic := by
  unfold Gen.FnS.calendar_Lunar_GetDayPositionTai
  rw [lunarGetDayInGanZhi_eq l g0 g1 z0 z1, sb_bind_ok, getJiaZiIndex_eq, sb_bind_ok]
  change Gen.FnS.sidx _ (Model.ganZhiIndex l.dayGanIndex l.dayZhiIndex) = _
  exact sidx_panic _ _ (Or.inl hp)

/-- all 120 (stem, branch) pairs: same parity → position `(6g − 5z) mod 60` in JIA_ZI, mixed parity → absent -/
theorem s2_ganZhi_tab : (List.range 10).all (fun g => (List.range 12).all (fun z =>
    if (g : Int) % 2 = (z : Int) % 2 then Model.ganZhiIndex (g : Int) (z : Int) == (6 * (g : Int) - 5 * (z : Int)) % 60
    else Model.ganZhiIndex (g : Int) (z : Int) == -1)) = true := by
  decide

theorem s2_ganZhiIndex_eq (g z : Int) (hg0 : 0 ≤ g) (hg1 : g < 10) (hz0 : 0 ≤ z) (hz1 : z < 12) :
    Model.ganZhiIndex g z = if g % 2 = z % 2 then (6 * g - 5 * z) % 60 else -1 := by
  obtain ⟨g', rfl⟩ := Int.eq_ofNat_of_zero_le hg0
  obtain ⟨z', rfl⟩ := Int.eq_ofNat_of_zero_le hz0
  have h := s2_ganZhi_tab
  rw [List.all_eq_true] at h
  have h := h g' (List.mem_range.mpr (by omega))
  rw [List.all_eq_true] at h
  have h := h z' (List.mem_range.mpr (by omega))
  split
  · rename_i hp; rw [if_pos hp] at h; exact eq_of_beq h
  · rename_i hp; rw [if_neg hp] at h; exact eq_of_beq h

/-- natural guard: a proper pillar (stem 0..9, branch 0..11, equal parity) -/
theorem lunarGetDayPositionTai_eq' (g0 : 0 ≤ l.dayGanIndex) (g1 : l.dayGanIndex < 10)
    (z0 : 0 ≤ l.dayZhiIndex) (z1 : l.dayZhiIndex < 12) (hp : l.dayGanIndex % 2 = l.dayZhiIndex % 2) :
    Gen.FnS.calendar_Lunar_GetDayPositionTai l = .ok (Model.positionTaiDay l.dayGanIndex l.dayZhiIndex) := by
  apply lunarGetDayPositionTai_eq l (by omega) g1 (by omega) z1
  rw [s2_ganZhiIndex_eq _ _ g0 g1 z0 z1, if_pos hp]; omega

/-- mixed parity (never produced by the library): Go panics -/
theorem lunarGetDayPositionTai_panic' (g0 : 0 ≤ l.dayGanIndex) (g1 : l.dayGanIndex < 10)
    (z0 : 0 ≤ l.dayZhiIndex) (z1 : l.dayZhiIndex < 12) (hp : l.dayGanIndex % 2 ≠ l.dayZhiIndex % 2) :
    Gen.FnS.calendar_Lunar_GetDayPositionTai l = .error .panic := by
  apply lunarGetDayPositionTai_panic l (by omega) g1 (by omega) z1
  rw [s2_ganZhiIndex_eq _ _ g0 g1 z0 z1, if_neg hp]; omega

/-! ### 6. month / day Tai Sui -/

theorem s2_POSITION_GAN_length : Gen.Tables.LunarUtil.«POSITION_GAN».length = 10 := by decide
theorem s2_POSITION_TAI_SUI_YEAR_length : Gen.Tables.LunarUtil.«POSITION_TAI_SUI_YEAR».length = 12 := by decide

/-- the stem is read only in the branch `m = 1` (months 卯, 未, 亥 for branches 0..11): the guard on it is conditional -/
theorem s2_getMonthPositionTaiSui (mz mg : Int)
    (h : (if mz - 2 < 0 then mz - 2 + 12 else mz - 2).tmod 4 ∈ [0, 2, 3] ∨ (0 ≤ mg ∧ mg < 10)) :
    Gen.FnS.calendar_Lunar_getMonthPositionTaiSui l mz mg = .ok (Model.monthPositionTaiSui mz mg) := by
  unfold Gen.FnS.calendar_Lunar_getMonthPositionTaiSui Model.monthPositionTaiSui
  simp only [show Gen.Tables.LunarUtil.«BASE_MONTH_ZHI_INDEX» = 2 from rfl]
  have key : ∀ m : Int, (m.tmod 4 ∈ [0, 2, 3] ∨ (0 ≤ mg ∧ mg < 10)) →
      (if decide (m.tmod 4 = 0) = true then (pure "艮" : Except Err String)
        else if decide (m.tmod 4 = 2) = true then pure "坤"
        else if decide (m.tmod 4 = 3) = true then pure "巽"
        else Gen.FnS.sidx Gen.Tables.LunarUtil.«POSITION_GAN» mg >>= fun t2 => pure t2)
      = .ok (if m.tmod 4 = 0 then "艮" else if m.tmod 4 = 2 then "坤" else if m.tmod 4 = 3 then "巽"
              else Model.strGetD Gen.Tables.LunarUtil.«POSITION_GAN» mg) := by
    intro m hm
    by_cases h0 : m.tmod 4 = 0
    · simp [h0, pure, Except.pure]
    by_cases h2 : m.tmod 4 = 2
    · simp [h2, pure, Except.pure]
    by_cases h3 : m.tmod 4 = 3
    · simp [h3, pure, Except.pure]
    have hg : 0 ≤ mg ∧ mg < 10 := by
      rcases hm with hm | hm
      · simp [h0, h2, h3] at hm
      · exact hm
    simp only [h0, h2, h3, decide_false, Bool.false_eq_true, if_false]
    rw [sidx_eq_strGetD _ _ hg.1 (by rw [s2_POSITION_GAN_length]; omega)]; rfl
  by_cases hm : mz - 2 < 0
  · simp only [hm, decide_true, if_true] at h ⊢
    exact key _ h
  · simp only [hm, decide_false, if_false, Bool.false_eq_true] at h ⊢
    exact key _ h

/-- sect 3 reads the exact month pillar, every other sect the plain one -/
theorem lunarGetMonthPositionTaiSuiBySect_eq (sect : Int)
    (h : (if (if sect = 3 then l.monthZhiIndexExact else l.monthZhiIndex) - 2 < 0
            then (if sect = 3 then l.monthZhiIndexExact else l.monthZhiIndex) - 2 + 12
            else (if sect = 3 then l.monthZhiIndexExact else l.monthZhiIndex) - 2).tmod 4 ∈ [0, 2, 3] ∨
         (0 ≤ (if sect = 3 then l.monthGanIndexExact else l.monthGanIndex) ∧
          (if sect = 3 then l.monthGanIndexExact else l.monthGanIndex) < 10)) :
    Gen.FnS.calendar_Lunar_GetMonthPositionTaiSuiBySect l sect
      = .ok (Model.monthPositionTaiSui (if sect = 3 then l.monthZhiIndexExact else l.monthZhiIndex)
               (if sect = 3 then l.monthGanIndexExact else l.monthGanIndex)) := by
  unfold Gen.FnS.calendar_Lunar_GetMonthPositionTaiSuiBySect
  by_cases hs : sect = 3
  · simp only [hs, decide_true, if_true] at h ⊢
    exact s2_getMonthPositionTaiSui l _ _ h
  · simp only [hs, decide_false, if_false, Bool.false_eq_true] at h ⊢
    exact s2_getMonthPositionTaiSui l _ _ h

/-- simple guard: month stem 0..9 -/
theorem lunarGetMonthPositionTaiSui_eq (g0 : 0 ≤ l.monthGanIndex) (g1 : l.monthGanIndex < 10) :
    Gen.FnS.calendar_Lunar_GetMonthPositionTaiSui l
      = .ok (Model.monthPositionTaiSui l.monthZhiIndex l.monthGanIndex) := by
  unfold Gen.FnS.calendar_Lunar_GetMonthPositionTaiSui
  have := lunarGetMonthPositionTaiSuiBySect_eq l 2 (Or.inr (by simp; omega))
  rw [this]; rfl

/-- the stem is not read at all when `(monthZhi − 2 (+12)) tmod 4 ≠ 1` -/
theorem lunarGetMonthPositionTaiSui_eq' 
    (h : (if l.monthZhiIndex - 2 < 0 then l.monthZhiIndex - 2 + 12 else l.monthZhiIndex - 2).tmod 4 ∈ [0, 2, 3]) :
    Gen.FnS.calendar_Lunar_GetMonthPositionTaiSui l
      = .ok (Model.monthPositionTaiSui l.monthZhiIndex l.monthGanIndex) := by
  unfold Gen.FnS.calendar_Lunar_GetMonthPositionTaiSui
  have := lunarGetMonthPositionTaiSuiBySect_eq l 2 (Or.inl (by simpa using h))
  rw [this]; rfl

/-- Go's `strings.Contains` vs the model's `splitOn` test: they agree for a non-empty needle -/
theorem s2_strContains (group d : String) (hd : d ≠ "") :
    Gen.FnS.strContains group d = decide ((group.splitOn d).length > 1) := by
  unfold Gen.FnS.strContains
  have : d.isEmpty = false := by
    cases h : d.isEmpty with
    | false => rfl
    | true => exact absurd (String.isEmpty_iff.mp h) hd
  rw [this]; simp

theorem s2_getDayPositionTaiSui (d : String) (yz : Int) (hd : d ≠ "") (y0 : 0 ≤ yz) (y1 : yz < 12) :
    Gen.FnS.calendar_Lunar_getDayPositionTaiSui l d yz = .ok (Model.dayPositionTaiSui d yz) := by
  unfold Gen.FnS.calendar_Lunar_getDayPositionTaiSui Model.dayPositionTaiSui Model.positionTaiSuiYear
  simp only [s2_strContains _ d hd, decide_eq_true_eq]
  rw [sidx_eq_strGetD _ _ y0 (by rw [s2_POSITION_TAI_SUI_YEAR_length]; omega)]
  split
  · rfl
  split
  · rfl
  split
  · rfl
  split
  · rfl
  split
  · rfl
  rfl

/-- outside the natural guard — an EMPTY day pillar name — Go answers "震" (`strings.Contains(s, "")` is true) while the model's
`splitOn` test fails for the empty needle and falls through to the year table. Only reachable with stem = branch = −1. -/
theorem s2_getDayPositionTaiSui_empty (yz : Int) :
    Gen.FnS.calendar_Lunar_getDayPositionTaiSui l "" yz = .ok "震" := by
  unfold Gen.FnS.calendar_Lunar_getDayPositionTaiSui
  have : Gen.FnS.strContains "甲子,乙丑,丙寅,丁卯,戊辰,已巳" "" = true := by
    unfold Gen.FnS.strContains
    have : ("" : String).isEmpty = true := String.isEmpty_iff.mpr rfl
    rw [this]; rfl
  simp only [this, if_true]; rfl

theorem s2_ganStr_ne (g : Int) (h0 : 0 ≤ g) (h1 : g < 10) : Model.ganStr g ≠ "" := by
  have : g = 0 ∨ g = 1 ∨ g = 2 ∨ g = 3 ∨ g = 4 ∨ g = 5 ∨ g = 6 ∨ g = 7 ∨ g = 8 ∨ g = 9 := by omega
  rcases this with h | h | h | h | h | h | h | h | h | h <;> subst h <;> decide

theorem s2_zhiStr_ne (z : Int) (h0 : 0 ≤ z) (h1 : z < 12) : Model.zhiStr z ≠ "" := by
  have : z = 0 ∨ z = 1 ∨ z = 2 ∨ z = 3 ∨ z = 4 ∨ z = 5 ∨ z = 6 ∨ z = 7 ∨ z = 8 ∨ z = 9 ∨ z = 10 ∨ z = 11 := by omega
  rcases this with h | h | h | h | h | h | h | h | h | h | h | h <;> subst h <;> decide

theorem s2_pillarStr_ne (g z : Int) (h : (0 ≤ g ∧ g < 10) ∨ (0 ≤ z ∧ z < 12)) : Model.EightChar.pillarStr g z ≠ "" := by
  unfold Model.EightChar.pillarStr
  intro he
  rw [String.append_eq_empty_iff] at he
  rcases h with h | h
  · exact s2_ganStr_ne g h.1 h.2 he.1
  · exact s2_zhiStr_ne z h.1 h.2 he.2

/-- the day pillar and the year branch by sect: 1 → (day, year), 3 → (day, yearExact), otherwise → (dayExact2, yearByLiChun) -/
theorem lunarGetDayPositionTaiSuiBySect_eq (sect : Int)
    (g0 : -1 ≤ (if sect = 1 ∨ sect = 3 then l.dayGanIndex else l.dayGanIndexExact2))
    (g1 : (if sect = 1 ∨ sect = 3 then l.dayGanIndex else l.dayGanIndexExact2) < 10)
    (z0 : -1 ≤ (if sect = 1 ∨ sect = 3 then l.dayZhiIndex else l.dayZhiIndexExact2))
    (z1 : (if sect = 1 ∨ sect = 3 then l.dayZhiIndex else l.dayZhiIndexExact2) < 12)
    (hne : 0 ≤ (if sect = 1 ∨ sect = 3 then l.dayGanIndex else l.dayGanIndexExact2) ∨
           0 ≤ (if sect = 1 ∨ sect = 3 then l.dayZhiIndex else l.dayZhiIndexExact2))
    (y0 : 0 ≤ (if sect = 1 then l.yearZhiIndex else if sect = 3 then l.yearZhiIndexExact else l.yearZhiIndexByLiChun))
    (y1 : (if sect = 1 then l.yearZhiIndex else if sect = 3 then l.yearZhiIndexExact else l.yearZhiIndexByLiChun) < 12) :
    Gen.FnS.calendar_Lunar_GetDayPositionTaiSuiBySect l sect
      = .ok (Model.dayPositionTaiSui
          (Model.EightChar.pillarStr (if sect = 1 ∨ sect = 3 then l.dayGanIndex else l.dayGanIndexExact2)
             (if sect = 1 ∨ sect = 3 then l.dayZhiIndex else l.dayZhiIndexExact2))
          (if sect = 1 then l.yearZhiIndex else if sect = 3 then l.yearZhiIndexExact else l.yearZhiIndexByLiChun)) := by
  unfold Gen.FnS.calendar_Lunar_GetDayPositionTaiSuiBySect
  by_cases hs1 : sect = 1
  · simp only [hs1, true_or, if_true, decide_true] at g0 g1 z0 z1 hne y0 y1 ⊢
    rw [lunarGetDayInGanZhi_eq l g0 g1 z0 z1, sb_bind_ok]
    exact s2_getDayPositionTaiSui l _ _ (s2_pillarStr_ne _ _ (by omega)) y0 y1
  by_cases hs3 : sect = 3
  · simp only [hs3, or_true, if_true, decide_true, show ¬ ((3 : Int) = 1) by decide, if_false, decide_false,
      Bool.false_eq_true] at g0 g1 z0 z1 hne y0 y1 ⊢
    rw [lunarGetDayInGanZhi_eq l g0 g1 z0 z1, sb_bind_ok]
    exact s2_getDayPositionTaiSui l _ _ (s2_pillarStr_ne _ _ (by omega)) y0 y1
  · simp only [hs1, hs3, or_self, if_false, decide_false, Bool.false_eq_true] at g0 g1 z0 z1 hne y0 y1 ⊢
    rw [lunarGetDayInGanZhiExact2_eq l g0 g1 z0 z1, sb_bind_ok]
    exact s2_getDayPositionTaiSui l _ _ (s2_pillarStr_ne _ _ (by omega)) y0 y1

/-- the default (sect 2): exact-2 day pillar, year branch by Lichun -/
theorem lunarGetDayPositionTaiSui_eq
    (g0 : -1 ≤ l.dayGanIndexExact2) (g1 : l.dayGanIndexExact2 < 10)
    (z0 : -1 ≤ l.dayZhiIndexExact2) (z1 : l.dayZhiIndexExact2 < 12)
    (hne : 0 ≤ l.dayGanIndexExact2 ∨ 0 ≤ l.dayZhiIndexExact2)
    (y0 : 0 ≤ l.yearZhiIndexByLiChun) (y1 : l.yearZhiIndexByLiChun < 12) :
    Gen.FnS.calendar_Lunar_GetDayPositionTaiSui l
      = .ok (Model.dayPositionTaiSui (Model.EightChar.pillarStr l.dayGanIndexExact2 l.dayZhiIndexExact2)
               l.yearZhiIndexByLiChun) := by
  unfold Gen.FnS.calendar_Lunar_GetDayPositionTaiSui
  have := lunarGetDayPositionTaiSuiBySect_eq l 2 (by simpa using g0) (by simpa using g1) (by simpa using z0)
    (by simpa using z1) (by simpa using hne) (by simpa using y0) (by simpa using y1)
  rw [this]; simp

/-- the empty day pillar (stem = branch = −1, not produced by the library): Go answers "震" whatever the year -/
theorem lunarGetDayPositionTaiSui_emptyPillar (hg : l.dayGanIndexExact2 = -1) (hz : l.dayZhiIndexExact2 = -1) :
    Gen.FnS.calendar_Lunar_GetDayPositionTaiSui l = .ok "震" := by
  unfold Gen.FnS.calendar_Lunar_GetDayPositionTaiSui Gen.FnS.calendar_Lunar_GetDayPositionTaiSuiBySect
  simp only [show ¬ ((2 : Int) = 1) by decide, show ¬ ((2 : Int) = 3) by decide, decide_false, Bool.false_eq_true, if_false]
  rw [lunarGetDayInGanZhiExact2_eq l (by omega) (by omega) (by omega) (by omega), sb_bind_ok, hg, hz,
    show Model.EightChar.pillarStr (-1) (-1) = "" by decide, s2_getDayPositionTaiSui_empty]

/-! ### 7. xun -/

theorem s2_strCompare_eq_zero (a b : String) : Gen.FnS.strCompare a b = 0 ↔ a = b := by
  unfold Gen.FnS.strCompare
  by_cases h : a = b
  · subst h; simp [String.lt_irrefl]
  · simp only [h, if_false]
    split <;> simp

/-- the generated `range` loop with `break` that records the index of the first entry equal to `g` -/
theorem s2_break_loop (T : List String) (g : String) (init : Int) (rest : List String) (s : Nat) (h : T.drop s = rest) :
    forIn (m := Except Err) (List.range' s rest.length 1) init
      (fun (k : Nat) (__s : Int) => do
        let v ← Gen.FnS.sidx T (k : Int)
        if decide (Gen.FnS.strCompare v g = 0) = true then pure (ForInStep.done (k : Int))
        else pure (ForInStep.yield __s)) =
      Except.ok (match rest.findIdx? (· == g) with
        | some i => ((s + i : Nat) : Int)
        | none => init) := by
  induction rest generalizing s with
  | nil => simp [pure, Except.pure]
  | cons x r ih =>
    have hd : T.drop (s + 1) = r := by
      have := congrArg List.tail h
      simpa using this
    have hx : Gen.FnS.sidx T (s : Int) = .ok x := by
      have h2 : T[s]? = some x := by
        have := List.getElem?_drop (xs := T) (i := s) (j := 0)
        rw [h] at this
        simpa using this.symm
      unfold Gen.FnS.sidx
      simp [h2, pure, Except.pure]
    simp only [List.length_cons, List.range'_succ, List.forIn_cons, hx, sb_bind_ok, List.findIdx?_cons]
    by_cases hxg : x = g
    · subst hxg
      have hc : Gen.FnS.strCompare x x = 0 := (s2_strCompare_eq_zero _ _).mpr rfl
      simp [hc, pure, Except.pure, bind, Except.bind]
    · have hb : (x == g) = false := by simpa using hxg
      have hc : ¬ Gen.FnS.strCompare x g = 0 := fun h => hxg ((s2_strCompare_eq_zero _ _).mp h)
      simp only [hc, decide_false, Bool.false_eq_true, if_false, hb]
      refine (ih (s + 1) hd).trans ?_
      cases r.findIdx? (· == g) with
      | none => rfl
      | some i =>
        have : s + 1 + i = s + (i + 1) := by omega
        simp only [Option.map_some, this]

theorem s2_ganStr_toList (g : Int) (h0 : 0 ≤ g) (h1 : g < 10) : ∃ c, (Model.ganStr g).toList = [c] := by
  have : g = 0 ∨ g = 1 ∨ g = 2 ∨ g = 3 ∨ g = 4 ∨ g = 5 ∨ g = 6 ∨ g = 7 ∨ g = 8 ∨ g = 9 := by omega
  rcases this with h | h | h | h | h | h | h | h | h | h <;> subst h
  · exact ⟨'甲', by decide⟩
  · exact ⟨'乙', by decide⟩
  · exact ⟨'丙', by decide⟩
  · exact ⟨'丁', by decide⟩
  · exact ⟨'戊', by decide⟩
  · exact ⟨'己', by decide⟩
  · exact ⟨'庚', by decide⟩
  · exact ⟨'辛', by decide⟩
  · exact ⟨'壬', by decide⟩
  · exact ⟨'癸', by decide⟩

/-- `Find(ganStr g, GAN) = g + 1` -/
theorem s2_GAN_findIdx (g : Int) (h0 : 0 ≤ g) (h1 : g < 10) :
    Gen.Tables.LunarUtil.«GAN».findIdx? (· == Model.ganStr g) = some (g + 1).toNat := by
  have : g = 0 ∨ g = 1 ∨ g = 2 ∨ g = 3 ∨ g = 4 ∨ g = 5 ∨ g = 6 ∨ g = 7 ∨ g = 8 ∨ g = 9 := by omega
  rcases this with h | h | h | h | h | h | h | h | h | h <;> subst h <;> decide

theorem s2_ZHI_findIdx (z : Int) (h0 : 0 ≤ z) (h1 : z < 12) :
    Gen.Tables.LunarUtil.«ZHI».findIdx? (· == Model.zhiStr z) = some (z + 1).toNat := by
  have : z = 0 ∨ z = 1 ∨ z = 2 ∨ z = 3 ∨ z = 4 ∨ z = 5 ∨ z = 6 ∨ z = 7 ∨ z = 8 ∨ z = 9 ∨ z = 10 ∨ z = 11 := by omega
  rcases this with h | h | h | h | h | h | h | h | h | h | h | h <;> subst h <;> decide

theorem s2_runesSlice_head (c : Char) (zl : List Char) :
    Gen.FnS.runesSlice (c :: zl) 0 1 = .ok [c] := by
  unfold Gen.FnS.runesSlice
  have : ¬ ((0 : Int) < 0 ∨ (1 : Int) < 0 ∨ (((c :: zl).length : Nat) : Int) < 1) := by
    simp only [List.length_cons]; omega
  rw [if_neg this]; rfl

theorem s2_runesSlice_tail (c : Char) (zl : List Char) :
    Gen.FnS.runesSlice (c :: zl) 1 ((c :: zl).length : Int) = .ok zl := by
  unfold Gen.FnS.runesSlice
  have : ¬ ((1 : Int) < 0 ∨ (((c :: zl).length : Nat) : Int) < 1 ∨ (((c :: zl).length : Nat) : Int) < (((c :: zl).length : Nat) : Int)) := by
    simp only [List.length_cons]; omega
  rw [if_neg this]
  have h1 : (((c :: zl).length : Nat) : Int).toNat - (1 : Int).toNat = zl.length := by
    simp only [List.length_cons]; omega
  rw [h1]
  simp [pure, Except.pure]

theorem s2_XUN_length : Gen.Tables.LunarUtil.«XUN».length = 6 := by decide
theorem s2_XUN_KONG_length : Gen.Tables.LunarUtil.«XUN_KONG».length = 6 := by decide

/-- the string-level bridge: on the name of a proper pillar (stem 0..9, branch 0..11), `LunarUtil.GetXunIndex` (rune slicing, two
table searches, truncating division) is the model's arithmetic `xunIndexOf` -/
theorem getXunIndex_pillar (g z : Int) (g0 : 0 ≤ g) (g1 : g < 10) (z0 : 0 ≤ z) (z1 : z < 12) :
    Gen.FnS.LunarUtil_GetXunIndex (Model.EightChar.pillarStr g z) = .ok (Model.EightChar.xunIndexOf g z) := by
  obtain ⟨c, hc⟩ := s2_ganStr_toList g g0 g1
  have hgan : String.ofList [c] = Model.ganStr g := by rw [← hc]; exact String.ofList_toList
  have hl : (Model.EightChar.pillarStr g z).toList = c :: (Model.zhiStr z).toList := by
    unfold Model.EightChar.pillarStr; rw [String.toList_append, hc]; rfl
  unfold Gen.FnS.LunarUtil_GetXunIndex
  simp only [hl, s2_runesSlice_head, s2_runesSlice_tail, sb_bind_ok, hgan, String.ofList_toList,
    Std.Legacy.Range.forIn_eq_forIn_range']
  have hsz1 : Std.Legacy.Range.size [:11] = Gen.Tables.LunarUtil.«GAN».length := by
    rw [sb_GAN_length]; simp [Std.Legacy.Range.size]
  have hsz2 : Std.Legacy.Range.size [:13] = Gen.Tables.LunarUtil.«ZHI».length := by
    rw [sb_ZHI_length]; simp [Std.Legacy.Range.size]
  rw [hsz1, hsz2]
  have L1 := s2_break_loop Gen.Tables.LunarUtil.«GAN» (Model.ganStr g) 0 Gen.Tables.LunarUtil.«GAN» 0 rfl
  have L2 := s2_break_loop Gen.Tables.LunarUtil.«ZHI» (Model.zhiStr z) 0 Gen.Tables.LunarUtil.«ZHI» 0 rfl
  rw [s2_GAN_findIdx g g0 g1] at L1
  rw [s2_ZHI_findIdx z z0 z1] at L2
  simp only [] at L1 L2
  rw [L1, sb_bind_ok, L2, sb_bind_ok]
  unfold Model.EightChar.xunIndexOf
  have e1 : (((0 + (g + 1).toNat : Nat) : Int)) = g + 1 := by omega
  have e2 : (((0 + (z + 1).toNat : Nat) : Int)) = z + 1 := by omega
  rw [e1, e2]
  by_cases hd : g + 1 - (z + 1) < 0
  · simp only [hd, decide_true, if_true]
    rw [Int.tdiv_eq_ediv_of_nonneg (by omega)]; rfl
  · simp only [hd, decide_false, if_false, Bool.false_eq_true]
    rw [Int.tdiv_eq_ediv_of_nonneg (by omega)]; rfl

theorem s2_xunIndexOf_range (g z : Int) (g0 : 0 ≤ g) (g1 : g < 10) (z0 : 0 ≤ z) (z1 : z < 12) :
    0 ≤ Model.EightChar.xunIndexOf g z ∧ Model.EightChar.xunIndexOf g z < 6 := by
  unfold Model.EightChar.xunIndexOf
  simp only []
  split <;> omega

theorem getXun_pillar (g z : Int) (g0 : 0 ≤ g) (g1 : g < 10) (z0 : 0 ≤ z) (z1 : z < 12) :
    Gen.FnS.LunarUtil_GetXun (Model.EightChar.pillarStr g z) = .ok (Model.EightChar.xun g z) := by
  unfold Gen.FnS.LunarUtil_GetXun Model.EightChar.xun
  have hr := s2_xunIndexOf_range g z g0 g1 z0 z1
  rw [getXunIndex_pillar g z g0 g1 z0 z1, sb_bind_ok,
    sidx_eq_strGetD _ _ hr.1 (by rw [s2_XUN_length]; omega)]

theorem getXunKong_pillar (g z : Int) (g0 : 0 ≤ g) (g1 : g < 10) (z0 : 0 ≤ z) (z1 : z < 12) :
    Gen.FnS.LunarUtil_GetXunKong (Model.EightChar.pillarStr g z) = .ok (Model.EightChar.xunKong g z) := by
  unfold Gen.FnS.LunarUtil_GetXunKong Model.EightChar.xunKong
  have hr := s2_xunIndexOf_range g z g0 g1 z0 z1
  rw [getXunIndex_pillar g z g0 g1 z0 z1, sb_bind_ok,
    sidx_eq_strGetD _ _ hr.1 (by rw [s2_XUN_KONG_length]; omega)]

/-- all xun accessors: guard = a proper pillar (stem 0..9, branch 0..11); no parity condition is needed -/
theorem lunarGetYearXun_eq (g0 : 0 ≤ l.yearGanIndex) (g1 : l.yearGanIndex < 10) (z0 : 0 ≤ l.yearZhiIndex) (z1 : l.yearZhiIndex < 12) :
    Gen.FnS.calendar_Lunar_GetYearXun l = .ok (Model.EightChar.xun l.yearGanIndex l.yearZhiIndex) := by
  unfold Gen.FnS.calendar_Lunar_GetYearXun
  rw [lunarGetYearInGanZhi_eq l (by omega) g1 (by omega) z1, sb_bind_ok, getXun_pillar _ _ g0 g1 z0 z1]

theorem lunarGetYearXunKong_eq (g0 : 0 ≤ l.yearGanIndex) (g1 : l.yearGanIndex < 10) (z0 : 0 ≤ l.yearZhiIndex) (z1 : l.yearZhiIndex < 12) :
    Gen.FnS.calendar_Lunar_GetYearXunKong l = .ok (Model.EightChar.xunKong l.yearGanIndex l.yearZhiIndex) := by
  unfold Gen.FnS.calendar_Lunar_GetYearXunKong
  rw [lunarGetYearInGanZhi_eq l (by omega) g1 (by omega) z1, sb_bind_ok, getXunKong_pillar _ _ g0 g1 z0 z1]

theorem lunarGetYearXunByLiChun_eq (g0 : 0 ≤ l.yearGanIndexByLiChun) (g1 : l.yearGanIndexByLiChun < 10) (z0 : 0 ≤ l.yearZhiIndexByLiChun) (z1 : l.yearZhiIndexByLiChun < 12) :
    Gen.FnS.calendar_Lunar_GetYearXunByLiChun l = .ok (Model.EightChar.xun l.yearGanIndexByLiChun l.yearZhiIndexByLiChun) := by
  unfold Gen.FnS.calendar_Lunar_GetYearXunByLiChun
  rw [lunarGetYearInGanZhiByLiChun_eq l (by omega) g1 (by omega) z1, sb_bind_ok, getXun_pillar _ _ g0 g1 z0 z1]

theorem lunarGetYearXunKongByLiChun_eq (g0 : 0 ≤ l.yearGanIndexByLiChun) (g1 : l.yearGanIndexByLiChun < 10) (z0 : 0 ≤ l.yearZhiIndexByLiChun) (z1 : l.yearZhiIndexByLiChun < 12) :
    Gen.FnS.calendar_Lunar_GetYearXunKongByLiChun l = .ok (Model.EightChar.xunKong l.yearGanIndexByLiChun l.yearZhiIndexByLiChun) := by
  unfold Gen.FnS.calendar_Lunar_GetYearXunKongByLiChun
  rw [lunarGetYearInGanZhiByLiChun_eq l (by omega) g1 (by omega) z1, sb_bind_ok, getXunKong_pillar _ _ g0 g1 z0 z1]

theorem lunarGetYearXunExact_eq (g0 : 0 ≤ l.yearGanIndexExact) (g1 : l.yearGanIndexExact < 10) (z0 : 0 ≤ l.yearZhiIndexExact) (z1 : l.yearZhiIndexExact < 12) :
    Gen.FnS.calendar_Lunar_GetYearXunExact l = .ok (Model.EightChar.xun l.yearGanIndexExact l.yearZhiIndexExact) := by
  unfold Gen.FnS.calendar_Lunar_GetYearXunExact
  rw [lunarGetYearInGanZhiExact_eq l (by omega) g1 (by omega) z1, sb_bind_ok, getXun_pillar _ _ g0 g1 z0 z1]

theorem lunarGetYearXunKongExact_eq (g0 : 0 ≤ l.yearGanIndexExact) (g1 : l.yearGanIndexExact < 10) (z0 : 0 ≤ l.yearZhiIndexExact) (z1 : l.yearZhiIndexExact < 12) :
    Gen.FnS.calendar_Lunar_GetYearXunKongExact l = .ok (Model.EightChar.xunKong l.yearGanIndexExact l.yearZhiIndexExact) := by
  unfold Gen.FnS.calendar_Lunar_GetYearXunKongExact
  rw [lunarGetYearInGanZhiExact_eq l (by omega) g1 (by omega) z1, sb_bind_ok, getXunKong_pillar _ _ g0 g1 z0 z1]

theorem lunarGetMonthXun_eq (g0 : 0 ≤ l.monthGanIndex) (g1 : l.monthGanIndex < 10) (z0 : 0 ≤ l.monthZhiIndex) (z1 : l.monthZhiIndex < 12) :
    Gen.FnS.calendar_Lunar_GetMonthXun l = .ok (Model.EightChar.xun l.monthGanIndex l.monthZhiIndex) := by
  unfold Gen.FnS.calendar_Lunar_GetMonthXun
  rw [lunarGetMonthInGanZhi_eq l (by omega) g1 (by omega) z1, sb_bind_ok, getXun_pillar _ _ g0 g1 z0 z1]

theorem lunarGetMonthXunKong_eq (g0 : 0 ≤ l.monthGanIndex) (g1 : l.monthGanIndex < 10) (z0 : 0 ≤ l.monthZhiIndex) (z1 : l.monthZhiIndex < 12) :
    Gen.FnS.calendar_Lunar_GetMonthXunKong l = .ok (Model.EightChar.xunKong l.monthGanIndex l.monthZhiIndex) := by
  unfold Gen.FnS.calendar_Lunar_GetMonthXunKong
  rw [lunarGetMonthInGanZhi_eq l (by omega) g1 (by omega) z1, sb_bind_ok, getXunKong_pillar _ _ g0 g1 z0 z1]

theorem lunarGetMonthXunExact_eq (g0 : 0 ≤ l.monthGanIndexExact) (g1 : l.monthGanIndexExact < 10) (z0 : 0 ≤ l.monthZhiIndexExact) (z1 : l.monthZhiIndexExact < 12) :
    Gen.FnS.calendar_Lunar_GetMonthXunExact l = .ok (Model.EightChar.xun l.monthGanIndexExact l.monthZhiIndexExact) := by
  unfold Gen.FnS.calendar_Lunar_GetMonthXunExact
  rw [lunarGetMonthInGanZhiExact_eq l (by omega) g1 (by omega) z1, sb_bind_ok, getXun_pillar _ _ g0 g1 z0 z1]

theorem lunarGetMonthXunKongExact_eq (g0 : 0 ≤ l.monthGanIndexExact) (g1 : l.monthGanIndexExact < 10) (z0 : 0 ≤ l.monthZhiIndexExact) (z1 : l.monthZhiIndexExact < 12) :
    Gen.FnS.calendar_Lunar_GetMonthXunKongExact l = .ok (Model.EightChar.xunKong l.monthGanIndexExact l.monthZhiIndexExact) := by
  unfold Gen.FnS.calendar_Lunar_GetMonthXunKongExact
  rw [lunarGetMonthInGanZhiExact_eq l (by omega) g1 (by omega) z1, sb_bind_ok, getXunKong_pillar _ _ g0 g1 z0 z1]

theorem lunarGetDayXun_eq (g0 : 0 ≤ l.dayGanIndex) (g1 : l.dayGanIndex < 10) (z0 : 0 ≤ l.dayZhiIndex) (z1 : l.dayZhiIndex < 12) :
    Gen.FnS.calendar_Lunar_GetDayXun l = .ok (Model.EightChar.xun l.dayGanIndex l.dayZhiIndex) := by
  unfold Gen.FnS.calendar_Lunar_GetDayXun
  rw [lunarGetDayInGanZhi_eq l (by omega) g1 (by omega) z1, sb_bind_ok, getXun_pillar _ _ g0 g1 z0 z1]

theorem lunarGetDayXunKong_eq (g0 : 0 ≤ l.dayGanIndex) (g1 : l.dayGanIndex < 10) (z0 : 0 ≤ l.dayZhiIndex) (z1 : l.dayZhiIndex < 12) :
    Gen.FnS.calendar_Lunar_GetDayXunKong l = .ok (Model.EightChar.xunKong l.dayGanIndex l.dayZhiIndex) := by
  unfold Gen.FnS.calendar_Lunar_GetDayXunKong
  rw [lunarGetDayInGanZhi_eq l (by omega) g1 (by omega) z1, sb_bind_ok, getXunKong_pillar _ _ g0 g1 z0 z1]

theorem lunarGetDayXunExact_eq (g0 : 0 ≤ l.dayGanIndexExact) (g1 : l.dayGanIndexExact < 10) (z0 : 0 ≤ l.dayZhiIndexExact) (z1 : l.dayZhiIndexExact < 12) :
    Gen.FnS.calendar_Lunar_GetDayXunExact l = .ok (Model.EightChar.xun l.dayGanIndexExact l.dayZhiIndexExact) := by
  unfold Gen.FnS.calendar_Lunar_GetDayXunExact
  rw [lunarGetDayInGanZhiExact_eq l (by omega) g1 (by omega) z1, sb_bind_ok, getXun_pillar _ _ g0 g1 z0 z1]

theorem lunarGetDayXunKongExact_eq (g0 : 0 ≤ l.dayGanIndexExact) (g1 : l.dayGanIndexExact < 10) (z0 : 0 ≤ l.dayZhiIndexExact) (z1 : l.dayZhiIndexExact < 12) :
    Gen.FnS.calendar_Lunar_GetDayXunKongExact l = .ok (Model.EightChar.xunKong l.dayGanIndexExact l.dayZhiIndexExact) := by
  unfold Gen.FnS.calendar_Lunar_GetDayXunKongExact
  rw [lunarGetDayInGanZhiExact_eq l (by omega) g1 (by omega) z1, sb_bind_ok, getXunKong_pillar _ _ g0 g1 z0 z1]

theorem lunarGetDayXunExact2_eq (g0 : 0 ≤ l.dayGanIndexExact2) (g1 : l.dayGanIndexExact2 < 10) (z0 : 0 ≤ l.dayZhiIndexExact2) (z1 : l.dayZhiIndexExact2 < 12) :
    Gen.FnS.calendar_Lunar_GetDayXunExact2 l = .ok (Model.EightChar.xun l.dayGanIndexExact2 l.dayZhiIndexExact2) := by
  unfold Gen.FnS.calendar_Lunar_GetDayXunExact2
  rw [lunarGetDayInGanZhiExact2_eq l (by omega) g1 (by omega) z1, sb_bind_ok, getXun_pillar _ _ g0 g1 z0 z1]

theorem lunarGetDayXunKongExact2_eq (g0 : 0 ≤ l.dayGanIndexExact2) (g1 : l.dayGanIndexExact2 < 10) (z0 : 0 ≤ l.dayZhiIndexExact2) (z1 : l.dayZhiIndexExact2 < 12) :
    Gen.FnS.calendar_Lunar_GetDayXunKongExact2 l = .ok (Model.EightChar.xunKong l.dayGanIndexExact2 l.dayZhiIndexExact2) := by
  unfold Gen.FnS.calendar_Lunar_GetDayXunKongExact2
  rw [lunarGetDayInGanZhiExact2_eq l (by omega) g1 (by omega) z1, sb_bind_ok, getXunKong_pillar _ _ g0 g1 z0 z1]

theorem lunarGetTimeXun_eq (g0 : 0 ≤ l.timeGanIndex) (g1 : l.timeGanIndex < 10) (z0 : 0 ≤ l.timeZhiIndex) (z1 : l.timeZhiIndex < 12) :
    Gen.FnS.calendar_Lunar_GetTimeXun l = .ok (Model.EightChar.xun l.timeGanIndex l.timeZhiIndex) := by
  unfold Gen.FnS.calendar_Lunar_GetTimeXun
  rw [lunarGetTimeInGanZhi_eq l (by omega) g1 (by omega) z1, sb_bind_ok, getXun_pillar _ _ g0 g1 z0 z1]

theorem lunarGetTimeXunKong_eq (g0 : 0 ≤ l.timeGanIndex) (g1 : l.timeGanIndex < 10) (z0 : 0 ≤ l.timeZhiIndex) (z1 : l.timeZhiIndex < 12) :
    Gen.FnS.calendar_Lunar_GetTimeXunKong l = .ok (Model.EightChar.xunKong l.timeGanIndex l.timeZhiIndex) := by
  unfold Gen.FnS.calendar_Lunar_GetTimeXunKong
  rw [lunarGetTimeInGanZhi_eq l (by omega) g1 (by omega) z1, sb_bind_ok, getXunKong_pillar _ _ g0 g1 z0 z1]

end

section Axioms
#print axioms lunarGetYearNaYin_eq
#print axioms lunarGetMonthNaYin_eq
#print axioms lunarGetDayNaYin_eq
#print axioms lunarGetTimeNaYin_eq
#print axioms lunarGetZhiXing_eq
#print axioms lunarGetZhiXing_panic
#print axioms lunarGetDayTianShen_eq
#print axioms lunarGetDayTianShenType_eq
#print axioms lunarGetDayTianShenLuck_eq
#print axioms lunarGetTimeTianShen_eq
#print axioms lunarGetTimeTianShenType_eq
#print axioms lunarGetTimeTianShenLuck_eq
#print axioms lunarGetXiu_eq
#print axioms lunarGetXiu_panic
#print axioms lunarGetXiuLuck_eq
#print axioms lunarGetXiuSong_eq
#print axioms lunarGetZheng_eq
#print axioms lunarGetAnimal_eq
#print axioms lunarGetGong_eq
#print axioms lunarGetShou_eq
#print axioms lunarGetYueXiang_eq
#print axioms lunarGetYueXiang_panic
#print axioms lunarGetLiuYao_eq
#print axioms lunarGetLiuYao_eq'
#print axioms lunarGetLiuYao_panic
#print axioms lunarGetSeason_eq
#print axioms lunarGetSeason_panic
#print axioms lunarGetDayLu_eq
#print axioms lunarGetMonthPositionTai_eq
#print axioms lunarGetMonthPositionTai_panic
#print axioms getJiaZiIndex_eq
#print axioms lunarGetDayPositionTai_eq
#print axioms lunarGetDayPositionTai_panic
#print axioms lunarGetDayPositionTai_eq'
#print axioms lunarGetDayPositionTai_panic'
#print axioms lunarGetMonthPositionTaiSuiBySect_eq
#print axioms lunarGetMonthPositionTaiSui_eq
#print axioms lunarGetMonthPositionTaiSui_eq'
#print axioms lunarGetDayPositionTaiSuiBySect_eq
#print axioms lunarGetDayPositionTaiSui_eq
#print axioms lunarGetDayPositionTaiSui_emptyPillar
#print axioms getXunIndex_pillar
#print axioms getXun_pillar
#print axioms getXunKong_pillar
#print axioms lunarGetYearXun_eq
#print axioms lunarGetYearXunKong_eq
#print axioms lunarGetYearXunByLiChun_eq
#print axioms lunarGetYearXunKongByLiChun_eq
#print axioms lunarGetYearXunExact_eq
#print axioms lunarGetYearXunKongExact_eq
#print axioms lunarGetMonthXun_eq
#print axioms lunarGetMonthXunKong_eq
#print axioms lunarGetMonthXunExact_eq
#print axioms lunarGetMonthXunKongExact_eq
#print axioms lunarGetDayXun_eq
#print axioms lunarGetDayXunKong_eq
#print axioms lunarGetDayXunExact_eq
#print axioms lunarGetDayXunKongExact_eq
#print axioms lunarGetDayXunExact2_eq
#print axioms lunarGetDayXunKongExact2_eq
#print axioms lunarGetTimeXun_eq
#print axioms lunarGetTimeXunKong_eq
end Axioms
end FnSEq
