/-
FnS1 — string-mode generated accessors of `Gen.FnS.Lunar` by STEM and by BRANCH of the day and of the
hour (positions of the gods, Peng Zu, clash / evil direction), the animals of the four pillars and
the year Tai Sui position, each tied to the model function (`Model.Almanac`) of its defining index
fields.  Guards are exactly the index ranges under which the Go table read does not panic; each
`_panic` companion states the behaviour outside.  Tables stay opaque (only their lengths are used).
-/
import Proofs.FnSBase
namespace FnSEq
open Gen.Fn (Err)
open Gen.Tables

/-! ### 1. helpers -/

/-- a `[]string` read inside the table (the table's length is given as a numeral, proved by `rfl`) -/
theorem s1_rd (T : List String) (n : Nat) (hn : T.length = n) (i : Int) (h0 : 0 ≤ i) (h1 : i < n) :
    Gen.FnS.sidx T i = .ok (Model.strGetD T i) := sidx_eq_strGetD T i h0 (by omega)

theorem s1_rd_panic (T : List String) (n : Nat) (hn : T.length = n) (i : Int) (h : i < 0 ∨ (n : Int) ≤ i) :
    Gen.FnS.sidx T i = .error .panic := sidx_panic T i (by omega)

/-- `LunarUtil.POSITION_DESC[f()]` -/
theorem s1_desc (f : Except Err String) (v : String) (h : f = .ok v) :
    (f >>= fun t => pure (Gen.FnS.mlookupS LunarUtil.«POSITION_DESC» t)) = .ok (Model.positionDesc v) := by
  rw [h, sb_bind_ok, mlookupS_eq_lookupStr]; rfl

theorem s1_desc_panic (f : Except Err String) (h : f = .error .panic) :
    (f >>= fun t => pure (Gen.FnS.mlookupS LunarUtil.«POSITION_DESC» t)) = .error .panic := by
  rw [h, sb_bind_err]

/-! #### the early-return search loop
`for i, v := range T { if v == x { return U[i] } }; return ""` -/

/-- the loop of `GetDayChongShengXiao` / `GetTimeChongShengXiao`, tables and needle abstracted -/
def s1_loop (T U : List String) (n : Nat) (x : String) : Except Err String := do
  for k2 in [0:n] do
    let i : Int := (k2 : Int)
    let v ← Gen.FnS.sidx T (k2 : Int)
    if decide (v = x) then
      let t3 ← Gen.FnS.sidx U i
      return t3
  return ""

/-- its body -/
def s1_body (T U : List String) (x : String) (k2 : Nat) (_s : Option String × Unit) :
    Except Err (ForInStep (Option String × Unit)) := do
  let v ← Gen.FnS.sidx T (k2 : Int)
  if decide (v = x) then
    let t3 ← Gen.FnS.sidx U (k2 : Int)
    pure (ForInStep.done (some t3, ()))
  else pure (ForInStep.yield (none, ()))

theorem s1_sidx_nat (T : List String) (k : Nat) (h : k < T.length) : Gen.FnS.sidx T (k : Int) = .ok T[k] := by
  rw [sidx_eq_getD T k (by omega) (by omega)]
  simp [List.getD, List.getElem?_eq_getElem h]

theorem s1_body_eq (T U : List String) (x : String) (k : Nat) (st : Option String × Unit)
    (hT : k < T.length) (hU : k < U.length) :
    s1_body T U x k st
      = .ok (if T[k] = x then ForInStep.done (some (U.getD k ""), ()) else ForInStep.yield (none, ())) := by
  unfold s1_body
  rw [s1_sidx_nat T k hT, sb_bind_ok]
  by_cases hx : T[k] = x
  · simp only [hx, decide_true, if_true]
    rw [s1_sidx_nat U k hU, sb_bind_ok]
    simp [pure, Except.pure, List.getD, List.getElem?_eq_getElem hU]
  · simp only [hx, decide_false, Bool.false_eq_true, if_false]; rfl

theorem s1_forIn (T U : List String) (x : String) (m : Nat) : ∀ s : Nat, s + m ≤ T.length → s + m ≤ U.length →
    forIn (List.range' s m) ((none : Option String), ()) (s1_body T U x)
      = .ok (match ((T.drop s).take m).findIdx? (fun v => v == x) with
          | some i => (some (U.getD (s + i) ""), ())
          | none => (none, ())) := by
  induction m with
  | zero => intro s _ _; rfl
  | succ m ih =>
    intro s hT hU
    have hs : s < T.length := by omega
    have hsU : s < U.length := by omega
    rw [List.range'_succ, List.forIn_cons, List.drop_eq_getElem_cons hs, List.take_succ_cons, List.findIdx?_cons,
      s1_body_eq T U x s _ hs hsU, sb_bind_ok]
    by_cases hx : T[s] = x
    · simp [hx, pure, Except.pure]
    · have hb : (T[s] == x) = false := by simpa using hx
      simp only [hx, hb, Bool.false_eq_true, if_false]
      rw [ih (s + 1) (by omega) (by omega)]
      cases List.findIdx? (fun v => v == x) (List.take m (List.drop (s + 1) T)) with
      | none => rfl
      | some i => simp [Nat.add_assoc, Nat.add_comm 1 i]

/-- GENERIC LOOP LEMMA: when the first `n` entries of both tables exist, the loop returns `U[i]` for the first
`i < n` with `T[i] = x`, and "" when there is none (no panic). -/
theorem s1_loop_eq (T U : List String) (n : Nat) (x : String) (hT : n ≤ T.length) (hU : n ≤ U.length) :
    s1_loop T U n x = .ok (match (T.take n).findIdx? (fun v => v == x) with
      | some i => U.getD i ""
      | none => "") := by
  unfold s1_loop
  rw [Std.Legacy.Range.forIn_eq_forIn_range']
  simp only [Std.Legacy.Range.size, Nat.sub_zero, Nat.add_sub_cancel, Nat.div_one]
  have h := s1_forIn T U x n 0 (by omega) (by omega)
  unfold s1_body at h
  rw [h]
  simp only [List.drop_zero, Nat.zero_add, sb_bind_ok]
  cases List.findIdx? (fun v => v == x) (List.take n T) <;> rfl

/-- the instance used by the library: `ZHI` against `SHENG_XIAO`, 13 entries each -/
theorem s1_loop_zhi (z : Int) :
    s1_loop LunarUtil.«ZHI» LunarUtil.«SHENG_XIAO» 13 (Model.chong z) = .ok (Model.chongShengXiao z) := by
  have hT : LunarUtil.«ZHI».length = 13 := rfl
  have hU : LunarUtil.«SHENG_XIAO».length = 13 := rfl
  rw [s1_loop_eq _ _ 13 _ (by omega) (by omega), List.take_of_length_le (by omega)]
  rfl


/-! ### 2. day and hour attributes by STEM -/
section Stem
variable (l : Gen.FnS.Lunar)

/- day -/
theorem lunarGetDayPositionXi_eq (h0 : -1 ≤ l.dayGanIndex) (h1 : l.dayGanIndex < 10) :
    Gen.FnS.calendar_Lunar_GetDayPositionXi l = .ok (Model.positionXi l.dayGanIndex) :=
  s1_rd LunarUtil.«POSITION_XI» 11 rfl (l.dayGanIndex + 1) (by omega) (by omega)
theorem lunarGetDayPositionXi_panic (h : l.dayGanIndex < -1 ∨ 10 ≤ l.dayGanIndex) :
    Gen.FnS.calendar_Lunar_GetDayPositionXi l = .error .panic :=
  s1_rd_panic LunarUtil.«POSITION_XI» 11 rfl (l.dayGanIndex + 1) (by omega)
theorem lunarGetDayPositionXiDesc_eq (h0 : -1 ≤ l.dayGanIndex) (h1 : l.dayGanIndex < 10) :
    Gen.FnS.calendar_Lunar_GetDayPositionXiDesc l = .ok (Model.positionDesc (Model.positionXi l.dayGanIndex)) :=
  s1_desc _ _ (lunarGetDayPositionXi_eq l h0 h1)
theorem lunarGetDayPositionXiDesc_panic (h : l.dayGanIndex < -1 ∨ 10 ≤ l.dayGanIndex) :
    Gen.FnS.calendar_Lunar_GetDayPositionXiDesc l = .error .panic :=
  s1_desc_panic _ (lunarGetDayPositionXi_panic l h)
theorem lunarGetDayPositionYangGui_eq (h0 : -1 ≤ l.dayGanIndex) (h1 : l.dayGanIndex < 10) :
    Gen.FnS.calendar_Lunar_GetDayPositionYangGui l = .ok (Model.positionYangGui l.dayGanIndex) :=
  s1_rd LunarUtil.«POSITION_YANG_GUI» 11 rfl (l.dayGanIndex + 1) (by omega) (by omega)
theorem lunarGetDayPositionYangGui_panic (h : l.dayGanIndex < -1 ∨ 10 ≤ l.dayGanIndex) :
    Gen.FnS.calendar_Lunar_GetDayPositionYangGui l = .error .panic :=
  s1_rd_panic LunarUtil.«POSITION_YANG_GUI» 11 rfl (l.dayGanIndex + 1) (by omega)
theorem lunarGetDayPositionYangGuiDesc_eq (h0 : -1 ≤ l.dayGanIndex) (h1 : l.dayGanIndex < 10) :
    Gen.FnS.calendar_Lunar_GetDayPositionYangGuiDesc l = .ok (Model.positionDesc (Model.positionYangGui l.dayGanIndex)) :=
  s1_desc _ _ (lunarGetDayPositionYangGui_eq l h0 h1)
theorem lunarGetDayPositionYangGuiDesc_panic (h : l.dayGanIndex < -1 ∨ 10 ≤ l.dayGanIndex) :
    Gen.FnS.calendar_Lunar_GetDayPositionYangGuiDesc l = .error .panic :=
  s1_desc_panic _ (lunarGetDayPositionYangGui_panic l h)
theorem lunarGetDayPositionYinGui_eq (h0 : -1 ≤ l.dayGanIndex) (h1 : l.dayGanIndex < 10) :
    Gen.FnS.calendar_Lunar_GetDayPositionYinGui l = .ok (Model.positionYinGui l.dayGanIndex) :=
  s1_rd LunarUtil.«POSITION_YIN_GUI» 11 rfl (l.dayGanIndex + 1) (by omega) (by omega)
theorem lunarGetDayPositionYinGui_panic (h : l.dayGanIndex < -1 ∨ 10 ≤ l.dayGanIndex) :
    Gen.FnS.calendar_Lunar_GetDayPositionYinGui l = .error .panic :=
  s1_rd_panic LunarUtil.«POSITION_YIN_GUI» 11 rfl (l.dayGanIndex + 1) (by omega)
theorem lunarGetDayPositionYinGuiDesc_eq (h0 : -1 ≤ l.dayGanIndex) (h1 : l.dayGanIndex < 10) :
    Gen.FnS.calendar_Lunar_GetDayPositionYinGuiDesc l = .ok (Model.positionDesc (Model.positionYinGui l.dayGanIndex)) :=
  s1_desc _ _ (lunarGetDayPositionYinGui_eq l h0 h1)
theorem lunarGetDayPositionYinGuiDesc_panic (h : l.dayGanIndex < -1 ∨ 10 ≤ l.dayGanIndex) :
    Gen.FnS.calendar_Lunar_GetDayPositionYinGuiDesc l = .error .panic :=
  s1_desc_panic _ (lunarGetDayPositionYinGui_panic l h)
theorem lunarGetDayPositionCai_eq (h0 : -1 ≤ l.dayGanIndex) (h1 : l.dayGanIndex < 10) :
    Gen.FnS.calendar_Lunar_GetDayPositionCai l = .ok (Model.positionCai l.dayGanIndex) :=
  s1_rd LunarUtil.«POSITION_CAI» 11 rfl (l.dayGanIndex + 1) (by omega) (by omega)
theorem lunarGetDayPositionCai_panic (h : l.dayGanIndex < -1 ∨ 10 ≤ l.dayGanIndex) :
    Gen.FnS.calendar_Lunar_GetDayPositionCai l = .error .panic :=
  s1_rd_panic LunarUtil.«POSITION_CAI» 11 rfl (l.dayGanIndex + 1) (by omega)
theorem lunarGetDayPositionCaiDesc_eq (h0 : -1 ≤ l.dayGanIndex) (h1 : l.dayGanIndex < 10) :
    Gen.FnS.calendar_Lunar_GetDayPositionCaiDesc l = .ok (Model.positionDesc (Model.positionCai l.dayGanIndex)) :=
  s1_desc _ _ (lunarGetDayPositionCai_eq l h0 h1)
theorem lunarGetDayPositionCaiDesc_panic (h : l.dayGanIndex < -1 ∨ 10 ≤ l.dayGanIndex) :
    Gen.FnS.calendar_Lunar_GetDayPositionCaiDesc l = .error .panic :=
  s1_desc_panic _ (lunarGetDayPositionCai_panic l h)
theorem lunarGetDayChongGan_eq (h0 : 0 ≤ l.dayGanIndex) (h1 : l.dayGanIndex < 10) :
    Gen.FnS.calendar_Lunar_GetDayChongGan l = .ok (Model.chongGan l.dayGanIndex) :=
  s1_rd LunarUtil.«CHONG_GAN» 10 rfl l.dayGanIndex (by omega) (by omega)
theorem lunarGetDayChongGan_panic (h : l.dayGanIndex < 0 ∨ 10 ≤ l.dayGanIndex) :
    Gen.FnS.calendar_Lunar_GetDayChongGan l = .error .panic :=
  s1_rd_panic LunarUtil.«CHONG_GAN» 10 rfl l.dayGanIndex (by omega)
theorem lunarGetDayChongGanTie_eq (h0 : 0 ≤ l.dayGanIndex) (h1 : l.dayGanIndex < 10) :
    Gen.FnS.calendar_Lunar_GetDayChongGanTie l = .ok (Model.chongGanTie l.dayGanIndex) :=
  s1_rd LunarUtil.«CHONG_GAN_TIE» 10 rfl l.dayGanIndex (by omega) (by omega)
theorem lunarGetDayChongGanTie_panic (h : l.dayGanIndex < 0 ∨ 10 ≤ l.dayGanIndex) :
    Gen.FnS.calendar_Lunar_GetDayChongGanTie l = .error .panic :=
  s1_rd_panic LunarUtil.«CHONG_GAN_TIE» 10 rfl l.dayGanIndex (by omega)
/- time -/
theorem lunarGetTimePositionXi_eq (h0 : -1 ≤ l.timeGanIndex) (h1 : l.timeGanIndex < 10) :
    Gen.FnS.calendar_Lunar_GetTimePositionXi l = .ok (Model.positionXi l.timeGanIndex) :=
  s1_rd LunarUtil.«POSITION_XI» 11 rfl (l.timeGanIndex + 1) (by omega) (by omega)
theorem lunarGetTimePositionXi_panic (h : l.timeGanIndex < -1 ∨ 10 ≤ l.timeGanIndex) :
    Gen.FnS.calendar_Lunar_GetTimePositionXi l = .error .panic :=
  s1_rd_panic LunarUtil.«POSITION_XI» 11 rfl (l.timeGanIndex + 1) (by omega)
theorem lunarGetTimePositionXiDesc_eq (h0 : -1 ≤ l.timeGanIndex) (h1 : l.timeGanIndex < 10) :
    Gen.FnS.calendar_Lunar_GetTimePositionXiDesc l = .ok (Model.positionDesc (Model.positionXi l.timeGanIndex)) :=
  s1_desc _ _ (lunarGetTimePositionXi_eq l h0 h1)
theorem lunarGetTimePositionXiDesc_panic (h : l.timeGanIndex < -1 ∨ 10 ≤ l.timeGanIndex) :
    Gen.FnS.calendar_Lunar_GetTimePositionXiDesc l = .error .panic :=
  s1_desc_panic _ (lunarGetTimePositionXi_panic l h)
theorem lunarGetTimePositionYangGui_eq (h0 : -1 ≤ l.timeGanIndex) (h1 : l.timeGanIndex < 10) :
    Gen.FnS.calendar_Lunar_GetTimePositionYangGui l = .ok (Model.positionYangGui l.timeGanIndex) :=
  s1_rd LunarUtil.«POSITION_YANG_GUI» 11 rfl (l.timeGanIndex + 1) (by omega) (by omega)
theorem lunarGetTimePositionYangGui_panic (h : l.timeGanIndex < -1 ∨ 10 ≤ l.timeGanIndex) :
    Gen.FnS.calendar_Lunar_GetTimePositionYangGui l = .error .panic :=
  s1_rd_panic LunarUtil.«POSITION_YANG_GUI» 11 rfl (l.timeGanIndex + 1) (by omega)
theorem lunarGetTimePositionYangGuiDesc_eq (h0 : -1 ≤ l.timeGanIndex) (h1 : l.timeGanIndex < 10) :
    Gen.FnS.calendar_Lunar_GetTimePositionYangGuiDesc l = .ok (Model.positionDesc (Model.positionYangGui l.timeGanIndex)) :=
  s1_desc _ _ (lunarGetTimePositionYangGui_eq l h0 h1)
theorem lunarGetTimePositionYangGuiDesc_panic (h : l.timeGanIndex < -1 ∨ 10 ≤ l.timeGanIndex) :
    Gen.FnS.calendar_Lunar_GetTimePositionYangGuiDesc l = .error .panic :=
  s1_desc_panic _ (lunarGetTimePositionYangGui_panic l h)
theorem lunarGetTimePositionYinGui_eq (h0 : -1 ≤ l.timeGanIndex) (h1 : l.timeGanIndex < 10) :
    Gen.FnS.calendar_Lunar_GetTimePositionYinGui l = .ok (Model.positionYinGui l.timeGanIndex) :=
  s1_rd LunarUtil.«POSITION_YIN_GUI» 11 rfl (l.timeGanIndex + 1) (by omega) (by omega)
theorem lunarGetTimePositionYinGui_panic (h : l.timeGanIndex < -1 ∨ 10 ≤ l.timeGanIndex) :
    Gen.FnS.calendar_Lunar_GetTimePositionYinGui l = .error .panic :=
  s1_rd_panic LunarUtil.«POSITION_YIN_GUI» 11 rfl (l.timeGanIndex + 1) (by omega)
theorem lunarGetTimePositionYinGuiDesc_eq (h0 : -1 ≤ l.timeGanIndex) (h1 : l.timeGanIndex < 10) :
    Gen.FnS.calendar_Lunar_GetTimePositionYinGuiDesc l = .ok (Model.positionDesc (Model.positionYinGui l.timeGanIndex)) :=
  s1_desc _ _ (lunarGetTimePositionYinGui_eq l h0 h1)
theorem lunarGetTimePositionYinGuiDesc_panic (h : l.timeGanIndex < -1 ∨ 10 ≤ l.timeGanIndex) :
    Gen.FnS.calendar_Lunar_GetTimePositionYinGuiDesc l = .error .panic :=
  s1_desc_panic _ (lunarGetTimePositionYinGui_panic l h)
theorem lunarGetTimePositionCai_eq (h0 : -1 ≤ l.timeGanIndex) (h1 : l.timeGanIndex < 10) :
    Gen.FnS.calendar_Lunar_GetTimePositionCai l = .ok (Model.positionCai l.timeGanIndex) :=
  s1_rd LunarUtil.«POSITION_CAI» 11 rfl (l.timeGanIndex + 1) (by omega) (by omega)
theorem lunarGetTimePositionCai_panic (h : l.timeGanIndex < -1 ∨ 10 ≤ l.timeGanIndex) :
    Gen.FnS.calendar_Lunar_GetTimePositionCai l = .error .panic :=
  s1_rd_panic LunarUtil.«POSITION_CAI» 11 rfl (l.timeGanIndex + 1) (by omega)
theorem lunarGetTimePositionCaiDesc_eq (h0 : -1 ≤ l.timeGanIndex) (h1 : l.timeGanIndex < 10) :
    Gen.FnS.calendar_Lunar_GetTimePositionCaiDesc l = .ok (Model.positionDesc (Model.positionCai l.timeGanIndex)) :=
  s1_desc _ _ (lunarGetTimePositionCai_eq l h0 h1)
theorem lunarGetTimePositionCaiDesc_panic (h : l.timeGanIndex < -1 ∨ 10 ≤ l.timeGanIndex) :
    Gen.FnS.calendar_Lunar_GetTimePositionCaiDesc l = .error .panic :=
  s1_desc_panic _ (lunarGetTimePositionCai_panic l h)
theorem lunarGetTimeChongGan_eq (h0 : 0 ≤ l.timeGanIndex) (h1 : l.timeGanIndex < 10) :
    Gen.FnS.calendar_Lunar_GetTimeChongGan l = .ok (Model.chongGan l.timeGanIndex) :=
  s1_rd LunarUtil.«CHONG_GAN» 10 rfl l.timeGanIndex (by omega) (by omega)
theorem lunarGetTimeChongGan_panic (h : l.timeGanIndex < 0 ∨ 10 ≤ l.timeGanIndex) :
    Gen.FnS.calendar_Lunar_GetTimeChongGan l = .error .panic :=
  s1_rd_panic LunarUtil.«CHONG_GAN» 10 rfl l.timeGanIndex (by omega)
theorem lunarGetTimeChongGanTie_eq (h0 : 0 ≤ l.timeGanIndex) (h1 : l.timeGanIndex < 10) :
    Gen.FnS.calendar_Lunar_GetTimeChongGanTie l = .ok (Model.chongGanTie l.timeGanIndex) :=
  s1_rd LunarUtil.«CHONG_GAN_TIE» 10 rfl l.timeGanIndex (by omega) (by omega)
theorem lunarGetTimeChongGanTie_panic (h : l.timeGanIndex < 0 ∨ 10 ≤ l.timeGanIndex) :
    Gen.FnS.calendar_Lunar_GetTimeChongGanTie l = .error .panic :=
  s1_rd_panic LunarUtil.«CHONG_GAN_TIE» 10 rfl l.timeGanIndex (by omega)
theorem lunarGetPengZuGan_eq (h0 : -1 ≤ l.dayGanIndex) (h1 : l.dayGanIndex < 10) :
    Gen.FnS.calendar_Lunar_GetPengZuGan l = .ok (Model.pengZuGan l.dayGanIndex) :=
  s1_rd LunarUtil.«PENGZU_GAN» 11 rfl (l.dayGanIndex + 1) (by omega) (by omega)
theorem lunarGetPengZuGan_panic (h : l.dayGanIndex < -1 ∨ 10 ≤ l.dayGanIndex) :
    Gen.FnS.calendar_Lunar_GetPengZuGan l = .error .panic :=
  s1_rd_panic LunarUtil.«PENGZU_GAN» 11 rfl (l.dayGanIndex + 1) (by omega)
/- the god of fortune: two schools (`sect`), 1 → `POSITION_FU`, anything else → `POSITION_FU_2` -/
theorem lunarGetDayPositionFuBySect_eq (sect : Int) (h0 : -1 ≤ l.dayGanIndex) (h1 : l.dayGanIndex < 10) :
    Gen.FnS.calendar_Lunar_GetDayPositionFuBySect l sect = .ok (Model.positionFu l.dayGanIndex sect) := by
  unfold Gen.FnS.calendar_Lunar_GetDayPositionFuBySect Model.positionFu
  by_cases hs : sect = 1
  · subst hs
    simp only [decide_true, if_true]
    rw [s1_rd LunarUtil.«POSITION_FU» 11 rfl (l.dayGanIndex + 1) (by omega) (by omega)]
  · have hs' : ¬ (1 = sect) := fun h => hs h.symm
    simp only [hs, hs', decide_false, Bool.false_eq_true, if_false]
    rw [s1_rd LunarUtil.«POSITION_FU_2» 11 rfl (l.dayGanIndex + 1) (by omega) (by omega)]
theorem lunarGetDayPositionFuBySect_panic (sect : Int) (h : l.dayGanIndex < -1 ∨ 10 ≤ l.dayGanIndex) :
    Gen.FnS.calendar_Lunar_GetDayPositionFuBySect l sect = .error .panic := by
  unfold Gen.FnS.calendar_Lunar_GetDayPositionFuBySect
  by_cases hs : sect = 1
  · subst hs
    simp only [decide_true, if_true]
    rw [s1_rd_panic LunarUtil.«POSITION_FU» 11 rfl (l.dayGanIndex + 1) (by omega)]
  · have hs' : ¬ (1 = sect) := fun h => hs h.symm
    simp only [hs', decide_false, Bool.false_eq_true, if_false]
    rw [s1_rd_panic LunarUtil.«POSITION_FU_2» 11 rfl (l.dayGanIndex + 1) (by omega)]
theorem lunarGetDayPositionFu_eq (h0 : -1 ≤ l.dayGanIndex) (h1 : l.dayGanIndex < 10) :
    Gen.FnS.calendar_Lunar_GetDayPositionFu l = .ok (Model.positionFu l.dayGanIndex 2) :=
  lunarGetDayPositionFuBySect_eq l 2 h0 h1
theorem lunarGetDayPositionFu_panic (h : l.dayGanIndex < -1 ∨ 10 ≤ l.dayGanIndex) :
    Gen.FnS.calendar_Lunar_GetDayPositionFu l = .error .panic :=
  lunarGetDayPositionFuBySect_panic l 2 h
theorem lunarGetDayPositionFuDescBySect_eq (sect : Int) (h0 : -1 ≤ l.dayGanIndex) (h1 : l.dayGanIndex < 10) :
    Gen.FnS.calendar_Lunar_GetDayPositionFuDescBySect l sect
      = .ok (Model.positionDesc (Model.positionFu l.dayGanIndex sect)) :=
  s1_desc _ _ (lunarGetDayPositionFuBySect_eq l sect h0 h1)
theorem lunarGetDayPositionFuDescBySect_panic (sect : Int) (h : l.dayGanIndex < -1 ∨ 10 ≤ l.dayGanIndex) :
    Gen.FnS.calendar_Lunar_GetDayPositionFuDescBySect l sect = .error .panic :=
  s1_desc_panic _ (lunarGetDayPositionFuBySect_panic l sect h)
theorem lunarGetDayPositionFuDesc_eq (h0 : -1 ≤ l.dayGanIndex) (h1 : l.dayGanIndex < 10) :
    Gen.FnS.calendar_Lunar_GetDayPositionFuDesc l = .ok (Model.positionDesc (Model.positionFu l.dayGanIndex 2)) :=
  lunarGetDayPositionFuDescBySect_eq l 2 h0 h1
theorem lunarGetDayPositionFuDesc_panic (h : l.dayGanIndex < -1 ∨ 10 ≤ l.dayGanIndex) :
    Gen.FnS.calendar_Lunar_GetDayPositionFuDesc l = .error .panic :=
  lunarGetDayPositionFuDescBySect_panic l 2 h
/-- the hour version has no `sect` parameter in `Lunar`: it always reads `POSITION_FU_2` (= sect 2) -/
theorem lunarGetTimePositionFu_eq (h0 : -1 ≤ l.timeGanIndex) (h1 : l.timeGanIndex < 10) :
    Gen.FnS.calendar_Lunar_GetTimePositionFu l = .ok (Model.positionFu l.timeGanIndex 2) :=
  s1_rd LunarUtil.«POSITION_FU_2» 11 rfl (l.timeGanIndex + 1) (by omega) (by omega)
theorem lunarGetTimePositionFu_panic (h : l.timeGanIndex < -1 ∨ 10 ≤ l.timeGanIndex) :
    Gen.FnS.calendar_Lunar_GetTimePositionFu l = .error .panic :=
  s1_rd_panic LunarUtil.«POSITION_FU_2» 11 rfl (l.timeGanIndex + 1) (by omega)
theorem lunarGetTimePositionFuDesc_eq (h0 : -1 ≤ l.timeGanIndex) (h1 : l.timeGanIndex < 10) :
    Gen.FnS.calendar_Lunar_GetTimePositionFuDesc l = .ok (Model.positionDesc (Model.positionFu l.timeGanIndex 2)) :=
  s1_desc _ _ (lunarGetTimePositionFu_eq l h0 h1)
theorem lunarGetTimePositionFuDesc_panic (h : l.timeGanIndex < -1 ∨ 10 ≤ l.timeGanIndex) :
    Gen.FnS.calendar_Lunar_GetTimePositionFuDesc l = .error .panic :=
  s1_desc_panic _ (lunarGetTimePositionFu_panic l h)

end Stem


/-! ### 3. day and hour attributes by BRANCH -/
section Branch
variable (l : Gen.FnS.Lunar)

theorem lunarGetPengZuZhi_eq (h0 : -1 ≤ l.dayZhiIndex) (h1 : l.dayZhiIndex < 12) :
    Gen.FnS.calendar_Lunar_GetPengZuZhi l = .ok (Model.pengZuZhi l.dayZhiIndex) :=
  s1_rd LunarUtil.«PENGZU_ZHI» 13 rfl (l.dayZhiIndex + 1) (by omega) (by omega)
theorem lunarGetPengZuZhi_panic (h : l.dayZhiIndex < -1 ∨ 12 ≤ l.dayZhiIndex) :
    Gen.FnS.calendar_Lunar_GetPengZuZhi l = .error .panic :=
  s1_rd_panic LunarUtil.«PENGZU_ZHI» 13 rfl (l.dayZhiIndex + 1) (by omega)
theorem lunarGetDayChong_eq (h0 : 0 ≤ l.dayZhiIndex) (h1 : l.dayZhiIndex < 12) :
    Gen.FnS.calendar_Lunar_GetDayChong l = .ok (Model.chong l.dayZhiIndex) :=
  s1_rd LunarUtil.«CHONG» 12 rfl l.dayZhiIndex (by omega) (by omega)
theorem lunarGetDayChong_panic (h : l.dayZhiIndex < 0 ∨ 12 ≤ l.dayZhiIndex) :
    Gen.FnS.calendar_Lunar_GetDayChong l = .error .panic :=
  s1_rd_panic LunarUtil.«CHONG» 12 rfl l.dayZhiIndex (by omega)
theorem lunarGetTimeChong_eq (h0 : 0 ≤ l.timeZhiIndex) (h1 : l.timeZhiIndex < 12) :
    Gen.FnS.calendar_Lunar_GetTimeChong l = .ok (Model.chong l.timeZhiIndex) :=
  s1_rd LunarUtil.«CHONG» 12 rfl l.timeZhiIndex (by omega) (by omega)
theorem lunarGetTimeChong_panic (h : l.timeZhiIndex < 0 ∨ 12 ≤ l.timeZhiIndex) :
    Gen.FnS.calendar_Lunar_GetTimeChong l = .error .panic :=
  s1_rd_panic LunarUtil.«CHONG» 12 rfl l.timeZhiIndex (by omega)
theorem lunarGetYearShengXiao_eq (h0 : -1 ≤ l.yearZhiIndex) (h1 : l.yearZhiIndex < 12) :
    Gen.FnS.calendar_Lunar_GetYearShengXiao l = .ok (Model.shengXiao l.yearZhiIndex) :=
  s1_rd LunarUtil.«SHENG_XIAO» 13 rfl (l.yearZhiIndex + 1) (by omega) (by omega)
theorem lunarGetYearShengXiao_panic (h : l.yearZhiIndex < -1 ∨ 12 ≤ l.yearZhiIndex) :
    Gen.FnS.calendar_Lunar_GetYearShengXiao l = .error .panic :=
  s1_rd_panic LunarUtil.«SHENG_XIAO» 13 rfl (l.yearZhiIndex + 1) (by omega)
theorem lunarGetYearShengXiaoByLiChun_eq (h0 : -1 ≤ l.yearZhiIndexByLiChun) (h1 : l.yearZhiIndexByLiChun < 12) :
    Gen.FnS.calendar_Lunar_GetYearShengXiaoByLiChun l = .ok (Model.shengXiao l.yearZhiIndexByLiChun) :=
  s1_rd LunarUtil.«SHENG_XIAO» 13 rfl (l.yearZhiIndexByLiChun + 1) (by omega) (by omega)
theorem lunarGetYearShengXiaoByLiChun_panic (h : l.yearZhiIndexByLiChun < -1 ∨ 12 ≤ l.yearZhiIndexByLiChun) :
    Gen.FnS.calendar_Lunar_GetYearShengXiaoByLiChun l = .error .panic :=
  s1_rd_panic LunarUtil.«SHENG_XIAO» 13 rfl (l.yearZhiIndexByLiChun + 1) (by omega)
theorem lunarGetYearShengXiaoExact_eq (h0 : -1 ≤ l.yearZhiIndexExact) (h1 : l.yearZhiIndexExact < 12) :
    Gen.FnS.calendar_Lunar_GetYearShengXiaoExact l = .ok (Model.shengXiao l.yearZhiIndexExact) :=
  s1_rd LunarUtil.«SHENG_XIAO» 13 rfl (l.yearZhiIndexExact + 1) (by omega) (by omega)
theorem lunarGetYearShengXiaoExact_panic (h : l.yearZhiIndexExact < -1 ∨ 12 ≤ l.yearZhiIndexExact) :
    Gen.FnS.calendar_Lunar_GetYearShengXiaoExact l = .error .panic :=
  s1_rd_panic LunarUtil.«SHENG_XIAO» 13 rfl (l.yearZhiIndexExact + 1) (by omega)
theorem lunarGetMonthShengXiao_eq (h0 : -1 ≤ l.monthZhiIndex) (h1 : l.monthZhiIndex < 12) :
    Gen.FnS.calendar_Lunar_GetMonthShengXiao l = .ok (Model.shengXiao l.monthZhiIndex) :=
  s1_rd LunarUtil.«SHENG_XIAO» 13 rfl (l.monthZhiIndex + 1) (by omega) (by omega)
theorem lunarGetMonthShengXiao_panic (h : l.monthZhiIndex < -1 ∨ 12 ≤ l.monthZhiIndex) :
    Gen.FnS.calendar_Lunar_GetMonthShengXiao l = .error .panic :=
  s1_rd_panic LunarUtil.«SHENG_XIAO» 13 rfl (l.monthZhiIndex + 1) (by omega)
theorem lunarGetDayShengXiao_eq (h0 : -1 ≤ l.dayZhiIndex) (h1 : l.dayZhiIndex < 12) :
    Gen.FnS.calendar_Lunar_GetDayShengXiao l = .ok (Model.shengXiao l.dayZhiIndex) :=
  s1_rd LunarUtil.«SHENG_XIAO» 13 rfl (l.dayZhiIndex + 1) (by omega) (by omega)
theorem lunarGetDayShengXiao_panic (h : l.dayZhiIndex < -1 ∨ 12 ≤ l.dayZhiIndex) :
    Gen.FnS.calendar_Lunar_GetDayShengXiao l = .error .panic :=
  s1_rd_panic LunarUtil.«SHENG_XIAO» 13 rfl (l.dayZhiIndex + 1) (by omega)
theorem lunarGetTimeShengXiao_eq (h0 : -1 ≤ l.timeZhiIndex) (h1 : l.timeZhiIndex < 12) :
    Gen.FnS.calendar_Lunar_GetTimeShengXiao l = .ok (Model.shengXiao l.timeZhiIndex) :=
  s1_rd LunarUtil.«SHENG_XIAO» 13 rfl (l.timeZhiIndex + 1) (by omega) (by omega)
theorem lunarGetTimeShengXiao_panic (h : l.timeZhiIndex < -1 ∨ 12 ≤ l.timeZhiIndex) :
    Gen.FnS.calendar_Lunar_GetTimeShengXiao l = .error .panic :=
  s1_rd_panic LunarUtil.«SHENG_XIAO» 13 rfl (l.timeZhiIndex + 1) (by omega)
/- evil direction: `SHA[GetXZhi()]` -/
theorem lunarGetDaySha_eq (h0 : -1 ≤ l.dayZhiIndex) (h1 : l.dayZhiIndex < 12) :
    Gen.FnS.calendar_Lunar_GetDaySha l = .ok (Model.sha l.dayZhiIndex) := by
  unfold Gen.FnS.calendar_Lunar_GetDaySha
  rw [lunarGetDayZhi_eq l h0 h1, sb_bind_ok, mlookupS_eq_lookupStr]; rfl
theorem lunarGetDaySha_panic (h : l.dayZhiIndex < -1 ∨ 12 ≤ l.dayZhiIndex) :
    Gen.FnS.calendar_Lunar_GetDaySha l = .error .panic := by
  unfold Gen.FnS.calendar_Lunar_GetDaySha
  rw [lunarGetDayZhi_panic l h, sb_bind_err]
theorem lunarGetTimeSha_eq (h0 : -1 ≤ l.timeZhiIndex) (h1 : l.timeZhiIndex < 12) :
    Gen.FnS.calendar_Lunar_GetTimeSha l = .ok (Model.sha l.timeZhiIndex) := by
  unfold Gen.FnS.calendar_Lunar_GetTimeSha
  rw [lunarGetTimeZhi_eq l h0 h1, sb_bind_ok, mlookupS_eq_lookupStr]; rfl
theorem lunarGetTimeSha_panic (h : l.timeZhiIndex < -1 ∨ 12 ≤ l.timeZhiIndex) :
    Gen.FnS.calendar_Lunar_GetTimeSha l = .error .panic := by
  unfold Gen.FnS.calendar_Lunar_GetTimeSha
  rw [lunarGetTimeZhi_panic l h, sb_bind_err]

/- clash animal: the search loop over `ZHI` -/
theorem s1_dayLoop : Gen.FnS.calendar_Lunar_GetDayChongShengXiao l
    = (Gen.FnS.calendar_Lunar_GetDayChong l >>= fun c => s1_loop LunarUtil.«ZHI» LunarUtil.«SHENG_XIAO» 13 c) := rfl
theorem s1_timeLoop : Gen.FnS.calendar_Lunar_GetTimeChongShengXiao l
    = (Gen.FnS.calendar_Lunar_GetTimeChong l >>= fun c => s1_loop LunarUtil.«ZHI» LunarUtil.«SHENG_XIAO» 13 c) := rfl

theorem lunarGetDayChongShengXiao_eq (h0 : 0 ≤ l.dayZhiIndex) (h1 : l.dayZhiIndex < 12) :
    Gen.FnS.calendar_Lunar_GetDayChongShengXiao l = .ok (Model.chongShengXiao l.dayZhiIndex) := by
  rw [s1_dayLoop, lunarGetDayChong_eq l h0 h1, sb_bind_ok, s1_loop_zhi]
theorem lunarGetDayChongShengXiao_panic (h : l.dayZhiIndex < 0 ∨ 12 ≤ l.dayZhiIndex) :
    Gen.FnS.calendar_Lunar_GetDayChongShengXiao l = .error .panic := by
  rw [s1_dayLoop, lunarGetDayChong_panic l h, sb_bind_err]
theorem lunarGetTimeChongShengXiao_eq (h0 : 0 ≤ l.timeZhiIndex) (h1 : l.timeZhiIndex < 12) :
    Gen.FnS.calendar_Lunar_GetTimeChongShengXiao l = .ok (Model.chongShengXiao l.timeZhiIndex) := by
  rw [s1_timeLoop, lunarGetTimeChong_eq l h0 h1, sb_bind_ok, s1_loop_zhi]
theorem lunarGetTimeChongShengXiao_panic (h : l.timeZhiIndex < 0 ∨ 12 ≤ l.timeZhiIndex) :
    Gen.FnS.calendar_Lunar_GetTimeChongShengXiao l = .error .panic := by
  rw [s1_timeLoop, lunarGetTimeChong_panic l h, sb_bind_err]

/- clash description "(" + ChongGan + Chong + ")" + ChongShengXiao: a stem AND a branch attribute -/
theorem lunarGetDayChongDesc_eq (g0 : 0 ≤ l.dayGanIndex) (g1 : l.dayGanIndex < 10)
    (z0 : 0 ≤ l.dayZhiIndex) (z1 : l.dayZhiIndex < 12) :
    Gen.FnS.calendar_Lunar_GetDayChongDesc l = .ok (Model.chongDesc l.dayGanIndex l.dayZhiIndex) := by
  unfold Gen.FnS.calendar_Lunar_GetDayChongDesc
  rw [lunarGetDayChongGan_eq l g0 g1, sb_bind_ok, lunarGetDayChong_eq l z0 z1, sb_bind_ok,
    lunarGetDayChongShengXiao_eq l z0 z1, sb_bind_ok]; rfl
theorem lunarGetDayChongDesc_panic (h : l.dayGanIndex < 0 ∨ 10 ≤ l.dayGanIndex ∨ l.dayZhiIndex < 0 ∨ 12 ≤ l.dayZhiIndex) :
    Gen.FnS.calendar_Lunar_GetDayChongDesc l = .error .panic := by
  unfold Gen.FnS.calendar_Lunar_GetDayChongDesc
  by_cases hg : l.dayGanIndex < 0 ∨ 10 ≤ l.dayGanIndex
  · rw [lunarGetDayChongGan_panic l hg, sb_bind_err]
  · rw [lunarGetDayChongGan_eq l (by omega) (by omega), sb_bind_ok, lunarGetDayChong_panic l (by omega), sb_bind_err]
theorem lunarGetTimeChongDesc_eq (g0 : 0 ≤ l.timeGanIndex) (g1 : l.timeGanIndex < 10)
    (z0 : 0 ≤ l.timeZhiIndex) (z1 : l.timeZhiIndex < 12) :
    Gen.FnS.calendar_Lunar_GetTimeChongDesc l = .ok (Model.chongDesc l.timeGanIndex l.timeZhiIndex) := by
  unfold Gen.FnS.calendar_Lunar_GetTimeChongDesc
  rw [lunarGetTimeChongGan_eq l g0 g1, sb_bind_ok, lunarGetTimeChong_eq l z0 z1, sb_bind_ok,
    lunarGetTimeChongShengXiao_eq l z0 z1, sb_bind_ok]; rfl
theorem lunarGetTimeChongDesc_panic
    (h : l.timeGanIndex < 0 ∨ 10 ≤ l.timeGanIndex ∨ l.timeZhiIndex < 0 ∨ 12 ≤ l.timeZhiIndex) :
    Gen.FnS.calendar_Lunar_GetTimeChongDesc l = .error .panic := by
  unfold Gen.FnS.calendar_Lunar_GetTimeChongDesc
  by_cases hg : l.timeGanIndex < 0 ∨ 10 ≤ l.timeGanIndex
  · rw [lunarGetTimeChongGan_panic l hg, sb_bind_err]
  · rw [lunarGetTimeChongGan_eq l (by omega) (by omega), sb_bind_ok, lunarGetTimeChong_panic l (by omega), sb_bind_err]

end Branch


/-! ### 4. year Tai Sui -/
section TaiSui
variable (l : Gen.FnS.Lunar)

/-- the year branch selected by the school: 1 → lunar new year, 3 → exact Li Chun instant, else → Li Chun day -/
def s1_yearZhiBySect (l : Gen.FnS.Lunar) (sect : Int) : Int :=
  if sect = 1 then l.yearZhiIndex else if sect = 3 then l.yearZhiIndexExact else l.yearZhiIndexByLiChun

theorem s1_taiSui_unfold (sect : Int) : Gen.FnS.calendar_Lunar_GetYearPositionTaiSuiBySect l sect
    = Gen.FnS.sidx LunarUtil.«POSITION_TAI_SUI_YEAR» (s1_yearZhiBySect l sect) := by
  unfold Gen.FnS.calendar_Lunar_GetYearPositionTaiSuiBySect s1_yearZhiBySect
  by_cases h1 : sect = 1
  · simp [h1]
  · by_cases h3 : sect = 3
    · simp [h3]
    · simp [h1, h3]

theorem lunarGetYearPositionTaiSuiBySect_eq (sect : Int)
    (h0 : 0 ≤ s1_yearZhiBySect l sect) (h1 : s1_yearZhiBySect l sect < 12) :
    Gen.FnS.calendar_Lunar_GetYearPositionTaiSuiBySect l sect
      = .ok (Model.positionTaiSuiYear (s1_yearZhiBySect l sect)) := by
  rw [s1_taiSui_unfold]
  exact s1_rd LunarUtil.«POSITION_TAI_SUI_YEAR» 12 rfl _ h0 (by omega)
theorem lunarGetYearPositionTaiSuiBySect_panic (sect : Int)
    (h : s1_yearZhiBySect l sect < 0 ∨ 12 ≤ s1_yearZhiBySect l sect) :
    Gen.FnS.calendar_Lunar_GetYearPositionTaiSuiBySect l sect = .error .panic := by
  rw [s1_taiSui_unfold]
  exact s1_rd_panic LunarUtil.«POSITION_TAI_SUI_YEAR» 12 rfl _ (by omega)
/- the three schools spelled out -/
theorem lunarGetYearPositionTaiSuiBySect_1 (h0 : 0 ≤ l.yearZhiIndex) (h1 : l.yearZhiIndex < 12) :
    Gen.FnS.calendar_Lunar_GetYearPositionTaiSuiBySect l 1 = .ok (Model.positionTaiSuiYear l.yearZhiIndex) :=
  lunarGetYearPositionTaiSuiBySect_eq l 1 h0 h1
theorem lunarGetYearPositionTaiSuiBySect_3 (h0 : 0 ≤ l.yearZhiIndexExact) (h1 : l.yearZhiIndexExact < 12) :
    Gen.FnS.calendar_Lunar_GetYearPositionTaiSuiBySect l 3 = .ok (Model.positionTaiSuiYear l.yearZhiIndexExact) :=
  lunarGetYearPositionTaiSuiBySect_eq l 3 h0 h1
theorem lunarGetYearPositionTaiSuiBySect_other (sect : Int) (hs1 : sect ≠ 1) (hs3 : sect ≠ 3)
    (h0 : 0 ≤ l.yearZhiIndexByLiChun) (h1 : l.yearZhiIndexByLiChun < 12) :
    Gen.FnS.calendar_Lunar_GetYearPositionTaiSuiBySect l sect
      = .ok (Model.positionTaiSuiYear l.yearZhiIndexByLiChun) := by
  have e : s1_yearZhiBySect l sect = l.yearZhiIndexByLiChun := by simp [s1_yearZhiBySect, hs1, hs3]
  have := lunarGetYearPositionTaiSuiBySect_eq l sect (by rw [e]; exact h0) (by rw [e]; exact h1)
  rw [e] at this; exact this
/-- default school 2: the Li Chun day -/
theorem lunarGetYearPositionTaiSui_eq (h0 : 0 ≤ l.yearZhiIndexByLiChun) (h1 : l.yearZhiIndexByLiChun < 12) :
    Gen.FnS.calendar_Lunar_GetYearPositionTaiSui l = .ok (Model.positionTaiSuiYear l.yearZhiIndexByLiChun) :=
  lunarGetYearPositionTaiSuiBySect_other l 2 (by decide) (by decide) h0 h1
theorem lunarGetYearPositionTaiSui_panic (h : l.yearZhiIndexByLiChun < 0 ∨ 12 ≤ l.yearZhiIndexByLiChun) :
    Gen.FnS.calendar_Lunar_GetYearPositionTaiSui l = .error .panic :=
  lunarGetYearPositionTaiSuiBySect_panic l 2 h
theorem lunarGetYearPositionTaiSuiDescBySect_eq (sect : Int)
    (h0 : 0 ≤ s1_yearZhiBySect l sect) (h1 : s1_yearZhiBySect l sect < 12) :
    Gen.FnS.calendar_Lunar_GetYearPositionTaiSuiDescBySect l sect
      = .ok (Model.positionDesc (Model.positionTaiSuiYear (s1_yearZhiBySect l sect))) :=
  s1_desc _ _ (lunarGetYearPositionTaiSuiBySect_eq l sect h0 h1)
theorem lunarGetYearPositionTaiSuiDescBySect_panic (sect : Int)
    (h : s1_yearZhiBySect l sect < 0 ∨ 12 ≤ s1_yearZhiBySect l sect) :
    Gen.FnS.calendar_Lunar_GetYearPositionTaiSuiDescBySect l sect = .error .panic :=
  s1_desc_panic _ (lunarGetYearPositionTaiSuiBySect_panic l sect h)
theorem lunarGetYearPositionTaiSuiDesc_eq (h0 : 0 ≤ l.yearZhiIndexByLiChun) (h1 : l.yearZhiIndexByLiChun < 12) :
    Gen.FnS.calendar_Lunar_GetYearPositionTaiSuiDesc l
      = .ok (Model.positionDesc (Model.positionTaiSuiYear l.yearZhiIndexByLiChun)) :=
  s1_desc _ _ (lunarGetYearPositionTaiSui_eq l h0 h1)
theorem lunarGetYearPositionTaiSuiDesc_panic (h : l.yearZhiIndexByLiChun < 0 ∨ 12 ≤ l.yearZhiIndexByLiChun) :
    Gen.FnS.calendar_Lunar_GetYearPositionTaiSuiDesc l = .error .panic :=
  s1_desc_panic _ (lunarGetYearPositionTaiSui_panic l h)

end TaiSui


/-! ### 5. deprecated aliases (each is definitionally its target: `_fwd` is `rfl`) -/
section Aliases
variable (l : Gen.FnS.Lunar)

/-- deprecated alias: forwards to `GetDayPositionXi` -/
theorem lunarGetPositionXi_fwd : Gen.FnS.calendar_Lunar_GetPositionXi l = Gen.FnS.calendar_Lunar_GetDayPositionXi l := rfl
theorem lunarGetPositionXi_eq (h0 : -1 ≤ l.dayGanIndex) (h1 : l.dayGanIndex < 10) :
    Gen.FnS.calendar_Lunar_GetPositionXi l = .ok (Model.positionXi l.dayGanIndex) :=
  lunarGetDayPositionXi_eq l h0 h1
/-- deprecated alias: forwards to `GetDayPositionXiDesc` -/
theorem lunarGetPositionXiDesc_fwd : Gen.FnS.calendar_Lunar_GetPositionXiDesc l = Gen.FnS.calendar_Lunar_GetDayPositionXiDesc l := rfl
theorem lunarGetPositionXiDesc_eq (h0 : -1 ≤ l.dayGanIndex) (h1 : l.dayGanIndex < 10) :
    Gen.FnS.calendar_Lunar_GetPositionXiDesc l = .ok (Model.positionDesc (Model.positionXi l.dayGanIndex)) :=
  lunarGetDayPositionXiDesc_eq l h0 h1
/-- deprecated alias: forwards to `GetDayPositionYangGui` -/
theorem lunarGetPositionYangGui_fwd : Gen.FnS.calendar_Lunar_GetPositionYangGui l = Gen.FnS.calendar_Lunar_GetDayPositionYangGui l := rfl
theorem lunarGetPositionYangGui_eq (h0 : -1 ≤ l.dayGanIndex) (h1 : l.dayGanIndex < 10) :
    Gen.FnS.calendar_Lunar_GetPositionYangGui l = .ok (Model.positionYangGui l.dayGanIndex) :=
  lunarGetDayPositionYangGui_eq l h0 h1
/-- deprecated alias: forwards to `GetDayPositionYangGuiDesc` -/
theorem lunarGetPositionYangGuiDesc_fwd : Gen.FnS.calendar_Lunar_GetPositionYangGuiDesc l = Gen.FnS.calendar_Lunar_GetDayPositionYangGuiDesc l := rfl
theorem lunarGetPositionYangGuiDesc_eq (h0 : -1 ≤ l.dayGanIndex) (h1 : l.dayGanIndex < 10) :
    Gen.FnS.calendar_Lunar_GetPositionYangGuiDesc l = .ok (Model.positionDesc (Model.positionYangGui l.dayGanIndex)) :=
  lunarGetDayPositionYangGuiDesc_eq l h0 h1
/-- deprecated alias: forwards to `GetDayPositionYinGui` -/
theorem lunarGetPositionYinGui_fwd : Gen.FnS.calendar_Lunar_GetPositionYinGui l = Gen.FnS.calendar_Lunar_GetDayPositionYinGui l := rfl
theorem lunarGetPositionYinGui_eq (h0 : -1 ≤ l.dayGanIndex) (h1 : l.dayGanIndex < 10) :
    Gen.FnS.calendar_Lunar_GetPositionYinGui l = .ok (Model.positionYinGui l.dayGanIndex) :=
  lunarGetDayPositionYinGui_eq l h0 h1
/-- deprecated alias: forwards to `GetDayPositionYinGuiDesc` -/
theorem lunarGetPositionYinGuiDesc_fwd : Gen.FnS.calendar_Lunar_GetPositionYinGuiDesc l = Gen.FnS.calendar_Lunar_GetDayPositionYinGuiDesc l := rfl
theorem lunarGetPositionYinGuiDesc_eq (h0 : -1 ≤ l.dayGanIndex) (h1 : l.dayGanIndex < 10) :
    Gen.FnS.calendar_Lunar_GetPositionYinGuiDesc l = .ok (Model.positionDesc (Model.positionYinGui l.dayGanIndex)) :=
  lunarGetDayPositionYinGuiDesc_eq l h0 h1
/-- deprecated alias: forwards to `GetDayPositionCai` -/
theorem lunarGetPositionCai_fwd : Gen.FnS.calendar_Lunar_GetPositionCai l = Gen.FnS.calendar_Lunar_GetDayPositionCai l := rfl
theorem lunarGetPositionCai_eq (h0 : -1 ≤ l.dayGanIndex) (h1 : l.dayGanIndex < 10) :
    Gen.FnS.calendar_Lunar_GetPositionCai l = .ok (Model.positionCai l.dayGanIndex) :=
  lunarGetDayPositionCai_eq l h0 h1
/-- deprecated alias: forwards to `GetDayPositionCaiDesc` -/
theorem lunarGetPositionCaiDesc_fwd : Gen.FnS.calendar_Lunar_GetPositionCaiDesc l = Gen.FnS.calendar_Lunar_GetDayPositionCaiDesc l := rfl
theorem lunarGetPositionCaiDesc_eq (h0 : -1 ≤ l.dayGanIndex) (h1 : l.dayGanIndex < 10) :
    Gen.FnS.calendar_Lunar_GetPositionCaiDesc l = .ok (Model.positionDesc (Model.positionCai l.dayGanIndex)) :=
  lunarGetDayPositionCaiDesc_eq l h0 h1
/-- deprecated alias: forwards to `GetDayPositionFu` -/
theorem lunarGetPositionFu_fwd : Gen.FnS.calendar_Lunar_GetPositionFu l = Gen.FnS.calendar_Lunar_GetDayPositionFu l := rfl
theorem lunarGetPositionFu_eq (h0 : -1 ≤ l.dayGanIndex) (h1 : l.dayGanIndex < 10) :
    Gen.FnS.calendar_Lunar_GetPositionFu l = .ok (Model.positionFu l.dayGanIndex 2) :=
  lunarGetDayPositionFu_eq l h0 h1
/-- deprecated alias: forwards to `GetDayPositionFuDesc` -/
theorem lunarGetPositionFuDesc_fwd : Gen.FnS.calendar_Lunar_GetPositionFuDesc l = Gen.FnS.calendar_Lunar_GetDayPositionFuDesc l := rfl
theorem lunarGetPositionFuDesc_eq (h0 : -1 ≤ l.dayGanIndex) (h1 : l.dayGanIndex < 10) :
    Gen.FnS.calendar_Lunar_GetPositionFuDesc l = .ok (Model.positionDesc (Model.positionFu l.dayGanIndex 2)) :=
  lunarGetDayPositionFuDesc_eq l h0 h1
/-- deprecated alias: forwards to `GetDayChong` -/
theorem lunarGetChong_fwd : Gen.FnS.calendar_Lunar_GetChong l = Gen.FnS.calendar_Lunar_GetDayChong l := rfl
theorem lunarGetChong_eq (h0 : 0 ≤ l.dayZhiIndex) (h1 : l.dayZhiIndex < 12) :
    Gen.FnS.calendar_Lunar_GetChong l = .ok (Model.chong l.dayZhiIndex) :=
  lunarGetDayChong_eq l h0 h1
/-- deprecated alias: forwards to `GetDayChongGan` -/
theorem lunarGetChongGan_fwd : Gen.FnS.calendar_Lunar_GetChongGan l = Gen.FnS.calendar_Lunar_GetDayChongGan l := rfl
theorem lunarGetChongGan_eq (h0 : 0 ≤ l.dayGanIndex) (h1 : l.dayGanIndex < 10) :
    Gen.FnS.calendar_Lunar_GetChongGan l = .ok (Model.chongGan l.dayGanIndex) :=
  lunarGetDayChongGan_eq l h0 h1
/-- deprecated alias: forwards to `GetDayChongGanTie` -/
theorem lunarGetChongGanTie_fwd : Gen.FnS.calendar_Lunar_GetChongGanTie l = Gen.FnS.calendar_Lunar_GetDayChongGanTie l := rfl
theorem lunarGetChongGanTie_eq (h0 : 0 ≤ l.dayGanIndex) (h1 : l.dayGanIndex < 10) :
    Gen.FnS.calendar_Lunar_GetChongGanTie l = .ok (Model.chongGanTie l.dayGanIndex) :=
  lunarGetDayChongGanTie_eq l h0 h1
/-- deprecated alias: forwards to `GetDayChongShengXiao` -/
theorem lunarGetChongShengXiao_fwd : Gen.FnS.calendar_Lunar_GetChongShengXiao l = Gen.FnS.calendar_Lunar_GetDayChongShengXiao l := rfl
theorem lunarGetChongShengXiao_eq (h0 : 0 ≤ l.dayZhiIndex) (h1 : l.dayZhiIndex < 12) :
    Gen.FnS.calendar_Lunar_GetChongShengXiao l = .ok (Model.chongShengXiao l.dayZhiIndex) :=
  lunarGetDayChongShengXiao_eq l h0 h1
/-- deprecated alias: forwards to `GetDayChongDesc` -/
theorem lunarGetChongDesc_fwd : Gen.FnS.calendar_Lunar_GetChongDesc l = Gen.FnS.calendar_Lunar_GetDayChongDesc l := rfl
theorem lunarGetChongDesc_eq (g0 : 0 ≤ l.dayGanIndex) (g1 : l.dayGanIndex < 10) (z0 : 0 ≤ l.dayZhiIndex) (z1 : l.dayZhiIndex < 12) :
    Gen.FnS.calendar_Lunar_GetChongDesc l = .ok (Model.chongDesc l.dayGanIndex l.dayZhiIndex) :=
  lunarGetDayChongDesc_eq l g0 g1 z0 z1
/-- deprecated alias: forwards to `GetDaySha` -/
theorem lunarGetSha_fwd : Gen.FnS.calendar_Lunar_GetSha l = Gen.FnS.calendar_Lunar_GetDaySha l := rfl
theorem lunarGetSha_eq (h0 : -1 ≤ l.dayZhiIndex) (h1 : l.dayZhiIndex < 12) :
    Gen.FnS.calendar_Lunar_GetSha l = .ok (Model.sha l.dayZhiIndex) :=
  lunarGetDaySha_eq l h0 h1
/-- deprecated alias: forwards to `GetYearShengXiao` -/
theorem lunarGetShengxiao_fwd : Gen.FnS.calendar_Lunar_GetShengxiao l = Gen.FnS.calendar_Lunar_GetYearShengXiao l := rfl
theorem lunarGetShengxiao_eq (h0 : -1 ≤ l.yearZhiIndex) (h1 : l.yearZhiIndex < 12) :
    Gen.FnS.calendar_Lunar_GetShengxiao l = .ok (Model.shengXiao l.yearZhiIndex) :=
  lunarGetYearShengXiao_eq l h0 h1
/-- deprecated alias: forwards to `GetYearGan` -/
theorem lunarGetGan_fwd : Gen.FnS.calendar_Lunar_GetGan l = Gen.FnS.calendar_Lunar_GetYearGan l := rfl
theorem lunarGetGan_eq (h0 : -1 ≤ l.yearGanIndex) (h1 : l.yearGanIndex < 10) :
    Gen.FnS.calendar_Lunar_GetGan l = .ok (Model.ganStr l.yearGanIndex) :=
  lunarGetYearGan_eq l h0 h1
/-- deprecated alias: forwards to `GetYearZhi` -/
theorem lunarGetZhi_fwd : Gen.FnS.calendar_Lunar_GetZhi l = Gen.FnS.calendar_Lunar_GetYearZhi l := rfl
theorem lunarGetZhi_eq (h0 : -1 ≤ l.yearZhiIndex) (h1 : l.yearZhiIndex < 12) :
    Gen.FnS.calendar_Lunar_GetZhi l = .ok (Model.zhiStr l.yearZhiIndex) :=
  lunarGetYearZhi_eq l h0 h1
end Aliases

section Axioms
#print axioms s1_loop_eq
#print axioms lunarGetDayPositionXi_eq
#print axioms lunarGetDayPositionXi_panic
#print axioms lunarGetDayPositionXiDesc_eq
#print axioms lunarGetDayPositionXiDesc_panic
#print axioms lunarGetDayPositionYangGui_eq
#print axioms lunarGetDayPositionYangGui_panic
#print axioms lunarGetDayPositionYangGuiDesc_eq
#print axioms lunarGetDayPositionYangGuiDesc_panic
#print axioms lunarGetDayPositionYinGui_eq
#print axioms lunarGetDayPositionYinGui_panic
#print axioms lunarGetDayPositionYinGuiDesc_eq
#print axioms lunarGetDayPositionYinGuiDesc_panic
#print axioms lunarGetDayPositionCai_eq
#print axioms lunarGetDayPositionCai_panic
#print axioms lunarGetDayPositionCaiDesc_eq
#print axioms lunarGetDayPositionCaiDesc_panic
#print axioms lunarGetDayChongGan_eq
#print axioms lunarGetDayChongGan_panic
#print axioms lunarGetDayChongGanTie_eq
#print axioms lunarGetDayChongGanTie_panic
#print axioms lunarGetTimePositionXi_eq
#print axioms lunarGetTimePositionXi_panic
#print axioms lunarGetTimePositionXiDesc_eq
#print axioms lunarGetTimePositionXiDesc_panic
#print axioms lunarGetTimePositionYangGui_eq
#print axioms lunarGetTimePositionYangGui_panic
#print axioms lunarGetTimePositionYangGuiDesc_eq
#print axioms lunarGetTimePositionYangGuiDesc_panic
#print axioms lunarGetTimePositionYinGui_eq
#print axioms lunarGetTimePositionYinGui_panic
#print axioms lunarGetTimePositionYinGuiDesc_eq
#print axioms lunarGetTimePositionYinGuiDesc_panic
#print axioms lunarGetTimePositionCai_eq
#print axioms lunarGetTimePositionCai_panic
#print axioms lunarGetTimePositionCaiDesc_eq
#print axioms lunarGetTimePositionCaiDesc_panic
#print axioms lunarGetTimeChongGan_eq
#print axioms lunarGetTimeChongGan_panic
#print axioms lunarGetTimeChongGanTie_eq
#print axioms lunarGetTimeChongGanTie_panic
#print axioms lunarGetPengZuGan_eq
#print axioms lunarGetPengZuGan_panic
#print axioms lunarGetDayPositionFuBySect_eq
#print axioms lunarGetDayPositionFuBySect_panic
#print axioms lunarGetDayPositionFu_eq
#print axioms lunarGetDayPositionFu_panic
#print axioms lunarGetDayPositionFuDescBySect_eq
#print axioms lunarGetDayPositionFuDescBySect_panic
#print axioms lunarGetDayPositionFuDesc_eq
#print axioms lunarGetDayPositionFuDesc_panic
#print axioms lunarGetTimePositionFu_eq
#print axioms lunarGetTimePositionFu_panic
#print axioms lunarGetTimePositionFuDesc_eq
#print axioms lunarGetTimePositionFuDesc_panic
#print axioms lunarGetPengZuZhi_eq
#print axioms lunarGetPengZuZhi_panic
#print axioms lunarGetDayChong_eq
#print axioms lunarGetDayChong_panic
#print axioms lunarGetTimeChong_eq
#print axioms lunarGetTimeChong_panic
#print axioms lunarGetYearShengXiao_eq
#print axioms lunarGetYearShengXiao_panic
#print axioms lunarGetYearShengXiaoByLiChun_eq
#print axioms lunarGetYearShengXiaoByLiChun_panic
#print axioms lunarGetYearShengXiaoExact_eq
#print axioms lunarGetYearShengXiaoExact_panic
#print axioms lunarGetMonthShengXiao_eq
#print axioms lunarGetMonthShengXiao_panic
#print axioms lunarGetDayShengXiao_eq
#print axioms lunarGetDayShengXiao_panic
#print axioms lunarGetTimeShengXiao_eq
#print axioms lunarGetTimeShengXiao_panic
#print axioms lunarGetDaySha_eq
#print axioms lunarGetDaySha_panic
#print axioms lunarGetTimeSha_eq
#print axioms lunarGetTimeSha_panic
#print axioms lunarGetDayChongShengXiao_eq
#print axioms lunarGetDayChongShengXiao_panic
#print axioms lunarGetTimeChongShengXiao_eq
#print axioms lunarGetTimeChongShengXiao_panic
#print axioms lunarGetDayChongDesc_eq
#print axioms lunarGetDayChongDesc_panic
#print axioms lunarGetTimeChongDesc_eq
#print axioms lunarGetTimeChongDesc_panic
#print axioms lunarGetYearPositionTaiSuiBySect_eq
#print axioms lunarGetYearPositionTaiSuiBySect_panic
#print axioms lunarGetYearPositionTaiSuiBySect_1
#print axioms lunarGetYearPositionTaiSuiBySect_3
#print axioms lunarGetYearPositionTaiSuiBySect_other
#print axioms lunarGetYearPositionTaiSui_eq
#print axioms lunarGetYearPositionTaiSui_panic
#print axioms lunarGetYearPositionTaiSuiDescBySect_eq
#print axioms lunarGetYearPositionTaiSuiDescBySect_panic
#print axioms lunarGetYearPositionTaiSuiDesc_eq
#print axioms lunarGetYearPositionTaiSuiDesc_panic
#print axioms lunarGetPositionXi_fwd
#print axioms lunarGetPositionXi_eq
#print axioms lunarGetPositionXiDesc_fwd
#print axioms lunarGetPositionXiDesc_eq
#print axioms lunarGetPositionYangGui_fwd
#print axioms lunarGetPositionYangGui_eq
#print axioms lunarGetPositionYangGuiDesc_fwd
#print axioms lunarGetPositionYangGuiDesc_eq
#print axioms lunarGetPositionYinGui_fwd
#print axioms lunarGetPositionYinGui_eq
#print axioms lunarGetPositionYinGuiDesc_fwd
#print axioms lunarGetPositionYinGuiDesc_eq
#print axioms lunarGetPositionCai_fwd
#print axioms lunarGetPositionCai_eq
#print axioms lunarGetPositionCaiDesc_fwd
#print axioms lunarGetPositionCaiDesc_eq
#print axioms lunarGetPositionFu_fwd
#print axioms lunarGetPositionFu_eq
#print axioms lunarGetPositionFuDesc_fwd
#print axioms lunarGetPositionFuDesc_eq
#print axioms lunarGetChong_fwd
#print axioms lunarGetChong_eq
#print axioms lunarGetChongGan_fwd
#print axioms lunarGetChongGan_eq
#print axioms lunarGetChongGanTie_fwd
#print axioms lunarGetChongGanTie_eq
#print axioms lunarGetChongShengXiao_fwd
#print axioms lunarGetChongShengXiao_eq
#print axioms lunarGetChongDesc_fwd
#print axioms lunarGetChongDesc_eq
#print axioms lunarGetSha_fwd
#print axioms lunarGetSha_eq
#print axioms lunarGetShengxiao_fwd
#print axioms lunarGetShengxiao_eq
#print axioms lunarGetGan_fwd
#print axioms lunarGetGan_eq
#print axioms lunarGetZhi_fwd
#print axioms lunarGetZhi_eq
end Axioms
end FnSEq
