/-
Proofs.WFDefs — Prop-level packaging of the oracle well-formedness (`AstroOK`) and the concrete
regenerated oracle `Gen.astro` the driver runs with. Definitions only; theorems are in the other
Proofs files.
-/
import Model.AstroWF
import Model.Lunar
import Gen.AstroAll
namespace Model

/-- the oracle `A` passes the per-year and per-adjacent-pair checkers on lunar years lo..hi -/
structure AstroOK (A : Astro) (lo hi : Int) : Prop where
  year : ∀ y, lo ≤ y → y ≤ hi → yearOk y (A y) = true
  pair : ∀ y, lo ≤ y → y < hi → pairOk y (A y) (A (y + 1)) = true

/-- additionally the no-major-term leap rule on the years of `[lo,hi]` inside 1929..3000 -/
def LeapRuleOK (A : Astro) (lo hi : Int) : Prop :=
  ∀ y, lo ≤ y → y ≤ hi → leapRuleRange y = true → leapRuleOk y (A y) = true

def emptyAstro : YearAstro := { months := [], terms := [], hs := [], jq := [] }

/-- packed record of lunar year `y` taken from the regenerated blocks (list form, for proofs) -/
def packedL (y : Nat) : Nat × Nat :=
  let c := if y / Gen.Astro.blockSize ≥ Gen.Astro.numBlocks then Gen.Astro.numBlocks - 1 else y / Gen.Astro.blockSize
  (Gen.Astro.blockList c).getD (y - Gen.Astro.blockSize * c) (0, 0)

/-- the concrete oracle: the current code's outputs for lunar years 0..10000 -/
def genAstro : Astro := fun y =>
  if 0 ≤ y ∧ y ≤ 10000 then decodeYear y (packedL y.toNat) else emptyAstro

/-- position of a lunar month among its own year's months (0-based) -/
def monthPos (A : Astro) (y m : Int) : Option Nat :=
  (monthsInYear (A y).months y).findIdx? (fun r => r.month == m)

/-- the natural order on lunar dates: year, then position of the month in the year, then day -/
def lunarLt (A : Astro) (l l' : Lunar) : Prop :=
  l.year < l'.year ∨ (l.year = l'.year ∧
    ((∃ i j, monthPos A l.year l.month = some i ∧ monthPos A l'.year l'.month = some j ∧ i < j) ∨
     (l.month = l'.month ∧ l.day < l'.day)))

end Model
