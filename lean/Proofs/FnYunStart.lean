/-
Proofs.FnYunStart — Yun.GetStartSolar: generated code = model (split from the worker's FnCivil2; helper prefix `c2_`).
-/
import Proofs.FnCivil2

namespace FnEq

/-! ## 6. Yun.GetStartSolar -/

theorem c2_newSolar_hour (y m d h mi sec : Int) (r : Model.Solar)
    (e : Model.newSolar y m d h mi sec = some r) : r.hour = h := by
  unfold Model.newSolar at e
  by_cases hv : (Model.validYmd y m d && Model.validHms h mi sec) = true
  · rw [if_pos hv] at e
    injection e with e; subst e; rfl
  · rw [if_neg hv] at e; cases e

theorem c2_nextYear_hour (s r : Model.Solar) (n : Int) (e : s.nextYear n = some r) :
    r.hour = s.hour := c2_newSolar_hour _ _ _ _ _ _ _ e
theorem c2_nextMonth_hour (s r : Model.Solar) (n : Int) (e : s.nextMonth n = some r) :
    r.hour = s.hour := c2_newSolar_hour _ _ _ _ _ _ _ e
theorem c2_nextMonth_valid (s r : Model.Solar) (n : Int) (e : s.nextMonth n = some r) :
    r.valid = true := c2_newSolar_valid _ _ _ _ _ _ _ e
theorem c2_nextDay_hour (s r : Model.Solar) (n : Int) (e : s.nextDay n = some r) :
    r.hour = s.hour := by
  rw [c2_nextDay_model] at e
  exact c2_newSolar_hour _ _ _ _ _ _ _ e

@[simp] theorem lunarGetSolar_eq (l : Gen.Fn.Lunar) :
    Gen.Fn.calendar_Lunar_GetSolar l = .ok l.solar := rfl

/-- `Yun.GetStartSolar`.  `my` is any model `Yun` that agrees with the generated one on the fields
the function reads (the lunar date's solar date and the four start offsets).  No validity guard is
needed: `NextDay`/`NextHour` are only applied to results of `NewSolar`. The hour of day is carried
unchanged up to the `NextHour` call, hence the second fuel bound. -/
theorem yunGetStartSolar_eq (fuel : Nat) (yun : Gen.Fn.Yun) (my : Model.Yun)
    (hsol : my.lunar.solar = toM yun.lunar.solar) (hy : my.startYear = yun.startYear)
    (hm : my.startMonth = yun.startMonth) (hd : my.startDay = yun.startDay)
    (hh : my.startHour = yun.startHour)
    (hf1 : yun.startDay.natAbs + 2 ≤ fuel)
    (hf2 : (yun.lunar.solar.hour + yun.startHour).natAbs / 24 + 3 ≤ fuel) :
    Gen.Fn.calendar_Yun_GetStartSolar fuel yun = (match my.startSolar with
      | some r => .ok (ofM r) | none => .error .panic) := by
  simp only [Gen.Fn.calendar_Yun_GetStartSolar, Model.Yun.startSolar, lunarGetSolar_eq,
    c1_ok_bind, solarNextYear_eq, hsol, hy, hm, hd, hh]
  cases e1 : (toM yun.lunar.solar).nextYear yun.startYear with
  | none => rfl
  | some a =>
    simp only [c1_ok_bind, Option.bind_some, solarNextMonth_eq, toM_ofM]
    cases e2 : a.nextMonth yun.startMonth with
    | none => rfl
    | some b =>
      have hbv := c2_nextMonth_valid _ _ _ e2
      simp only [c1_ok_bind, Option.bind_some]
      rw [solarNextDay_eq fuel (ofM b) _ (by simpa using hbv) hf1]
      simp only [toM_ofM]
      cases e3 : b.nextDay yun.startDay with
      | none => rfl
      | some c =>
        have hcv := c2_nextDay_valid _ _ _ e3
        have hch : c.hour = yun.lunar.solar.hour := by
          rw [c2_nextDay_hour _ _ _ e3, c2_nextMonth_hour _ _ _ e2, c2_nextYear_hour _ _ _ e1]
          rfl
        simp only [c1_ok_bind, Option.bind_some]
        rw [solarNextHour_eq fuel (ofM c) _ (by simpa using hcv)
          (by simpa [hch] using hf2)]
        simp only [toM_ofM]
        rfl


end FnEq
