/-
Proofs.FnSSolarFest — Solar.GetFestivals (fixed-date, k-th weekday, last weekday) (string-mode generated code with atoms = model; split from the worker's FnSFest; helper prefix `sf_`).
-/
import Proofs.FnSFestBase

namespace FnSEq
open FnEq
open Gen.Fn (Err)
open Gen.Tables

/-! ### 2. `Solar.GetFestivals` (atom `a1` = `solar.GetWeek()`) -/

theorem sf_SF_keys : SolarUtil.«FESTIVAL».map Prod.fst = SolarUtil.«FESTIVAL_ikeys».map sf_enc2 := by decide
theorem sf_SF_len : SolarUtil.«FESTIVAL_ikeys».all (fun a => a.length == 2) = true := by decide
theorem sf_SW_keys : SolarUtil.«WEEK_FESTIVAL».map Prod.fst = SolarUtil.«WEEK_FESTIVAL_ikeys».map sf_enc3 := by decide
theorem sf_SW_len : SolarUtil.«WEEK_FESTIVAL_ikeys».all (fun a => a.length == 3) = true := by decide

theorem sf_SF_lookup (m d : Int) :
    Model.lookupI SolarUtil.«FESTIVAL_ikeys» SolarUtil.«FESTIVAL» [m, d]
      = Model.lookupS SolarUtil.«FESTIVAL» (Gen.FnS.fmtD m ++ "-" ++ Gen.FnS.fmtD d) :=
  sf_lookupI2 _ _ sf_SF_keys sf_SF_len m d

theorem sf_SW_lookup (m k w : Int) :
    Model.lookupI SolarUtil.«WEEK_FESTIVAL_ikeys» SolarUtil.«WEEK_FESTIVAL» [m, k, w]
      = Model.lookupS SolarUtil.«WEEK_FESTIVAL» (Gen.FnS.fmtD m ++ "-" ++ Gen.FnS.fmtD k ++ "-" ++ Gen.FnS.fmtD w) :=
  sf_lookupI3 _ _ sf_SW_keys sf_SW_len m k w

/-- the literal key "%d-0-%d" of the last-week rule is the 3-key with 0 in the middle -/
theorem sf_key0 (m w : Int) :
    Gen.FnS.fmtD m ++ "-0-" ++ Gen.FnS.fmtD w = Gen.FnS.fmtD m ++ "-" ++ Gen.FnS.fmtD 0 ++ "-" ++ Gen.FnS.fmtD w := by
  have h0 : Gen.FnS.fmtD 0 = "0" := by decide
  have h1 : "-0-" = "-" ++ ("0" ++ "-") := by decide
  rw [h0, h1]
  simp only [String.append_assoc]

/-- `int(math.Ceil(float64(day)/7))` as translated (`-((-day)/7)`) is the model's `(day+6)/7`, for every integer -/
theorem sf_ceil7 (x : Int) : -((-x) / 7) = (x + 6) / 7 := by omega

theorem sf_daysOfMonth_eq (y m : Int) (h1 : 1 ≤ m) (h12 : m ≤ 12) :
    Gen.FnS.SolarUtil_GetDaysOfMonth y m = .ok (Model.daysOfMonth y m) := getDaysOfMonth_eq y m h1 h12
theorem sf_daysOfMonth_panic (y m : Int) (h : m < 1 ∨ 12 < m) :
    Gen.FnS.SolarUtil_GetDaysOfMonth y m = .error .panic := getDaysOfMonth_panic y m h

/-- `[f]` for `some f`, `[]` for `none` (the model writes this as a `match`) -/
def sf_opt1 (o : Option String) : List String := match o with | some f => [f] | none => []

theorem sf_optList1 (T : List (String × String)) (k : String) :
    (if Gen.FnS.mhas T k = true then [Gen.FnS.mlookupS T k] else []) = sf_opt1 (Model.lookupS T k) := by
  rw [sf_optList]; cases Model.lookupS T k <;> rfl

/-- `Model.solarFestivals` with the weekday as a parameter (the Go atom) -/
def sf_solarFestivalsW (w y m d : Int) : List String :=
  sf_opt1 (Model.lookupI SolarUtil.«FESTIVAL_ikeys» SolarUtil.«FESTIVAL» [m, d]) ++
  sf_opt1 (Model.lookupI SolarUtil.«WEEK_FESTIVAL_ikeys» SolarUtil.«WEEK_FESTIVAL» [m, (d + 6) / 7, w]) ++
  (if d + 7 > Model.daysOfMonth y m then
    sf_opt1 (Model.lookupI SolarUtil.«WEEK_FESTIVAL_ikeys» SolarUtil.«WEEK_FESTIVAL» [m, 0, w]) else [])

theorem sf_solarFestivalsW_week (y m d : Int) :
    sf_solarFestivalsW (Model.week y m d) y m d = Model.solarFestivals y m d := rfl

/-- shape for an ARBITRARY value `w` of the atom, months 1..12 -/
theorem solarGetFestivals_shape (w : Int) (s : Gen.FnS.Solar) (h1 : 1 ≤ s.month) (h12 : s.month ≤ 12) :
    Gen.FnS.calendar_Solar_GetFestivals w s = .ok (sf_solarFestivalsW w s.year s.month s.day) := by
  unfold Gen.FnS.calendar_Solar_GetFestivals sf_solarFestivalsW
  simp only [sf_daysOfMonth_eq s.year s.month h1 h12, sb_bind_ok, sf_ceil7, sf_key0,
    sf_SF_lookup, sf_SW_lookup, ← sf_optList1]
  generalize Gen.FnS.mhas SolarUtil.«FESTIVAL» _ = b1
  generalize Gen.FnS.mlookupS SolarUtil.«FESTIVAL» _ = v1
  generalize Gen.FnS.mhas SolarUtil.«WEEK_FESTIVAL» (_ ++ Gen.FnS.fmtD ((s.day + 6) / 7) ++ _ ++ _) = b2
  generalize Gen.FnS.mlookupS SolarUtil.«WEEK_FESTIVAL» (_ ++ Gen.FnS.fmtD ((s.day + 6) / 7) ++ _ ++ _) = v2
  generalize Gen.FnS.mhas SolarUtil.«WEEK_FESTIVAL» _ = b3
  generalize Gen.FnS.mlookupS SolarUtil.«WEEK_FESTIVAL» _ = v3
  by_cases hd : s.day + 7 > Model.daysOfMonth s.year s.month <;>
    cases b1 <;> cases b2 <;> cases b3 <;> simp [hd, pure, Except.pure]

/-- MAIN: with the atom bound to the model's weekday, `Solar.GetFestivals` is `Model.solarFestivals`
(fixed date, k-th weekday of the month with k = ⌈day/7⌉, last weekday of the month) -/
theorem solarGetFestivals_eq (s : Gen.FnS.Solar) (h1 : 1 ≤ s.month) (h12 : s.month ≤ 12) :
    Gen.FnS.calendar_Solar_GetFestivals (solarToM s).week s = .ok (Model.solarFestivals s.year s.month s.day) :=
  solarGetFestivals_shape _ s h1 h12

/-- atom as a hypothesis -/
theorem solarGetFestivals_eq' (a1 : Int) (s : Gen.FnS.Solar) (ha1 : a1 = Model.week s.year s.month s.day)
    (h1 : 1 ≤ s.month) (h12 : s.month ≤ 12) :
    Gen.FnS.calendar_Solar_GetFestivals a1 s = .ok (Model.solarFestivals s.year s.month s.day) := by
  subst ha1; exact solarGetFestivals_shape _ s h1 h12

/-- outside 1..12 `GetDaysOfMonth` indexes its table out of range: panic (the model is totalised there) -/
theorem solarGetFestivals_panic (a1 : Int) (s : Gen.FnS.Solar) (h : s.month < 1 ∨ 12 < s.month) :
    Gen.FnS.calendar_Solar_GetFestivals a1 s = .error .panic := by
  unfold Gen.FnS.calendar_Solar_GetFestivals
  simp only [sf_daysOfMonth_panic s.year s.month h]
  generalize Gen.FnS.mhas SolarUtil.«FESTIVAL» _ = b1
  generalize Gen.FnS.mhas SolarUtil.«WEEK_FESTIVAL» _ = b2
  cases b1 <;> cases b2 <;> rfl


end FnSEq
