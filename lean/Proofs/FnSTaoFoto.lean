/-
Proofs.FnSTaoFoto — Taoist / Buddhist predicates (string-mode generated code = model; split from the worker's FnS4; helper prefix `s4_`).
-/
import Proofs.FnSBase
import Model.TaoFoto
import Model.Fmt
import Model.CivilFest

namespace FnSEq
open Gen.Fn (Err)

/-! ### 2. Taoist / Buddhist predicates -/

theorem s4_strCompare_eq_zero (a b : String) : Gen.FnS.strCompare a b = 0 ↔ a = b := by
  unfold Gen.FnS.strCompare
  constructor
  · intro h
    by_cases h1 : a < b
    · simp [h1] at h
    · by_cases h2 : a = b
      · exact h2
      · simp [h1, h2] at h
  · intro h; subst h
    simp [String.lt_irrefl]

theorem s4_strCompare_decide (a b : String) : decide (Gen.FnS.strCompare a b = 0) = (a == b) := by
  by_cases h : a = b
  · simp [h, (s4_strCompare_eq_zero b b).2 rfl]
  · have : ¬ Gen.FnS.strCompare a b = 0 := fun h' => h ((s4_strCompare_eq_zero a b).1 h')
    simp [h, this]

section Tao
variable (t : Gen.FnS.Tao) (terms : List Model.Solar)

@[simp] theorem taoGetMonth_eq : Gen.FnS.calendar_Tao_GetMonth t = .ok t.lunar.month := rfl
@[simp] theorem taoGetDay_eq : Gen.FnS.calendar_Tao_GetDay t = .ok t.lunar.day := rfl
@[simp] theorem taoGetLunar_eq : Gen.FnS.calendar_Tao_GetLunar t = .ok t.lunar := rfl
theorem taoGetYear_eq : Gen.FnS.calendar_Tao_GetYear t = .ok (Model.taoYear (lunarToM t.lunar terms)) := rfl
theorem newTaoFromLunar_eq (l : Gen.FnS.Lunar) : Gen.FnS.calendar_NewTaoFromLunar l = .ok ⟨l⟩ := rfl

theorem taoIsDayMingWu_eq (h0 : -1 ≤ t.lunar.dayGanIndex) (h1 : t.lunar.dayGanIndex < 10) :
    Gen.FnS.calendar_Tao_IsDayMingWu t = .ok (Model.taoMingWu (lunarToM t.lunar terms)) := by
  unfold Gen.FnS.calendar_Tao_IsDayMingWu Model.taoMingWu
  rw [lunarGetDayGan_eq _ h0 h1]
  simp only [sb_bind_ok, lunarToM_dayGanIndex, s4_strCompare_decide]
  rw [Bool.beq_comm]; rfl

theorem taoIsDayMingWu_panic (h : t.lunar.dayGanIndex < -1 ∨ 10 ≤ t.lunar.dayGanIndex) :
    Gen.FnS.calendar_Tao_IsDayMingWu t = .error .panic := by
  unfold Gen.FnS.calendar_Tao_IsDayMingWu
  rw [lunarGetDayGan_panic _ h]; rfl

theorem s4_len_ANWU : Gen.Tables.TaoUtil.«AN_WU».length = 12 := by decide

theorem taoIsDayAnWu_eq (z0 : -1 ≤ t.lunar.dayZhiIndex) (z1 : t.lunar.dayZhiIndex < 12)
    (m0 : -12 ≤ t.lunar.month) (m1 : t.lunar.month ≤ 12) (m2 : t.lunar.month ≠ 0) :
    Gen.FnS.calendar_Tao_IsDayAnWu t = .ok (Model.taoAnWu (lunarToM t.lunar terms)) := by
  unfold Gen.FnS.calendar_Tao_IsDayAnWu Model.taoAnWu Model.absI
  simp only [taoGetMonth_eq, sb_bind_ok, lunarToM_dayZhiIndex, lunarToM_month]
  by_cases hm : t.lunar.month < 0
  · simp only [hm, decide_true, if_true]
    rw [lunarGetDayZhi_eq _ z0 z1]
    simp only [bind, Except.bind, pure, Except.pure]
    rw [sidx_eq_strGetD _ _ (by omega) (by rw [s4_len_ANWU]; omega)]
    simp only [s4_strCompare_decide]
  · simp only [hm, decide_false, if_false, Bool.false_eq_true]
    rw [lunarGetDayZhi_eq _ z0 z1]
    simp only [bind, Except.bind, pure, Except.pure]
    rw [sidx_eq_strGetD _ _ (by omega) (by rw [s4_len_ANWU]; omega)]
    simp only [s4_strCompare_decide]

theorem taoIsDayAnWu_panic
    (h : t.lunar.dayZhiIndex < -1 ∨ 12 ≤ t.lunar.dayZhiIndex ∨ t.lunar.month < -12 ∨ 12 < t.lunar.month ∨ t.lunar.month = 0) :
    Gen.FnS.calendar_Tao_IsDayAnWu t = .error .panic := by
  unfold Gen.FnS.calendar_Tao_IsDayAnWu
  simp only [taoGetMonth_eq, sb_bind_ok]
  by_cases hz : t.lunar.dayZhiIndex < -1 ∨ 12 ≤ t.lunar.dayZhiIndex
  · rw [lunarGetDayZhi_panic _ hz]
    by_cases hm : t.lunar.month < 0 <;> simp [hm, bind, Except.bind]
  · rw [lunarGetDayZhi_eq _ (by omega) (by omega)]
    by_cases hm : t.lunar.month < 0
    · simp only [hm, decide_true, if_true, bind, Except.bind, pure, Except.pure]
      rw [sidx_panic _ _ (by rw [s4_len_ANWU]; omega)]
    · simp only [hm, decide_false, if_false, Bool.false_eq_true, bind, Except.bind, pure, Except.pure]
      rw [sidx_panic _ _ (by rw [s4_len_ANWU]; omega)]

/-- `IsDayWu` = `IsDayMingWu() || IsDayAnWu()` with Go's short circuit: a 戊 day never looks at the month -/
theorem taoIsDayWu_eq_of_mingWu (g0 : -1 ≤ t.lunar.dayGanIndex) (g1 : t.lunar.dayGanIndex < 10)
    (hw : Model.taoMingWu (lunarToM t.lunar terms) = true) :
    Gen.FnS.calendar_Tao_IsDayWu t = .ok true := by
  unfold Gen.FnS.calendar_Tao_IsDayWu
  rw [taoIsDayMingWu_eq t terms g0 g1, hw]; rfl

theorem taoIsDayWu_eq (g0 : -1 ≤ t.lunar.dayGanIndex) (g1 : t.lunar.dayGanIndex < 10)
    (z0 : -1 ≤ t.lunar.dayZhiIndex) (z1 : t.lunar.dayZhiIndex < 12)
    (m0 : -12 ≤ t.lunar.month) (m1 : t.lunar.month ≤ 12) (m2 : t.lunar.month ≠ 0) :
    Gen.FnS.calendar_Tao_IsDayWu t = .ok (Model.taoWu (lunarToM t.lunar terms)) := by
  unfold Gen.FnS.calendar_Tao_IsDayWu Model.taoWu
  rw [taoIsDayMingWu_eq t terms g0 g1]
  cases hw : Model.taoMingWu (lunarToM t.lunar terms)
  · simp only [sb_bind_ok, Bool.not_false, if_true, Bool.false_or]
    rw [taoIsDayAnWu_eq t terms z0 z1 m0 m1 m2]; rfl
  · rfl

theorem taoIsDayWu_panic_gan (h : t.lunar.dayGanIndex < -1 ∨ 10 ≤ t.lunar.dayGanIndex) :
    Gen.FnS.calendar_Tao_IsDayWu t = .error .panic := by
  unfold Gen.FnS.calendar_Tao_IsDayWu
  rw [taoIsDayMingWu_panic t h]; rfl

theorem taoIsDayBaHui_eq (g0 : -1 ≤ t.lunar.dayGanIndex) (g1 : t.lunar.dayGanIndex < 10)
    (z0 : -1 ≤ t.lunar.dayZhiIndex) (z1 : t.lunar.dayZhiIndex < 12) :
    Gen.FnS.calendar_Tao_IsDayBaHui t = .ok (Model.taoBaHui (lunarToM t.lunar terms)) := by
  unfold Gen.FnS.calendar_Tao_IsDayBaHui Model.taoBaHui
  rw [lunarGetDayInGanZhi_eq _ g0 g1 z0 z1]
  simp only [sb_bind_ok, mhas_eq, lunarToM_dayGanIndex, lunarToM_dayZhiIndex]
  cases (Model.lookupS Gen.Tables.TaoUtil.«BA_HUI»
    (Model.EightChar.pillarStr t.lunar.dayGanIndex t.lunar.dayZhiIndex)).isSome <;> rfl
end Tao

/-- the shape of a Go `for _, v := range T { if k == v { return true } } return false` loop -/
def s4_anyLoop (T : List String) (n : Nat) (k : String) : Except Err Bool := do
  for k3 in [0:n] do
    let v ← Gen.FnS.sidx T (k3 : Int)
    if decide ((Gen.FnS.strCompare k v) = 0) then
      return true
  return false

theorem s4_sidx_drop (T : List String) (s : Nat) (x : String) (l : List String) (h : T.drop s = x :: l) :
    Gen.FnS.sidx T (s : Int) = .ok x := by
  have h2 : T[s]? = some x := by
    have := List.getElem?_drop (xs := T) (i := s) (j := 0)
    rw [h] at this
    simpa using this.symm
  unfold Gen.FnS.sidx
  rw [if_neg (by omega), Int.toNat_natCast, h2]
  rfl

theorem s4_anyLoop_body (T : List String) (k : String) (l : List String) (s : Nat) (h : T.drop s = l) :
    forIn (m := Except Err) (List.range' s l.length 1) ((none : Option Bool), PUnit.unit)
      (fun (k3 : Nat) (__s : Option Bool × PUnit) => do
        let v ← Gen.FnS.sidx T (k3 : Int)
        if decide (Gen.FnS.strCompare k v = 0) = true then pure (ForInStep.done (some true, ()))
        else pure (ForInStep.yield (none, ()))) =
      Except.ok (if k ∈ l then (some true, PUnit.unit) else (none, PUnit.unit)) := by
  induction l generalizing s with
  | nil => simp [pure, Except.pure]
  | cons x l ih =>
    have hd : T.drop (s + 1) = l := by
      have := congrArg List.tail h
      simpa using this
    simp only [List.length_cons, List.range'_succ, List.forIn_cons, s4_sidx_drop T s x l h, sb_bind_ok]
    by_cases hx : k = x
    · simp [hx, (s4_strCompare_eq_zero x x).2 rfl, pure, Except.pure, bind, Except.bind]
    · have hc : ¬ Gen.FnS.strCompare k x = 0 := fun e => hx ((s4_strCompare_eq_zero k x).1 e)
      simp only [hc, decide_false, Bool.false_eq_true, if_false]
      refine (ih (s + 1) hd).trans ?_
      simp [hx]

theorem s4_anyLoop_eq (T : List String) (k : String) : s4_anyLoop T T.length k = .ok (T.contains k) := by
  unfold s4_anyLoop
  simp only [Std.Legacy.Range.forIn_eq_forIn_range']
  have hsz : Std.Legacy.Range.size [:T.length] = T.length := by simp [Std.Legacy.Range.size]
  rw [hsz, s4_anyLoop_body T k T 0 rfl]
  by_cases h : k ∈ T <;> simp [h, pure, Except.pure, bind, Except.bind]

theorem s4_dec_beq (a d : Int) : decide (a = d) = (d == a) := by
  by_cases h : a = d
  · subst h; simp
  · have h' : ¬ d = a := fun e => h e.symm
    simp [h, h']

section Foto
variable (f : Gen.FnS.Foto) (terms : List Model.Solar)

@[simp] theorem fotoGetMonth_eq : Gen.FnS.calendar_Foto_GetMonth f = .ok f.lunar.month := rfl
@[simp] theorem fotoGetDay_eq : Gen.FnS.calendar_Foto_GetDay f = .ok f.lunar.day := rfl
@[simp] theorem fotoGetLunar_eq : Gen.FnS.calendar_Foto_GetLunar f = .ok f.lunar := rfl
theorem fotoGetYear_eq : Gen.FnS.calendar_Foto_GetYear f = .ok (Model.fotoYear (lunarToM f.lunar terms)) := rfl
theorem newFotoFromLunar_eq (l : Gen.FnS.Lunar) : Gen.FnS.calendar_NewFotoFromLunar l = .ok ⟨l⟩ := rfl

theorem fotoIsMonthZhai_eq :
    Gen.FnS.calendar_Foto_IsMonthZhai f = .ok (Model.fotoMonthZhai (lunarToM f.lunar terms)) := by
  unfold Gen.FnS.calendar_Foto_IsMonthZhai Model.fotoMonthZhai
  simp only [fotoGetMonth_eq, sb_bind_ok, lunarToM_month, pure, Except.pure]
  simp only [s4_dec_beq]

theorem fotoIsDayZhaiShuoWang_eq :
    Gen.FnS.calendar_Foto_IsDayZhaiShuoWang f = .ok (Model.fotoZhaiShuoWang (lunarToM f.lunar terms)) := by
  unfold Gen.FnS.calendar_Foto_IsDayZhaiShuoWang Model.fotoZhaiShuoWang
  simp only [fotoGetDay_eq, sb_bind_ok, lunarToM_day, pure, Except.pure]
  simp only [s4_dec_beq]

theorem fotoIsDayZhaiTen_eq :
    Gen.FnS.calendar_Foto_IsDayZhaiTen f = .ok (Model.fotoZhaiTen (lunarToM f.lunar terms)) := by
  unfold Gen.FnS.calendar_Foto_IsDayZhaiTen Model.fotoZhaiTen
  simp only [fotoGetDay_eq, sb_bind_ok, lunarToM_day, pure, Except.pure]
  simp only [s4_dec_beq, List.contains_cons, List.contains_nil, Bool.or_false, Bool.or_assoc]

theorem s4_len_GUANYIN : Gen.Tables.FotoUtil.«DAY_ZHAI_GUAN_YIN».length = 22 := by decide

/-- guard-free: the 22 table reads never leave the table -/
theorem fotoIsDayZhaiGuanYin_eq :
    Gen.FnS.calendar_Foto_IsDayZhaiGuanYin f = .ok (Model.fotoZhaiGuanYin (lunarToM f.lunar terms)) := by
  have h : Gen.FnS.calendar_Foto_IsDayZhaiGuanYin f =
      s4_anyLoop Gen.Tables.FotoUtil.«DAY_ZHAI_GUAN_YIN» 22
        (Gen.FnS.fmtD f.lunar.month ++ "-" ++ Gen.FnS.fmtD f.lunar.day) := rfl
  rw [h, ← s4_len_GUANYIN, s4_anyLoop_eq]; rfl

theorem s4_idx_eq (T : List Int) (i : Int) (h0 : 0 ≤ i) (h1 : i < T.length) :
    Gen.Fn.idx T i = .ok (Model.listGetD T i) := by
  have h : i.toNat < T.length := by omega
  simp [Gen.Fn.idx, Model.listGetD, Int.not_lt.mpr h0, List.getD, List.getElem?_eq_getElem h, pure, Except.pure]

theorem s4_idx_panic (T : List Int) (i : Int) (h : i < 0 ∨ (T.length : Int) ≤ i) :
    Gen.Fn.idx T i = .error .panic := by
  unfold Gen.Fn.idx
  by_cases hi : i < 0
  · simp [hi, throw, throwThe, MonadExceptOf.throw]
  · have h2 : T.length ≤ i.toNat := by omega
    simp [hi, List.getElem?_eq_none h2, throw, throwThe, MonadExceptOf.throw]

theorem s4_len_XIUOFF : Gen.Tables.FotoUtil.«XIU_OFFSET».length = 12 := by decide
theorem s4_len_XIU27 : Gen.Tables.FotoUtil.«XIU_27».length = 27 := by decide

/-- `FotoUtil.GetXiu(month, day)` on raw integers: exact description for every input -/
theorem fotoUtilGetXiu_total (month day : Int) :
    Gen.FnS.FotoUtil_GetXiu month day =
      if 1 ≤ Model.absI month ∧ Model.absI month ≤ 12 ∧
          0 ≤ Int.tmod (Model.listGetD Gen.Tables.FotoUtil.«XIU_OFFSET» (Model.absI month - 1) + day - 1) 27
      then .ok (Model.strGetD Gen.Tables.FotoUtil.«XIU_27»
        (Int.tmod (Model.listGetD Gen.Tables.FotoUtil.«XIU_OFFSET» (Model.absI month - 1) + day - 1) 27))
      else .error .panic := by
  have hm : (if decide (month < 0) = true then -month else month) = Model.absI month := by
    unfold Model.absI; by_cases h : month < 0 <;> simp [h]
  have hbody : Gen.FnS.FotoUtil_GetXiu month day = (do
      let t1 ← Gen.Fn.idx Gen.Tables.FotoUtil.«XIU_OFFSET» (Model.absI month - 1)
      let t2 ← Gen.FnS.sidx Gen.Tables.FotoUtil.«XIU_27» (Int.tmod ((t1 + day) - 1) 27)
      return t2) := by
    unfold Gen.FnS.FotoUtil_GetXiu
    rw [← hm]
    by_cases h : month < 0 <;> simp [h, bind, Except.bind]
  rw [hbody]
  by_cases hr : 1 ≤ Model.absI month ∧ Model.absI month ≤ 12
  · rw [s4_idx_eq _ _ (by omega) (by rw [s4_len_XIUOFF]; omega)]
    simp only [sb_bind_ok]
    generalize Model.listGetD Gen.Tables.FotoUtil.«XIU_OFFSET» (Model.absI month - 1) = off
    have hlt : Int.tmod (off + day - 1) 27 < 27 := Int.tmod_lt_of_pos _ (by omega)
    by_cases hp : 0 ≤ Int.tmod (off + day - 1) 27
    · rw [if_pos ⟨hr.1, hr.2, hp⟩, sidx_eq_strGetD _ _ hp (by rw [s4_len_XIU27]; omega)]
    · rw [if_neg (by omega), sidx_panic _ _ (by omega)]
  · rw [if_neg (by omega), s4_idx_panic _ _ (by rw [s4_len_XIUOFF]; omega)]; rfl

theorem s4_xiuoff_nonneg (i : Int) : 0 ≤ Model.listGetD Gen.Tables.FotoUtil.«XIU_OFFSET» i := by
  have hall : ∀ x ∈ Gen.Tables.FotoUtil.«XIU_OFFSET», (0 : Int) ≤ x := by decide
  unfold Model.listGetD
  split
  · omega
  · unfold List.getD
    cases h : Gen.Tables.FotoUtil.«XIU_OFFSET»[i.toNat]? with
    | none => simp
    | some v => exact hall v (List.mem_of_getElem? h)

/-- `Foto.GetXiu`: months −12..12 ≠ 0 and a day ≥ 1 (then the `%` is non-negative) -/
theorem fotoGetXiu_eq (m0 : -12 ≤ f.lunar.month) (m1 : f.lunar.month ≤ 12) (m2 : f.lunar.month ≠ 0)
    (d0 : 1 ≤ f.lunar.day) :
    Gen.FnS.calendar_Foto_GetXiu f = .ok (Model.fotoXiu (lunarToM f.lunar terms)) := by
  unfold Gen.FnS.calendar_Foto_GetXiu Model.fotoXiu
  simp only [fotoGetMonth_eq, fotoGetDay_eq, sb_bind_ok, lunarToM_month, lunarToM_day, s4_len_XIU27]
  rw [fotoUtilGetXiu_total]
  have ha : 1 ≤ Model.absI f.lunar.month ∧ Model.absI f.lunar.month ≤ 12 := by
    unfold Model.absI; split <;> omega
  have hn := s4_xiuoff_nonneg (Model.absI f.lunar.month - 1)
  rw [if_pos ⟨ha.1, ha.2, Int.tmod_nonneg _ (by omega)⟩]; rfl

theorem fotoGetXiu_panic (h : f.lunar.month < -12 ∨ 12 < f.lunar.month ∨ f.lunar.month = 0) :
    Gen.FnS.calendar_Foto_GetXiu f = .error .panic := by
  unfold Gen.FnS.calendar_Foto_GetXiu
  simp only [fotoGetMonth_eq, fotoGetDay_eq, sb_bind_ok]
  rw [fotoUtilGetXiu_total]
  have ha : ¬ (1 ≤ Model.absI f.lunar.month ∧ Model.absI f.lunar.month ≤ 12) := by
    unfold Model.absI; split <;> omega
  rw [if_neg (fun hh => ha ⟨hh.1, hh.2.1⟩)]

theorem fotoGetAnimal_eq (m0 : -12 ≤ f.lunar.month) (m1 : f.lunar.month ≤ 12) (m2 : f.lunar.month ≠ 0)
    (d0 : 1 ≤ f.lunar.day) :
    Gen.FnS.calendar_Foto_GetAnimal f = .ok (Model.animal (Model.fotoXiu (lunarToM f.lunar terms))) := by
  unfold Gen.FnS.calendar_Foto_GetAnimal Model.animal
  rw [fotoGetXiu_eq f terms m0 m1 m2 d0, ← mlookupS_eq_lookupStr]; rfl
theorem fotoGetGong_eq (m0 : -12 ≤ f.lunar.month) (m1 : f.lunar.month ≤ 12) (m2 : f.lunar.month ≠ 0)
    (d0 : 1 ≤ f.lunar.day) :
    Gen.FnS.calendar_Foto_GetGong f = .ok (Model.gong (Model.fotoXiu (lunarToM f.lunar terms))) := by
  unfold Gen.FnS.calendar_Foto_GetGong Model.gong
  rw [fotoGetXiu_eq f terms m0 m1 m2 d0, ← mlookupS_eq_lookupStr]; rfl
theorem fotoGetShou_eq (m0 : -12 ≤ f.lunar.month) (m1 : f.lunar.month ≤ 12) (m2 : f.lunar.month ≠ 0)
    (d0 : 1 ≤ f.lunar.day) :
    Gen.FnS.calendar_Foto_GetShou f = .ok (Model.shou (Model.fotoXiu (lunarToM f.lunar terms))) := by
  unfold Gen.FnS.calendar_Foto_GetShou Model.shou
  rw [fotoGetGong_eq f terms m0 m1 m2 d0, ← mlookupS_eq_lookupStr]; rfl
theorem fotoGetXiuLuck_eq (m0 : -12 ≤ f.lunar.month) (m1 : f.lunar.month ≤ 12) (m2 : f.lunar.month ≠ 0)
    (d0 : 1 ≤ f.lunar.day) :
    Gen.FnS.calendar_Foto_GetXiuLuck f = .ok (Model.xiuLuck (Model.fotoXiu (lunarToM f.lunar terms))) := by
  unfold Gen.FnS.calendar_Foto_GetXiuLuck Model.xiuLuck
  rw [fotoGetXiu_eq f terms m0 m1 m2 d0, ← mlookupS_eq_lookupStr]; rfl
theorem fotoGetXiuSong_eq (m0 : -12 ≤ f.lunar.month) (m1 : f.lunar.month ≤ 12) (m2 : f.lunar.month ≠ 0)
    (d0 : 1 ≤ f.lunar.day) :
    Gen.FnS.calendar_Foto_GetXiuSong f = .ok (Model.xiuSong (Model.fotoXiu (lunarToM f.lunar terms))) := by
  unfold Gen.FnS.calendar_Foto_GetXiuSong Model.xiuSong
  rw [fotoGetXiu_eq f terms m0 m1 m2 d0, ← mlookupS_eq_lookupStr]; rfl
theorem fotoGetZheng_eq (m0 : -12 ≤ f.lunar.month) (m1 : f.lunar.month ≤ 12) (m2 : f.lunar.month ≠ 0)
    (d0 : 1 ≤ f.lunar.day) :
    Gen.FnS.calendar_Foto_GetZheng f = .ok (Model.zheng (Model.fotoXiu (lunarToM f.lunar terms))) := by
  unfold Gen.FnS.calendar_Foto_GetZheng Model.zheng
  rw [fotoGetXiu_eq f terms m0 m1 m2 d0, ← mlookupS_eq_lookupStr]; rfl
end Foto


end FnSEq
