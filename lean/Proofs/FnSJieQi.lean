/-
Proofs.FnS8 — the day-term getters of the regenerated string-mode code (`Lunar.GetJie`, `Lunar.GetQi`,
`convertJieQi`) = the model (`Model.Lunar.jie`, `Model.Lunar.qi`, `Model.convertJieQi`); helper prefix `s8_`.
-/
import Proofs.FnSBase
import Model.JieQi

namespace FnSEq
open Gen.Fn (Err)

/-! ### 1. `convertJieQi` -/

theorem s8_strCompare_eq_zero (a b : String) : Gen.FnS.strCompare a b = 0 ↔ a = b := by
  unfold Gen.FnS.strCompare
  constructor
  · intro h
    by_cases h1 : a < b
    · simp [h1] at h
    · by_cases h2 : a = b
      · exact h2
      · simp [h1, h2] at h
  · intro h; subst h
    simp [String.lt_irrefl]

/-- `strings.Compare(a, b) == 0` is string equality (the generated code writes the literal first) -/
theorem s8_strCompare_decide (a b : String) : decide (Gen.FnS.strCompare a b = 0) = (b == a) := by
  by_cases h : a = b
  · subst h; simp [(s8_strCompare_eq_zero a a).2 rfl]
  · have h1 : ¬ Gen.FnS.strCompare a b = 0 := fun h' => h ((s8_strCompare_eq_zero a b).1 h')
    have h2 : ¬ b = a := fun x => h x.symm
    simp [h1, h2]

theorem convertJieQi_eq (s : String) :
    Gen.FnS.calendar_convertJieQi s = .ok (Model.convertJieQi s) := by
  unfold Gen.FnS.calendar_convertJieQi Model.convertJieQi
  simp only [s8_strCompare_decide]
  repeat' split
  all_goals rfl

/-! ### 2. the `for i := lo; i < j; i += 2 { … break }` scan = `find?` over every other entry -/

/-- every other entry from position `i` on -/
theorem s8_everyOtherE_drop {E : List (String × Model.Solar)} (i : Nat) (hi : i < E.length) :
    Model.everyOtherE (E.drop i) = E[i] :: Model.everyOtherE (E.drop (i + 2)) := by
  rw [List.drop_eq_getElem_cons hi]
  by_cases h1 : i + 1 < E.length
  · rw [List.drop_eq_getElem_cons h1]; rfl
  · rw [List.drop_of_length_le (by omega : E.length ≤ i + 1),
        List.drop_of_length_le (by omega : E.length ≤ i + 2)]; rfl

/-- GENERIC: the generated `for … break` loop over the indices `lo + 2k` of a table of (name, stamp)
entries — the name read by `sidx`, the stamp by the atom `a1` — is `List.find?` over `everyOtherE`. -/
theorem s8_breakLoop (E : List (String × Model.Solar)) (a1 : Int → Gen.FnS.Solar) (today : Model.Solar)
    (lo : Nat)
    (hE : ∀ (i : Nat) (h : i < E.length), solarToM (a1 (i : Int)) = E[i].2)
    (f : Nat → String → Except Err (ForInStep String))
    (hf : ∀ k acc, f k acc = (do
        let t ← Gen.FnS.sidx (E.map (·.1)) ((lo : Int) + 2 * (k : Int))
        if Model.sameDay (solarToM (a1 ((lo : Int) + 2 * (k : Int)))) today = true then pure (ForInStep.done t)
        else pure (ForInStep.yield acc))) :
    ∀ (n start : Nat) (init : String), lo + 2 * (start + n) ≤ E.length + 1 →
      forIn (List.range' start n) init f
        = .ok (match ((Model.everyOtherE (E.drop (lo + 2 * start))).take n).find?
                  (fun e => Model.sameDay e.2 today) with
                | some e => e.1 | none => init) := by
  intro n
  induction n with
  | zero => intro start init _; rfl
  | succ n ih =>
    intro start init h
    have hlt : lo + 2 * start < E.length := by omega
    have hidx : ((lo : Int) + 2 * (start : Int)) = ((lo + 2 * start : Nat) : Int) := by omega
    have hT : Gen.FnS.sidx (E.map (·.1)) ((lo : Int) + 2 * (start : Int)) = .ok E[lo + 2 * start].1 := by
      rw [hidx, sidx_eq_getD _ _ (by omega) (by rw [List.length_map]; omega), Int.toNat_natCast]
      simp [List.getD, List.getElem?_eq_getElem hlt]
    have hA : solarToM (a1 ((lo : Int) + 2 * (start : Int))) = E[lo + 2 * start].2 := by
      rw [hidx]; exact hE _ hlt
    rw [List.range'_succ, List.forIn_cons, hf, hT, hA, s8_everyOtherE_drop _ hlt, List.take_succ_cons,
      List.find?_cons]
    by_cases hv : Model.sameDay E[lo + 2 * start].2 today = true
    · simp [hv, bind, Except.bind, pure, Except.pure]
    · have hv' : Model.sameDay E[lo + 2 * start].2 today = false := by simpa using hv
      simp only [sb_bind_ok, hv', Bool.false_eq_true, if_false]
      have := ih (start + 1) init (by omega)
      simp only [bind, Except.bind, pure, Except.pure] at this ⊢
      rw [this]
      have e : lo + 2 * (start + 1) = lo + 2 * start + 2 := by omega
      rw [e]

theorem s8_everyOtherE_length : ∀ (n : Nat) (E : List (String × Model.Solar)), E.length ≤ n →
    (Model.everyOtherE E).length = (E.length + 1) / 2
  | _, [], _ => rfl
  | _, [_], _ => by simp [Model.everyOtherE]
  | 0, _ :: _ :: _, h => by simp at h
  | n + 1, _ :: _ :: r, h => by
    have := s8_everyOtherE_length n r (by simp at h; omega)
    simp only [Model.everyOtherE, List.length_cons, this]; omega

/-- whole-scan form: `n` trips cover every other entry from `lo` on -/
theorem s8_breakLoop_all (E : List (String × Model.Solar)) (a1 : Int → Gen.FnS.Solar) (today : Model.Solar)
    (lo n : Nat)
    (hE : ∀ (i : Nat) (h : i < E.length), solarToM (a1 (i : Int)) = E[i].2)
    (hn : lo + 2 * n = E.length ∨ lo + 2 * n = E.length + 1)
    (f : Nat → String → Except Err (ForInStep String))
    (hf : ∀ k acc, f k acc = (do
        let t ← Gen.FnS.sidx (E.map (·.1)) ((lo : Int) + 2 * (k : Int))
        if Model.sameDay (solarToM (a1 ((lo : Int) + 2 * (k : Int)))) today = true then pure (ForInStep.done t)
        else pure (ForInStep.yield acc))) (init : String) :
    forIn (List.range' 0 n) init f
      = .ok (match (Model.everyOtherE (E.drop lo)).find? (fun e => Model.sameDay e.2 today) with
              | some e => e.1 | none => init) := by
  rw [s8_breakLoop E a1 today lo hE f hf n 0 init (by omega)]
  have hl : (Model.everyOtherE (E.drop lo)).length ≤ n := by
    rw [s8_everyOtherE_length _ _ (Nat.le_refl _), List.length_drop]; omega
  rw [Nat.mul_zero, Nat.add_zero, List.take_of_length_le hl]

/-! ### 3. `GetJie`, `GetQi` -/

theorem s8_JIE_QI_IN_USE_length : Gen.Tables.calendar.«JIE_QI_IN_USE».length = 31 := by decide

theorem s8_termEntries_length (terms : List Model.Solar) : (Model.termEntries terms).length = 31 := by
  unfold Model.termEntries; rw [List.length_map, s8_JIE_QI_IN_USE_length]

theorem s8_termEntries_names (terms : List Model.Solar) :
    (Model.termEntries terms).map (·.1) = Gen.Tables.calendar.«JIE_QI_IN_USE» := by
  unfold Model.termEntries
  rw [List.map_map]
  exact List.map_id _

/-- the meaning of the atom `a1 i` = `lunar.jieQi[JIE_QI_IN_USE[i]]`: it lists the model's term table -/
def s8_atomOK (a1 : Int → Gen.FnS.Solar) (terms : List Model.Solar) : Prop :=
  ∀ i : Int, 0 ≤ i → i < 31 →
    solarToM (a1 i) = Model.termByName terms (Gen.Tables.calendar.«JIE_QI_IN_USE».getD i.toNat "")

/-- the same hypothesis in the shape of `Model.termEntries` -/
theorem s8_atomOK_entries {a1 : Int → Gen.FnS.Solar} {terms : List Model.Solar} (h : s8_atomOK a1 terms) :
    ∀ (i : Nat) (hi : i < (Model.termEntries terms).length),
      solarToM (a1 (i : Int)) = (Model.termEntries terms)[i].2 := by
  intro i hi
  have hi' : i < 31 := by rw [s8_termEntries_length] at hi; exact hi
  have hl : i < Gen.Tables.calendar.«JIE_QI_IN_USE».length := by rw [s8_JIE_QI_IN_USE_length]; exact hi'
  rw [h i (by omega) (by omega)]
  simp [Model.termEntries, List.getD, List.getElem?_eq_getElem hl]

theorem s8_atomOK_iff (a1 : Int → Gen.FnS.Solar) (terms : List Model.Solar) :
    s8_atomOK a1 terms ↔ ∀ (i : Nat) (hi : i < (Model.termEntries terms).length),
      solarToM (a1 (i : Int)) = (Model.termEntries terms)[i].2 := by
  refine ⟨s8_atomOK_entries, ?_⟩
  intro h i h0 h1
  have hi : i.toNat < (Model.termEntries terms).length := by rw [s8_termEntries_length]; omega
  have hl : i.toNat < Gen.Tables.calendar.«JIE_QI_IN_USE».length := by rw [s8_JIE_QI_IN_USE_length]; omega
  have := h i.toNat hi
  rw [Int.toNat_of_nonneg h0] at this
  rw [this]
  simp [Model.termEntries, List.getD, List.getElem?_eq_getElem hl]

theorem s8_sameDay_eq (d t : Gen.FnS.Solar) :
    ((decide (d.year = t.year) && decide (d.month = t.month)) && decide (d.day = t.day))
      = Model.sameDay (solarToM d) (solarToM t) := rfl

theorem lunarGetJie_eq (a1 : Int → Gen.FnS.Solar) (l : Gen.FnS.Lunar) (terms : List Model.Solar)
    (ha : ∀ i : Int, 0 ≤ i → i < 31 →
      solarToM (a1 i) = Model.termByName terms (Gen.Tables.calendar.«JIE_QI_IN_USE».getD i.toNat "")) :
    Gen.FnS.calendar_Lunar_GetJie a1 l = .ok ((lunarToM l terms).jie) := by
  unfold Gen.FnS.calendar_Lunar_GetJie
  simp only [Std.Legacy.Range.forIn_eq_forIn_range', Std.Legacy.Range.size]
  have hn : ((31 - 0 + 1 : Int) / 2).toNat = 16 := by decide
  rw [← s8_termEntries_names terms]
  have hloop := s8_breakLoop_all (Model.termEntries terms) a1 (solarToM l.solar) 0 16
    (s8_atomOK_entries ha) (by rw [s8_termEntries_length]; omega)
    (fun k1 __s => do
      let t3 ← Gen.FnS.sidx ((Model.termEntries terms).map (·.1)) (0 + 2 * (k1 : Int))
      if ((decide ((a1 (0 + 2 * (k1 : Int))).year = l.solar.year) &&
            decide ((a1 (0 + 2 * (k1 : Int))).month = l.solar.month)) &&
            decide ((a1 (0 + 2 * (k1 : Int))).day = l.solar.day)) = true then
        pure (ForInStep.done t3)
      else pure (ForInStep.yield __s))
    (by intro k acc; simp only [s8_sameDay_eq]; rfl) ""
  simp only [hn, Nat.sub_zero, Nat.add_sub_cancel, Nat.div_one] at hloop ⊢
  rw [hloop, sb_bind_ok, convertJieQi_eq]
  simp only [Model.Lunar.jie, lunarToM_terms, lunarToM_solar, List.drop_zero]
  cases (Model.everyOtherE (Model.termEntries terms)).find? (fun e => Model.sameDay e.2 (solarToM l.solar)) <;> rfl

theorem lunarGetQi_eq (a1 : Int → Gen.FnS.Solar) (l : Gen.FnS.Lunar) (terms : List Model.Solar)
    (ha : ∀ i : Int, 0 ≤ i → i < 31 →
      solarToM (a1 i) = Model.termByName terms (Gen.Tables.calendar.«JIE_QI_IN_USE».getD i.toNat "")) :
    Gen.FnS.calendar_Lunar_GetQi a1 l = .ok ((lunarToM l terms).qi) := by
  unfold Gen.FnS.calendar_Lunar_GetQi
  simp only [Std.Legacy.Range.forIn_eq_forIn_range', Std.Legacy.Range.size]
  have hn : ((31 - 1 + 1 : Int) / 2).toNat = 15 := by decide
  rw [← s8_termEntries_names terms]
  have hloop := s8_breakLoop_all (Model.termEntries terms) a1 (solarToM l.solar) 1 15
    (s8_atomOK_entries ha) (by rw [s8_termEntries_length]; omega)
    (fun k1 __s => do
      let t3 ← Gen.FnS.sidx ((Model.termEntries terms).map (·.1)) (1 + 2 * (k1 : Int))
      if ((decide ((a1 (1 + 2 * (k1 : Int))).year = l.solar.year) &&
            decide ((a1 (1 + 2 * (k1 : Int))).month = l.solar.month)) &&
            decide ((a1 (1 + 2 * (k1 : Int))).day = l.solar.day)) = true then
        pure (ForInStep.done t3)
      else pure (ForInStep.yield __s))
    (by intro k acc; simp only [s8_sameDay_eq]; rfl) ""
  simp only [hn, Nat.sub_zero, Nat.add_sub_cancel, Nat.div_one] at hloop ⊢
  rw [hloop, sb_bind_ok, convertJieQi_eq]
  simp only [Model.Lunar.qi, lunarToM_terms, lunarToM_solar]
  cases (Model.everyOtherE ((Model.termEntries terms).drop 1)).find?
    (fun e => Model.sameDay e.2 (solarToM l.solar)) <;> rfl

/-! ### 4. atom-free form and the Jie / Qi index parity -/

/-- the table the generated loops actually scan, for an ARBITRARY atom: names from `JIE_QI_IN_USE`,
stamps from the atom -/
def s8_rawEntries (a1 : Int → Gen.FnS.Solar) : List (String × Model.Solar) :=
  (List.range 31).map fun i => (Gen.Tables.calendar.«JIE_QI_IN_USE».getD i "", solarToM (a1 (i : Int)))

theorem s8_rawEntries_length (a1 : Int → Gen.FnS.Solar) : (s8_rawEntries a1).length = 31 := by
  simp [s8_rawEntries]

theorem s8_rawEntries_names (a1 : Int → Gen.FnS.Solar) :
    (s8_rawEntries a1).map (·.1) = Gen.Tables.calendar.«JIE_QI_IN_USE» := by
  unfold s8_rawEntries
  rw [List.map_map]
  apply List.ext_getElem
  · simp [s8_JIE_QI_IN_USE_length]
  · intro i h1 h2
    simp [List.getD, List.getElem?_eq_getElem h2]

theorem s8_rawEntries_atom (a1 : Int → Gen.FnS.Solar) :
    ∀ (i : Nat) (hi : i < (s8_rawEntries a1).length), solarToM (a1 (i : Int)) = (s8_rawEntries a1)[i].2 := by
  intro i hi; simp [s8_rawEntries]

/-- `GetJie` for an arbitrary atom (no hypothesis at all) -/
theorem lunarGetJie_raw (a1 : Int → Gen.FnS.Solar) (l : Gen.FnS.Lunar) :
    Gen.FnS.calendar_Lunar_GetJie a1 l
      = .ok (match (Model.everyOtherE (s8_rawEntries a1)).find? (fun e => Model.sameDay e.2 (solarToM l.solar)) with
              | some e => Model.convertJieQi e.1 | none => "") := by
  unfold Gen.FnS.calendar_Lunar_GetJie
  simp only [Std.Legacy.Range.forIn_eq_forIn_range', Std.Legacy.Range.size]
  have hn : ((31 - 0 + 1 : Int) / 2).toNat = 16 := by decide
  rw [← s8_rawEntries_names a1]
  have hloop := s8_breakLoop_all (s8_rawEntries a1) a1 (solarToM l.solar) 0 16
    (s8_rawEntries_atom a1) (by rw [s8_rawEntries_length]; omega)
    (fun k1 __s => do
      let t3 ← Gen.FnS.sidx ((s8_rawEntries a1).map (·.1)) (0 + 2 * (k1 : Int))
      if ((decide ((a1 (0 + 2 * (k1 : Int))).year = l.solar.year) &&
            decide ((a1 (0 + 2 * (k1 : Int))).month = l.solar.month)) &&
            decide ((a1 (0 + 2 * (k1 : Int))).day = l.solar.day)) = true then
        pure (ForInStep.done t3)
      else pure (ForInStep.yield __s))
    (by intro k acc; simp only [s8_sameDay_eq]; rfl) ""
  simp only [hn, Nat.sub_zero, Nat.add_sub_cancel, Nat.div_one] at hloop ⊢
  rw [hloop, sb_bind_ok, convertJieQi_eq]
  simp only [List.drop_zero]
  cases (Model.everyOtherE (s8_rawEntries a1)).find? (fun e => Model.sameDay e.2 (solarToM l.solar)) <;> rfl

/-- `GetQi` for an arbitrary atom -/
theorem lunarGetQi_raw (a1 : Int → Gen.FnS.Solar) (l : Gen.FnS.Lunar) :
    Gen.FnS.calendar_Lunar_GetQi a1 l
      = .ok (match (Model.everyOtherE ((s8_rawEntries a1).drop 1)).find?
                (fun e => Model.sameDay e.2 (solarToM l.solar)) with
              | some e => Model.convertJieQi e.1 | none => "") := by
  unfold Gen.FnS.calendar_Lunar_GetQi
  simp only [Std.Legacy.Range.forIn_eq_forIn_range', Std.Legacy.Range.size]
  have hn : ((31 - 1 + 1 : Int) / 2).toNat = 15 := by decide
  rw [← s8_rawEntries_names a1]
  have hloop := s8_breakLoop_all (s8_rawEntries a1) a1 (solarToM l.solar) 1 15
    (s8_rawEntries_atom a1) (by rw [s8_rawEntries_length]; omega)
    (fun k1 __s => do
      let t3 ← Gen.FnS.sidx ((s8_rawEntries a1).map (·.1)) (1 + 2 * (k1 : Int))
      if ((decide ((a1 (1 + 2 * (k1 : Int))).year = l.solar.year) &&
            decide ((a1 (1 + 2 * (k1 : Int))).month = l.solar.month)) &&
            decide ((a1 (1 + 2 * (k1 : Int))).day = l.solar.day)) = true then
        pure (ForInStep.done t3)
      else pure (ForInStep.yield __s))
    (by intro k acc; simp only [s8_sameDay_eq]; rfl) ""
  simp only [hn, Nat.sub_zero, Nat.add_sub_cancel, Nat.div_one] at hloop ⊢
  rw [hloop, sb_bind_ok, convertJieQi_eq]
  cases (Model.everyOtherE ((s8_rawEntries a1).drop 1)).find?
    (fun e => Model.sameDay e.2 (solarToM l.solar)) <;> rfl

/-- members of `everyOtherE L` sit at even positions of `L` -/
theorem s8_mem_everyOtherE : ∀ (n : Nat) (L : List (String × Model.Solar)), L.length ≤ n →
    ∀ e ∈ Model.everyOtherE L, ∃ k : Nat, L[2 * k]? = some e
  | _, [], _, e, h => by simp [Model.everyOtherE] at h
  | _, [a], _, e, h => by
    simp only [Model.everyOtherE, List.mem_singleton] at h
    exact ⟨0, by simp [h]⟩
  | 0, _ :: _ :: _, hl, _, _ => by simp at hl
  | n + 1, a :: b :: r, hl, e, h => by
    simp only [Model.everyOtherE, List.mem_cons] at h
    rcases h with h | h
    · exact ⟨0, by simp [h]⟩
    · obtain ⟨k, hk⟩ := s8_mem_everyOtherE n r (by simp at hl; omega) e h
      refine ⟨k + 1, ?_⟩
      have : 2 * (k + 1) = 2 * k + 1 + 1 := by omega
      rw [this, List.getElem?_cons_succ, List.getElem?_cons_succ]; exact hk

/-- a hit of the scan from `lo` is the entry of an index `lo + 2k` of the table -/
theorem s8_scan_parity (E : List (String × Model.Solar)) (lo : Nat) (p : String × Model.Solar → Bool)
    (e : String × Model.Solar) (h : (Model.everyOtherE (E.drop lo)).find? p = some e) :
    ∃ k : Nat, lo + 2 * k < E.length ∧ e.1 = (E.map (·.1)).getD (lo + 2 * k) "" := by
  obtain ⟨k, hk⟩ := s8_mem_everyOtherE _ _ (Nat.le_refl _) e (List.mem_of_find?_eq_some h)
  rw [List.getElem?_drop] at hk
  have hlt : lo + 2 * k < E.length := by
    rcases Nat.lt_or_ge (lo + 2 * k) E.length with h | h
    · exact h
    · rw [List.getElem?_eq_none h] at hk; cases hk
  refine ⟨k, hlt, ?_⟩
  simp [List.getD, hk]

theorem s8_convert_empty : Model.convertJieQi "" = "" := by decide

/-- COROLLARY (Jie filter parity, on the generated code, any atom): a non-empty `GetJie` is the converted
name of an EVEN-indexed entry of `JIE_QI_IN_USE` -/
theorem lunarGetJie_parity (a1 : Int → Gen.FnS.Solar) (l : Gen.FnS.Lunar) (s : String)
    (h : Gen.FnS.calendar_Lunar_GetJie a1 l = .ok s) (hs : s ≠ "") :
    ∃ k : Nat, 2 * k < 31 ∧
      s = Model.convertJieQi (Gen.Tables.calendar.«JIE_QI_IN_USE».getD (2 * k) "") := by
  rw [lunarGetJie_raw] at h
  cases hfind : (Model.everyOtherE (s8_rawEntries a1)).find? (fun e => Model.sameDay e.2 (solarToM l.solar)) with
  | none =>
    rw [hfind] at h
    exact absurd (Except.ok.inj h).symm hs
  | some e =>
    rw [hfind] at h
    have hfind' : (Model.everyOtherE ((s8_rawEntries a1).drop 0)).find?
        (fun e => Model.sameDay e.2 (solarToM l.solar)) = some e := by rw [List.drop_zero]; exact hfind
    obtain ⟨k, hk, he⟩ := s8_scan_parity _ 0 _ e hfind'
    rw [s8_rawEntries_length, Nat.zero_add] at hk
    rw [s8_rawEntries_names, Nat.zero_add] at he
    exact ⟨k, hk, by rw [← he]; exact (Except.ok.inj h).symm⟩

/-- COROLLARY (Qi filter parity): a non-empty `GetQi` is the converted name of an ODD-indexed entry -/
theorem lunarGetQi_parity (a1 : Int → Gen.FnS.Solar) (l : Gen.FnS.Lunar) (s : String)
    (h : Gen.FnS.calendar_Lunar_GetQi a1 l = .ok s) (hs : s ≠ "") :
    ∃ k : Nat, 2 * k + 1 < 31 ∧
      s = Model.convertJieQi (Gen.Tables.calendar.«JIE_QI_IN_USE».getD (2 * k + 1) "") := by
  rw [lunarGetQi_raw] at h
  cases hfind : (Model.everyOtherE ((s8_rawEntries a1).drop 1)).find?
      (fun e => Model.sameDay e.2 (solarToM l.solar)) with
  | none =>
    rw [hfind] at h
    exact absurd (Except.ok.inj h).symm hs
  | some e =>
    rw [hfind] at h
    obtain ⟨k, hk, he⟩ := s8_scan_parity _ 1 _ e hfind
    rw [s8_rawEntries_length] at hk
    rw [s8_rawEntries_names] at he
    have e1 : 1 + 2 * k = 2 * k + 1 := by omega
    rw [e1] at hk he
    exact ⟨k, hk, by rw [← he]; exact (Except.ok.inj h).symm⟩

/-- the getters never fail, whatever the atom -/
theorem lunarGetJie_ok (a1 : Int → Gen.FnS.Solar) (l : Gen.FnS.Lunar) :
    ∃ s, Gen.FnS.calendar_Lunar_GetJie a1 l = .ok s := ⟨_, lunarGetJie_raw a1 l⟩
theorem lunarGetQi_ok (a1 : Int → Gen.FnS.Solar) (l : Gen.FnS.Lunar) :
    ∃ s, Gen.FnS.calendar_Lunar_GetQi a1 l = .ok s := ⟨_, lunarGetQi_raw a1 l⟩

/-- the same parity on the model side -/
theorem s8_model_jie_parity (l : Model.Lunar) (hs : l.jie ≠ "") :
    ∃ k : Nat, 2 * k < 31 ∧
      l.jie = Model.convertJieQi (Gen.Tables.calendar.«JIE_QI_IN_USE».getD (2 * k) "") := by
  unfold Model.Lunar.jie at hs ⊢
  cases hfind : (Model.everyOtherE (Model.termEntries l.terms)).find? (fun e => Model.sameDay e.2 l.solar) with
  | none => rw [hfind] at hs; exact absurd rfl hs
  | some e =>
    have hfind' : (Model.everyOtherE ((Model.termEntries l.terms).drop 0)).find?
        (fun e => Model.sameDay e.2 l.solar) = some e := by rw [List.drop_zero]; exact hfind
    obtain ⟨k, hk, he⟩ := s8_scan_parity _ 0 _ e hfind'
    rw [s8_termEntries_length, Nat.zero_add] at hk
    rw [s8_termEntries_names, Nat.zero_add] at he
    exact ⟨k, hk, by rw [← he]⟩

theorem s8_model_qi_parity (l : Model.Lunar) (hs : l.qi ≠ "") :
    ∃ k : Nat, 2 * k + 1 < 31 ∧
      l.qi = Model.convertJieQi (Gen.Tables.calendar.«JIE_QI_IN_USE».getD (2 * k + 1) "") := by
  unfold Model.Lunar.qi at hs ⊢
  cases hfind : (Model.everyOtherE ((Model.termEntries l.terms).drop 1)).find?
      (fun e => Model.sameDay e.2 l.solar) with
  | none => rw [hfind] at hs; exact absurd rfl hs
  | some e =>
    obtain ⟨k, hk, he⟩ := s8_scan_parity _ 1 _ e hfind
    rw [s8_termEntries_length] at hk
    rw [s8_termEntries_names] at he
    have e1 : 1 + 2 * k = 2 * k + 1 := by omega
    rw [e1] at hk he
    exact ⟨k, hk, by rw [← he]⟩

section Axioms
#print axioms convertJieQi_eq
#print axioms s8_breakLoop
#print axioms s8_breakLoop_all
#print axioms s8_atomOK_iff
#print axioms lunarGetJie_eq
#print axioms lunarGetQi_eq
#print axioms lunarGetJie_raw
#print axioms lunarGetQi_raw
#print axioms lunarGetJie_parity
#print axioms lunarGetQi_parity
#print axioms s8_model_jie_parity
#print axioms s8_model_qi_parity
end Axioms

end FnSEq
