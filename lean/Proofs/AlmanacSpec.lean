/-
Proofs.AlmanacSpec — C18 (classical laws as facts about the regenerated tables) and C18/C11
(almanac attributes are functions of their defining inputs), stated on the vectors compared with Go.
-/
import Model.Almanac
import Model.TaoFoto
import Driver.OpsAlmanac
import Proofs.Pillars
set_option linter.unusedVariables false
set_option linter.unusedSimpArgs false
namespace Model
open Gen.Tables

/-! ## (A) table laws -/

theorem jiazi_compose : (List.range 60).all (fun i => Gen.Tables.LunarUtil.JIA_ZI.getD i "" == (Gen.Tables.LunarUtil.GAN.getD (i % 10 + 1) "" ++ Gen.Tables.LunarUtil.ZHI.getD (i % 12 + 1) "")) = true := by
  decide

/-- the clash branch is six places away -/
theorem chong_six_away : (List.range 12).all (fun i => Gen.Tables.LunarUtil.CHONG.getD i "" == Gen.Tables.LunarUtil.ZHI.getD ((i + 6) % 12 + 1) "?") = true := by
  decide

/-- the two pillars 2k, 2k+1 of the 60-cycle share one nayin element, and every pillar has one -/
theorem nayin_pairs : (List.range 30).all (fun k => let a := lookupStr Gen.Tables.LunarUtil.NAYIN (Gen.Tables.LunarUtil.JIA_ZI.getD (2*k) ""); a != "" && a == lookupStr Gen.Tables.LunarUtil.NAYIN (Gen.Tables.LunarUtil.JIA_ZI.getD (2*k+1) "")) = true := by
  decide

theorem alm_zhiXing_tab : ∀ k : Fin 12, (strGetD LunarUtil.ZHI_XING ((k.val : Int) + 1) = strGetD LunarUtil.ZHI_XING 1 ↔ k.val = 0) := by
  decide

/-- the duty god is 建 (entry 1) exactly when day and month branches coincide, and advances one per branch step -/
theorem zhiXing_jian (mz dz : Int) (hm : 0 ≤ mz ∧ mz ≤ 11) (hd : 0 ≤ dz ∧ dz ≤ 11) :
    (zhiXing mz dz = strGetD Gen.Tables.LunarUtil.ZHI_XING 1 ↔ dz = mz) ∧ zhiXing mz dz = strGetD Gen.Tables.LunarUtil.ZHI_XING ((dz - mz) % 12 + 1) := by
  have e : zhiXing mz dz = strGetD LunarUtil.ZHI_XING ((dz - mz) % 12 + 1) := by
    unfold zhiXing
    simp only
    congr 1
    split <;> omega
  refine ⟨?_, e⟩
  rw [e]
  have hk : 0 ≤ (dz - mz) % 12 ∧ (dz - mz) % 12 < 12 := by omega
  have := alm_zhiXing_tab ⟨((dz - mz) % 12).toNat, by omega⟩
  simp only at this
  rw [show (((dz - mz) % 12).toNat : Int) = (dz - mz) % 12 by omega] at this
  rw [this]
  omega

theorem zhiXing_distinct : (Gen.Tables.LunarUtil.ZHI_XING.drop 1).Nodup ∧ Gen.Tables.LunarUtil.ZHI_XING.length = 13 := by
  decide

/-- the 28 mansions: all 84 (branch, weekday) keys are present; the mansion of day number n (branch (n−11) mod 12, weekday (n+7000001) mod 7)
    is entry (n + c) mod 28 of ONE fixed 28-order, for a constant c: so it advances one per day in step with the weekday -/
def alm_xiuOf (n : Int) : String := xiu ((n - 11) % 12) ((n + 7000001) % 7)

theorem xiu_keys_present : (List.range 12).all (fun z => (List.range 7).all (fun w => xiu (z : Int) (w : Int) != "")) = true := by
  decide

def alm_xiuOrder : List String := (List.range 28).map fun (n : Nat) => alm_xiuOf (n : Int)

theorem alm_xiu_84 : ∀ k : Fin 84, alm_xiuOf (k.val : Int) = alm_xiuOrder.getD (k.val % 28) "?" := by
  decide

theorem alm_xiuOf_mod (n : Int) : alm_xiuOf n = alm_xiuOf (n % 84) := by
  unfold alm_xiuOf
  congr 1 <;> omega

theorem xiu_cycle : ∃ order : List String, order.length = 28 ∧ order.Nodup ∧ ∃ c : Nat, ∀ n : Int, 0 ≤ n → alm_xiuOf n = order.getD ((n.toNat + c) % 28) "?" := by
  refine ⟨alm_xiuOrder, by decide, by decide, 0, ?_⟩
  intro n hn
  rw [alm_xiuOf_mod]
  have hk : 0 ≤ n % 84 ∧ n % 84 < 84 := by omega
  have := alm_xiu_84 ⟨(n % 84).toNat, by omega⟩
  simp only at this
  rw [show (((n % 84).toNat : Nat) : Int) = n % 84 by omega] at this
  rw [this]
  congr 1
  omega

/-! ## (B) congruence: attributes are functions of their defining inputs -/

/-- the day/hour almanac vector depends only on these fields of the lunar date -/
def alm_inputs (l : Lunar) : List Int := [l.month, l.day, l.weekIndex, l.yearGanIndex, l.yearZhiIndex, l.yearGanIndexByLiChun, l.yearZhiIndexByLiChun,
  l.yearGanIndexExact, l.yearZhiIndexExact, l.monthGanIndex, l.monthZhiIndex, l.monthGanIndexExact, l.monthZhiIndexExact,
  l.dayGanIndex, l.dayZhiIndex, l.dayGanIndexExact, l.dayZhiIndexExact, l.dayGanIndexExact2, l.dayZhiIndexExact2, l.timeGanIndex, l.timeZhiIndex]

theorem almVector_congr (l l' : Lunar) (h : alm_inputs l = alm_inputs l') : Driver.almVector l = Driver.almVector l' := by
  simp only [alm_inputs, List.cons.injEq, and_true] at h
  obtain ⟨h1, h2, h3, h4, h5, h6, h7, h8, h9, h10, h11, h12, h13, h14, h15, h16, h17, h18, h19, h20, h21⟩ := h
  unfold Driver.almVector
  simp only [h1, h2, h3, h4, h5, h6, h7, h8, h9, h10, h11, h12, h13, h14, h15, h16, h17, h18, h19, h20, h21]

/-- the hour object's attributes equal the lunar date's own hour attributes: for a Lunar built by `computeAll`, the hour pillar recomputed from (hour, minute, early-rat day stem) IS the stored one, so `timeVector` (hour object route) and the hour entries of `almVector` (lunar route) are the same functions of the same inputs -/
theorem hour_routes_agree (ly lm ld h mi sec : Int) (s : Solar) (ya : YearAstro) :
    let l := computeAll ly lm ld h mi sec s ya
    timeZhiIndexOf l.hour l.minute = l.timeZhiIndex ∧ (l.dayGanIndexExact % 5 * 2 + timeZhiIndexOf l.hour l.minute) % 10 = l.timeGanIndex := by
  intro l
  exact ⟨rfl, rfl⟩

/-- EightChar: every derived attribute is a function of the four pillars selected by the sect (plus the exact year stem for MingGong/ShenGong): two charts with the same pillars report the same attributes -/
def alm_ecInputs (e : EightChar) : List Int := [e.yearG, e.yearZ, e.monthG, e.monthZ, e.dayG, e.dayZ, e.timeG, e.timeZ, e.lunar.yearGanIndexExact]

theorem eightChar_congr (e e' : EightChar) (h : alm_ecInputs e = alm_ecInputs e') : Driver.showEC e = Driver.showEC e' := by
  simp only [alm_ecInputs, List.cons.injEq, and_true] at h
  obtain ⟨h1, h2, h3, h4, h5, h6, h7, h8, h9⟩ := h
  simp only [Driver.showEC, EightChar.shiShenGan, EightChar.shiShenZhi, EightChar.yearDiShi, EightChar.monthDiShi, EightChar.dayDiShi,
    EightChar.timeDiShi, EightChar.diShi, EightChar.taiYuan, EightChar.taiXi, EightChar.mingGong, EightChar.shenGong,
    h1, h2, h3, h4, h5, h6, h7, h8, h9]

/-- in particular the day life stage uses the sect-selected day branch -/
theorem dayDiShi_uses_sect (e : EightChar) : e.dayDiShi = e.diShi e.dayZ := rfl

#print axioms jiazi_compose
#print axioms chong_six_away
#print axioms nayin_pairs
#print axioms zhiXing_jian
#print axioms zhiXing_distinct
#print axioms xiu_keys_present
#print axioms xiu_cycle
#print axioms almVector_congr
#print axioms hour_routes_agree
#print axioms eightChar_congr
#print axioms dayDiShi_uses_sect

end Model
