/-
Proofs.FnSYearObj — LunarYear / LunarMonth accessors (string-mode generated code = model; split from the worker's FnS4; helper prefix `s4_`).
-/
import Proofs.FnSBase
import Model.TaoFoto
import Model.Fmt
import Model.CivilFest

namespace FnSEq
open Gen.Fn (Err)

/-! ### 1. LunarYear accessors -/
section LunarYear
variable (ly : Gen.FnS.LunarYear)

theorem lunarYearGetGan_eq (h0 : -1 ≤ ly.ganIndex) (h1 : ly.ganIndex < 10) :
    Gen.FnS.calendar_LunarYear_GetGan ly = .ok (Model.ganStr ly.ganIndex) := by
  unfold Gen.FnS.calendar_LunarYear_GetGan; rw [sidx_GAN _ h0 h1]
theorem lunarYearGetGan_panic (h : ly.ganIndex < -1 ∨ 10 ≤ ly.ganIndex) :
    Gen.FnS.calendar_LunarYear_GetGan ly = .error .panic := by
  unfold Gen.FnS.calendar_LunarYear_GetGan; rw [sidx_GAN_panic _ h]
theorem lunarYearGetZhi_eq (h0 : -1 ≤ ly.zhiIndex) (h1 : ly.zhiIndex < 12) :
    Gen.FnS.calendar_LunarYear_GetZhi ly = .ok (Model.zhiStr ly.zhiIndex) := by
  unfold Gen.FnS.calendar_LunarYear_GetZhi; rw [sidx_ZHI _ h0 h1]
theorem lunarYearGetZhi_panic (h : ly.zhiIndex < -1 ∨ 12 ≤ ly.zhiIndex) :
    Gen.FnS.calendar_LunarYear_GetZhi ly = .error .panic := by
  unfold Gen.FnS.calendar_LunarYear_GetZhi; rw [sidx_ZHI_panic _ h]
theorem lunarYearGetGanZhi_eq (g0 : -1 ≤ ly.ganIndex) (g1 : ly.ganIndex < 10)
    (z0 : -1 ≤ ly.zhiIndex) (z1 : ly.zhiIndex < 12) :
    Gen.FnS.calendar_LunarYear_GetGanZhi ly = .ok (Model.EightChar.pillarStr ly.ganIndex ly.zhiIndex) := by
  unfold Gen.FnS.calendar_LunarYear_GetGanZhi
  rw [lunarYearGetGan_eq ly g0 g1, lunarYearGetZhi_eq ly z0 z1]; rfl
theorem lunarYearGetGanZhi_panic (h : ly.ganIndex < -1 ∨ 10 ≤ ly.ganIndex ∨ ly.zhiIndex < -1 ∨ 12 ≤ ly.zhiIndex) :
    Gen.FnS.calendar_LunarYear_GetGanZhi ly = .error .panic := by
  unfold Gen.FnS.calendar_LunarYear_GetGanZhi
  by_cases hg : ly.ganIndex < -1 ∨ 10 ≤ ly.ganIndex
  · rw [lunarYearGetGan_panic ly hg]; rfl
  · rw [lunarYearGetGan_eq ly (by omega) (by omega), lunarYearGetZhi_panic ly (by omega)]; rfl

@[simp] theorem lunarYearGetYear_eq : Gen.FnS.calendar_LunarYear_GetYear ly = .ok ly.year := rfl
@[simp] theorem lunarYearGetGanIndex_eq : Gen.FnS.calendar_LunarYear_GetGanIndex ly = .ok ly.ganIndex := rfl
@[simp] theorem lunarYearGetZhiIndex_eq : Gen.FnS.calendar_LunarYear_GetZhiIndex ly = .ok ly.zhiIndex := rfl

theorem s4_len_XI : Gen.Tables.LunarUtil.«POSITION_XI».length = 11 := by decide
theorem s4_len_YANG : Gen.Tables.LunarUtil.«POSITION_YANG_GUI».length = 11 := by decide
theorem s4_len_YIN : Gen.Tables.LunarUtil.«POSITION_YIN_GUI».length = 11 := by decide
theorem s4_len_FU : Gen.Tables.LunarUtil.«POSITION_FU».length = 11 := by decide
theorem s4_len_FU2 : Gen.Tables.LunarUtil.«POSITION_FU_2».length = 11 := by decide
theorem s4_len_CAI : Gen.Tables.LunarUtil.«POSITION_CAI».length = 11 := by decide
theorem s4_len_TAISUI : Gen.Tables.LunarUtil.«POSITION_TAI_SUI_YEAR».length = 12 := by decide

theorem lunarYearGetPositionXi_eq (h0 : -1 ≤ ly.ganIndex) (h1 : ly.ganIndex < 10) :
    Gen.FnS.calendar_LunarYear_GetPositionXi ly = .ok (Model.positionXi ly.ganIndex) := by
  unfold Gen.FnS.calendar_LunarYear_GetPositionXi Model.positionXi
  rw [sidx_eq_strGetD _ _ (by omega) (by rw [s4_len_XI]; omega)]
theorem lunarYearGetPositionXi_panic (h : ly.ganIndex < -1 ∨ 10 ≤ ly.ganIndex) :
    Gen.FnS.calendar_LunarYear_GetPositionXi ly = .error .panic := by
  unfold Gen.FnS.calendar_LunarYear_GetPositionXi
  rw [sidx_panic _ _ (by rw [s4_len_XI]; omega)]
theorem lunarYearGetPositionXiDesc_eq (h0 : -1 ≤ ly.ganIndex) (h1 : ly.ganIndex < 10) :
    Gen.FnS.calendar_LunarYear_GetPositionXiDesc ly = .ok (Model.positionDesc (Model.positionXi ly.ganIndex)) := by
  unfold Gen.FnS.calendar_LunarYear_GetPositionXiDesc Model.positionDesc
  rw [lunarYearGetPositionXi_eq ly h0 h1, ← mlookupS_eq_lookupStr]; rfl

theorem lunarYearGetPositionYangGui_eq (h0 : -1 ≤ ly.ganIndex) (h1 : ly.ganIndex < 10) :
    Gen.FnS.calendar_LunarYear_GetPositionYangGui ly = .ok (Model.positionYangGui ly.ganIndex) := by
  unfold Gen.FnS.calendar_LunarYear_GetPositionYangGui Model.positionYangGui
  rw [sidx_eq_strGetD _ _ (by omega) (by rw [s4_len_YANG]; omega)]
theorem lunarYearGetPositionYangGui_panic (h : ly.ganIndex < -1 ∨ 10 ≤ ly.ganIndex) :
    Gen.FnS.calendar_LunarYear_GetPositionYangGui ly = .error .panic := by
  unfold Gen.FnS.calendar_LunarYear_GetPositionYangGui
  rw [sidx_panic _ _ (by rw [s4_len_YANG]; omega)]
theorem lunarYearGetPositionYangGuiDesc_eq (h0 : -1 ≤ ly.ganIndex) (h1 : ly.ganIndex < 10) :
    Gen.FnS.calendar_LunarYear_GetPositionYangGuiDesc ly
      = .ok (Model.positionDesc (Model.positionYangGui ly.ganIndex)) := by
  unfold Gen.FnS.calendar_LunarYear_GetPositionYangGuiDesc Model.positionDesc
  rw [lunarYearGetPositionYangGui_eq ly h0 h1, ← mlookupS_eq_lookupStr]; rfl

theorem lunarYearGetPositionYinGui_eq (h0 : -1 ≤ ly.ganIndex) (h1 : ly.ganIndex < 10) :
    Gen.FnS.calendar_LunarYear_GetPositionYinGui ly = .ok (Model.positionYinGui ly.ganIndex) := by
  unfold Gen.FnS.calendar_LunarYear_GetPositionYinGui Model.positionYinGui
  rw [sidx_eq_strGetD _ _ (by omega) (by rw [s4_len_YIN]; omega)]
theorem lunarYearGetPositionYinGui_panic (h : ly.ganIndex < -1 ∨ 10 ≤ ly.ganIndex) :
    Gen.FnS.calendar_LunarYear_GetPositionYinGui ly = .error .panic := by
  unfold Gen.FnS.calendar_LunarYear_GetPositionYinGui
  rw [sidx_panic _ _ (by rw [s4_len_YIN]; omega)]
theorem lunarYearGetPositionYinGuiDesc_eq (h0 : -1 ≤ ly.ganIndex) (h1 : ly.ganIndex < 10) :
    Gen.FnS.calendar_LunarYear_GetPositionYinGuiDesc ly
      = .ok (Model.positionDesc (Model.positionYinGui ly.ganIndex)) := by
  unfold Gen.FnS.calendar_LunarYear_GetPositionYinGuiDesc Model.positionDesc
  rw [lunarYearGetPositionYinGui_eq ly h0 h1, ← mlookupS_eq_lookupStr]; rfl

theorem lunarYearGetPositionCai_eq (h0 : -1 ≤ ly.ganIndex) (h1 : ly.ganIndex < 10) :
    Gen.FnS.calendar_LunarYear_GetPositionCai ly = .ok (Model.positionCai ly.ganIndex) := by
  unfold Gen.FnS.calendar_LunarYear_GetPositionCai Model.positionCai
  rw [sidx_eq_strGetD _ _ (by omega) (by rw [s4_len_CAI]; omega)]
theorem lunarYearGetPositionCai_panic (h : ly.ganIndex < -1 ∨ 10 ≤ ly.ganIndex) :
    Gen.FnS.calendar_LunarYear_GetPositionCai ly = .error .panic := by
  unfold Gen.FnS.calendar_LunarYear_GetPositionCai
  rw [sidx_panic _ _ (by rw [s4_len_CAI]; omega)]
theorem lunarYearGetPositionCaiDesc_eq (h0 : -1 ≤ ly.ganIndex) (h1 : ly.ganIndex < 10) :
    Gen.FnS.calendar_LunarYear_GetPositionCaiDesc ly = .ok (Model.positionDesc (Model.positionCai ly.ganIndex)) := by
  unfold Gen.FnS.calendar_LunarYear_GetPositionCaiDesc Model.positionDesc
  rw [lunarYearGetPositionCai_eq ly h0 h1, ← mlookupS_eq_lookupStr]; rfl

theorem lunarYearGetPositionFuBySect_eq (sect : Int) (h0 : -1 ≤ ly.ganIndex) (h1 : ly.ganIndex < 10) :
    Gen.FnS.calendar_LunarYear_GetPositionFuBySect ly sect = .ok (Model.positionFu ly.ganIndex sect) := by
  unfold Gen.FnS.calendar_LunarYear_GetPositionFuBySect Model.positionFu
  by_cases hs : sect = 1
  · subst hs
    simp only [decide_true, if_true]
    rw [sidx_eq_strGetD _ _ (by omega) (by rw [s4_len_FU]; omega)]
  · have hs' : ¬ (1 = sect) := fun h => hs h.symm
    simp only [hs, hs', decide_false, if_false, Bool.false_eq_true]
    rw [sidx_eq_strGetD _ _ (by omega) (by rw [s4_len_FU2]; omega)]
theorem lunarYearGetPositionFuBySect_panic (sect : Int) (h : ly.ganIndex < -1 ∨ 10 ≤ ly.ganIndex) :
    Gen.FnS.calendar_LunarYear_GetPositionFuBySect ly sect = .error .panic := by
  unfold Gen.FnS.calendar_LunarYear_GetPositionFuBySect
  by_cases hs : sect = 1
  · subst hs
    simp only [decide_true, if_true]
    rw [sidx_panic _ _ (by rw [s4_len_FU]; omega)]
  · have hs' : ¬ (1 = sect) := fun h => hs h.symm
    simp only [hs', decide_false, if_false, Bool.false_eq_true]
    rw [sidx_panic _ _ (by rw [s4_len_FU2]; omega)]
theorem lunarYearGetPositionFu_eq (h0 : -1 ≤ ly.ganIndex) (h1 : ly.ganIndex < 10) :
    Gen.FnS.calendar_LunarYear_GetPositionFu ly = .ok (Model.positionFu ly.ganIndex 2) := by
  unfold Gen.FnS.calendar_LunarYear_GetPositionFu
  rw [lunarYearGetPositionFuBySect_eq ly 2 h0 h1]
theorem lunarYearGetPositionFuDescBySect_eq (sect : Int) (h0 : -1 ≤ ly.ganIndex) (h1 : ly.ganIndex < 10) :
    Gen.FnS.calendar_LunarYear_GetPositionFuDescBySect ly sect
      = .ok (Model.positionDesc (Model.positionFu ly.ganIndex sect)) := by
  unfold Gen.FnS.calendar_LunarYear_GetPositionFuDescBySect Model.positionDesc
  rw [lunarYearGetPositionFuBySect_eq ly sect h0 h1, ← mlookupS_eq_lookupStr]; rfl
theorem lunarYearGetPositionFuDesc_eq (h0 : -1 ≤ ly.ganIndex) (h1 : ly.ganIndex < 10) :
    Gen.FnS.calendar_LunarYear_GetPositionFuDesc ly = .ok (Model.positionDesc (Model.positionFu ly.ganIndex 2)) := by
  unfold Gen.FnS.calendar_LunarYear_GetPositionFuDesc
  rw [lunarYearGetPositionFuDescBySect_eq ly 2 h0 h1]

/-- NB the Tai Sui table has no leading "" entry: the index is `zhiIndex` itself, range 0..11 -/
theorem lunarYearGetPositionTaiSui_eq (h0 : 0 ≤ ly.zhiIndex) (h1 : ly.zhiIndex < 12) :
    Gen.FnS.calendar_LunarYear_GetPositionTaiSui ly = .ok (Model.positionTaiSuiYear ly.zhiIndex) := by
  unfold Gen.FnS.calendar_LunarYear_GetPositionTaiSui Model.positionTaiSuiYear
  rw [sidx_eq_strGetD _ _ h0 (by rw [s4_len_TAISUI]; omega)]
theorem lunarYearGetPositionTaiSui_panic (h : ly.zhiIndex < 0 ∨ 12 ≤ ly.zhiIndex) :
    Gen.FnS.calendar_LunarYear_GetPositionTaiSui ly = .error .panic := by
  unfold Gen.FnS.calendar_LunarYear_GetPositionTaiSui
  rw [sidx_panic _ _ (by rw [s4_len_TAISUI]; omega)]
theorem lunarYearGetPositionTaiSuiDesc_eq (h0 : 0 ≤ ly.zhiIndex) (h1 : ly.zhiIndex < 12) :
    Gen.FnS.calendar_LunarYear_GetPositionTaiSuiDesc ly
      = .ok (Model.positionDesc (Model.positionTaiSuiYear ly.zhiIndex)) := by
  unfold Gen.FnS.calendar_LunarYear_GetPositionTaiSuiDesc Model.positionDesc
  rw [lunarYearGetPositionTaiSui_eq ly h0 h1, ← mlookupS_eq_lookupStr]; rfl
end LunarYear

/-! ### 1b. LunarMonth accessors (only `GetZhi` and the int getters are translated) -/
section LunarMonth
variable (lm : Gen.FnS.LunarMonth)
theorem lunarMonthGetZhi_eq (h0 : -1 ≤ lm.zhiIndex) (h1 : lm.zhiIndex < 12) :
    Gen.FnS.calendar_LunarMonth_GetZhi lm = .ok (Model.zhiStr lm.zhiIndex) := by
  unfold Gen.FnS.calendar_LunarMonth_GetZhi; rw [sidx_ZHI _ h0 h1]
theorem lunarMonthGetZhi_panic (h : lm.zhiIndex < -1 ∨ 12 ≤ lm.zhiIndex) :
    Gen.FnS.calendar_LunarMonth_GetZhi lm = .error .panic := by
  unfold Gen.FnS.calendar_LunarMonth_GetZhi; rw [sidx_ZHI_panic _ h]
@[simp] theorem lunarMonthGetYear_eq : Gen.FnS.calendar_LunarMonth_GetYear lm = .ok lm.year := rfl
@[simp] theorem lunarMonthGetMonth_eq : Gen.FnS.calendar_LunarMonth_GetMonth lm = .ok lm.month := rfl
@[simp] theorem lunarMonthGetDayCount_eq : Gen.FnS.calendar_LunarMonth_GetDayCount lm = .ok lm.dayCount := rfl
@[simp] theorem lunarMonthGetIndex_eq : Gen.FnS.calendar_LunarMonth_GetIndex lm = .ok lm.index := rfl
@[simp] theorem lunarMonthGetZhiIndex_eq : Gen.FnS.calendar_LunarMonth_GetZhiIndex lm = .ok lm.zhiIndex := rfl
@[simp] theorem lunarMonthIsLeap_eq : Gen.FnS.calendar_LunarMonth_IsLeap lm = .ok (decide (lm.month < 0)) := rfl
end LunarMonth


end FnSEq
