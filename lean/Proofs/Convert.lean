/-
Proofs.Convert — the civil ↔ lunar conversions over an arbitrary well-formed oracle.
-/
import Proofs.WFDefs
import Proofs.CivilArith
set_option linter.unusedVariables false
namespace Model

/-! ## civil helpers (no lower bound on the year) -/

theorem daysBetween_eq_all (ay am ad by_ bm bd : Int) (ha : validYmd ay am ad = true) (hb : validYmd by_ bm bd = true) :
    daysBetween ay am ad by_ bm bd = some (jdn by_ bm bd - jdn ay am ad) := by
  unfold daysBetween
  rw [daysInYear_eq ay am ad ha, daysInYear_eq by_ bm bd hb]
  simp only
  by_cases he : ay = by_
  · subst he
    simp only [if_true]
    congr 1; omega
  · simp only [he, if_false]
    by_cases hgt : ay > by_
    · simp only [hgt, if_true]
      rw [yearsLoop_eq]
      have := jdn_year_len_all by_
      rw [show by_ + 1 + ((ay - by_ - 1).toNat : Int) = ay by omega]
      congr 1; omega
    · simp only [hgt, if_false]
      rw [yearsLoop_eq]
      have := jdn_year_len_all ay
      rw [show ay + 1 + ((by_ - ay - 1).toNat : Int) = by_ by omega]
      congr 1; omega

theorem subtract_eq_all (s o : Solar) (hs : s.valid = true) (ho : o.valid = true) :
    s.subtract o = some (s.jdn - o.jdn) := by
  unfold Solar.subtract Solar.jdn
  exact daysBetween_eq_all _ _ _ _ _ _ (valid_parts o ho).1 (valid_parts s hs).1

def fromJdnOkAt (n : Int) : Bool :=
  validYmd (fromJdn n).1 (fromJdn n).2.1 (fromJdn n).2.2 &&
    (jdn (fromJdn n).1 (fromJdn n).2.1 (fromJdn n).2.2 == n)

def lowChk : Nat → Bool
  | 0 => true
  | k + 1 => fromJdnOkAt (1721000 + (k : Int)) && lowChk k

theorem lowChk_ok : lowChk 424 = true := by decide +kernel

theorem lowChk_spec : ∀ k, lowChk k = true → ∀ j, j < k → fromJdnOkAt (1721000 + (j : Int)) = true := by
  intro k
  induction k with
  | zero => intro _ j hj; omega
  | succ k ih =>
    intro h j hj
    simp only [lowChk, Bool.and_eq_true] at h
    by_cases e : j = k
    · subst e; exact h.1
    · exact ih h.2 j (by omega)

/-- `jdn_fromJdn` extended down to day number 1721000 (the oracle's lower bound on month starts) -/
theorem jdn_fromJdn_ext (n : Int) (h : 1721000 ≤ n) :
    validYmd (fromJdn n).1 (fromJdn n).2.1 (fromJdn n).2.2 = true ∧
    jdn (fromJdn n).1 (fromJdn n).2.1 (fromJdn n).2.2 = n := by
  by_cases c : 1721424 ≤ n
  · have := jdn_fromJdn n c
    exact ⟨this.1, this.2.2⟩
  · have hk := lowChk_spec 424 lowChk_ok (n - 1721000).toNat (by omega)
    rw [show (1721000 : Int) + ((n - 1721000).toNat : Int) = n by omega] at hk
    unfold fromJdnOkAt at hk
    simp only [Bool.and_eq_true, beq_iff_eq] at hk
    exact hk

theorem solarOfJdn_spec (n : Int) (h : 1721000 ≤ n) :
    (solarOfJdn n).valid = true ∧ (solarOfJdn n).jdn = n := by
  obtain ⟨h1, h2⟩ := jdn_fromJdn_ext n h
  refine ⟨?_, h2⟩
  show (validYmd (fromJdn n).1 (fromJdn n).2.1 (fromJdn n).2.2 && validHms 12 0 0) = true
  rw [h1]; rfl

/-- a valid date is the date of its own day number (given the day number is ≥ 1721000) -/
theorem solarOfJdn_jdn (s : Solar) (hv : s.valid = true) (h : 1721000 ≤ s.jdn) :
    (solarOfJdn s.jdn).year = s.year ∧ (solarOfJdn s.jdn).month = s.month ∧ (solarOfJdn s.jdn).day = s.day := by
  obtain ⟨h1, h2⟩ := jdn_fromJdn_ext s.jdn h
  exact jdn_inj_all _ _ _ _ _ _ h1 (valid_parts s hv).1 h2

theorem jdn_dec31 (y : Int) : jdn y 12 31 + 1 = jdn (y + 1) 1 1 := by
  simp [jdn_eq_step]
  repeat' split
  all_goals omega

/-- a valid date lies inside its civil year -/
theorem jdn_year_bounds (y m d : Int) (hv : validYmd y m d = true) :
    jdn y 1 1 ≤ jdn y m d ∧ jdn y m d ≤ jdn y 12 31 := by
  obtain ⟨a1, a2⟩ := jdn_in_month y m d hv
  obtain ⟨hm1, hm, _, _, _⟩ := (validYmd_iff_step y m d).1 hv
  have e1 := monthStart_le y 1 m (by omega) hm1 hm
  have e2 := monthEnd_le_yearEnd y m hm1 hm
  have e3 := jdn_dec31 y
  omega

/-! ## structure of one month table -/

/-- the adjacency relation checked by `monthsCoreOk` -/
def chainF (a b : MonthRec) : Bool := b.first == a.first + a.dayCount && decide (a.year ≤ b.year)

/-- Prop form of `monthsCoreOk` -/
structure CoreP (y : Int) (ms : List MonthRec) : Prop where
  len : ms.length = 15
  recs : ∀ r ∈ ms, 28 ≤ r.dayCount ∧ r.dayCount ≤ 30 ∧ (r.year = y - 1 ∨ r.year = y ∨ r.year = y + 1) ∧
    r.month ≠ 0 ∧ 1721000 ≤ r.first
  chain : allAdj chainF ms = true
  distinct : labelsDistinct ms = true
  ends : ∃ h l, ms.head? = some h ∧ ms.getLast? = some l ∧ h.first ≤ jdn y 1 1 ∧ jdn y 12 31 < l.first + l.dayCount

theorem coreP_of (y : Int) (ms : List MonthRec) (h : monthsCoreOk y ms = true) : CoreP y ms := by
  unfold monthsCoreOk at h
  simp only [Bool.and_eq_true, decide_eq_true_eq, List.all_eq_true, Bool.or_eq_true, beq_iff_eq, bne_iff_ne] at h
  obtain ⟨⟨⟨⟨h1, h2⟩, h3⟩, h4⟩, h5⟩ := h
  refine ⟨h1, ?_, h3, h4, ?_⟩
  · intro r hr
    have := h2 r hr
    refine ⟨by omega, by omega, ?_, this.1.1.1.1.1.2, by omega⟩
    rcases this.1.1.1.1.1.1.2 with (e | e) | e
    · exact Or.inl e
    · exact Or.inr (Or.inl e)
    · exact Or.inr (Or.inr e)
  · revert h5
    cases ms.head? <;> cases ms.getLast? <;> simp

theorem coreP_year (A : Astro) (lo hi : Int) (h : AstroOK A lo hi) (y : Int) (hlo : lo ≤ y) (hhi : y ≤ hi) :
    CoreP y (A y).months := by
  have := h.year y hlo hhi
  unfold yearOk at this
  simp only [Bool.and_eq_true] at this
  exact coreP_of _ _ this.1.1.1

theorem chainF_iff (a b : MonthRec) : chainF a b = true ↔ (b.first = a.first + a.dayCount ∧ a.year ≤ b.year) := by
  unfold chainF
  simp only [Bool.and_eq_true, beq_iff_eq, decide_eq_true_eq]

/-- a chain with positive month lengths is sorted: later months start after earlier ones end, label years do not decrease -/
theorem chain_pairwise : ∀ (ms : List MonthRec), allAdj chainF ms = true → (∀ r ∈ ms, 1 ≤ r.dayCount) →
    ms.Pairwise (fun a b => a.first + a.dayCount ≤ b.first ∧ a.year ≤ b.year)
  | [], _, _ => List.Pairwise.nil
  | [a], _, _ => by simp
  | a :: b :: rest, hc, hp => by
    simp only [allAdj, Bool.and_eq_true] at hc
    have ih := chain_pairwise (b :: rest) hc.2 (fun r hr => hp r (List.mem_cons_of_mem _ hr))
    have hab := (chainF_iff a b).1 hc.1
    have hb := hp b (by simp)
    rw [List.pairwise_cons] at ih ⊢
    refine ⟨?_, List.pairwise_cons.2 ih⟩
    intro c hcm
    rcases List.mem_cons.1 hcm with rfl | hcm
    · omega
    · have := ih.1 c hcm
      omega

/-- at most one record of a sorted table contains a given day -/
theorem pairwise_unique (n : Int) : ∀ (ms : List MonthRec),
    ms.Pairwise (fun a b => a.first + a.dayCount ≤ b.first ∧ a.year ≤ b.year) →
    ∀ r q, r ∈ ms → q ∈ ms → r.first ≤ n → n < r.first + r.dayCount → q.first ≤ n → n < q.first + q.dayCount → r = q
  | [], _, r, q, hr, _, _, _, _, _ => by simp at hr
  | a :: rest, hp, r, q, hr, hq, r1, r2, q1, q2 => by
    rw [List.pairwise_cons] at hp
    rcases List.mem_cons.1 hr with rfl | hr'
    · rcases List.mem_cons.1 hq with rfl | hq
      · rfl
      · have := hp.1 q hq; omega
    · clear hr
      rcases List.mem_cons.1 hq with rfl | hq
      · have := hp.1 r hr'; omega
      · exact pairwise_unique n rest hp.2 r q hr' hq r1 r2 q1 q2

/-- order of two records of a sorted table is decided by their first days -/
theorem pairwise_lt : ∀ (ms : List MonthRec),
    ms.Pairwise (fun a b => a.first + a.dayCount ≤ b.first ∧ a.year ≤ b.year) → (∀ r ∈ ms, 1 ≤ r.dayCount) →
    ∀ r q, r ∈ ms → q ∈ ms → r.first < q.first → r.first + r.dayCount ≤ q.first ∧ r.year ≤ q.year
  | [], _, _, r, q, hr, _, _ => by simp at hr
  | a :: rest, hp, hd, r, q, hr, hq, hlt => by
    rw [List.pairwise_cons] at hp
    rcases List.mem_cons.1 hr with rfl | hr'
    · rcases List.mem_cons.1 hq with rfl | hq
      · omega
      · exact hp.1 q hq
    · clear hr
      rcases List.mem_cons.1 hq with rfl | hq
      · have := hp.1 r hr'
        have := hd q (by simp)
        omega
      · exact pairwise_lt rest hp.2 (fun x hx => hd x (List.mem_cons_of_mem _ hx)) r q hr' hq hlt

/-- every record of a chain of `k` months of at most 30 days lies within `30 k` days of the first one -/
theorem chain_span : ∀ (ms : List MonthRec) (h : MonthRec), allAdj chainF ms = true → ms.head? = some h →
    (∀ r ∈ ms, 1 ≤ r.dayCount ∧ r.dayCount ≤ 30) →
    ∀ r ∈ ms, h.first ≤ r.first ∧ r.first + r.dayCount ≤ h.first + 30 * (ms.length : Int)
  | [], h, _, hh, _, r, hr => by simp at hr
  | [a], h, _, hh, hd, r, hr => by
    simp at hh hr
    subst hh hr
    have := hd r (by simp)
    simp; omega
  | a :: b :: rest, h, hc, hh, hd, r, hr => by
    simp only [allAdj, Bool.and_eq_true] at hc
    simp only [List.head?_cons, Option.some.injEq] at hh
    subst hh
    have hab := (chainF_iff a b).1 hc.1
    have ha := hd a (by simp)
    rcases List.mem_cons.1 hr with rfl | hr
    · simp only [List.length_cons]; omega
    · have := chain_span (b :: rest) b hc.2 rfl (fun x hx => hd x (List.mem_cons_of_mem _ hx)) r hr
      simp only [List.length_cons] at this ⊢
      omega

/-! ## the month search of `fromSolar` -/

theorem findLunarYmd_cons (s : Solar) (hv : s.valid = true) (m : MonthRec) (rest : List MonthRec)
    (hf : 1721000 ≤ m.first) :
    findLunarYmd s (m :: rest) =
      if s.jdn - m.first < m.dayCount then some (m.year, m.month, s.jdn - m.first + 1) else findLunarYmd s rest := by
  obtain ⟨o1, o2⟩ := solarOfJdn_spec m.first hf
  simp only [findLunarYmd]
  rw [subtract_eq_all s _ hv o1, o2]

theorem find_spec (s : Solar) (hv : s.valid = true) : ∀ (ms : List MonthRec) (h l : MonthRec),
    allAdj chainF ms = true → (∀ r ∈ ms, 1721000 ≤ r.first) → ms.head? = some h → ms.getLast? = some l →
    h.first ≤ s.jdn → s.jdn < l.first + l.dayCount →
    ∃ r, r ∈ ms ∧ r.first ≤ s.jdn ∧ s.jdn < r.first + r.dayCount ∧
      findLunarYmd s ms = some (r.year, r.month, s.jdn - r.first + 1)
  | [], h, l, _, _, hh, _, _, _ => by simp at hh
  | [a], h, l, hc, hf, hh, hl, h1, h2 => by
    simp at hh hl
    subst hh hl
    refine ⟨a, by simp, h1, h2, ?_⟩
    rw [findLunarYmd_cons s hv a [] (hf a (by simp))]
    have : s.jdn - a.first < a.dayCount := by omega
    simp only [this, if_true]
  | a :: b :: rest, h, l, hc, hf, hh, hl, h1, h2 => by
    simp only [allAdj, Bool.and_eq_true] at hc
    simp only [List.head?_cons, Option.some.injEq] at hh
    subst hh
    have hab := (chainF_iff a b).1 hc.1
    rw [findLunarYmd_cons s hv a _ (hf a (by simp))]
    by_cases c : s.jdn - a.first < a.dayCount
    · simp only [c, if_true]
      exact ⟨a, by simp, h1, by omega, rfl⟩
    · simp only [c, if_false]
      have hl' : (b :: rest).getLast? = some l := by
        rw [List.getLast?_cons_cons] at hl; exact hl
      obtain ⟨r, hr, e1, e2, e3⟩ := find_spec s hv (b :: rest) b l hc.2
        (fun x hx => hf x (List.mem_cons_of_mem _ hx)) rfl hl' (by omega) h2
      exact ⟨r, List.mem_cons_of_mem _ hr, e1, e2, e3⟩

/-! ## label lookups -/

theorem findMonth_some (ms : List MonthRec) (y m : Int) (q : MonthRec) (h : findMonth ms y m = some q) :
    q ∈ ms ∧ q.year = y ∧ q.month = m := by
  unfold findMonth at h
  have h1 := List.mem_of_find?_eq_some h
  have h2 := List.find?_some h
  simp only [Bool.and_eq_true, beq_iff_eq] at h2
  exact ⟨h1, h2.1, h2.2⟩

theorem findMonth_self : ∀ (ms : List MonthRec), labelsDistinct ms = true → ∀ r ∈ ms, findMonth ms r.year r.month = some r
  | [], _, r, hr => by simp at hr
  | a :: rest, hd, r, hr => by
    simp only [labelsDistinct, Bool.and_eq_true, List.all_eq_true, Bool.not_eq_true', Bool.and_eq_false_iff,
      beq_eq_false_iff_ne] at hd
    unfold findMonth
    rw [List.find?_cons]
    rcases List.mem_cons.1 hr with rfl | hr'
    · simp
    · have hne := hd.1 r hr'
      have : (a.year == r.year && a.month == r.month) = false := by
        rw [Bool.and_eq_false_iff]
        rcases hne with e | e
        · exact Or.inl (by simp only [beq_eq_false_iff_ne]; exact fun x => e x.symm)
        · exact Or.inr (by simp only [beq_eq_false_iff_ne]; exact fun x => e x.symm)
      rw [this]
      exact findMonth_self rest hd.2 r hr'

theorem recordsAgree_spec (p : MonthRec → Bool) (Y : Int) (ms ms' : List MonthRec)
    (h : recordsAgree p Y ms ms' = true) (r : MonthRec) (hr : r ∈ ms) (hy : r.year = Y) (hp : p r = true) :
    ∃ q, findMonth ms' Y r.month = some q ∧ q.first = r.first ∧ q.dayCount = r.dayCount := by
  unfold recordsAgree at h
  rw [List.all_eq_true] at h
  have := h r hr
  simp only [Bool.or_eq_true, bne_iff_ne, Bool.not_eq_true'] at this
  rcases this with (e | e) | e
  · exact absurd hy e
  · rw [hp] at e; cases e
  · revert e
    cases findMonth ms' Y r.month with
    | none => simp
    | some q =>
      simp only [Bool.and_eq_true, beq_iff_eq]
      intro e
      exact ⟨q, rfl, e.1, e.2⟩

/-! ## `fromSolar` -/

theorem computeAll_proj (y m d h mi s : Int) (sol : Solar) (ya : YearAstro) :
    (computeAll y m d h mi s sol ya).year = y ∧ (computeAll y m d h mi s sol ya).month = m ∧
    (computeAll y m d h mi s sol ya).day = d ∧ (computeAll y m d h mi s sol ya).hour = h ∧
    (computeAll y m d h mi s sol ya).minute = mi ∧ (computeAll y m d h mi s sol ya).second = s ∧
    (computeAll y m d h mi s sol ya).solar = sol := ⟨rfl, rfl, rfl, rfl, rfl, rfl, rfl⟩

theorem fromSolar_solar (A : Astro) (s : Solar) (l : Lunar) (h : Lunar.fromSolar A s = some l) : l.solar = s := by
  unfold Lunar.fromSolar at h
  simp only at h
  split at h
  · cases h
  · cases h; rfl

theorem valid_in_year (s : Solar) (hv : s.valid = true) :
    jdn s.year 1 1 ≤ s.jdn ∧ s.jdn ≤ jdn s.year 12 31 :=
  jdn_year_bounds _ _ _ (valid_parts s hv).1

/-- the conversion finds the record of the civil year's table that contains the day -/
theorem fromSolar_core (A : Astro) (s : Solar) (hv : s.valid = true) (hc : CoreP s.year (A s.year).months) :
    ∃ r, r ∈ (A s.year).months ∧ r.first ≤ s.jdn ∧ s.jdn < r.first + r.dayCount ∧
      Lunar.fromSolar A s =
        some (computeAll r.year r.month (s.jdn - r.first + 1) s.hour s.minute s.second s (A s.year)) := by
  obtain ⟨h, l, hh, hl, e1, e2⟩ := hc.ends
  obtain ⟨b1, b2⟩ := valid_in_year s hv
  obtain ⟨r, hr, r1, r2, r3⟩ := find_spec s hv (A s.year).months h l hc.chain (fun r hr => (hc.recs r hr).2.2.2.2) hh hl
    (by omega) (by omega)
  refine ⟨r, hr, r1, r2, ?_⟩
  unfold Lunar.fromSolar
  simp only [r3]

/-- every valid civil date in range converts, to the unique month record of its year's table that contains it -/
theorem fromSolar_spec (A : Astro) (lo hi : Int) (h : AstroOK A lo hi) (s : Solar) (hv : s.valid = true)
    (hy : 1 ≤ s.year) (hlo : lo ≤ s.year) (hhi : s.year ≤ hi) :
    ∃ l r, Lunar.fromSolar A s = some l ∧ r ∈ (A s.year).months ∧ l.year = r.year ∧ l.month = r.month ∧
      1 ≤ l.day ∧ l.day ≤ r.dayCount ∧ r.first + (l.day - 1) = s.jdn ∧ l.solar = s ∧
      l.hour = s.hour ∧ l.minute = s.minute ∧ l.second = s.second ∧ l.month ≠ 0 := by
  have hc := coreP_year A lo hi h s.year hlo hhi
  obtain ⟨r, hr, r1, r2, r3⟩ := fromSolar_core A s hv hc
  refine ⟨_, r, r3, hr, rfl, rfl, ?_, ?_, ?_, rfl, rfl, rfl, rfl, ?_⟩
  · show 1 ≤ s.jdn - r.first + 1
    omega
  · show s.jdn - r.first + 1 ≤ r.dayCount
    omega
  · show r.first + (s.jdn - r.first + 1 - 1) = s.jdn
    omega
  · exact (hc.recs r hr).2.2.2.1

/-! ## adjacent tables -/

/-- Prop form of the parts of `pairOk` the conversions use -/
structure PairP (y : Int) (ms ms' : List MonthRec) : Prop where
  fwd : ∀ r ∈ ms, r.year = y + 1 → overlapsCivil y r = true →
    ∃ q, findMonth ms' (y + 1) r.month = some q ∧ q.first = r.first ∧ q.dayCount = r.dayCount
  bwd : ∀ r ∈ ms', r.year = y → overlapsCivil (y + 1) r = true →
    ∃ q, findMonth ms y r.month = some q ∧ q.first = r.first ∧ q.dayCount = r.dayCount
  img1 : ∀ r ∈ ms, r.year = y → overlapsCivil (y + 1) r = true →
    ∃ q, findMonth ms' y r.month = some q ∧ q.first = r.first ∧ q.dayCount = r.dayCount
  img2 : ∀ r ∈ ms', r.year = y + 1 → overlapsCivil y r = true →
    ∃ q, findMonth ms (y + 1) r.month = some q ∧ q.first = r.first ∧ q.dayCount = r.dayCount

theorem pairP_of (y : Int) (ya ya' : YearAstro) (h : pairOk y ya ya' = true) : PairP y ya.months ya'.months := by
  unfold pairOk pairImageOk at h
  simp only [Bool.and_eq_true] at h
  obtain ⟨⟨h1, h2, h3⟩, _⟩ := h
  refine ⟨?_, ?_, fun r hr e o => recordsAgree_spec _ _ _ _ h2 r hr e o, fun r hr e o => recordsAgree_spec _ _ _ _ h3 r hr e o⟩
  · intro r hr e o
    split at h1
    · simp only [Bool.and_eq_true] at h1
      exact recordsAgree_spec _ _ _ _ h1.1 r hr e o
    · unfold pairStructOk at h1
      simp only [Bool.and_eq_true] at h1
      exact recordsAgree_spec _ _ _ _ h1.1.1.1.1 r hr e rfl
  · intro r hr e o
    split at h1
    · simp only [Bool.and_eq_true] at h1
      exact recordsAgree_spec _ _ _ _ h1.2 r hr e o
    · unfold pairStructOk at h1
      simp only [Bool.and_eq_true] at h1
      exact recordsAgree_spec _ _ _ _ h1.1.1.1.2 r hr e rfl

theorem pairP_year (A : Astro) (lo hi : Int) (h : AstroOK A lo hi) (y : Int) (hlo : lo ≤ y) (hhi : y < hi) :
    PairP y (A y).months (A (y + 1)).months := pairP_of _ _ _ (h.pair y hlo hhi)

theorem pairP_pred (A : Astro) (lo hi : Int) (h : AstroOK A lo hi) (y : Int) (hlo : lo ≤ y - 1) (hhi : y ≤ hi) :
    (∀ r ∈ (A y).months, r.year = y - 1 → overlapsCivil y r = true →
      ∃ q, findMonth (A (y - 1)).months (y - 1) r.month = some q ∧ q.first = r.first ∧ q.dayCount = r.dayCount) ∧
    (∀ r ∈ (A y).months, r.year = y → overlapsCivil (y - 1) r = true →
      ∃ q, findMonth (A (y - 1)).months y r.month = some q ∧ q.first = r.first ∧ q.dayCount = r.dayCount) := by
  have hp := pairP_year A lo hi h (y - 1) hlo (by omega)
  have e1 : y - 1 + 1 = y := by omega
  constructor
  · intro r hr e o
    exact hp.bwd r (by rw [e1]; exact hr) e (by rw [e1]; exact o)
  · intro r hr e o
    have := hp.img2 r (by rw [e1]; exact hr) (by rw [e1]; exact e) o
    rw [e1] at this
    exact this

theorem overlaps_of_contains (s : Solar) (hv : s.valid = true) (r : MonthRec)
    (r1 : r.first ≤ s.jdn) (r2 : s.jdn < r.first + r.dayCount) : overlapsCivil s.year r = true := by
  obtain ⟨b1, b2⟩ := valid_in_year s hv
  unfold overlapsCivil
  simp only [Bool.and_eq_true, decide_eq_true_eq]
  omega

/-- a month of table `y` that holds a day of civil year `y` is found, with the same days, in the table of
its own label year -/
theorem canon (A : Astro) (lo hi : Int) (h : AstroOK A lo hi) (y : Int) (hlo : lo ≤ y) (hhi : y ≤ hi)
    (r : MonthRec) (hr : r ∈ (A y).months) (ho : overlapsCivil y r = true) (hlo' : lo ≤ r.year) (hhi' : r.year ≤ hi) :
    ∃ q, findMonth (A r.year).months r.year r.month = some q ∧ q.first = r.first ∧ q.dayCount = r.dayCount := by
  have hc := coreP_year A lo hi h y hlo hhi
  rcases (hc.recs r hr).2.2.1 with e | e | e
  · have := (pairP_pred A lo hi h y (by omega) hhi).1 r hr e ho
    rw [e]; exact this
  · have := findMonth_self _ hc.distinct r hr
    rw [e] at this ⊢
    exact ⟨r, this, rfl, rfl⟩
  · have hp := pairP_year A lo hi h y hlo (by omega)
    have := hp.fwd r hr e ho
    rw [e]; exact this

/-- a month of table `L` labelled `L` that holds a day of civil year `Y` is found, with the same days, in table `Y` -/
theorem image (A : Astro) (lo hi : Int) (h : AstroOK A lo hi) (L Y : Int) (hL : lo ≤ L ∧ L ≤ hi) (hY : lo ≤ Y ∧ Y ≤ hi)
    (hYL : Y = L - 1 ∨ Y = L ∨ Y = L + 1) (m : MonthRec) (hm : m ∈ (A L).months) (hmy : m.year = L)
    (ho : overlapsCivil Y m = true) :
    ∃ q, findMonth (A Y).months L m.month = some q ∧ q.first = m.first ∧ q.dayCount = m.dayCount := by
  rcases hYL with e | e | e
  · subst e
    exact (pairP_pred A lo hi h L (by omega) hL.2).2 m hm hmy ho
  · subst e
    have hc := coreP_year A lo hi h Y hL.1 hL.2
    have := findMonth_self _ hc.distinct m hm
    rw [hmy] at this
    exact ⟨m, this, rfl, rfl⟩
  · subst e
    have hp := pairP_year A lo hi h L (by omega) (by omega)
    exact hp.img1 m hm hmy ho

/-! ## `fromYmdHms` -/

theorem newSolar_inv (y m d h mi s : Int) (sol : Solar) (e : newSolar y m d h mi s = some sol) :
    sol = ⟨y, m, d, h, mi, s⟩ ∧ validYmd y m d = true ∧ validHms h mi s = true := by
  unfold newSolar at e
  split at e
  · rename_i c
    rw [Bool.and_eq_true] at c
    cases e
    exact ⟨rfl, c.1, c.2⟩
  · cases e

theorem fromYmdHms_inv (A : Astro) (ly lm ld h mi s : Int) (l : Lunar)
    (hl : Lunar.fromYmdHms A ly lm ld h mi s = some l) :
    ∃ m sol, findMonth (A ly).months ly lm = some m ∧ 1 ≤ ld ∧ ld ≤ m.dayCount ∧
      newSolar (solarOfJdn (m.first + (ld - 1))).year (solarOfJdn (m.first + (ld - 1))).month
        (solarOfJdn (m.first + (ld - 1))).day h mi s = some sol ∧
      l = computeAll ly lm ld h mi s sol
        (if (solarOfJdn (m.first + (ld - 1))).year ≠ ly then A (solarOfJdn (m.first + (ld - 1))).year else A ly) := by
  unfold Lunar.fromYmdHms at hl
  simp only at hl
  split at hl
  · cases hl
  · rename_i m hm
    split at hl
    · cases hl
    · split at hl
      · cases hl
      · split at hl
        · cases hl
        · rename_i sol hsol
          cases hl
          exact ⟨m, sol, hm, by omega, by omega, hsol, rfl⟩

theorem fromYmdHms_eq (A : Astro) (ly lm ld : Int) (m : MonthRec) (hm : findMonth (A ly).months ly lm = some m)
    (h1 : 1 ≤ ld) (h2 : ld ≤ m.dayCount) (hf : 1721000 ≤ m.first) (sol : Solar) (hsv : sol.valid = true)
    (hj : sol.jdn = m.first + (ld - 1)) :
    Lunar.fromYmdHms A ly lm ld sol.hour sol.minute sol.second =
      some (computeAll ly lm ld sol.hour sol.minute sol.second sol (A sol.year)) := by
  have hn : 1721000 ≤ sol.jdn := by omega
  obtain ⟨e1, e2, e3⟩ := solarOfJdn_jdn sol hsv hn
  rw [hj] at e1 e2 e3
  obtain ⟨n1, n2⟩ := newSolar_some sol.year sol.month sol.day sol.hour sol.minute sol.second
    (valid_parts sol hsv).1 (valid_parts sol hsv).2
  unfold Lunar.fromYmdHms
  simp only [hm]
  have c1 : ¬ ld < 1 := by omega
  have c2 : ¬ ld > m.dayCount := by omega
  simp only [c1, c2, if_false, e1, e2, e3, n1]
  congr 2
  split
  · rfl
  · rename_i c
    have : sol.year = ly := by
      false_or_by_contra
      rename_i c'
      exact c c'
    rw [this]

theorem fromYmd_fromSolar_gen (A : Astro) (lo hi : Int) (h : AstroOK A lo hi) (s : Solar) (hv : s.valid = true)
    (hs : lo ≤ s.year ∧ s.year ≤ hi) (l : Lunar) (hl : Lunar.fromSolar A s = some l)
    (hL : lo ≤ l.year ∧ l.year ≤ hi) :
    Lunar.fromYmdHms A l.year l.month l.day s.hour s.minute s.second = some l := by
  have hc := coreP_year A lo hi h s.year hs.1 hs.2
  obtain ⟨r, hr, r1, r2, r3⟩ := fromSolar_core A s hv hc
  rw [hl] at r3
  cases r3
  have hL' : lo ≤ r.year ∧ r.year ≤ hi := hL
  obtain ⟨q, q1, q2, q3⟩ := canon A lo hi h s.year hs.1 hs.2 r hr (overlaps_of_contains s hv r r1 r2) hL'.1 hL'.2
  have hrec := hc.recs r hr
  exact fromYmdHms_eq A r.year r.month (s.jdn - r.first + 1) q q1 (by omega) (by omega) (by omega) s hv (by omega)

/-- civil → lunar → rebuilt from (year, month, day, time) gives the SAME structure (path independence: every field, hence every getter) -/
theorem fromYmd_fromSolar (A : Astro) (lo hi : Int) (h : AstroOK A lo hi) (s : Solar) (hv : s.valid = true)
    (hy : 1 ≤ s.year) (hlo : lo < s.year) (hhi : s.year < hi) (l : Lunar) (hl : Lunar.fromSolar A s = some l) :
    Lunar.fromYmdHms A l.year l.month l.day s.hour s.minute s.second = some l := by
  have hc := coreP_year A lo hi h s.year (by omega) (by omega)
  obtain ⟨r, hr, r1, r2, r3⟩ := fromSolar_core A s hv hc
  have hrec := hc.recs r hr
  have e : l.year = r.year := by rw [hl] at r3; cases r3; rfl
  exact fromYmd_fromSolar_gen A lo hi h s hv ⟨by omega, by omega⟩ l hl (by rw [e]; omega)

/-- a day held by a month of table `ly` lies in civil year `ly - 1`, `ly` or `ly + 1` -/
theorem table_years (ly : Int) (ms : List MonthRec) (hc : CoreP ly ms) (m : MonthRec) (hm : m ∈ ms)
    (sol : Solar) (hv : sol.valid = true) (m1 : m.first ≤ sol.jdn) (m2 : sol.jdn < m.first + m.dayCount) :
    ly - 1 ≤ sol.year ∧ sol.year ≤ ly + 1 := by
  obtain ⟨h0, l0, hh, hl, e1, e2⟩ := hc.ends
  have hd : ∀ r ∈ ms, 1 ≤ r.dayCount ∧ r.dayCount ≤ 30 := fun r hr => by have := hc.recs r hr; omega
  have s1 := chain_span ms h0 hc.chain hh hd m hm
  have s2 := chain_span ms h0 hc.chain hh hd l0 (List.mem_of_getLast? hl)
  rw [hc.len] at s1 s2
  obtain ⟨b1, b2⟩ := valid_in_year sol hv
  have d1 := jdn_dec31 ly
  have d2 := jdn_dec31 sol.year
  constructor
  · false_or_by_contra
    rename_i c
    have y1 := yearStart_le (sol.year + 1) (ly - 1) (by omega)
    have y2 := yearStart_mono 2 (ly - 1)
    rw [show ly - 1 + ((2 : Nat) : Int) = ly + 1 by omega] at y2
    omega
  · false_or_by_contra
    rename_i c
    have y1 := yearStart_le (ly + 2) sol.year (by omega)
    have y2 := yearStart_mono 2 ly
    rw [show ly + ((2 : Nat) : Int) = ly + 2 by omega] at y2
    omega

theorem fromSolar_fromYmd_gen (A : Astro) (lo hi : Int) (h : AstroOK A lo hi) (ly lm ld hh mi ss : Int) (l : Lunar)
    (hlo : lo < ly) (hhi : ly < hi) (hl : Lunar.fromYmdHms A ly lm ld hh mi ss = some l) :
    l.solar.valid = true ∧ l.year = ly ∧ l.month = lm ∧ l.day = ld ∧
    l.hour = hh ∧ l.minute = mi ∧ l.second = ss ∧ Lunar.fromSolar A l.solar = some l ∧
    validHms hh mi ss = true ∧ ly - 1 ≤ l.solar.year ∧ l.solar.year ≤ ly + 1 := by
  obtain ⟨m, sol, hm, d1, d2, hsol, rfl⟩ := fromYmdHms_inv A ly lm ld hh mi ss l hl
  obtain ⟨mm, my, mmo⟩ := findMonth_some _ _ _ _ hm
  have hc := coreP_year A lo hi h ly (by omega) (by omega)
  have hrec := hc.recs m mm
  obtain ⟨o1, o2⟩ := solarOfJdn_spec (m.first + (ld - 1)) (by omega)
  obtain ⟨rfl, v1, v2⟩ := newSolar_inv _ _ _ _ _ _ _ hsol
  obtain ⟨_, sv⟩ := newSolar_some _ _ _ _ _ _ v1 v2
  generalize hsd : (Solar.mk (solarOfJdn (m.first + (ld - 1))).year (solarOfJdn (m.first + (ld - 1))).month
    (solarOfJdn (m.first + (ld - 1))).day hh mi ss) = sol at sv ⊢
  have ey : (solarOfJdn (m.first + (ld - 1))).year = sol.year := by rw [← hsd]
  have ej : sol.jdn = m.first + (ld - 1) := by rw [← hsd]; exact o2
  have eh : sol.hour = hh ∧ sol.minute = mi ∧ sol.second = ss := by rw [← hsd]; exact ⟨rfl, rfl, rfl⟩
  rw [ey]
  have hY := table_years ly _ hc m mm sol sv (by omega) (by omega)
  have hcY := coreP_year A lo hi h sol.year (by omega) (by omega)
  obtain ⟨q, q1, q2, q3⟩ := image A lo hi h ly sol.year ⟨by omega, by omega⟩ ⟨by omega, by omega⟩ (by omega) m mm my
    (overlaps_of_contains sol sv m (by omega) (by omega))
  obtain ⟨qm, qy, qmo⟩ := findMonth_some _ _ _ _ q1
  obtain ⟨r, hr, r1, r2, r3⟩ := fromSolar_core A sol sv hcY
  have hd : ∀ r ∈ (A sol.year).months, 1 ≤ r.dayCount := fun r hr => by have := hcY.recs r hr; omega
  have hrq : r = q := pairwise_unique sol.jdn _ (chain_pairwise _ hcY.chain hd) r q hr qm r1 r2 (by omega) (by omega)
  subst hrq
  have eA : (if sol.year ≠ ly then A sol.year else A ly) = A sol.year := by
    split
    · rfl
    · rename_i c
      have : sol.year = ly := by
        false_or_by_contra
        rename_i c'
        exact c c'
      rw [this]
  rw [eA]
  refine ⟨sv, rfl, rfl, rfl, rfl, rfl, rfl, ?_, v2, hY.1, hY.2⟩
  show Lunar.fromSolar A sol = _
  rw [r3, qy, qmo, mmo, eh.1, eh.2.1, eh.2.2]
  have : sol.jdn - r.first + 1 = ld := by omega
  rw [this]

/-- an accepted lunar triple denotes a civil day whose conversion returns it -/
theorem fromSolar_fromYmd (A : Astro) (lo hi : Int) (h : AstroOK A lo hi) (ly lm ld hh mi ss : Int) (l : Lunar)
    (hy : 2 ≤ ly) (hlo : lo < ly) (hhi : ly < hi) (hl : Lunar.fromYmdHms A ly lm ld hh mi ss = some l) :
    l.solar.valid = true ∧ l.year = ly ∧ l.month = lm ∧ l.day = ld ∧
    l.hour = hh ∧ l.minute = mi ∧ l.second = ss ∧ Lunar.fromSolar A l.solar = some l := by
  obtain ⟨a1, a2, a3, a4, a5, a6, a7, a8, _⟩ := fromSolar_fromYmd_gen A lo hi h ly lm ld hh mi ss l hlo hhi hl
  exact ⟨a1, a2, a3, a4, a5, a6, a7, a8⟩

theorem fromYmdHms_time (A : Astro) (ly lm ld h mi s h' mi' s' : Int)
    (hs : (Lunar.fromYmdHms A ly lm ld h mi s).isSome = true) (hv : validHms h' mi' s' = true) :
    (Lunar.fromYmdHms A ly lm ld h' mi' s').isSome = true := by
  obtain ⟨l, hl⟩ := Option.isSome_iff_exists.1 hs
  obtain ⟨m, sol, hm, d1, d2, hsol, _⟩ := fromYmdHms_inv A ly lm ld h mi s l hl
  obtain ⟨_, v1, _⟩ := newSolar_inv _ _ _ _ _ _ _ hsol
  obtain ⟨n1, _⟩ := newSolar_some _ _ _ _ _ _ v1 hv
  unfold Lunar.fromYmdHms
  have c1 : ¬ ld < 1 := by omega
  have c2 : ¬ ld > m.dayCount := by omega
  simp only [hm, c1, c2, if_false, n1, Option.isSome_some]

/-- the lunar constructor accepts exactly the triples that are the image of some civil day of a year inside
the oracle's checked range (with an in-range time).  The statement without the range restriction on `s` is false
for an arbitrary oracle (see the report: an oracle that is well-formed on lo..hi but arbitrary outside). -/
theorem fromYmd_ok_iff_partial (A : Astro) (lo hi : Int) (h : AstroOK A lo hi) (ly lm ld hh mi ss : Int)
    (hy : 2 ≤ ly) (hlo : lo < ly) (hhi : ly < hi) :
    (Lunar.fromYmdHms A ly lm ld hh mi ss).isSome = true ↔
      (validHms hh mi ss = true ∧ ∃ s : Solar, s.valid = true ∧ lo ≤ s.year ∧ s.year ≤ hi ∧
         ∃ l, Lunar.fromSolar A s = some l ∧ l.year = ly ∧ l.month = lm ∧ l.day = ld) := by
  constructor
  · intro hs
    obtain ⟨l, hl⟩ := Option.isSome_iff_exists.1 hs
    obtain ⟨a1, a2, a3, a4, a5, a6, a7, a8, a9, a10, a11⟩ := fromSolar_fromYmd_gen A lo hi h ly lm ld hh mi ss l hlo hhi hl
    exact ⟨a9, l.solar, a1, by omega, by omega, l, a8, a2, a3, a4⟩
  · rintro ⟨hv, s, sv, s1, s2, l, hl, e1, e2, e3⟩
    have := fromYmd_fromSolar_gen A lo hi h s sv ⟨s1, s2⟩ l hl (by omega)
    rw [e1, e2, e3] at this
    exact fromYmdHms_time A ly lm ld _ _ _ hh mi ss (by rw [this]; rfl) hv

/-- the forward half of `fromYmd_ok_iff` holds exactly as stated -/
theorem fromYmd_ok_imp (A : Astro) (lo hi : Int) (h : AstroOK A lo hi) (ly lm ld hh mi ss : Int)
    (hy : 2 ≤ ly) (hlo : lo < ly) (hhi : ly < hi) :
    (Lunar.fromYmdHms A ly lm ld hh mi ss).isSome = true →
      (validHms hh mi ss = true ∧ ∃ s : Solar, s.valid = true ∧ ∃ l, Lunar.fromSolar A s = some l ∧
         l.year = ly ∧ l.month = lm ∧ l.day = ld) := by
  intro hs
  obtain ⟨hv, s, sv, _, _, l, hl, e⟩ := (fromYmd_ok_iff_partial A lo hi h ly lm ld hh mi ss hy hlo hhi).1 hs
  exact ⟨hv, s, sv, l, hl, e⟩

/-- `fromYmd_ok_iff` exactly as stated, for an oracle that has no months outside the checked range
(as the regenerated oracle `genAstro` outside 0..10000) -/
theorem fromYmd_ok_iff_closed (A : Astro) (lo hi : Int) (h : AstroOK A lo hi)
    (hout : ∀ y, (y < lo ∨ hi < y) → (A y).months = []) (ly lm ld hh mi ss : Int)
    (hy : 2 ≤ ly) (hlo : lo < ly) (hhi : ly < hi) :
    (Lunar.fromYmdHms A ly lm ld hh mi ss).isSome = true ↔
      (validHms hh mi ss = true ∧ ∃ s : Solar, s.valid = true ∧ ∃ l, Lunar.fromSolar A s = some l ∧
         l.year = ly ∧ l.month = lm ∧ l.day = ld) := by
  constructor
  · exact fromYmd_ok_imp A lo hi h ly lm ld hh mi ss hy hlo hhi
  · rintro ⟨hv, s, sv, l, hl, e1, e2, e3⟩
    by_cases c : lo ≤ s.year ∧ s.year ≤ hi
    · exact (fromYmd_ok_iff_partial A lo hi h ly lm ld hh mi ss hy hlo hhi).2 ⟨hv, s, sv, c.1, c.2, l, hl, e1, e2, e3⟩
    · have := hout s.year (by omega)
      unfold Lunar.fromSolar at hl
      simp only [this, findLunarYmd] at hl
      cases hl
      have : (0 : Int) = ly := e1
      omega

/-! ## injectivity -/

/-- what `fromSolar` returns, with the canonical record (in the table of the lunar year) of the month -/
theorem fromSolar_canon (A : Astro) (lo hi : Int) (h : AstroOK A lo hi) (s : Solar) (hv : s.valid = true)
    (hlo : lo < s.year) (hhi : s.year < hi) (l : Lunar) (hl : Lunar.fromSolar A s = some l) :
    ∃ q, findMonth (A l.year).months l.year l.month = some q ∧ q.first ≤ s.jdn ∧ s.jdn < q.first + q.dayCount ∧
      l.day = s.jdn - q.first + 1 ∧ lo ≤ l.year ∧ l.year ≤ hi ∧ s.year - 1 ≤ l.year ∧ l.year ≤ s.year + 1 := by
  have hc := coreP_year A lo hi h s.year (by omega) (by omega)
  obtain ⟨r, hr, r1, r2, r3⟩ := fromSolar_core A s hv hc
  rw [hl] at r3
  cases r3
  have hrec := hc.recs r hr
  obtain ⟨q, q1, q2, q3⟩ := canon A lo hi h s.year (by omega) (by omega) r hr (overlaps_of_contains s hv r r1 r2)
    (by omega) (by omega)
  refine ⟨q, q1, by omega, by omega, ?_, ?_, ?_, ?_, ?_⟩
  · show s.jdn - r.first + 1 = s.jdn - q.first + 1
    omega
  all_goals (show _ ≤ _; first | (show lo ≤ r.year; omega) | (show r.year ≤ hi; omega) | (show s.year - 1 ≤ r.year; omega) | (show r.year ≤ s.year + 1; omega))

/-- two civil days with the same lunar (year, month, day) are the same day: the correspondence is one-to-one -/
theorem lunarYmd_inj (A : Astro) (lo hi : Int) (h : AstroOK A lo hi) (s s' : Solar) (hv : s.valid = true) (hv' : s'.valid = true)
    (hy : 1 ≤ s.year) (hy' : 1 ≤ s'.year) (hlo : lo < s.year) (hhi : s.year < hi) (hlo' : lo < s'.year) (hhi' : s'.year < hi)
    (l l' : Lunar) (hl : Lunar.fromSolar A s = some l) (hl' : Lunar.fromSolar A s' = some l')
    (he : l.year = l'.year ∧ l.month = l'.month ∧ l.day = l'.day) : (s.year, s.month, s.day) = (s'.year, s'.month, s'.day) := by
  obtain ⟨q, q1, q2, q3, q4, _⟩ := fromSolar_canon A lo hi h s hv hlo hhi l hl
  obtain ⟨q', q1', q2', q3', q4', _⟩ := fromSolar_canon A lo hi h s' hv' hlo' hhi' l' hl'
  rw [he.1, he.2.1, q1'] at q1
  cases q1
  have hj : s.jdn = s'.jdn := by omega
  obtain ⟨e1, e2, e3⟩ := jdn_inj_all _ _ _ _ _ _ (valid_parts s hv).1 (valid_parts s' hv').1 hj
  rw [e1, e2, e3]

/-! ## stepping -/

/-- stepping n days on the lunar side = stepping n days on the civil side -/
theorem next_eq (A : Astro) (l : Lunar) (n : Int) (s : Solar) (hs : l.solar.nextDay n = some s) :
    l.next A n = Lunar.fromSolar A s := by
  unfold Lunar.next
  rw [hs]

theorem next_inv (A : Astro) (l l1 : Lunar) (n : Int) (h : l.next A n = some l1) :
    ∃ s1, l.solar.nextDay n = some s1 ∧ Lunar.fromSolar A s1 = some l1 := by
  unfold Lunar.next at h
  split at h
  · cases h
  · rename_i s1 hs1
    exact ⟨s1, hs1, h⟩

theorem next_next (A : Astro) (lo hi : Int) (h : AstroOK A lo hi) (s : Solar) (hv : s.valid = true) (l l1 l2 : Lunar) (a b : Int)
    (hl : Lunar.fromSolar A s = some l) (h1 : l.next A a = some l1) (h2 : l1.next A b = some l2)
    (hy : 1 ≤ s.year) (hy1 : 1 ≤ l1.solar.year) (hy2 : 1 ≤ l2.solar.year)
    (hr : lo ≤ s.year ∧ s.year ≤ hi) (hr1 : lo ≤ l1.solar.year ∧ l1.solar.year ≤ hi) :
    l.next A (a + b) = some l2 := by
  have e0 := fromSolar_solar A s l hl
  obtain ⟨s1, n1, f1⟩ := next_inv A l l1 a h1
  obtain ⟨s2, n2, f2⟩ := next_inv A l1 l2 b h2
  have e1 := fromSolar_solar A s1 l1 f1
  have e2 := fromSolar_solar A s2 l2 f2
  rw [e0] at n1
  rw [e1] at n2 hy1
  rw [e2] at hy2
  have := nextDay_add s s1 s2 a b hv hy n1 hy1 n2 hy2
  rw [next_eq A l (a + b) s2 (by rw [e0]; exact this)]
  exact f2

/-! ## order -/

theorem coreP_pos (y : Int) (ms : List MonthRec) (hc : CoreP y ms) : ∀ r ∈ ms, 1 ≤ r.dayCount :=
  fun r hr => by have := hc.recs r hr; omega

/-- in one table a month with a smaller label year ends before a month with a larger one starts -/
theorem same_table_order (y : Int) (ms : List MonthRec) (hc : CoreP y ms) (r q : MonthRec) (hr : r ∈ ms) (hq : q ∈ ms)
    (hlt : r.year < q.year) : r.first + r.dayCount ≤ q.first := by
  have hd := coreP_pos y ms hc
  have hp := chain_pairwise ms hc.chain hd
  have dr := hd r hr
  have dq := hd q hq
  by_cases c1 : r.first < q.first
  · exact (pairwise_lt ms hp hd r q hr hq c1).1
  · by_cases c2 : q.first < r.first
    · have := (pairwise_lt ms hp hd q r hq hr c2).2
      omega
    · have e : r = q := pairwise_unique r.first ms hp r q hr hq (by omega) (by omega) (by omega) (by omega)
      subst e
      omega

theorem pairP_pred_fwd (A : Astro) (lo hi : Int) (h : AstroOK A lo hi) (y : Int) (hlo : lo ≤ y - 1) (hhi : y ≤ hi) :
    ∀ r ∈ (A (y - 1)).months, r.year = y → overlapsCivil (y - 1) r = true →
      ∃ q, findMonth (A y).months y r.month = some q ∧ q.first = r.first ∧ q.dayCount = r.dayCount := by
  have hp := pairP_year A lo hi h (y - 1) hlo (by omega)
  have e1 : y - 1 + 1 = y := by omega
  intro r hr e o
  have := hp.fwd r hr (by rw [e1]; exact e) o
  rw [e1] at this
  exact this

theorem civil_year_mono (s s' : Solar) (hv : s.valid = true) (hv' : s'.valid = true) (h : s.year < s'.year) :
    s.jdn < s'.jdn := by
  obtain ⟨_, b2⟩ := valid_in_year s hv
  obtain ⟨b1', _⟩ := valid_in_year s' hv'
  have := jdn_dec31 s.year
  have := yearStart_le (s.year + 1) s'.year (by omega)
  omega

/-- a smaller lunar year means an earlier day -/
theorem year_order (A : Astro) (lo hi : Int) (h : AstroOK A lo hi)
    (s s' : Solar) (hv : s.valid = true) (hv' : s'.valid = true)
    (hlo : lo < s.year) (hhi : s.year < hi) (hlo' : lo < s'.year) (hhi' : s'.year < hi)
    (l l' : Lunar) (hl : Lunar.fromSolar A s = some l) (hl' : Lunar.fromSolar A s' = some l')
    (hlt : l.year < l'.year) : s.jdn < s'.jdn := by
  have hc := coreP_year A lo hi h s.year (by omega) (by omega)
  have hc' := coreP_year A lo hi h s'.year (by omega) (by omega)
  obtain ⟨r, hr, r1, r2, r3⟩ := fromSolar_core A s hv hc
  obtain ⟨r', hr', r1', r2', r3'⟩ := fromSolar_core A s' hv' hc'
  rw [hl] at r3; cases r3
  rw [hl'] at r3'; cases r3'
  have hlt' : r.year < r'.year := hlt
  have hrec := hc.recs r hr
  have hrec' := hc'.recs r' hr'
  false_or_by_contra
  rename_i hge
  have hyy : s'.year ≤ s.year := by
    false_or_by_contra
    rename_i c
    have := civil_year_mono s s' hv hv' (by omega)
    omega
  by_cases c : s'.year = s.year
  · rw [c] at hr'
    have := same_table_order _ _ hc r r' hr hr' hlt'
    omega
  · have e1 : s'.year = s.year - 1 := by omega
    have e2 : r'.year = s.year := by omega
    rw [e1] at hr'
    have ho := overlaps_of_contains s' hv' r' r1' r2'
    rw [e1] at ho
    obtain ⟨q', q1, q2, q3⟩ := pairP_pred_fwd A lo hi h s.year (by omega) (by omega) r' hr' e2 ho
    obtain ⟨qm, qy, _⟩ := findMonth_some _ _ _ _ q1
    have := same_table_order _ _ hc r q' hr qm (by omega)
    omega

theorem labels_pairwise : ∀ (ms : List MonthRec), labelsDistinct ms = true →
    ms.Pairwise (fun a b => ¬ (b.year = a.year ∧ b.month = a.month))
  | [], _ => List.Pairwise.nil
  | a :: rest, hd => by
    simp only [labelsDistinct, Bool.and_eq_true, List.all_eq_true, Bool.not_eq_true', Bool.and_eq_false_iff,
      beq_eq_false_iff_ne] at hd
    rw [List.pairwise_cons]
    refine ⟨?_, labels_pairwise rest hd.2⟩
    intro b hb hh
    rcases hd.1 b hb with e | e
    · exact e hh.1
    · exact e hh.2

/-- in a list sorted by first day with distinct month numbers, the position of a month number follows the first day -/
theorem pos_lt : ∀ (L : List MonthRec), L.Pairwise (fun a b => a.first < b.first) →
    L.Pairwise (fun a b => b.month ≠ a.month) → ∀ q q', q ∈ L → q' ∈ L → q.first < q'.first →
    ∃ i j, L.findIdx? (fun r => r.month == q.month) = some i ∧ L.findIdx? (fun r => r.month == q'.month) = some j ∧ i < j
  | [], _, _, q, q', hq, _, _ => by simp at hq
  | a :: rest, h1, h2, q, q', hq, hq', hlt => by
    rw [List.pairwise_cons] at h1 h2
    have hq'r : q' ∈ rest := by
      rcases List.mem_cons.1 hq' with e | e
      · subst e
        rcases List.mem_cons.1 hq with e | e
        · subst e; omega
        · have := h1.1 q e; omega
      · exact e
    have hne' : (a.month == q'.month) = false := by
      rw [beq_eq_false_iff_ne]
      exact fun x => h2.1 q' hq'r x.symm
    rw [List.findIdx?_cons, List.findIdx?_cons, hne']
    rcases List.mem_cons.1 hq with e | e
    · subst e
      -- q' is found in the rest
      have hex : ∃ j, rest.findIdx? (fun r => r.month == q'.month) = some j := by
        cases hf : rest.findIdx? (fun r => r.month == q'.month) with
        | some j => exact ⟨j, rfl⟩
        | none =>
          rw [List.findIdx?_eq_none_iff] at hf
          have := hf q' hq'r
          simp at this
      obtain ⟨j, hj⟩ := hex
      refine ⟨0, j + 1, by simp, by simp [hj], by omega⟩
    · have hne : (a.month == q.month) = false := by
        rw [beq_eq_false_iff_ne]
        exact fun x => h2.1 q e x.symm
      rw [hne]
      obtain ⟨i, j, hi, hj, hij⟩ := pos_lt rest h1.2 h2.2 q q' e hq'r hlt
      exact ⟨i + 1, j + 1, by simp [hi], by simp [hj], by omega⟩

/-- positions of two months of the same lunar year, in that year's own table, follow their first days -/
theorem monthPos_lt (A : Astro) (Y : Int) (hc : CoreP Y (A Y).months) (q q' : MonthRec)
    (hq : q ∈ (A Y).months) (hq' : q' ∈ (A Y).months) (qy : q.year = Y) (qy' : q'.year = Y) (hlt : q.first < q'.first) :
    ∃ i j, monthPos A Y q.month = some i ∧ monthPos A Y q'.month = some j ∧ i < j := by
  have hd := coreP_pos Y _ hc
  have hp := chain_pairwise _ hc.chain hd
  have p1 : (monthsInYear (A Y).months Y).Pairwise (fun a b => a.first < b.first) := by
    unfold monthsInYear
    apply List.Pairwise.filter
    refine List.Pairwise.imp_of_mem ?_ hp
    intro a b ha hb hab
    have := hd a ha
    omega
  have p2 : (monthsInYear (A Y).months Y).Pairwise (fun a b => b.month ≠ a.month) := by
    unfold monthsInYear
    refine List.Pairwise.imp_of_mem ?_ (List.Pairwise.filter _ (labels_pairwise _ hc.distinct))
    intro a b ha hb hab e
    rw [List.mem_filter, beq_iff_eq] at ha hb
    exact hab ⟨by rw [ha.2, hb.2], e⟩
  have m1 : q ∈ monthsInYear (A Y).months Y := by
    unfold monthsInYear; rw [List.mem_filter, beq_iff_eq]; exact ⟨hq, qy⟩
  have m2 : q' ∈ monthsInYear (A Y).months Y := by
    unfold monthsInYear; rw [List.mem_filter, beq_iff_eq]; exact ⟨hq', qy'⟩
  exact pos_lt _ p1 p2 q q' m1 m2 hlt

/-- the conversion is monotone (no restriction to non-reform years is needed) -/
theorem order_fwd (A : Astro) (lo hi : Int) (h : AstroOK A lo hi)
    (s s' : Solar) (hv : s.valid = true) (hv' : s'.valid = true)
    (hlo : lo < s.year) (hhi : s.year < hi) (hlo' : lo < s'.year) (hhi' : s'.year < hi)
    (l l' : Lunar) (hl : Lunar.fromSolar A s = some l) (hl' : Lunar.fromSolar A s' = some l')
    (hlt : s.jdn < s'.jdn) : lunarLt A l l' := by
  unfold lunarLt
  by_cases c1 : l.year < l'.year
  · exact Or.inl c1
  · by_cases c2 : l'.year < l.year
    · have := year_order A lo hi h s' s hv' hv hlo' hhi' hlo hhi l' l hl' hl c2
      omega
    · have ey : l.year = l'.year := by omega
      refine Or.inr ⟨ey, ?_⟩
      obtain ⟨q, q1, q2, q3, q4, y1, y2, _⟩ := fromSolar_canon A lo hi h s hv hlo hhi l hl
      obtain ⟨q', q1', q2', q3', q4', _⟩ := fromSolar_canon A lo hi h s' hv' hlo' hhi' l' hl'
      rw [← ey] at q1'
      by_cases cm : l.month = l'.month
      · rw [← cm, q1] at q1'
        cases q1'
        exact Or.inr ⟨cm, by omega⟩
      · refine Or.inl ?_
        have hc := coreP_year A lo hi h l.year y1 y2
        obtain ⟨qm, qy, qmo⟩ := findMonth_some _ _ _ _ q1
        obtain ⟨qm', qy', qmo'⟩ := findMonth_some _ _ _ _ q1'
        have hd := coreP_pos _ _ hc
        have hp := chain_pairwise _ hc.chain hd
        have dq := hd q qm
        have dq' := hd q' qm'
        have hfl : q.first < q'.first := by
          false_or_by_contra
          rename_i c
          by_cases c3 : q'.first < q.first
          · have := (pairwise_lt _ hp hd q' q qm' qm c3).1
            omega
          · have e : q = q' := pairwise_unique q.first _ hp q q' qm qm' (by omega) (by omega) (by omega) (by omega)
            subst e
            exact cm (by rw [← qmo, ← qmo'])
        obtain ⟨i, j, hi, hj, hij⟩ := monthPos_lt A l.year hc q q' qm qm' qy qy' hfl
        rw [qmo] at hi
        rw [qmo'] at hj
        rw [← ey]
        exact ⟨i, j, hi, hj, hij⟩

theorem lunarLt_asymm (A : Astro) (l l' : Lunar) (h1 : lunarLt A l l') (h2 : lunarLt A l' l) : False := by
  unfold lunarLt at h1 h2
  rcases h1 with a | ⟨ey, a⟩
  · rcases h2 with b | ⟨ey', _⟩ <;> omega
  · rcases h2 with b | ⟨ey', b⟩
    · omega
    · rcases a with ⟨i, j, hi, hj, hij⟩ | ⟨em, ed⟩
      · rcases b with ⟨i', j', hi', hj', hij'⟩ | ⟨em', ed'⟩
        · rw [hj] at hi'; rw [hi] at hj'
          cases hi'; cases hj'
          omega
        · rw [ey', em', hi] at hj
          cases hj
          omega
      · rcases b with ⟨i', j', hi', hj', hij'⟩ | ⟨em', ed'⟩
        · rw [ey, em, hi'] at hj'
          cases hj'
          omega
        · omega

theorem lunarLt_irrefl (A : Astro) (l l' : Lunar) (ey : l.year = l'.year) (em : l.month = l'.month) (ed : l.day = l'.day)
    (h1 : lunarLt A l l') : False := by
  unfold lunarLt at h1
  rcases h1 with a | ⟨_, ⟨i, j, hi, hj, hij⟩ | ⟨_, a⟩⟩
  · omega
  · rw [ey, em, hj] at hi
    cases hi
    omega
  · omega

/-- order, for every year of the checked range (reform years included) -/
theorem lunar_order (A : Astro) (lo hi : Int) (h : AstroOK A lo hi)
    (s s' : Solar) (hv : s.valid = true) (hv' : s'.valid = true)
    (hlo : lo < s.year) (hhi : s.year < hi) (hlo' : lo < s'.year) (hhi' : s'.year < hi)
    (l l' : Lunar) (hl : Lunar.fromSolar A s = some l) (hl' : Lunar.fromSolar A s' = some l') :
    s.jdn < s'.jdn ↔ lunarLt A l l' := by
  constructor
  · exact order_fwd A lo hi h s s' hv hv' hlo hhi hlo' hhi' l l' hl hl'
  · intro hlt
    false_or_by_contra
    rename_i c
    by_cases c2 : s'.jdn < s.jdn
    · exact lunarLt_asymm A l l' hlt (order_fwd A lo hi h s' s hv' hv hlo' hhi' hlo hhi l' l hl' hl c2)
    · have hj : s.jdn = s'.jdn := by omega
      obtain ⟨q, q1, q2, q3, q4, y1, y2, _⟩ := fromSolar_canon A lo hi h s hv hlo hhi l hl
      obtain ⟨e1, e2, e3⟩ := jdn_inj_all _ _ _ _ _ _ (valid_parts s hv).1 (valid_parts s' hv').1 hj
      have hc := coreP_year A lo hi h s.year (by omega) (by omega)
      have hc' := coreP_year A lo hi h s'.year (by omega) (by omega)
      obtain ⟨r, hr, r1, r2, r3⟩ := fromSolar_core A s hv hc
      obtain ⟨r', hr', r1', r2', r3'⟩ := fromSolar_core A s' hv' hc'
      rw [hl] at r3; cases r3
      rw [hl'] at r3'; cases r3'
      rw [← e1] at hr'
      have hd := coreP_pos _ _ hc
      have e : r = r' := pairwise_unique s.jdn _ (chain_pairwise _ hc.chain hd) r r' hr hr' r1 r2 (by omega) (by omega)
      subst e
      have ed : s.jdn - r.first + 1 = s'.jdn - r.first + 1 := by omega
      exact lunarLt_irrefl A _ _ (Eq.refl r.year) (Eq.refl r.month) ed hlt

/-- order: outside the two modelled reforms the conversion preserves order -/
theorem lunar_order_partial (A : Astro) (lo hi : Int) (h : AstroOK A lo hi)
    (hnr : ∀ y, lo ≤ y → y ≤ hi → isReformYear y = false)
    (s s' : Solar) (hv : s.valid = true) (hv' : s'.valid = true) (hy : 1 ≤ s.year) (hy' : 1 ≤ s'.year)
    (hlo : lo < s.year) (hhi : s.year < hi) (hlo' : lo < s'.year) (hhi' : s'.year < hi)
    (l l' : Lunar) (hl : Lunar.fromSolar A s = some l) (hl' : Lunar.fromSolar A s' = some l') :
    s.jdn < s'.jdn ↔ lunarLt A l l' :=
  lunar_order A lo hi h s s' hv hv' hlo hhi hlo' hhi' l l' hl hl'

end Model

#print axioms Model.fromSolar_spec
#print axioms Model.fromYmd_fromSolar
#print axioms Model.fromSolar_fromYmd
#print axioms Model.fromYmd_ok_iff_partial
#print axioms Model.fromYmd_ok_imp
#print axioms Model.fromYmd_ok_iff_closed
#print axioms Model.lunarYmd_inj
#print axioms Model.next_eq
#print axioms Model.next_next
#print axioms Model.lunar_order
#print axioms Model.lunar_order_partial
