/-
Proofs.Convert — the civil ↔ lunar conversions over an arbitrary well-formed oracle.
-/
import Proofs.WFDefs
import Proofs.CivilArith
set_option linter.unusedVariables false
namespace Model

/-! ## civil helpers (no lower bound on the year) -/

theorem daysBetween_eq_all (ay am ad by_ bm bd : Int) (ha : validYmd ay am ad = true) (hb : validYmd by_ bm bd = true) :
    daysBetween ay am ad by_ bm bd = some (jdn by_ bm bd - jdn ay am ad) := by
  unfold daysBetween
  rw [daysInYear_eq ay am ad ha, daysInYear_eq by_ bm bd hb]
  simp only
  by_cases he : ay = by_
  · subst he
    simp only [if_true]
    congr 1; omega
  · simp only [he, if_false]
    by_cases hgt : ay > by_
    · simp only [hgt, if_true]
      rw [yearsLoop_eq]
      have := jdn_year_len_all by_
      rw [show by_ + 1 + ((ay - by_ - 1).toNat : Int) = ay by omega]
      congr 1; omega
    · simp only [hgt, if_false]
      rw [yearsLoop_eq]
      have := jdn_year_len_all ay
      rw [show ay + 1 + ((by_ - ay - 1).toNat : Int) = by_ by omega]
      congr 1; omega

theorem subtract_eq_all (s o : Solar) (hs : s.valid = true) (ho : o.valid = true) :
    s.subtract o = some (s.jdn - o.jdn) := by
  unfold Solar.subtract Solar.jdn
  exact daysBetween_eq_all _ _ _ _ _ _ (valid_parts o ho).1 (valid_parts s hs).1

def fromJdnOkAt (n : Int) : Bool :=
  validYmd (fromJdn n).1 (fromJdn n).2.1 (fromJdn n).2.2 &&
    (jdn (fromJdn n).1 (fromJdn n).2.1 (fromJdn n).2.2 == n)

def lowChk : Nat → Bool
  | 0 => true
  | k + 1 => fromJdnOkAt (1721000 + (k : Int)) && lowChk k

theorem lowChk_ok : lowChk 424 = true := by decide +kernel

theorem lowChk_spec : ∀ k, lowChk k = true → ∀ j, j < k → fromJdnOkAt (1721000 + (j : Int)) = true := by
  intro k
  induction k with
  | zero => intro _ j hj; omega
  | succ k ih =>
    intro h j hj
    simp only [lowChk, Bool.and_eq_true] at h
    by_cases e : j = k
    · subst e; exact h.1
    · exact ih h.2 j (by omega)

/-- `jdn_fromJdn` extended down to day number 1721000 (the oracle's lower bound on month starts) -/
theorem jdn_fromJdn_ext (n : Int) (h : 1721000 ≤ n) :
    validYmd (fromJdn n).1 (fromJdn n).2.1 (fromJdn n).2.2 = true ∧
    jdn (fromJdn n).1 (fromJdn n).2.1 (fromJdn n).2.2 = n := by
  by_cases c : 1721424 ≤ n
  · have := jdn_fromJdn n c
    exact ⟨this.1, this.2.2⟩
  · have hk := lowChk_spec 424 lowChk_ok (n - 1721000).toNat (by omega)
    rw [show (1721000 : Int) + ((n - 1721000).toNat : Int) = n by omega] at hk
    unfold fromJdnOkAt at hk
    simp only [Bool.and_eq_true, beq_iff_eq] at hk
    exact hk

theorem solarOfJdn_spec (n : Int) (h : 1721000 ≤ n) :
    (solarOfJdn n).valid = true ∧ (solarOfJdn n).jdn = n := by
  obtain ⟨h1, h2⟩ := jdn_fromJdn_ext n h
  refine ⟨?_, h2⟩
  show (validYmd (fromJdn n).1 (fromJdn n).2.1 (fromJdn n).2.2 && validHms 12 0 0) = true
  rw [h1]; rfl

/-- a valid date is the date of its own day number (given the day number is ≥ 1721000) -/
theorem solarOfJdn_jdn (s : Solar) (hv : s.valid = true) (h : 1721000 ≤ s.jdn) :
    (solarOfJdn s.jdn).year = s.year ∧ (solarOfJdn s.jdn).month = s.month ∧ (solarOfJdn s.jdn).day = s.day := by
  obtain ⟨h1, h2⟩ := jdn_fromJdn_ext s.jdn h
  exact jdn_inj_all _ _ _ _ _ _ h1 (valid_parts s hv).1 h2

theorem jdn_dec31 (y : Int) : jdn y 12 31 + 1 = jdn (y + 1) 1 1 := by
  simp [jdn_eq_step]
  repeat' split
  all_goals omega

/-- a valid date lies inside its civil year -/
theorem jdn_year_bounds (y m d : Int) (hv : validYmd y m d = true) :
    jdn y 1 1 ≤ jdn y m d ∧ jdn y m d ≤ jdn y 12 31 := by
  obtain ⟨a1, a2⟩ := jdn_in_month y m d hv
  obtain ⟨hm1, hm, _, _, _⟩ := (validYmd_iff_step y m d).1 hv
  have e1 := monthStart_le y 1 m (by omega) hm1 hm
  have e2 := monthEnd_le_yearEnd y m hm1 hm
  have e3 := jdn_dec31 y
  omega

/-! ## structure of one month table -/

/-- the adjacency relation checked by `monthsCoreOk` -/
def chainF (a b : MonthRec) : Bool := b.first == a.first + a.dayCount && decide (a.year ≤ b.year)

/-- Prop form of `monthsCoreOk` -/
structure CoreP (y : Int) (ms : List MonthRec) : Prop where
  len : ms.length = 15
  recs : ∀ r ∈ ms, 28 ≤ r.dayCount ∧ r.dayCount ≤ 30 ∧ (r.year = y - 1 ∨ r.year = y ∨ r.year = y + 1) ∧
    r.month ≠ 0 ∧ 1721000 ≤ r.first
  chain : allAdj chainF ms = true
  distinct : labelsDistinct ms = true
  ends : ∃ h l, ms.head? = some h ∧ ms.getLast? = some l ∧ h.first ≤ jdn y 1 1 ∧ jdn y 12 31 < l.first + l.dayCount

theorem coreP_of (y : Int) (ms : List MonthRec) (h : monthsCoreOk y ms = true) : CoreP y ms := by
  unfold monthsCoreOk at h
  simp only [Bool.and_eq_true, decide_eq_true_eq, List.all_eq_true, Bool.or_eq_true, beq_iff_eq, bne_iff_ne] at h
  obtain ⟨⟨⟨⟨h1, h2⟩, h3⟩, h4⟩, h5⟩ := h
  refine ⟨h1, ?_, h3, h4, ?_⟩
  · intro r hr
    have := h2 r hr
    refine ⟨by omega, by omega, ?_, this.1.1.1.1.1.2, by omega⟩
    rcases this.1.1.1.1.1.1.2 with (e | e) | e
    · exact Or.inl e
    · exact Or.inr (Or.inl e)
    · exact Or.inr (Or.inr e)
  · revert h5
    cases ms.head? <;> cases ms.getLast? <;> simp

theorem coreP_year (A : Astro) (lo hi : Int) (h : AstroOK A lo hi) (y : Int) (hlo : lo ≤ y) (hhi : y ≤ hi) :
    CoreP y (A y).months := by
  have := h.year y hlo hhi
  unfold yearOk at this
  simp only [Bool.and_eq_true] at this
  exact coreP_of _ _ this.1.1

theorem chainF_iff (a b : MonthRec) : chainF a b = true ↔ (b.first = a.first + a.dayCount ∧ a.year ≤ b.year) := by
  unfold chainF
  simp only [Bool.and_eq_true, beq_iff_eq, decide_eq_true_eq]

/-- a chain with positive month lengths is sorted: later months start after earlier ones end, label years do not decrease -/
theorem chain_pairwise : ∀ (ms : List MonthRec), allAdj chainF ms = true → (∀ r ∈ ms, 1 ≤ r.dayCount) →
    ms.Pairwise (fun a b => a.first + a.dayCount ≤ b.first ∧ a.year ≤ b.year)
  | [], _, _ => List.Pairwise.nil
  | [a], _, _ => by simp
  | a :: b :: rest, hc, hp => by
    simp only [allAdj, Bool.and_eq_true] at hc
    have ih := chain_pairwise (b :: rest) hc.2 (fun r hr => hp r (List.mem_cons_of_mem _ hr))
    have hab := (chainF_iff a b).1 hc.1
    have hb := hp b (by simp)
    rw [List.pairwise_cons] at ih ⊢
    refine ⟨?_, List.pairwise_cons.2 ih⟩
    intro c hcm
    rcases List.mem_cons.1 hcm with rfl | hcm
    · omega
    · have := ih.1 c hcm
      omega

/-- at most one record of a sorted table contains a given day -/
theorem pairwise_unique (n : Int) : ∀ (ms : List MonthRec),
    ms.Pairwise (fun a b => a.first + a.dayCount ≤ b.first ∧ a.year ≤ b.year) →
    ∀ r q, r ∈ ms → q ∈ ms → r.first ≤ n → n < r.first + r.dayCount → q.first ≤ n → n < q.first + q.dayCount → r = q
  | [], _, r, q, hr, _, _, _, _, _ => by simp at hr
  | a :: rest, hp, r, q, hr, hq, r1, r2, q1, q2 => by
    rw [List.pairwise_cons] at hp
    rcases List.mem_cons.1 hr with rfl | hr'
    · rcases List.mem_cons.1 hq with rfl | hq
      · rfl
      · have := hp.1 q hq; omega
    · clear hr
      rcases List.mem_cons.1 hq with rfl | hq
      · have := hp.1 r hr'; omega
      · exact pairwise_unique n rest hp.2 r q hr' hq r1 r2 q1 q2

/-- order of two records of a sorted table is decided by their first days -/
theorem pairwise_lt : ∀ (ms : List MonthRec),
    ms.Pairwise (fun a b => a.first + a.dayCount ≤ b.first ∧ a.year ≤ b.year) → (∀ r ∈ ms, 1 ≤ r.dayCount) →
    ∀ r q, r ∈ ms → q ∈ ms → r.first < q.first → r.first + r.dayCount ≤ q.first ∧ r.year ≤ q.year
  | [], _, _, r, q, hr, _, _ => by simp at hr
  | a :: rest, hp, hd, r, q, hr, hq, hlt => by
    rw [List.pairwise_cons] at hp
    rcases List.mem_cons.1 hr with rfl | hr'
    · rcases List.mem_cons.1 hq with rfl | hq
      · omega
      · exact hp.1 q hq
    · clear hr
      rcases List.mem_cons.1 hq with rfl | hq
      · have := hp.1 r hr'
        have := hd q (by simp)
        omega
      · exact pairwise_lt rest hp.2 (fun x hx => hd x (List.mem_cons_of_mem _ hx)) r q hr' hq hlt

/-- every record of a chain of `k` months of at most 30 days lies within `30 k` days of the first one -/
theorem chain_span : ∀ (ms : List MonthRec) (h : MonthRec), allAdj chainF ms = true → ms.head? = some h →
    (∀ r ∈ ms, 1 ≤ r.dayCount ∧ r.dayCount ≤ 30) →
    ∀ r ∈ ms, h.first ≤ r.first ∧ r.first + r.dayCount ≤ h.first + 30 * (ms.length : Int)
  | [], h, _, hh, _, r, hr => by simp at hr
  | [a], h, _, hh, hd, r, hr => by
    simp at hh hr
    subst hh hr
    have := hd r (by simp)
    simp; omega
  | a :: b :: rest, h, hc, hh, hd, r, hr => by
    simp only [allAdj, Bool.and_eq_true] at hc
    simp only [List.head?_cons, Option.some.injEq] at hh
    subst hh
    have hab := (chainF_iff a b).1 hc.1
    have ha := hd a (by simp)
    rcases List.mem_cons.1 hr with rfl | hr
    · simp only [List.length_cons]; omega
    · have := chain_span (b :: rest) b hc.2 rfl (fun x hx => hd x (List.mem_cons_of_mem _ hx)) r hr
      simp only [List.length_cons] at this ⊢
      omega

/-! ## the month search of `fromSolar` -/

theorem findLunarYmd_cons (s : Solar) (hv : s.valid = true) (m : MonthRec) (rest : List MonthRec)
    (hf : 1721000 ≤ m.first) :
    findLunarYmd s (m :: rest) =
      if s.jdn - m.first < m.dayCount then some (m.year, m.month, s.jdn - m.first + 1) else findLunarYmd s rest := by
  obtain ⟨o1, o2⟩ := solarOfJdn_spec m.first hf
  simp only [findLunarYmd]
  rw [subtract_eq_all s _ hv o1, o2]

theorem find_spec (s : Solar) (hv : s.valid = true) : ∀ (ms : List MonthRec) (h l : MonthRec),
    allAdj chainF ms = true → (∀ r ∈ ms, 1721000 ≤ r.first) → ms.head? = some h → ms.getLast? = some l →
    h.first ≤ s.jdn → s.jdn < l.first + l.dayCount →
    ∃ r, r ∈ ms ∧ r.first ≤ s.jdn ∧ s.jdn < r.first + r.dayCount ∧
      findLunarYmd s ms = some (r.year, r.month, s.jdn - r.first + 1)
  | [], h, l, _, _, hh, _, _, _ => by simp at hh
  | [a], h, l, hc, hf, hh, hl, h1, h2 => by
    simp at hh hl
    subst hh hl
    refine ⟨a, by simp, h1, h2, ?_⟩
    rw [findLunarYmd_cons s hv a [] (hf a (by simp))]
    have : s.jdn - a.first < a.dayCount := by omega
    simp only [this, if_true]
  | a :: b :: rest, h, l, hc, hf, hh, hl, h1, h2 => by
    simp only [allAdj, Bool.and_eq_true] at hc
    simp only [List.head?_cons, Option.some.injEq] at hh
    subst hh
    have hab := (chainF_iff a b).1 hc.1
    rw [findLunarYmd_cons s hv a _ (hf a (by simp))]
    by_cases c : s.jdn - a.first < a.dayCount
    · simp only [c, if_true]
      exact ⟨a, by simp, h1, by omega, rfl⟩
    · simp only [c, if_false]
      have hl' : (b :: rest).getLast? = some l := by
        rw [List.getLast?_cons_cons] at hl; exact hl
      obtain ⟨r, hr, e1, e2, e3⟩ := find_spec s hv (b :: rest) b l hc.2
        (fun x hx => hf x (List.mem_cons_of_mem _ hx)) rfl hl' (by omega) h2
      exact ⟨r, List.mem_cons_of_mem _ hr, e1, e2, e3⟩

/-! ## label lookups -/

theorem findMonth_some (ms : List MonthRec) (y m : Int) (q : MonthRec) (h : findMonth ms y m = some q) :
    q ∈ ms ∧ q.year = y ∧ q.month = m := by
  unfold findMonth at h
  have h1 := List.mem_of_find?_eq_some h
  have h2 := List.find?_some h
  simp only [Bool.and_eq_true, beq_iff_eq] at h2
  exact ⟨h1, h2.1, h2.2⟩

theorem findMonth_self : ∀ (ms : List MonthRec), labelsDistinct ms = true → ∀ r ∈ ms, findMonth ms r.year r.month = some r
  | [], _, r, hr => by simp at hr
  | a :: rest, hd, r, hr => by
    simp only [labelsDistinct, Bool.and_eq_true, List.all_eq_true, Bool.not_eq_true', Bool.and_eq_false_iff,
      beq_eq_false_iff_ne] at hd
    unfold findMonth
    rw [List.find?_cons]
    rcases List.mem_cons.1 hr with rfl | hr'
    · simp
    · have hne := hd.1 r hr'
      have : (a.year == r.year && a.month == r.month) = false := by
        rw [Bool.and_eq_false_iff]
        rcases hne with e | e
        · exact Or.inl (by simp only [beq_eq_false_iff_ne]; exact fun x => e x.symm)
        · exact Or.inr (by simp only [beq_eq_false_iff_ne]; exact fun x => e x.symm)
      rw [this]
      exact findMonth_self rest hd.2 r hr'

theorem recordsAgree_spec (p : MonthRec → Bool) (Y : Int) (ms ms' : List MonthRec)
    (h : recordsAgree p Y ms ms' = true) (r : MonthRec) (hr : r ∈ ms) (hy : r.year = Y) (hp : p r = true) :
    ∃ q, findMonth ms' Y r.month = some q ∧ q.first = r.first ∧ q.dayCount = r.dayCount := by
  unfold recordsAgree at h
  rw [List.all_eq_true] at h
  have := h r hr
  simp only [Bool.or_eq_true, bne_iff_ne, Bool.not_eq_true'] at this
  rcases this with (e | e) | e
  · exact absurd hy e
  · rw [hp] at e; cases e
  · revert e
    cases findMonth ms' Y r.month with
    | none => simp
    | some q =>
      simp only [Bool.and_eq_true, beq_iff_eq]
      intro e
      exact ⟨q, rfl, e.1, e.2⟩

/-! ## `fromSolar` -/

theorem computeAll_proj (y m d h mi s : Int) (sol : Solar) (ya : YearAstro) :
    (computeAll y m d h mi s sol ya).year = y ∧ (computeAll y m d h mi s sol ya).month = m ∧
    (computeAll y m d h mi s sol ya).day = d ∧ (computeAll y m d h mi s sol ya).hour = h ∧
    (computeAll y m d h mi s sol ya).minute = mi ∧ (computeAll y m d h mi s sol ya).second = s ∧
    (computeAll y m d h mi s sol ya).solar = sol := ⟨rfl, rfl, rfl, rfl, rfl, rfl, rfl⟩

theorem fromSolar_solar (A : Astro) (s : Solar) (l : Lunar) (h : Lunar.fromSolar A s = some l) : l.solar = s := by
  unfold Lunar.fromSolar at h
  simp only at h
  split at h
  · cases h
  · cases h; rfl

theorem valid_in_year (s : Solar) (hv : s.valid = true) :
    jdn s.year 1 1 ≤ s.jdn ∧ s.jdn ≤ jdn s.year 12 31 :=
  jdn_year_bounds _ _ _ (valid_parts s hv).1

/-- the conversion finds the record of the civil year's table that contains the day -/
theorem fromSolar_core (A : Astro) (s : Solar) (hv : s.valid = true) (hc : CoreP s.year (A s.year).months) :
    ∃ r, r ∈ (A s.year).months ∧ r.first ≤ s.jdn ∧ s.jdn < r.first + r.dayCount ∧
      Lunar.fromSolar A s =
        some (computeAll r.year r.month (s.jdn - r.first + 1) s.hour s.minute s.second s (A s.year)) := by
  obtain ⟨h, l, hh, hl, e1, e2⟩ := hc.ends
  obtain ⟨b1, b2⟩ := valid_in_year s hv
  obtain ⟨r, hr, r1, r2, r3⟩ := find_spec s hv (A s.year).months h l hc.chain (fun r hr => (hc.recs r hr).2.2.2.2) hh hl
    (by omega) (by omega)
  refine ⟨r, hr, r1, r2, ?_⟩
  unfold Lunar.fromSolar
  simp only [r3]

/-- every valid civil date in range converts, to the unique month record of its year's table that contains it -/
theorem fromSolar_spec (A : Astro) (lo hi : Int) (h : AstroOK A lo hi) (s : Solar) (hv : s.valid = true)
    (hy : 1 ≤ s.year) (hlo : lo ≤ s.year) (hhi : s.year ≤ hi) :
    ∃ l r, Lunar.fromSolar A s = some l ∧ r ∈ (A s.year).months ∧ l.year = r.year ∧ l.month = r.month ∧
      1 ≤ l.day ∧ l.day ≤ r.dayCount ∧ r.first + (l.day - 1) = s.jdn ∧ l.solar = s ∧
      l.hour = s.hour ∧ l.minute = s.minute ∧ l.second = s.second ∧ l.month ≠ 0 := by
  have hc := coreP_year A lo hi h s.year hlo hhi
  obtain ⟨r, hr, r1, r2, r3⟩ := fromSolar_core A s hv hc
  refine ⟨_, r, r3, hr, rfl, rfl, ?_, ?_, ?_, rfl, rfl, rfl, rfl, ?_⟩
  · show 1 ≤ s.jdn - r.first + 1
    omega
  · show s.jdn - r.first + 1 ≤ r.dayCount
    omega
  · show r.first + (s.jdn - r.first + 1 - 1) = s.jdn
    omega
  · exact (hc.recs r hr).2.2.2.1

end Model
