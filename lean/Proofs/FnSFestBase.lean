/-
Proofs.FnSFestBase — keys of the festival maps: rendering is injective; integer-keyed model lookup = Go map read (string-mode generated code with atoms = model; split from the worker's FnSFest; helper prefix `sf_`).
-/
import Proofs.FnSBase
import Proofs.FnCivil1
import Model.CivilFest
import Model.Season
import Model.TaoFoto
import Model.Week

namespace FnSEq
open FnEq
open Gen.Fn (Err)
open Gen.Tables

/-! ### 0. map keys `"%d-%d"`, `"%d-%d-%d"`: rendering is injective -/

/-- `fmt.Sprintf("%d-%d", m, d)` -/
def sf_k2 (m d : Int) : String := Gen.FnS.fmtD m ++ "-" ++ Gen.FnS.fmtD d
/-- `fmt.Sprintf("%d-%d-%d", a, b, c)` -/
def sf_k3 (a b c : Int) : String := Gen.FnS.fmtD a ++ "-" ++ Gen.FnS.fmtD b ++ "-" ++ Gen.FnS.fmtD c

/-- the characters of `%d` -/
def sf_intC (n : Int) : List Char :=
  if 0 ≤ n then Nat.toDigits 10 n.toNat else '-' :: Nat.toDigits 10 (-n).toNat

theorem sf_fmtD_toList (n : Int) : (Gen.FnS.fmtD n).toList = sf_intC n := by
  show (toString n).toList = _
  rw [Int.toString_eq_repr, Int.repr_eq_if]
  unfold sf_intC
  by_cases h : 0 ≤ n
  · simp [h]
  · simp [h, String.toList_append]

theorem sf_k2_toList (m d : Int) : (sf_k2 m d).toList = sf_intC m ++ '-' :: sf_intC d := by
  simp [sf_k2, String.toList_append, sf_fmtD_toList]

theorem sf_k3_toList (a b c : Int) :
    (sf_k3 a b c).toList = sf_intC a ++ '-' :: (sf_intC b ++ '-' :: sf_intC c) := by
  simp [sf_k3, String.toList_append, sf_fmtD_toList]

/-- a maximal digit prefix is unique -/
theorem sf_span : ∀ (x y r s : List Char), (∀ c ∈ x, c.isDigit = true) → (∀ c ∈ y, c.isDigit = true) →
    (∀ c ∈ r.head?, c.isDigit = false) → (∀ c ∈ s.head?, c.isDigit = false) →
    x ++ r = y ++ s → x = y ∧ r = s := by
  intro x
  induction x with
  | nil =>
    intro y r s _ hy hr _ h
    cases y with
    | nil => exact ⟨rfl, by simpa using h⟩
    | cons c y =>
      exfalso
      simp only [List.nil_append] at h
      subst h
      have h1 := hr c (by simp)
      have h2 := hy c (by simp)
      rw [h1] at h2; exact Bool.noConfusion h2
  | cons a x ih =>
    intro y r s hx hy hr hs h
    cases y with
    | nil =>
      exfalso
      simp only [List.nil_append] at h
      subst h
      have h1 := hs a (by simp)
      have h2 := hx a (by simp)
      rw [h1] at h2; exact Bool.noConfusion h2
    | cons c y =>
      simp only [List.cons_append, List.cons.injEq] at h
      obtain ⟨hac, ht⟩ := h
      have := ih y r s (fun c hc => hx c (by simp [hc])) (fun c hc => hy c (by simp [hc])) hr hs ht
      exact ⟨by rw [hac, this.1], this.2⟩

theorem sf_digits_isDigit (n : Nat) : ∀ c ∈ Nat.toDigits 10 n, c.isDigit = true :=
  fun _ hc => Nat.isDigit_of_mem_toDigits (by decide) (by decide) hc

theorem sf_toDigits_inj (a b : Nat) (h : Nat.toDigits 10 a = Nat.toDigits 10 b) : a = b := by
  have := congrArg (fun l => Nat.ofDigitChars 10 l 0) h
  simpa using this

theorem sf_digits_head (n : Nat) : ∃ c t, Nat.toDigits 10 n = c :: t ∧ c.isDigit = true := by
  cases h : Nat.toDigits 10 n with
  | nil => exact absurd h Nat.toDigits_ne_nil
  | cons c t => exact ⟨c, t, rfl, sf_digits_isDigit n c (by simp [h])⟩

/-- `%d` followed by a non-digit (or nothing) determines the number and the rest -/
theorem sf_intC_inj (a c : Int) (r s : List Char)
    (hr : ∀ x ∈ r.head?, x.isDigit = false) (hs : ∀ x ∈ s.head?, x.isDigit = false)
    (h : sf_intC a ++ r = sf_intC c ++ s) : a = c ∧ r = s := by
  unfold sf_intC at h
  by_cases ha : 0 ≤ a <;> by_cases hc : 0 ≤ c
  · rw [if_pos ha, if_pos hc] at h
    have := sf_span _ _ r s (sf_digits_isDigit _) (sf_digits_isDigit _) hr hs h
    exact ⟨by have := sf_toDigits_inj _ _ this.1; omega, this.2⟩
  · exfalso
    rw [if_pos ha, if_neg hc] at h
    obtain ⟨x, t, hx, hd⟩ := sf_digits_head a.toNat
    rw [hx] at h
    simp only [List.cons_append, List.cons.injEq] at h
    rw [h.1] at hd; exact absurd hd (by decide)
  · exfalso
    rw [if_neg ha, if_pos hc] at h
    obtain ⟨x, t, hx, hd⟩ := sf_digits_head c.toNat
    rw [hx] at h
    simp only [List.cons_append, List.cons.injEq] at h
    rw [← h.1] at hd; exact absurd hd (by decide)
  · rw [if_neg ha, if_neg hc] at h
    simp only [List.cons_append, List.cons.injEq, true_and] at h
    have := sf_span _ _ r s (sf_digits_isDigit _) (sf_digits_isDigit _) hr hs h
    exact ⟨by have := sf_toDigits_inj _ _ this.1; omega, this.2⟩

theorem sf_k2_inj (a b c d : Int) (h : sf_k2 a b = sf_k2 c d) : a = c ∧ b = d := by
  have h' := congrArg String.toList h
  rw [sf_k2_toList, sf_k2_toList] at h'
  have h1 := sf_intC_inj a c _ _ (by simp) (by simp) h'
  have h2 : sf_intC b ++ [] = sf_intC d ++ [] := by simpa using h1.2
  exact ⟨h1.1, (sf_intC_inj b d [] [] (by simp) (by simp) h2).1⟩

theorem sf_k3_inj (a b c a' b' c' : Int) (h : sf_k3 a b c = sf_k3 a' b' c') : a = a' ∧ b = b' ∧ c = c' := by
  have h' := congrArg String.toList h
  rw [sf_k3_toList, sf_k3_toList] at h'
  have h1 := sf_intC_inj a a' _ _ (by simp) (by simp) h'
  have h2 : sf_intC b ++ '-' :: sf_intC c = sf_intC b' ++ '-' :: sf_intC c' := by simpa using h1.2
  have h3 := sf_intC_inj b b' _ _ (by simp) (by simp) h2
  have h4 : sf_intC c ++ [] = sf_intC c' ++ [] := by simpa using h3.2
  exact ⟨h1.1, h3.1, (sf_intC_inj c c' [] [] (by simp) (by simp) h4).1⟩

/-! ### 0b. the model's integer-keyed lookup = the Go map read on the rendered key -/

/-- generic bridge: if the table's string keys are the renderings of `keys` and the rendering does not
confuse the query with a different key, `lookupI` on integers is `lookupS` on the rendered string -/
theorem sf_lookupI_eq {α : Type} (enc : List Int → String) (k : List Int) :
    ∀ (keys : List (List Int)) (T : List (String × α)), T.map Prod.fst = keys.map enc →
      (∀ a ∈ keys, enc a = enc k → a = k) →
      Model.lookupI keys T k = Model.lookupS T (enc k) := by
  intro keys
  induction keys with
  | nil =>
    intro T hk _
    have : T = [] := by simpa using hk
    subst this; rfl
  | cons a ks ih =>
    intro T hk hinj
    cases T with
    | nil => simp at hk
    | cons t ts =>
      simp only [List.map_cons, List.cons.injEq] at hk
      obtain ⟨ht, hts⟩ := hk
      have ih' := ih ts hts (fun a ha => hinj a (by simp [ha]))
      unfold Model.lookupI Model.lookupS at ih' ⊢
      simp only [List.zip_cons_cons, List.find?_cons]
      by_cases hak : a = k
      · subst hak
        simp [ht]
      · have h1 : (a == k) = false := by simpa using hak
        have h2 : (t.1 == enc k) = false := by
          rw [ht]; simpa using fun e => hak (hinj a (by simp) e)
        simp only [h1, h2]
        exact ih'

def sf_enc2 : List Int → String
  | [m, d] => sf_k2 m d
  | _ => ""
def sf_enc3 : List Int → String
  | [a, b, c] => sf_k3 a b c
  | _ => ""

theorem sf_lookupI2 {α : Type} (keys : List (List Int)) (T : List (String × α))
    (hk : T.map Prod.fst = keys.map sf_enc2) (hlen : keys.all (fun a => a.length == 2) = true) (m d : Int) :
    Model.lookupI keys T [m, d] = Model.lookupS T (sf_k2 m d) := by
  refine sf_lookupI_eq sf_enc2 [m, d] keys T hk ?_
  intro a ha he
  have h2 : a.length = 2 := by simpa using List.all_eq_true.mp hlen a ha
  match a, h2 with
  | [x, y], _ =>
    have := sf_k2_inj x y m d he
    rw [this.1, this.2]

theorem sf_lookupI3 {α : Type} (keys : List (List Int)) (T : List (String × α))
    (hk : T.map Prod.fst = keys.map sf_enc3) (hlen : keys.all (fun a => a.length == 3) = true) (a b c : Int) :
    Model.lookupI keys T [a, b, c] = Model.lookupS T (sf_k3 a b c) := by
  refine sf_lookupI_eq sf_enc3 [a, b, c] keys T hk ?_
  intro x hx he
  have h3 : x.length = 3 := by simpa using List.all_eq_true.mp hlen x hx
  match x, h3 with
  | [p, q, r], _ =>
    have := sf_k3_inj p q r a b c he
    rw [this.1, this.2.1, this.2.2]

/-- `v, ok := M[k]; if ok { l = append(l, v) }` as a list, in the model's terms -/
theorem sf_optList (T : List (String × String)) (k : String) :
    (if Gen.FnS.mhas T k = true then [Gen.FnS.mlookupS T k] else [])
      = (match Model.lookupS T k with | some f => [f] | none => []) := by
  rw [mhas_eq, mlookupS_eq_lookupStr]
  unfold Model.lookupStr
  cases Model.lookupS T k <;> rfl

/-- a value read under `ok` is the value of some entry -/
theorem sf_lookupS_mem {α : Type} (T : List (String × α)) (k : String) (v : α) (h : Model.lookupS T k = some v) :
    ∃ p ∈ T, p.2 = v := by
  unfold Model.lookupS at h
  cases hf : T.find? (fun p => p.1 == k) with
  | none => simp [hf] at h
  | some p =>
    simp only [hf, Option.some.injEq] at h
    exact ⟨p, List.mem_of_find?_eq_some hf, h⟩


end FnSEq
