/-
Proofs.SeasonSpec — closed forms of the seasonal counters and movable festivals of `Model.Season`:
nine-nines (`shuJiu`), dog days (`fu`), pentads (`hou`, `wuHou`), 寒食节 / 春社 / 秋社
(`otherFestivals`) and 除夕 (`festivals`).
-/
import Model.Season
import Model.AstroWF
import Proofs.JieQiSpec
set_option linter.unusedVariables false
namespace Model
open Gen.Tables

/-! ## civil helpers -/

/-- `isBefore` is stamp order on all valid dates (no year bound) -/
theorem isBefore_iff_all (s o : Solar) (hs : s.valid = true) (ho : o.valid = true) :
    s.isBefore o = true ↔ s.stamp < o.stamp := by
  unfold Solar.isBefore
  have h1 := jdn_lt_iff_lex_all _ _ _ _ _ _ (valid_parts s hs).1 (valid_parts o ho).1
  have h2 := jdn_lt_iff_lex_all _ _ _ _ _ _ (valid_parts o ho).1 (valid_parts s hs).1
  exact lexLt6_aux _ _ _ _ _ _ _ _ _ _ _ _ _ _ h1 h2 (hms_bounds s hs) (hms_bounds o ho)

theorem isAfter_iff_all (s o : Solar) (hs : s.valid = true) (ho : o.valid = true) :
    s.isAfter o = true ↔ o.stamp < s.stamp := by
  unfold Solar.isAfter
  have h1 := jdn_lt_iff_lex_all _ _ _ _ _ _ (valid_parts s hs).1 (valid_parts o ho).1
  have h2 := jdn_lt_iff_lex_all _ _ _ _ _ _ (valid_parts o ho).1 (valid_parts s hs).1
  exact lexLt6_aux _ _ _ _ _ _ _ _ _ _ _ _ _ _ h2 h1 (hms_bounds o ho) (hms_bounds s hs)

/-- a valid date at 00:00:00 -/
def Mid (s : Solar) : Prop := s.valid = true ∧ s.hour = 0 ∧ s.minute = 0 ∧ s.second = 0

theorem mid_midnight (s : Solar) (hv : s.valid = true) : Mid (midnight s) ∧ (midnight s).jdn = s.jdn := by
  refine ⟨⟨?_, rfl, rfl, rfl⟩, rfl⟩
  have := (valid_parts s hv).1
  unfold Solar.valid midnight
  simp only [this, Bool.true_and]
  decide

theorem mid_next (s : Solar) (n : Int) (h : Mid s) :
    ∃ r, s.nextDay n = some r ∧ Mid r ∧ r.jdn = s.jdn + n := by
  obtain ⟨r, e, hv, hj, a1, a2, a3⟩ := nextDay_spec_strong s n h.1
  exact ⟨r, e, ⟨hv, by rw [a1, h.2.1], by rw [a2, h.2.2.1], by rw [a3, h.2.2.2]⟩, hj⟩

theorem mid_stamp (s : Solar) (h : Mid s) : s.stamp = s.jdn * 86400 := by
  unfold Solar.stamp Solar.secOfDay
  rw [h.2.1, h.2.2.1, h.2.2.2]; omega

theorem mid_before (a b : Solar) (ha : Mid a) (hb : Mid b) : a.isBefore b = decide (a.jdn < b.jdn) := by
  have := isBefore_iff_all a b ha.1 hb.1
  rw [mid_stamp a ha, mid_stamp b hb] at this
  by_cases h : a.jdn < b.jdn
  · simp only [h, decide_true]; exact this.2 (by omega)
  · simp only [h, decide_false]
    cases hb' : a.isBefore b with
    | false => rfl
    | true => have := this.1 hb'; omega

theorem mid_after (a b : Solar) (ha : Mid a) (hb : Mid b) : a.isAfter b = decide (b.jdn < a.jdn) := by
  have := isAfter_iff_all a b ha.1 hb.1
  rw [mid_stamp a ha, mid_stamp b hb] at this
  by_cases h : b.jdn < a.jdn
  · simp only [h, decide_true]; exact this.2 (by omega)
  · simp only [h, decide_false]
    cases hb' : a.isAfter b with
    | false => rfl
    | true => have := this.1 hb'; omega

/-- `Subtract` of valid dates is the difference of day numbers (no year bound; same statement as
`subtract_eq_all` of `Proofs/Convert.lean`, re-proved here so that this file does not depend on it) -/
theorem sub_eq_jdn (s o : Solar) (hs : s.valid = true) (ho : o.valid = true) :
    s.subtract o = some (s.jdn - o.jdn) := by
  have ha := (valid_parts o ho).1
  have hb := (valid_parts s hs).1
  unfold Solar.subtract Solar.jdn daysBetween
  rw [daysInYear_eq _ _ _ ha, daysInYear_eq _ _ _ hb]
  simp only
  by_cases he : o.year = s.year
  · simp only [he, if_true]
    congr 1; omega
  · simp only [he, if_false]
    by_cases hgt : o.year > s.year
    · simp only [hgt, if_true]
      rw [yearsLoop_eq]
      have := jdn_year_len_all s.year
      rw [show s.year + 1 + ((o.year - s.year - 1).toNat : Int) = o.year by omega]
      congr 1; omega
    · simp only [hgt, if_false]
      rw [yearsLoop_eq]
      have := jdn_year_len_all o.year
      rw [show o.year + 1 + ((s.year - o.year - 1).toNat : Int) = s.year by omega]
      congr 1; omega

theorem mid_sub (a b : Solar) (ha : Mid a) (hb : Mid b) : a.subtract b = some (a.jdn - b.jdn) :=
  sub_eq_jdn a b ha.1 hb.1

/-! ## the term table -/

theorem tb_dongzhi (ts : List Solar) : termByName ts "DONG_ZHI" = ts.getD 25 nilSolar := by
  have : termIndex "DONG_ZHI" = some 25 := by decide
  simp only [termByName, this]

theorem tb_dongzhi0 (ts : List Solar) : termByName ts "冬至" = ts.getD 1 nilSolar := by
  have : termIndex "冬至" = some 1 := by decide
  simp only [termByName, this]

theorem tb_lichun (ts : List Solar) : termByName ts "立春" = ts.getD 4 nilSolar := by
  have : termIndex "立春" = some 4 := by decide
  simp only [termByName, this]

theorem tb_qingming (ts : List Solar) : termByName ts "清明" = ts.getD 8 nilSolar := by
  have : termIndex "清明" = some 8 := by decide
  simp only [termByName, this]

theorem tb_xiazhi (ts : List Solar) : termByName ts "夏至" = ts.getD 13 nilSolar := by
  have : termIndex "夏至" = some 13 := by decide
  simp only [termByName, this]

theorem tb_liqiu (ts : List Solar) : termByName ts "立秋" = ts.getD 16 nilSolar := by
  have : termIndex "立秋" = some 16 := by decide
  simp only [termByName, this]

theorem term_stampValid (y : Int) (ts : List Solar) (hts : termsOk y ts = true) (i : Nat) (hi : i < 31) :
    stampValid (ts.getD i nilSolar) = true := by
  obtain ⟨hl, hv, _, _⟩ := termsOk_facts y ts hts
  have h : i < ts.length := by omega
  rw [getD_eq_getElem' _ _ _ h]
  exact hv _ (List.getElem_mem h)

theorem term_valid (y : Int) (ts : List Solar) (hts : termsOk y ts = true) (i : Nat) (hi : i < 31) :
    (ts.getD i nilSolar).valid = true :=
  (stampValid_parts _ (term_stampValid y ts hts i hi)).1

/-! ## nine-nines -/

theorem shuJiu_core (cur start : Solar) (hc : Mid cur) (hs : Mid start) (f : Int → String × Int) :
    (match start.nextDay 81 with
      | none => none
      | some end_ =>
        if cur.isBefore start || !cur.isBefore end_ then some none
        else
          match cur.subtract start with
          | none => none
          | some days => some (some (f days))) =
      some (if 0 ≤ cur.jdn - start.jdn ∧ cur.jdn - start.jdn < 81 then some (f (cur.jdn - start.jdn)) else none) := by
  obtain ⟨e, he, hme, hje⟩ := mid_next start 81 hs
  rw [he]
  simp only [mid_before _ _ hc hs, mid_before _ _ hc hme, mid_sub _ _ hc hs, hje]
  by_cases h1 : cur.jdn < start.jdn
  · have : ¬ (0 ≤ cur.jdn - start.jdn ∧ cur.jdn - start.jdn < 81) := by omega
    rw [if_neg this]
    simp only [h1, decide_true, Bool.true_or, if_true]
  · by_cases h2 : cur.jdn < start.jdn + 81
    · have : (0 ≤ cur.jdn - start.jdn ∧ cur.jdn - start.jdn < 81) := by omega
      rw [if_pos this]
      simp only [h1, h2, decide_true, decide_false, Bool.not_true, Bool.or_self, Bool.false_eq_true, if_false]
    · have : ¬ (0 ≤ cur.jdn - start.jdn ∧ cur.jdn - start.jdn < 81) := by omega
      rw [if_neg this]
      simp only [h1, h2, decide_false, Bool.not_false, Bool.or_true, if_true]

/-- NINE-NINES: with S = day number of the applicable winter-solstice day (this December's 冬至 = entry 25 if today is on or after it, else last December's = entry 1) and k = today − S:
    defined exactly on 0 ≤ k < 81, name NUMBER[k/9+1] ++ "九", index k%9+1; absent otherwise -/
theorem shuJiu_spec (y : Int) (l : Lunar) (hts : termsOk y l.terms = true) (hnow : stampValid l.solar = true) :
    let S := if (l.terms.getD 25 nilSolar).jdn ≤ l.solar.jdn then (l.terms.getD 25 nilSolar).jdn else (l.terms.getD 1 nilSolar).jdn
    let k := l.solar.jdn - S
    l.shuJiu = some (if 0 ≤ k ∧ k < 81 then some (strGetD Gen.Tables.LunarUtil.NUMBER (k / 9 + 1) ++ "九", k % 9 + 1) else none) := by
  intro S k
  obtain ⟨hc, hcj⟩ := mid_midnight l.solar (stampValid_parts _ hnow).1
  obtain ⟨h25, h25j⟩ := mid_midnight _ (term_valid y l.terms hts 25 (by omega))
  obtain ⟨h1, h1j⟩ := mid_midnight _ (term_valid y l.terms hts 1 (by omega))
  unfold Lunar.shuJiu
  simp only [tb_dongzhi, tb_dongzhi0, mid_before _ _ hc h25, hcj, h25j]
  by_cases hle : (l.terms.getD 25 nilSolar).jdn ≤ l.solar.jdn
  · have hn : ¬ l.solar.jdn < (l.terms.getD 25 nilSolar).jdn := by omega
    have hS : S = (l.terms.getD 25 nilSolar).jdn := by simp only [S, hle, if_true]
    simp only [hn, decide_false, Bool.false_eq_true, if_false]
    have := shuJiu_core _ _ hc h25 (fun days => (strGetD LunarUtil.NUMBER (days / 9 + 1) ++ "九", days % 9 + 1))
    rw [hcj, h25j] at this
    simp only [k, hS]
    exact this
  · have hn : l.solar.jdn < (l.terms.getD 25 nilSolar).jdn := by omega
    have hS : S = (l.terms.getD 1 nilSolar).jdn := by simp only [S, hle, if_false]
    simp only [hn, decide_true, if_true]
    have := shuJiu_core _ _ hc h1 (fun days => (strGetD LunarUtil.NUMBER (days / 9 + 1) ++ "九", days % 9 + 1))
    rw [hcj, h1j] at this
    simp only [k, hS]
    exact this


/-! ## dog days -/

/-- the geng-day facts behind it: G is a geng day, the first one on or after the solstice day -/
theorem geng_first (n : Int) : ((n + (6 - (n - 11) % 10) % 10) - 11) % 10 = 6 ∧ 0 ≤ (6 - (n - 11) % 10) % 10 ∧ (6 - (n - 11) % 10) % 10 ≤ 9 := by
  omega

theorem fu_core (cur xzm lq : Solar) (add : Int) (hc : Mid cur) (hx : Mid xzm) (hl : Mid lq) :
    (match xzm.nextDay add with
      | none => none
      | some start =>
        if cur.isBefore start then some none
        else
          match cur.subtract start with
          | none => none
          | some days =>
            if days < 10 then some (some ("初伏", days + 1))
            else
              match start.nextDay 10 with
              | none => none
              | some start2 =>
                match cur.subtract start2 with
                | none => none
                | some days2 =>
                  if days2 < 10 then some (some ("中伏", days2 + 1))
                  else
                    match start2.nextDay 10 with
                    | none => none
                    | some start3 =>
                      match cur.subtract start3 with
                      | none => none
                      | some days3 =>
                        if lq.isAfter start3 then
                          if days3 < 10 then some (some ("中伏", days3 + 11))
                          else
                            match start3.nextDay 10 with
                            | none => none
                            | some start4 =>
                              match cur.subtract start4 with
                              | none => none
                              | some days4 => if days4 < 10 then some (some ("末伏", days4 + 1)) else some none
                        else if days3 < 10 then some (some ("末伏", days3 + 1)) else some none) =
      some (
        if cur.jdn - (xzm.jdn + add) < 0 then none
        else if cur.jdn - (xzm.jdn + add) < 10 then some ("初伏", cur.jdn - (xzm.jdn + add) + 1)
        else if cur.jdn - (xzm.jdn + add) < 20 then some ("中伏", cur.jdn - (xzm.jdn + add) - 9)
        else if decide (lq.jdn > xzm.jdn + add + 20) then
          (if cur.jdn - (xzm.jdn + add) < 30 then some ("中伏", cur.jdn - (xzm.jdn + add) - 9)
           else if cur.jdn - (xzm.jdn + add) < 40 then some ("末伏", cur.jdn - (xzm.jdn + add) - 29) else none)
        else (if cur.jdn - (xzm.jdn + add) < 30 then some ("末伏", cur.jdn - (xzm.jdn + add) - 19) else none)) := by
  obtain ⟨s1, e1, m1, j1⟩ := mid_next xzm add hx
  obtain ⟨s2, e2, m2, j2⟩ := mid_next s1 10 m1
  obtain ⟨s3, e3, m3, j3⟩ := mid_next s2 10 m2
  obtain ⟨s4, e4, m4, j4⟩ := mid_next s3 10 m3
  simp only [e1, e2, e3, e4, mid_before _ _ hc m1, mid_sub _ _ hc m1, mid_sub _ _ hc m2, mid_sub _ _ hc m3,
    mid_sub _ _ hc m4, mid_after _ _ hl m3, decide_eq_true_eq]
  rw [j4, j3, j2, j1]
  generalize cur.jdn = c
  generalize xzm.jdn = x
  generalize lq.jdn = q
  repeat' split
  all_goals first
    | rfl
    | omega
    | (simp only [Option.some.injEq, Prod.mk.injEq, true_and]; omega)

/-- DOG DAYS: G = first geng day (day stem 6) on or after the summer-solstice day; first period starts at G+20 (third geng day) and lasts 10 days;
    middle period starts at G+30 and lasts 20 days if the Liqiu day is after G+40 (the fifth geng day), else 10; last period follows and lasts 10 days;
    day index counts from 1 within each period; absent outside. -/
theorem fu_spec (y : Int) (l : Lunar) (hts : termsOk y l.terms = true) (hnow : stampValid l.solar = true) :
    let xz := (l.terms.getD 13 nilSolar).jdn
    let G := xz + (6 - (xz - 11) % 10) % 10
    let D := l.solar.jdn - (G + 20)
    let long : Bool := decide ((l.terms.getD 16 nilSolar).jdn > G + 40)
    l.fu = some (
      if D < 0 then none
      else if D < 10 then some ("初伏", D + 1)
      else if D < 20 then some ("中伏", D - 9)
      else if long then (if D < 30 then some ("中伏", D - 9) else if D < 40 then some ("末伏", D - 29) else none)
      else (if D < 30 then some ("末伏", D - 19) else none)) := by
  intro xz G D long
  obtain ⟨hc, hcj⟩ := mid_midnight l.solar (stampValid_parts _ hnow).1
  obtain ⟨h13, h13j⟩ := mid_midnight _ (term_valid y l.terms hts 13 (by omega))
  obtain ⟨h16, h16j⟩ := mid_midnight _ (term_valid y l.terms hts 16 (by omega))
  have hadd : (if 6 - dayGanOf (l.terms.getD 13 nilSolar) < 0 then 6 - dayGanOf (l.terms.getD 13 nilSolar) + 10
      else 6 - dayGanOf (l.terms.getD 13 nilSolar)) + 20 = (6 - (xz - 11) % 10) % 10 + 20 := by
    have : dayGanOf (l.terms.getD 13 nilSolar) = (xz - 11) % 10 := rfl
    rw [this]
    split <;> omega
  have core := fu_core _ _ _ ((6 - (xz - 11) % 10) % 10 + 20) hc h13 h16
  rw [hcj, h13j, h16j] at core
  have hG : xz + ((6 - (xz - 11) % 10) % 10 + 20) = G + 20 := by simp only [G]; omega
  have hG2 : G + 20 + 20 = G + 40 := by omega
  unfold Lunar.fu
  simp only [tb_xiazhi, tb_liqiu, hadd]
  refine Eq.trans core ?_
  rw [hG, hG2]

/-! ## pentads -/

theorem wuHou_len : Gen.Tables.LunarUtil.WU_HOU.length = 72 ∧ Gen.Tables.LunarUtil.HOU.length = 3 := by
  decide

theorem jieqi_idx : (List.range 31).all (fun i =>
    calendar.JIE_QI.findIdx? (· == convertJieQi (calendar.JIE_QI_IN_USE.getD i "")) == some ((i + 23) % 24)) = true := by
  decide

theorem jieqi_idx_at (i : Nat) (hi : i < 31) :
    calendar.JIE_QI.findIdx? (· == convertJieQi (calendar.JIE_QI_IN_USE.getD i "")) = some ((i + 23) % 24) := by
  have := jieqi_idx
  rw [List.all_eq_true] at this
  exact eq_of_beq (this i (List.mem_range.mpr hi))

theorem filter_getLast {α : Type} (p : α → Bool) (L : List α) (i : Nat) (hi : i < L.length) (hp : p L[i] = true)
    (hn : ∀ j (hj : j < L.length), i < j → p L[j] = false) : (L.filter p).getLast? = some L[i] := by
  have hd : (L.drop (i + 1)).filter p = [] := by
    rw [List.filter_eq_nil_iff]
    intro a ha
    obtain ⟨k, hk, rfl⟩ := List.mem_iff_getElem.mp ha
    rw [List.getElem_drop]
    rw [List.length_drop] at hk
    rw [hn (i + 1 + k) (by omega) (by omega)]
    exact Bool.false_ne_true
  have hs : L = L.take i ++ L[i] :: L.drop (i + 1) := by
    rw [← List.drop_eq_getElem_cons hi, List.take_append_drop]
  calc (L.filter p).getLast? = ((L.take i ++ L[i] :: L.drop (i + 1)).filter p).getLast? := by rw [← hs]
    _ = some L[i] := by
      rw [List.filter_append, List.filter_cons, hp, if_pos rfl, hd]
      simp

/-- the latest term on or before today's civil day, as `GetPrevJieQi(true)` finds it -/
theorem prevJieQi_day (y : Int) (l : Lunar) (hts : termsOk y l.terms = true) (hnow : stampValid l.solar = true)
    (i : Nat) (hi : i < 31) (hle : dayKey (l.terms.getD i nilSolar) ≤ dayKey l.solar)
    (hnext : ∀ j, i < j → j < 31 → dayKey l.solar < dayKey (l.terms.getD j nilSolar)) :
    l.prevJieQi true = some (convertJieQi (calendar.JIE_QI_IN_USE.getD i ""), l.terms.getD i nilSolar) := by
  obtain ⟨hl, _⟩ := termsOk_facts y l.terms hts
  have hlen := entries_length l.terms hl
  have hsel : selected [] l.terms = termEntries l.terms := by
    unfold selected
    simp only [List.isEmpty_nil, Bool.true_or]
    exact List.filter_eq_self.mpr (fun _ _ => rfl)
  have hi' : i < (termEntries l.terms).length := by omega
  have key := filter_getLast (fun e : String × Solar => decide (dayKey e.2 ≤ dayKey l.solar)) (termEntries l.terms) i hi'
    (by rw [entries_get l.terms hl i hi hi']; simp only [decide_eq_true_eq]; exact hle)
    (by
      intro j hj hij
      rw [entries_get l.terms hl j (by omega) hj]
      have := hnext j hij (by omega)
      simp only [decide_eq_false_iff_not]
      omega)
  unfold Lunar.prevJieQi
  rw [near_backward_day y l [] hts hnow, hsel, key, entries_get l.terms hl i hi hi']
  rfl

/-- PENTADS: P = the latest term (any of the 31) whose civil day is on or before today, i = its index in the table, k = today − its day:
    hou = name ++ " " ++ HOU[min 2 (k/5)], wuHou = WU_HOU[(3·c + min 2 (k/5)) % 72] where c = position of the (converted) name in the 24-name cycle JIE_QI.
    (The statement handed out read `strGetD WU_HOU (…) % 72`, which parses as `(strGetD WU_HOU (…)) % 72` and does not
    type-check; the `% 72` belongs inside the index, as here.) -/
theorem hou_spec (y : Int) (l : Lunar) (hts : termsOk y l.terms = true) (hnow : stampValid l.solar = true)
    (i : Nat) (hi : i < 31) (hle : dayKey (l.terms.getD i nilSolar) ≤ dayKey l.solar)
    (hnext : ∀ j, i < j → j < 31 → dayKey l.solar < dayKey (l.terms.getD j nilSolar)) :
    let k := l.solar.jdn - (l.terms.getD i nilSolar).jdn
    let name := convertJieQi (Gen.Tables.calendar.JIE_QI_IN_USE.getD i "")
    l.hou = some (name ++ " " ++ strGetD Gen.Tables.LunarUtil.HOU (if k / 5 > 2 then 2 else k / 5)) ∧
    l.wuHou = some (strGetD Gen.Tables.LunarUtil.WU_HOU
      (((((i + 23) % 24 : Nat) : Int) * 3 + (if k / 5 > 2 then 2 else k / 5)) % 72)) := by
  intro k name
  have hp := prevJieQi_day y l hts hnow i hi hle hnext
  have hsub := sub_eq_jdn l.solar (l.terms.getD i nilSolar) (stampValid_parts _ hnow).1 (term_valid y l.terms hts i hi)
  have h3 : (LunarUtil.HOU.length : Int) - 1 = 2 := by decide
  have h72 : (LunarUtil.WU_HOU.length : Int) = 72 := by decide
  constructor
  · unfold Lunar.hou
    rw [hp]
    simp only [hsub, h3]
    rfl
  · unfold Lunar.wuHou
    rw [hp]
    simp only [hsub, h72, jieqi_idx_at i hi]
    rfl

/-! ## cold food and she days -/

theorem allAdj_get_season {α : Type} (f : α → α → Bool) :
    ∀ (l : List α), allAdj f l = true → ∀ i (h : i + 1 < l.length), f (l[i]'(by omega)) l[i + 1] = true := by
  intro l
  induction l with
  | nil => intro _ i h; simp at h
  | cons a t ih =>
    cases t with
    | nil => intro _ i h; simp at h
    | cons b r =>
      intro hadj i h
      simp only [allAdj, Bool.and_eq_true] at hadj
      cases i with
      | zero => exact hadj.1
      | succ k =>
        have := ih hadj.2 k (by simp only [List.length_cons] at h ⊢; omega)
        simpa only [List.getElem_cons_succ] using this

/-- consecutive terms are at least 14 civil days apart -/
theorem term_gap (y : Int) (ts : List Solar) (hts : termsOk y ts = true) (i : Nat) (hi : i + 1 < 31) :
    (ts.getD i nilSolar).jdn + 14 ≤ (ts.getD (i + 1) nilSolar).jdn := by
  have ha := hms_bounds _ (term_valid y ts hts i (by omega))
  have hb := hms_bounds _ (term_valid y ts hts (i + 1) hi)
  obtain ⟨hl, _⟩ := termsOk_facts y ts hts
  unfold termsOk at hts
  simp only [Bool.and_eq_true] at hts
  have h1 : i < ts.length := by omega
  have h2 : i + 1 < ts.length := by omega
  have := allAdj_get_season _ ts hts.1.2 i h2
  simp only [Bool.and_eq_true, decide_eq_true_eq] at this
  simp only [getD_eq_getElem' _ _ _ h1, getD_eq_getElem' _ _ _ h2] at ha hb ⊢
  have hg := this.1.2
  unfold Solar.stamp Solar.secOfDay at hg
  omega

theorem year_le_of_jdn_le (a b : Solar) (ha : a.valid = true) (hb : b.valid = true) (h : a.jdn ≤ b.jdn) :
    a.year ≤ b.year := by
  by_cases hc : a.year ≤ b.year
  · exact hc
  · have := (jdn_lt_iff_lex_all _ _ _ _ _ _ (valid_parts b hb).1 (valid_parts a ha).1).2 (Or.inl (by omega))
    unfold Solar.jdn at h
    omega

theorem stampValid_between (r a b : Solar) (hr : r.valid = true) (ha : stampValid a = true) (hb : stampValid b = true)
    (h1 : a.jdn ≤ r.jdn) (h2 : r.jdn ≤ b.jdn) : stampValid r = true := by
  obtain ⟨va, a0, _⟩ := stampValid_parts a ha
  obtain ⟨vb, _, b1⟩ := stampValid_parts b hb
  have := year_le_of_jdn_le a r va hr h1
  have := year_le_of_jdn_le r b hr vb h2
  unfold stampValid
  simp only [hr, Bool.true_and, Bool.and_eq_true, decide_eq_true_eq]
  omega

theorem cmp_eq_iff (x y : Int) : (compare x y == Ordering.eq) = decide (x = y) := by
  by_cases h : x < y
  · have : ¬ x = y := by omega
    simp [Int.compare_eq_lt.mpr h, this]
  · by_cases h2 : y < x
    · have : ¬ x = y := by omega
      simp [Int.compare_eq_gt.mpr h2, this]
    · have : x = y := by omega
      subst this; simp

/-- equality of the printed short forms = same civil day -/
theorem ymd_eq_iff (a b : Solar) (ha : stampValid a = true) (hb : stampValid b = true) :
    (cmpChars a.toYmd b.toYmd == Ordering.eq) = decide (a.jdn = b.jdn) := by
  rw [cmp_toYmd a b (stampValid_inWidth a ha) (stampValid_inWidth b hb), cmp_eq_iff]
  have ba := stampValid_bounds a ha
  have bb := stampValid_bounds b hb
  have va := (valid_parts a (stampValid_parts a ha).1).1
  have vb := (valid_parts b (stampValid_parts b hb).1).1
  by_cases h : a.jdn = b.jdn
  · obtain ⟨e1, e2, e3⟩ := jdn_inj_all _ _ _ _ _ _ va vb h
    simp only [h, decide_true, key8, e1, e2, e3]
  · have : ¬ key8 a = key8 b := by
      intro hk
      unfold key8 at hk
      have e1 : a.year = b.year := by omega
      have e2 : a.month = b.month := by omega
      have e3 : a.day = b.day := by omega
      apply h
      unfold Solar.jdn
      rw [e1, e2, e3]
    simp only [h, this, decide_false]

theorem she_off (s : Solar) :
    (if 4 - dayGanOf s < 0 then 4 - dayGanOf s + 10 else 4 - dayGanOf s) = (4 - (s.jdn - 11) % 10) % 10 := by
  have : dayGanOf s = (s.jdn - 11) % 10 := rfl
  rw [this]
  split <;> omega

/-- COLD FOOD and SHE days: reported exactly on the day before the Qingming day / on the fifth wu day (stem 4) counted from the Lichun / Liqiu day -/
theorem otherFestivals_spec (y : Int) (l : Lunar) (hts : termsOk y l.terms = true) (hnow : stampValid l.solar = true) :
    ∃ base, l.otherFestivals = some (base ++
        (if l.solar.jdn = (l.terms.getD 8 nilSolar).jdn - 1 then ["寒食节"] else []) ++
        (if l.solar.jdn = (l.terms.getD 4 nilSolar).jdn + (4 - ((l.terms.getD 4 nilSolar).jdn - 11) % 10) % 10 + 40 then ["春社"] else []) ++
        (if l.solar.jdn = (l.terms.getD 16 nilSolar).jdn + (4 - ((l.terms.getD 16 nilSolar).jdn - 11) % 10) % 10 + 40 then ["秋社"] else [])) ∧
      base = (match lookupI Gen.Tables.LunarUtil.OTHER_FESTIVAL_ikeys Gen.Tables.LunarUtil.OTHER_FESTIVAL [l.month, l.day] with | some f => f | none => []) := by
  refine ⟨_, ?_, rfl⟩
  have sv := fun i hi => term_stampValid y l.terms hts i hi
  have g4 : (l.terms.getD 4 nilSolar).jdn + 14 ≤ (l.terms.getD 5 nilSolar).jdn := term_gap y l.terms hts 4 (by omega)
  have g5 : (l.terms.getD 5 nilSolar).jdn + 14 ≤ (l.terms.getD 6 nilSolar).jdn := term_gap y l.terms hts 5 (by omega)
  have g6 : (l.terms.getD 6 nilSolar).jdn + 14 ≤ (l.terms.getD 7 nilSolar).jdn := term_gap y l.terms hts 6 (by omega)
  have g7 : (l.terms.getD 7 nilSolar).jdn + 14 ≤ (l.terms.getD 8 nilSolar).jdn := term_gap y l.terms hts 7 (by omega)
  have g16 : (l.terms.getD 16 nilSolar).jdn + 14 ≤ (l.terms.getD 17 nilSolar).jdn := term_gap y l.terms hts 16 (by omega)
  have g17 : (l.terms.getD 17 nilSolar).jdn + 14 ≤ (l.terms.getD 18 nilSolar).jdn := term_gap y l.terms hts 17 (by omega)
  have g18 : (l.terms.getD 18 nilSolar).jdn + 14 ≤ (l.terms.getD 19 nilSolar).jdn := term_gap y l.terms hts 18 (by omega)
  have g19 : (l.terms.getD 19 nilSolar).jdn + 14 ≤ (l.terms.getD 20 nilSolar).jdn := term_gap y l.terms hts 19 (by omega)
  obtain ⟨hs, ehs, vhs, jhs, _⟩ := nextDay_spec_strong (l.terms.getD 8 nilSolar) (-1) (stampValid_parts _ (sv 8 (by omega))).1
  obtain ⟨cs, ecs, vcs, jcs, _⟩ := nextDay_spec_strong (l.terms.getD 4 nilSolar)
    ((4 - ((l.terms.getD 4 nilSolar).jdn - 11) % 10) % 10 + 40) (stampValid_parts _ (sv 4 (by omega))).1
  obtain ⟨qs, eqs, vqs, jqs, _⟩ := nextDay_spec_strong (l.terms.getD 16 nilSolar)
    ((4 - ((l.terms.getD 16 nilSolar).jdn - 11) % 10) % 10 + 40) (stampValid_parts _ (sv 16 (by omega))).1
  have shs : stampValid hs = true :=
    stampValid_between hs _ _ vhs (sv 4 (by omega)) (sv 8 (by omega)) (by omega) (by omega)
  have scs : stampValid cs = true :=
    stampValid_between cs _ _ vcs (sv 4 (by omega)) (sv 8 (by omega)) (by omega) (by omega)
  have sqs : stampValid qs = true :=
    stampValid_between qs _ _ vqs (sv 16 (by omega)) (sv 20 (by omega)) (by omega) (by omega)
  have jhs' : hs.jdn = (l.terms.getD 8 nilSolar).jdn - 1 := by omega
  have jcs' : cs.jdn = (l.terms.getD 4 nilSolar).jdn + (4 - ((l.terms.getD 4 nilSolar).jdn - 11) % 10) % 10 + 40 := by omega
  have jqs' : qs.jdn = (l.terms.getD 16 nilSolar).jdn + (4 - ((l.terms.getD 16 nilSolar).jdn - 11) % 10) % 10 + 40 := by omega
  unfold Lunar.otherFestivals
  simp only [tb_qingming, tb_lichun, tb_liqiu, she_off, ehs, ecs, eqs,
    ymd_eq_iff _ _ hnow shs, ymd_eq_iff _ _ hnow scs, ymd_eq_iff _ _ hnow sqs, decide_eq_true_eq,
    jhs', jcs', jqs']
  rfl

/-! ## New Year's Eve -/

/-- NEW YEAR'S EVE as the code computes it: reported iff (|month| = 12 ∧ day ≥ 29 ∧ the next day's lunar year differs) -/
theorem festivals_spec (A : Astro) (l nx : Lunar) (h : l.next A 1 = some nx) :
    l.festivals A = some ((match lookupI Gen.Tables.LunarUtil.FESTIVAL_ikeys Gen.Tables.LunarUtil.FESTIVAL [l.month, l.day] with | some f => [f] | none => []) ++
      (if (l.month = 12 ∨ l.month = -12) ∧ l.day ≥ 29 ∧ l.year ≠ nx.year then ["除夕"] else [])) := by
  unfold Lunar.festivals
  simp only [h]
  by_cases hm : (l.month = 12 ∨ l.month = -12) ∧ l.day ≥ 29
  · have hc : (if l.month < 0 then -l.month else l.month) = 12 ∧ l.day ≥ 29 := by
      refine ⟨?_, hm.2⟩
      split <;> omega
    rw [if_pos hc]
    by_cases hy : l.year ≠ nx.year
    · rw [if_pos hy, if_pos ⟨hm.1, hm.2, hy⟩]; rfl
    · rw [if_neg hy, if_neg (fun hh => hy hh.2.2), List.append_nil]; rfl
  · have hc : ¬ ((if l.month < 0 then -l.month else l.month) = 12 ∧ l.day ≥ 29) := by
      intro hh
      apply hm
      refine ⟨?_, hh.2⟩
      have := hh.1
      split at this <;> omega
    rw [if_neg hc, if_neg (fun hh => hm ⟨hh.1, hh.2.1⟩), List.append_nil]; rfl

#print axioms shuJiu_spec
#print axioms geng_first
#print axioms fu_spec
#print axioms hou_spec
#print axioms wuHou_len
#print axioms otherFestivals_spec
#print axioms festivals_spec

end Model
