/-
Proofs.FnYun — Yun.computeStart and the fortune-period constructors: generated code = model (split from the worker's FnMisc; helper prefix `mi_`).
-/
import Proofs.FnMiscBase

namespace FnEq
open Gen.Fn

/-! ## 3. Yun.computeStart -/

/-- `start` / `end` moments of `computeStart`: going forward from the birth moment to the next Jie,
or backward from the previous Jie to the birth moment. -/
def mi_yunStartSolar (current prev : Model.Solar) (forward : Bool) : Model.Solar :=
  if !forward then prev else current
def mi_yunEndSolar (current next : Model.Solar) (forward : Bool) : Model.Solar :=
  if forward then next else current

/-- The start-offset computation inside `Model.mkYun` from the `start` and `end` moments:
(startYear, startMonth, startDay, startHour). -/
def mi_yunCore (start end_ : Model.Solar) (sect : Int) : Option (Int × Int × Int × Int) :=
  if sect = 2 then
    match end_.subtractMinute start with
    | none => none
    | some minutes =>
      let year := Int.tdiv minutes 4320
      let m1 := minutes - year * 4320
      let month := Int.tdiv m1 360
      let m2 := m1 - month * 360
      let day := Int.tdiv m2 12
      let m3 := m2 - day * 12
      some (year, month, day, m3 * 2)
  else
    match end_.subtract start with
    | none => none
    | some dayDiff0 =>
      let hd0 := Model.yunZhiIndex end_ - Model.yunZhiIndex start
      let (hourDiff, dayDiff) := if hd0 < 0 then (hd0 + 12, dayDiff0 - 1) else (hd0, dayDiff0)
      let monthDiff := Int.tdiv (hourDiff * 10) 30
      let month := dayDiff * 4 + monthDiff
      let day := hourDiff * 10 - monthDiff * 30
      let year := Int.tdiv month 12
      some (year, month - year * 12, day, 0)

/-- The start-offset computation inside `Model.mkYun`, isolated. -/
def mi_yunStart (current prev next : Model.Solar) (forward : Bool) (sect : Int) :
    Option (Int × Int × Int × Int) :=
  mi_yunCore (mi_yunStartSolar current prev forward) (mi_yunEndSolar current next forward) sect

/-- `forward` as `NewYun` computes it. -/
def mi_yunForward (l : Model.Lunar) (gender : Int) : Bool :=
  (decide (l.yearGanIndexExact % 2 = 0) && decide (gender = 1)) ||
    (!decide (l.yearGanIndexExact % 2 = 0) && !decide (gender = 1))

/-- `Model.mkYun` is `mi_yunStart` on the birth moment and the two neighbouring Jie. -/
theorem mi_mkYun_eq (l : Model.Lunar) (gender sect : Int) (pn nn : String) (prev next : Model.Solar)
    (hp : l.prevJie false = some (pn, prev)) (hn : l.nextJie false = some (nn, next)) :
    Model.mkYun l gender sect =
      (match mi_yunStart l.solar prev next (mi_yunForward l gender) sect with
        | some (y, m, d, h) => some ⟨gender, y, m, d, h, mi_yunForward l gender, l⟩
        | none => none) := by
  unfold Model.mkYun
  simp only [hp, hn]
  have hf' : (decide (l.yearGanIndexExact % 2 = 0) && decide (gender = 1) ||
      !decide (l.yearGanIndexExact % 2 = 0) && !decide (gender = 1)) = mi_yunForward l gender := rfl
  simp only [hf']
  generalize mi_yunForward l gender = fw
  unfold mi_yunStart mi_yunCore mi_yunStartSolar mi_yunEndSolar
  by_cases hs : sect = 2
  · simp only [hs, if_true]
    split <;> simp_all
  · simp only [hs, if_false]
    split
    · simp_all
    · rename_i dd hdd
      simp only [hdd]

theorem mi_mkYun_none_prev (l : Model.Lunar) (gender sect : Int) (hp : l.prevJie false = none) :
    Model.mkYun l gender sect = none := by
  unfold Model.mkYun; simp [hp]

theorem mi_mkYun_none_next (l : Model.Lunar) (gender sect : Int) (hn : l.nextJie false = none) :
    Model.mkYun l gender sect = none := by
  unfold Model.mkYun; simp only [hn]; split <;> simp_all

/-- The four fields `computeStart` writes. -/
def mi_yunWith (yun : Gen.Fn.Yun) (r : Int × Int × Int × Int) : Gen.Fn.Yun :=
  { yun with startYear := r.1, startMonth := r.2.1, startDay := r.2.2.1, startHour := r.2.2.2 }

open Gen.Fn in
/-- The generated `computeStart` after `start` and `end` have been chosen (verbatim copy of the tail
of the generated `do` block). -/
def mi_csCore (a3 a4 : Int) (yun : Yun) (start «end» : Solar) (sect : Int) : Except Err Yun := do
  let mut yun := yun
  let mut year : Int := 0
  let mut month : Int := 0
  let mut day : Int := 0
  let mut hour : Int := 0
  if decide (2 = sect) then
    let t4 ← calendar_Solar_SubtractMinute «end» start
    let mut minutes : Int := t4
    year := (Int.tdiv minutes 4320)
    minutes := (minutes - (year * 4320))
    month := (Int.tdiv minutes 360)
    minutes := (minutes - (month * 360))
    day := (Int.tdiv minutes 12)
    minutes := (minutes - (day * 12))
    hour := (minutes * 2)
  else
    let mut endTimeZhiIndex : Int := 11
    let t5 ← calendar_Solar_GetHour «end»
    if decide (t5 ≠ 23) then
      endTimeZhiIndex := a3
    let mut startTimeZhiIndex : Int := 11
    let t6 ← calendar_Solar_GetHour start
    if decide (t6 ≠ 23) then
      startTimeZhiIndex := a4
    let mut hourDiff : Int := (endTimeZhiIndex - startTimeZhiIndex)
    let t7 ← calendar_Solar_Subtract «end» start
    let mut dayDiff : Int := t7
    if decide (hourDiff < 0) then
      hourDiff := (hourDiff + 12)
      dayDiff := (dayDiff - 1)
    let mut monthDiff : Int := (Int.tdiv (hourDiff * 10) 30)
    month := ((dayDiff * 4) + monthDiff)
    day := ((hourDiff * 10) - (monthDiff * 30))
    year := (Int.tdiv month 12)
    month := (month - (year * 12))
  yun := { yun with startYear := year }
  yun := { yun with startMonth := month }
  yun := { yun with startDay := day }
  yun := { yun with startHour := hour }
  return yun

theorem mi_cs_core (a1 a2 : Gen.Fn.JieQi) (a3 a4 : Int) (yun : Gen.Fn.Yun) (sect : Int) :
    Gen.Fn.calendar_Yun_computeStart a1 a2 a3 a4 yun sect =
      mi_csCore a3 a4 yun (if !yun.forward then a1.solar else yun.lunar.solar)
        (if yun.forward then a2.solar else yun.lunar.solar) sect := by
  obtain ⟨g, sy, sm, sd, sh, fw, l⟩ := yun
  cases fw <;> rfl

/-- sect 2 (minute-exact school). -/
theorem mi_csCore_sect2 (a3 a4 : Int) (yun : Gen.Fn.Yun) (s e : Gen.Fn.Solar)
    (hs : s.month ≤ 13) (he : e.month ≤ 13) :
    mi_csCore a3 a4 yun s e 2 =
      (match mi_yunCore (toM s) (toM e) 2 with
        | some r => .ok (mi_yunWith yun r)
        | none => .error .panic) := by
  simp only [mi_csCore, mi_yunCore, solarSubtractMinute_eq e s he hs, decide_true, if_true]
  cases (toM e).subtractMinute (toM s) with
  | none => rfl
  | some minutes => rfl

/-- sect ≠ 2 (the day/time-branch school), with the two time-branch indices already selected. -/
theorem mi_csCore_sect1 (a3 a4 : Int) (yun : Gen.Fn.Yun) (s e : Gen.Fn.Solar) (sect : Int)
    (h2 : sect ≠ 2) (hs : s.month ≤ 13) (he : e.month ≤ 13)
    (ha3 : e.hour ≠ 23 → a3 = Model.timeZhiIndexOf e.hour e.minute)
    (ha4 : s.hour ≠ 23 → a4 = Model.timeZhiIndexOf s.hour s.minute) :
    mi_csCore a3 a4 yun s e sect =
      (match mi_yunCore (toM s) (toM e) sect with
        | some r => .ok (mi_yunWith yun r)
        | none => .error .panic) := by
  have h2' : ¬ (2 = sect) := fun h => h2 h.symm
  have hze : (if e.hour ≠ 23 then a3 else 11) = Model.yunZhiIndex (toM e) := by
    unfold Model.yunZhiIndex
    by_cases h : e.hour = 23
    · simp [h]
    · simp [h, ha3 h]
  have hzs : (if s.hour ≠ 23 then a4 else 11) = Model.yunZhiIndex (toM s) := by
    unfold Model.yunZhiIndex
    by_cases h : s.hour = 23
    · simp [h]
    · simp [h, ha4 h]
  simp only [mi_yunCore, h2, if_false, ← hze, ← hzs]
  simp only [mi_csCore, h2', decide_false, getHour_eq, solarSubtract_eq e s he hs, c1_ok_bind,
    c1_pure, Bool.false_eq_true, if_false]
  cases (toM e).subtract (toM s) with
  | none =>
    by_cases c1 : e.hour = 23 <;> by_cases c2 : s.hour = 23 <;> simp [c1, c2]
  | some dd =>
    by_cases c1 : e.hour = 23 <;> by_cases c2 : s.hour = 23 <;> simp [c1, c2] <;> first | rfl | (split <;> rfl)

theorem mi_csCore_eq (a3 a4 : Int) (yun : Gen.Fn.Yun) (s e : Gen.Fn.Solar) (sect : Int)
    (hs : s.month ≤ 13) (he : e.month ≤ 13)
    (ha3 : sect ≠ 2 → e.hour ≠ 23 → a3 = Model.timeZhiIndexOf e.hour e.minute)
    (ha4 : sect ≠ 2 → s.hour ≠ 23 → a4 = Model.timeZhiIndexOf s.hour s.minute) :
    mi_csCore a3 a4 yun s e sect =
      (match mi_yunCore (toM s) (toM e) sect with
        | some r => .ok (mi_yunWith yun r)
        | none => .error .panic) := by
  by_cases h2 : sect = 2
  · subst h2; exact mi_csCore_sect2 a3 a4 yun s e hs he
  · exact mi_csCore_sect1 a3 a4 yun s e sect h2 hs he (ha3 h2) (ha4 h2)

theorem mi_toM_start (cur p : Gen.Fn.Solar) (fw : Bool) :
    toM (if !fw then p else cur) = mi_yunStartSolar (toM cur) (toM p) fw := by
  cases fw <;> rfl
theorem mi_toM_end (cur n : Gen.Fn.Solar) (fw : Bool) :
    toM (if fw then n else cur) = mi_yunEndSolar (toM cur) (toM n) fw := by
  cases fw <;> rfl

/-- `Yun.computeStart`, both schools (`sect = 2` and `sect ≠ 2`), both directions.
Atoms: `a1`, `a2` = previous / next Jie (only their `solar` field is read); `a3`, `a4` =
`LunarUtil.GetTimeZhiIndex("HH:MM")` of the end / start moment (= `Model.timeZhiIndexOf hour minute`;
only read for `sect ≠ 2` and when the hour is not 23).
Guards: the months of the two moments are `≤ 13` (they come from validating constructors),
otherwise `GetDaysInYear` panics on the table index where the model is totalised. -/
theorem yunComputeStart_eq (a1 a2 : Gen.Fn.JieQi) (a3 a4 : Int) (yun : Gen.Fn.Yun) (sect : Int)
    (hs : (mi_yunStartSolar (toM yun.lunar.solar) (toM a1.solar) yun.forward).month ≤ 13)
    (he : (mi_yunEndSolar (toM yun.lunar.solar) (toM a2.solar) yun.forward).month ≤ 13)
    (ha3 : sect ≠ 2 → (mi_yunEndSolar (toM yun.lunar.solar) (toM a2.solar) yun.forward).hour ≠ 23 →
      a3 = Model.timeZhiIndexOf (mi_yunEndSolar (toM yun.lunar.solar) (toM a2.solar) yun.forward).hour
        (mi_yunEndSolar (toM yun.lunar.solar) (toM a2.solar) yun.forward).minute)
    (ha4 : sect ≠ 2 → (mi_yunStartSolar (toM yun.lunar.solar) (toM a1.solar) yun.forward).hour ≠ 23 →
      a4 = Model.timeZhiIndexOf (mi_yunStartSolar (toM yun.lunar.solar) (toM a1.solar) yun.forward).hour
        (mi_yunStartSolar (toM yun.lunar.solar) (toM a1.solar) yun.forward).minute) :
    Gen.Fn.calendar_Yun_computeStart a1 a2 a3 a4 yun sect =
    (match mi_yunStart (toM yun.lunar.solar) (toM a1.solar) (toM a2.solar) yun.forward sect with
      | some r => .ok (mi_yunWith yun r)
      | none => .error .panic) := by
  rw [mi_cs_core, mi_yunStart, ← mi_toM_start, ← mi_toM_end]
  rw [← mi_toM_start] at hs ha4
  rw [← mi_toM_end] at he ha3
  exact mi_csCore_eq a3 a4 yun _ _ sect hs he ha3 ha4

/-- `Yun.computeStart` against `Model.mkYun`: when the generated receiver `yun` carries the model's
birth moment and `forward` flag and the atoms are the model's previous / next Jie, the four written
fields `startYear/startMonth/startDay/startHour` are the model's (and a panic corresponds to `none`).
The other fields of `yun` (`gender`, `forward`, `lunar`) are untouched, as in the model, where
they are `gender`, `mi_yunForward l gender`, `l`. -/
theorem yunComputeStart_eq_mkYun (l : Model.Lunar) (gender sect : Int) (pn nn : String)
    (prev next : Model.Solar)
    (hp : l.prevJie false = some (pn, prev)) (hn : l.nextJie false = some (nn, next))
    (a1 a2 : Gen.Fn.JieQi) (a3 a4 : Int) (yun : Gen.Fn.Yun)
    (hcur : toM yun.lunar.solar = l.solar) (hfw : yun.forward = mi_yunForward l gender)
    (h1 : toM a1.solar = prev) (h2 : toM a2.solar = next)
    (hs : (mi_yunStartSolar l.solar prev (mi_yunForward l gender)).month ≤ 13)
    (he : (mi_yunEndSolar l.solar next (mi_yunForward l gender)).month ≤ 13)
    (ha3 : sect ≠ 2 → a3 = Model.timeZhiIndexOf (mi_yunEndSolar l.solar next (mi_yunForward l gender)).hour
        (mi_yunEndSolar l.solar next (mi_yunForward l gender)).minute)
    (ha4 : sect ≠ 2 → a4 = Model.timeZhiIndexOf (mi_yunStartSolar l.solar prev (mi_yunForward l gender)).hour
        (mi_yunStartSolar l.solar prev (mi_yunForward l gender)).minute) :
    Gen.Fn.calendar_Yun_computeStart a1 a2 a3 a4 yun sect =
    (match Model.mkYun l gender sect with
      | some r => .ok (mi_yunWith yun (r.startYear, r.startMonth, r.startDay, r.startHour))
      | none => .error .panic) := by
  rw [mi_mkYun_eq l gender sect pn nn prev next hp hn]
  rw [yunComputeStart_eq a1 a2 a3 a4 yun sect (by rw [hcur, hfw, h1]; exact hs)
    (by rw [hcur, hfw, h2]; exact he) (by rw [hcur, hfw, h2]; exact fun h _ => ha3 h)
    (by rw [hcur, hfw, h1]; exact fun h _ => ha4 h)]
  rw [hcur, hfw, h1, h2]
  cases mi_yunStart l.solar prev next (mi_yunForward l gender) sect with
  | none => rfl
  | some r => obtain ⟨y, m, d, h⟩ := r; rfl

/-- `Model.mkYun` returns `none` as soon as EITHER neighbouring Jie is missing.  (The Go code
dereferences only the one it uses: `prev` when going backward, `next` when going forward; a missing
Jie is a nil atom of the generated function, which the translation does not model.) -/
theorem mi_mkYun_none (l : Model.Lunar) (gender sect : Int)
    (h : l.prevJie false = none ∨ l.nextJie false = none) : Model.mkYun l gender sect = none := by
  rcases h with h | h
  · exact mi_mkYun_none_prev l gender sect h
  · exact mi_mkYun_none_next l gender sect h

/-! ## 8. NewDaYun, NewLiuNian, NewXiaoYun, NewLiuYue -/

/-- the model `Yun` carried by a generated `Yun` (plus the unmodelled term table of its lunar) -/
def mi_yunToM (y : Gen.Fn.Yun) (terms : List Model.Solar) : Model.Yun :=
  ⟨y.gender, y.startYear, y.startMonth, y.startDay, y.startHour, y.forward, mi_lunarToM y.lunar terms⟩

/-- the integer fields of a generated `DaYun` -/
def mi_daYunToM (d : Gen.Fn.DaYun) : Model.DaYun := ⟨d.startYear, d.endYear, d.startAge, d.endAge, d.index⟩

/-- a generated `DaYun` from the model's integer fields and the two back-pointers -/
def mi_daYunOfM (d : Model.DaYun) (yun : Gen.Fn.Yun) : Gen.Fn.DaYun :=
  ⟨d.startYear, d.endYear, d.startAge, d.endAge, d.index, yun, yun.lunar⟩

@[simp] theorem mi_daYunToM_ofM (d : Model.DaYun) (yun : Gen.Fn.Yun) :
    mi_daYunToM (mi_daYunOfM d yun) = d := rfl

/-- The call `yun.GetStartSolar()` agrees with `Model.Yun.startSolar` (proved below from the
`NextYear/NextMonth/NextDay/NextHour` facts: `mi_yunGetStartSolar_of_calls`; `Proofs.FnCivil2`
proves it outright as `yunGetStartSolar_eq` with `my := mi_yunToM yun terms` under two fuel bounds). -/
def mi_StartSolarOk (fuel : Nat) (yun : Gen.Fn.Yun) (terms : List Model.Solar) : Prop :=
  Gen.Fn.calendar_Yun_GetStartSolar fuel yun =
    (match (mi_yunToM yun terms).startSolar with | some r => .ok (ofM r) | none => .error .panic)

theorem newDaYun_eq (fuel : Nat) (yun : Gen.Fn.Yun) (index : Int) (terms : List Model.Solar)
    (hss : mi_StartSolarOk fuel yun terms) :
    Gen.Fn.calendar_NewDaYun fuel yun index =
      (match Model.mkDaYun (mi_yunToM yun terms) index with
        | some r => .ok (mi_daYunOfM r yun)
        | none => .error .panic) := by
  unfold mi_StartSolarOk at hss
  simp only [Gen.Fn.calendar_NewDaYun, Gen.Fn.calendar_Yun_GetLunar, mi_lunarGetSolar_eq, getYear_eq,
    c1_pure, c1_ok_bind, hss, Model.mkDaYun]
  cases (mi_yunToM yun terms).startSolar with
  | none => rfl
  | some ss =>
    simp only [c1_ok_bind, ofM_year]
    by_cases h : index < 1
    · simp only [h, decide_true, if_true]; rfl
    · simp only [h, decide_false, Bool.false_eq_true, if_false]; rfl

theorem newLiuNian_eq (d : Gen.Fn.DaYun) (index : Int) :
    Gen.Fn.calendar_NewLiuNian d index =
      .ok { index := index, daYun := d, year := d.startYear + index, age := d.startAge + index,
            lunar := d.lunar } := rfl

theorem newXiaoYun_eq (d : Gen.Fn.DaYun) (index : Int) (forward : Bool) :
    Gen.Fn.calendar_NewXiaoYun d index forward =
      .ok { index := index, daYun := d, year := d.startYear + index, age := d.startAge + index,
            forward := forward, lunar := d.lunar } := rfl

theorem newLiuYue_eq (n : Gen.Fn.LiuNian) (index : Int) :
    Gen.Fn.calendar_NewLiuYue n index = .ok { index := index, liuNian := n } := rfl

/-- `LiuNian` / `XiaoYun` entry `i` of a period built by `NewDaYun`: year and age in terms of the
model's `DaYun` (the model has no separate record for them; `Model.liuNianGanZhi` and
`Model.xiaoYunGanZhi` use `startAge` and `i` directly). -/
theorem newLiuNian_fields (d : Gen.Fn.DaYun) (i : Int) :
    ∃ r, Gen.Fn.calendar_NewLiuNian d i = .ok r ∧ r.index = i ∧
      r.year = (mi_daYunToM d).startYear + i ∧ r.age = (mi_daYunToM d).startAge + i ∧
      r.daYun = d ∧ r.lunar = d.lunar :=
  ⟨_, rfl, rfl, rfl, rfl, rfl, rfl⟩

theorem newXiaoYun_fields (d : Gen.Fn.DaYun) (i : Int) (fw : Bool) :
    ∃ r, Gen.Fn.calendar_NewXiaoYun d i fw = .ok r ∧ r.index = i ∧
      r.year = (mi_daYunToM d).startYear + i ∧ r.age = (mi_daYunToM d).startAge + i ∧
      r.forward = fw ∧ r.daYun = d ∧ r.lunar = d.lunar :=
  ⟨_, rfl, rfl, rfl, rfl, rfl, rfl, rfl⟩

/-! ### `Yun.GetStartSolar` from the four date-stepping calls

`Solar.NextYear/NextMonth/NextDay/NextHour` are proved equivalent to the model in `Proofs.FnCivil2`
(`solarNextYear_eq`, `solarNextMonth_eq` unconditionally; `solarNextDay_eq`, `solarNextHour_eq` for a
valid receiver and enough fuel).  Here the four calls are hypotheses of the same shape as
`mi_NextDayOk`. -/

def mi_NextYearOk (s : Gen.Fn.Solar) (n : Int) : Prop :=
  Gen.Fn.calendar_Solar_NextYear s n =
    (match (toM s).nextYear n with | some r => .ok (ofM r) | none => .error .panic)
def mi_NextMonthOk (s : Gen.Fn.Solar) (n : Int) : Prop :=
  Gen.Fn.calendar_Solar_NextMonth s n =
    (match (toM s).nextMonth n with | some r => .ok (ofM r) | none => .error .panic)
def mi_NextHourOk (fuel : Nat) (s : Gen.Fn.Solar) (n : Int) : Prop :=
  Gen.Fn.calendar_Solar_NextHour fuel s n =
    (match (toM s).nextHour n with | some r => .ok (ofM r) | none => .error .panic)

theorem mi_yunGetStartSolar_of_calls (fuel : Nat) (yun : Gen.Fn.Yun) (terms : List Model.Solar)
    (hy : mi_NextYearOk yun.lunar.solar yun.startYear)
    (hm : ∀ a, (toM yun.lunar.solar).nextYear yun.startYear = some a →
      mi_NextMonthOk (ofM a) yun.startMonth)
    (hd : ∀ a b, (toM yun.lunar.solar).nextYear yun.startYear = some a →
      a.nextMonth yun.startMonth = some b → mi_NextDayOk fuel (ofM b) yun.startDay)
    (hh : ∀ a b c, (toM yun.lunar.solar).nextYear yun.startYear = some a →
      a.nextMonth yun.startMonth = some b → b.nextDay yun.startDay = some c →
      mi_NextHourOk fuel (ofM c) yun.startHour) :
    mi_StartSolarOk fuel yun terms := by
  unfold mi_StartSolarOk mi_NextYearOk at *
  simp only [Gen.Fn.calendar_Yun_GetStartSolar, mi_lunarGetSolar_eq, c1_ok_bind, hy,
    Model.Yun.startSolar, mi_yunToM, mi_lunarToM]
  cases ha : (toM yun.lunar.solar).nextYear yun.startYear with
  | none => rfl
  | some a =>
    have hm' := hm a ha
    unfold mi_NextMonthOk at hm'
    simp only [c1_ok_bind, hm', toM_ofM, Option.bind_some]
    cases hb : a.nextMonth yun.startMonth with
    | none => rfl
    | some b =>
      have hd' := hd a b ha hb
      unfold mi_NextDayOk at hd'
      simp only [c1_ok_bind, hd', toM_ofM, Option.bind_some]
      cases hc : b.nextDay yun.startDay with
      | none => rfl
      | some c =>
        have hh' := hh a b c ha hb hc
        unfold mi_NextHourOk at hh'
        simp only [c1_ok_bind, hh', toM_ofM, Option.bind_some]


end FnEq
