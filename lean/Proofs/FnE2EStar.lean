/-
Proofs.FnE2EStar — end-to-end corollaries on the GENERATED year-star function (closed form, step, 2024 = star three).
-/
import Proofs.NineStarSpec
import Proofs.FnNineStar

namespace FnE2E

open FnEq

/-! ## 6. The year star -/

/-- `LunarYear.GetNineStar` in closed form: star index `(1 − Y) mod 9`.  `hg`, `hz` are the invariant
of `NewLunarYear`; the atom `a1` = `GetJiaZiIndex(lunarYear.GetGanZhi())` is the 60-cycle position
of the year's own pillar. -/
theorem lunarYear_star_closed (a1 : Int) (ly : Gen.Fn.LunarYear)
    (hg : ly.ganIndex = (ly.year - 4) % 10) (hz : ly.zhiIndex = (ly.year - 4) % 12)
    (ha1 : a1 = Model.ganZhiIndex ly.ganIndex ly.zhiIndex) (hY : -2696 ≤ ly.year) :
    Gen.Fn.calendar_LunarYear_GetNineStar a1 ly = .ok ⟨(1 - ly.year) % 9⟩ := by
  rw [lunarYear_getNineStar_eq a1 ly hg hz ha1, Model.lunarYear_star_closed ly.year hY]

/-- the same with the atom given numerically: the year's 60-cycle position is `(Y − 4) mod 60` -/
theorem lunarYear_star_closed' (ly : Gen.Fn.LunarYear)
    (hg : ly.ganIndex = (ly.year - 4) % 10) (hz : ly.zhiIndex = (ly.year - 4) % 12)
    (hY : -2696 ≤ ly.year) :
    Gen.Fn.calendar_LunarYear_GetNineStar ((ly.year - 4) % 60) ly = .ok ⟨(1 - ly.year) % 9⟩ :=
  lunarYear_star_closed _ ly hg hz (by rw [hg, hz, Model.ganZhiIndex_cycle]) hY

/-- the star index is one of 0..8 -/
theorem lunarYear_star_range (a1 : Int) (ly : Gen.Fn.LunarYear) (r : Gen.Fn.NineStar)
    (hg : ly.ganIndex = (ly.year - 4) % 10) (hz : ly.zhiIndex = (ly.year - 4) % 12)
    (ha1 : a1 = Model.ganZhiIndex ly.ganIndex ly.zhiIndex) (hY : -2696 ≤ ly.year)
    (h : Gen.Fn.calendar_LunarYear_GetNineStar a1 ly = .ok r) : 0 ≤ r.index ∧ r.index ≤ 8 := by
  rw [lunarYear_getNineStar_eq a1 ly hg hz ha1] at h
  injection h with h
  subst h
  exact Model.lunarYear_star_range ly.year hY

/-- the star steps BACK by one (i.e. +8 mod 9) from each lunar year to the next -/
theorem lunarYear_star_step (a1 a1' : Int) (ly ly' : Gen.Fn.LunarYear) (r r' : Gen.Fn.NineStar)
    (hg : ly.ganIndex = (ly.year - 4) % 10) (hz : ly.zhiIndex = (ly.year - 4) % 12)
    (ha1 : a1 = Model.ganZhiIndex ly.ganIndex ly.zhiIndex)
    (hg' : ly'.ganIndex = (ly'.year - 4) % 10) (hz' : ly'.zhiIndex = (ly'.year - 4) % 12)
    (ha1' : a1' = Model.ganZhiIndex ly'.ganIndex ly'.zhiIndex)
    (hY : -2696 ≤ ly.year) (hnext : ly'.year = ly.year + 1)
    (h : Gen.Fn.calendar_LunarYear_GetNineStar a1 ly = .ok r)
    (h' : Gen.Fn.calendar_LunarYear_GetNineStar a1' ly' = .ok r') :
    r'.index = (r.index + 8) % 9 := by
  rw [lunarYear_getNineStar_eq a1 ly hg hz ha1] at h
  rw [lunarYear_getNineStar_eq a1' ly' hg' hz' ha1'] at h'
  injection h with h
  injection h' with h'
  subst h h'
  show Model.lunarYearNineStar ly'.year = (Model.lunarYearNineStar ly.year + 8) % 9
  rw [hnext]
  exact Model.lunarYear_star_step ly.year hY

/-- lunar year 2024 has star index 2 (三碧, "star three") -/
theorem lunarYear_star_2024 (a1 : Int) (ly : Gen.Fn.LunarYear)
    (hg : ly.ganIndex = (ly.year - 4) % 10) (hz : ly.zhiIndex = (ly.year - 4) % 12)
    (ha1 : a1 = Model.ganZhiIndex ly.ganIndex ly.zhiIndex) (hy : ly.year = 2024) :
    Gen.Fn.calendar_LunarYear_GetNineStar a1 ly = .ok ⟨2⟩ := by
  rw [lunarYear_getNineStar_eq a1 ly hg hz ha1, hy, Model.star_2024]

/-- fully concrete: the struct `NewLunarYear(2024)` builds (gan 0 = 甲, zhi 4 = 辰, 60-cycle
position 40) -/
theorem lunarYear_star_2024' :
    Gen.Fn.calendar_LunarYear_GetNineStar 40 ⟨2024, 0, 4⟩ = .ok ⟨2⟩ := by
  have h := lunarYear_star_closed' ⟨2024, 0, 4⟩ (by decide) (by decide) (by decide)
  exact h


end FnE2E
