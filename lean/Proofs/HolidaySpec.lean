/-
Proofs.HolidaySpec — the substring-search lookups of `HolidayUtil` (`findForward` / `findBackward`,
with the re-alignment to the 18-character grid after a possibly MIS-ALIGNED `strings.Index` hit)
characterised over abstract lists of 18-character records; the forward view as a run and (under
sortedness) as a filter; the by-target view `findHolidaysBackward` (after the `fix:` commit: every
aligned record with the key as a suffix) as a filter, UNCONDITIONALLY; the old by-target algorithm
(`hol_findHolidaysBackwardOld`: one contiguous run) with the contiguity hypothesis it needed and
the necessity of it; `Fix` with one segment (sorted insertion of a new day, removal of an absent day,
replacement / removal of a present day); and the working-day stepping loop.
-/
import Model.Holiday
import Proofs.CivilArith
set_option linter.unusedVariables false
namespace Model

/-- a record is 18 characters -/
def Rec := List Char
def WF (recs : List Rec) : Prop := ∀ r ∈ recs, r.length = 18
def flat (recs : List Rec) : List Char := recs.flatten

/-! Internal versions over `List (List Char)` (`Rec` is an opaque-to-instances `def`; the stated
theorems are obtained from these by definitional unfolding). -/
def WF0 (recs : List (List Char)) : Prop := ∀ r ∈ recs, r.length = 18
def flat0 (recs : List (List Char)) : List Char := recs.flatten

theorem isPrefix_nil (s : List Char) : isPrefix [] s = true := by
  cases s <;> rfl

theorem isPrefix_iff (k s : List Char) : isPrefix k s = true ↔ ∃ t, s = k ++ t := by
  induction k generalizing s with
  | nil => simp [isPrefix_nil]
  | cons a as ih =>
    cases s with
    | nil => simp [isPrefix]
    | cons b bs =>
      simp only [isPrefix, Bool.and_eq_true, beq_iff_eq, ih, List.cons_append, List.cons.injEq]
      constructor
      · rintro ⟨rfl, t, rfl⟩; exact ⟨t, rfl, rfl⟩
      · rintro ⟨t, rfl, rfl⟩; exact ⟨rfl, t, rfl⟩

theorem isPrefix_nil_right (k : List Char) (hk : k ≠ []) : isPrefix k [] = false := by
  cases k with
  | nil => exact absurd rfl hk
  | cons a as => rfl

theorem isPrefix_append_right (k r x : List Char) (h : k.length ≤ r.length) :
    isPrefix k (r ++ x) = isPrefix k r := by
  induction k generalizing r with
  | nil => simp [isPrefix_nil]
  | cons a as ih =>
    cases r with
    | nil => simp at h
    | cons b bs =>
      simp only [List.cons_append, isPrefix]
      rw [ih bs (by simpa using h)]

theorem isPrefix_length (k s : List Char) (h : isPrefix k s = true) : k.length ≤ s.length := by
  obtain ⟨t, rfl⟩ := (isPrefix_iff k s).1 h
  simp

theorem indexOf_none (key : List Char) (hk : key ≠ []) (s : List Char) (i : Nat)
    (h : indexOf key s i = none) : ∀ p, isPrefix key (s.drop p) = false := by
  induction s generalizing i with
  | nil => intro p; simpa using isPrefix_nil_right key hk
  | cons c cs ih =>
    unfold indexOf at h
    split at h
    · cases h
    · rename_i h1
      intro p
      cases p with
      | zero => simpa using h1
      | succ p => simpa using ih _ h p

theorem indexOf_some (key : List Char) (hk : key ≠ []) (s : List Char) (i j : Nat)
    (h : indexOf key s i = some j) :
    ∃ p, j = i + p ∧ isPrefix key (s.drop p) = true ∧ ∀ q, q < p → isPrefix key (s.drop q) = false := by
  induction s generalizing i with
  | nil =>
    unfold indexOf at h
    cases key with
    | nil => exact absurd rfl hk
    | cons _ _ => simp at h
  | cons c cs ih =>
    unfold indexOf at h
    split at h
    · rename_i h1
      cases h
      exact ⟨0, rfl, by simpa using h1, by intro q hq; omega⟩
    · rename_i h1
      obtain ⟨p, hp, h2, h3⟩ := ih _ h
      refine ⟨p + 1, by omega, by simpa using h2, ?_⟩
      intro q hq
      cases q with
      | zero => simpa using h1
      | succ q => simpa using h3 q (by omega)

theorem lastIndexOf_spec (key : List Char) (hk : key ≠ []) (s : List Char) (i : Nat) (acc : Option Nat) :
    (lastIndexOf key s i acc = acc ∧ ∀ q, isPrefix key (s.drop q) = false) ∨
    (∃ p, lastIndexOf key s i acc = some (i + p) ∧ isPrefix key (s.drop p) = true ∧
      ∀ q, p < q → isPrefix key (s.drop q) = false) := by
  induction s generalizing i acc with
  | nil =>
    left
    cases key with
    | nil => exact absurd rfl hk
    | cons a as => exact ⟨by simp [lastIndexOf], by intro q; simp [isPrefix]⟩
  | cons c cs ih =>
    unfold lastIndexOf
    rcases ih (i + 1) (if isPrefix key (c :: cs) then some i else acc) with ⟨h1, h2⟩ | ⟨p, h1, h2, h3⟩
    · by_cases hc : isPrefix key (c :: cs) = true
      · right
        refine ⟨0, by rw [h1]; simp [hc], by simpa using hc, ?_⟩
        intro q hq
        cases q with
        | zero => omega
        | succ q => simpa using h2 q
      · left
        refine ⟨by rw [h1]; simp [hc], ?_⟩
        intro q
        cases q with
        | zero => simpa using hc
        | succ q => simpa using h2 q
    · right
      refine ⟨p + 1, by rw [h1]; congr 1; omega, by simpa using h2, ?_⟩
      intro q hq
      cases q with
      | zero => omega
      | succ q => simpa using h3 q (by omega)

/-! ## flat / records -/

theorem WF0_cons {r : List Char} {rs : List (List Char)} : WF0 (r :: rs) ↔ r.length = 18 ∧ WF0 rs := by
  simp [WF0]

theorem WF0_append {a b : List (List Char)} : WF0 (a ++ b) ↔ WF0 a ∧ WF0 b := by
  simp only [WF0, List.mem_append]
  constructor
  · intro h; exact ⟨fun r hr => h r (Or.inl hr), fun r hr => h r (Or.inr hr)⟩
  · rintro ⟨h1, h2⟩ r (hr | hr); exact h1 r hr; exact h2 r hr

theorem WF0_take {l : List (List Char)} (h : WF0 l) (m : Nat) : WF0 (l.take m) :=
  fun r hr => h r (List.mem_of_mem_take hr)
theorem WF0_drop {l : List (List Char)} (h : WF0 l) (m : Nat) : WF0 (l.drop m) :=
  fun r hr => h r (List.mem_of_mem_drop hr)
theorem WF0_reverse {l : List (List Char)} : WF0 l.reverse ↔ WF0 l := by simp [WF0]

theorem flat0_nil : flat0 [] = [] := rfl
theorem flat0_cons (r : List Char) (rs : List (List Char)) : flat0 (r :: rs) = r ++ flat0 rs := rfl
theorem flat0_append (a b : List (List Char)) : flat0 (a ++ b) = flat0 a ++ flat0 b := by
  simp [flat0]

theorem flat0_length (l : List (List Char)) (h : WF0 l) : (flat0 l).length = 18 * l.length := by
  induction l with
  | nil => rfl
  | cons r rs ih =>
    rw [WF0_cons] at h
    rw [flat0_cons, List.length_append, ih h.2, h.1, List.length_cons]; omega

theorem flat0_drop (l : List (List Char)) (h : WF0 l) (m : Nat) : (flat0 l).drop (18 * m) = flat0 (l.drop m) := by
  induction l generalizing m with
  | nil => simp [flat0_nil]
  | cons r rs ih =>
    cases m with
    | zero => simp
    | succ m =>
      rw [WF0_cons] at h
      rw [flat0_cons, List.drop_succ_cons, ← ih h.2 m]
      have : 18 * (m + 1) = r.length + 18 * m := by omega
      rw [this, List.drop_length_add_append]

theorem flat0_take (l : List (List Char)) (h : WF0 l) (m : Nat) : (flat0 l).take (18 * m) = flat0 (l.take m) := by
  induction l generalizing m with
  | nil => simp [flat0_nil]
  | cons r rs ih =>
    cases m with
    | zero => simp [flat0_nil]
    | succ m =>
      rw [WF0_cons] at h
      rw [flat0_cons, List.take_succ_cons, flat0_cons, ← ih h.2 m]
      have : 18 * (m + 1) = r.length + 18 * m := by omega
      rw [this, List.take_length_add_append]

theorem flat0_split (l1 : List (List Char)) (r : List Char) (l2 : List (List Char)) (h : WF0 (l1 ++ r :: l2)) :
    (flat0 (l1 ++ r :: l2)).drop (18 * l1.length) = r ++ flat0 l2 := by
  rw [flat0_drop _ h, List.drop_left, flat0_cons]

theorem dropWhile_append_of_all {α} (P : α → Bool) (a b : List α) (h : ∀ x ∈ a, P x = true) :
    (a ++ b).dropWhile P = b.dropWhile P := by
  induction a with
  | nil => rfl
  | cons x xs ih =>
    rw [List.cons_append, List.dropWhile_cons, h x (by simp)]
    exact ih (fun y hy => h y (by simp [hy]))

theorem dropWhile_all {α} (P : α → Bool) (a : List α) (h : ∀ x ∈ a, P x = true) :
    a.dropWhile P = [] := by
  have := dropWhile_append_of_all P a [] h
  simpa using this

theorem skipToPrefix_flat0 (key : List Char) (hk : key.length ≤ 18) (l : List (List Char)) (h : WF0 l)
    (fuel : Nat) (hf : l.length < fuel) :
    skipToPrefix key fuel (flat0 l) = flat0 (l.dropWhile (fun r => !isPrefix key r)) := by
  induction l generalizing fuel with
  | nil =>
    cases fuel with
    | zero => omega
    | succ f => simp [skipToPrefix, flat0_nil, recSize]
  | cons r rs ih =>
    cases fuel with
    | zero => omega
    | succ f =>
      rw [WF0_cons] at h
      have hl : ¬ (flat0 (r :: rs)).length < recSize := by
        rw [flat0_cons, List.length_append, h.1]; simp [recSize]
      have hp : isPrefix key (flat0 (r :: rs)) = isPrefix key r := by
        rw [flat0_cons]; exact isPrefix_append_right _ _ _ (by omega)
      unfold skipToPrefix
      rw [if_neg hl, hp, List.dropWhile_cons]
      by_cases hc : isPrefix key r = true
      · simp [hc]
      · have hc' : isPrefix key r = false := by simpa using hc
        have hd : (flat0 (r :: rs)).drop recSize = flat0 rs := by
          rw [flat0_cons, recSize, ← h.1, List.drop_left]
        simp only [hc', Bool.false_eq_true, if_false, Bool.not_false, if_true, hd]
        exact ih h.2 f (by simpa using hf)

theorem align_fwd (d : List Char) (p : Nat) (hlen : d.length % 18 = 0) :
    (if (d.drop p).length % recSize > 0 then (d.drop p).drop ((d.drop p).length % recSize) else d.drop p)
      = d.drop (18 * ((p + 17) / 18)) := by
  rw [List.length_drop, recSize]
  split
  · rw [List.drop_drop]; congr 1; omega
  · by_cases hp : p ≤ d.length
    · congr 1; omega
    · rw [List.drop_of_length_le (by omega), List.drop_of_length_le (by omega)]

theorem findForward_spec0 (recs : List (List Char)) (key : List Char) (hw : WF0 recs)
    (hk : 1 ≤ key.length ∧ key.length ≤ 18) :
    findForward (flat0 recs) key = flat0 (recs.dropWhile (fun r => !isPrefix key r)) := by
  have hk0 : key ≠ [] := by intro h; rw [h] at hk; simp at hk
  unfold findForward
  cases h : indexOf key (flat0 recs) 0 with
  | none =>
    have h1 := indexOf_none key hk0 _ _ h
    have : ∀ r ∈ recs, (!isPrefix key r) = true := by
      intro r hr
      obtain ⟨s, t, rfl⟩ := List.append_of_mem hr
      have := h1 (18 * s.length)
      rw [flat0_split _ _ _ hw, isPrefix_append_right _ _ _ (by rw [hw r hr]; exact hk.2)] at this
      simp [this]
    rw [dropWhile_all _ _ this]; rfl
  | some start =>
    obtain ⟨p, hp, hpre, hmin⟩ := indexOf_some key hk0 _ _ _ h
    simp only [Nat.zero_add] at hp
    subst hp
    simp only []
    have hlen : (flat0 recs).length % 18 = 0 := by rw [flat0_length _ hw]; omega
    rw [align_fwd _ _ hlen, flat0_drop _ hw]
    rw [skipToPrefix_flat0 key hk.2 _ (WF0_drop hw _) _
      (by rw [flat0_length _ (WF0_drop hw _), recSize]; omega)]
    congr 1
    conv => rhs; rw [← List.take_append_drop ((start + 17) / 18) recs]
    symm
    apply dropWhile_append_of_all
    intro r hr
    obtain ⟨s, t, hst⟩ := List.append_of_mem hr
    have hlen2 : s.length + 1 + t.length ≤ (start + 17) / 18 := by
      have := congrArg List.length hst
      simp only [List.length_take, List.length_append, List.length_cons] at this
      omega
    have hrec : recs = s ++ r :: (t ++ List.drop ((start + 17) / 18) recs) := by
      conv => lhs; rw [← List.take_append_drop ((start + 17) / 18) recs, hst]
      simp
    have hw' := hw
    rw [hrec] at hw'
    have := hmin (18 * s.length) (by omega)
    rw [hrec, flat0_split _ _ _ hw', isPrefix_append_right _ _ _
      (by rw [hw r (List.mem_of_mem_take hr)]; exact hk.2)] at this
    simp [this]

/-! ## forward views -/

theorem getD_append_left (r x : List Char) (i : Nat) (d : Char) (h : i < r.length) :
    (r ++ x).getD i d = r.getD i d := by
  rw [List.getD_eq_getElem?_getD, List.getD_eq_getElem?_getD, List.getElem?_append_left h]

theorem buildForward_append (st : HolidayState) (r x : List Char) (h : r.length = 18) :
    buildForward st (r ++ x) = buildForward st r := by
  unfold buildForward
  have h1 : (r ++ x).take 8 = r.take 8 := List.take_append_of_le_length (by omega)
  have h2 : ∀ d, (r ++ x).getD 8 d = r.getD 8 d := fun d => getD_append_left r x 8 d (by omega)
  have h3 : ∀ d, (r ++ x).getD 9 d = r.getD 9 d := fun d => getD_append_left r x 9 d (by omega)
  have h4 : ((r ++ x).drop 10).take 8 = (r.drop 10).take 8 := by
    rw [List.drop_append_of_le_length (by omega), List.take_append_of_le_length (by simp; omega)]
  have h5 : ((r ++ x).length < recSize) = (r.length < recSize) := by
    simp [recSize, h]
  simp only [h1, h2, h3, h4, h5]

theorem collectForward_flat (st : HolidayState) (key : List Char) (hk : 1 ≤ key.length ∧ key.length ≤ 18)
    (l : List (List Char)) (hw : WF0 l) (hb : ∀ r ∈ l, (buildForward st r).isSome = true)
    (fuel : Nat) (hf : l.length < fuel) :
    collectForward st key fuel (flat0 l) =
      some ((l.takeWhile (fun r => isPrefix key r)).filterMap (buildForward st)) := by
  have hk0 : key ≠ [] := by intro h; rw [h] at hk; simp at hk
  induction l generalizing fuel with
  | nil =>
    cases fuel with
    | zero => omega
    | succ f => simp [collectForward, flat0_nil, isPrefix_nil_right key hk0]
  | cons r rs ih =>
    cases fuel with
    | zero => omega
    | succ f =>
      rw [WF0_cons] at hw
      have hp : isPrefix key (flat0 (r :: rs)) = isPrefix key r := by
        rw [flat0_cons]; exact isPrefix_append_right _ _ _ (by omega)
      unfold collectForward
      rw [hp]
      by_cases hc : isPrefix key r = true
      · have hd : (flat0 (r :: rs)).drop recSize = flat0 rs := by
          rw [flat0_cons, recSize, ← hw.1, List.drop_left]
        have hbr := hb r (by simp)
        rw [Option.isSome_iff_exists] at hbr
        obtain ⟨h, hh⟩ := hbr
        have hb' : buildForward st (flat0 (r :: rs)) = some h := by
          rw [flat0_cons, buildForward_append _ _ _ hw.1, hh]
        simp only [hc, Bool.not_true, Bool.false_eq_true, if_false, hb', hd]
        rw [ih hw.2 (fun x hx => hb x (by simp [hx])) f (by simpa using hf)]
        rw [List.takeWhile_cons_of_pos hc, List.filterMap_cons_some hh]
        rfl
      · have hc' : isPrefix key r = false := by simpa using hc
        simp [hc']

theorem flat0_eq_nil (l : List (List Char)) (hw : WF0 l) (h : flat0 l = []) : l = [] := by
  have := flat0_length l hw
  rw [h] at this
  cases l with
  | nil => rfl
  | cons _ _ => simp at this

theorem forwardRun_spec0 (st : HolidayState) (recs : List (List Char)) (key : List Char)
    (hd : st.data = flat0 recs) (hw : WF0 recs)
    (hk : 1 ≤ key.length ∧ key.length ≤ 18) (hb : ∀ r ∈ recs, (buildForward st r).isSome = true) :
    findHolidaysForward st key =
      some (((recs.dropWhile (fun r => !isPrefix key r)).takeWhile (fun r => isPrefix key r)).filterMap
        (buildForward st)) := by
  unfold findHolidaysForward
  rw [hd, findForward_spec0 recs key hw hk]
  have hwp : WF0 (recs.dropWhile (fun r => !isPrefix key r)) :=
    fun r hr => hw r ((List.dropWhile_sublist _).subset hr)
  have hbp : ∀ r ∈ recs.dropWhile (fun r => !isPrefix key r), (buildForward st r).isSome = true :=
    fun r hr => hb r ((List.dropWhile_sublist _).subset hr)
  simp only []
  split
  · rename_i he
    have := flat0_eq_nil _ hwp (by simpa using he)
    rw [this]; rfl
  · exact collectForward_flat st key hk _ hwp hbp _ (by rw [flat0_length _ hwp, recSize]; omega)

/-! ### sorted ⇒ the run is the filter -/

theorem char_eq_of_not_lt {a b : Char} (h1 : ¬ a < b) (h2 : ¬ b < a) : a = b :=
  Char.le_antisymm (Char.not_lt.1 h2) (Char.not_lt.1 h1)

theorem cmpChars_between (k x y z : List Char) (h1 : cmpChars (k ++ x) y = .lt)
    (h2 : cmpChars y (k ++ z) = .lt) : ∃ t, y = k ++ t := by
  induction k generalizing y with
  | nil => exact ⟨y, rfl⟩
  | cons a as ih =>
    cases y with
    | nil => simp [cmpChars] at h1
    | cons b bs =>
      simp only [List.cons_append, cmpChars] at h1 h2
      by_cases hab : a < b
      · simp [hab, Char.lt_asymm hab] at h2
      · by_cases hba : b < a
        · simp [hab, hba] at h1
        · simp only [hab, hba, if_false] at h1 h2
          obtain ⟨t, rfl⟩ := ih bs h1 h2
          exact ⟨t, by rw [char_eq_of_not_lt hab hba]; rfl⟩

def DayLt (a b : List Char) : Prop := cmpChars (a.take 8) (b.take 8) = .lt

theorem prefix_between (key a b c : List Char) (hk : key.length ≤ 8)
    (ha : isPrefix key a = true) (hc : isPrefix key c = true) (hab : DayLt a b) (hbc : DayLt b c) :
    isPrefix key b = true := by
  obtain ⟨ta, rfl⟩ := (isPrefix_iff _ _).1 ha
  obtain ⟨tc, rfl⟩ := (isPrefix_iff _ _).1 hc
  unfold DayLt at hab hbc
  rw [List.take_append, List.take_of_length_le hk] at hab hbc
  obtain ⟨t, ht⟩ := cmpChars_between _ _ _ _ hab hbc
  rw [isPrefix_iff]
  refine ⟨t ++ b.drop 8, ?_⟩
  rw [← List.append_assoc, ← ht, List.take_append_drop]

theorem takeWhile_eq_filter_sorted (key : List Char) (hk : key.length ≤ 8) (a : List Char)
    (t : List (List Char)) (h1 : ∀ b ∈ t, DayLt a b) (h2 : t.Pairwise DayLt)
    (ha : isPrefix key a = true) :
    t.takeWhile (fun r => isPrefix key r) = t.filter (fun r => isPrefix key r) := by
  induction t generalizing a with
  | nil => rfl
  | cons b u ih =>
    rw [List.pairwise_cons] at h2
    by_cases hb : isPrefix key b = true
    · rw [List.takeWhile_cons_of_pos hb, List.filter_cons_of_pos hb, ih b h2.1 h2.2 hb]
    · rw [List.takeWhile_cons_of_neg hb, List.filter_cons_of_neg hb]
      symm
      rw [List.filter_eq_nil_iff]
      intro c hc hpc
      exact hb (prefix_between key a b c hk ha hpc (h1 b (by simp)) (h2.1 c hc))

theorem run_eq_filter_sorted (key : List Char) (hk : key.length ≤ 8) (l : List (List Char))
    (h : l.Pairwise DayLt) :
    (l.dropWhile (fun r => !isPrefix key r)).takeWhile (fun r => isPrefix key r)
      = l.filter (fun r => isPrefix key r) := by
  induction l with
  | nil => rfl
  | cons a t ih =>
    rw [List.pairwise_cons] at h
    by_cases ha : isPrefix key a = true
    · rw [List.dropWhile_cons_of_neg (by simp [ha]), List.takeWhile_cons_of_pos ha,
        List.filter_cons_of_pos ha, takeWhile_eq_filter_sorted key hk a t h.1 h.2 ha]
    · rw [List.dropWhile_cons_of_pos (by simpa using ha), List.filter_cons_of_neg ha, ih h.2]

/-! ## backward -/

theorem isSuffix_iff (k s : List Char) : isSuffix k s = true ↔ ∃ t, s = t ++ k := by
  unfold isSuffix
  rw [isPrefix_iff]
  constructor
  · rintro ⟨t, ht⟩
    refine ⟨t.reverse, ?_⟩
    have := congrArg List.reverse ht
    simpa using this
  · rintro ⟨t, rfl⟩
    exact ⟨t.reverse, by simp⟩

theorem isSuffix_append_left (k r x : List Char) (h : k.length ≤ r.length) :
    isSuffix k (x ++ r) = isSuffix k r := by
  unfold isSuffix
  rw [List.reverse_append]
  exact isPrefix_append_right _ _ _ (by simpa using h)

theorem isSuffix_nil_right (k : List Char) (hk : k ≠ []) : isSuffix k [] = false := by
  unfold isSuffix
  exact isPrefix_nil_right _ (by simpa using hk)

theorem flat0_snoc (l : List (List Char)) (r : List Char) : flat0 (l ++ [r]) = flat0 l ++ r := by
  rw [flat0_append, flat0_cons, flat0_nil, List.append_nil]

theorem skipToSuffix_flat (key : List Char) (hk : key.length ≤ 18) (l : List (List Char)) (h : WF0 l)
    (fuel : Nat) (hf : l.length < fuel) :
    skipToSuffix key fuel (flat0 l.reverse) = flat0 (l.dropWhile (fun r => !isSuffix key r)).reverse := by
  induction l generalizing fuel with
  | nil =>
    cases fuel with
    | zero => omega
    | succ f => simp [skipToSuffix, flat0_nil, recSize]
  | cons r rs ih =>
    cases fuel with
    | zero => omega
    | succ f =>
      rw [WF0_cons] at h
      have he : flat0 (r :: rs).reverse = flat0 rs.reverse ++ r := by
        rw [List.reverse_cons, flat0_snoc]
      have hl : ¬ (flat0 (r :: rs).reverse).length < recSize := by
        rw [he, List.length_append, h.1]; simp [recSize]
      have hp : isSuffix key (flat0 (r :: rs).reverse) = isSuffix key r := by
        rw [he]; exact isSuffix_append_left _ _ _ (by omega)
      unfold skipToSuffix
      rw [if_neg hl, hp]
      by_cases hc : isSuffix key r = true
      · rw [List.dropWhile_cons_of_neg (by simp [hc])]
        simp [hc]
      · have hc' : isSuffix key r = false := by simpa using hc
        have hd : (flat0 (r :: rs).reverse).take ((flat0 (r :: rs).reverse).length - recSize) = flat0 rs.reverse := by
          rw [he]
          exact List.take_left' (by rw [List.length_append, h.1, recSize]; omega)
        rw [List.dropWhile_cons_of_pos (by simp [hc'])]
        simp only [hc', Bool.false_eq_true, if_false, hd]
        exact ih h.2 f (by simpa using hf)

theorem align_bwd (d : List Char) (q : Nat) (hq : q ≤ d.length) :
    (if (d.take q).length % recSize > 0 then (d.take q).take ((d.take q).length - (d.take q).length % recSize)
      else d.take q) = d.take (18 * (q / 18)) := by
  rw [List.length_take, recSize, Nat.min_eq_left hq]
  split
  · rw [List.take_take]; congr 1; omega
  · congr 1; omega

theorem suffix_at (key : List Char) (hk : key.length ≤ 18) (l1 : List (List Char)) (r : List Char)
    (l2 : List (List Char)) (hw : WF0 (l1 ++ r :: l2)) (hs : isSuffix key r = true) :
    isPrefix key ((flat0 (l1 ++ r :: l2)).drop (18 * l1.length + (18 - key.length))) = true := by
  obtain ⟨t, ht⟩ := (isSuffix_iff _ _).1 hs
  have hr : r.length = 18 := hw r (by simp)
  have htl : t.length = 18 - key.length := by
    have := congrArg List.length ht
    simp at this; omega
  rw [← List.drop_drop, flat0_split _ _ _ hw, ht, List.append_assoc, List.drop_left' htl, isPrefix_iff]
  exact ⟨_, rfl⟩

theorem findBackward_spec0 (recs : List (List Char)) (key : List Char) (hw : WF0 recs)
    (hk : 1 ≤ key.length ∧ key.length ≤ 18) :
    findBackward (flat0 recs) key = flat0 ((recs.reverse.dropWhile (fun r => !isSuffix key r)).reverse) := by
  have hk0 : key ≠ [] := by intro h; rw [h] at hk; simp at hk
  unfold findBackward
  rcases lastIndexOf_spec key hk0 (flat0 recs) 0 none with ⟨h1, h2⟩ | ⟨p, h1, hpre, hmax⟩
  · rw [h1]
    have : ∀ r ∈ recs.reverse, (!isSuffix key r) = true := by
      intro r hr
      rw [List.mem_reverse] at hr
      obtain ⟨s, t, rfl⟩ := List.append_of_mem hr
      by_cases hs : isSuffix key r = true
      · have := suffix_at key hk.2 s r t hw hs
        rw [h2] at this; cases this
      · simpa using hs
    rw [dropWhile_all _ _ this]; rfl
  · rw [h1]
    simp only [Nat.zero_add]
    have hle : p + key.length ≤ (flat0 recs).length := by
      have := isPrefix_length _ _ hpre
      rw [List.length_drop] at this
      omega
    rw [align_bwd _ _ hle, flat0_take _ hw]
    have e1 : flat0 (recs.take ((p + key.length) / 18)) = flat0 (recs.take ((p + key.length) / 18)).reverse.reverse := by
      rw [List.reverse_reverse]
    rw [e1, skipToSuffix_flat key hk.2 _ (WF0_reverse.2 (WF0_take hw _)) _
      (by rw [List.reverse_reverse, flat0_length _ (WF0_take hw _), recSize, List.length_reverse]; omega)]
    congr 2
    conv => rhs; rw [← List.take_append_drop ((p + key.length) / 18) recs, List.reverse_append]
    symm
    apply dropWhile_append_of_all
    intro r hr
    rw [List.mem_reverse] at hr
    obtain ⟨s, t, hst⟩ := List.append_of_mem hr
    have hlen2 : (p + key.length) / 18 + s.length + 1 + t.length = recs.length := by
      have := congrArg List.length hst
      simp only [List.length_drop, List.length_append, List.length_cons] at this
      omega
    have hrec : recs = (List.take ((p + key.length) / 18) recs ++ s) ++ r :: t := by
      conv => lhs; rw [← List.take_append_drop ((p + key.length) / 18) recs, hst]
      simp
    have hw' := hw
    rw [hrec] at hw'
    by_cases hs : isSuffix key r = true
    · have h3 := suffix_at key hk.2 _ r t hw' hs
      rw [← hrec] at h3
      rw [hmax _ (by simp only [List.length_append, List.length_take]; omega)] at h3
      cases h3
    · simpa using hs

theorem collectBackward_flat (st : HolidayState) (key : List Char) (hk : 1 ≤ key.length ∧ key.length ≤ 18)
    (l : List (List Char)) (hw : WF0 l) (hb : ∀ r ∈ l, (buildForward st r).isSome = true)
    (fuel : Nat) (hf : l.length < fuel) (acc : List Holiday) :
    collectBackward st key fuel (flat0 l.reverse) acc =
      some ((l.takeWhile (fun r => isSuffix key r)).reverse.filterMap (buildForward st) ++ acc) := by
  have hk0 : key ≠ [] := by intro h; rw [h] at hk; simp at hk
  induction l generalizing fuel acc with
  | nil =>
    cases fuel with
    | zero => omega
    | succ f => simp [collectBackward, flat0_nil, isSuffix_nil_right key hk0]
  | cons r rs ih =>
    cases fuel with
    | zero => omega
    | succ f =>
      rw [WF0_cons] at hw
      have he : flat0 (r :: rs).reverse = flat0 rs.reverse ++ r := by
        rw [List.reverse_cons, flat0_snoc]
      have hp : isSuffix key (flat0 (r :: rs).reverse) = isSuffix key r := by
        rw [he]; exact isSuffix_append_left _ _ _ (by omega)
      unfold collectBackward
      rw [hp]
      by_cases hc : isSuffix key r = true
      · have hlen : (flat0 (r :: rs).reverse).length = (flat0 rs.reverse).length + 18 := by
          rw [he, List.length_append, hw.1]
        have hd : (flat0 (r :: rs).reverse).take ((flat0 (r :: rs).reverse).length - recSize) = flat0 rs.reverse := by
          rw [he]
          exact List.take_left' (by rw [List.length_append, hw.1, recSize]; omega)
        have hbr := hb r (by simp)
        rw [Option.isSome_iff_exists] at hbr
        obtain ⟨h, hh⟩ := hbr
        have hb' : buildBackward st (flat0 (r :: rs).reverse) = some h := by
          unfold buildBackward
          rw [if_neg (by rw [hlen, recSize]; omega), he,
            List.drop_left' (by rw [List.length_append, hw.1, recSize]; omega), hh]
        simp only [hc, Bool.not_true, Bool.false_eq_true, if_false, hb', hd]
        rw [ih hw.2 (fun x hx => hb x (by simp [hx])) f (by simpa using hf)]
        rw [List.takeWhile_cons_of_pos hc]
        simp [List.filterMap_append, hh]
      · have hc' : isSuffix key r = false := by simpa using hc
        simp [hc']

/-- the by-target lookup as it was BEFORE the `fix:` commit of the library: ONE contiguous run of
records, ending at the last record found by `strings.LastIndex` (kept here, with its specification,
to document why that algorithm was wrong; the model's `findHolidaysBackward` no longer uses it) -/
def hol_findHolidaysBackwardOld (st : HolidayState) (key : List Char) : Option (List Holiday) :=
  let s := findBackward st.data key
  if s.isEmpty then some [] else collectBackward st key (s.length / recSize + 2) s []

theorem hol_backwardRunOld_spec0 (st : HolidayState) (recs : List (List Char)) (key : List Char)
    (hd : st.data = flat0 recs) (hw : WF0 recs)
    (hk : 1 ≤ key.length ∧ key.length ≤ 18) (hb : ∀ r ∈ recs, (buildForward st r).isSome = true) :
    hol_findHolidaysBackwardOld st key =
      some (((recs.reverse.dropWhile (fun r => !isSuffix key r)).takeWhile (fun r => isSuffix key r)).reverse.filterMap
        (buildForward st)) := by
  unfold hol_findHolidaysBackwardOld
  rw [hd, findBackward_spec0 recs key hw hk]
  have hwp : WF0 (recs.reverse.dropWhile (fun r => !isSuffix key r)) :=
    fun r hr => hw r (List.mem_reverse.1 ((List.dropWhile_sublist _).subset hr))
  have hbp : ∀ r ∈ recs.reverse.dropWhile (fun r => !isSuffix key r), (buildForward st r).isSome = true :=
    fun r hr => hb r (List.mem_reverse.1 ((List.dropWhile_sublist _).subset hr))
  simp only []
  split
  · rename_i he
    have h0 := flat0_eq_nil _ (WF0_reverse.2 hwp) (by simpa using he)
    rw [List.reverse_eq_nil_iff] at h0
    rw [h0]; rfl
  · rw [collectBackward_flat st key hk _ hwp hbp _
      (by rw [flat0_length _ (WF0_reverse.2 hwp), recSize, List.length_reverse]; omega), List.append_nil]

/-! ### contiguity ⇒ the run is the filter -/

def Convex {α} (P : α → Bool) (l : List α) : Prop :=
  ∀ a b c l1 l2 l3 l4, l = l1 ++ [a] ++ l2 ++ [b] ++ l3 ++ [c] ++ l4 → P a = true → P c = true → P b = true

theorem Convex_tail {α} {P : α → Bool} {x : α} {l : List α} (h : Convex P (x :: l)) : Convex P l := by
  intro a b c l1 l2 l3 l4 hl
  exact h a b c (x :: l1) l2 l3 l4 (by rw [hl]; simp)

theorem takeWhile_eq_filter_convex {α} (P : α → Bool) (a : α) (t : List α) (h : Convex P (a :: t))
    (ha : P a = true) : t.takeWhile P = t.filter P := by
  induction t generalizing a with
  | nil => rfl
  | cons b u ih =>
    by_cases hb : P b = true
    · rw [List.takeWhile_cons_of_pos hb, List.filter_cons_of_pos hb, ih b (Convex_tail h) hb]
    · rw [List.takeWhile_cons_of_neg hb, List.filter_cons_of_neg hb]
      symm
      rw [List.filter_eq_nil_iff]
      intro c hc hpc
      obtain ⟨l3, l4, rfl⟩ := List.append_of_mem hc
      exact hb (h a b c [] [] l3 l4 (by simp) ha hpc)

theorem run_eq_filter_convex {α} (P : α → Bool) (l : List α) (h : Convex P l) :
    (l.dropWhile (fun r => !P r)).takeWhile P = l.filter P := by
  induction l with
  | nil => rfl
  | cons a t ih =>
    by_cases ha : P a = true
    · rw [List.dropWhile_cons_of_neg (by simp [ha]), List.takeWhile_cons_of_pos ha,
        List.filter_cons_of_pos ha, takeWhile_eq_filter_convex P a t h ha]
    · rw [List.dropWhile_cons_of_pos (by simpa using ha), List.filter_cons_of_neg ha, ih (Convex_tail h)]

theorem isSuffix8 (key r : List Char) (hk : key.length = 8) (hr : r.length = 18) :
    isSuffix key r = (r.drop 10 == key) := by
  rw [Bool.eq_iff_iff, isSuffix_iff, beq_iff_eq]
  constructor
  · rintro ⟨t, rfl⟩
    exact List.drop_left' (by simp at hr; omega)
  · intro h
    exact ⟨r.take 10, by rw [← h, List.take_append_drop]⟩

/-- the OLD algorithm returned the by-target filter only under contiguity of the target's records -/
theorem hol_backwardOld_view_eq_filter0 (st : HolidayState) (recs : List (List Char)) (key : List Char)
    (hd : st.data = flat0 recs) (hw : WF0 recs)
    (hk : key.length = 8) (hb : ∀ r ∈ recs, (buildForward st r).isSome = true)
    (hc : ∀ a b c : List Char, ∀ l1 l2 l3 l4, recs = l1 ++ [a] ++ l2 ++ [b] ++ l3 ++ [c] ++ l4 →
      a.drop 10 = key → c.drop 10 = key → b.drop 10 = key) :
    hol_findHolidaysBackwardOld st key =
      some ((recs.filter (fun r => r.drop 10 == key)).filterMap (buildForward st)) := by
  rw [hol_backwardRunOld_spec0 st recs key hd hw ⟨by omega, by omega⟩ hb]
  have hconv : Convex (fun r => isSuffix key r) recs.reverse := by
    intro a b c l1 l2 l3 l4 hl ha hc'
    have hrec : recs = l4.reverse ++ [c] ++ l3.reverse ++ [b] ++ l2.reverse ++ [a] ++ l1.reverse := by
      have := congrArg List.reverse hl
      rw [List.reverse_reverse] at this
      rw [this]; simp
    have hma : a ∈ recs := by rw [hrec]; simp
    have hmb : b ∈ recs := by rw [hrec]; simp
    have hmc : c ∈ recs := by rw [hrec]; simp
    simp only [isSuffix8 key _ hk (hw _ hma), isSuffix8 key _ hk (hw _ hmb),
      isSuffix8 key _ hk (hw _ hmc), beq_iff_eq] at ha hc' ⊢
    exact hc c b a _ _ _ _ hrec hc' ha
  rw [run_eq_filter_convex _ _ hconv, List.filter_reverse, List.reverse_reverse]
  congr 2
  apply List.filter_congr
  intro r hr
  exact isSuffix8 key r hk (hw r hr)

/-! ### the current algorithm: every aligned record with the key as a suffix -/

theorem hol_alignedRecords_flat0 (l : List (List Char)) (hw : WF0 l) (fuel : Nat) (hf : l.length < fuel) :
    alignedRecords fuel (flat0 l) = l := by
  induction l generalizing fuel with
  | nil =>
    cases fuel with
    | zero => omega
    | succ f => simp [alignedRecords, flat0_nil, recSize]
  | cons r rs ih =>
    cases fuel with
    | zero => omega
    | succ f =>
      rw [WF0_cons] at hw
      have hl : ¬ (flat0 (r :: rs)).length < recSize := by
        rw [flat0_cons, List.length_append, hw.1]; simp [recSize]
      have ht : (flat0 (r :: rs)).take recSize = r := by
        rw [flat0_cons]; exact List.take_left' (by rw [hw.1, recSize])
      have hd : (flat0 (r :: rs)).drop recSize = flat0 rs := by
        rw [flat0_cons, recSize, ← hw.1, List.drop_left]
      unfold alignedRecords
      rw [if_neg hl, ht, hd, ih hw.2 f (by simpa using hf)]

theorem hol_mapM_all_some {α β} (f : α → Option β) (l : List α) (h : ∀ x ∈ l, (f x).isSome = true) :
    l.mapM f = some (l.filterMap f) := by
  induction l with
  | nil => simp
  | cons a t ih =>
    have ha := h a (by simp)
    rw [Option.isSome_iff_exists] at ha
    obtain ⟨b, hb⟩ := ha
    rw [List.mapM_cons, hb, ih (fun x hx => h x (by simp [hx])), List.filterMap_cons_some hb]
    rfl

theorem hol_backward_view_eq_filter0 (st : HolidayState) (recs : List (List Char)) (key : List Char)
    (hd : st.data = flat0 recs) (hw : WF0 recs)
    (hk : key.length = 8) (hb : ∀ r ∈ recs, (buildForward st r).isSome = true) :
    findHolidaysBackward st key =
      some ((recs.filter (fun r => r.drop 10 == key)).filterMap (buildForward st)) := by
  unfold findHolidaysBackward
  rw [hd, hol_alignedRecords_flat0 recs hw _ (by rw [flat0_length _ hw, recSize]; omega)]
  have e : recs.filter (fun r => isSuffix key r) = recs.filter (fun r => r.drop 10 == key) := by
    apply List.filter_congr
    intro r hr
    exact isSuffix8 key r hk (hw r hr)
  rw [e]
  exact hol_mapM_all_some _ _ (fun r hr => hb r (List.mem_filter.1 hr).1)

/-! ## stated theorems (forward) -/

theorem findForward_spec (recs : List Rec) (key : List Char) (hw : WF recs) (hk : 1 ≤ key.length ∧ key.length ≤ 18) :
    findForward (flat recs) key = flat (recs.dropWhile (fun r => !isPrefix key r)) :=
  findForward_spec0 recs key hw hk

theorem forwardRun_spec (st : HolidayState) (recs : List Rec) (key : List Char) (hd : st.data = flat recs) (hw : WF recs)
    (hk : 1 ≤ key.length ∧ key.length ≤ 18) (hb : ∀ r ∈ recs, (buildForward st r).isSome = true) :
    findHolidaysForward st key = some (((recs.dropWhile (fun r => !isPrefix key r)).takeWhile (fun r => isPrefix key r)).filterMap (buildForward st)) :=
  forwardRun_spec0 st recs key hd hw hk hb

def dayOf (r : Rec) : List Char := r.take 8
def SortedByDay (recs : List Rec) : Prop := recs.Pairwise (fun a b => cmpChars (dayOf a) (dayOf b) = .lt)

theorem forward_view_eq_filter (st : HolidayState) (recs : List Rec) (key : List Char) (hd : st.data = flat recs) (hw : WF recs)
    (hs : SortedByDay recs) (hk : 1 ≤ key.length ∧ key.length ≤ 8) (hb : ∀ r ∈ recs, (buildForward st r).isSome = true) :
    findHolidaysForward st key = some ((recs.filter (fun r => isPrefix key r)).filterMap (buildForward st)) := by
  rw [forwardRun_spec st recs key hd hw ⟨hk.1, by omega⟩ hb]
  exact congrArg (fun l => some (List.filterMap (buildForward st) l)) (run_eq_filter_sorted key hk.2 recs hs)

/-! ## stated theorems (backward) -/

def targetOf (r : Rec) : List Char := r.drop 10

theorem findBackward_spec (recs : List Rec) (key : List Char) (hw : WF recs) (hk : 1 ≤ key.length ∧ key.length ≤ 18) :
    findBackward (flat recs) key = flat ((recs.reverse.dropWhile (fun r => !isSuffix key r)).reverse) :=
  findBackward_spec0 recs key hw hk

theorem alignedRecords_flat (recs : List Rec) (hw : WF recs) :
    alignedRecords ((flat recs).length / recSize + 1) (flat recs) = recs :=
  hol_alignedRecords_flat0 recs hw _ (by
    rw [show (flat recs).length = (flat0 recs).length from rfl, flat0_length _ hw, recSize]; omega)

/-- the by-target view is the filter, unconditionally (no contiguity hypothesis any more) -/
theorem backward_view_eq_filter (st : HolidayState) (recs : List Rec) (key : List Char) (hd : st.data = flat recs) (hw : WF recs)
    (hk : key.length = 8) (hb : ∀ r ∈ recs, (buildForward st r).isSome = true) :
    findHolidaysBackward st key = some ((recs.filter (fun r => targetOf r == key)).filterMap (buildForward st)) :=
  hol_backward_view_eq_filter0 st recs key hd hw hk hb

/-- what the OLD algorithm (`hol_findHolidaysBackwardOld`) computed: the filter only if the records with
that target are contiguous -/
theorem hol_backwardOld_view_eq_filter (st : HolidayState) (recs : List Rec) (key : List Char) (hd : st.data = flat recs) (hw : WF recs)
    (hk : key.length = 8) (hb : ∀ r ∈ recs, (buildForward st r).isSome = true)
    (hc : ∀ a b c : Rec, ∀ l1 l2 l3 l4, recs = l1 ++ [a] ++ l2 ++ [b] ++ l3 ++ [c] ++ l4 → targetOf a = key → targetOf c = key → targetOf b = key) :
    hol_findHolidaysBackwardOld st key = some ((recs.filter (fun r => targetOf r == key)).filterMap (buildForward st)) :=
  hol_backwardOld_view_eq_filter0 st recs key hd hw hk hb hc

theorem WF0_of_all (l : List (List Char)) (h : l.all (fun r => r.length == 18) = true) : WF0 l := by
  intro r hr
  have := List.all_eq_true.1 h r hr
  simpa using this

/-- a fact about the OLD algorithm (`findBackward` / `collectBackward`, i.e. `hol_findHolidaysBackwardOld`):
for it the contiguity hypothesis was necessary. Three well-formed, buildable records, the first and the
last with target 20200101, the middle one with another target: the old by-target view returns only
the last record although two records carry the target; the current `findHolidaysBackward` returns both -/
theorem backward_contiguity_necessary :
    ∃ (st : HolidayState) (recs : List Rec) (key : List Char),
      st.data = flat recs ∧ WF recs ∧ key.length = 8 ∧
      (∀ r ∈ recs, (buildForward st r).isSome = true) ∧
      (hol_findHolidaysBackwardOld st key).map List.length = some 1 ∧
      (recs.filter (fun r => targetOf r == key)).length = 2 ∧
      (findHolidaysBackward st key).map List.length = some 2 :=
  ⟨⟨"201912310020200101202001020120200102202001030120200101".toList, ["a"]⟩,
   ["201912310020200101".toList, "202001020120200102".toList, "202001030120200101".toList],
   "20200101".toList, by decide, WF0_of_all ["201912310020200101".toList, "202001020120200102".toList, "202001030120200101".toList] (by decide), by decide, by decide, by decide, by decide, by decide⟩

example : ∃ st key, (hol_findHolidaysBackwardOld st key).map List.length = some 1 ∧
    ∃ recs : List Rec, st.data = flat recs ∧ WF recs ∧ (recs.filter (fun r => targetOf r == key)).length = 2 := by
  obtain ⟨st, recs, key, h1, h2, _, _, h5, h6, _⟩ := backward_contiguity_necessary
  exact ⟨st, key, h5, recs, h1, h2, h6⟩

/-- a mis-aligned `strings.Index` hit, kernel-checked: in these 5 records the key "01012002" first
occurs at offset 32 (the tail "0101" of the target field of record 1 followed by the head "2002" of
record 2, i.e. across a record boundary); the first record having it as a prefix is record 4
(offset 72), which is what `findForward` returns -/
example :
    let recs : List (List Char) := ["200112290020020101".toList, "200112300020020101".toList,
      "200201010120020101".toList, "200201020120020101".toList, "010120020120010101".toList]
    indexOf "01012002".toList recs.flatten 0 = some 32 ∧
      findForward recs.flatten "01012002".toList = "010120020120010101".toList := by decide

/-! ## `Fix` with a single 18-character segment (after the `fix:` commit: sorted insertion) -/

theorem hol_cmpChars_irrefl (l : List Char) : cmpChars l l ≠ .lt := by
  induction l with
  | nil => simp [cmpChars]
  | cons a t ih => simpa [cmpChars] using ih

theorem hol_cmpChars_tri (a b : List Char) : cmpChars a b = .lt ∨ a = b ∨ cmpChars b a = .lt := by
  induction a generalizing b with
  | nil => cases b <;> simp [cmpChars]
  | cons x xs ih =>
    cases b with
    | nil => simp [cmpChars]
    | cons y ys =>
      simp only [cmpChars]
      by_cases hxy : x < y
      · simp [hxy]
      · by_cases hyx : y < x
        · simp [hxy, hyx]
        · have := char_eq_of_not_lt hxy hyx
          subst this
          simp only [hxy, if_false]
          rcases ih ys with h | h | h
          · exact Or.inl h
          · exact Or.inr (Or.inl (by rw [h]))
          · exact Or.inr (Or.inr h)

theorem hol_cmpChars_lt_trans (a b c : List Char) (h1 : cmpChars a b = .lt) (h2 : cmpChars b c = .lt) :
    cmpChars a c = .lt := by
  induction a generalizing b c with
  | nil =>
    cases b with
    | nil => simp [cmpChars] at h1
    | cons y ys =>
      cases c with
      | nil => simp [cmpChars] at h2
      | cons z zs => simp [cmpChars]
  | cons x xs ih =>
    cases b with
    | nil => simp [cmpChars] at h1
    | cons y ys =>
      cases c with
      | nil => simp [cmpChars] at h2
      | cons z zs =>
        simp only [cmpChars] at h1 h2 ⊢
        by_cases hxy : x < y
        · by_cases hyz : y < z
          · simp [Char.lt_trans hxy hyz]
          · by_cases hzy : z < y
            · simp [hyz, hzy] at h2
            · have : y = z := char_eq_of_not_lt hyz hzy
              subst this; simp [hxy]
        · by_cases hyx : y < x
          · simp [hxy, hyx] at h1
          · have : x = y := char_eq_of_not_lt hxy hyx
            subst this
            simp only [hxy, if_false] at h1
            by_cases hxz : x < z
            · simp [hxz]
            · by_cases hzx : z < x
              · simp [hxz, hzx] at h2
              · simp only [hxz, hzx, if_false] at h2 ⊢
                exact ih ys zs h1 h2

theorem hol_isPrefix8 (key r : List Char) (hk : key.length = 8) : isPrefix key r = true ↔ r.take 8 = key := by
  rw [isPrefix_iff]
  constructor
  · rintro ⟨t, rfl⟩
    exact List.take_left' hk
  · intro h
    exact ⟨r.drop 8, by rw [← h, List.take_append_drop]⟩

theorem hol_take8_length (seg : List Char) (hl : seg.length = 18) : (seg.take 8).length = 8 := by
  rw [List.length_take, hl]; rfl

/-- `getHoliday` of a day that no record has -/
theorem hol_getHoliday_absent (st : HolidayState) (recs : List (List Char)) (key : List Char)
    (hd : st.data = flat0 recs) (hw : WF0 recs) (hs : recs.Pairwise DayLt)
    (hb : ∀ r ∈ recs, (buildForward st r).isSome = true) (hk : key.length = 8)
    (hnew : ∀ r ∈ recs, r.take 8 ≠ key) : getHoliday st key = some none := by
  unfold getHoliday
  rw [forward_view_eq_filter st recs key hd hw hs ⟨by omega, by omega⟩ hb]
  have : recs.filter (fun r => isPrefix key r) = [] := by
    rw [List.filter_eq_nil_iff]
    intro r hr hp
    exact hnew r hr ((hol_isPrefix8 key r hk).1 hp)
  rw [this]; rfl

/-- `getHoliday` of a day that (exactly) one record has -/
theorem hol_getHoliday_present (st : HolidayState) (pre post : List (List Char)) (r : List Char) (h : Holiday)
    (hd : st.data = flat0 (pre ++ [r] ++ post)) (hw : WF0 (pre ++ [r] ++ post))
    (hs : (pre ++ [r] ++ post).Pairwise DayLt)
    (hb : ∀ x ∈ pre ++ [r] ++ post, (buildForward st x).isSome = true)
    (hh : buildForward st r = some h) : getHoliday st (r.take 8) = some (some h) := by
  have hr : r.length = 18 := hw r (by simp)
  have hk := hol_take8_length r hr
  unfold getHoliday
  rw [forward_view_eq_filter st _ _ hd hw hs ⟨by omega, by omega⟩ hb]
  rw [List.pairwise_append, List.pairwise_append] at hs
  obtain ⟨⟨_, _, h1⟩, _, h2⟩ := hs
  have e1 : pre.filter (fun x => isPrefix (r.take 8) x) = [] := by
    rw [List.filter_eq_nil_iff]
    intro x hx hp
    have := h1 x hx r (by simp)
    unfold DayLt at this
    rw [(hol_isPrefix8 _ x hk).1 hp] at this
    exact hol_cmpChars_irrefl _ this
  have e2 : post.filter (fun x => isPrefix (r.take 8) x) = [] := by
    rw [List.filter_eq_nil_iff]
    intro x hx hp
    have := h2 r (by simp) x hx
    unfold DayLt at this
    rw [(hol_isPrefix8 _ x hk).1 hp] at this
    exact hol_cmpChars_irrefl _ this
  have e3 : [r].filter (fun x => isPrefix (r.take 8) x) = [r] := by
    rw [List.filter_cons_of_pos ((hol_isPrefix8 _ r hk).2 rfl)]; rfl
  rw [List.filter_append, List.filter_append, e1, e2, e3]
  simp [hh]

/-- the records skipped by `insertSorted`: those whose day is smaller -/
def hol_dayLtB (day : List Char) (r : List Char) : Bool := cmpChars (r.take 8) day == .lt

/-- sorted insertion over records -/
theorem hol_insertSorted_flat0 (day seg : List Char) (l : List (List Char)) (hw : WF0 l) (fuel : Nat)
    (hf : l.length < fuel) :
    insertSorted day seg fuel (flat0 l) =
      flat0 (l.takeWhile (hol_dayLtB day) ++ [seg] ++ l.dropWhile (hol_dayLtB day)) := by
  induction l generalizing fuel with
  | nil =>
    cases fuel with
    | zero => omega
    | succ f => simp [insertSorted, flat0, recSize]
  | cons r rs ih =>
    cases fuel with
    | zero => omega
    | succ f =>
      rw [WF0_cons] at hw
      have hl : decide ((flat0 (r :: rs)).length ≥ recSize) = true := by
        rw [flat0_cons, List.length_append, hw.1]; simp [recSize]
      have ht8 : (flat0 (r :: rs)).take 8 = r.take 8 := by
        rw [flat0_cons]; exact List.take_append_of_le_length (by omega)
      have ht : (flat0 (r :: rs)).take recSize = r := by
        rw [flat0_cons]; exact List.take_left' (by rw [hw.1, recSize])
      have hd : (flat0 (r :: rs)).drop recSize = flat0 rs := by
        rw [flat0_cons, recSize, ← hw.1, List.drop_left]
      unfold insertSorted
      rw [hl, ht8, Bool.true_and]
      by_cases hc : hol_dayLtB day r = true
      · rw [if_pos (show (cmpChars (r.take 8) day == .lt) = true from hc), ht, hd,
          ih hw.2 f (by simpa using hf), List.takeWhile_cons_of_pos hc,
          List.dropWhile_cons_of_pos hc]
        simp [flat0]
      · rw [if_neg (show ¬ (cmpChars (r.take 8) day == .lt) = true from hc),
          List.takeWhile_cons_of_neg hc, List.dropWhile_cons_of_neg hc]
        simp [flat0]

/-- in a day-sorted list without the day, the skipped records are smaller, the others are larger -/
theorem hol_sorted_split (day : List Char) (l : List (List Char)) (hs : l.Pairwise DayLt)
    (hnew : ∀ r ∈ l, r.take 8 ≠ day) :
    (∀ r ∈ l.takeWhile (hol_dayLtB day), cmpChars (r.take 8) day = .lt) ∧
    (∀ r ∈ l.dropWhile (hol_dayLtB day), cmpChars day (r.take 8) = .lt) := by
  constructor
  · intro r hr
    have := List.all_eq_true.1 (List.all_takeWhile (p := hol_dayLtB day) (l := l)) r hr
    simpa [hol_dayLtB] using this
  · induction l with
    | nil => intro r hr; simp at hr
    | cons a t ih =>
      rw [List.pairwise_cons] at hs
      by_cases hc : hol_dayLtB day a = true
      · rw [List.dropWhile_cons_of_pos hc]
        exact ih hs.2 (fun r hr => hnew r (by simp [hr]))
      · rw [List.dropWhile_cons_of_neg hc]
        have ha : cmpChars day (a.take 8) = .lt := by
          rcases hol_cmpChars_tri (a.take 8) day with h | h | h
          · exact absurd (by simp [hol_dayLtB, h]) hc
          · exact absurd h (hnew a (by simp))
          · exact h
        intro r hr
        rcases List.mem_cons.1 hr with rfl | hr
        · exact ha
        · exact hol_cmpChars_lt_trans _ _ _ ha (hs.1 r hr)

/-- `fix` with one segment is one round of `fixLoop` -/
theorem hol_fix_single (st : HolidayState) (seg : List Char) (hl : seg.length = 18) :
    fix st none seg = (fixLoop st.names 2 seg st.data).map (fun data => ⟨data, st.names⟩) := by
  unfold fix
  have : seg.isEmpty = false := by
    cases seg with
    | nil => simp at hl
    | cons _ _ => rfl
  simp only [this, Bool.false_eq_true, if_false, hl, recSize]

theorem hol_fixLoop_absent (names : List String) (data seg : List Char) (hl : seg.length = 18)
    (hg : getHoliday ⟨data, names⟩ (seg.take 8) = some none) :
    fixLoop names 2 seg data =
      some (if (seg.getD 8 ' ' == '~') = true then data
        else insertSorted (seg.take 8) seg (data.length / recSize + 1) data) := by
  have e1 : seg.take recSize = seg := List.take_of_length_le (by rw [hl, recSize]; omega)
  have e2 : (seg.drop recSize).length < recSize := by rw [List.length_drop, hl, recSize]; omega
  have e3 : ¬ seg.length < recSize := by rw [hl, recSize]; omega
  rw [show (2 : Nat) = 1 + 1 from rfl, fixLoop]
  simp only [if_neg e3, e1, hg]
  rw [fixLoop, if_pos e2]

theorem hol_fixLoop_present (names : List String) (data seg : List Char) (h : Holiday) (idx : Nat)
    (hl : seg.length = 18) (hg : getHoliday ⟨data, names⟩ (seg.take 8) = some (some h))
    (hi : names.findIdx? (· == h.name) = some idx) :
    fixLoop names 2 seg data =
      some (replaceAll (seg.take 8 ++ [Char.ofNat (idx + 48)] ++ [if h.work then '0' else '1'] ++ undash h.target)
        (if (seg.getD 8 ' ' == '~') = true then [] else seg) data) := by
  have e1 : seg.take recSize = seg := List.take_of_length_le (by rw [hl, recSize]; omega)
  have e2 : (seg.drop recSize).length < recSize := by rw [List.length_drop, hl, recSize]; omega
  have e3 : ¬ seg.length < recSize := by rw [hl, recSize]; omega
  rw [show (2 : Nat) = 1 + 1 from rfl, fixLoop]
  simp only [if_neg e3, e1, hg, hi]
  rw [fixLoop, if_pos e2]

theorem hol_fix_remove_absent0 (st : HolidayState) (recs : List (List Char)) (seg : List Char)
    (hd : st.data = flat0 recs) (hw : WF0 recs) (hs : recs.Pairwise DayLt)
    (hb : ∀ r ∈ recs, (buildForward st r).isSome = true) (hl : seg.length = 18) (hr : seg.getD 8 ' ' = '~')
    (hnew : ∀ r ∈ recs, r.take 8 ≠ seg.take 8) :
    fix st none seg = some ⟨st.data, st.names⟩ := by
  have hg := hol_getHoliday_absent st recs _ hd hw hs hb (hol_take8_length seg hl) hnew
  rw [hol_fix_single st seg hl, hol_fixLoop_absent st.names st.data seg hl hg, hr]
  rfl

theorem hol_pairwise_insert (day : List Char) (seg : List Char) (hday : seg.take 8 = day)
    (pre post : List (List Char)) (hs : (pre ++ post).Pairwise DayLt)
    (h1 : ∀ r ∈ pre, cmpChars (r.take 8) day = .lt) (h2 : ∀ r ∈ post, cmpChars day (r.take 8) = .lt) :
    (pre ++ [seg] ++ post).Pairwise DayLt := by
  rw [List.pairwise_append] at hs
  obtain ⟨hp, hq, hpq⟩ := hs
  rw [List.append_assoc, List.pairwise_append]
  refine ⟨hp, ?_, ?_⟩
  · rw [List.singleton_append, List.pairwise_cons]
    refine ⟨?_, hq⟩
    intro b hb
    show cmpChars (seg.take 8) (b.take 8) = .lt
    rw [hday]; exact h2 b hb
  · intro a ha b hb
    rcases List.mem_append.1 hb with hb | hb
    · have : b = seg := by simpa using hb
      subst this
      show cmpChars (a.take 8) (b.take 8) = .lt
      rw [hday]; exact h1 a ha
    · exact hpq a ha b hb

theorem hol_fix_add0 (st : HolidayState) (recs : List (List Char)) (seg : List Char)
    (hd : st.data = flat0 recs) (hw : WF0 recs) (hs : recs.Pairwise DayLt)
    (hb : ∀ r ∈ recs, (buildForward st r).isSome = true) (hl : seg.length = 18)
    (hnr : seg.getD 8 ' ' ≠ '~') (hnew : ∀ r ∈ recs, r.take 8 ≠ seg.take 8) :
    ∃ pre post, recs = pre ++ post ∧ (∀ r ∈ pre, cmpChars (r.take 8) (seg.take 8) = .lt) ∧
      (∀ r ∈ post, cmpChars (seg.take 8) (r.take 8) = .lt) ∧
      fix st none seg = some ⟨flat0 (pre ++ [seg] ++ post), st.names⟩ ∧
      (pre ++ [seg] ++ post).Pairwise DayLt ∧ WF0 (pre ++ [seg] ++ post) := by
  have hg := hol_getHoliday_absent st recs _ hd hw hs hb (hol_take8_length seg hl) hnew
  obtain ⟨h1, h2⟩ := hol_sorted_split (seg.take 8) recs hs hnew
  have hsplit : recs = recs.takeWhile (hol_dayLtB (seg.take 8)) ++ recs.dropWhile (hol_dayLtB (seg.take 8)) :=
    (List.takeWhile_append_dropWhile).symm
  refine ⟨_, _, hsplit, h1, h2, ?_, ?_, ?_⟩
  · rw [hol_fix_single st seg hl, hol_fixLoop_absent st.names st.data seg hl hg]
    have : (seg.getD 8 ' ' == '~') = false := by simpa using hnr
    rw [this, hd, hol_insertSorted_flat0 _ _ recs hw _ (by rw [flat0_length _ hw, recSize]; omega)]
    rfl
  · exact hol_pairwise_insert _ seg rfl _ _ (hsplit ▸ hs) h1 h2
  · rw [hsplit] at hw
    rw [WF0_append] at hw
    rw [WF0_append, WF0_append]
    exact ⟨⟨hw.1, by intro r hr; have : r = seg := by simpa using hr
                     rw [this]; exact hl⟩, hw.2⟩

/-- ADD: if no record has that day and the segment is not a removal, the new table is the old records
with `seg` inserted at its sorted place; still well-formed and sorted; all old records unchanged -/
theorem fix_add (st : HolidayState) (recs : List Rec) (seg : List Char) (hd : st.data = flat recs) (hw : WF recs) (hs : SortedByDay recs)
    (hb : ∀ r ∈ recs, (buildForward st r).isSome = true) (hl : seg.length = 18) (hnr : seg.getD 8 ' ' ≠ '~')
    (hnew : ∀ r ∈ recs, dayOf r ≠ seg.take 8) :
    ∃ pre post, recs = pre ++ post ∧ (∀ r ∈ pre, cmpChars (dayOf r) (seg.take 8) = .lt) ∧ (∀ r ∈ post, cmpChars (seg.take 8) (dayOf r) = .lt) ∧
      fix st none seg = some ⟨flat (pre ++ ([seg] : List Rec) ++ post), st.names⟩ ∧ SortedByDay (pre ++ ([seg] : List Rec) ++ post) ∧ WF (pre ++ ([seg] : List Rec) ++ post) :=
  hol_fix_add0 st recs seg hd hw hs hb hl hnr hnew

/-- REMOVE of an absent day: nothing changes -/
theorem fix_remove_absent (st : HolidayState) (recs : List Rec) (seg : List Char) (hd : st.data = flat recs) (hw : WF recs) (hs : SortedByDay recs)
    (hb : ∀ r ∈ recs, (buildForward st r).isSome = true) (hl : seg.length = 18) (hr : seg.getD 8 ' ' = '~') (hnew : ∀ r ∈ recs, dayOf r ≠ seg.take 8) :
    fix st none seg = some ⟨st.data, st.names⟩ :=
  hol_fix_remove_absent0 st recs seg hd hw hs hb hl hr hnew

/-! ### REPLACE / REMOVE of a day that is in the table

`fixLoop` does not edit the record it found: it REBUILDS the 18 characters `old` from the parsed
`Holiday` (day, index of the name in the name table, work flag, target) and calls
`strings.Replace(data, old, new, -1)`, which replaces EVERY occurrence of these 18 characters, aligned
to the record grid or not. So besides sortedness the theorems below need
  * `st.names.Nodup` (else `findIdx?` may return another index than the record's name digit),
  * the work flag of the record is '0' or '1' and its target field has no '-' (else `old ≠ r` and nothing
    is replaced),
  * `hol_OccursOnlyAligned`: the 18 characters of `r` occur in the table ONLY at `r`'s own position
    (an example after the theorems shows what happens otherwise). -/

theorem hol_findIdx_nodup (names : List String) (hn : names.Nodup) (i : Nat) (hi : i < names.length) :
    names.findIdx? (· == names.getD i "") = some i := by
  induction names generalizing i with
  | nil => simp at hi
  | cons x xs ih =>
    rw [List.nodup_cons] at hn
    cases i with
    | zero => simp [List.findIdx?_cons]
    | succ i =>
      have hi' : i < xs.length := by simpa using hi
      have hm : xs.getD i "" ∈ xs := by
        rw [List.getD_eq_getElem?_getD, List.getElem?_eq_getElem hi']; simp
      have hne : (x == xs.getD i "") = false := by
        rw [beq_eq_false_iff_ne]; intro e; exact hn.1 (e ▸ hm)
      rw [List.findIdx?_cons, List.getD_cons_succ]
      simp only [hne, Bool.false_eq_true, if_false]
      rw [ih hn.2 i hi']; rfl

theorem hol_drop_cons_getD (l : List Char) (i : Nat) (d : Char) (h : i < l.length) :
    l.drop i = l.getD i d :: l.drop (i + 1) := by
  rw [List.drop_eq_getElem_cons h, List.getD_eq_getElem?_getD, List.getElem?_eq_getElem h]
  rfl

theorem hol_rec_split (r : List Char) (hr : r.length = 18) :
    r.take 8 ++ [r.getD 8 '0'] ++ [r.getD 9 ' '] ++ r.drop 10 = r := by
  conv => rhs; rw [← List.take_append_drop 8 r, hol_drop_cons_getD r 8 '0' (by omega),
    hol_drop_cons_getD r 9 ' ' (by omega)]
  simp

theorem hol_undash_dashed (d : List Char) (h : ∀ c ∈ d, c ≠ '-') : undash (dashed d) = d := by
  have hc : ¬ d.contains '-' = true := by
    intro hc; rw [List.contains_iff_mem] at hc; exact h _ hc rfl
  have f1 : ∀ l : List Char, (∀ c ∈ l, c ≠ '-') → l.filter (· != '-') = l := by
    intro l hl; rw [List.filter_eq_self]; intro c hc; simpa using hl c hc
  unfold dashed undash
  rw [if_neg hc]
  simp only [List.filter_append]
  rw [f1 (d.take 4) (fun c hc => h c (List.mem_of_mem_take hc)),
    f1 ((d.drop 4).take 2) (fun c hc => h c (List.mem_of_mem_drop (List.mem_of_mem_take hc))),
    f1 (d.drop 6) (fun c hc => h c (List.mem_of_mem_drop hc))]
  have e : ['-'].filter (· != '-') = [] := by decide
  rw [e, List.append_nil, List.append_nil, show d.drop 6 = (d.drop 4).drop 2 by rw [List.drop_drop],
    List.append_assoc, List.take_append_drop, List.take_append_drop]

/-- the string `fixLoop` rebuilds from the parsed holiday is the record itself -/
theorem hol_rebuild (st : HolidayState) (r : List Char) (h : Holiday) (hr : r.length = 18)
    (hh : buildForward st r = some h) (hwk : r.getD 9 ' ' = '0' ∨ r.getD 9 ' ' = '1')
    (htg : ∀ c ∈ r.drop 10, c ≠ '-') (hn : st.names.Nodup) :
    ∃ idx, st.names.findIdx? (· == h.name) = some idx ∧
      r.take 8 ++ [Char.ofNat (idx + 48)] ++ [if h.work then '0' else '1'] ++ undash h.target = r := by
  unfold buildForward at hh
  rw [if_neg (by rw [hr, recSize]; omega)] at hh
  simp only [] at hh
  split at hh
  · cases hh
  · rename_i hc
    cases hh
    refine ⟨(r.getD 8 '0').toNat - 48, hol_findIdx_nodup _ hn _ (by omega), ?_⟩
    have e1 : (r.getD 8 '0').toNat - 48 + 48 = (r.getD 8 '0').toNat := by omega
    have e2 : (if (r.getD 9 ' ' == '0') = true then '0' else '1') = r.getD 9 ' ' := by
      rcases hwk with e | e <;> rw [e] <;> rfl
    have e3 : (r.drop 10).take 8 = r.drop 10 :=
      List.take_of_length_le (by rw [List.length_drop, hr]; omega)
    simp only []
    rw [e1, Char.ofNat_toNat, e2, e3, hol_undash_dashed _ htg]
    exact hol_rec_split r hr

theorem hol_go_none (old new : List Char) (fuel : Nat) (s : List Char)
    (h : ∀ p, isPrefix old (s.drop p) = false) : replaceAll.go old new fuel s = s := by
  induction fuel generalizing s with
  | zero => rfl
  | succ f ih =>
    cases s with
    | nil => rfl
    | cons c cs =>
      have h0 : isPrefix old (c :: cs) = false := by simpa using h 0
      rw [replaceAll.go]
      simp only [h0, Bool.and_false, Bool.false_eq_true, if_false]
      rw [ih cs (fun p => by simpa using h (p + 1))]

theorem hol_go_skip (old new a s : List Char) (fuel : Nat)
    (h : ∀ p, p < a.length → isPrefix old ((a ++ s).drop p) = false) :
    replaceAll.go old new (fuel + a.length) (a ++ s) = a ++ replaceAll.go old new fuel s := by
  induction a with
  | nil => rfl
  | cons c a ih =>
    have h0 : isPrefix old (c :: (a ++ s)) = false := by simpa using h 0 (by simp)
    rw [List.length_cons, ← Nat.add_assoc, List.cons_append, replaceAll.go]
    simp only [h0, Bool.and_false, Bool.false_eq_true, if_false]
    rw [ih (fun p hp => by simpa using h (p + 1) (by simpa using hp))]
    rfl

/-- `strings.Replace` when `old` occurs exactly once -/
theorem hol_replaceAll_unique (old new a b : List Char) (ho : old ≠ [])
    (hocc : ∀ p, isPrefix old ((a ++ old ++ b).drop p) = true → p = a.length) :
    replaceAll old new (a ++ old ++ b) = a ++ new ++ b := by
  unfold replaceAll
  have hlen : (a ++ old ++ b).length + 1 = (old.length + b.length + 1) + a.length := by
    simp only [List.length_append]; omega
  have hskip : ∀ p, p < a.length → isPrefix old ((a ++ (old ++ b)).drop p) = false := by
    intro p hp
    rw [Bool.eq_false_iff]
    intro ht
    have := hocc p (by rwa [List.append_assoc])
    omega
  rw [hlen, List.append_assoc, hol_go_skip old new a (old ++ b) _ hskip]
  have hp : isPrefix old (old ++ b) = true := (isPrefix_iff _ _).2 ⟨b, rfl⟩
  have hne : old.isEmpty = false := by
    cases old with
    | nil => exact absurd rfl ho
    | cons _ _ => rfl
  have hpos : 0 < old.length := by
    cases old with
    | nil => exact absurd rfl ho
    | cons _ _ => simp
  have hb : ∀ q, isPrefix old (b.drop q) = false := by
    intro q
    rw [Bool.eq_false_iff]
    intro ht
    have e : (a ++ old ++ b).drop (a.length + old.length + q) = b.drop q := by
      rw [← List.drop_drop, ← List.length_append, List.drop_left]
    have := hocc (a.length + old.length + q) (by rw [e]; exact ht)
    omega
  have hgo : replaceAll.go old new (old.length + b.length + 1) (old ++ b) = new ++ b := by
    cases hob : old ++ b with
    | nil =>
      have := congrArg List.length hob
      simp only [List.length_append, List.length_nil] at this
      omega
    | cons c cs =>
      rw [replaceAll.go, ← hob]
      simp only [hne, hp, Bool.not_false, Bool.and_self, if_true, List.drop_left]
      rw [hol_go_none old new _ b hb]
  rw [hgo, List.append_assoc]

/-- the 18 characters of `r` occur in `flat (pre ++ [r] ++ post)` only at `r`'s own (aligned) position -/
def hol_OccursOnlyAligned (pre : List Rec) (r : Rec) (post : List Rec) : Prop :=
  ∀ p, isPrefix r ((flat (pre ++ ([r] : List Rec) ++ post)).drop p) = true → p = 18 * pre.length

theorem hol_fix_present0 (st : HolidayState) (pre post : List (List Char)) (r seg : List Char)
    (hd : st.data = flat0 (pre ++ [r] ++ post)) (hw : WF0 (pre ++ [r] ++ post))
    (hs : (pre ++ [r] ++ post).Pairwise DayLt)
    (hb : ∀ x ∈ pre ++ [r] ++ post, (buildForward st x).isSome = true) (hl : seg.length = 18)
    (hday : r.take 8 = seg.take 8) (hn : st.names.Nodup)
    (hwk : r.getD 9 ' ' = '0' ∨ r.getD 9 ' ' = '1') (htg : ∀ c ∈ r.drop 10, c ≠ '-')
    (hocc : ∀ p, isPrefix r ((flat0 (pre ++ [r] ++ post)).drop p) = true → p = 18 * pre.length) :
    fix st none seg =
      some ⟨flat0 pre ++ (if (seg.getD 8 ' ' == '~') = true then [] else seg) ++ flat0 post, st.names⟩ := by
  have hr : r.length = 18 := hw r (by simp)
  have hbr := hb r (by simp)
  rw [Option.isSome_iff_exists] at hbr
  obtain ⟨h, hh⟩ := hbr
  have hg := hol_getHoliday_present st pre post r h hd hw hs hb hh
  rw [hday] at hg
  obtain ⟨idx, hi, hold⟩ := hol_rebuild st r h hr hh hwk htg hn
  rw [hol_fix_single st seg hl, hol_fixLoop_present st.names st.data seg h idx hl hg hi, ← hday, hold, hd]
  have hwpre : WF0 pre := by
    rw [WF0_append, WF0_append] at hw; exact hw.1.1
  have hfl : flat0 (pre ++ [r] ++ post) = flat0 pre ++ r ++ flat0 post := by
    rw [flat0_append, flat0_snoc]
  rw [hfl] at hocc ⊢
  rw [hol_replaceAll_unique r _ (flat0 pre) (flat0 post)
    (by intro e; rw [e] at hr; simp at hr)
    (by intro p hp; rw [flat0_length _ hwpre]; exact hocc p hp)]
  rfl

theorem hol_fix_replace0 (st : HolidayState) (pre post : List (List Char)) (r seg : List Char)
    (hd : st.data = flat0 (pre ++ [r] ++ post)) (hw : WF0 (pre ++ [r] ++ post))
    (hs : (pre ++ [r] ++ post).Pairwise DayLt)
    (hb : ∀ x ∈ pre ++ [r] ++ post, (buildForward st x).isSome = true) (hl : seg.length = 18)
    (hnr : seg.getD 8 ' ' ≠ '~') (hday : r.take 8 = seg.take 8) (hn : st.names.Nodup)
    (hwk : r.getD 9 ' ' = '0' ∨ r.getD 9 ' ' = '1') (htg : ∀ c ∈ r.drop 10, c ≠ '-')
    (hocc : ∀ p, isPrefix r ((flat0 (pre ++ [r] ++ post)).drop p) = true → p = 18 * pre.length) :
    fix st none seg = some ⟨flat0 (pre ++ [seg] ++ post), st.names⟩ ∧
      (pre ++ [seg] ++ post).Pairwise DayLt ∧ WF0 (pre ++ [seg] ++ post) := by
  refine ⟨?_, ?_, ?_⟩
  · rw [hol_fix_present0 st pre post r seg hd hw hs hb hl hday hn hwk htg hocc]
    have : (seg.getD 8 ' ' == '~') = false := by simpa using hnr
    rw [this, flat0_append, flat0_snoc]
    rfl
  · rw [List.pairwise_append, List.pairwise_append] at hs ⊢
    obtain ⟨⟨h1, _, h2⟩, h3, h4⟩ := hs
    refine ⟨⟨h1, by simp, ?_⟩, h3, ?_⟩
    · intro a ha b hb'
      have : b = seg := by simpa using hb'
      subst this
      have := h2 a ha r (by simp)
      unfold DayLt at this ⊢
      rwa [hday] at this
    · intro a ha b hb'
      rcases List.mem_append.1 ha with ha | ha
      · exact h4 a (List.mem_append.2 (Or.inl ha)) b hb'
      · have : a = seg := by simpa using ha
        subst this
        have := h4 r (by simp) b hb'
        unfold DayLt at this ⊢
        rwa [hday] at this
  · rw [WF0_append, WF0_append] at hw ⊢
    exact ⟨⟨hw.1.1, by intro x hx; have : x = seg := by simpa using hx
                       rw [this]; exact hl⟩, hw.2⟩

theorem hol_fix_remove_present0 (st : HolidayState) (pre post : List (List Char)) (r seg : List Char)
    (hd : st.data = flat0 (pre ++ [r] ++ post)) (hw : WF0 (pre ++ [r] ++ post))
    (hs : (pre ++ [r] ++ post).Pairwise DayLt)
    (hb : ∀ x ∈ pre ++ [r] ++ post, (buildForward st x).isSome = true) (hl : seg.length = 18)
    (hr : seg.getD 8 ' ' = '~') (hday : r.take 8 = seg.take 8) (hn : st.names.Nodup)
    (hwk : r.getD 9 ' ' = '0' ∨ r.getD 9 ' ' = '1') (htg : ∀ c ∈ r.drop 10, c ≠ '-')
    (hocc : ∀ p, isPrefix r ((flat0 (pre ++ [r] ++ post)).drop p) = true → p = 18 * pre.length) :
    fix st none seg = some ⟨flat0 (pre ++ post), st.names⟩ ∧ (pre ++ post).Pairwise DayLt ∧ WF0 (pre ++ post) := by
  refine ⟨?_, ?_, ?_⟩
  · rw [hol_fix_present0 st pre post r seg hd hw hs hb hl hday hn hwk htg hocc, hr, flat0_append]
    simp
  · rw [List.pairwise_append, List.pairwise_append] at hs
    rw [List.pairwise_append]
    obtain ⟨⟨h1, _, _⟩, h3, h4⟩ := hs
    exact ⟨h1, h3, fun a ha b hb' => h4 a (List.mem_append.2 (Or.inl ha)) b hb'⟩
  · rw [WF0_append, WF0_append] at hw
    rw [WF0_append]
    exact ⟨hw.1.1, hw.2⟩

/-- REPLACE of a present day: the record `r` with the segment's day becomes `seg`, nothing else changes.
Extra hypotheses (all needed, see the comment above): distinct names, work flag '0'/'1', no '-' in
the target field, and `r` occurs as a character string only at its own aligned position. -/
theorem fix_replace (st : HolidayState) (pre post : List Rec) (r : Rec) (seg : List Char)
    (hd : st.data = flat (pre ++ ([r] : List Rec) ++ post)) (hw : WF (pre ++ ([r] : List Rec) ++ post))
    (hs : SortedByDay (pre ++ ([r] : List Rec) ++ post))
    (hb : ∀ x ∈ pre ++ ([r] : List Rec) ++ post, (buildForward st x).isSome = true) (hl : seg.length = 18)
    (hnr : seg.getD 8 ' ' ≠ '~') (hday : dayOf r = seg.take 8) (hn : st.names.Nodup)
    (hwk : r.getD 9 ' ' = '0' ∨ r.getD 9 ' ' = '1') (htg : ∀ c ∈ targetOf r, c ≠ '-')
    (hocc : hol_OccursOnlyAligned pre r post) :
    fix st none seg = some ⟨flat (pre ++ ([seg] : List Rec) ++ post), st.names⟩ ∧
      SortedByDay (pre ++ ([seg] : List Rec) ++ post) ∧ WF (pre ++ ([seg] : List Rec) ++ post) :=
  hol_fix_replace0 st pre post r seg hd hw hs hb hl hnr hday hn hwk htg hocc

/-- REMOVE of a present day: the record `r` with the segment's day disappears, nothing else changes
(same extra hypotheses as `fix_replace`) -/
theorem fix_remove_present (st : HolidayState) (pre post : List Rec) (r : Rec) (seg : List Char)
    (hd : st.data = flat (pre ++ ([r] : List Rec) ++ post)) (hw : WF (pre ++ ([r] : List Rec) ++ post))
    (hs : SortedByDay (pre ++ ([r] : List Rec) ++ post))
    (hb : ∀ x ∈ pre ++ ([r] : List Rec) ++ post, (buildForward st x).isSome = true) (hl : seg.length = 18)
    (hr : seg.getD 8 ' ' = '~') (hday : dayOf r = seg.take 8) (hn : st.names.Nodup)
    (hwk : r.getD 9 ' ' = '0' ∨ r.getD 9 ' ' = '1') (htg : ∀ c ∈ targetOf r, c ≠ '-')
    (hocc : hol_OccursOnlyAligned pre r post) :
    fix st none seg = some ⟨flat (pre ++ post), st.names⟩ ∧ SortedByDay (pre ++ post) ∧ WF (pre ++ post) :=
  hol_fix_remove_present0 st pre post r seg hd hw hs hb hl hr hday hn hwk htg hocc

/-- `hol_OccursOnlyAligned` is necessary, kernel-checked: three well-formed, buildable records, strictly
sorted by day, distinct names; the 18 characters of the third record `r` (day 20000101) also occur at
offset 10, across the boundary of the first two records (target field of the first ++ first ten
characters of the second). Removing day 20000101 makes `strings.Replace` delete BOTH occurrences:
the result is ONE corrupted record (head of the first ++ tail of the second) instead of the first two
records. -/
example :
    let a := "001000010020000101".toList
    let b := "002000010120000102".toList
    let r := "200001010020000101".toList
    let st : HolidayState := ⟨flat0 [a, b, r], ["a"]⟩
    WF0 [a, b, r] ∧ [a, b, r].Pairwise (fun x y => cmpChars (x.take 8) (y.take 8) = .lt) ∧
      (∀ x ∈ [a, b, r], (buildForward st x).isSome = true) ∧
      isPrefix r (st.data.drop 10) = true ∧
      (fix st none "20000101~~~~~~~~~~".toList).map (·.data) = some "001000010020000102".toList ∧
      flat0 [a, b] = "001000010020000101002000010120000102".toList :=
  ⟨WF0_of_all _ (by decide), by decide, by decide, by decide, by decide, by decide⟩

/-! ## workday stepping -/

theorem hol_nextDay_add' (s r t : Solar) (a b : Int) (hv : s.valid = true)
    (h1 : s.nextDay a = some r) (h2 : r.nextDay b = some t) : s.nextDay (a + b) = some t := by
  obtain ⟨r', e, hrv, hj, a1, a2, a3⟩ := nextDay_spec_strong s a hv
  rw [h1] at e
  cases e
  obtain ⟨t', e', htv, hj', c1, c2, c3⟩ := nextDay_spec_strong r b hrv
  rw [h2] at e'
  cases e'
  obtain ⟨u, eu, huv, hj'', d1, d2, d3⟩ := nextDay_spec_strong s (a + b) hv
  rw [eu]
  congr 1
  exact solar_eq_of_jdn u t huv htv (by omega) (by omega) (by omega) (by omega)

theorem hol_nextDay_zero' (s : Solar) (hv : s.valid = true) : s.nextDay 0 = some s := by
  obtain ⟨u, eu, huv, hj, d1, d2, d3⟩ := nextDay_spec_strong s 0 hv
  rw [eu]
  congr 1
  exact solar_eq_of_jdn u s huv hv (by omega) d1 d2 d3

/-- number of working days among s+add, s+2·add, …, s+k·add -/
def workdaysBetween (st : HolidayState) (s : Solar) (add : Int) : Nat → Nat
  | 0 => 0
  | k + 1 => workdaysBetween st s add k + (match s.nextDay (add * ((k : Int) + 1)) with | some d => (if isWorkday st d = some true then 1 else 0) | none => 0)

theorem workLoop_spec (st : HolidayState) (s : Solar) (hv : s.valid = true) (add : Int) (fuel : Nat) :
    ∀ (rest : Nat) (o r : Solar) (j : Nat), s.nextDay (add * (j : Int)) = some o →
      workLoop st add fuel rest o = some r →
      (rest = 0 ∧ r = o) ∨
      (isWorkday st r = some true ∧ ∃ k : Nat, j + 1 ≤ k ∧ s.nextDay (add * (k : Int)) = some r ∧
        workdaysBetween st s add k = workdaysBetween st s add j + rest) := by
  induction fuel with
  | zero =>
    intro rest o r j hj h
    cases rest with
    | zero => simp only [workLoop, Option.some.injEq] at h; exact Or.inl ⟨rfl, h.symm⟩
    | succ rest => simp [workLoop] at h
  | succ f ih =>
    intro rest o r j hj h
    cases rest with
    | zero => simp only [workLoop, Option.some.injEq] at h; exact Or.inl ⟨rfl, h.symm⟩
    | succ rest =>
      right
      cases hnd : o.nextDay add with
      | none => simp [workLoop, hnd] at h
      | some o' =>
        have hj' : s.nextDay (add * ((j : Int) + 1)) = some o' := by
          rw [Int.mul_add, Int.mul_one]
          exact hol_nextDay_add' s o o' _ _ hv hj hnd
        have hj'' : s.nextDay (add * ((j + 1 : Nat) : Int)) = some o' := by
          rw [Int.natCast_add, Int.natCast_one]; exact hj'
        cases hw : isWorkday st o' with
        | none => simp [workLoop, hnd, hw] at h
        | some b =>
          cases b with
          | true =>
            simp only [workLoop, hnd, hw] at h
            have hwb : workdaysBetween st s add (j + 1) = workdaysBetween st s add j + 1 := by
              simp [workdaysBetween, hj', hw]
            rcases ih rest o' r (j + 1) hj'' h with ⟨h0, hr⟩ | ⟨h1, k, hk1, hk2, hk3⟩
            · subst hr
              exact ⟨hw, j + 1, Nat.le_refl _, hj'', by rw [hwb, h0]⟩
            · exact ⟨h1, k, by omega, hk2, by rw [hk3, hwb]; omega⟩
          | false =>
            simp only [workLoop, hnd, hw] at h
            have hwb : workdaysBetween st s add (j + 1) = workdaysBetween st s add j := by
              simp [workdaysBetween, hj', hw]
            rcases ih (rest + 1) o' r (j + 1) hj'' h with ⟨h0, hr⟩ | ⟨h1, k, hk1, hk2, hk3⟩
            · omega
            · exact ⟨h1, k, by omega, hk2, by rw [hk3, hwb]⟩

theorem nextWorkday_spec (st : HolidayState) (s r : Solar) (n : Int) (fuel : Nat) (hv : s.valid = true) (hy : 1 ≤ s.year) (hn : n ≠ 0)
    (h : nextWorkday st s n fuel = some r) :
    isWorkday st r = some true ∧ ∃ k : Nat, 1 ≤ k ∧ s.nextDay ((if n < 0 then -1 else 1) * (k : Int)) = some r ∧
      workdaysBetween st s (if n < 0 then -1 else 1) k = n.natAbs := by
  unfold nextWorkday at h
  rw [if_neg hn] at h
  have h0 : s.nextDay ((if n < 0 then -1 else 1) * ((0 : Nat) : Int)) = some s := by
    rw [Int.natCast_zero, Int.mul_zero]; exact hol_nextDay_zero' s hv
  rcases workLoop_spec st s hv _ fuel _ s r 0 h0 h with ⟨h1, _⟩ | ⟨h1, k, hk1, hk2, hk3⟩
  · omega
  · exact ⟨h1, k, by omega, hk2, by rw [hk3]; simp [workdaysBetween]⟩

theorem nextWorkday_zero (st : HolidayState) (s : Solar) (fuel : Nat) : nextWorkday st s 0 fuel = some s := by
  simp [nextWorkday]

#print axioms findForward_spec
#print axioms findBackward_spec
#print axioms alignedRecords_flat
#print axioms backward_view_eq_filter
#print axioms hol_backwardOld_view_eq_filter
#print axioms forwardRun_spec
#print axioms forward_view_eq_filter
#print axioms backward_contiguity_necessary
#print axioms fix_add
#print axioms fix_remove_absent
#print axioms fix_replace
#print axioms fix_remove_present
#print axioms nextWorkday_spec
#print axioms nextWorkday_zero
end Model
