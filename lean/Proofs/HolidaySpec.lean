/-
Proofs.HolidaySpec — the substring-search lookups of `HolidayUtil` (`findForward` / `findBackward`,
with the re-alignment to the 18-character grid after a possibly MIS-ALIGNED `strings.Index` hit)
characterised over abstract lists of 18-character records, the forward / backward views as runs
and (under sortedness / contiguity) as filters, necessity of the contiguity hypothesis for the
by-target view, and the working-day stepping loop.
-/
import Model.Holiday
import Proofs.CivilArith
set_option linter.unusedVariables false
namespace Model

/-- a record is 18 characters -/
def Rec := List Char
def WF (recs : List Rec) : Prop := ∀ r ∈ recs, r.length = 18
def flat (recs : List Rec) : List Char := recs.flatten

/-! Internal versions over `List (List Char)` (`Rec` is an opaque-to-instances `def`; the stated
theorems are obtained from these by definitional unfolding). -/
def WF0 (recs : List (List Char)) : Prop := ∀ r ∈ recs, r.length = 18
def flat0 (recs : List (List Char)) : List Char := recs.flatten

theorem isPrefix_nil (s : List Char) : isPrefix [] s = true := by
  cases s <;> rfl

theorem isPrefix_iff (k s : List Char) : isPrefix k s = true ↔ ∃ t, s = k ++ t := by
  induction k generalizing s with
  | nil => simp [isPrefix_nil]
  | cons a as ih =>
    cases s with
    | nil => simp [isPrefix]
    | cons b bs =>
      simp only [isPrefix, Bool.and_eq_true, beq_iff_eq, ih, List.cons_append, List.cons.injEq]
      constructor
      · rintro ⟨rfl, t, rfl⟩; exact ⟨t, rfl, rfl⟩
      · rintro ⟨t, rfl, rfl⟩; exact ⟨rfl, t, rfl⟩

theorem isPrefix_nil_right (k : List Char) (hk : k ≠ []) : isPrefix k [] = false := by
  cases k with
  | nil => exact absurd rfl hk
  | cons a as => rfl

theorem isPrefix_append_right (k r x : List Char) (h : k.length ≤ r.length) :
    isPrefix k (r ++ x) = isPrefix k r := by
  induction k generalizing r with
  | nil => simp [isPrefix_nil]
  | cons a as ih =>
    cases r with
    | nil => simp at h
    | cons b bs =>
      simp only [List.cons_append, isPrefix]
      rw [ih bs (by simpa using h)]

theorem isPrefix_length (k s : List Char) (h : isPrefix k s = true) : k.length ≤ s.length := by
  obtain ⟨t, rfl⟩ := (isPrefix_iff k s).1 h
  simp

theorem indexOf_none (key : List Char) (hk : key ≠ []) (s : List Char) (i : Nat)
    (h : indexOf key s i = none) : ∀ p, isPrefix key (s.drop p) = false := by
  induction s generalizing i with
  | nil => intro p; simpa using isPrefix_nil_right key hk
  | cons c cs ih =>
    unfold indexOf at h
    split at h
    · cases h
    · rename_i h1
      intro p
      cases p with
      | zero => simpa using h1
      | succ p => simpa using ih _ h p

theorem indexOf_some (key : List Char) (hk : key ≠ []) (s : List Char) (i j : Nat)
    (h : indexOf key s i = some j) :
    ∃ p, j = i + p ∧ isPrefix key (s.drop p) = true ∧ ∀ q, q < p → isPrefix key (s.drop q) = false := by
  induction s generalizing i with
  | nil =>
    unfold indexOf at h
    cases key with
    | nil => exact absurd rfl hk
    | cons _ _ => simp at h
  | cons c cs ih =>
    unfold indexOf at h
    split at h
    · rename_i h1
      cases h
      exact ⟨0, rfl, by simpa using h1, by intro q hq; omega⟩
    · rename_i h1
      obtain ⟨p, hp, h2, h3⟩ := ih _ h
      refine ⟨p + 1, by omega, by simpa using h2, ?_⟩
      intro q hq
      cases q with
      | zero => simpa using h1
      | succ q => simpa using h3 q (by omega)

theorem lastIndexOf_spec (key : List Char) (hk : key ≠ []) (s : List Char) (i : Nat) (acc : Option Nat) :
    (lastIndexOf key s i acc = acc ∧ ∀ q, isPrefix key (s.drop q) = false) ∨
    (∃ p, lastIndexOf key s i acc = some (i + p) ∧ isPrefix key (s.drop p) = true ∧
      ∀ q, p < q → isPrefix key (s.drop q) = false) := by
  induction s generalizing i acc with
  | nil =>
    left
    cases key with
    | nil => exact absurd rfl hk
    | cons a as => exact ⟨by simp [lastIndexOf], by intro q; simp [isPrefix]⟩
  | cons c cs ih =>
    unfold lastIndexOf
    rcases ih (i + 1) (if isPrefix key (c :: cs) then some i else acc) with ⟨h1, h2⟩ | ⟨p, h1, h2, h3⟩
    · by_cases hc : isPrefix key (c :: cs) = true
      · right
        refine ⟨0, by rw [h1]; simp [hc], by simpa using hc, ?_⟩
        intro q hq
        cases q with
        | zero => omega
        | succ q => simpa using h2 q
      · left
        refine ⟨by rw [h1]; simp [hc], ?_⟩
        intro q
        cases q with
        | zero => simpa using hc
        | succ q => simpa using h2 q
    · right
      refine ⟨p + 1, by rw [h1]; congr 1; omega, by simpa using h2, ?_⟩
      intro q hq
      cases q with
      | zero => omega
      | succ q => simpa using h3 q (by omega)

/-! ## flat / records -/

theorem WF0_cons {r : List Char} {rs : List (List Char)} : WF0 (r :: rs) ↔ r.length = 18 ∧ WF0 rs := by
  simp [WF0]

theorem WF0_append {a b : List (List Char)} : WF0 (a ++ b) ↔ WF0 a ∧ WF0 b := by
  simp only [WF0, List.mem_append]
  constructor
  · intro h; exact ⟨fun r hr => h r (Or.inl hr), fun r hr => h r (Or.inr hr)⟩
  · rintro ⟨h1, h2⟩ r (hr | hr); exact h1 r hr; exact h2 r hr

theorem WF0_take {l : List (List Char)} (h : WF0 l) (m : Nat) : WF0 (l.take m) :=
  fun r hr => h r (List.mem_of_mem_take hr)
theorem WF0_drop {l : List (List Char)} (h : WF0 l) (m : Nat) : WF0 (l.drop m) :=
  fun r hr => h r (List.mem_of_mem_drop hr)
theorem WF0_reverse {l : List (List Char)} : WF0 l.reverse ↔ WF0 l := by simp [WF0]

theorem flat0_nil : flat0 [] = [] := rfl
theorem flat0_cons (r : List Char) (rs : List (List Char)) : flat0 (r :: rs) = r ++ flat0 rs := rfl
theorem flat0_append (a b : List (List Char)) : flat0 (a ++ b) = flat0 a ++ flat0 b := by
  simp [flat0]

theorem flat0_length (l : List (List Char)) (h : WF0 l) : (flat0 l).length = 18 * l.length := by
  induction l with
  | nil => rfl
  | cons r rs ih =>
    rw [WF0_cons] at h
    rw [flat0_cons, List.length_append, ih h.2, h.1, List.length_cons]; omega

theorem flat0_drop (l : List (List Char)) (h : WF0 l) (m : Nat) : (flat0 l).drop (18 * m) = flat0 (l.drop m) := by
  induction l generalizing m with
  | nil => simp [flat0_nil]
  | cons r rs ih =>
    cases m with
    | zero => simp
    | succ m =>
      rw [WF0_cons] at h
      rw [flat0_cons, List.drop_succ_cons, ← ih h.2 m]
      have : 18 * (m + 1) = r.length + 18 * m := by omega
      rw [this, List.drop_length_add_append]

theorem flat0_take (l : List (List Char)) (h : WF0 l) (m : Nat) : (flat0 l).take (18 * m) = flat0 (l.take m) := by
  induction l generalizing m with
  | nil => simp [flat0_nil]
  | cons r rs ih =>
    cases m with
    | zero => simp [flat0_nil]
    | succ m =>
      rw [WF0_cons] at h
      rw [flat0_cons, List.take_succ_cons, flat0_cons, ← ih h.2 m]
      have : 18 * (m + 1) = r.length + 18 * m := by omega
      rw [this, List.take_length_add_append]

theorem flat0_split (l1 : List (List Char)) (r : List Char) (l2 : List (List Char)) (h : WF0 (l1 ++ r :: l2)) :
    (flat0 (l1 ++ r :: l2)).drop (18 * l1.length) = r ++ flat0 l2 := by
  rw [flat0_drop _ h, List.drop_left, flat0_cons]

theorem dropWhile_append_of_all {α} (P : α → Bool) (a b : List α) (h : ∀ x ∈ a, P x = true) :
    (a ++ b).dropWhile P = b.dropWhile P := by
  induction a with
  | nil => rfl
  | cons x xs ih =>
    rw [List.cons_append, List.dropWhile_cons, h x (by simp)]
    exact ih (fun y hy => h y (by simp [hy]))

theorem dropWhile_all {α} (P : α → Bool) (a : List α) (h : ∀ x ∈ a, P x = true) :
    a.dropWhile P = [] := by
  have := dropWhile_append_of_all P a [] h
  simpa using this

theorem skipToPrefix_flat0 (key : List Char) (hk : key.length ≤ 18) (l : List (List Char)) (h : WF0 l)
    (fuel : Nat) (hf : l.length < fuel) :
    skipToPrefix key fuel (flat0 l) = flat0 (l.dropWhile (fun r => !isPrefix key r)) := by
  induction l generalizing fuel with
  | nil =>
    cases fuel with
    | zero => omega
    | succ f => simp [skipToPrefix, flat0_nil, recSize]
  | cons r rs ih =>
    cases fuel with
    | zero => omega
    | succ f =>
      rw [WF0_cons] at h
      have hl : ¬ (flat0 (r :: rs)).length < recSize := by
        rw [flat0_cons, List.length_append, h.1]; simp [recSize]
      have hp : isPrefix key (flat0 (r :: rs)) = isPrefix key r := by
        rw [flat0_cons]; exact isPrefix_append_right _ _ _ (by omega)
      unfold skipToPrefix
      rw [if_neg hl, hp, List.dropWhile_cons]
      by_cases hc : isPrefix key r = true
      · simp [hc]
      · have hc' : isPrefix key r = false := by simpa using hc
        have hd : (flat0 (r :: rs)).drop recSize = flat0 rs := by
          rw [flat0_cons, recSize, ← h.1, List.drop_left]
        simp only [hc', Bool.false_eq_true, if_false, Bool.not_false, if_true, hd]
        exact ih h.2 f (by simpa using hf)

theorem align_fwd (d : List Char) (p : Nat) (hlen : d.length % 18 = 0) :
    (if (d.drop p).length % recSize > 0 then (d.drop p).drop ((d.drop p).length % recSize) else d.drop p)
      = d.drop (18 * ((p + 17) / 18)) := by
  rw [List.length_drop, recSize]
  split
  · rw [List.drop_drop]; congr 1; omega
  · by_cases hp : p ≤ d.length
    · congr 1; omega
    · rw [List.drop_of_length_le (by omega), List.drop_of_length_le (by omega)]

theorem findForward_spec0 (recs : List (List Char)) (key : List Char) (hw : WF0 recs)
    (hk : 1 ≤ key.length ∧ key.length ≤ 18) :
    findForward (flat0 recs) key = flat0 (recs.dropWhile (fun r => !isPrefix key r)) := by
  have hk0 : key ≠ [] := by intro h; rw [h] at hk; simp at hk
  unfold findForward
  cases h : indexOf key (flat0 recs) 0 with
  | none =>
    have h1 := indexOf_none key hk0 _ _ h
    have : ∀ r ∈ recs, (!isPrefix key r) = true := by
      intro r hr
      obtain ⟨s, t, rfl⟩ := List.append_of_mem hr
      have := h1 (18 * s.length)
      rw [flat0_split _ _ _ hw, isPrefix_append_right _ _ _ (by rw [hw r hr]; exact hk.2)] at this
      simp [this]
    rw [dropWhile_all _ _ this]; rfl
  | some start =>
    obtain ⟨p, hp, hpre, hmin⟩ := indexOf_some key hk0 _ _ _ h
    simp only [Nat.zero_add] at hp
    subst hp
    simp only []
    have hlen : (flat0 recs).length % 18 = 0 := by rw [flat0_length _ hw]; omega
    rw [align_fwd _ _ hlen, flat0_drop _ hw]
    rw [skipToPrefix_flat0 key hk.2 _ (WF0_drop hw _) _
      (by rw [flat0_length _ (WF0_drop hw _), recSize]; omega)]
    congr 1
    conv => rhs; rw [← List.take_append_drop ((start + 17) / 18) recs]
    symm
    apply dropWhile_append_of_all
    intro r hr
    obtain ⟨s, t, hst⟩ := List.append_of_mem hr
    have hlen2 : s.length + 1 + t.length ≤ (start + 17) / 18 := by
      have := congrArg List.length hst
      simp only [List.length_take, List.length_append, List.length_cons] at this
      omega
    have hrec : recs = s ++ r :: (t ++ List.drop ((start + 17) / 18) recs) := by
      conv => lhs; rw [← List.take_append_drop ((start + 17) / 18) recs, hst]
      simp
    have hw' := hw
    rw [hrec] at hw'
    have := hmin (18 * s.length) (by omega)
    rw [hrec, flat0_split _ _ _ hw', isPrefix_append_right _ _ _
      (by rw [hw r (List.mem_of_mem_take hr)]; exact hk.2)] at this
    simp [this]

/-! ## forward views -/

theorem getD_append_left (r x : List Char) (i : Nat) (d : Char) (h : i < r.length) :
    (r ++ x).getD i d = r.getD i d := by
  rw [List.getD_eq_getElem?_getD, List.getD_eq_getElem?_getD, List.getElem?_append_left h]

theorem buildForward_append (st : HolidayState) (r x : List Char) (h : r.length = 18) :
    buildForward st (r ++ x) = buildForward st r := by
  unfold buildForward
  have h1 : (r ++ x).take 8 = r.take 8 := List.take_append_of_le_length (by omega)
  have h2 : ∀ d, (r ++ x).getD 8 d = r.getD 8 d := fun d => getD_append_left r x 8 d (by omega)
  have h3 : ∀ d, (r ++ x).getD 9 d = r.getD 9 d := fun d => getD_append_left r x 9 d (by omega)
  have h4 : ((r ++ x).drop 10).take 8 = (r.drop 10).take 8 := by
    rw [List.drop_append_of_le_length (by omega), List.take_append_of_le_length (by simp; omega)]
  have h5 : ((r ++ x).length < recSize) = (r.length < recSize) := by
    simp [recSize, h]
  simp only [h1, h2, h3, h4, h5]

theorem collectForward_flat (st : HolidayState) (key : List Char) (hk : 1 ≤ key.length ∧ key.length ≤ 18)
    (l : List (List Char)) (hw : WF0 l) (hb : ∀ r ∈ l, (buildForward st r).isSome = true)
    (fuel : Nat) (hf : l.length < fuel) :
    collectForward st key fuel (flat0 l) =
      some ((l.takeWhile (fun r => isPrefix key r)).filterMap (buildForward st)) := by
  have hk0 : key ≠ [] := by intro h; rw [h] at hk; simp at hk
  induction l generalizing fuel with
  | nil =>
    cases fuel with
    | zero => omega
    | succ f => simp [collectForward, flat0_nil, isPrefix_nil_right key hk0]
  | cons r rs ih =>
    cases fuel with
    | zero => omega
    | succ f =>
      rw [WF0_cons] at hw
      have hp : isPrefix key (flat0 (r :: rs)) = isPrefix key r := by
        rw [flat0_cons]; exact isPrefix_append_right _ _ _ (by omega)
      unfold collectForward
      rw [hp]
      by_cases hc : isPrefix key r = true
      · have hd : (flat0 (r :: rs)).drop recSize = flat0 rs := by
          rw [flat0_cons, recSize, ← hw.1, List.drop_left]
        have hbr := hb r (by simp)
        rw [Option.isSome_iff_exists] at hbr
        obtain ⟨h, hh⟩ := hbr
        have hb' : buildForward st (flat0 (r :: rs)) = some h := by
          rw [flat0_cons, buildForward_append _ _ _ hw.1, hh]
        simp only [hc, Bool.not_true, Bool.false_eq_true, if_false, hb', hd]
        rw [ih hw.2 (fun x hx => hb x (by simp [hx])) f (by simpa using hf)]
        rw [List.takeWhile_cons_of_pos hc, List.filterMap_cons_some hh]
        rfl
      · have hc' : isPrefix key r = false := by simpa using hc
        simp [hc']

theorem flat0_eq_nil (l : List (List Char)) (hw : WF0 l) (h : flat0 l = []) : l = [] := by
  have := flat0_length l hw
  rw [h] at this
  cases l with
  | nil => rfl
  | cons _ _ => simp at this

theorem forwardRun_spec0 (st : HolidayState) (recs : List (List Char)) (key : List Char)
    (hd : st.data = flat0 recs) (hw : WF0 recs)
    (hk : 1 ≤ key.length ∧ key.length ≤ 18) (hb : ∀ r ∈ recs, (buildForward st r).isSome = true) :
    findHolidaysForward st key =
      some (((recs.dropWhile (fun r => !isPrefix key r)).takeWhile (fun r => isPrefix key r)).filterMap
        (buildForward st)) := by
  unfold findHolidaysForward
  rw [hd, findForward_spec0 recs key hw hk]
  have hwp : WF0 (recs.dropWhile (fun r => !isPrefix key r)) :=
    fun r hr => hw r ((List.dropWhile_sublist _).subset hr)
  have hbp : ∀ r ∈ recs.dropWhile (fun r => !isPrefix key r), (buildForward st r).isSome = true :=
    fun r hr => hb r ((List.dropWhile_sublist _).subset hr)
  simp only []
  split
  · rename_i he
    have := flat0_eq_nil _ hwp (by simpa using he)
    rw [this]; rfl
  · exact collectForward_flat st key hk _ hwp hbp _ (by rw [flat0_length _ hwp, recSize]; omega)

/-! ### sorted ⇒ the run is the filter -/

theorem char_eq_of_not_lt {a b : Char} (h1 : ¬ a < b) (h2 : ¬ b < a) : a = b :=
  Char.le_antisymm (Char.not_lt.1 h2) (Char.not_lt.1 h1)

theorem cmpChars_between (k x y z : List Char) (h1 : cmpChars (k ++ x) y = .lt)
    (h2 : cmpChars y (k ++ z) = .lt) : ∃ t, y = k ++ t := by
  induction k generalizing y with
  | nil => exact ⟨y, rfl⟩
  | cons a as ih =>
    cases y with
    | nil => simp [cmpChars] at h1
    | cons b bs =>
      simp only [List.cons_append, cmpChars] at h1 h2
      by_cases hab : a < b
      · simp [hab, Char.lt_asymm hab] at h2
      · by_cases hba : b < a
        · simp [hab, hba] at h1
        · simp only [hab, hba, if_false] at h1 h2
          obtain ⟨t, rfl⟩ := ih bs h1 h2
          exact ⟨t, by rw [char_eq_of_not_lt hab hba]; rfl⟩

def DayLt (a b : List Char) : Prop := cmpChars (a.take 8) (b.take 8) = .lt

theorem prefix_between (key a b c : List Char) (hk : key.length ≤ 8)
    (ha : isPrefix key a = true) (hc : isPrefix key c = true) (hab : DayLt a b) (hbc : DayLt b c) :
    isPrefix key b = true := by
  obtain ⟨ta, rfl⟩ := (isPrefix_iff _ _).1 ha
  obtain ⟨tc, rfl⟩ := (isPrefix_iff _ _).1 hc
  unfold DayLt at hab hbc
  rw [List.take_append, List.take_of_length_le hk] at hab hbc
  obtain ⟨t, ht⟩ := cmpChars_between _ _ _ _ hab hbc
  rw [isPrefix_iff]
  refine ⟨t ++ b.drop 8, ?_⟩
  rw [← List.append_assoc, ← ht, List.take_append_drop]

theorem takeWhile_eq_filter_sorted (key : List Char) (hk : key.length ≤ 8) (a : List Char)
    (t : List (List Char)) (h1 : ∀ b ∈ t, DayLt a b) (h2 : t.Pairwise DayLt)
    (ha : isPrefix key a = true) :
    t.takeWhile (fun r => isPrefix key r) = t.filter (fun r => isPrefix key r) := by
  induction t generalizing a with
  | nil => rfl
  | cons b u ih =>
    rw [List.pairwise_cons] at h2
    by_cases hb : isPrefix key b = true
    · rw [List.takeWhile_cons_of_pos hb, List.filter_cons_of_pos hb, ih b h2.1 h2.2 hb]
    · rw [List.takeWhile_cons_of_neg hb, List.filter_cons_of_neg hb]
      symm
      rw [List.filter_eq_nil_iff]
      intro c hc hpc
      exact hb (prefix_between key a b c hk ha hpc (h1 b (by simp)) (h2.1 c hc))

theorem run_eq_filter_sorted (key : List Char) (hk : key.length ≤ 8) (l : List (List Char))
    (h : l.Pairwise DayLt) :
    (l.dropWhile (fun r => !isPrefix key r)).takeWhile (fun r => isPrefix key r)
      = l.filter (fun r => isPrefix key r) := by
  induction l with
  | nil => rfl
  | cons a t ih =>
    rw [List.pairwise_cons] at h
    by_cases ha : isPrefix key a = true
    · rw [List.dropWhile_cons_of_neg (by simp [ha]), List.takeWhile_cons_of_pos ha,
        List.filter_cons_of_pos ha, takeWhile_eq_filter_sorted key hk a t h.1 h.2 ha]
    · rw [List.dropWhile_cons_of_pos (by simpa using ha), List.filter_cons_of_neg ha, ih h.2]

/-! ## backward -/

theorem isSuffix_iff (k s : List Char) : isSuffix k s = true ↔ ∃ t, s = t ++ k := by
  unfold isSuffix
  rw [isPrefix_iff]
  constructor
  · rintro ⟨t, ht⟩
    refine ⟨t.reverse, ?_⟩
    have := congrArg List.reverse ht
    simpa using this
  · rintro ⟨t, rfl⟩
    exact ⟨t.reverse, by simp⟩

theorem isSuffix_append_left (k r x : List Char) (h : k.length ≤ r.length) :
    isSuffix k (x ++ r) = isSuffix k r := by
  unfold isSuffix
  rw [List.reverse_append]
  exact isPrefix_append_right _ _ _ (by simpa using h)

theorem isSuffix_nil_right (k : List Char) (hk : k ≠ []) : isSuffix k [] = false := by
  unfold isSuffix
  exact isPrefix_nil_right _ (by simpa using hk)

theorem flat0_snoc (l : List (List Char)) (r : List Char) : flat0 (l ++ [r]) = flat0 l ++ r := by
  rw [flat0_append, flat0_cons, flat0_nil, List.append_nil]

theorem skipToSuffix_flat (key : List Char) (hk : key.length ≤ 18) (l : List (List Char)) (h : WF0 l)
    (fuel : Nat) (hf : l.length < fuel) :
    skipToSuffix key fuel (flat0 l.reverse) = flat0 (l.dropWhile (fun r => !isSuffix key r)).reverse := by
  induction l generalizing fuel with
  | nil =>
    cases fuel with
    | zero => omega
    | succ f => simp [skipToSuffix, flat0_nil, recSize]
  | cons r rs ih =>
    cases fuel with
    | zero => omega
    | succ f =>
      rw [WF0_cons] at h
      have he : flat0 (r :: rs).reverse = flat0 rs.reverse ++ r := by
        rw [List.reverse_cons, flat0_snoc]
      have hl : ¬ (flat0 (r :: rs).reverse).length < recSize := by
        rw [he, List.length_append, h.1]; simp [recSize]
      have hp : isSuffix key (flat0 (r :: rs).reverse) = isSuffix key r := by
        rw [he]; exact isSuffix_append_left _ _ _ (by omega)
      unfold skipToSuffix
      rw [if_neg hl, hp]
      by_cases hc : isSuffix key r = true
      · rw [List.dropWhile_cons_of_neg (by simp [hc])]
        simp [hc]
      · have hc' : isSuffix key r = false := by simpa using hc
        have hd : (flat0 (r :: rs).reverse).take ((flat0 (r :: rs).reverse).length - recSize) = flat0 rs.reverse := by
          rw [he]
          exact List.take_left' (by rw [List.length_append, h.1, recSize]; omega)
        rw [List.dropWhile_cons_of_pos (by simp [hc'])]
        simp only [hc', Bool.false_eq_true, if_false, hd]
        exact ih h.2 f (by simpa using hf)

theorem align_bwd (d : List Char) (q : Nat) (hq : q ≤ d.length) :
    (if (d.take q).length % recSize > 0 then (d.take q).take ((d.take q).length - (d.take q).length % recSize)
      else d.take q) = d.take (18 * (q / 18)) := by
  rw [List.length_take, recSize, Nat.min_eq_left hq]
  split
  · rw [List.take_take]; congr 1; omega
  · congr 1; omega

theorem suffix_at (key : List Char) (hk : key.length ≤ 18) (l1 : List (List Char)) (r : List Char)
    (l2 : List (List Char)) (hw : WF0 (l1 ++ r :: l2)) (hs : isSuffix key r = true) :
    isPrefix key ((flat0 (l1 ++ r :: l2)).drop (18 * l1.length + (18 - key.length))) = true := by
  obtain ⟨t, ht⟩ := (isSuffix_iff _ _).1 hs
  have hr : r.length = 18 := hw r (by simp)
  have htl : t.length = 18 - key.length := by
    have := congrArg List.length ht
    simp at this; omega
  rw [← List.drop_drop, flat0_split _ _ _ hw, ht, List.append_assoc, List.drop_left' htl, isPrefix_iff]
  exact ⟨_, rfl⟩

theorem findBackward_spec0 (recs : List (List Char)) (key : List Char) (hw : WF0 recs)
    (hk : 1 ≤ key.length ∧ key.length ≤ 18) :
    findBackward (flat0 recs) key = flat0 ((recs.reverse.dropWhile (fun r => !isSuffix key r)).reverse) := by
  have hk0 : key ≠ [] := by intro h; rw [h] at hk; simp at hk
  unfold findBackward
  rcases lastIndexOf_spec key hk0 (flat0 recs) 0 none with ⟨h1, h2⟩ | ⟨p, h1, hpre, hmax⟩
  · rw [h1]
    have : ∀ r ∈ recs.reverse, (!isSuffix key r) = true := by
      intro r hr
      rw [List.mem_reverse] at hr
      obtain ⟨s, t, rfl⟩ := List.append_of_mem hr
      by_cases hs : isSuffix key r = true
      · have := suffix_at key hk.2 s r t hw hs
        rw [h2] at this; cases this
      · simpa using hs
    rw [dropWhile_all _ _ this]; rfl
  · rw [h1]
    simp only [Nat.zero_add]
    have hle : p + key.length ≤ (flat0 recs).length := by
      have := isPrefix_length _ _ hpre
      rw [List.length_drop] at this
      omega
    rw [align_bwd _ _ hle, flat0_take _ hw]
    have e1 : flat0 (recs.take ((p + key.length) / 18)) = flat0 (recs.take ((p + key.length) / 18)).reverse.reverse := by
      rw [List.reverse_reverse]
    rw [e1, skipToSuffix_flat key hk.2 _ (WF0_reverse.2 (WF0_take hw _)) _
      (by rw [List.reverse_reverse, flat0_length _ (WF0_take hw _), recSize, List.length_reverse]; omega)]
    congr 2
    conv => rhs; rw [← List.take_append_drop ((p + key.length) / 18) recs, List.reverse_append]
    symm
    apply dropWhile_append_of_all
    intro r hr
    rw [List.mem_reverse] at hr
    obtain ⟨s, t, hst⟩ := List.append_of_mem hr
    have hlen2 : (p + key.length) / 18 + s.length + 1 + t.length = recs.length := by
      have := congrArg List.length hst
      simp only [List.length_drop, List.length_append, List.length_cons] at this
      omega
    have hrec : recs = (List.take ((p + key.length) / 18) recs ++ s) ++ r :: t := by
      conv => lhs; rw [← List.take_append_drop ((p + key.length) / 18) recs, hst]
      simp
    have hw' := hw
    rw [hrec] at hw'
    by_cases hs : isSuffix key r = true
    · have h3 := suffix_at key hk.2 _ r t hw' hs
      rw [← hrec] at h3
      rw [hmax _ (by simp only [List.length_append, List.length_take]; omega)] at h3
      cases h3
    · simpa using hs

theorem collectBackward_flat (st : HolidayState) (key : List Char) (hk : 1 ≤ key.length ∧ key.length ≤ 18)
    (l : List (List Char)) (hw : WF0 l) (hb : ∀ r ∈ l, (buildForward st r).isSome = true)
    (fuel : Nat) (hf : l.length < fuel) (acc : List Holiday) :
    collectBackward st key fuel (flat0 l.reverse) acc =
      some ((l.takeWhile (fun r => isSuffix key r)).reverse.filterMap (buildForward st) ++ acc) := by
  have hk0 : key ≠ [] := by intro h; rw [h] at hk; simp at hk
  induction l generalizing fuel acc with
  | nil =>
    cases fuel with
    | zero => omega
    | succ f => simp [collectBackward, flat0_nil, isSuffix_nil_right key hk0]
  | cons r rs ih =>
    cases fuel with
    | zero => omega
    | succ f =>
      rw [WF0_cons] at hw
      have he : flat0 (r :: rs).reverse = flat0 rs.reverse ++ r := by
        rw [List.reverse_cons, flat0_snoc]
      have hp : isSuffix key (flat0 (r :: rs).reverse) = isSuffix key r := by
        rw [he]; exact isSuffix_append_left _ _ _ (by omega)
      unfold collectBackward
      rw [hp]
      by_cases hc : isSuffix key r = true
      · have hlen : (flat0 (r :: rs).reverse).length = (flat0 rs.reverse).length + 18 := by
          rw [he, List.length_append, hw.1]
        have hd : (flat0 (r :: rs).reverse).take ((flat0 (r :: rs).reverse).length - recSize) = flat0 rs.reverse := by
          rw [he]
          exact List.take_left' (by rw [List.length_append, hw.1, recSize]; omega)
        have hbr := hb r (by simp)
        rw [Option.isSome_iff_exists] at hbr
        obtain ⟨h, hh⟩ := hbr
        have hb' : buildBackward st (flat0 (r :: rs).reverse) = some h := by
          unfold buildBackward
          rw [if_neg (by rw [hlen, recSize]; omega), he,
            List.drop_left' (by rw [List.length_append, hw.1, recSize]; omega), hh]
        simp only [hc, Bool.not_true, Bool.false_eq_true, if_false, hb', hd]
        rw [ih hw.2 (fun x hx => hb x (by simp [hx])) f (by simpa using hf)]
        rw [List.takeWhile_cons_of_pos hc]
        simp [List.filterMap_append, hh]
      · have hc' : isSuffix key r = false := by simpa using hc
        simp [hc']

theorem backwardRun_spec0 (st : HolidayState) (recs : List (List Char)) (key : List Char)
    (hd : st.data = flat0 recs) (hw : WF0 recs)
    (hk : 1 ≤ key.length ∧ key.length ≤ 18) (hb : ∀ r ∈ recs, (buildForward st r).isSome = true) :
    findHolidaysBackward st key =
      some (((recs.reverse.dropWhile (fun r => !isSuffix key r)).takeWhile (fun r => isSuffix key r)).reverse.filterMap
        (buildForward st)) := by
  unfold findHolidaysBackward
  rw [hd, findBackward_spec0 recs key hw hk]
  have hwp : WF0 (recs.reverse.dropWhile (fun r => !isSuffix key r)) :=
    fun r hr => hw r (List.mem_reverse.1 ((List.dropWhile_sublist _).subset hr))
  have hbp : ∀ r ∈ recs.reverse.dropWhile (fun r => !isSuffix key r), (buildForward st r).isSome = true :=
    fun r hr => hb r (List.mem_reverse.1 ((List.dropWhile_sublist _).subset hr))
  simp only []
  split
  · rename_i he
    have h0 := flat0_eq_nil _ (WF0_reverse.2 hwp) (by simpa using he)
    rw [List.reverse_eq_nil_iff] at h0
    rw [h0]; rfl
  · rw [collectBackward_flat st key hk _ hwp hbp _
      (by rw [flat0_length _ (WF0_reverse.2 hwp), recSize, List.length_reverse]; omega), List.append_nil]

/-! ### contiguity ⇒ the run is the filter -/

def Convex {α} (P : α → Bool) (l : List α) : Prop :=
  ∀ a b c l1 l2 l3 l4, l = l1 ++ [a] ++ l2 ++ [b] ++ l3 ++ [c] ++ l4 → P a = true → P c = true → P b = true

theorem Convex_tail {α} {P : α → Bool} {x : α} {l : List α} (h : Convex P (x :: l)) : Convex P l := by
  intro a b c l1 l2 l3 l4 hl
  exact h a b c (x :: l1) l2 l3 l4 (by rw [hl]; simp)

theorem takeWhile_eq_filter_convex {α} (P : α → Bool) (a : α) (t : List α) (h : Convex P (a :: t))
    (ha : P a = true) : t.takeWhile P = t.filter P := by
  induction t generalizing a with
  | nil => rfl
  | cons b u ih =>
    by_cases hb : P b = true
    · rw [List.takeWhile_cons_of_pos hb, List.filter_cons_of_pos hb, ih b (Convex_tail h) hb]
    · rw [List.takeWhile_cons_of_neg hb, List.filter_cons_of_neg hb]
      symm
      rw [List.filter_eq_nil_iff]
      intro c hc hpc
      obtain ⟨l3, l4, rfl⟩ := List.append_of_mem hc
      exact hb (h a b c [] [] l3 l4 (by simp) ha hpc)

theorem run_eq_filter_convex {α} (P : α → Bool) (l : List α) (h : Convex P l) :
    (l.dropWhile (fun r => !P r)).takeWhile P = l.filter P := by
  induction l with
  | nil => rfl
  | cons a t ih =>
    by_cases ha : P a = true
    · rw [List.dropWhile_cons_of_neg (by simp [ha]), List.takeWhile_cons_of_pos ha,
        List.filter_cons_of_pos ha, takeWhile_eq_filter_convex P a t h ha]
    · rw [List.dropWhile_cons_of_pos (by simpa using ha), List.filter_cons_of_neg ha, ih (Convex_tail h)]

theorem isSuffix8 (key r : List Char) (hk : key.length = 8) (hr : r.length = 18) :
    isSuffix key r = (r.drop 10 == key) := by
  rw [Bool.eq_iff_iff, isSuffix_iff, beq_iff_eq]
  constructor
  · rintro ⟨t, rfl⟩
    exact List.drop_left' (by simp at hr; omega)
  · intro h
    exact ⟨r.take 10, by rw [← h, List.take_append_drop]⟩

theorem backward_view_eq_filter0 (st : HolidayState) (recs : List (List Char)) (key : List Char)
    (hd : st.data = flat0 recs) (hw : WF0 recs)
    (hk : key.length = 8) (hb : ∀ r ∈ recs, (buildForward st r).isSome = true)
    (hc : ∀ a b c : List Char, ∀ l1 l2 l3 l4, recs = l1 ++ [a] ++ l2 ++ [b] ++ l3 ++ [c] ++ l4 →
      a.drop 10 = key → c.drop 10 = key → b.drop 10 = key) :
    findHolidaysBackward st key =
      some ((recs.filter (fun r => r.drop 10 == key)).filterMap (buildForward st)) := by
  rw [backwardRun_spec0 st recs key hd hw ⟨by omega, by omega⟩ hb]
  have hconv : Convex (fun r => isSuffix key r) recs.reverse := by
    intro a b c l1 l2 l3 l4 hl ha hc'
    have hrec : recs = l4.reverse ++ [c] ++ l3.reverse ++ [b] ++ l2.reverse ++ [a] ++ l1.reverse := by
      have := congrArg List.reverse hl
      rw [List.reverse_reverse] at this
      rw [this]; simp
    have hma : a ∈ recs := by rw [hrec]; simp
    have hmb : b ∈ recs := by rw [hrec]; simp
    have hmc : c ∈ recs := by rw [hrec]; simp
    simp only [isSuffix8 key _ hk (hw _ hma), isSuffix8 key _ hk (hw _ hmb),
      isSuffix8 key _ hk (hw _ hmc), beq_iff_eq] at ha hc' ⊢
    exact hc c b a _ _ _ _ hrec hc' ha
  rw [run_eq_filter_convex _ _ hconv, List.filter_reverse, List.reverse_reverse]
  congr 2
  apply List.filter_congr
  intro r hr
  exact isSuffix8 key r hk (hw r hr)

/-! ## stated theorems (forward) -/

theorem findForward_spec (recs : List Rec) (key : List Char) (hw : WF recs) (hk : 1 ≤ key.length ∧ key.length ≤ 18) :
    findForward (flat recs) key = flat (recs.dropWhile (fun r => !isPrefix key r)) :=
  findForward_spec0 recs key hw hk

theorem forwardRun_spec (st : HolidayState) (recs : List Rec) (key : List Char) (hd : st.data = flat recs) (hw : WF recs)
    (hk : 1 ≤ key.length ∧ key.length ≤ 18) (hb : ∀ r ∈ recs, (buildForward st r).isSome = true) :
    findHolidaysForward st key = some (((recs.dropWhile (fun r => !isPrefix key r)).takeWhile (fun r => isPrefix key r)).filterMap (buildForward st)) :=
  forwardRun_spec0 st recs key hd hw hk hb

def dayOf (r : Rec) : List Char := r.take 8
def SortedByDay (recs : List Rec) : Prop := recs.Pairwise (fun a b => cmpChars (dayOf a) (dayOf b) = .lt)

theorem forward_view_eq_filter (st : HolidayState) (recs : List Rec) (key : List Char) (hd : st.data = flat recs) (hw : WF recs)
    (hs : SortedByDay recs) (hk : 1 ≤ key.length ∧ key.length ≤ 8) (hb : ∀ r ∈ recs, (buildForward st r).isSome = true) :
    findHolidaysForward st key = some ((recs.filter (fun r => isPrefix key r)).filterMap (buildForward st)) := by
  rw [forwardRun_spec st recs key hd hw ⟨hk.1, by omega⟩ hb]
  exact congrArg (fun l => some (List.filterMap (buildForward st) l)) (run_eq_filter_sorted key hk.2 recs hs)

/-! ## stated theorems (backward) -/

def targetOf (r : Rec) : List Char := r.drop 10

theorem findBackward_spec (recs : List Rec) (key : List Char) (hw : WF recs) (hk : 1 ≤ key.length ∧ key.length ≤ 18) :
    findBackward (flat recs) key = flat ((recs.reverse.dropWhile (fun r => !isSuffix key r)).reverse) :=
  findBackward_spec0 recs key hw hk

theorem backward_view_eq_filter (st : HolidayState) (recs : List Rec) (key : List Char) (hd : st.data = flat recs) (hw : WF recs)
    (hk : key.length = 8) (hb : ∀ r ∈ recs, (buildForward st r).isSome = true)
    (hc : ∀ a b c : Rec, ∀ l1 l2 l3 l4, recs = l1 ++ [a] ++ l2 ++ [b] ++ l3 ++ [c] ++ l4 → targetOf a = key → targetOf c = key → targetOf b = key) :
    findHolidaysBackward st key = some ((recs.filter (fun r => targetOf r == key)).filterMap (buildForward st)) :=
  backward_view_eq_filter0 st recs key hd hw hk hb hc

theorem WF0_of_all (l : List (List Char)) (h : l.all (fun r => r.length == 18) = true) : WF0 l := by
  intro r hr
  have := List.all_eq_true.1 h r hr
  simpa using this

/-- the contiguity hypothesis is necessary: three well-formed, buildable records, the first and the
last with target 20200101, the middle one with another target; the by-target view returns only
the last record although two records carry the target -/
theorem backward_contiguity_necessary :
    ∃ (st : HolidayState) (recs : List Rec) (key : List Char),
      st.data = flat recs ∧ WF recs ∧ key.length = 8 ∧
      (∀ r ∈ recs, (buildForward st r).isSome = true) ∧
      (findHolidaysBackward st key).map List.length = some 1 ∧
      (recs.filter (fun r => targetOf r == key)).length = 2 :=
  ⟨⟨"201912310020200101202001020120200102202001030120200101".toList, ["a"]⟩,
   ["201912310020200101".toList, "202001020120200102".toList, "202001030120200101".toList],
   "20200101".toList, by decide, WF0_of_all ["201912310020200101".toList, "202001020120200102".toList, "202001030120200101".toList] (by decide), by decide, by decide, by decide, by decide⟩

example : ∃ st key, (findHolidaysBackward st key).map List.length = some 1 ∧
    ∃ recs : List Rec, st.data = flat recs ∧ WF recs ∧ (recs.filter (fun r => targetOf r == key)).length = 2 := by
  obtain ⟨st, recs, key, h1, h2, _, _, h5, h6⟩ := backward_contiguity_necessary
  exact ⟨st, key, h5, recs, h1, h2, h6⟩

/-- a mis-aligned `strings.Index` hit, kernel-checked: in these 5 records the key "01012002" first
occurs at offset 32 (the tail "0101" of the target field of record 1 followed by the head "2002" of
record 2, i.e. across a record boundary); the first record having it as a prefix is record 4
(offset 72), which is what `findForward` returns -/
example :
    let recs : List (List Char) := ["200112290020020101".toList, "200112300020020101".toList,
      "200201010120020101".toList, "200201020120020101".toList, "010120020120010101".toList]
    indexOf "01012002".toList recs.flatten 0 = some 32 ∧
      findForward recs.flatten "01012002".toList = "010120020120010101".toList := by decide

/-! ## workday stepping -/

theorem nextDay_add' (s r t : Solar) (a b : Int) (hv : s.valid = true)
    (h1 : s.nextDay a = some r) (h2 : r.nextDay b = some t) : s.nextDay (a + b) = some t := by
  obtain ⟨r', e, hrv, hj, a1, a2, a3⟩ := nextDay_spec_strong s a hv
  rw [h1] at e
  cases e
  obtain ⟨t', e', htv, hj', c1, c2, c3⟩ := nextDay_spec_strong r b hrv
  rw [h2] at e'
  cases e'
  obtain ⟨u, eu, huv, hj'', d1, d2, d3⟩ := nextDay_spec_strong s (a + b) hv
  rw [eu]
  congr 1
  exact solar_eq_of_jdn u t huv htv (by omega) (by omega) (by omega) (by omega)

theorem nextDay_zero' (s : Solar) (hv : s.valid = true) : s.nextDay 0 = some s := by
  obtain ⟨u, eu, huv, hj, d1, d2, d3⟩ := nextDay_spec_strong s 0 hv
  rw [eu]
  congr 1
  exact solar_eq_of_jdn u s huv hv (by omega) d1 d2 d3

/-- number of working days among s+add, s+2·add, …, s+k·add -/
def workdaysBetween (st : HolidayState) (s : Solar) (add : Int) : Nat → Nat
  | 0 => 0
  | k + 1 => workdaysBetween st s add k + (match s.nextDay (add * ((k : Int) + 1)) with | some d => (if isWorkday st d = some true then 1 else 0) | none => 0)

theorem workLoop_spec (st : HolidayState) (s : Solar) (hv : s.valid = true) (add : Int) (fuel : Nat) :
    ∀ (rest : Nat) (o r : Solar) (j : Nat), s.nextDay (add * (j : Int)) = some o →
      workLoop st add fuel rest o = some r →
      (rest = 0 ∧ r = o) ∨
      (isWorkday st r = some true ∧ ∃ k : Nat, j + 1 ≤ k ∧ s.nextDay (add * (k : Int)) = some r ∧
        workdaysBetween st s add k = workdaysBetween st s add j + rest) := by
  induction fuel with
  | zero =>
    intro rest o r j hj h
    cases rest with
    | zero => simp only [workLoop, Option.some.injEq] at h; exact Or.inl ⟨rfl, h.symm⟩
    | succ rest => simp [workLoop] at h
  | succ f ih =>
    intro rest o r j hj h
    cases rest with
    | zero => simp only [workLoop, Option.some.injEq] at h; exact Or.inl ⟨rfl, h.symm⟩
    | succ rest =>
      right
      cases hnd : o.nextDay add with
      | none => simp [workLoop, hnd] at h
      | some o' =>
        have hj' : s.nextDay (add * ((j : Int) + 1)) = some o' := by
          rw [Int.mul_add, Int.mul_one]
          exact nextDay_add' s o o' _ _ hv hj hnd
        have hj'' : s.nextDay (add * ((j + 1 : Nat) : Int)) = some o' := by
          rw [Int.natCast_add, Int.natCast_one]; exact hj'
        cases hw : isWorkday st o' with
        | none => simp [workLoop, hnd, hw] at h
        | some b =>
          cases b with
          | true =>
            simp only [workLoop, hnd, hw] at h
            have hwb : workdaysBetween st s add (j + 1) = workdaysBetween st s add j + 1 := by
              simp [workdaysBetween, hj', hw]
            rcases ih rest o' r (j + 1) hj'' h with ⟨h0, hr⟩ | ⟨h1, k, hk1, hk2, hk3⟩
            · subst hr
              exact ⟨hw, j + 1, Nat.le_refl _, hj'', by rw [hwb, h0]⟩
            · exact ⟨h1, k, by omega, hk2, by rw [hk3, hwb]; omega⟩
          | false =>
            simp only [workLoop, hnd, hw] at h
            have hwb : workdaysBetween st s add (j + 1) = workdaysBetween st s add j := by
              simp [workdaysBetween, hj', hw]
            rcases ih (rest + 1) o' r (j + 1) hj'' h with ⟨h0, hr⟩ | ⟨h1, k, hk1, hk2, hk3⟩
            · omega
            · exact ⟨h1, k, by omega, hk2, by rw [hk3, hwb]⟩

theorem nextWorkday_spec (st : HolidayState) (s r : Solar) (n : Int) (fuel : Nat) (hv : s.valid = true) (hy : 1 ≤ s.year) (hn : n ≠ 0)
    (h : nextWorkday st s n fuel = some r) :
    isWorkday st r = some true ∧ ∃ k : Nat, 1 ≤ k ∧ s.nextDay ((if n < 0 then -1 else 1) * (k : Int)) = some r ∧
      workdaysBetween st s (if n < 0 then -1 else 1) k = n.natAbs := by
  unfold nextWorkday at h
  rw [if_neg hn] at h
  have h0 : s.nextDay ((if n < 0 then -1 else 1) * ((0 : Nat) : Int)) = some s := by
    rw [Int.natCast_zero, Int.mul_zero]; exact nextDay_zero' s hv
  rcases workLoop_spec st s hv _ fuel _ s r 0 h0 h with ⟨h1, _⟩ | ⟨h1, k, hk1, hk2, hk3⟩
  · omega
  · exact ⟨h1, k, by omega, hk2, by rw [hk3]; simp [workdaysBetween]⟩

theorem nextWorkday_zero (st : HolidayState) (s : Solar) (fuel : Nat) : nextWorkday st s 0 fuel = some s := by
  simp [nextWorkday]

#print axioms findForward_spec
#print axioms findBackward_spec
#print axioms backward_view_eq_filter
#print axioms forwardRun_spec
#print axioms forward_view_eq_filter
#print axioms backward_contiguity_necessary
#print axioms nextWorkday_spec
#print axioms nextWorkday_zero
end Model
