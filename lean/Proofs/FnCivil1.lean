/-
Proofs.FnCivil1 — equivalence of the machine-generated `Gen.Fn` civil-date functions with the
hand-written model `Model.Civil`.  Helper lemmas are prefixed `c1_`.
-/
import Model.Civil
import Gen.Fn

namespace FnEq

/-! ## Conversions between the generated and the model structure -/

def toM (s : Gen.Fn.Solar) : Model.Solar := ⟨s.year, s.month, s.day, s.hour, s.minute, s.second⟩
def ofM (s : Model.Solar) : Gen.Fn.Solar := ⟨s.year, s.month, s.day, s.hour, s.minute, s.second⟩

@[simp] theorem toM_ofM (s : Model.Solar) : toM (ofM s) = s := rfl
@[simp] theorem ofM_toM (s : Gen.Fn.Solar) : ofM (toM s) = s := rfl
@[simp] theorem toM_year (s : Gen.Fn.Solar) : (toM s).year = s.year := rfl
@[simp] theorem toM_month (s : Gen.Fn.Solar) : (toM s).month = s.month := rfl
@[simp] theorem toM_day (s : Gen.Fn.Solar) : (toM s).day = s.day := rfl
@[simp] theorem toM_hour (s : Gen.Fn.Solar) : (toM s).hour = s.hour := rfl
@[simp] theorem toM_minute (s : Gen.Fn.Solar) : (toM s).minute = s.minute := rfl
@[simp] theorem toM_second (s : Gen.Fn.Solar) : (toM s).second = s.second := rfl
@[simp] theorem ofM_year (s : Model.Solar) : (ofM s).year = s.year := rfl
@[simp] theorem ofM_month (s : Model.Solar) : (ofM s).month = s.month := rfl
@[simp] theorem ofM_day (s : Model.Solar) : (ofM s).day = s.day := rfl
@[simp] theorem ofM_hour (s : Model.Solar) : (ofM s).hour = s.hour := rfl
@[simp] theorem ofM_minute (s : Model.Solar) : (ofM s).minute = s.minute := rfl
@[simp] theorem ofM_second (s : Model.Solar) : (ofM s).second = s.second := rfl
@[simp] theorem ofM_mk (y m d h mi s : Int) : ofM ⟨y, m, d, h, mi, s⟩ = ⟨y, m, d, h, mi, s⟩ := rfl
@[simp] theorem toM_mk (y m d h mi s : Int) : toM ⟨y, m, d, h, mi, s⟩ = ⟨y, m, d, h, mi, s⟩ := rfl
theorem toM_inj {a b : Gen.Fn.Solar} (h : toM a = toM b) : a = b := by
  have := congrArg ofM h; simpa using this
theorem ofM_inj {a b : Model.Solar} (h : ofM a = ofM b) : a = b := by
  have := congrArg toM h; simpa using this

/-! ## `Except Err` simp lemmas (all `rfl`) -/

@[simp] theorem c1_throw_bind {α β : Type} (e : Gen.Fn.Err) (f : α → Except Gen.Fn.Err β) :
    ((throw e : Except Gen.Fn.Err α) >>= f) = .error e := rfl
@[simp] theorem c1_error_bind {α β : Type} (e : Gen.Fn.Err) (f : α → Except Gen.Fn.Err β) :
    ((Except.error e : Except Gen.Fn.Err α) >>= f) = .error e := rfl
@[simp] theorem c1_ok_bind {α β : Type} (a : α) (f : α → Except Gen.Fn.Err β) :
    ((Except.ok a : Except Gen.Fn.Err α) >>= f) = f a := rfl
@[simp] theorem c1_pure {α : Type} (a : α) : (pure a : Except Gen.Fn.Err α) = .ok a := rfl
@[simp] theorem c1_throw {α : Type} (e : Gen.Fn.Err) : (throw e : Except Gen.Fn.Err α) = .error e := rfl

/-! ## 1. IsLeapYear -/

/-- Go's truncated remainder is zero exactly when the Euclidean one is. -/
theorem c1_tmod_eq_zero_iff (y k : Int) : Int.tmod y k = 0 ↔ y % k = 0 := by
  constructor
  · intro h; exact Int.emod_eq_zero_of_dvd (Int.dvd_of_tmod_eq_zero h)
  · intro h; exact Int.tmod_eq_zero_of_dvd (Int.dvd_of_emod_eq_zero h)

theorem c1_beq (a b : Int) : (a == b) = decide (a = b) := by
  cases h : decide (a = b) <;> simp_all
theorem c1_bne (a b : Int) : (a != b) = !decide (a = b) := by
  simp [bne, c1_beq]

theorem isLeapYear_eq (y : Int) : Gen.Fn.SolarUtil_IsLeapYear y = .ok (Model.isLeapYear y) := by
  unfold Gen.Fn.SolarUtil_IsLeapYear Model.isLeapYear
  by_cases h : y < 1600 <;>
    simp [h, c1_tmod_eq_zero_iff, c1_beq, c1_bne, pure, Except.pure]

/-! ## 2. GetDaysOfYear -/

theorem getDaysOfYear_eq (y : Int) : Gen.Fn.SolarUtil_GetDaysOfYear y = .ok (Model.daysOfYear y) := by
  unfold Gen.Fn.SolarUtil_GetDaysOfYear Model.daysOfYear
  rw [isLeapYear_eq]
  by_cases h : y = 1582
  · subst h; simp [pure, Except.pure]
  · have h' : ¬ (1582 = y) := fun e => h e.symm
    cases hl : Model.isLeapYear y <;> simp [h, h', pure, Except.pure, bind, Except.bind]

/-! ## 3. GetDaysOfMonth -/

/-- The table lookup `DAYS_OF_MONTH[m-1]` inside the bounds. -/
theorem c1_idx_dom (m : Int) (h1 : 1 ≤ m) (h12 : m ≤ 12) :
    Gen.Fn.idx Gen.Tables.SolarUtil.«DAYS_OF_MONTH» (m - 1) = .ok (Model.baseDaysOfMonth m) := by
  have : m = 1 ∨ m = 2 ∨ m = 3 ∨ m = 4 ∨ m = 5 ∨ m = 6 ∨ m = 7 ∨ m = 8 ∨ m = 9 ∨ m = 10 ∨
      m = 11 ∨ m = 12 := by omega
  rcases this with h | h | h | h | h | h | h | h | h | h | h | h <;> subst h <;> rfl

/-- The table lookup `DAYS_OF_MONTH[m-1]` outside the bounds: Go's index-out-of-range panic. -/
theorem c1_idx_dom_panic (m : Int) (h : m < 1 ∨ 12 < m) :
    Gen.Fn.idx Gen.Tables.SolarUtil.«DAYS_OF_MONTH» (m - 1) = .error .panic := by
  unfold Gen.Fn.idx
  by_cases h0 : m - 1 < 0
  · simp [h0, throw, throwThe, MonadExceptOf.throw]
  · have h12 : 12 < m := by omega
    have hlen : Gen.Tables.SolarUtil.«DAYS_OF_MONTH».length ≤ (m - 1).toNat := by
      show 12 ≤ (m - 1).toNat
      omega
    rw [if_neg h0, List.getElem?_eq_none hlen]; rfl

theorem getDaysOfMonth_eq (y m : Int) (h1 : 1 ≤ m) (h12 : m ≤ 12) :
    Gen.Fn.SolarUtil_GetDaysOfMonth y m = .ok (Model.daysOfMonth y m) := by
  unfold Model.daysOfMonth
  simp only [Gen.Fn.SolarUtil_GetDaysOfMonth, c1_idx_dom m h1 h12, isLeapYear_eq]
  by_cases hy : y = 1582 ∧ m = 10
  · obtain ⟨rfl, rfl⟩ := hy; simp [pure, Except.pure]
  · have hy' : ¬ (1582 = y ∧ 10 = m) := fun e => hy ⟨e.1.symm, e.2.symm⟩
    by_cases hm : m = 2
    · cases hl : Model.isLeapYear y <;>
        simp [hm, pure, Except.pure, bind, Except.bind]
    · simp [hy, hy', hm, pure, Except.pure, bind, Except.bind]

/-- Outside `1 ≤ m ≤ 12` (and not the special-cased 1582-10) the Go code panics on the table
index, whereas `Model.daysOfMonth` is totalised (returns 0). -/
theorem getDaysOfMonth_panic (y m : Int) (h : m < 1 ∨ 12 < m) :
    Gen.Fn.SolarUtil_GetDaysOfMonth y m = .error .panic := by
  simp only [Gen.Fn.SolarUtil_GetDaysOfMonth, c1_idx_dom_panic m h]
  have hm : ¬ (10 = m) := by omega
  simp [hm, bind, Except.bind]

/-! ## 8. Getters -/

@[simp] theorem getYear_eq (s : Gen.Fn.Solar) : Gen.Fn.calendar_Solar_GetYear s = .ok s.year := rfl
@[simp] theorem getMonth_eq (s : Gen.Fn.Solar) : Gen.Fn.calendar_Solar_GetMonth s = .ok s.month := rfl
@[simp] theorem getDay_eq (s : Gen.Fn.Solar) : Gen.Fn.calendar_Solar_GetDay s = .ok s.day := rfl
@[simp] theorem getHour_eq (s : Gen.Fn.Solar) : Gen.Fn.calendar_Solar_GetHour s = .ok s.hour := rfl
@[simp] theorem getMinute_eq (s : Gen.Fn.Solar) : Gen.Fn.calendar_Solar_GetMinute s = .ok s.minute := rfl
@[simp] theorem getSecond_eq (s : Gen.Fn.Solar) : Gen.Fn.calendar_Solar_GetSecond s = .ok s.second := rfl

/-! ## 7. NewSolar, NewSolarFromYmd -/

theorem newSolar_eq (y m d h mi s : Int) :
    Gen.Fn.calendar_NewSolar y m d h mi s = (match Model.newSolar y m d h mi s with
      | some r => .ok (ofM r) | none => .error .panic) := by
  unfold Model.newSolar
  by_cases hm : 1 ≤ m ∧ m ≤ 12
  · simp only [Gen.Fn.calendar_NewSolar, getDaysOfMonth_eq y m hm.1 hm.2]
    by_cases hv : (Model.validYmd y m d && Model.validHms h mi s) = true
    · rw [if_pos hv]
      by_cases c3 : y = 1582 ∧ m = 10
      · obtain ⟨rfl, rfl⟩ := c3
        simp [Model.validYmd, Model.validHms] at hv
        simp
        repeat' split
        all_goals first | rfl | (exfalso; omega)
      · have c3' : ¬ (1582 = y ∧ 10 = m) := fun e => c3 ⟨e.1.symm, e.2.symm⟩
        simp [Model.validYmd, Model.validHms, c3] at hv
        simp [c3']
        repeat' split
        all_goals first | rfl | (exfalso; omega)
    · rw [if_neg hv]
      by_cases c3 : y = 1582 ∧ m = 10
      · obtain ⟨rfl, rfl⟩ := c3
        have hv' : ¬ (1 ≤ d ∧ d ≤ 31 ∧ (d ≤ 4 ∨ 15 ≤ d) ∧ 0 ≤ h ∧ h ≤ 23 ∧ 0 ≤ mi ∧ mi ≤ 59 ∧
            0 ≤ s ∧ s ≤ 59) := fun hc => hv (by simp [Model.validYmd, Model.validHms, hc])
        simp
        repeat' split
        all_goals first | rfl | (exfalso; omega) | (intros; omega)
      · have c3' : ¬ (1582 = y ∧ 10 = m) := fun e => c3 ⟨e.1.symm, e.2.symm⟩
        have hv' : ¬ (1 ≤ d ∧ d ≤ 31 ∧ d ≤ Model.daysOfMonth y m ∧ 0 ≤ h ∧ h ≤ 23 ∧ 0 ≤ mi ∧
            mi ≤ 59 ∧ 0 ≤ s ∧ s ≤ 59) :=
          fun hc => hv (by simp [Model.validYmd, Model.validHms, hc, hm, c3])
        simp [c3']
        repeat' split
        all_goals first | rfl | (exfalso; omega) | (intros; omega)
  · have c1 : m < 1 ∨ 12 < m := by omega
    simp [Gen.Fn.calendar_NewSolar, c1, hm, Model.validYmd]

theorem newSolarFromYmd_eq (y m d : Int) :
    Gen.Fn.calendar_NewSolarFromYmd y m d = (match Model.newSolarYmd y m d with
      | some r => .ok (ofM r) | none => .error .panic) := by
  unfold Gen.Fn.calendar_NewSolarFromYmd Model.newSolarYmd
  rw [newSolar_eq]

/-- A successful `NewSolar` returns exactly the six arguments, and they are valid. -/
theorem newSolar_ok_iff (y m d h mi s : Int) (r : Gen.Fn.Solar) :
    Gen.Fn.calendar_NewSolar y m d h mi s = .ok r ↔
      (r = ⟨y, m, d, h, mi, s⟩ ∧ (toM r).valid = true) := by
  rw [newSolar_eq]
  unfold Model.newSolar Model.Solar.valid
  by_cases hv : (Model.validYmd y m d && Model.validHms h mi s) = true
  · rw [if_pos hv]
    constructor
    · intro e
      have e' : r = ⟨y, m, d, h, mi, s⟩ := by injection e with e; exact e.symm
      subst e'; exact ⟨rfl, hv⟩
    · rintro ⟨rfl, _⟩; rfl
  · rw [if_neg hv]
    constructor
    · intro e; cases e
    · rintro ⟨rfl, hv'⟩; exact absurd hv' hv

/-! ## Counting loops `for i := lo; i < hi; i++ { acc += f(i) }` -/

/-- The shape of every translated `for i := lo; i < hi; i++ { acc += f(i) }` loop. -/
def c1_sumLoop (f : Int → Except Gen.Fn.Err Int) : Nat → Int → Int → Except Gen.Fn.Err Int
  | 0, _, acc => .ok acc
  | n + 1, lo, acc => f lo >>= fun t => c1_sumLoop f n (lo + 1) (acc + t)

/-- Pure counterpart: `g lo + g (lo+1) + … ` (`n` terms). -/
def c1_sum (g : Int → Int) : Nat → Int → Int
  | 0, _ => 0
  | n + 1, lo => g lo + c1_sum g n (lo + 1)

theorem c1_forIn_range' (f : Int → Except Gen.Fn.Err Int) (lo : Int) (n s : Nat) (acc : Int) :
    forIn (List.range' s n 1) acc (fun (k : Nat) r => do
        let t ← f (lo + 1 * (k : Int))
        pure (ForInStep.yield (r + t))) = c1_sumLoop f n (lo + s) acc := by
  induction n generalizing s acc with
  | zero => rfl
  | succ n ih =>
    rw [List.range'_succ, List.forIn_cons]
    simp only [c1_sumLoop, Int.one_mul, c1_pure] at ih ⊢
    cases hf : f (lo + (s : Int)) with
    | error e => rfl
    | ok t =>
      simp only [c1_ok_bind]
      rw [ih]
      congr 1
      omega

theorem c1_forIn_sum (f : Int → Except Gen.Fn.Err Int) (lo : Int) (n : Nat) (acc : Int) :
    forIn [:n] acc (fun (k : Nat) r => do
        let t ← f (lo + 1 * (k : Int))
        pure (ForInStep.yield (r + t))) = c1_sumLoop f n lo acc := by
  rw [Std.Legacy.Range.forIn_eq_forIn_range']
  have := c1_forIn_range' f lo n 0 acc
  simpa [Std.Legacy.Range.size] using this

theorem c1_sumLoop_ok (f : Int → Except Gen.Fn.Err Int) (g : Int → Int) (n : Nat) (lo acc : Int)
    (h : ∀ i, lo ≤ i → i < lo + n → f i = .ok (g i)) :
    c1_sumLoop f n lo acc = .ok (acc + c1_sum g n lo) := by
  induction n generalizing lo acc with
  | zero => simp [c1_sumLoop, c1_sum]
  | succ n ih =>
    simp only [c1_sumLoop, c1_sum]
    rw [h lo (by omega) (by omega), c1_ok_bind, ih]
    · congr 1; omega
    · intro i h1 h2; exact h i (by omega) (by omega)

theorem c1_sumLoop_error (f : Int → Except Gen.Fn.Err Int) (e : Gen.Fn.Err) (n : Nat) (lo acc j : Int)
    (hok : ∀ i, lo ≤ i → i < j → ∃ v, f i = .ok v) (hj : f j = .error e)
    (h1 : lo ≤ j) (h2 : j < lo + n) :
    c1_sumLoop f n lo acc = .error e := by
  induction n generalizing lo acc with
  | zero => omega
  | succ n ih =>
    simp only [c1_sumLoop]
    by_cases hlo : lo = j
    · subst hlo; rw [hj]; rfl
    · obtain ⟨v, hv⟩ := hok lo (by omega) (by omega)
      rw [hv, c1_ok_bind]
      exact ih (lo + 1) (acc + v) (fun i a b => hok i (by omega) b) (by omega) (by omega)

theorem c1_daysInYearLoop (y : Int) (k : Nat) (i : Int) :
    Model.daysInYearLoop k y i = c1_sum (Model.daysOfMonth y) k i := by
  induction k generalizing i with
  | zero => rfl
  | succ k ih => simp [Model.daysInYearLoop, c1_sum, ih]

theorem c1_yearsLoop (k : Nat) (a : Int) :
    Model.yearsLoop k a = c1_sum Model.daysOfYear k a := by
  induction k generalizing a with
  | zero => rfl
  | succ k ih => simp [Model.yearsLoop, c1_sum, ih]

/-! ## 4. GetDaysInYear -/

theorem getDaysInYear_eq (y m d : Int) (hm : m ≤ 13) :
    Gen.Fn.SolarUtil_GetDaysInYear y m d = (match Model.daysInYear y m d with
      | some r => .ok r | none => .error .panic) := by
  simp only [Gen.Fn.SolarUtil_GetDaysInYear, c1_forIn_sum (Gen.Fn.SolarUtil_GetDaysOfMonth y)]
  rw [c1_sumLoop_ok _ (Model.daysOfMonth y)]
  · unfold Model.daysInYear
    simp only [c1_daysInYearLoop, Int.add_zero, Int.ediv_one, Int.zero_add, c1_ok_bind]
    by_cases c : y = 1582 ∧ m = 10
    · obtain ⟨rfl, rfl⟩ := c
      by_cases c1 : d ≥ 15
      · simp [c1]; omega
      · by_cases c2 : d > 4
        · simp [c1, c2]
        · simp [c1, c2]
    · have c' : ¬ (1582 = y ∧ 10 = m) := fun e => c ⟨e.1.symm, e.2.symm⟩
      simp [c, c']
  · intro i h1 h2
    exact getDaysOfMonth_eq y i h1 (by omega)

/-- For `m ≥ 14` the Go loop reaches `GetDaysOfMonth(year, 13)` and panics on the table index
(`Model.daysInYear` is totalised there; every caller passes a month of a valid date). -/
theorem getDaysInYear_panic (y m d : Int) (hm : 13 < m) :
    Gen.Fn.SolarUtil_GetDaysInYear y m d = .error .panic := by
  simp only [Gen.Fn.SolarUtil_GetDaysInYear, c1_forIn_sum (Gen.Fn.SolarUtil_GetDaysOfMonth y)]
  rw [c1_sumLoop_error _ .panic _ _ _ 13]
  · rfl
  · intro i h1 h2; exact ⟨_, getDaysOfMonth_eq y i h1 (by omega)⟩
  · exact getDaysOfMonth_panic y 13 (by omega)
  · omega
  · simp only [Int.add_zero, Int.ediv_one]; omega

/-- `GetDaysInYear` for all inputs at once. -/
theorem getDaysInYear_eq' (y m d : Int) :
    Gen.Fn.SolarUtil_GetDaysInYear y m d =
      (if 13 < m then .error .panic else match Model.daysInYear y m d with
        | some r => .ok r | none => .error .panic) := by
  by_cases hm : 13 < m
  · rw [if_pos hm, getDaysInYear_panic y m d hm]
  · rw [if_neg hm, getDaysInYear_eq y m d (by omega)]

/-! ## 5. IsBefore -/

/-- Strict lexicographic order on 6-tuples, written out. -/
def c1_lex6 (a1 a2 a3 a4 a5 a6 b1 b2 b3 b4 b5 b6 : Int) : Prop :=
  a1 < b1 ∨ (a1 = b1 ∧ (a2 < b2 ∨ (a2 = b2 ∧ (a3 < b3 ∨ (a3 = b3 ∧ (a4 < b4 ∨ (a4 = b4 ∧
    (a5 < b5 ∨ (a5 = b5 ∧ a6 < b6)))))))))

instance (a1 a2 a3 a4 a5 a6 b1 b2 b3 b4 b5 b6 : Int) :
    Decidable (c1_lex6 a1 a2 a3 a4 a5 a6 b1 b2 b3 b4 b5 b6) := by
  unfold c1_lex6; infer_instance

theorem c1_lexLt_cons (a b : Int) (r : List (Int × Int)) :
    Model.lexLt ((a, b) :: r) = true ↔ (a < b ∨ (a = b ∧ Model.lexLt r = true)) := by
  simp only [Model.lexLt]
  by_cases h1 : a > b
  · simp [h1]; omega
  · by_cases h2 : a < b
    · simp [h1, h2]
    · have : a = b := by omega
      simp [this]

theorem c1_lexLt6 (a1 a2 a3 a4 a5 a6 b1 b2 b3 b4 b5 b6 : Int) :
    Model.lexLt [(a1, b1), (a2, b2), (a3, b3), (a4, b4), (a5, b5), (a6, b6)] = true ↔
      c1_lex6 a1 a2 a3 a4 a5 a6 b1 b2 b3 b4 b5 b6 := by
  simp only [c1_lexLt_cons, c1_lex6]
  simp [Model.lexLt]

theorem isBefore_eq_lexLt (ay am ad ah ai as_ by_ bm bd bh bi bs : Int) :
    Gen.Fn.SolarUtil_IsBefore ay am ad ah ai as_ by_ bm bd bh bi bs =
      .ok (Model.lexLt [(ay, by_), (am, bm), (ad, bd), (ah, bh), (ai, bi), (as_, bs)]) := by
  simp [Gen.Fn.SolarUtil_IsBefore, Model.lexLt]
  repeat' split
  all_goals simp [*]
  all_goals omega

/-- `SolarUtil.IsBefore` decides the strict lexicographic order on the 6-tuples. -/
theorem isBefore_eq (ay am ad ah ai as_ by_ bm bd bh bi bs : Int) :
    Gen.Fn.SolarUtil_IsBefore ay am ad ah ai as_ by_ bm bd bh bi bs =
      .ok (decide (c1_lex6 ay am ad ah ai as_ by_ bm bd bh bi bs)) := by
  rw [isBefore_eq_lexLt]
  congr 1
  rw [Bool.eq_iff_iff, c1_lexLt6]
  simp

/-- … which is `Model.Solar.isBefore` on the packed structures. -/
theorem isBefore_eq_model (a b : Model.Solar) :
    Gen.Fn.SolarUtil_IsBefore a.year a.month a.day a.hour a.minute a.second
      b.year b.month b.day b.hour b.minute b.second = .ok (a.isBefore b) :=
  isBefore_eq_lexLt ..

theorem c1_isBefore_iff (a b : Model.Solar) :
    a.isBefore b = true ↔ c1_lex6 a.year a.month a.day a.hour a.minute a.second
      b.year b.month b.day b.hour b.minute b.second := c1_lexLt6 ..

theorem c1_isAfter_iff (a b : Model.Solar) :
    a.isAfter b = true ↔ c1_lex6 b.year b.month b.day b.hour b.minute b.second
      a.year a.month a.day a.hour a.minute a.second := c1_lexLt6 ..

/-! ## 10. Solar.IsBefore, Solar.IsAfter -/

theorem solarIsBefore_eq (s o : Gen.Fn.Solar) :
    Gen.Fn.calendar_Solar_IsBefore s o = .ok ((toM s).isBefore (toM o)) := by
  simp only [Gen.Fn.calendar_Solar_IsBefore, getYear_eq, getMonth_eq, getDay_eq, getHour_eq,
    getMinute_eq, getSecond_eq, c1_ok_bind, isBefore_eq_lexLt]
  rfl

theorem solarIsAfter_eq (s o : Gen.Fn.Solar) :
    Gen.Fn.calendar_Solar_IsAfter s o = .ok ((toM s).isAfter (toM o)) := by
  simp [Gen.Fn.calendar_Solar_IsAfter, Model.Solar.isAfter, Model.lexLt]
  repeat' split
  all_goals simp [*]
  all_goals first | omega | (by_cases hh : o.second < s.second <;> simp [hh] <;> omega)

/-! ## 6. GetDaysBetween -/

theorem c1_sumLoop_daysOfYear (n : Nat) (lo acc : Int) :
    c1_sumLoop Gen.Fn.SolarUtil_GetDaysOfYear n lo acc = .ok (acc + Model.yearsLoop n lo) := by
  rw [c1_yearsLoop]
  exact c1_sumLoop_ok _ _ n lo acc (fun i _ _ => getDaysOfYear_eq i)

theorem getDaysBetween_eq (ay am ad by_ bm bd : Int) (ha : am ≤ 13) (hb : bm ≤ 13) :
    Gen.Fn.SolarUtil_GetDaysBetween ay am ad by_ bm bd =
      (match Model.daysBetween ay am ad by_ bm bd with
        | some r => .ok r | none => .error .panic) := by
  simp only [Gen.Fn.SolarUtil_GetDaysBetween, c1_forIn_sum Gen.Fn.SolarUtil_GetDaysOfYear]
  simp only [getDaysOfYear_eq, c1_sumLoop_daysOfYear,
    getDaysInYear_eq _ _ _ ha, getDaysInYear_eq _ _ _ hb, Model.daysBetween]
  have e1 : ((ay - (by_ + 1) + 0) / 1).toNat = (ay - by_ - 1).toNat := by
    simp only [Int.add_zero, Int.ediv_one]; omega
  have e2 : ((by_ - (ay + 1) + 0) / 1).toNat = (by_ - ay - 1).toNat := by
    simp only [Int.add_zero, Int.ediv_one]; omega
  rw [e1, e2]
  cases Model.daysInYear ay am ad <;> cases Model.daysInYear by_ bm bd <;>
    by_cases h1 : ay = by_ <;> by_cases h2 : ay > by_ <;> simp [h1, h2]

/-- `GetDaysInYear` never runs out of fuel / only ever fails by panic. -/
theorem c1_getDaysInYear_cases (y m d : Int) :
    (∃ r, Gen.Fn.SolarUtil_GetDaysInYear y m d = .ok r) ∨
      Gen.Fn.SolarUtil_GetDaysInYear y m d = .error .panic := by
  rw [getDaysInYear_eq']
  by_cases h : 13 < m
  · simp [h]
  · cases Model.daysInYear y m d <;> simp [h]

/-- With a month argument `≥ 14` on either side the Go code panics (inside `GetDaysInYear`),
whereas `Model.daysBetween` is totalised. -/
theorem getDaysBetween_panic (ay am ad by_ bm bd : Int) (h : 13 < am ∨ 13 < bm) :
    Gen.Fn.SolarUtil_GetDaysBetween ay am ad by_ bm bd = .error .panic := by
  simp only [Gen.Fn.SolarUtil_GetDaysBetween, c1_forIn_sum Gen.Fn.SolarUtil_GetDaysOfYear]
  simp only [getDaysOfYear_eq, c1_sumLoop_daysOfYear]
  rcases h with h | h
  · rw [getDaysInYear_panic ay am ad h]
    rcases c1_getDaysInYear_cases by_ bm bd with ⟨r, hr⟩ | hr <;> rw [hr] <;>
      by_cases h1 : ay = by_ <;> by_cases h2 : ay > by_ <;> simp [h1, h2]
  · rw [getDaysInYear_panic by_ bm bd h]
    rcases c1_getDaysInYear_cases ay am ad with ⟨r, hr⟩ | hr <;> rw [hr] <;>
      by_cases h1 : ay = by_ <;> by_cases h2 : ay > by_ <;> simp [h1, h2]

/-! ## 9. Solar.Subtract, Solar.SubtractMinute -/

theorem solarSubtract_eq (s o : Gen.Fn.Solar) (hs : s.month ≤ 13) (ho : o.month ≤ 13) :
    Gen.Fn.calendar_Solar_Subtract s o = (match (toM s).subtract (toM o) with
      | some r => .ok r | none => .error .panic) := by
  simp only [Gen.Fn.calendar_Solar_Subtract, getYear_eq, getMonth_eq, getDay_eq, c1_ok_bind,
    getDaysBetween_eq _ _ _ _ _ _ ho hs, Model.Solar.subtract, toM_year, toM_month, toM_day]

theorem solarSubtractMinute_eq (s o : Gen.Fn.Solar) (hs : s.month ≤ 13) (ho : o.month ≤ 13) :
    Gen.Fn.calendar_Solar_SubtractMinute s o = (match (toM s).subtractMinute (toM o) with
      | some r => .ok r | none => .error .panic) := by
  simp only [Gen.Fn.calendar_Solar_SubtractMinute, solarSubtract_eq s o hs ho, getHour_eq,
    getMinute_eq, Model.Solar.subtractMinute]
  cases (toM s).subtract (toM o) with
  | none => rfl
  | some days =>
    simp only [c1_ok_bind, toM_hour, toM_minute]
    by_cases h : s.hour * 60 + s.minute - (o.hour * 60 + o.minute) < 0 <;> simp [h]

theorem solarSubtract_panic (s o : Gen.Fn.Solar) (h : 13 < s.month ∨ 13 < o.month) :
    Gen.Fn.calendar_Solar_Subtract s o = .error .panic := by
  simp only [Gen.Fn.calendar_Solar_Subtract, getYear_eq, getMonth_eq, getDay_eq, c1_ok_bind,
    getDaysBetween_panic _ _ _ _ _ _ (Or.symm h)]

theorem solarSubtractMinute_panic (s o : Gen.Fn.Solar) (h : 13 < s.month ∨ 13 < o.month) :
    Gen.Fn.calendar_Solar_SubtractMinute s o = .error .panic := by
  simp only [Gen.Fn.calendar_Solar_SubtractMinute, solarSubtract_panic s o h]
  rfl

/-- A valid date (anything `NewSolar` returns) has `month ≤ 12`. -/
theorem c1_valid_month (s : Gen.Fn.Solar) (h : (toM s).valid = true) :
    1 ≤ s.month ∧ s.month ≤ 12 := by
  simp only [Model.Solar.valid, Model.validYmd, Bool.and_eq_true, decide_eq_true_eq,
    toM_month] at h
  exact ⟨of_decide_eq_true h.1.1.1.1.1, of_decide_eq_true h.1.1.1.1.2⟩

theorem solarSubtract_eq_of_valid (s o : Gen.Fn.Solar) (hs : (toM s).valid = true)
    (ho : (toM o).valid = true) :
    Gen.Fn.calendar_Solar_Subtract s o = (match (toM s).subtract (toM o) with
      | some r => .ok r | none => .error .panic) :=
  solarSubtract_eq s o (by have := c1_valid_month s hs; omega)
    (by have := c1_valid_month o ho; omega)

theorem solarSubtractMinute_eq_of_valid (s o : Gen.Fn.Solar) (hs : (toM s).valid = true)
    (ho : (toM o).valid = true) :
    Gen.Fn.calendar_Solar_SubtractMinute s o = (match (toM s).subtractMinute (toM o) with
      | some r => .ok r | none => .error .panic) :=
  solarSubtractMinute_eq s o (by have := c1_valid_month s hs; omega)
    (by have := c1_valid_month o ho; omega)

section Axioms
#print axioms isLeapYear_eq
#print axioms getDaysOfYear_eq
#print axioms getDaysOfMonth_eq
#print axioms getDaysOfMonth_panic
#print axioms getDaysInYear_eq
#print axioms getDaysInYear_panic
#print axioms getDaysInYear_eq'
#print axioms isBefore_eq_lexLt
#print axioms isBefore_eq
#print axioms isBefore_eq_model
#print axioms getDaysBetween_eq
#print axioms getDaysBetween_panic
#print axioms newSolar_eq
#print axioms newSolarFromYmd_eq
#print axioms newSolar_ok_iff
#print axioms getYear_eq
#print axioms getMonth_eq
#print axioms getDay_eq
#print axioms getHour_eq
#print axioms getMinute_eq
#print axioms getSecond_eq
#print axioms solarSubtract_eq
#print axioms solarSubtract_panic
#print axioms solarSubtract_eq_of_valid
#print axioms solarSubtractMinute_eq
#print axioms solarSubtractMinute_panic
#print axioms solarSubtractMinute_eq_of_valid
#print axioms solarIsBefore_eq
#print axioms solarIsAfter_eq
end Axioms

end FnEq
