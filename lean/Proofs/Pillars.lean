import Model.Lunar
import Model.AstroWF
import Proofs.FmtOrder
import Proofs.CivilArith
set_option linter.unusedVariables false
set_option linter.unusedSimpArgs false
namespace Model
open Gen.Tables

/-! # Pillars: hour, day, year, month (sexagenary stem/branch indices) -/

/-! ## HOUR -/

theorem strGe_fmtHm (h mi a b : Int) (hh : 0 ≤ h ∧ h ≤ 99) (hm : 0 ≤ mi ∧ mi ≤ 99) (ha : 0 ≤ a ∧ a ≤ 99) (hb : 0 ≤ b ∧ b ≤ 99) :
    strGe (fmtHm h mi) (fmtHm a b) = decide (a * 100 + b ≤ h * 100 + mi) := by
  unfold strGe
  rw [cmp_fmtHm h mi a b hh hm ha hb]
  by_cases h1 : h * 100 + mi < a * 100 + b
  · rw [Int.compare_eq_lt.mpr h1]
    have : ¬ (a * 100 + b ≤ h * 100 + mi) := by omega
    simp [this]
  · have h2 : a * 100 + b ≤ h * 100 + mi := by omega
    have : compare (h * 100 + mi) (a * 100 + b) ≠ .lt := by
      intro hc; exact h1 (Int.compare_eq_lt.mp hc)
    simp [h2, this]

theorem strLe_fmtHm (h mi a b : Int) (hh : 0 ≤ h ∧ h ≤ 99) (hm : 0 ≤ mi ∧ mi ≤ 99) (ha : 0 ≤ a ∧ a ≤ 99) (hb : 0 ≤ b ∧ b ≤ 99) :
    strLe (fmtHm h mi) (fmtHm a b) = decide (h * 100 + mi ≤ a * 100 + b) := by
  unfold strLe
  rw [cmp_fmtHm h mi a b hh hm ha hb]
  by_cases h1 : a * 100 + b < h * 100 + mi
  · rw [Int.compare_eq_gt.mpr h1]
    have : ¬ (h * 100 + mi ≤ a * 100 + b) := by omega
    simp [this]
  · have h2 : h * 100 + mi ≤ a * 100 + b := by omega
    have : compare (h * 100 + mi) (a * 100 + b) ≠ .gt := by
      intro hc; exact h1 (Int.compare_eq_gt.mp hc)
    simp [h2, this]

theorem slot_eq (h mi i j : Int) (hh : 0 ≤ h ∧ h ≤ 23) (hm : 0 ≤ mi ∧ mi ≤ 59) (hi : 0 ≤ i ∧ i ≤ 97) (hj : j = i + 1) :
    (strGe (fmtHm h mi) (fmtHm i 0) && strLe (fmtHm h mi) (fmtHm j 59)) = (decide (i ≤ h) && decide (h ≤ i + 1)) := by
  subst hj
  rw [strGe_fmtHm h mi i 0 (by omega) (by omega) (by omega) (by omega),
    strLe_fmtHm h mi (i + 1) 59 (by omega) (by omega) (by omega) (by omega)]
  have e1 : (i * 100 + 0 ≤ h * 100 + mi) ↔ (i ≤ h) := by omega
  have e2 : (h * 100 + mi ≤ (i + 1) * 100 + 59) ↔ (h ≤ i + 1) := by omega
  simp only [e1, e2]

theorem timeZhiScan_gen (h mi : Int) (hh : 0 ≤ h ∧ h ≤ 23) (hm : 0 ≤ mi ∧ mi ≤ 59) :
    ∀ (fuel : Nat) (i x : Int), i = 2 * x - 1 → 1 ≤ x → (fuel : Int) + x ≥ 13 → (h = 0 ∨ i ≤ h) →
      timeZhiScan (fmtHm h mi) fuel i x = if h = 0 ∨ h = 23 then 0 else (h + 1) / 2 := by
  intro fuel
  induction fuel with
  | zero =>
    intro i x hi hx hf hinv
    have : h = 0 := by omega
    simp [timeZhiScan, this]
  | succ fuel ih =>
    intro i x hi hx hf hinv
    unfold timeZhiScan
    by_cases h22 : i ≥ 22
    · have : h = 0 ∨ h = 23 := by omega
      simp only [h22, if_true, this]
    · simp only [h22, if_false]
      rw [slot_eq h mi i (i + 1) hh hm (by omega) rfl]
      by_cases hs : i ≤ h ∧ h ≤ i + 1
      · have hn : ¬ (h = 0 ∨ h = 23) := by omega
        simp only [hs.1, hs.2, decide_true, Bool.and_self, if_true, hn, if_false]
        omega
      · have hc : (decide (i ≤ h) && decide (h ≤ i + 1)) = false := by
          rw [Bool.and_eq_false_iff]; simp only [decide_eq_false_iff_not]; omega
        rw [hc]
        simp only [Bool.false_eq_true, if_false]
        exact ih (i + 2) (x + 1) (by omega) (by omega) (by omega) (by omega)

/-- HOUR: the branch is fixed by the two-hour slot: 23:00–00:59 → 0 (子), 01:00–02:59 → 1, …, 21:00–22:59 → 11 -/
theorem timeZhi_eq (h mi : Int) (hh : 0 ≤ h ∧ h ≤ 23) (hm : 0 ≤ mi ∧ mi ≤ 59) : timeZhiIndexOf h mi = ((h + 1) / 2) % 12 := by
  unfold timeZhiIndexOf
  rw [timeZhiScan_gen h mi hh hm 12 1 1 (by omega) (by omega) (by omega) (by omega)]
  split <;> omega

/-! ## DAY -/

/-- DAY: plain day pillar from the day number -/
theorem computeDay_plain (s : Solar) (h mi : Int) :
    (computeDay s h mi).1 = (s.jdn - 11) % 10 ∧ (computeDay s h mi).2.1 = (s.jdn - 11) % 12 := by
  simp only [computeDay, Solar.jdn, and_self]

/-- 60-cycle index of a (stem, branch) pair with equal parity -/
def cycleIndex (g z : Int) : Int := (6 * g - 5 * z) % 60

theorem cycleIndex_spec (i : Int) : cycleIndex (i % 10) (i % 12) = i % 60 := by
  unfold cycleIndex
  omega

theorem day_cycle_succ (s r : Solar) (h : r.jdn = s.jdn + 1) (hh mi : Int) :
    cycleIndex (computeDay r hh mi).1 (computeDay r hh mi).2.1 = (cycleIndex (computeDay s hh mi).1 (computeDay s hh mi).2.1 + 1) % 60 := by
  rw [(computeDay_plain r hh mi).1, (computeDay_plain r hh mi).2, (computeDay_plain s hh mi).1,
    (computeDay_plain s hh mi).2, cycleIndex_spec, cycleIndex_spec, h]
  omega

theorem late_eq (h mi : Int) (hh : 0 ≤ h ∧ h ≤ 23) (hm : 0 ≤ mi ∧ mi ≤ 59) :
    (strGe (fmtHm h mi) (fmtHm 23 0) && strLe (fmtHm h mi) (fmtHm 23 59)) = decide (h = 23) := by
  rw [strGe_fmtHm h mi 23 0 (by omega) (by omega) (by omega) (by omega),
    strLe_fmtHm h mi 23 59 (by omega) (by omega) (by omega) (by omega)]
  by_cases h23 : h = 23
  · have e1 : decide ((23 : Int) * 100 + 0 ≤ h * 100 + mi) = true := decide_eq_true (by omega)
    have e2 : decide (h * 100 + mi ≤ 23 * 100 + 59) = true := decide_eq_true (by omega)
    have e3 : decide (h = 23) = true := decide_eq_true h23
    rw [e1, e2, e3]; rfl
  · have e1 : decide ((23 : Int) * 100 + 0 ≤ h * 100 + mi) = false := decide_eq_false (by omega)
    have e3 : decide (h = 23) = false := decide_eq_false h23
    rw [e1, e3]; rfl

/-- early-rat convention (Exact): 23:00–23:59 belongs to the next day; late-rat (Exact2): same day -/
theorem computeDay_exact (s : Solar) (h mi : Int) (hh : 0 ≤ h ∧ h ≤ 23) (hm : 0 ≤ mi ∧ mi ≤ 59) :
    let r := computeDay s h mi
    r.2.2.2.2.1 = r.1 ∧ r.2.2.2.2.2 = r.2.1 ∧
    (h = 23 → r.2.2.1 = (r.1 + 1) % 10 ∧ r.2.2.2.1 = (r.2.1 + 1) % 12) ∧
    (h ≠ 23 → r.2.2.1 = r.1 ∧ r.2.2.2.1 = r.2.1) := by
  simp only [computeDay, late_eq h mi hh hm, decide_eq_true_eq]
  refine ⟨trivial, trivial, ?_, ?_⟩
  · intro h23
    simp only [h23, if_true]
    constructor <;> split <;> omega
  · intro h23
    simp only [h23, if_false, and_self]

/-- hour stem from the (early-rat) day stem by the five-rats rule; all in `computeAll` -/
theorem time_pillar (ly lm ld h mi sec : Int) (s : Solar) (ya : YearAstro) (hh : 0 ≤ h ∧ h ≤ 23) (hm : 0 ≤ mi ∧ mi ≤ 59) :
    let l := computeAll ly lm ld h mi sec s ya
    l.timeZhiIndex = ((h + 1) / 2) % 12 ∧ l.timeGanIndex = (l.dayGanIndexExact % 5 * 2 + l.timeZhiIndex) % 10 ∧
    l.weekIndex = s.week := by
  simp only [computeAll, timeZhi_eq h mi hh hm, and_self]

/-! ## term table access -/

theorem termIndex_all : ∀ i : Fin 31, termIndex (calendar.JIE_QI_IN_USE.getD i.val "") = some i.val := by decide

theorem jieQi_length : calendar.JIE_QI_IN_USE.length = 31 := by decide

theorem termByName_idx (ts : List Solar) (i : Nat) (hi : i < 31) :
    termByName ts (calendar.JIE_QI_IN_USE.getD i "") = ts.getD i nilSolar := by
  unfold termByName
  rw [termIndex_all ⟨i, hi⟩]

theorem termByName_lichun (ts : List Solar) : termByName ts "立春" = ts.getD 4 nilSolar :=
  termByName_idx ts 4 (by omega)

theorem stampValid_inWidth_pil (s : Solar) (hs : stampValid s = true) : InWidth s := by
  unfold stampValid at hs
  simp only [Bool.and_eq_true, decide_eq_true_eq] at hs
  obtain ⟨⟨hv, h0⟩, h1⟩ := hs
  have hb := hms_bounds s hv
  have hv2 := (valid_parts s hv).1
  unfold validYmd at hv2
  simp only [Bool.and_eq_true, decide_eq_true_eq] at hv2
  unfold InWidth
  omega

theorem allAdj_get {α : Type} (f : α → α → Bool) (d : α) : ∀ (l : List α), allAdj f l = true →
    ∀ i, i + 1 < l.length → f (l.getD i d) (l.getD (i + 1) d) = true
  | [], _, i, hi => by simp at hi
  | [_], _, i, hi => by simp at hi
  | a :: b :: r, h, i, hi => by
    simp only [allAdj, Bool.and_eq_true] at h
    cases i with
    | zero => simpa using h.1
    | succ i =>
      have := allAdj_get f d (b :: r) h.2 i (by simpa using hi)
      simpa using this

/-- what `termsOk` gives for the scans -/
theorem termsOk_parts (y : Int) (ts : List Solar) (hts : termsOk y ts = true) :
    ts.length = 31 ∧ (∀ i, i < 31 → stampValid (ts.getD i nilSolar) = true) ∧
    (∀ i, i + 1 < 31 → (ts.getD i nilSolar).key < (ts.getD (i + 1) nilSolar).key) ∧
    (ts.getD 4 nilSolar).year = y := by
  unfold termsOk at hts
  simp only [Bool.and_eq_true, decide_eq_true_eq] at hts
  obtain ⟨⟨⟨hl, hall⟩, hadj⟩, hm⟩ := hts
  refine ⟨hl, ?_, ?_, ?_⟩
  · intro i hi
    rw [List.all_eq_true] at hall
    apply hall
    rw [← List.getElem_eq_getD (h := by omega)]
    exact List.getElem_mem _
  · intro i hi
    have := allAdj_get _ nilSolar ts hadj i (by omega)
    simp only [Bool.and_eq_true, decide_eq_true_eq] at this
    exact this.1.1
  · rw [← List.getElem_eq_getD (h := by omega)]
    have h1 : ts[1]? = some ts[1] := List.getElem?_eq_getElem (by omega)
    have h4 : ts[4]? = some ts[4] := List.getElem?_eq_getElem (by omega)
    rw [h1, h4] at hm
    simp only [Bool.and_eq_true, beq_iff_eq] at hm
    exact hm.2

/-! ## string order of the printed stamps as numeric order -/

theorem compare_beq_lt (a b : Int) : (compare a b == Ordering.lt) = decide (a < b) := by
  by_cases h : a < b
  · rw [Int.compare_eq_lt.mpr h, decide_eq_true h]; rfl
  · rw [decide_eq_false h]
    have : compare a b ≠ .lt := fun hc => h (Int.compare_eq_lt.mp hc)
    cases hc : compare a b with
    | lt => exact absurd hc this
    | eq => rfl
    | gt => rfl

theorem compare_bne_lt (a b : Int) : (compare a b != Ordering.lt) = decide (b ≤ a) := by
  unfold bne
  rw [compare_beq_lt]
  by_cases h : a < b
  · rw [decide_eq_true h, decide_eq_false (by omega)]; rfl
  · rw [decide_eq_false h, decide_eq_true (by omega)]; rfl

theorem strLt_toYmd (s o : Solar) (hs : InWidth s) (ho : InWidth o) :
    strLt s.toYmd o.toYmd = decide (key8 s < key8 o) := by
  unfold strLt; rw [cmp_toYmd s o hs ho, compare_beq_lt]

theorem strGe_toYmd (s o : Solar) (hs : InWidth s) (ho : InWidth o) :
    strGe s.toYmd o.toYmd = decide (key8 o ≤ key8 s) := by
  unfold strGe; rw [cmp_toYmd s o hs ho, compare_bne_lt]

theorem strLt_toYmdHms (s o : Solar) (hs : InWidth s) (ho : InWidth o) :
    strLt s.toYmdHms o.toYmdHms = decide (key14 s < key14 o) := by
  unfold strLt; rw [cmp_toYmdHms s o hs ho, compare_beq_lt]

theorem strGe_toYmdHms (s o : Solar) (hs : InWidth s) (ho : InWidth o) :
    strGe s.toYmdHms o.toYmdHms = decide (key14 o ≤ key14 s) := by
  unfold strGe; rw [cmp_toYmdHms s o hs ho, compare_bne_lt]

/-! ## YEAR -/

/-- YEAR pillars (strongest true variant of the given `year_pillars`, which is FALSE as stated — see
`year_pillars_counterexample`). `ly` = lunar year of the date, `s` its civil date-time, Lichun stamp L = ts[4].
New-Year convention: (ly−4) mod 10/12. Lichun-day convention: pillar of civil year s.year from the Lichun DAY on, of
s.year−1 before — EXCEPT when the lunar year leads the civil year (ly = s.year+1), where the code always yields the
pillar of s.year, whatever the position relative to Lichun. Lichun-instant convention: same with the Lichun SECOND. -/
theorem year_pillars_partial (ly : Int) (s : Solar) (ts : List Solar) (hts : termsOk s.year ts = true) (hs : stampValid s = true)
    (hly : ly = s.year - 1 ∨ ly = s.year ∨ ly = s.year + 1) :
    let r := computeYear ly s ts
    let L := ts.getD 4 nilSolar
    let Yd : Int := if ly ≤ s.year ∧ (s.year * 100 + s.month) * 100 + s.day < (L.year * 100 + L.month) * 100 + L.day then s.year - 1 else s.year
    let Yi : Int := if ly ≤ s.year ∧ s.key < L.key then s.year - 1 else s.year
    r.1 = (ly - 4) % 10 ∧ r.2.1 = (ly - 4) % 12 ∧
    r.2.2.1 = (Yd - 4) % 10 ∧ r.2.2.2.1 = (Yd - 4) % 12 ∧
    r.2.2.2.2.1 = (Yi - 4) % 10 ∧ r.2.2.2.2.2 = (Yi - 4) % 12 := by
  obtain ⟨hl, hval, hinc, hy4⟩ := termsOk_parts s.year ts hts
  have hws := stampValid_inWidth_pil s hs
  have hwL := stampValid_inWidth_pil _ (hval 4 (by omega))
  have hne : ¬ ((ts.getD 4 nilSolar).year ≠ s.year) := fun h => h hy4
  have k8s : (s.year * 100 + s.month) * 100 + s.day = key8 s := rfl
  have k8L : ((ts.getD 4 nilSolar).year * 100 + (ts.getD 4 nilSolar).month) * 100 + (ts.getD 4 nilSolar).day
      = key8 (ts.getD 4 nilSolar) := rfl
  have k14 : ∀ t : Solar, t.key = key14 t := fun _ => rfl
  simp only [computeYear, normMod, termByName_lichun, hne, if_false,
    strLt_toYmd s _ hws hwL, strGe_toYmd s _ hws hwL, strLt_toYmdHms s _ hws hwL, strGe_toYmdHms s _ hws hwL,
    k8s, k8L, k14, decide_eq_true_eq]
  generalize key8 s = a8
  generalize key8 (ts.getD 4 nilSolar) = b8
  generalize key14 s = a14
  generalize key14 (ts.getD 4 nilSolar) = b14
  generalize s.year = sy at hly
  clear hne k8s k8L k14
  by_cases c8 : a8 < b8 <;> by_cases c14 : a14 < b14 <;> rcases hly with h | h | h <;> subst ly
  all_goals
    have f1 : ¬ (sy - 1 = sy) := by omega
    have f2 : sy - 1 < sy := by omega
    have f3 : sy - 1 ≤ sy := by omega
    have f4 : ¬ (sy + 1 = sy) := by omega
    have f5 : ¬ (sy + 1 < sy) := by omega
    have f6 : ¬ (sy + 1 ≤ sy) := by omega
    have f7 : ¬ (sy < sy) := by omega
    have f8 : sy ≤ sy := by omega
    have g8 : (b8 ≤ a8) ↔ ¬ (a8 < b8) := by omega
    have g14 : (b14 ≤ a14) ↔ ¬ (a14 < b14) := by omega
    simp only [f1, f2, f3, f4, f5, f6, f7, f8, g8, g14, c8, c14, if_true, if_false, not_true_eq_false,
      not_false_eq_true, and_true, and_false, true_and, false_and, and_self]
    refine ⟨?_, ?_, ?_, ?_⟩ <;> split <;> omega

/-- the statement as given, under the extra hypothesis that a lunar year leading the civil year
(`ly = s.year + 1`) only occurs at or after the Lichun instant (without it the statement is false:
see `year_pillars_counterexample`) -/
theorem year_pillars_of_lead_after (ly : Int) (s : Solar) (ts : List Solar) (hts : termsOk s.year ts = true) (hs : stampValid s = true)
    (hly : ly = s.year - 1 ∨ ly = s.year ∨ ly = s.year + 1)
    (hlead : ly = s.year + 1 → (ts.getD 4 nilSolar).key ≤ s.key) :
    let r := computeYear ly s ts
    let L := ts.getD 4 nilSolar
    let Yd : Int := if (s.year * 100 + s.month) * 100 + s.day < (L.year * 100 + L.month) * 100 + L.day then s.year - 1 else s.year
    let Yi : Int := if s.key < L.key then s.year - 1 else s.year
    r.1 = (ly - 4) % 10 ∧ r.2.1 = (ly - 4) % 12 ∧
    r.2.2.1 = (Yd - 4) % 10 ∧ r.2.2.2.1 = (Yd - 4) % 12 ∧
    r.2.2.2.2.1 = (Yi - 4) % 10 ∧ r.2.2.2.2.2 = (Yi - 4) % 12 := by
  have hp := year_pillars_partial ly s ts hts hs hly
  obtain ⟨hl, hval, hinc, hy4⟩ := termsOk_parts s.year ts hts
  have hws := stampValid_inWidth_pil s hs
  have hwL := stampValid_inWidth_pil _ (hval 4 (by omega))
  simp only at hp ⊢
  by_cases hle : ly ≤ s.year
  · simp only [hle, true_and] at hp
    exact hp
  · have h1 : ly = s.year + 1 := by omega
    have hk := hlead h1
    have c14 : ¬ (s.key < (ts.getD 4 nilSolar).key) := by omega
    have c8 : ¬ ((s.year * 100 + s.month) * 100 + s.day <
        ((ts.getD 4 nilSolar).year * 100 + (ts.getD 4 nilSolar).month) * 100 + (ts.getD 4 nilSolar).day) := by
      unfold Solar.key at hk
      unfold InWidth at hws hwL
      omega
    simp only [hle, false_and, if_false] at hp
    simp only [c8, c14, if_false]
    exact hp

/-! ## MONTH -/

/-- MONTH pillar: the scan index is (number of Jie entries — the even entries 0,2,…,30 of the table — at or before now) − 3 -/
def jieCount (key : Solar → Int) (now : Int) (ts : List Solar) : Int :=
  (((List.range 16).filter (fun j => decide (key (ts.getD (2 * j) nilSolar) ≤ now))).length : Int)

theorem strGe_self (l : List Char) : strGe l l = true := by
  unfold strGe; rw [cmpChars_self]; rfl

theorem mono_of_step (f : Nat → Int) (n : Nat) (h : ∀ j, j + 1 < n → f j ≤ f (j + 1)) :
    ∀ j k, j ≤ k → k < n → f j ≤ f k := by
  intro j k hjk hk
  induction k with
  | zero => have : j = 0 := by omega
            subst this; exact Int.le_refl _
  | succ k ih =>
    by_cases hj : j = k + 1
    · subst hj; exact Int.le_refl _
    · exact Int.le_trans (ih (by omega) (by omega)) (h k hk)

/-- the scan with numeric keys: with a non-decreasing table it counts the entries at or before `now` -/
theorem monthScan_gen (key : Solar → List Char) (K : Solar → Int) (now : List Char) (nowK : Int) (ts : List Solar)
    (hlt : ∀ j, j < 16 → strLt now (key (ts.getD (2 * j) nilSolar)) = decide (nowK < K (ts.getD (2 * j) nilSolar)))
    (hge : ∀ j, j < 16 → strGe now (key (ts.getD (2 * j) nilSolar)) = decide (K (ts.getD (2 * j) nilSolar) ≤ nowK))
    (hmono : ∀ j, j + 1 < 16 → K (ts.getD (2 * j) nilSolar) ≤ K (ts.getD (2 * (j + 1)) nilSolar)) :
    ∀ (fuel j : Nat) (start : Option Solar) (idx : Int), fuel + j = 16 →
      (start = none ∨ ∃ t, start = some t ∧ strGe now (key t) = true) →
      monthScan key now ts fuel (2 * j) start idx =
        idx + (((List.range' j fuel).filter (fun j => decide (K (ts.getD (2 * j) nilSolar) ≤ nowK))).length : Int) := by
  intro fuel
  induction fuel with
  | zero => intro j start idx _ _; simp [monthScan]
  | succ fuel ih =>
    intro j start idx hf hst
    have hj : j < 16 := by omega
    unfold monthScan
    have hguard : ¬ (2 * j ≥ calendar.JIE_QI_IN_USE.length) := by rw [jieQi_length]; omega
    simp only [hguard, if_false]
    rw [termByName_idx ts (2 * j) (by omega)]
    have hb : ∀ b : Bool, b = true → (if (b && strLt now (key (ts.getD (2 * j) nilSolar))) = true then idx
        else monthScan key now ts fuel (2 * j + 2) (some (ts.getD (2 * j) nilSolar)) (idx + 1)) =
        idx + (((List.range' j (fuel + 1)).filter (fun j => decide (K (ts.getD (2 * j) nilSolar) ≤ nowK))).length : Int) := by
      intro b hbt
      rw [hbt, Bool.true_and, hlt j hj]
      by_cases hc : nowK < K (ts.getD (2 * j) nilSolar)
      · simp only [hc, decide_true, if_true]
        have hnil : (List.range' j (fuel + 1)).filter (fun j => decide (K (ts.getD (2 * j) nilSolar) ≤ nowK)) = [] := by
          rw [List.filter_eq_nil_iff]
          intro k hk
          rw [List.mem_range'_1] at hk
          have := mono_of_step (fun j => K (ts.getD (2 * j) nilSolar)) 16 hmono j k hk.1 (by omega)
          simp only [decide_eq_true_eq]
          omega
        rw [hnil]; simp
      · simp only [hc, decide_false, Bool.false_eq_true, if_false]
        have hle : K (ts.getD (2 * j) nilSolar) ≤ nowK := by omega
        have e2 : 2 * j + 2 = 2 * (j + 1) := by omega
        rw [e2, ih (j + 1) (some (ts.getD (2 * j) nilSolar)) (idx + 1) (by omega)
          (Or.inr ⟨_, rfl, by rw [hge j hj]; exact decide_eq_true hle⟩)]
        rw [List.range'_succ, List.filter_cons]
        simp only [hle, decide_true, if_true, List.length_cons]
        omega
    rcases hst with h | ⟨t, h, ht⟩
    · subst h; exact hb _ (strGe_self now)
    · subst h; exact hb _ ht

theorem key14_split (t : Solar) : key14 t = key8 t * 1000000 + (t.hour * 10000 + t.minute * 100 + t.second) := by
  unfold key14 key8; omega

theorem key8_mono (a b : Solar) (ha : InWidth a) (hb : InWidth b) (h : key14 a < key14 b) : key8 a ≤ key8 b := by
  rw [key14_split, key14_split] at h
  unfold InWidth at ha hb
  omega

/-- day scan: index = (number of Jie whose DAY is at or before the day of `s`) − 3 -/
theorem monthScan_day (y : Int) (s : Solar) (ts : List Solar) (hts : termsOk y ts = true) (hs : stampValid s = true) :
    monthScan Solar.toYmd s.toYmd ts 16 0 none (-3) = jieCount (fun t => (t.year * 100 + t.month) * 100 + t.day) ((s.year * 100 + s.month) * 100 + s.day) ts - 3 := by
  obtain ⟨hl, hval, hinc, hy4⟩ := termsOk_parts y ts hts
  have hws := stampValid_inWidth_pil s hs
  have hw : ∀ i, i < 31 → InWidth (ts.getD i nilSolar) := fun i hi => stampValid_inWidth_pil _ (hval i hi)
  have h := monthScan_gen Solar.toYmd key8 s.toYmd (key8 s) ts
    (fun j hj => strLt_toYmd s _ hws (hw _ (by omega)))
    (fun j hj => strGe_toYmd s _ hws (hw _ (by omega)))
    (fun j hj => by
      have h1 := hinc (2 * j) (by omega)
      have h2 := hinc (2 * j + 1) (by omega)
      have e : 2 * (j + 1) = 2 * j + 1 + 1 := by omega
      rw [e]
      exact Int.le_trans (key8_mono _ _ (hw _ (by omega)) (hw _ (by omega)) h1)
        (key8_mono _ _ (hw _ (by omega)) (hw _ (by omega)) h2))
    16 0 none (-3) (by omega) (Or.inl rfl)
  rw [show (0 : Nat) = 2 * 0 from rfl, h]
  have e : ∀ a : Int, -3 + a = a - 3 := by intro a; omega
  rw [e, jieCount, List.range_eq_range']
  rfl

/-- instant scan: index = (number of Jie whose INSTANT is at or before `s`) − 3 -/
theorem monthScan_instant (y : Int) (s : Solar) (ts : List Solar) (hts : termsOk y ts = true) (hs : stampValid s = true) :
    monthScan Solar.toYmdHms s.toYmdHms ts 16 0 none (-3) = jieCount Solar.key s.key ts - 3 := by
  obtain ⟨hl, hval, hinc, hy4⟩ := termsOk_parts y ts hts
  have hws := stampValid_inWidth_pil s hs
  have hw : ∀ i, i < 31 → InWidth (ts.getD i nilSolar) := fun i hi => stampValid_inWidth_pil _ (hval i hi)
  have h := monthScan_gen Solar.toYmdHms Solar.key s.toYmdHms s.key ts
    (fun j hj => strLt_toYmdHms s _ hws (hw _ (by omega)))
    (fun j hj => strGe_toYmdHms s _ hws (hw _ (by omega)))
    (fun j hj => by
      have h1 := hinc (2 * j) (by omega)
      have h2 := hinc (2 * j + 1) (by omega)
      have e : 2 * (j + 1) = 2 * j + 1 + 1 := by omega
      rw [e]
      omega)
    16 0 none (-3) (by omega) (Or.inl rfl)
  rw [show (0 : Nat) = 2 * 0 from rfl, h]
  unfold jieCount
  rw [List.range_eq_range']
  omega

/-- closed form of the month pillar from the scan index k−3 and the year stem g of the matching convention -/
def monthPillarOf (k g : Int) : Int × Int :=          -- k = number of Jie passed (0..16), g = year stem of the convention
  let index := k - 3
  let add : Int := if index < 0 then 1 else 0
  let offset := (((g + add) % 5 + 1) * 2) % 10
  ((((if index < 0 then index + 10 else index) + offset) % 10), ((if index < 0 then index + 12 else index) + 2) % 12)

theorem computeMonth_eq (s : Solar) (ts : List Solar) (gL gE : Int) :
    let kd := monthScan Solar.toYmd s.toYmd ts 16 0 none (-3) + 3
    let ki := monthScan Solar.toYmdHms s.toYmdHms ts 16 0 none (-3) + 3
    computeMonth s ts gL gE = ((monthPillarOf kd gL).1, (monthPillarOf kd gL).2, (monthPillarOf ki gE).1, (monthPillarOf ki gE).2) := by
  simp only [computeMonth, monthPillarOf, LunarUtil.BASE_MONTH_ZHI_INDEX, Int.add_sub_cancel]

theorem monthPillar_zhi (k g : Int) (hk : 0 ≤ k ∧ k ≤ 16) : (monthPillarOf k g).2 = (k + 11) % 12 := by
  simp only [monthPillarOf]
  split <;> omega

/-- stem of the month pillar: with the effective year stem `g + [k < 3]` it is `(k + 7 + 2·((g' mod 5) + 1)) mod 10` -/
theorem monthPillar_gan (k g : Int) :
    (monthPillarOf k g).1 = (k + 7 + (((g + (if k < 3 then 1 else 0)) % 5 + 1) * 2) % 10) % 10 := by
  simp only [monthPillarOf]
  by_cases h : k < 3
  · have h' : k - 3 < 0 := by omega
    simp only [h, h', if_true]; omega
  · have h' : ¬ (k - 3 < 0) := by omega
    simp only [h, h', if_false]; omega

/-- one step per Jie: for 0 ≤ k < 16, with the Lichun-based year stem g(k) = gPrev for k ≤ 2 and (gPrev+1) mod 10 for k ≥ 3 -/
theorem monthPillar_step (k gPrev : Int) (hk : 0 ≤ k ∧ k < 15) (hg : 0 ≤ gPrev ∧ gPrev ≤ 9) :
    let g := fun (k : Int) => if k ≤ 2 then gPrev else (gPrev + 1) % 10
    cycleIndex (monthPillarOf (k + 1) (g (k + 1))).1 (monthPillarOf (k + 1) (g (k + 1))).2 =
      (cycleIndex (monthPillarOf k (g k)).1 (monthPillarOf k (g k)).2 + 1) % 60 := by
  simp only [monthPillar_gan, monthPillar_zhi k _ ⟨hk.1, by omega⟩, monthPillar_zhi (k + 1) _ ⟨by omega, by omega⟩, cycleIndex]
  by_cases h2 : k ≤ 1
  · have a1 : k + 1 ≤ 2 := by omega
    have a2 : k ≤ 2 := by omega
    have a3 : k + 1 < 3 := by omega
    have a4 : k < 3 := by omega
    simp only [a1, a2, a3, a4, if_true]
    omega
  · by_cases h3 : k = 2
    · subst h3
      simp only [show ¬ ((2 : Int) + 1 ≤ 2) by omega, show (2 : Int) ≤ 2 by omega, show ¬ ((2 : Int) + 1 < 3) by omega,
        show (2 : Int) < 3 by omega, if_true, if_false]
      omega
    · have a1 : ¬ (k + 1 ≤ 2) := by omega
      have a2 : ¬ (k ≤ 2) := by omega
      have a3 : ¬ (k + 1 < 3) := by omega
      have a4 : ¬ (k < 3) := by omega
      simp only [a1, a2, a3, a4, if_false]
      omega

/-- five-tigers rule: in the month that starts at Lichun (k = 3) the stem is (2·(g mod 5) + 2) mod 10 -/
theorem five_tigers (g : Int) (hg : 0 ≤ g ∧ g ≤ 9) : (monthPillarOf 3 g).1 = (2 * (g % 5) + 2) % 10 ∧ (monthPillarOf 3 g).2 = 2 := by
  simp only [monthPillarOf, show ¬ ((3 : Int) - 3 < 0) by omega, if_false]
  omega

/-! ## validity of every pillar -/

/-- one of the 60 stem-branch pairs -/
def pillarOk (g z : Int) : Prop := 0 ≤ g ∧ g ≤ 9 ∧ 0 ≤ z ∧ z ≤ 11 ∧ g % 2 = z % 2

theorem pillarOk_mod (a : Int) : pillarOk (a % 10) (a % 12) := by
  unfold pillarOk; omega

theorem monthPillarOf_ok (k g : Int) : pillarOk (monthPillarOf k g).1 (monthPillarOf k g).2 := by
  simp only [monthPillarOf, pillarOk]
  split <;> omega

theorem computeDay_ok (s : Solar) (h mi : Int) :
    let r := computeDay s h mi
    pillarOk r.1 r.2.1 ∧ pillarOk r.2.2.1 r.2.2.2.1 ∧ pillarOk r.2.2.2.2.1 r.2.2.2.2.2 := by
  simp only [computeDay]
  generalize (strGe (fmtHm h mi) (fmtHm 23 0) && strLe (fmtHm h mi) (fmtHm 23 59)) = b
  refine ⟨pillarOk_mod _, ?_, pillarOk_mod _⟩
  cases b
  · simp only [Bool.false_eq_true, if_false]; exact pillarOk_mod _
  · simp only [if_true, pillarOk]
    split <;> split <;> omega

/-- every pillar is one of the 60 valid stem-branch pairs: ranges and equal parity -/
theorem pillars_valid (ly lm ld h mi sec : Int) (s : Solar) (ya : YearAstro) (hts : termsOk s.year ya.terms = true)
    (hs : stampValid s = true) (hh : 0 ≤ h ∧ h ≤ 23) (hm : 0 ≤ mi ∧ mi ≤ 59) (hly : ly = s.year - 1 ∨ ly = s.year ∨ ly = s.year + 1) :
    let l := computeAll ly lm ld h mi sec s ya
    let ok := fun (g z : Int) => 0 ≤ g ∧ g ≤ 9 ∧ 0 ≤ z ∧ z ≤ 11 ∧ g % 2 = z % 2
    ok l.yearGanIndex l.yearZhiIndex ∧ ok l.yearGanIndexByLiChun l.yearZhiIndexByLiChun ∧ ok l.yearGanIndexExact l.yearZhiIndexExact ∧
    ok l.monthGanIndex l.monthZhiIndex ∧ ok l.monthGanIndexExact l.monthZhiIndexExact ∧
    ok l.dayGanIndex l.dayZhiIndex ∧ ok l.dayGanIndexExact l.dayZhiIndexExact ∧ ok l.dayGanIndexExact2 l.dayZhiIndexExact2 ∧
    ok l.timeGanIndex l.timeZhiIndex := by
  have hy := year_pillars_partial ly s ya.terms hts hs hly
  have hd := computeDay_ok s h mi
  have hmo := computeMonth_eq s ya.terms (computeYear ly s ya.terms).2.2.1 (computeYear ly s ya.terms).2.2.2.2.1
  simp only at hy hd hmo
  obtain ⟨y1, y2, y3, y4, y5, y6⟩ := hy
  obtain ⟨d1, d2, d3⟩ := hd
  simp only [computeAll, hmo, timeZhi_eq h mi hh hm]
  rw [y1, y2, y3, y4, y5, y6]
  refine ⟨pillarOk_mod _, pillarOk_mod _, pillarOk_mod _, monthPillarOf_ok _ _, monthPillarOf_ok _ _, d1, d2, d3, ?_⟩
  omega

/-! ## consistency of the month scan with the Lichun-based year stem -/

/-- with a non-decreasing Jie table, fewer than three Jie have passed iff `now` is before Lichun (entry 4) -/
theorem jieCount_le2_iff (K : Solar → Int) (now : Int) (ts : List Solar)
    (hmono : ∀ j, j + 1 < 16 → K (ts.getD (2 * j) nilSolar) ≤ K (ts.getD (2 * (j + 1)) nilSolar)) :
    jieCount K now ts ≤ 2 ↔ now < K (ts.getD 4 nilSolar) := by
  have m : ∀ j k, j ≤ k → k < 16 → K (ts.getD (2 * j) nilSolar) ≤ K (ts.getD (2 * k) nilSolar) :=
    mono_of_step (fun j => K (ts.getD (2 * j) nilSolar)) 16 hmono
  unfold jieCount
  rw [List.range_eq_range', List.range'_succ, List.range'_succ, List.range'_succ]
  by_cases h : now < K (ts.getD 4 nilSolar)
  · have hnil : (List.range' (0 + 1 + 1 + 1) 13).filter (fun j => decide (K (ts.getD (2 * j) nilSolar) ≤ now)) = [] := by
      rw [List.filter_eq_nil_iff]
      intro k hk
      rw [List.mem_range'_1] at hk
      have := m 2 k (by omega) (by omega)
      simp only [decide_eq_true_eq]
      simp only [Nat.reduceMul] at this
      omega
    have h2 : ¬ (K (ts.getD (2 * (0 + 1 + 1)) nilSolar) ≤ now) := by
      simp only [Nat.reduceAdd, Nat.reduceMul]; omega
    simp only [List.filter_cons, hnil, h2, decide_false, Bool.false_eq_true, if_false, h, iff_true]
    split <;> split <;> simp only [List.length_cons, List.length_nil] <;> omega
  · have h0 := m 0 2 (by omega) (by omega)
    have h1 := m 1 2 (by omega) (by omega)
    simp only [Nat.reduceMul] at h0 h1
    have e0 : K (ts.getD (2 * 0) nilSolar) ≤ now := by simp only [Nat.reduceMul]; omega
    have e1 : K (ts.getD (2 * (0 + 1)) nilSolar) ≤ now := by simp only [Nat.reduceAdd, Nat.reduceMul]; omega
    have e2 : K (ts.getD (2 * (0 + 1 + 1)) nilSolar) ≤ now := by simp only [Nat.reduceAdd, Nat.reduceMul]; omega
    simp only [List.filter_cons, e0, e1, e2, decide_true, if_true, List.length_cons, h, iff_false]
    omega

/-- the year stems that `computeAll` hands to the month pillar are exactly the Lichun-based stems that
`monthPillar_step` assumes: previous-year stem while fewer than three Jie have passed (k ≤ 2), the next stem
from Lichun (k ≥ 3) on — for the day scan with the Lichun-day stem, for the instant scan with the Lichun-instant stem.
(Needs the same side condition as `year_pillars_of_lead_after`.) -/
theorem month_year_consistent (ly : Int) (s : Solar) (ts : List Solar) (hts : termsOk s.year ts = true) (hs : stampValid s = true)
    (hly : ly = s.year - 1 ∨ ly = s.year ∨ ly = s.year + 1)
    (hlead : ly = s.year + 1 → (ts.getD 4 nilSolar).key ≤ s.key) :
    let r := computeYear ly s ts
    let kd := jieCount (fun t => (t.year * 100 + t.month) * 100 + t.day) ((s.year * 100 + s.month) * 100 + s.day) ts
    let ki := jieCount Solar.key s.key ts
    let gPrev := (s.year - 5) % 10
    r.2.2.1 = (if kd ≤ 2 then gPrev else (gPrev + 1) % 10) ∧
    r.2.2.2.2.1 = (if ki ≤ 2 then gPrev else (gPrev + 1) % 10) := by
  have hy := year_pillars_of_lead_after ly s ts hts hs hly hlead
  obtain ⟨hl, hval, hinc, hy4⟩ := termsOk_parts s.year ts hts
  have hw : ∀ i, i < 31 → InWidth (ts.getD i nilSolar) := fun i hi => stampValid_inWidth_pil _ (hval i hi)
  have hd := jieCount_le2_iff key8 (key8 s) ts (fun j hj => by
      have h1 := hinc (2 * j) (by omega)
      have h2 := hinc (2 * j + 1) (by omega)
      have e : 2 * (j + 1) = 2 * j + 1 + 1 := by omega
      rw [e]
      exact Int.le_trans (key8_mono _ _ (hw _ (by omega)) (hw _ (by omega)) h1)
        (key8_mono _ _ (hw _ (by omega)) (hw _ (by omega)) h2))
  have hi := jieCount_le2_iff Solar.key s.key ts (fun j hj => by
      have h1 := hinc (2 * j) (by omega)
      have h2 := hinc (2 * j + 1) (by omega)
      have e : 2 * (j + 1) = 2 * j + 1 + 1 := by omega
      rw [e]
      omega)
  simp only at hy ⊢
  obtain ⟨_, _, y3, _, y5, _⟩ := hy
  rw [y3, y5]
  have hd' : jieCount (fun t => (t.year * 100 + t.month) * 100 + t.day) ((s.year * 100 + s.month) * 100 + s.day) ts ≤ 2 ↔
      (s.year * 100 + s.month) * 100 + s.day <
        ((ts.getD 4 nilSolar).year * 100 + (ts.getD 4 nilSolar).month) * 100 + (ts.getD 4 nilSolar).day := hd
  constructor
  · by_cases c : (s.year * 100 + s.month) * 100 + s.day <
        ((ts.getD 4 nilSolar).year * 100 + (ts.getD 4 nilSolar).month) * 100 + (ts.getD 4 nilSolar).day
    · simp only [c, hd'.mpr c, if_true]; omega
    · have c' := fun h => c (hd'.mp h)
      simp only [c, c', if_false]; omega
  · by_cases c : s.key < (ts.getD 4 nilSolar).key
    · simp only [c, hi.mpr c, if_true]; omega
    · have c' := fun h => c (hi.mp h)
      simp only [c, c', if_false]; omega

/-! ## the statement `year_pillars` as given is false when `ly = s.year + 1` and `s` is before Lichun -/

def terms2024 : List Solar :=
  [⟨2023, 12, 7, 17, 32, 44⟩, ⟨2023, 12, 22, 11, 27, 9⟩, ⟨2024, 1, 6, 4, 49, 8⟩, ⟨2024, 1, 20, 22, 7, 8⟩, ⟨2024, 2, 4, 16, 26, 53⟩, ⟨2024, 2, 19, 12, 12, 58⟩, ⟨2024, 3, 5, 10, 22, 31⟩, ⟨2024, 3, 20, 11, 6, 11⟩, ⟨2024, 4, 4, 15, 2, 3⟩, ⟨2024, 4, 19, 21, 59, 32⟩, ⟨2024, 5, 5, 8, 9, 51⟩, ⟨2024, 5, 20, 20, 59, 17⟩, ⟨2024, 6, 5, 12, 9, 40⟩, ⟨2024, 6, 21, 4, 50, 46⟩, ⟨2024, 7, 6, 22, 19, 49⟩, ⟨2024, 7, 22, 15, 44, 11⟩, ⟨2024, 8, 7, 8, 9, 1⟩, ⟨2024, 8, 22, 22, 54, 48⟩, ⟨2024, 9, 7, 11, 11, 5⟩, ⟨2024, 9, 22, 20, 43, 27⟩, ⟨2024, 10, 8, 2, 59, 42⟩, ⟨2024, 10, 23, 6, 14, 32⟩, ⟨2024, 11, 7, 6, 19, 49⟩, ⟨2024, 11, 22, 3, 56, 16⟩, ⟨2024, 12, 6, 23, 16, 47⟩, ⟨2024, 12, 21, 17, 20, 19⟩, ⟨2025, 1, 5, 10, 32, 31⟩, ⟨2025, 1, 20, 3, 59, 52⟩, ⟨2025, 2, 3, 22, 10, 13⟩, ⟨2025, 2, 18, 18, 6, 18⟩, ⟨2025, 3, 5, 16, 7, 2⟩]

/-- counterexample to `year_pillars` as stated: ly = 2025, s = 2024-01-01 00:00:00, the term table of 2024.
All hypotheses hold; the model gives Lichun-day stem 0 (year 2024), the stated right-hand side is 9 (year 2023). -/
theorem year_pillars_counterexample :
    let s : Solar := ⟨2024, 1, 1, 0, 0, 0⟩
    let ts := terms2024
    let ly : Int := 2025
    termsOk s.year ts = true ∧ stampValid s = true ∧ ly = s.year + 1 ∧
    (computeYear ly s ts).2.2.1 = 0 ∧
    (let L := ts.getD 4 nilSolar
     let Yd : Int := if (s.year * 100 + s.month) * 100 + s.day < (L.year * 100 + L.month) * 100 + L.day then s.year - 1 else s.year
     (Yd - 4) % 10 = 9) := by
  decide +kernel

#print axioms timeZhi_eq
#print axioms computeDay_plain
#print axioms cycleIndex_spec
#print axioms day_cycle_succ
#print axioms computeDay_exact
#print axioms time_pillar
#print axioms year_pillars_partial
#print axioms year_pillars_of_lead_after
#print axioms year_pillars_counterexample
#print axioms monthScan_day
#print axioms monthScan_instant
#print axioms computeMonth_eq
#print axioms monthPillar_zhi
#print axioms monthPillar_step
#print axioms five_tigers
#print axioms month_year_consistent
#print axioms pillars_valid

end Model
