import Model.Lunar
import Model.AstroWF
import Proofs.FmtOrder
import Proofs.CivilArith
set_option linter.unusedVariables false
set_option linter.unusedSimpArgs false
namespace Model
open Gen.Tables

/-! # Pillars: hour, day, year, month (sexagenary stem/branch indices) -/

/-! ## HOUR -/

theorem strGe_fmtHm (h mi a b : Int) (hh : 0 ≤ h ∧ h ≤ 99) (hm : 0 ≤ mi ∧ mi ≤ 99) (ha : 0 ≤ a ∧ a ≤ 99) (hb : 0 ≤ b ∧ b ≤ 99) :
    strGe (fmtHm h mi) (fmtHm a b) = decide (a * 100 + b ≤ h * 100 + mi) := by
  unfold strGe
  rw [cmp_fmtHm h mi a b hh hm ha hb]
  by_cases h1 : h * 100 + mi < a * 100 + b
  · rw [Int.compare_eq_lt.mpr h1]
    have : ¬ (a * 100 + b ≤ h * 100 + mi) := by omega
    simp [this]
  · have h2 : a * 100 + b ≤ h * 100 + mi := by omega
    have : compare (h * 100 + mi) (a * 100 + b) ≠ .lt := by
      intro hc; exact h1 (Int.compare_eq_lt.mp hc)
    simp [h2, this]

theorem strLe_fmtHm (h mi a b : Int) (hh : 0 ≤ h ∧ h ≤ 99) (hm : 0 ≤ mi ∧ mi ≤ 99) (ha : 0 ≤ a ∧ a ≤ 99) (hb : 0 ≤ b ∧ b ≤ 99) :
    strLe (fmtHm h mi) (fmtHm a b) = decide (h * 100 + mi ≤ a * 100 + b) := by
  unfold strLe
  rw [cmp_fmtHm h mi a b hh hm ha hb]
  by_cases h1 : a * 100 + b < h * 100 + mi
  · rw [Int.compare_eq_gt.mpr h1]
    have : ¬ (h * 100 + mi ≤ a * 100 + b) := by omega
    simp [this]
  · have h2 : h * 100 + mi ≤ a * 100 + b := by omega
    have : compare (h * 100 + mi) (a * 100 + b) ≠ .gt := by
      intro hc; exact h1 (Int.compare_eq_gt.mp hc)
    simp [h2, this]

theorem slot_eq (h mi i j : Int) (hh : 0 ≤ h ∧ h ≤ 23) (hm : 0 ≤ mi ∧ mi ≤ 59) (hi : 0 ≤ i ∧ i ≤ 97) (hj : j = i + 1) :
    (strGe (fmtHm h mi) (fmtHm i 0) && strLe (fmtHm h mi) (fmtHm j 59)) = (decide (i ≤ h) && decide (h ≤ i + 1)) := by
  subst hj
  rw [strGe_fmtHm h mi i 0 (by omega) (by omega) (by omega) (by omega),
    strLe_fmtHm h mi (i + 1) 59 (by omega) (by omega) (by omega) (by omega)]
  have e1 : (i * 100 + 0 ≤ h * 100 + mi) ↔ (i ≤ h) := by omega
  have e2 : (h * 100 + mi ≤ (i + 1) * 100 + 59) ↔ (h ≤ i + 1) := by omega
  simp only [e1, e2]

theorem timeZhiScan_gen (h mi : Int) (hh : 0 ≤ h ∧ h ≤ 23) (hm : 0 ≤ mi ∧ mi ≤ 59) :
    ∀ (fuel : Nat) (i x : Int), i = 2 * x - 1 → 1 ≤ x → (fuel : Int) + x ≥ 13 → (h = 0 ∨ i ≤ h) →
      timeZhiScan (fmtHm h mi) fuel i x = if h = 0 ∨ h = 23 then 0 else (h + 1) / 2 := by
  intro fuel
  induction fuel with
  | zero =>
    intro i x hi hx hf hinv
    have : h = 0 := by omega
    simp [timeZhiScan, this]
  | succ fuel ih =>
    intro i x hi hx hf hinv
    unfold timeZhiScan
    by_cases h22 : i ≥ 22
    · have : h = 0 ∨ h = 23 := by omega
      simp only [h22, if_true, this]
    · simp only [h22, if_false]
      rw [slot_eq h mi i (i + 1) hh hm (by omega) rfl]
      by_cases hs : i ≤ h ∧ h ≤ i + 1
      · have hn : ¬ (h = 0 ∨ h = 23) := by omega
        simp only [hs.1, hs.2, decide_true, Bool.and_self, if_true, hn, if_false]
        omega
      · have hc : (decide (i ≤ h) && decide (h ≤ i + 1)) = false := by
          rw [Bool.and_eq_false_iff]; simp only [decide_eq_false_iff_not]; omega
        rw [hc]
        simp only [Bool.false_eq_true, if_false]
        exact ih (i + 2) (x + 1) (by omega) (by omega) (by omega) (by omega)

theorem timeZhi_eq (h mi : Int) (hh : 0 ≤ h ∧ h ≤ 23) (hm : 0 ≤ mi ∧ mi ≤ 59) : timeZhiIndexOf h mi = ((h + 1) / 2) % 12 := by
  unfold timeZhiIndexOf
  rw [timeZhiScan_gen h mi hh hm 12 1 1 (by omega) (by omega) (by omega) (by omega)]
  split <;> omega

/-! ## DAY -/

/-- DAY: plain day pillar from the day number -/
theorem computeDay_plain (s : Solar) (h mi : Int) :
    (computeDay s h mi).1 = (s.jdn - 11) % 10 ∧ (computeDay s h mi).2.1 = (s.jdn - 11) % 12 := by
  simp only [computeDay, Solar.jdn, and_self]

/-- 60-cycle index of a (stem, branch) pair with equal parity -/
def cycleIndex (g z : Int) : Int := (6 * g - 5 * z) % 60

theorem cycleIndex_spec (i : Int) : cycleIndex (i % 10) (i % 12) = i % 60 := by
  unfold cycleIndex
  omega

theorem day_cycle_succ (s r : Solar) (h : r.jdn = s.jdn + 1) (hh mi : Int) :
    cycleIndex (computeDay r hh mi).1 (computeDay r hh mi).2.1 = (cycleIndex (computeDay s hh mi).1 (computeDay s hh mi).2.1 + 1) % 60 := by
  rw [(computeDay_plain r hh mi).1, (computeDay_plain r hh mi).2, (computeDay_plain s hh mi).1,
    (computeDay_plain s hh mi).2, cycleIndex_spec, cycleIndex_spec, h]
  omega

theorem late_eq (h mi : Int) (hh : 0 ≤ h ∧ h ≤ 23) (hm : 0 ≤ mi ∧ mi ≤ 59) :
    (strGe (fmtHm h mi) (fmtHm 23 0) && strLe (fmtHm h mi) (fmtHm 23 59)) = decide (h = 23) := by
  rw [strGe_fmtHm h mi 23 0 (by omega) (by omega) (by omega) (by omega),
    strLe_fmtHm h mi 23 59 (by omega) (by omega) (by omega) (by omega)]
  by_cases h23 : h = 23
  · have e1 : decide ((23 : Int) * 100 + 0 ≤ h * 100 + mi) = true := decide_eq_true (by omega)
    have e2 : decide (h * 100 + mi ≤ 23 * 100 + 59) = true := decide_eq_true (by omega)
    have e3 : decide (h = 23) = true := decide_eq_true h23
    rw [e1, e2, e3]; rfl
  · have e1 : decide ((23 : Int) * 100 + 0 ≤ h * 100 + mi) = false := decide_eq_false (by omega)
    have e3 : decide (h = 23) = false := decide_eq_false h23
    rw [e1, e3]; rfl

/-- early-rat convention (Exact): 23:00–23:59 belongs to the next day; late-rat (Exact2): same day -/
theorem computeDay_exact (s : Solar) (h mi : Int) (hh : 0 ≤ h ∧ h ≤ 23) (hm : 0 ≤ mi ∧ mi ≤ 59) :
    let r := computeDay s h mi
    r.2.2.2.2.1 = r.1 ∧ r.2.2.2.2.2 = r.2.1 ∧
    (h = 23 → r.2.2.1 = (r.1 + 1) % 10 ∧ r.2.2.2.1 = (r.2.1 + 1) % 12) ∧
    (h ≠ 23 → r.2.2.1 = r.1 ∧ r.2.2.2.1 = r.2.1) := by
  simp only [computeDay, late_eq h mi hh hm, decide_eq_true_eq]
  refine ⟨trivial, trivial, ?_, ?_⟩
  · intro h23
    simp only [h23, if_true]
    constructor <;> split <;> omega
  · intro h23
    simp only [h23, if_false, and_self]

/-- hour stem from the (early-rat) day stem by the five-rats rule; all in `computeAll` -/
theorem time_pillar (ly lm ld h mi sec : Int) (s : Solar) (ya : YearAstro) (hh : 0 ≤ h ∧ h ≤ 23) (hm : 0 ≤ mi ∧ mi ≤ 59) :
    let l := computeAll ly lm ld h mi sec s ya
    l.timeZhiIndex = ((h + 1) / 2) % 12 ∧ l.timeGanIndex = (l.dayGanIndexExact % 5 * 2 + l.timeZhiIndex) % 10 ∧
    l.weekIndex = s.week := by
  simp only [computeAll, timeZhi_eq h mi hh hm, and_self]

/-! ## term table access -/

theorem termIndex_all : ∀ i : Fin 31, termIndex (calendar.JIE_QI_IN_USE.getD i.val "") = some i.val := by decide

theorem jieQi_length : calendar.JIE_QI_IN_USE.length = 31 := by decide

theorem termByName_idx (ts : List Solar) (i : Nat) (hi : i < 31) :
    termByName ts (calendar.JIE_QI_IN_USE.getD i "") = ts.getD i nilSolar := by
  unfold termByName
  rw [termIndex_all ⟨i, hi⟩]

theorem termByName_lichun (ts : List Solar) : termByName ts "立春" = ts.getD 4 nilSolar :=
  termByName_idx ts 4 (by omega)

theorem stampValid_inWidth (s : Solar) (hs : stampValid s = true) : InWidth s := by
  unfold stampValid at hs
  simp only [Bool.and_eq_true, decide_eq_true_eq] at hs
  obtain ⟨⟨hv, h0⟩, h1⟩ := hs
  have hb := hms_bounds s hv
  have hv2 := (valid_parts s hv).1
  unfold validYmd at hv2
  simp only [Bool.and_eq_true, decide_eq_true_eq] at hv2
  unfold InWidth
  omega

theorem allAdj_get {α : Type} (f : α → α → Bool) (d : α) : ∀ (l : List α), allAdj f l = true →
    ∀ i, i + 1 < l.length → f (l.getD i d) (l.getD (i + 1) d) = true
  | [], _, i, hi => by simp at hi
  | [_], _, i, hi => by simp at hi
  | a :: b :: r, h, i, hi => by
    simp only [allAdj, Bool.and_eq_true] at h
    cases i with
    | zero => simpa using h.1
    | succ i =>
      have := allAdj_get f d (b :: r) h.2 i (by simpa using hi)
      simpa using this

/-- what `termsOk` gives for the scans -/
theorem termsOk_parts (y : Int) (ts : List Solar) (hts : termsOk y ts = true) :
    ts.length = 31 ∧ (∀ i, i < 31 → stampValid (ts.getD i nilSolar) = true) ∧
    (∀ i, i + 1 < 31 → (ts.getD i nilSolar).key < (ts.getD (i + 1) nilSolar).key) ∧
    (ts.getD 4 nilSolar).year = y := by
  unfold termsOk at hts
  simp only [Bool.and_eq_true, decide_eq_true_eq] at hts
  obtain ⟨⟨⟨hl, hall⟩, hadj⟩, hm⟩ := hts
  refine ⟨hl, ?_, ?_, ?_⟩
  · intro i hi
    rw [List.all_eq_true] at hall
    apply hall
    rw [← List.getElem_eq_getD (h := by omega)]
    exact List.getElem_mem _
  · intro i hi
    have := allAdj_get _ nilSolar ts hadj i (by omega)
    simp only [Bool.and_eq_true, decide_eq_true_eq] at this
    exact this.1.1
  · rw [← List.getElem_eq_getD (h := by omega)]
    have h1 : ts[1]? = some ts[1] := List.getElem?_eq_getElem (by omega)
    have h4 : ts[4]? = some ts[4] := List.getElem?_eq_getElem (by omega)
    rw [h1, h4] at hm
    simp only [Bool.and_eq_true, beq_iff_eq] at hm
    exact hm.2

/-! ## string order of the printed stamps as numeric order -/

theorem compare_beq_lt (a b : Int) : (compare a b == Ordering.lt) = decide (a < b) := by
  by_cases h : a < b
  · rw [Int.compare_eq_lt.mpr h, decide_eq_true h]; rfl
  · rw [decide_eq_false h]
    have : compare a b ≠ .lt := fun hc => h (Int.compare_eq_lt.mp hc)
    cases hc : compare a b with
    | lt => exact absurd hc this
    | eq => rfl
    | gt => rfl

theorem compare_bne_lt (a b : Int) : (compare a b != Ordering.lt) = decide (b ≤ a) := by
  unfold bne
  rw [compare_beq_lt]
  by_cases h : a < b
  · rw [decide_eq_true h, decide_eq_false (by omega)]; rfl
  · rw [decide_eq_false h, decide_eq_true (by omega)]; rfl

theorem strLt_toYmd (s o : Solar) (hs : InWidth s) (ho : InWidth o) :
    strLt s.toYmd o.toYmd = decide (key8 s < key8 o) := by
  unfold strLt; rw [cmp_toYmd s o hs ho, compare_beq_lt]

theorem strGe_toYmd (s o : Solar) (hs : InWidth s) (ho : InWidth o) :
    strGe s.toYmd o.toYmd = decide (key8 o ≤ key8 s) := by
  unfold strGe; rw [cmp_toYmd s o hs ho, compare_bne_lt]

theorem strLt_toYmdHms (s o : Solar) (hs : InWidth s) (ho : InWidth o) :
    strLt s.toYmdHms o.toYmdHms = decide (key14 s < key14 o) := by
  unfold strLt; rw [cmp_toYmdHms s o hs ho, compare_beq_lt]

theorem strGe_toYmdHms (s o : Solar) (hs : InWidth s) (ho : InWidth o) :
    strGe s.toYmdHms o.toYmdHms = decide (key14 o ≤ key14 s) := by
  unfold strGe; rw [cmp_toYmdHms s o hs ho, compare_bne_lt]

/-! ## YEAR -/

theorem year_pillars_partial (ly : Int) (s : Solar) (ts : List Solar) (hts : termsOk s.year ts = true) (hs : stampValid s = true)
    (hly : ly = s.year - 1 ∨ ly = s.year ∨ ly = s.year + 1) :
    let r := computeYear ly s ts
    let L := ts.getD 4 nilSolar
    let Yd : Int := if ly ≤ s.year ∧ (s.year * 100 + s.month) * 100 + s.day < (L.year * 100 + L.month) * 100 + L.day then s.year - 1 else s.year
    let Yi : Int := if ly ≤ s.year ∧ s.key < L.key then s.year - 1 else s.year
    r.1 = (ly - 4) % 10 ∧ r.2.1 = (ly - 4) % 12 ∧
    r.2.2.1 = (Yd - 4) % 10 ∧ r.2.2.2.1 = (Yd - 4) % 12 ∧
    r.2.2.2.2.1 = (Yi - 4) % 10 ∧ r.2.2.2.2.2 = (Yi - 4) % 12 := by
  obtain ⟨hl, hval, hinc, hy4⟩ := termsOk_parts s.year ts hts
  have hws := stampValid_inWidth s hs
  have hwL := stampValid_inWidth _ (hval 4 (by omega))
  have hne : ¬ ((ts.getD 4 nilSolar).year ≠ s.year) := fun h => h hy4
  have k8s : (s.year * 100 + s.month) * 100 + s.day = key8 s := rfl
  have k8L : ((ts.getD 4 nilSolar).year * 100 + (ts.getD 4 nilSolar).month) * 100 + (ts.getD 4 nilSolar).day
      = key8 (ts.getD 4 nilSolar) := rfl
  have k14 : ∀ t : Solar, t.key = key14 t := fun _ => rfl
  simp only [computeYear, normMod, termByName_lichun, hne, if_false,
    strLt_toYmd s _ hws hwL, strGe_toYmd s _ hws hwL, strLt_toYmdHms s _ hws hwL, strGe_toYmdHms s _ hws hwL,
    k8s, k8L, k14, decide_eq_true_eq]
  generalize key8 s = a8
  generalize key8 (ts.getD 4 nilSolar) = b8
  generalize key14 s = a14
  generalize key14 (ts.getD 4 nilSolar) = b14
  generalize s.year = sy at hly
  clear hne k8s k8L k14
  by_cases c8 : a8 < b8 <;> by_cases c14 : a14 < b14 <;> rcases hly with h | h | h <;> subst ly
  all_goals
    have f1 : ¬ (sy - 1 = sy) := by omega
    have f2 : sy - 1 < sy := by omega
    have f3 : sy - 1 ≤ sy := by omega
    have f4 : ¬ (sy + 1 = sy) := by omega
    have f5 : ¬ (sy + 1 < sy) := by omega
    have f6 : ¬ (sy + 1 ≤ sy) := by omega
    have f7 : ¬ (sy < sy) := by omega
    have f8 : sy ≤ sy := by omega
    have g8 : (b8 ≤ a8) ↔ ¬ (a8 < b8) := by omega
    have g14 : (b14 ≤ a14) ↔ ¬ (a14 < b14) := by omega
    simp only [f1, f2, f3, f4, f5, f6, f7, f8, g8, g14, c8, c14, if_true, if_false, not_true_eq_false,
      not_false_eq_true, and_true, and_false, true_and, false_and, and_self]
    refine ⟨?_, ?_, ?_, ?_⟩ <;> split <;> omega

/-- the statement as given, under the extra hypothesis that a lunar year leading the civil year
(`ly = s.year + 1`) only occurs at or after the Lichun instant (without it the statement is false:
see `year_pillars_counterexample`) -/
theorem year_pillars_of_lead_after (ly : Int) (s : Solar) (ts : List Solar) (hts : termsOk s.year ts = true) (hs : stampValid s = true)
    (hly : ly = s.year - 1 ∨ ly = s.year ∨ ly = s.year + 1)
    (hlead : ly = s.year + 1 → (ts.getD 4 nilSolar).key ≤ s.key) :
    let r := computeYear ly s ts
    let L := ts.getD 4 nilSolar
    let Yd : Int := if (s.year * 100 + s.month) * 100 + s.day < (L.year * 100 + L.month) * 100 + L.day then s.year - 1 else s.year
    let Yi : Int := if s.key < L.key then s.year - 1 else s.year
    r.1 = (ly - 4) % 10 ∧ r.2.1 = (ly - 4) % 12 ∧
    r.2.2.1 = (Yd - 4) % 10 ∧ r.2.2.2.1 = (Yd - 4) % 12 ∧
    r.2.2.2.2.1 = (Yi - 4) % 10 ∧ r.2.2.2.2.2 = (Yi - 4) % 12 := by
  have hp := year_pillars_partial ly s ts hts hs hly
  obtain ⟨hl, hval, hinc, hy4⟩ := termsOk_parts s.year ts hts
  have hws := stampValid_inWidth s hs
  have hwL := stampValid_inWidth _ (hval 4 (by omega))
  simp only at hp ⊢
  by_cases hle : ly ≤ s.year
  · simp only [hle, true_and] at hp
    exact hp
  · have h1 : ly = s.year + 1 := by omega
    have hk := hlead h1
    have c14 : ¬ (s.key < (ts.getD 4 nilSolar).key) := by omega
    have c8 : ¬ ((s.year * 100 + s.month) * 100 + s.day <
        ((ts.getD 4 nilSolar).year * 100 + (ts.getD 4 nilSolar).month) * 100 + (ts.getD 4 nilSolar).day) := by
      unfold Solar.key at hk
      unfold InWidth at hws hwL
      omega
    simp only [hle, false_and, if_false] at hp
    simp only [c8, c14, if_false]
    exact hp

/-! ## MONTH -/

/-- MONTH pillar: the scan index is (number of Jie entries — the even entries 0,2,…,30 of the table — at or before now) − 3 -/
def jieCount (key : Solar → Int) (now : Int) (ts : List Solar) : Int :=
  (((List.range 16).filter (fun j => decide (key (ts.getD (2 * j) nilSolar) ≤ now))).length : Int)

theorem strGe_self (l : List Char) : strGe l l = true := by
  unfold strGe; rw [cmpChars_self]; rfl

theorem mono_of_step (f : Nat → Int) (n : Nat) (h : ∀ j, j + 1 < n → f j ≤ f (j + 1)) :
    ∀ j k, j ≤ k → k < n → f j ≤ f k := by
  intro j k hjk hk
  induction k with
  | zero => have : j = 0 := by omega
            subst this; exact Int.le_refl _
  | succ k ih =>
    by_cases hj : j = k + 1
    · subst hj; exact Int.le_refl _
    · exact Int.le_trans (ih (by omega) (by omega)) (h k hk)

/-- the scan with numeric keys: with a non-decreasing table it counts the entries at or before `now` -/
theorem monthScan_gen (key : Solar → List Char) (K : Solar → Int) (now : List Char) (nowK : Int) (ts : List Solar)
    (hlt : ∀ j, j < 16 → strLt now (key (ts.getD (2 * j) nilSolar)) = decide (nowK < K (ts.getD (2 * j) nilSolar)))
    (hge : ∀ j, j < 16 → strGe now (key (ts.getD (2 * j) nilSolar)) = decide (K (ts.getD (2 * j) nilSolar) ≤ nowK))
    (hmono : ∀ j, j + 1 < 16 → K (ts.getD (2 * j) nilSolar) ≤ K (ts.getD (2 * (j + 1)) nilSolar)) :
    ∀ (fuel j : Nat) (start : Option Solar) (idx : Int), fuel + j = 16 →
      (start = none ∨ ∃ t, start = some t ∧ strGe now (key t) = true) →
      monthScan key now ts fuel (2 * j) start idx =
        idx + (((List.range' j fuel).filter (fun j => decide (K (ts.getD (2 * j) nilSolar) ≤ nowK))).length : Int) := by
  intro fuel
  induction fuel with
  | zero => intro j start idx _ _; simp [monthScan]
  | succ fuel ih =>
    intro j start idx hf hst
    have hj : j < 16 := by omega
    unfold monthScan
    have hguard : ¬ (2 * j ≥ calendar.JIE_QI_IN_USE.length) := by rw [jieQi_length]; omega
    simp only [hguard, if_false]
    rw [termByName_idx ts (2 * j) (by omega)]
    have hb : ∀ b : Bool, b = true → (if (b && strLt now (key (ts.getD (2 * j) nilSolar))) = true then idx
        else monthScan key now ts fuel (2 * j + 2) (some (ts.getD (2 * j) nilSolar)) (idx + 1)) =
        idx + (((List.range' j (fuel + 1)).filter (fun j => decide (K (ts.getD (2 * j) nilSolar) ≤ nowK))).length : Int) := by
      intro b hbt
      rw [hbt, Bool.true_and, hlt j hj]
      by_cases hc : nowK < K (ts.getD (2 * j) nilSolar)
      · simp only [hc, decide_true, if_true]
        have hnil : (List.range' j (fuel + 1)).filter (fun j => decide (K (ts.getD (2 * j) nilSolar) ≤ nowK)) = [] := by
          rw [List.filter_eq_nil_iff]
          intro k hk
          rw [List.mem_range'_1] at hk
          have := mono_of_step (fun j => K (ts.getD (2 * j) nilSolar)) 16 hmono j k hk.1 (by omega)
          simp only [decide_eq_true_eq]
          omega
        rw [hnil]; simp
      · simp only [hc, decide_false, Bool.false_eq_true, if_false]
        have hle : K (ts.getD (2 * j) nilSolar) ≤ nowK := by omega
        have e2 : 2 * j + 2 = 2 * (j + 1) := by omega
        rw [e2, ih (j + 1) (some (ts.getD (2 * j) nilSolar)) (idx + 1) (by omega)
          (Or.inr ⟨_, rfl, by rw [hge j hj]; exact decide_eq_true hle⟩)]
        rw [List.range'_succ, List.filter_cons]
        simp only [hle, decide_true, if_true, List.length_cons]
        omega
    rcases hst with h | ⟨t, h, ht⟩
    · subst h; exact hb _ (strGe_self now)
    · subst h; exact hb _ ht

theorem key14_split (t : Solar) : key14 t = key8 t * 1000000 + (t.hour * 10000 + t.minute * 100 + t.second) := by
  unfold key14 key8; omega

theorem key8_mono (a b : Solar) (ha : InWidth a) (hb : InWidth b) (h : key14 a < key14 b) : key8 a ≤ key8 b := by
  rw [key14_split, key14_split] at h
  unfold InWidth at ha hb
  omega

theorem monthScan_day (y : Int) (s : Solar) (ts : List Solar) (hts : termsOk y ts = true) (hs : stampValid s = true) :
    monthScan Solar.toYmd s.toYmd ts 16 0 none (-3) = jieCount (fun t => (t.year * 100 + t.month) * 100 + t.day) ((s.year * 100 + s.month) * 100 + s.day) ts - 3 := by
  obtain ⟨hl, hval, hinc, hy4⟩ := termsOk_parts y ts hts
  have hws := stampValid_inWidth s hs
  have hw : ∀ i, i < 31 → InWidth (ts.getD i nilSolar) := fun i hi => stampValid_inWidth _ (hval i hi)
  have h := monthScan_gen Solar.toYmd key8 s.toYmd (key8 s) ts
    (fun j hj => strLt_toYmd s _ hws (hw _ (by omega)))
    (fun j hj => strGe_toYmd s _ hws (hw _ (by omega)))
    (fun j hj => by
      have h1 := hinc (2 * j) (by omega)
      have h2 := hinc (2 * j + 1) (by omega)
      have e : 2 * (j + 1) = 2 * j + 1 + 1 := by omega
      rw [e]
      exact Int.le_trans (key8_mono _ _ (hw _ (by omega)) (hw _ (by omega)) h1)
        (key8_mono _ _ (hw _ (by omega)) (hw _ (by omega)) h2))
    16 0 none (-3) (by omega) (Or.inl rfl)
  rw [show (0 : Nat) = 2 * 0 from rfl, h]
  have e : ∀ a : Int, -3 + a = a - 3 := by intro a; omega
  rw [e, jieCount, List.range_eq_range']
  rfl

theorem monthScan_instant (y : Int) (s : Solar) (ts : List Solar) (hts : termsOk y ts = true) (hs : stampValid s = true) :
    monthScan Solar.toYmdHms s.toYmdHms ts 16 0 none (-3) = jieCount Solar.key s.key ts - 3 := by
  obtain ⟨hl, hval, hinc, hy4⟩ := termsOk_parts y ts hts
  have hws := stampValid_inWidth s hs
  have hw : ∀ i, i < 31 → InWidth (ts.getD i nilSolar) := fun i hi => stampValid_inWidth _ (hval i hi)
  have h := monthScan_gen Solar.toYmdHms Solar.key s.toYmdHms s.key ts
    (fun j hj => strLt_toYmdHms s _ hws (hw _ (by omega)))
    (fun j hj => strGe_toYmdHms s _ hws (hw _ (by omega)))
    (fun j hj => by
      have h1 := hinc (2 * j) (by omega)
      have h2 := hinc (2 * j + 1) (by omega)
      have e : 2 * (j + 1) = 2 * j + 1 + 1 := by omega
      rw [e]
      omega)
    16 0 none (-3) (by omega) (Or.inl rfl)
  rw [show (0 : Nat) = 2 * 0 from rfl, h]
  unfold jieCount
  rw [List.range_eq_range']
  omega
