/-
FnSDecoders — structural theorems about the packed-table decoders of the almanac in string mode
(`Gen.FnS.LunarUtil_GetDayYi/Ji/JiShen/XiongSha`, `LunarUtil_GetTimeYi/Ji`) and the accessors built on
them.  No hand model is involved: the decoders stay opaque (the packed tables are never unfolded),
what is proved is
  1. leap months read the record of the regular month of the same number,
  2. every accessor factors through its decoder applied to the accessor's defining inputs
     (and the congruence corollaries, and the agreement of the two routes to the hour lists),
  3. the decoders never return an empty list.
-/
import Proofs.FnSBase
namespace FnSEq
open Gen.Fn (Err)
open Model.EightChar (pillarStr)

/-! ### 0. helpers -/

/-- the pillar string computation shared by all `Get…InGanZhi` getters, on every pair of indices -/
def sd_pillar (g z : Int) : Except Err String :=
  Gen.FnS.sidx Gen.Tables.LunarUtil.«GAN» (g + 1) >>= fun a =>
  Gen.FnS.sidx Gen.Tables.LunarUtil.«ZHI» (z + 1) >>= fun b => pure (a ++ b)

theorem sd_pillar_ok (g z : Int) (g0 : -1 ≤ g) (g1 : g < 10) (z0 : -1 ≤ z) (z1 : z < 12) :
    sd_pillar g z = .ok (pillarStr g z) := by
  unfold sd_pillar; rw [sidx_GAN g g0 g1, sidx_ZHI z z0 z1]; rfl

theorem sd_pillar_panic (g z : Int) (h : g < -1 ∨ 10 ≤ g ∨ z < -1 ∨ 12 ≤ z) :
    sd_pillar g z = .error .panic := by
  unfold sd_pillar
  by_cases hg : g < -1 ∨ 10 ≤ g
  · rw [sidx_GAN_panic g hg]; rfl
  · rw [sidx_GAN g (by omega) (by omega), sidx_ZHI_panic z (by omega)]; rfl

section
variable (l : Gen.FnS.Lunar)
theorem sd_dayInGanZhi : Gen.FnS.calendar_Lunar_GetDayInGanZhi l = sd_pillar l.dayGanIndex l.dayZhiIndex := rfl
theorem sd_dayInGanZhiExact :
    Gen.FnS.calendar_Lunar_GetDayInGanZhiExact l = sd_pillar l.dayGanIndexExact l.dayZhiIndexExact := rfl
theorem sd_monthInGanZhi : Gen.FnS.calendar_Lunar_GetMonthInGanZhi l = sd_pillar l.monthGanIndex l.monthZhiIndex := rfl
theorem sd_monthInGanZhiExact :
    Gen.FnS.calendar_Lunar_GetMonthInGanZhiExact l = sd_pillar l.monthGanIndexExact l.monthZhiIndexExact := rfl
theorem sd_timeInGanZhi : Gen.FnS.calendar_Lunar_GetTimeInGanZhi l = sd_pillar l.timeGanIndex l.timeZhiIndex := rfl
end

theorem sd_lunarTimeGanZhi (lt : Gen.FnS.LunarTime) :
    Gen.FnS.calendar_LunarTime_GetGanZhi lt = sd_pillar lt.ganIndex lt.zhiIndex := rfl

/-! ### 1. leap months read the record of the regular month of the same number

`LunarUtil_GetDayJiShen` / `GetDayXiongSha` only use the month through the key
`strToUpper (fmtX |month|)`; negating the month therefore changes nothing (for every month, in
particular for the leap month `-m` of a regular month `m > 0`). -/

theorem dayJiShen_neg (m : Int) (p : String) :
    Gen.FnS.LunarUtil_GetDayJiShen (-m) p = Gen.FnS.LunarUtil_GetDayJiShen m p := by
  unfold Gen.FnS.LunarUtil_GetDayJiShen
  by_cases h : m < 0
  · have h1 : decide (m < 0) = true := by simp [h]
    have h2 : decide (-m < 0) = false := by simp; omega
    simp only [h1, h2, Int.neg_neg, Bool.false_eq_true, if_true, if_false]
  · by_cases h0 : m = 0
    · subst h0; rfl
    · have h1 : decide (m < 0) = false := by simp [h]
      have h2 : decide (-m < 0) = true := by simp; omega
      simp only [h1, h2, Int.neg_neg, Bool.false_eq_true, if_true, if_false]

theorem dayXiongSha_neg (m : Int) (p : String) :
    Gen.FnS.LunarUtil_GetDayXiongSha (-m) p = Gen.FnS.LunarUtil_GetDayXiongSha m p := by
  unfold Gen.FnS.LunarUtil_GetDayXiongSha
  by_cases h : m < 0
  · have h1 : decide (m < 0) = true := by simp [h]
    have h2 : decide (-m < 0) = false := by simp; omega
    simp only [h1, h2, Int.neg_neg, Bool.false_eq_true, if_true, if_false]
  · by_cases h0 : m = 0
    · subst h0; rfl
    · have h1 : decide (m < 0) = false := by simp [h]
      have h2 : decide (-m < 0) = true := by simp; omega
      simp only [h1, h2, Int.neg_neg, Bool.false_eq_true, if_true, if_false]

/-- the task's form: the leap month `-m` of a regular month `m > 0` -/
theorem dayJiShen_leap (m : Int) (_hm : 0 < m) (p : String) :
    Gen.FnS.LunarUtil_GetDayJiShen (-m) p = Gen.FnS.LunarUtil_GetDayJiShen m p := dayJiShen_neg m p
theorem dayXiongSha_leap (m : Int) (_hm : 0 < m) (p : String) :
    Gen.FnS.LunarUtil_GetDayXiongSha (-m) p = Gen.FnS.LunarUtil_GetDayXiongSha m p := dayXiongSha_neg m p

/-! ### 2. the accessors factor through the decoders

First the guard-free forms (`sd_pillar` is the pillar-string computation, which panics outside the
index ranges), then the guarded forms with `pillarStr`, the panics outside the guards, and the
congruence corollaries. -/

section
variable (l : Gen.FnS.Lunar)

theorem lunarGetDayJiShen_factor :
    Gen.FnS.calendar_Lunar_GetDayJiShen l
      = sd_pillar l.dayGanIndex l.dayZhiIndex >>= fun p => Gen.FnS.LunarUtil_GetDayJiShen l.month p := by
  unfold Gen.FnS.calendar_Lunar_GetDayJiShen
  rw [lunarGetMonth_eq, sb_bind_ok, sd_dayInGanZhi]

theorem lunarGetDayXiongSha_factor :
    Gen.FnS.calendar_Lunar_GetDayXiongSha l
      = sd_pillar l.dayGanIndex l.dayZhiIndex >>= fun p => Gen.FnS.LunarUtil_GetDayXiongSha l.month p := by
  unfold Gen.FnS.calendar_Lunar_GetDayXiongSha
  rw [lunarGetMonth_eq, sb_bind_ok, sd_dayInGanZhi]

theorem lunarGetDayYiBySect_factor (fuel : Nat) (sect : Int) :
    Gen.FnS.calendar_Lunar_GetDayYiBySect fuel l sect
      = sd_pillar l.monthGanIndex l.monthZhiIndex >>= fun mp =>
        (if sect = 2 then sd_pillar l.monthGanIndexExact l.monthZhiIndexExact else pure mp) >>= fun mp' =>
        sd_pillar l.dayGanIndex l.dayZhiIndex >>= fun dp => Gen.FnS.LunarUtil_GetDayYi fuel mp' dp := by
  unfold Gen.FnS.calendar_Lunar_GetDayYiBySect
  rw [sd_monthInGanZhi, sd_monthInGanZhiExact, sd_dayInGanZhi]
  congr; funext mp
  by_cases h : sect = 2
  · subst h; rfl
  · have h' : decide (2 = sect) = false := by simp; omega
    simp only [h', h, if_false, Bool.false_eq_true]
    rfl

theorem lunarGetDayJiBySect_factor (fuel : Nat) (sect : Int) :
    Gen.FnS.calendar_Lunar_GetDayJiBySect fuel l sect
      = sd_pillar l.monthGanIndex l.monthZhiIndex >>= fun mp =>
        (if sect = 2 then sd_pillar l.monthGanIndexExact l.monthZhiIndexExact else pure mp) >>= fun mp' =>
        sd_pillar l.dayGanIndex l.dayZhiIndex >>= fun dp => Gen.FnS.LunarUtil_GetDayJi fuel mp' dp := by
  unfold Gen.FnS.calendar_Lunar_GetDayJiBySect
  rw [sd_monthInGanZhi, sd_monthInGanZhiExact, sd_dayInGanZhi]
  congr; funext mp
  by_cases h : sect = 2
  · subst h; rfl
  · have h' : decide (2 = sect) = false := by simp; omega
    simp only [h', h, if_false, Bool.false_eq_true]
    rfl

/-- `GetDayYi` is `GetDayYiBySect` with sect 1 (the day-based month pillar) -/
theorem lunarGetDayYi_eq_bySect (fuel : Nat) :
    Gen.FnS.calendar_Lunar_GetDayYi fuel l = Gen.FnS.calendar_Lunar_GetDayYiBySect fuel l 1 := by
  rfl
theorem lunarGetDayJi_eq_bySect (fuel : Nat) :
    Gen.FnS.calendar_Lunar_GetDayJi fuel l = Gen.FnS.calendar_Lunar_GetDayJiBySect fuel l 1 := by
  rfl

theorem lunarGetTimeYi_factor :
    Gen.FnS.calendar_Lunar_GetTimeYi l
      = sd_pillar l.dayGanIndexExact l.dayZhiIndexExact >>= fun dp =>
        sd_pillar l.timeGanIndex l.timeZhiIndex >>= fun tp => Gen.FnS.LunarUtil_GetTimeYi dp tp := by
  unfold Gen.FnS.calendar_Lunar_GetTimeYi
  rw [sd_dayInGanZhiExact, sd_timeInGanZhi]

theorem lunarGetTimeJi_factor :
    Gen.FnS.calendar_Lunar_GetTimeJi l
      = sd_pillar l.dayGanIndexExact l.dayZhiIndexExact >>= fun dp =>
        sd_pillar l.timeGanIndex l.timeZhiIndex >>= fun tp => Gen.FnS.LunarUtil_GetTimeJi dp tp := by
  unfold Gen.FnS.calendar_Lunar_GetTimeJi
  rw [sd_dayInGanZhiExact, sd_timeInGanZhi]

end

section
variable (lt : Gen.FnS.LunarTime)

theorem lunarTimeGetYi_factor :
    Gen.FnS.calendar_LunarTime_GetYi lt
      = sd_pillar lt.lunar.dayGanIndexExact lt.lunar.dayZhiIndexExact >>= fun dp =>
        sd_pillar lt.ganIndex lt.zhiIndex >>= fun tp => Gen.FnS.LunarUtil_GetTimeYi dp tp := by
  unfold Gen.FnS.calendar_LunarTime_GetYi
  rw [sd_dayInGanZhiExact, sd_lunarTimeGanZhi]

theorem lunarTimeGetJi_factor :
    Gen.FnS.calendar_LunarTime_GetJi lt
      = sd_pillar lt.lunar.dayGanIndexExact lt.lunar.dayZhiIndexExact >>= fun dp =>
        sd_pillar lt.ganIndex lt.zhiIndex >>= fun tp => Gen.FnS.LunarUtil_GetTimeJi dp tp := by
  unfold Gen.FnS.calendar_LunarTime_GetJi
  rw [sd_dayInGanZhiExact, sd_lunarTimeGanZhi]

/-- the two routes to the hour's suitable list agree (no index guards: both sides panic together) -/
theorem lunarTimeGetYi_eq_lunarGetTimeYi
    (hg : lt.ganIndex = lt.lunar.timeGanIndex) (hz : lt.zhiIndex = lt.lunar.timeZhiIndex) :
    Gen.FnS.calendar_LunarTime_GetYi lt = Gen.FnS.calendar_Lunar_GetTimeYi lt.lunar := by
  rw [lunarTimeGetYi_factor, lunarGetTimeYi_factor, hg, hz]

theorem lunarTimeGetJi_eq_lunarGetTimeJi
    (hg : lt.ganIndex = lt.lunar.timeGanIndex) (hz : lt.zhiIndex = lt.lunar.timeZhiIndex) :
    Gen.FnS.calendar_LunarTime_GetJi lt = Gen.FnS.calendar_Lunar_GetTimeJi lt.lunar := by
  rw [lunarTimeGetJi_factor, lunarGetTimeJi_factor, hg, hz]

end

/-! #### guarded forms (`pillarStr`), panics outside the guards -/

section
variable (l : Gen.FnS.Lunar)

theorem lunarGetDayJiShen_eq (g0 : -1 ≤ l.dayGanIndex) (g1 : l.dayGanIndex < 10)
    (z0 : -1 ≤ l.dayZhiIndex) (z1 : l.dayZhiIndex < 12) :
    Gen.FnS.calendar_Lunar_GetDayJiShen l
      = Gen.FnS.LunarUtil_GetDayJiShen l.month (pillarStr l.dayGanIndex l.dayZhiIndex) := by
  rw [lunarGetDayJiShen_factor, sd_pillar_ok _ _ g0 g1 z0 z1, sb_bind_ok]

theorem lunarGetDayXiongSha_eq (g0 : -1 ≤ l.dayGanIndex) (g1 : l.dayGanIndex < 10)
    (z0 : -1 ≤ l.dayZhiIndex) (z1 : l.dayZhiIndex < 12) :
    Gen.FnS.calendar_Lunar_GetDayXiongSha l
      = Gen.FnS.LunarUtil_GetDayXiongSha l.month (pillarStr l.dayGanIndex l.dayZhiIndex) := by
  rw [lunarGetDayXiongSha_factor, sd_pillar_ok _ _ g0 g1 z0 z1, sb_bind_ok]

theorem lunarGetDayJiShen_panic
    (h : l.dayGanIndex < -1 ∨ 10 ≤ l.dayGanIndex ∨ l.dayZhiIndex < -1 ∨ 12 ≤ l.dayZhiIndex) :
    Gen.FnS.calendar_Lunar_GetDayJiShen l = .error .panic := by
  rw [lunarGetDayJiShen_factor, sd_pillar_panic _ _ h, sb_bind_err]

theorem lunarGetDayXiongSha_panic
    (h : l.dayGanIndex < -1 ∨ 10 ≤ l.dayGanIndex ∨ l.dayZhiIndex < -1 ∨ 12 ≤ l.dayZhiIndex) :
    Gen.FnS.calendar_Lunar_GetDayXiongSha l = .error .panic := by
  rw [lunarGetDayXiongSha_factor, sd_pillar_panic _ _ h, sb_bind_err]

/-- the month pillar string `GetDayYi/JiBySect` hands to the decoder: sect 2 → the exact month pillar
(changes at the solar term's instant), every other sect → the day-based month pillar -/
def sd_monthPillarBySect (l : Gen.FnS.Lunar) (sect : Int) : String :=
  if sect = 2 then pillarStr l.monthGanIndexExact l.monthZhiIndexExact
  else pillarStr l.monthGanIndex l.monthZhiIndex

/-- guards: the day-based month pillar is computed for EVERY sect (so its indices must be in range
even for sect 2), the exact one only for sect 2 -/
theorem lunarGetDayYiBySect_eq (fuel : Nat) (sect : Int)
    (mg0 : -1 ≤ l.monthGanIndex) (mg1 : l.monthGanIndex < 10)
    (mz0 : -1 ≤ l.monthZhiIndex) (mz1 : l.monthZhiIndex < 12)
    (hx : sect = 2 → (-1 ≤ l.monthGanIndexExact ∧ l.monthGanIndexExact < 10)
                    ∧ (-1 ≤ l.monthZhiIndexExact ∧ l.monthZhiIndexExact < 12))
    (g0 : -1 ≤ l.dayGanIndex) (g1 : l.dayGanIndex < 10)
    (z0 : -1 ≤ l.dayZhiIndex) (z1 : l.dayZhiIndex < 12) :
    Gen.FnS.calendar_Lunar_GetDayYiBySect fuel l sect
      = Gen.FnS.LunarUtil_GetDayYi fuel (sd_monthPillarBySect l sect) (pillarStr l.dayGanIndex l.dayZhiIndex) := by
  rw [lunarGetDayYiBySect_factor, sd_pillar_ok _ _ mg0 mg1 mz0 mz1, sb_bind_ok,
    sd_pillar_ok _ _ g0 g1 z0 z1]
  unfold sd_monthPillarBySect
  by_cases h : sect = 2
  · obtain ⟨⟨a, b⟩, c, d⟩ := hx h
    rw [if_pos h, if_pos h, sd_pillar_ok _ _ a b c d, sb_bind_ok, sb_bind_ok]
  · rw [if_neg h, if_neg h]; rfl

theorem lunarGetDayJiBySect_eq (fuel : Nat) (sect : Int)
    (mg0 : -1 ≤ l.monthGanIndex) (mg1 : l.monthGanIndex < 10)
    (mz0 : -1 ≤ l.monthZhiIndex) (mz1 : l.monthZhiIndex < 12)
    (hx : sect = 2 → (-1 ≤ l.monthGanIndexExact ∧ l.monthGanIndexExact < 10)
                    ∧ (-1 ≤ l.monthZhiIndexExact ∧ l.monthZhiIndexExact < 12))
    (g0 : -1 ≤ l.dayGanIndex) (g1 : l.dayGanIndex < 10)
    (z0 : -1 ≤ l.dayZhiIndex) (z1 : l.dayZhiIndex < 12) :
    Gen.FnS.calendar_Lunar_GetDayJiBySect fuel l sect
      = Gen.FnS.LunarUtil_GetDayJi fuel (sd_monthPillarBySect l sect) (pillarStr l.dayGanIndex l.dayZhiIndex) := by
  rw [lunarGetDayJiBySect_factor, sd_pillar_ok _ _ mg0 mg1 mz0 mz1, sb_bind_ok,
    sd_pillar_ok _ _ g0 g1 z0 z1]
  unfold sd_monthPillarBySect
  by_cases h : sect = 2
  · obtain ⟨⟨a, b⟩, c, d⟩ := hx h
    rw [if_pos h, if_pos h, sd_pillar_ok _ _ a b c d, sb_bind_ok, sb_bind_ok]
  · rw [if_neg h, if_neg h]; rfl

theorem lunarGetDayYi_eq (fuel : Nat)
    (mg0 : -1 ≤ l.monthGanIndex) (mg1 : l.monthGanIndex < 10)
    (mz0 : -1 ≤ l.monthZhiIndex) (mz1 : l.monthZhiIndex < 12)
    (g0 : -1 ≤ l.dayGanIndex) (g1 : l.dayGanIndex < 10)
    (z0 : -1 ≤ l.dayZhiIndex) (z1 : l.dayZhiIndex < 12) :
    Gen.FnS.calendar_Lunar_GetDayYi fuel l
      = Gen.FnS.LunarUtil_GetDayYi fuel (pillarStr l.monthGanIndex l.monthZhiIndex)
          (pillarStr l.dayGanIndex l.dayZhiIndex) := by
  rw [lunarGetDayYi_eq_bySect, lunarGetDayYiBySect_eq l fuel 1 mg0 mg1 mz0 mz1 (by omega) g0 g1 z0 z1]
  rfl

theorem lunarGetDayJi_eq (fuel : Nat)
    (mg0 : -1 ≤ l.monthGanIndex) (mg1 : l.monthGanIndex < 10)
    (mz0 : -1 ≤ l.monthZhiIndex) (mz1 : l.monthZhiIndex < 12)
    (g0 : -1 ≤ l.dayGanIndex) (g1 : l.dayGanIndex < 10)
    (z0 : -1 ≤ l.dayZhiIndex) (z1 : l.dayZhiIndex < 12) :
    Gen.FnS.calendar_Lunar_GetDayJi fuel l
      = Gen.FnS.LunarUtil_GetDayJi fuel (pillarStr l.monthGanIndex l.monthZhiIndex)
          (pillarStr l.dayGanIndex l.dayZhiIndex) := by
  rw [lunarGetDayJi_eq_bySect, lunarGetDayJiBySect_eq l fuel 1 mg0 mg1 mz0 mz1 (by omega) g0 g1 z0 z1]
  rfl

/-- outside the month-pillar guard the accessor panics whatever `sect` is (Go computes
`GetMonthInGanZhi()` first, unconditionally) -/
theorem lunarGetDayYiBySect_panic_month (fuel : Nat) (sect : Int)
    (h : l.monthGanIndex < -1 ∨ 10 ≤ l.monthGanIndex ∨ l.monthZhiIndex < -1 ∨ 12 ≤ l.monthZhiIndex) :
    Gen.FnS.calendar_Lunar_GetDayYiBySect fuel l sect = .error .panic := by
  rw [lunarGetDayYiBySect_factor, sd_pillar_panic _ _ h, sb_bind_err]
theorem lunarGetDayJiBySect_panic_month (fuel : Nat) (sect : Int)
    (h : l.monthGanIndex < -1 ∨ 10 ≤ l.monthGanIndex ∨ l.monthZhiIndex < -1 ∨ 12 ≤ l.monthZhiIndex) :
    Gen.FnS.calendar_Lunar_GetDayJiBySect fuel l sect = .error .panic := by
  rw [lunarGetDayJiBySect_factor, sd_pillar_panic _ _ h, sb_bind_err]

theorem lunarGetTimeYi_eq (g0 : -1 ≤ l.dayGanIndexExact) (g1 : l.dayGanIndexExact < 10)
    (z0 : -1 ≤ l.dayZhiIndexExact) (z1 : l.dayZhiIndexExact < 12)
    (tg0 : -1 ≤ l.timeGanIndex) (tg1 : l.timeGanIndex < 10)
    (tz0 : -1 ≤ l.timeZhiIndex) (tz1 : l.timeZhiIndex < 12) :
    Gen.FnS.calendar_Lunar_GetTimeYi l
      = Gen.FnS.LunarUtil_GetTimeYi (pillarStr l.dayGanIndexExact l.dayZhiIndexExact)
          (pillarStr l.timeGanIndex l.timeZhiIndex) := by
  rw [lunarGetTimeYi_factor, sd_pillar_ok _ _ g0 g1 z0 z1, sb_bind_ok, sd_pillar_ok _ _ tg0 tg1 tz0 tz1,
    sb_bind_ok]

theorem lunarGetTimeJi_eq (g0 : -1 ≤ l.dayGanIndexExact) (g1 : l.dayGanIndexExact < 10)
    (z0 : -1 ≤ l.dayZhiIndexExact) (z1 : l.dayZhiIndexExact < 12)
    (tg0 : -1 ≤ l.timeGanIndex) (tg1 : l.timeGanIndex < 10)
    (tz0 : -1 ≤ l.timeZhiIndex) (tz1 : l.timeZhiIndex < 12) :
    Gen.FnS.calendar_Lunar_GetTimeJi l
      = Gen.FnS.LunarUtil_GetTimeJi (pillarStr l.dayGanIndexExact l.dayZhiIndexExact)
          (pillarStr l.timeGanIndex l.timeZhiIndex) := by
  rw [lunarGetTimeJi_factor, sd_pillar_ok _ _ g0 g1 z0 z1, sb_bind_ok, sd_pillar_ok _ _ tg0 tg1 tz0 tz1,
    sb_bind_ok]

end

section
variable (lt : Gen.FnS.LunarTime)

theorem lunarTimeGetYi_eq (g0 : -1 ≤ lt.lunar.dayGanIndexExact) (g1 : lt.lunar.dayGanIndexExact < 10)
    (z0 : -1 ≤ lt.lunar.dayZhiIndexExact) (z1 : lt.lunar.dayZhiIndexExact < 12)
    (tg0 : -1 ≤ lt.ganIndex) (tg1 : lt.ganIndex < 10) (tz0 : -1 ≤ lt.zhiIndex) (tz1 : lt.zhiIndex < 12) :
    Gen.FnS.calendar_LunarTime_GetYi lt
      = Gen.FnS.LunarUtil_GetTimeYi (pillarStr lt.lunar.dayGanIndexExact lt.lunar.dayZhiIndexExact)
          (pillarStr lt.ganIndex lt.zhiIndex) := by
  rw [lunarTimeGetYi_factor, sd_pillar_ok _ _ g0 g1 z0 z1, sb_bind_ok, sd_pillar_ok _ _ tg0 tg1 tz0 tz1,
    sb_bind_ok]

theorem lunarTimeGetJi_eq (g0 : -1 ≤ lt.lunar.dayGanIndexExact) (g1 : lt.lunar.dayGanIndexExact < 10)
    (z0 : -1 ≤ lt.lunar.dayZhiIndexExact) (z1 : lt.lunar.dayZhiIndexExact < 12)
    (tg0 : -1 ≤ lt.ganIndex) (tg1 : lt.ganIndex < 10) (tz0 : -1 ≤ lt.zhiIndex) (tz1 : lt.zhiIndex < 12) :
    Gen.FnS.calendar_LunarTime_GetJi lt
      = Gen.FnS.LunarUtil_GetTimeJi (pillarStr lt.lunar.dayGanIndexExact lt.lunar.dayZhiIndexExact)
          (pillarStr lt.ganIndex lt.zhiIndex) := by
  rw [lunarTimeGetJi_factor, sd_pillar_ok _ _ g0 g1 z0 z1, sb_bind_ok, sd_pillar_ok _ _ tg0 tg1 tz0 tz1,
    sb_bind_ok]

end

/-! #### congruence corollaries (guard-free): the accessors are functions of their defining inputs -/

theorem lunarGetDayJiShen_congr (l l' : Gen.FnS.Lunar) (hm : l.month = l'.month)
    (hg : l.dayGanIndex = l'.dayGanIndex) (hz : l.dayZhiIndex = l'.dayZhiIndex) :
    Gen.FnS.calendar_Lunar_GetDayJiShen l = Gen.FnS.calendar_Lunar_GetDayJiShen l' := by
  rw [lunarGetDayJiShen_factor, lunarGetDayJiShen_factor, hm, hg, hz]

theorem lunarGetDayXiongSha_congr (l l' : Gen.FnS.Lunar) (hm : l.month = l'.month)
    (hg : l.dayGanIndex = l'.dayGanIndex) (hz : l.dayZhiIndex = l'.dayZhiIndex) :
    Gen.FnS.calendar_Lunar_GetDayXiongSha l = Gen.FnS.calendar_Lunar_GetDayXiongSha l' := by
  rw [lunarGetDayXiongSha_factor, lunarGetDayXiongSha_factor, hm, hg, hz]

theorem lunarGetDayYiBySect_congr (fuel : Nat) (sect : Int) (l l' : Gen.FnS.Lunar)
    (hmg : l.monthGanIndex = l'.monthGanIndex) (hmz : l.monthZhiIndex = l'.monthZhiIndex)
    (hxg : l.monthGanIndexExact = l'.monthGanIndexExact) (hxz : l.monthZhiIndexExact = l'.monthZhiIndexExact)
    (hg : l.dayGanIndex = l'.dayGanIndex) (hz : l.dayZhiIndex = l'.dayZhiIndex) :
    Gen.FnS.calendar_Lunar_GetDayYiBySect fuel l sect = Gen.FnS.calendar_Lunar_GetDayYiBySect fuel l' sect := by
  rw [lunarGetDayYiBySect_factor, lunarGetDayYiBySect_factor, hmg, hmz, hxg, hxz, hg, hz]

theorem lunarGetDayJiBySect_congr (fuel : Nat) (sect : Int) (l l' : Gen.FnS.Lunar)
    (hmg : l.monthGanIndex = l'.monthGanIndex) (hmz : l.monthZhiIndex = l'.monthZhiIndex)
    (hxg : l.monthGanIndexExact = l'.monthGanIndexExact) (hxz : l.monthZhiIndexExact = l'.monthZhiIndexExact)
    (hg : l.dayGanIndex = l'.dayGanIndex) (hz : l.dayZhiIndex = l'.dayZhiIndex) :
    Gen.FnS.calendar_Lunar_GetDayJiBySect fuel l sect = Gen.FnS.calendar_Lunar_GetDayJiBySect fuel l' sect := by
  rw [lunarGetDayJiBySect_factor, lunarGetDayJiBySect_factor, hmg, hmz, hxg, hxz, hg, hz]

/-- for a sect other than 2 (in particular for plain `GetDayYi`) the exact month pillar is not read -/
theorem lunarGetDayYiBySect_congr' (fuel : Nat) (sect : Int) (hs : sect ≠ 2) (l l' : Gen.FnS.Lunar)
    (hmg : l.monthGanIndex = l'.monthGanIndex) (hmz : l.monthZhiIndex = l'.monthZhiIndex)
    (hg : l.dayGanIndex = l'.dayGanIndex) (hz : l.dayZhiIndex = l'.dayZhiIndex) :
    Gen.FnS.calendar_Lunar_GetDayYiBySect fuel l sect = Gen.FnS.calendar_Lunar_GetDayYiBySect fuel l' sect := by
  rw [lunarGetDayYiBySect_factor, lunarGetDayYiBySect_factor, hmg, hmz, hg, hz]
  simp only [if_neg hs]

theorem lunarGetDayJiBySect_congr' (fuel : Nat) (sect : Int) (hs : sect ≠ 2) (l l' : Gen.FnS.Lunar)
    (hmg : l.monthGanIndex = l'.monthGanIndex) (hmz : l.monthZhiIndex = l'.monthZhiIndex)
    (hg : l.dayGanIndex = l'.dayGanIndex) (hz : l.dayZhiIndex = l'.dayZhiIndex) :
    Gen.FnS.calendar_Lunar_GetDayJiBySect fuel l sect = Gen.FnS.calendar_Lunar_GetDayJiBySect fuel l' sect := by
  rw [lunarGetDayJiBySect_factor, lunarGetDayJiBySect_factor, hmg, hmz, hg, hz]
  simp only [if_neg hs]

theorem lunarGetDayYi_congr (fuel : Nat) (l l' : Gen.FnS.Lunar)
    (hmg : l.monthGanIndex = l'.monthGanIndex) (hmz : l.monthZhiIndex = l'.monthZhiIndex)
    (hg : l.dayGanIndex = l'.dayGanIndex) (hz : l.dayZhiIndex = l'.dayZhiIndex) :
    Gen.FnS.calendar_Lunar_GetDayYi fuel l = Gen.FnS.calendar_Lunar_GetDayYi fuel l' := by
  rw [lunarGetDayYi_eq_bySect, lunarGetDayYi_eq_bySect]
  exact lunarGetDayYiBySect_congr' fuel 1 (by omega) l l' hmg hmz hg hz

theorem lunarGetDayJi_congr (fuel : Nat) (l l' : Gen.FnS.Lunar)
    (hmg : l.monthGanIndex = l'.monthGanIndex) (hmz : l.monthZhiIndex = l'.monthZhiIndex)
    (hg : l.dayGanIndex = l'.dayGanIndex) (hz : l.dayZhiIndex = l'.dayZhiIndex) :
    Gen.FnS.calendar_Lunar_GetDayJi fuel l = Gen.FnS.calendar_Lunar_GetDayJi fuel l' := by
  rw [lunarGetDayJi_eq_bySect, lunarGetDayJi_eq_bySect]
  exact lunarGetDayJiBySect_congr' fuel 1 (by omega) l l' hmg hmz hg hz

theorem lunarGetTimeYi_congr (l l' : Gen.FnS.Lunar)
    (hg : l.dayGanIndexExact = l'.dayGanIndexExact) (hz : l.dayZhiIndexExact = l'.dayZhiIndexExact)
    (htg : l.timeGanIndex = l'.timeGanIndex) (htz : l.timeZhiIndex = l'.timeZhiIndex) :
    Gen.FnS.calendar_Lunar_GetTimeYi l = Gen.FnS.calendar_Lunar_GetTimeYi l' := by
  rw [lunarGetTimeYi_factor, lunarGetTimeYi_factor, hg, hz, htg, htz]

theorem lunarGetTimeJi_congr (l l' : Gen.FnS.Lunar)
    (hg : l.dayGanIndexExact = l'.dayGanIndexExact) (hz : l.dayZhiIndexExact = l'.dayZhiIndexExact)
    (htg : l.timeGanIndex = l'.timeGanIndex) (htz : l.timeZhiIndex = l'.timeZhiIndex) :
    Gen.FnS.calendar_Lunar_GetTimeJi l = Gen.FnS.calendar_Lunar_GetTimeJi l' := by
  rw [lunarGetTimeJi_factor, lunarGetTimeJi_factor, hg, hz, htg, htz]

/-! ### 3. the decoders never return an empty list

Every control path of the six decoders ends in `if len(l) < 1 { l = append(l, "无") }; return l`
(or in an error).  `sd_NE e` says: whenever `e` is a normal result, the list is non-empty; it is
closed under `>>=` (in the continuation), `if`, errors, and holds for that final block. -/

def sd_NE (e : Except Err (List String)) : Prop := ∀ r, e = .ok r → r ≠ []

theorem sd_NE_bind {α : Type} (x : Except Err α) (f : α → Except Err (List String))
    (h : ∀ a, sd_NE (f a)) : sd_NE (x >>= f) := by
  intro r hr
  cases x with
  | error e => cases hr
  | ok a => exact h a r hr

theorem sd_NE_ite (c : Prop) [Decidable c] (a b : Except Err (List String)) (ha : sd_NE a) (hb : sd_NE b) :
    sd_NE (if c then a else b) := by
  by_cases h : c
  · rw [if_pos h]; exact ha
  · rw [if_neg h]; exact hb

theorem sd_NE_fin (l : List String) :
    sd_NE (if decide ((l.length : Int) < 1) = true then (pure (l ++ ["无"]) : Except Err (List String)) else pure l) := by
  intro r hr
  by_cases h : decide ((l.length : Int) < 1) = true
  · rw [if_pos h] at hr; cases hr; simp
  · rw [if_neg h] at hr; cases hr
    intro hl; subst hl; exact h (by decide)

macro "sd_ne_tac" : tactic =>
  `(tactic| repeat' (first
      | with_reducible exact sd_NE_fin _
      | (with_reducible apply sd_NE_bind; intro _)
      | with_reducible apply sd_NE_ite))

theorem sd_dayJiShen_NE (m : Int) (p : String) : sd_NE (Gen.FnS.LunarUtil_GetDayJiShen m p) := by
  unfold Gen.FnS.LunarUtil_GetDayJiShen
  dsimp only
  sd_ne_tac

theorem sd_dayXiongSha_NE (m : Int) (p : String) : sd_NE (Gen.FnS.LunarUtil_GetDayXiongSha m p) := by
  unfold Gen.FnS.LunarUtil_GetDayXiongSha
  dsimp only
  sd_ne_tac

theorem sd_timeYi_NE (d t : String) : sd_NE (Gen.FnS.LunarUtil_GetTimeYi d t) := by
  unfold Gen.FnS.LunarUtil_GetTimeYi
  dsimp only
  sd_ne_tac

theorem sd_timeJi_NE (d t : String) : sd_NE (Gen.FnS.LunarUtil_GetTimeJi d t) := by
  unfold Gen.FnS.LunarUtil_GetTimeJi
  dsimp only
  sd_ne_tac

theorem sd_dayYi_NE (fuel : Nat) (m d : String) : sd_NE (Gen.FnS.LunarUtil_GetDayYi fuel m d) := by
  unfold Gen.FnS.LunarUtil_GetDayYi
  dsimp only
  sd_ne_tac

theorem sd_dayJi_NE (fuel : Nat) (m d : String) : sd_NE (Gen.FnS.LunarUtil_GetDayJi fuel m d) := by
  unfold Gen.FnS.LunarUtil_GetDayJi
  dsimp only
  sd_ne_tac

/-- the six decoders -/
theorem dayJiShen_ne_nil (m : Int) (p : String) (r : List String)
    (h : Gen.FnS.LunarUtil_GetDayJiShen m p = .ok r) : r ≠ [] := sd_dayJiShen_NE m p r h
theorem dayXiongSha_ne_nil (m : Int) (p : String) (r : List String)
    (h : Gen.FnS.LunarUtil_GetDayXiongSha m p = .ok r) : r ≠ [] := sd_dayXiongSha_NE m p r h
theorem dayYi_ne_nil (fuel : Nat) (mp dp : String) (r : List String)
    (h : Gen.FnS.LunarUtil_GetDayYi fuel mp dp = .ok r) : r ≠ [] := sd_dayYi_NE fuel mp dp r h
theorem dayJi_ne_nil (fuel : Nat) (mp dp : String) (r : List String)
    (h : Gen.FnS.LunarUtil_GetDayJi fuel mp dp = .ok r) : r ≠ [] := sd_dayJi_NE fuel mp dp r h
theorem timeYi_ne_nil (dp tp : String) (r : List String)
    (h : Gen.FnS.LunarUtil_GetTimeYi dp tp = .ok r) : r ≠ [] := sd_timeYi_NE dp tp r h
theorem timeJi_ne_nil (dp tp : String) (r : List String)
    (h : Gen.FnS.LunarUtil_GetTimeJi dp tp = .ok r) : r ≠ [] := sd_timeJi_NE dp tp r h

/-- … hence the accessors (guard-free: they are `pillar computations >>= decoder`) -/
theorem lunarGetDayJiShen_ne_nil (l : Gen.FnS.Lunar) (r : List String)
    (h : Gen.FnS.calendar_Lunar_GetDayJiShen l = .ok r) : r ≠ [] := by
  rw [lunarGetDayJiShen_factor] at h
  exact sd_NE_bind _ _ (fun p => sd_dayJiShen_NE _ p) r h
theorem lunarGetDayXiongSha_ne_nil (l : Gen.FnS.Lunar) (r : List String)
    (h : Gen.FnS.calendar_Lunar_GetDayXiongSha l = .ok r) : r ≠ [] := by
  rw [lunarGetDayXiongSha_factor] at h
  exact sd_NE_bind _ _ (fun p => sd_dayXiongSha_NE _ p) r h
theorem lunarGetDayYiBySect_ne_nil (fuel : Nat) (l : Gen.FnS.Lunar) (sect : Int) (r : List String)
    (h : Gen.FnS.calendar_Lunar_GetDayYiBySect fuel l sect = .ok r) : r ≠ [] := by
  rw [lunarGetDayYiBySect_factor] at h
  exact sd_NE_bind _ _ (fun _ => sd_NE_bind _ _ (fun _ => sd_NE_bind _ _ (fun _ => sd_dayYi_NE _ _ _))) r h
theorem lunarGetDayJiBySect_ne_nil (fuel : Nat) (l : Gen.FnS.Lunar) (sect : Int) (r : List String)
    (h : Gen.FnS.calendar_Lunar_GetDayJiBySect fuel l sect = .ok r) : r ≠ [] := by
  rw [lunarGetDayJiBySect_factor] at h
  exact sd_NE_bind _ _ (fun _ => sd_NE_bind _ _ (fun _ => sd_NE_bind _ _ (fun _ => sd_dayJi_NE _ _ _))) r h
theorem lunarGetDayYi_ne_nil (fuel : Nat) (l : Gen.FnS.Lunar) (r : List String)
    (h : Gen.FnS.calendar_Lunar_GetDayYi fuel l = .ok r) : r ≠ [] :=
  lunarGetDayYiBySect_ne_nil fuel l 1 r h
theorem lunarGetDayJi_ne_nil (fuel : Nat) (l : Gen.FnS.Lunar) (r : List String)
    (h : Gen.FnS.calendar_Lunar_GetDayJi fuel l = .ok r) : r ≠ [] :=
  lunarGetDayJiBySect_ne_nil fuel l 1 r h
theorem lunarGetTimeYi_ne_nil (l : Gen.FnS.Lunar) (r : List String)
    (h : Gen.FnS.calendar_Lunar_GetTimeYi l = .ok r) : r ≠ [] := by
  rw [lunarGetTimeYi_factor] at h
  exact sd_NE_bind _ _ (fun _ => sd_NE_bind _ _ (fun _ => sd_timeYi_NE _ _)) r h
theorem lunarGetTimeJi_ne_nil (l : Gen.FnS.Lunar) (r : List String)
    (h : Gen.FnS.calendar_Lunar_GetTimeJi l = .ok r) : r ≠ [] := by
  rw [lunarGetTimeJi_factor] at h
  exact sd_NE_bind _ _ (fun _ => sd_NE_bind _ _ (fun _ => sd_timeJi_NE _ _)) r h
theorem lunarTimeGetYi_ne_nil (lt : Gen.FnS.LunarTime) (r : List String)
    (h : Gen.FnS.calendar_LunarTime_GetYi lt = .ok r) : r ≠ [] := by
  rw [lunarTimeGetYi_factor] at h
  exact sd_NE_bind _ _ (fun _ => sd_NE_bind _ _ (fun _ => sd_timeYi_NE _ _)) r h
theorem lunarTimeGetJi_ne_nil (lt : Gen.FnS.LunarTime) (r : List String)
    (h : Gen.FnS.calendar_LunarTime_GetJi lt = .ok r) : r ≠ [] := by
  rw [lunarTimeGetJi_factor] at h
  exact sd_NE_bind _ _ (fun _ => sd_NE_bind _ _ (fun _ => sd_timeJi_NE _ _)) r h

section Axioms
#print axioms dayJiShen_neg
#print axioms dayXiongSha_neg
#print axioms dayJiShen_leap
#print axioms dayXiongSha_leap
#print axioms lunarGetDayJiShen_factor
#print axioms lunarGetDayXiongSha_factor
#print axioms lunarGetDayYiBySect_factor
#print axioms lunarGetDayJiBySect_factor
#print axioms lunarGetDayYi_eq_bySect
#print axioms lunarGetDayJi_eq_bySect
#print axioms lunarGetTimeYi_factor
#print axioms lunarGetTimeJi_factor
#print axioms lunarTimeGetYi_factor
#print axioms lunarTimeGetJi_factor
#print axioms lunarTimeGetYi_eq_lunarGetTimeYi
#print axioms lunarTimeGetJi_eq_lunarGetTimeJi
#print axioms lunarGetDayJiShen_eq
#print axioms lunarGetDayXiongSha_eq
#print axioms lunarGetDayJiShen_panic
#print axioms lunarGetDayXiongSha_panic
#print axioms lunarGetDayYiBySect_eq
#print axioms lunarGetDayJiBySect_eq
#print axioms lunarGetDayYi_eq
#print axioms lunarGetDayJi_eq
#print axioms lunarGetDayYiBySect_panic_month
#print axioms lunarGetDayJiBySect_panic_month
#print axioms lunarGetTimeYi_eq
#print axioms lunarGetTimeJi_eq
#print axioms lunarTimeGetYi_eq
#print axioms lunarTimeGetJi_eq
#print axioms lunarGetDayJiShen_congr
#print axioms lunarGetDayXiongSha_congr
#print axioms lunarGetDayYiBySect_congr
#print axioms lunarGetDayJiBySect_congr
#print axioms lunarGetDayYiBySect_congr'
#print axioms lunarGetDayJiBySect_congr'
#print axioms lunarGetDayYi_congr
#print axioms lunarGetDayJi_congr
#print axioms lunarGetTimeYi_congr
#print axioms lunarGetTimeJi_congr
#print axioms dayJiShen_ne_nil
#print axioms dayXiongSha_ne_nil
#print axioms dayYi_ne_nil
#print axioms dayJi_ne_nil
#print axioms timeYi_ne_nil
#print axioms timeJi_ne_nil
#print axioms lunarGetDayJiShen_ne_nil
#print axioms lunarGetDayXiongSha_ne_nil
#print axioms lunarGetDayYiBySect_ne_nil
#print axioms lunarGetDayJiBySect_ne_nil
#print axioms lunarGetDayYi_ne_nil
#print axioms lunarGetDayJi_ne_nil
#print axioms lunarGetTimeYi_ne_nil
#print axioms lunarGetTimeJi_ne_nil
#print axioms lunarTimeGetYi_ne_nil
#print axioms lunarTimeGetJi_ne_nil
end Axioms
end FnSEq
