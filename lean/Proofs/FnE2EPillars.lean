/-
Proofs.FnE2EPillars — end-to-end corollaries on the GENERATED compute sequence (hour branch, day pillar from the day number, five-rats rule, 60-cycle step, year pillars).
-/
import Proofs.CivilStep
import Proofs.CivilArith
import Proofs.FnCivil1
import Proofs.FnCivil2
import Proofs.Pillars
import Proofs.FnPillars
import Proofs.FnE2ECivil

namespace FnE2E

open FnEq

/-! ## 5. Pillars on the generated `compute` sequence -/

/-- the atoms (untranslated sub-expressions) of the five generated steps
`computeYear … computeWeek`, in the order of `FnEq.compute_steps_eq` -/
structure ComputeAtoms where
  y1 : Gen.Fn.Solar
  y2 : Gen.Fn.Solar
  y3 : Int
  y4 : Int
  y5 : Int
  y6 : Int
  m1 : Int → Gen.Fn.Solar
  m2 : Int → Bool
  m3 : Int → Int
  m4 : Int → Int
  m5 : Int → Gen.Fn.Solar
  m6 : Int → Bool
  m7 : Int → Int
  m8 : Int → Int
  d1 : Int
  d2 : Int
  d3 : Int
  t1 : Int
  w1 : Int

/-- Go's `compute` after `computeJieQi`: the five generated steps in sequence. -/
def computeSteps (A : ComputeAtoms) (l : Gen.Fn.Lunar) : Except Gen.Fn.Err Gen.Fn.Lunar := do
  let l1 ← Gen.Fn.calendar_computeYear A.y1 A.y2 A.y3 A.y4 A.y5 A.y6 l
  let l2 ← Gen.Fn.calendar_computeMonth A.m1 A.m2 A.m3 A.m4 A.m5 A.m6 A.m7 A.m8 l1
  let l3 ← Gen.Fn.calendar_computeDay A.d1 A.d2 A.d3 l2
  let l4 ← Gen.Fn.calendar_computeTime A.t1 l3
  Gen.Fn.calendar_computeWeek A.w1 l4

/-- every atom means what its Go source text says, on the input struct `l` and the term table
`ya.terms` (exactly the hypotheses of `FnEq.compute_steps_eq`) -/
structure ComputeAtomsOk (ya : Model.YearAstro) (A : ComputeAtoms) (l : Gen.Fn.Lunar) : Prop where
  hv : Model.validYmd l.solar.year l.solar.month l.solar.day = true
  h0 : 11 ≤ Model.jdn l.solar.year l.solar.month l.solar.day
  hy1 : pl_toM A.y1 = Model.termByName ya.terms "立春"
  hy2 : pl_toM A.y2 = Model.termByName ya.terms "LI_CHUN"
  hy3 : pl_CmpSpec A.y3 (pl_toM l.solar).toYmd (pl_toM (pl_liChunG A.y1 A.y2 l)).toYmd
  hy4 : pl_CmpSpec A.y4 (pl_toM l.solar).toYmdHms (pl_toM (pl_liChunG A.y1 A.y2 l)).toYmdHms
  hy5 : pl_CmpSpec A.y5 (pl_toM l.solar).toYmd (pl_toM (pl_liChunG A.y1 A.y2 l)).toYmd
  hy6 : pl_CmpSpec A.y6 (pl_toM l.solar).toYmdHms (pl_toM (pl_liChunG A.y1 A.y2 l)).toYmdHms
  hm3 : ∀ k : Nat, k < 16 → pl_CmpSpec (A.m3 (2 * (k : Int))) (pl_toM l.solar).toYmd
      (pl_startKey Model.Solar.toYmd (pl_toM l.solar).toYmd ya.terms k)
  hm4 : ∀ k : Nat, k < 16 → pl_CmpSpec (A.m4 (2 * (k : Int))) (pl_toM l.solar).toYmd
      (pl_jieAt ya.terms (2 * k)).toYmd
  hm7 : ∀ k : Nat, k < 16 → pl_CmpSpec (A.m7 (2 * (k : Int))) (pl_toM l.solar).toYmdHms
      (pl_startKey Model.Solar.toYmdHms (pl_toM l.solar).toYmdHms ya.terms k)
  hm8 : ∀ k : Nat, k < 16 → pl_CmpSpec (A.m8 (2 * (k : Int))) (pl_toM l.solar).toYmdHms
      (pl_jieAt ya.terms (2 * k)).toYmdHms
  hd1 : A.d1 = Model.jdn l.solar.year l.solar.month l.solar.day - 11
  hd2 : pl_CmpSpec A.d2 (Model.fmtHm l.hour l.minute) ['2', '3', ':', '0', '0']
  hd3 : pl_CmpSpec A.d3 (Model.fmtHm l.hour l.minute) ['2', '3', ':', '5', '9']
  ht1 : A.t1 = Model.timeZhiIndexOf l.hour l.minute
  hw1 : A.w1 = (pl_toM l.solar).week

/-- `FnEq.compute_steps_eq` in bundled form. -/
theorem computeSteps_eq (ya : Model.YearAstro) (A : ComputeAtoms) (l : Gen.Fn.Lunar)
    (h : ComputeAtomsOk ya A l) :
    computeSteps A l =
      .ok (pl_ofLunar (Model.computeAll l.year l.month l.day l.hour l.minute l.second
            (pl_toM l.solar) ya) l.solar l.eightChar) :=
  compute_steps_eq ya A.y1 A.y2 A.y3 A.y4 A.y5 A.y6 A.m1 A.m2 A.m3 A.m4 A.m5 A.m6 A.m7 A.m8
    A.d1 A.d2 A.d3 A.t1 A.w1 l h.hv h.h0 h.hy1 h.hy2 h.hy3 h.hy4 h.hy5 h.hy6 h.hm3 h.hm4 h.hm7 h.hm8
    h.hd1 h.hd2 h.hd3 h.ht1 h.hw1

/-- the day fields of `Model.computeAll` are the components of `Model.computeDay` -/
theorem e2e_computeAll_day (ly lm ld h mi sec : Int) (s : Model.Solar) (ya : Model.YearAstro) :
    let m := Model.computeAll ly lm ld h mi sec s ya
    let r := Model.computeDay s h mi
    m.dayGanIndex = r.1 ∧ m.dayZhiIndex = r.2.1 ∧ m.dayGanIndexExact = r.2.2.1 ∧
    m.dayZhiIndexExact = r.2.2.2.1 ∧ m.dayGanIndexExact2 = r.2.2.2.2.1 ∧
    m.dayZhiIndexExact2 = r.2.2.2.2.2 := by
  simp only [Model.computeAll, and_self]

/-- the year fields of `Model.computeAll` are the components of `Model.computeYear` -/
theorem e2e_computeAll_year (ly lm ld h mi sec : Int) (s : Model.Solar) (ya : Model.YearAstro) :
    let m := Model.computeAll ly lm ld h mi sec s ya
    let r := Model.computeYear ly s ya.terms
    m.yearGanIndex = r.1 ∧ m.yearZhiIndex = r.2.1 ∧ m.yearGanIndexByLiChun = r.2.2.1 ∧
    m.yearZhiIndexByLiChun = r.2.2.2.1 ∧ m.yearGanIndexExact = r.2.2.2.2.1 ∧
    m.yearZhiIndexExact = r.2.2.2.2.2 := by
  simp only [Model.computeAll, and_self]

/-- HOUR and DAY pillars of the generated `compute`: the run succeeds, and in its result
* the hour branch is the two-hour slot `(hour + 1) / 2 % 12` (`Model.time_pillar`/`timeZhi_eq`);
* the hour stem follows the five-rats rule from the (early-rat) day stem (`Model.time_pillar`);
* the day pillar is `(jdn − 11) % 10`, `(jdn − 11) % 12` (`Model.computeDay_plain`), the late-rat
  (`Exact2`) pillar equals it, and the early-rat (`Exact`) pillar is the NEXT pillar from 23:00 on
  and the same pillar otherwise (`Model.computeDay_exact`);
* the week index is the weekday of the civil date; date, time and `solar` are untouched. -/
theorem compute_time_day (ya : Model.YearAstro) (A : ComputeAtoms) (l : Gen.Fn.Lunar)
    (h : ComputeAtomsOk ya A l) (hh : 0 ≤ l.hour ∧ l.hour ≤ 23) (hm : 0 ≤ l.minute ∧ l.minute ≤ 59) :
    ∃ r, computeSteps A l = .ok r ∧
      r.timeZhiIndex = ((l.hour + 1) / 2) % 12 ∧
      r.timeGanIndex = (r.dayGanIndexExact % 5 * 2 + r.timeZhiIndex) % 10 ∧
      r.dayGanIndex = ((toM l.solar).jdn - 11) % 10 ∧
      r.dayZhiIndex = ((toM l.solar).jdn - 11) % 12 ∧
      r.dayGanIndexExact2 = r.dayGanIndex ∧ r.dayZhiIndexExact2 = r.dayZhiIndex ∧
      (l.hour = 23 → r.dayGanIndexExact = (r.dayGanIndex + 1) % 10 ∧
                      r.dayZhiIndexExact = (r.dayZhiIndex + 1) % 12) ∧
      (l.hour ≠ 23 → r.dayGanIndexExact = r.dayGanIndex ∧ r.dayZhiIndexExact = r.dayZhiIndex) ∧
      r.weekIndex = (toM l.solar).week ∧
      r.solar = l.solar ∧ r.eightChar = l.eightChar ∧
      r.year = l.year ∧ r.month = l.month ∧ r.day = l.day ∧
      r.hour = l.hour ∧ r.minute = l.minute ∧ r.second = l.second := by
  refine ⟨_, computeSteps_eq ya A l h, ?_⟩
  obtain ⟨t1, t2, t3⟩ := Model.time_pillar l.year l.month l.day l.hour l.minute l.second
    (pl_toM l.solar) ya hh hm
  obtain ⟨d1, d2, d3, d4, d5, d6⟩ := e2e_computeAll_day l.year l.month l.day l.hour l.minute
    l.second (pl_toM l.solar) ya
  obtain ⟨p1, p2⟩ := Model.computeDay_plain (pl_toM l.solar) l.hour l.minute
  obtain ⟨x1, x2, x3, x4⟩ := Model.computeDay_exact (pl_toM l.solar) l.hour l.minute hh hm
  refine ⟨t1, t2, d1.trans p1, d2.trans p2, ?_, ?_, ?_, ?_, t3, rfl, rfl, ?_⟩
  · exact d5.trans (x1.trans d1.symm)
  · exact d6.trans (x2.trans d2.symm)
  · intro h23
    obtain ⟨a, b⟩ := x3 h23
    exact ⟨d3.trans (a.trans (by rw [← d1]; rfl)), d4.trans (b.trans (by rw [← d2]; rfl))⟩
  · intro h23
    obtain ⟨a, b⟩ := x4 h23
    exact ⟨d3.trans (a.trans d1.symm), d4.trans (b.trans d2.symm)⟩
  · simp only [pl_ofLunar, Model.computeAll, and_self]

/-- The sexagenary position of the generated day pillar is `(jdn − 11) mod 60`. -/
theorem compute_day_cycle (ya : Model.YearAstro) (A : ComputeAtoms) (l r : Gen.Fn.Lunar)
    (h : ComputeAtomsOk ya A l) (hr : computeSteps A l = .ok r) :
    Model.cycleIndex r.dayGanIndex r.dayZhiIndex = ((toM l.solar).jdn - 11) % 60 := by
  rw [computeSteps_eq ya A l h] at hr
  injection hr with hr
  subst hr
  obtain ⟨d1, d2, _⟩ := e2e_computeAll_day l.year l.month l.day l.hour l.minute
    l.second (pl_toM l.solar) ya
  obtain ⟨p1, p2⟩ := Model.computeDay_plain (pl_toM l.solar) l.hour l.minute
  simp only [pl_ofLunar]
  rw [d1, d2, p1, p2, Model.cycleIndex_spec]
  rfl

/-- Consecutive civil days get consecutive day pillars (`Model.day_cycle_succ`): for two runs of
the generated `compute` whose civil dates are one day apart — e.g. `l'.solar` obtained from
`l.solar` by the generated `NextDay 1`, see `compute_day_cycle_nextDay` — the sexagenary position
advances by one (mod 60). -/
theorem compute_day_cycle_succ (ya ya' : Model.YearAstro) (A A' : ComputeAtoms)
    (l l' r r' : Gen.Fn.Lunar) (h : ComputeAtomsOk ya A l) (h' : ComputeAtomsOk ya' A' l')
    (hj : (toM l'.solar).jdn = (toM l.solar).jdn + 1)
    (hr : computeSteps A l = .ok r) (hr' : computeSteps A' l' = .ok r') :
    Model.cycleIndex r'.dayGanIndex r'.dayZhiIndex =
      (Model.cycleIndex r.dayGanIndex r.dayZhiIndex + 1) % 60 := by
  rw [computeSteps_eq ya A l h] at hr
  rw [computeSteps_eq ya' A' l' h'] at hr'
  injection hr with hr
  injection hr' with hr'
  subst hr hr'
  obtain ⟨d1, d2, _⟩ := e2e_computeAll_day l.year l.month l.day l.hour l.minute
    l.second (pl_toM l.solar) ya
  obtain ⟨e1, e2, _⟩ := e2e_computeAll_day l'.year l'.month l'.day l'.hour l'.minute
    l'.second (pl_toM l'.solar) ya'
  have := Model.day_cycle_succ (pl_toM l.solar) (pl_toM l'.solar) hj
  simp only [pl_ofLunar]
  rw [d1, d2, e1, e2]
  rw [(Model.computeDay_plain (pl_toM l'.solar) l'.hour l'.minute).1,
    (Model.computeDay_plain (pl_toM l'.solar) l'.hour l'.minute).2,
    (Model.computeDay_plain (pl_toM l.solar) l.hour l.minute).1,
    (Model.computeDay_plain (pl_toM l.solar) l.hour l.minute).2]
  have := this 0 0
  rw [(Model.computeDay_plain (pl_toM l'.solar) 0 0).1,
    (Model.computeDay_plain (pl_toM l'.solar) 0 0).2,
    (Model.computeDay_plain (pl_toM l.solar) 0 0).1,
    (Model.computeDay_plain (pl_toM l.solar) 0 0).2] at this
  exact this

/-- … in particular when the second civil date comes from the generated `NextDay 1`. -/
theorem compute_day_cycle_nextDay (fuel : Nat) (ya ya' : Model.YearAstro) (A A' : ComputeAtoms)
    (l l' r r' : Gen.Fn.Lunar) (h : ComputeAtomsOk ya A l) (h' : ComputeAtomsOk ya' A' l')
    (hs : (toM l.solar).valid = true) (hf : 3 ≤ fuel)
    (hn : Gen.Fn.calendar_Solar_NextDay fuel l.solar 1 = .ok l'.solar)
    (hr : computeSteps A l = .ok r) (hr' : computeSteps A' l' = .ok r') :
    Model.cycleIndex r'.dayGanIndex r'.dayZhiIndex =
      (Model.cycleIndex r.dayGanIndex r.dayZhiIndex + 1) % 60 :=
  compute_day_cycle_succ ya ya' A A' l l' r r' h h'
    (nextDay_jdn fuel l.solar l'.solar 1 hs (by simpa using hf) hn).1 hr hr'

/-- All nine pillars written by the generated `compute` are genuine stem-branch pairs (ranges and
equal parity), from `Model.pillars_valid`; its hypotheses on the term table, the civil stamp and
the lunar year are carried over. -/
theorem compute_pillars_valid (ya : Model.YearAstro) (A : ComputeAtoms) (l : Gen.Fn.Lunar)
    (h : ComputeAtomsOk ya A l)
    (hts : Model.termsOk l.solar.year ya.terms = true) (hs : Model.stampValid (toM l.solar) = true)
    (hh : 0 ≤ l.hour ∧ l.hour ≤ 23) (hm : 0 ≤ l.minute ∧ l.minute ≤ 59)
    (hly : l.year = l.solar.year - 1 ∨ l.year = l.solar.year ∨ l.year = l.solar.year + 1) :
    ∃ r, computeSteps A l = .ok r ∧
      Model.pillarOk r.yearGanIndex r.yearZhiIndex ∧
      Model.pillarOk r.yearGanIndexByLiChun r.yearZhiIndexByLiChun ∧
      Model.pillarOk r.yearGanIndexExact r.yearZhiIndexExact ∧
      Model.pillarOk r.monthGanIndex r.monthZhiIndex ∧
      Model.pillarOk r.monthGanIndexExact r.monthZhiIndexExact ∧
      Model.pillarOk r.dayGanIndex r.dayZhiIndex ∧
      Model.pillarOk r.dayGanIndexExact r.dayZhiIndexExact ∧
      Model.pillarOk r.dayGanIndexExact2 r.dayZhiIndexExact2 ∧
      Model.pillarOk r.timeGanIndex r.timeZhiIndex :=
  ⟨_, computeSteps_eq ya A l h,
    Model.pillars_valid l.year l.month l.day l.hour l.minute l.second (pl_toM l.solar) ya hts hs
      hh hm hly⟩

/-- YEAR pillars of the generated `compute` under the three conventions (`Model.year_pillars_partial`,
the strongest true form: see the counterexample there for a lunar year leading the civil year). -/
theorem compute_year_pillars (ya : Model.YearAstro) (A : ComputeAtoms) (l : Gen.Fn.Lunar)
    (h : ComputeAtomsOk ya A l)
    (hts : Model.termsOk l.solar.year ya.terms = true) (hs : Model.stampValid (toM l.solar) = true)
    (hly : l.year = l.solar.year - 1 ∨ l.year = l.solar.year ∨ l.year = l.solar.year + 1) :
    let s := toM l.solar
    let L := ya.terms.getD 4 Model.nilSolar
    let Yd : Int := if l.year ≤ s.year ∧ (s.year * 100 + s.month) * 100 + s.day <
        (L.year * 100 + L.month) * 100 + L.day then s.year - 1 else s.year
    let Yi : Int := if l.year ≤ s.year ∧ s.key < L.key then s.year - 1 else s.year
    ∃ r, computeSteps A l = .ok r ∧
      r.yearGanIndex = (l.year - 4) % 10 ∧ r.yearZhiIndex = (l.year - 4) % 12 ∧
      r.yearGanIndexByLiChun = (Yd - 4) % 10 ∧ r.yearZhiIndexByLiChun = (Yd - 4) % 12 ∧
      r.yearGanIndexExact = (Yi - 4) % 10 ∧ r.yearZhiIndexExact = (Yi - 4) % 12 := by
  intro s L Yd Yi
  refine ⟨_, computeSteps_eq ya A l h, ?_⟩
  obtain ⟨y1, y2, y3, y4, y5, y6⟩ := e2e_computeAll_year l.year l.month l.day l.hour l.minute
    l.second (pl_toM l.solar) ya
  obtain ⟨q1, q2, q3, q4, q5, q6⟩ := Model.year_pillars_partial l.year (pl_toM l.solar) ya.terms
    hts hs hly
  exact ⟨y1.trans q1, y2.trans q2, y3.trans q3, y4.trans q4, y5.trans q5, y6.trans q6⟩


end FnE2E
