/-
Proofs.BaZiSpec — C10: soundness of the reverse lookup `ListSolarFromBaZiBySectAndBaseYear`.
(Part (D) of the AlmanacSpec task; parts (A)+(B) are in Proofs/AlmanacSpec.lean, (C) in Proofs/TaoFotoSpec.lean.)
-/
import Model.EightChar
import Proofs.Convert
import Proofs.CivilStep
set_option linter.unusedVariables false
set_option linter.unusedSimpArgs false
namespace Model
open Gen.Tables

theorem alm_ite_cases {α : Type} {c : Prop} [Decidable c] {a b d : α} (h : (if c then a else b) = d) :
    (c ∧ a = d) ∨ (¬ c ∧ b = d) := by
  by_cases hc : c
  · rw [if_pos hc] at h; exact Or.inl ⟨hc, h⟩
  · rw [if_neg hc] at h; exact Or.inr ⟨hc, h⟩

/-- the pillar test of the reverse lookup, with the already normalised sect (1 or 2) -/
def alm_bzP (A : Astro) (yg mg dg tg : String) (sect : Int) (s : Solar) : Prop :=
  ∃ l, Lunar.fromSolar A s = some l ∧
    EightChar.pillarStr l.yearGanIndexExact l.yearZhiIndexExact = yg ∧ EightChar.pillarStr l.monthGanIndexExact l.monthZhiIndexExact = mg ∧
    (if sect = 2 then EightChar.pillarStr l.dayGanIndexExact2 l.dayZhiIndexExact2 else EightChar.pillarStr l.dayGanIndexExact l.dayZhiIndexExact) = dg ∧
    EightChar.pillarStr l.timeGanIndex l.timeZhiIndex = tg

/-- the body of the hour loop of `baZiYear` -/
def alm_bzStep (A : Astro) (yearGz monthGz dayGz timeGz : String) (sect : Int) (st : Solar) (d : Int) :
    Option (List Solar) → Int → Option (List Solar) :=
  fun acc hour =>
    match acc with
    | none => none
    | some found =>
      let (mi, s) := if d = 0 ∧ hour = st.hour then (st.minute, st.second) else (0, 0)
      match newSolar st.year st.month st.day hour mi s with
      | none => none
      | some solar =>
        match Lunar.fromSolar A solar with
        | none => none
        | some lunar =>
          let dgz := if sect = 2 then EightChar.pillarStr lunar.dayGanIndexExact2 lunar.dayZhiIndexExact2
                     else EightChar.pillarStr lunar.dayGanIndexExact lunar.dayZhiIndexExact
          if EightChar.pillarStr lunar.yearGanIndexExact lunar.yearZhiIndexExact == yearGz &&
             EightChar.pillarStr lunar.monthGanIndexExact lunar.monthZhiIndexExact == monthGz &&
             dgz == dayGz && EightChar.pillarStr lunar.timeGanIndex lunar.timeZhiIndex == timeGz
          then some (found ++ [solar]) else some found

/-- one step of the hour loop either keeps the list or appends one moment of the day `st` at the requested hour
that passes the pillar test -/
theorem alm_bzStep_spec (A : Astro) (yg mg dg tg : String) (sect : Int) (st : Solar) (d : Int) (found r : List Solar) (hour : Int)
    (h : alm_bzStep A yg mg dg tg sect st d (some found) hour = some r) :
    r = found ∨ ∃ solar, r = found ++ [solar] ∧ alm_bzP A yg mg dg tg sect solar ∧
      solar.year = st.year ∧ solar.month = st.month ∧ solar.day = st.day ∧ solar.hour = hour := by
  unfold alm_bzStep at h
  simp only at h
  split at h
  · cases h
  · rename_i solar hsol
    split at h
    · cases h
    · rename_i lunar hlun
      rcases alm_ite_cases h with ⟨hc, h⟩ | ⟨hc, h⟩
      · simp only [Bool.and_eq_true, beq_iff_eq] at hc
        obtain ⟨⟨⟨c1, c2⟩, c3⟩, c4⟩ := hc
        cases h
        obtain ⟨e, _, _⟩ := newSolar_inv _ _ _ _ _ _ _ hsol
        refine Or.inr ⟨solar, rfl, ⟨lunar, hlun, c1, c2, c3, c4⟩, ?_⟩
        rw [e]
        exact ⟨rfl, rfl, rfl, rfl⟩
      · cases h
        exact Or.inl rfl

theorem alm_bzFold_none (A : Astro) (yg mg dg tg : String) (sect : Int) (st : Solar) (d : Int) :
    ∀ hours : List Int, List.foldl (alm_bzStep A yg mg dg tg sect st d) none hours = none
  | [] => rfl
  | _ :: hs => by
    rw [List.foldl_cons]
    exact alm_bzFold_none A yg mg dg tg sect st d hs

/-- invariant of the hour loop -/
theorem alm_bzFold_all (A : Astro) (yg mg dg tg : String) (sect : Int) (st : Solar) (d : Int) (Q : Solar → Prop)
    (hQ : ∀ s, alm_bzP A yg mg dg tg sect s → s.year = st.year → Q s) :
    ∀ (hours : List Int) (found res : List Solar), (∀ s ∈ found, Q s) →
      List.foldl (alm_bzStep A yg mg dg tg sect st d) (some found) hours = some res → ∀ s ∈ res, Q s
  | [], found, res, hf, h => by
    simp only [List.foldl_nil, Option.some.injEq] at h
    subst h; exact hf
  | hr :: hs, found, res, hf, h => by
    rw [List.foldl_cons] at h
    cases hstep : alm_bzStep A yg mg dg tg sect st d (some found) hr with
    | none => rw [hstep, alm_bzFold_none] at h; cases h
    | some r =>
      rw [hstep] at h
      refine alm_bzFold_all A yg mg dg tg sect st d Q hQ hs r res ?_ h
      rcases alm_bzStep_spec A yg mg dg tg sect st d found r hr hstep with e | ⟨solar, e, hp, hy, _⟩
      · subst e; exact hf
      · subst e
        intro s hs
        rw [List.mem_append, List.mem_singleton] at hs
        rcases hs with hs | hs
        · exact hf s hs
        · subst hs; exact hQ _ hp hy

theorem alm_jiaZi_len : LunarUtil.JIA_ZI.length = 60 := by decide

theorem alm_jiaZiIndex_bounds (s : String) : -1 ≤ jiaZiIndexOfStr s ∧ jiaZiIndexOfStr s ≤ 59 := by
  unfold jiaZiIndexOfStr
  split
  · rename_i i hi
    have := (List.findIdx?_eq_some_iff_findIdx_eq.mp hi).1
    rw [alm_jiaZi_len] at this
    omega
  · omega

/-- what one candidate year does: nothing, or the hour loop on the day `st` reached from the Jie stamp `solarTime`
(of a year ≥ base) by `d` days, 0 ≤ d ≤ 60 -/
theorem alm_baZiYear_inv (A : Astro) (yg mg dg tg : String) (sect base m : Int) (hours : List Int) (y : Int) (res : List Solar)
    (h : baZiYear A yg mg dg tg sect base m hours y = some res) :
    res = [] ∨ ∃ (solarTime st : Solar) (d : Int), base ≤ solarTime.year ∧ 0 ≤ d ∧ d ≤ 60 ∧
      (∃ l0, Lunar.fromSolar A ⟨y, 1, 1, 0, 0, 0⟩ = some l0 ∧ solarTime = termByName l0.terms (calendar.JIE_QI_IN_USE.getD (4 + m).toNat "")) ∧
      ((d = 0 ∧ st = solarTime) ∨ (0 < d ∧ solarTime.nextDay d = some st)) ∧
      List.foldl (alm_bzStep A yg mg dg tg sect st d) (some []) hours = some res := by
  unfold baZiYear at h
  split at h
  · cases h
  · rename_i l0 hl0
    simp only at h
    rcases alm_ite_cases h with ⟨hb, e⟩ | ⟨hb, h⟩
    · cases e; exact Or.inl rfl
    · split at h
      · cases h
      · rename_i lt hlt
        split at h
        · cases h
        · rename_i st hst
          have b1 := alm_jiaZiIndex_bounds dg
          have b2 := alm_jiaZiIndex_bounds (ganStr lt.dayGanIndexExact2 ++ zhiStr lt.dayZhiIndexExact2)
          have b2' : -1 ≤ ganZhiIndex lt.dayGanIndexExact2 lt.dayZhiIndexExact2 ∧ ganZhiIndex lt.dayGanIndexExact2 lt.dayZhiIndexExact2 ≤ 59 := b2
          refine Or.inr ⟨termByName l0.terms (calendar.JIE_QI_IN_USE.getD (4 + m).toNat ""), st, _, ?_, ?_, ?_, ⟨l0, hl0, rfl⟩, ?_, h⟩
          · omega
          · split <;> omega
          · split <;> omega
          · rcases alm_ite_cases hst with ⟨hd, e⟩ | ⟨hd, e⟩
            · exact Or.inr ⟨hd, e⟩
            · cases e
              refine Or.inl ⟨?_, rfl⟩
              have : 0 ≤ (if jiaZiIndexOfStr dg - ganZhiIndex lt.dayGanIndexExact2 lt.dayZhiIndexExact2 < 0
                then jiaZiIndexOfStr dg - ganZhiIndex lt.dayGanIndexExact2 lt.dayZhiIndexExact2 + 60
                else jiaZiIndexOfStr dg - ganZhiIndex lt.dayGanIndexExact2 lt.dayZhiIndexExact2) := by split <;> omega
              omega

/-- every element produced by the year loop comes from one candidate year -/
theorem alm_baZiLoop_mem (A : Astro) (yg mg dg tg : String) (sect base m : Int) (hours : List Int) (endYear : Int) :
    ∀ (fuel : Nat) (y : Int) (res : List Solar), baZiLoop A yg mg dg tg sect base m hours endYear fuel y = some res →
      ∀ s ∈ res, ∃ y' r, baZiYear A yg mg dg tg sect base m hours y' = some r ∧ s ∈ r
  | 0, y, res, h, s, hs => by
    simp only [baZiLoop, Option.some.injEq] at h
    subst h; cases hs
  | fuel + 1, y, res, h, s, hs => by
    unfold baZiLoop at h
    split at h
    · cases h; cases hs
    · simp only at h
      split at h
      · rename_i a b ha hb
        cases h
        rw [List.mem_append] at hs
        rcases hs with hs | hs
        · split at ha
          · exact ⟨y, a, ha, hs⟩
          · cases ha; cases hs
        · exact alm_baZiLoop_mem A yg mg dg tg sect base m hours endYear fuel (y + 60) b hb s hs
      · cases h

theorem alm_zhi_len : LunarUtil.ZHI.length = 13 := by decide

theorem alm_findStr_bounds (name : String) : -1 ≤ findStr name LunarUtil.ZHI (-1) ∧ findStr name LunarUtil.ZHI (-1) ≤ 11 := by
  unfold findStr
  split
  · rename_i i hi
    have := (List.findIdx?_eq_some_iff_findIdx_eq.mp hi).1
    rw [alm_zhi_len] at this
    omega
  · omega

/-- the lookup is the year loop with the normalised sect, or empty -/
theorem alm_listSolar_inv (A : Astro) (yg mg dg tg : String) (sect base endYear : Int) (res : List Solar)
    (h : listSolarFromBaZi A yg mg dg tg sect base endYear = some res) :
    res = [] ∨ ∃ m hours fuel y, 0 ≤ m ∧ m ≤ 11 ∧
      baZiLoop A yg mg dg tg (if sect != 1 then 2 else 1) base (m * 2) hours endYear fuel y = some res := by
  unfold listSolarFromBaZi at h
  simp only at h
  rcases alm_ite_cases h with ⟨_, e⟩ | ⟨_, h⟩
  · cases e; exact Or.inl rfl
  · have b := alm_findStr_bounds (restChars mg)
    refine Or.inr ⟨_, _, _, _, ?_, ?_, h⟩
    · split <;> omega
    · split <;> omega

/-- every returned moment really has the four requested pillars under the requested day-boundary convention -/
theorem baZi_sound (A : Astro) (yg mg dg tg : String) (sect base endYear : Int) (res : List Solar) (s : Solar)
    (h : listSolarFromBaZi A yg mg dg tg sect base endYear = some res) (hs : s ∈ res) :
    ∃ l, Lunar.fromSolar A s = some l ∧
      EightChar.pillarStr l.yearGanIndexExact l.yearZhiIndexExact = yg ∧ EightChar.pillarStr l.monthGanIndexExact l.monthZhiIndexExact = mg ∧
      (if (if sect != 1 then (2:Int) else 1) = 2 then EightChar.pillarStr l.dayGanIndexExact2 l.dayZhiIndexExact2 else EightChar.pillarStr l.dayGanIndexExact l.dayZhiIndexExact) = dg ∧
      EightChar.pillarStr l.timeGanIndex l.timeZhiIndex = tg := by
  rcases alm_listSolar_inv A yg mg dg tg sect base endYear res h with e | ⟨m, hours, fuel, y, hm0, hm11, hloop⟩
  · subst e; cases hs
  · obtain ⟨y', r, hr, hsr⟩ := alm_baZiLoop_mem A yg mg dg tg _ base (m * 2) hours endYear fuel y res hloop s hs
    rcases alm_baZiYear_inv A yg mg dg tg _ base (m * 2) hours y' r hr with e | ⟨solarTime, st, d, _, _, _, _, _, hfold⟩
    · subst e; cases hsr
    · exact alm_bzFold_all A yg mg dg tg _ st d (alm_bzP A yg mg dg tg (if sect != 1 then 2 else 1))
        (fun s hp _ => hp) hours [] r (fun s hs => by cases hs) hfold s hsr

/-- within one candidate year the moments come out in increasing hour order (0 before 23) -/
theorem baZi_year_sorted (A : Astro) (yg mg dg tg : String) (sect base m : Int) (hours : List Int) (y : Int) (res : List Solar)
    (hh : hours = [0, 23] ∨ ∃ h, hours = [h]) (h : baZiYear A yg mg dg tg sect base m hours y = some res) :
    res.length ≤ 2 ∧ (∀ a b, res = [a, b] → a.year = b.year ∧ a.month = b.month ∧ a.day = b.day ∧ a.hour = 0 ∧ b.hour = 23) := by
  rcases alm_baZiYear_inv A yg mg dg tg sect base m hours y res h with e | ⟨solarTime, st, d, _, _, _, _, _, hfold⟩
  · subst e
    refine ⟨by simp, ?_⟩
    intro a b hab; cases hab
  · rcases hh with hh | ⟨h1, hh⟩
    · subst hh
      simp only [List.foldl_cons, List.foldl_nil] at hfold
      cases hstep : alm_bzStep A yg mg dg tg sect st d (some []) 0 with
      | none =>
        rw [hstep] at hfold
        have : alm_bzStep A yg mg dg tg sect st d none 23 = none := rfl
        rw [this] at hfold; cases hfold
      | some r =>
        rw [hstep] at hfold
        rcases alm_bzStep_spec A yg mg dg tg sect st d [] r 0 hstep with e | ⟨s1, e, _, y1, m1, d1, h1⟩ <;>
          rcases alm_bzStep_spec A yg mg dg tg sect st d r res 23 hfold with e' | ⟨s2, e', _, y2, m2, d2, h2⟩
        · subst e; subst e'
          refine ⟨by simp, ?_⟩
          intro a b hab; cases hab
        · subst e; subst e'
          refine ⟨by simp, ?_⟩
          intro a b hab; cases hab
        · subst e; subst e'
          refine ⟨by simp, ?_⟩
          intro a b hab; cases hab
        · subst e; subst e'
          refine ⟨by simp, ?_⟩
          intro a b hab
          simp only [List.nil_append, List.cons_append, List.cons.injEq, and_true] at hab
          obtain ⟨ea, eb⟩ := hab
          subst ea; subst eb
          exact ⟨by rw [y1, y2], by rw [m1, m2], by rw [d1, d2], h1, h2⟩
    · subst hh
      simp only [List.foldl_cons, List.foldl_nil] at hfold
      rcases alm_bzStep_spec A yg mg dg tg sect st d [] res h1 hfold with e | ⟨s1, e, _⟩
      · subst e
        refine ⟨by simp, ?_⟩
        intro a b hab; cases hab
      · subst e
        refine ⟨by simp, ?_⟩
        intro a b hab; cases hab

/-- no returned moment is earlier than the base year, provided stepping forward by 1..60 days from a date of a
year ≥ base stays in a year ≥ base (a fact about `nextDay` on valid dates, taken as hypothesis here) -/
theorem baZi_base (A : Astro) (yg mg dg tg : String) (sect base endYear : Int) (res : List Solar)
    (hstep : ∀ (t st : Solar) (d : Int), base ≤ t.year → 0 < d → d ≤ 60 → t.nextDay d = some st → base ≤ st.year)
    (h : listSolarFromBaZi A yg mg dg tg sect base endYear = some res) : ∀ s ∈ res, base ≤ s.year := by
  intro s hs
  rcases alm_listSolar_inv A yg mg dg tg sect base endYear res h with e | ⟨m, hours, fuel, y, hm0, hm11, hloop⟩
  · subst e; cases hs
  · obtain ⟨y', r, hr, hsr⟩ := alm_baZiLoop_mem A yg mg dg tg _ base (m * 2) hours endYear fuel y res hloop s hs
    rcases alm_baZiYear_inv A yg mg dg tg _ base (m * 2) hours y' r hr with e | ⟨solarTime, st, d, hb, hd0, hd60, _, hst, hfold⟩
    · subst e; cases hsr
    · have hsty : base ≤ st.year := by
        rcases hst with ⟨_, e⟩ | ⟨hd, e⟩
        · rw [e]; exact hb
        · exact hstep solarTime st d hb hd hd60 e
      exact alm_bzFold_all A yg mg dg tg _ st d (fun s => base ≤ s.year)
        (fun s _ hy => by rw [hy]; exact hsty) hours [] r (fun s hs => by cases hs) hfold s hsr

/-- a forward step from a valid date never decreases the civil year -/
theorem alm_nextDay_year_mono (t st : Solar) (d : Int) (hv : t.valid = true) (hd : 0 < d) (h : t.nextDay d = some st) :
    t.year ≤ st.year := by
  obtain ⟨r, hr, rv, rj, _⟩ := nextDay_spec_strong t d hv
  rw [hr] at h
  cases h
  by_cases hc : t.year ≤ st.year
  · exact hc
  · have := civil_year_mono st t rv hv (by omega)
    omega

/-- the same with the step hypothesis discharged: it is enough that the Jie stamps of the tables the loop consults
(entries 4, 6, …, 26 of the table of `NewSolarFromYmd(y, 1, 1).GetLunar()`, the civil year's table) are valid date-times — a table fact about the oracle -/
theorem baZi_base_of_valid_terms (A : Astro) (yg mg dg tg : String) (sect base endYear : Int) (res : List Solar)
    (hterm : ∀ (y : Int) (l0 : Lunar) (i : Nat), i ≤ 26 → Lunar.fromSolar A ⟨y, 1, 1, 0, 0, 0⟩ = some l0 →
      (termByName l0.terms (calendar.JIE_QI_IN_USE.getD i "")).valid = true)
    (h : listSolarFromBaZi A yg mg dg tg sect base endYear = some res) : ∀ s ∈ res, base ≤ s.year := by
  intro s hs
  rcases alm_listSolar_inv A yg mg dg tg sect base endYear res h with e | ⟨m, hours, fuel, y, hm0, hm11, hloop⟩
  · subst e; cases hs
  · obtain ⟨y', r, hr, hsr⟩ := alm_baZiLoop_mem A yg mg dg tg _ base (m * 2) hours endYear fuel y res hloop s hs
    rcases alm_baZiYear_inv A yg mg dg tg _ base (m * 2) hours y' r hr with e | ⟨solarTime, st, d, hb, hd0, hd60, ⟨l0, hl0, est⟩, hst, hfold⟩
    · subst e; cases hsr
    · have hsty : base ≤ st.year := by
        rcases hst with ⟨_, e⟩ | ⟨hd, e⟩
        · rw [e]; exact hb
        · have hv := hterm y' l0 (4 + m * 2).toNat (by omega) hl0
          rw [← est] at hv
          have := alm_nextDay_year_mono solarTime st d hv hd e
          omega
      exact alm_bzFold_all A yg mg dg tg _ st d (fun s => base ≤ s.year)
        (fun s _ hy => by rw [hy]; exact hsty) hours [] r (fun s hs => by cases hs) hfold s hsr

#print axioms baZi_sound
#print axioms baZi_year_sorted
#print axioms baZi_base
#print axioms baZi_base_of_valid_terms

end Model
