/-
Proofs.FnSNineStarObj — accessors of the nine-star object: every naming system reads its table at the same index (string-mode generated code = model / tables; split from the worker's FnS5; helper prefix `s5_`).
-/
import Proofs.FnSBase
import Proofs.FnSFmt
import Model.Lunar
import Model.Almanac
import Model.Fmt

namespace FnSEq
open Gen.Fn (Err)
open Gen.Tables

/-! ## A. nine-star accessors -/

theorem s5_len_NUMBER : calendar.«NUMBER».length = 9 := by decide
theorem s5_len_COLOR : calendar.«COLOR».length = 9 := by decide
theorem s5_len_WU_XING : calendar.«WU_XING».length = 9 := by decide
theorem s5_len_POSITION : calendar.«POSITION».length = 9 := by decide
theorem s5_len_NAME_BEI_DOU : calendar.«NAME_BEI_DOU».length = 9 := by decide
theorem s5_len_NAME_XUAN_KONG : calendar.«NAME_XUAN_KONG».length = 9 := by decide
theorem s5_len_NAME_QI_MEN : calendar.«NAME_QI_MEN».length = 9 := by decide
theorem s5_len_BA_MEN_QI_MEN : calendar.«BA_MEN_QI_MEN».length = 9 := by decide
theorem s5_len_NAME_TAI_YI : calendar.«NAME_TAI_YI».length = 9 := by decide
theorem s5_len_TYPE_TAI_YI : calendar.«TYPE_TAI_YI».length = 9 := by decide
theorem s5_len_SONG_TAI_YI : calendar.«SONG_TAI_YI».length = 9 := by decide
theorem s5_len_LUCK_XUAN_KONG : calendar.«LUCK_XUAN_KONG».length = 9 := by decide
theorem s5_len_LUCK_QI_MEN : calendar.«LUCK_QI_MEN».length = 9 := by decide
theorem s5_len_YIN_YANG_QI_MEN : calendar.«YIN_YANG_QI_MEN».length = 9 := by decide

/-- a read of a nine-entry table -/
theorem s5_sidx9 (T : List String) (hT : T.length = 9) (i : Int) (h0 : 0 ≤ i) (h1 : i < 9) :
    Gen.FnS.sidx T i = .ok (Model.strGetD T i) :=
  sidx_eq_strGetD T i h0 (by rw [hT]; exact h1)

theorem s5_sidx9_panic (T : List String) (hT : T.length = 9) (i : Int) (h : i < 0 ∨ 9 ≤ i) :
    Gen.FnS.sidx T i = .error .panic :=
  sidx_panic T i (by rw [hT]; exact h)

section
variable (ns : Gen.FnS.NineStar)

@[simp] theorem nineStarGetIndex_eq : Gen.FnS.calendar_NineStar_GetIndex ns = .ok ns.index := rfl

theorem newNineStar_eq (i : Int) : Gen.FnS.calendar_NewNineStar i = .ok ⟨i⟩ := rfl

theorem nineStarGetNumber_eq (h0 : 0 ≤ ns.index) (h1 : ns.index < 9) :
    Gen.FnS.calendar_NineStar_GetNumber ns = .ok (Model.strGetD calendar.«NUMBER» ns.index) := by
  unfold Gen.FnS.calendar_NineStar_GetNumber; rw [s5_sidx9 _ s5_len_NUMBER _ h0 h1]
theorem nineStarGetColor_eq (h0 : 0 ≤ ns.index) (h1 : ns.index < 9) :
    Gen.FnS.calendar_NineStar_GetColor ns = .ok (Model.strGetD calendar.«COLOR» ns.index) := by
  unfold Gen.FnS.calendar_NineStar_GetColor; rw [s5_sidx9 _ s5_len_COLOR _ h0 h1]
theorem nineStarGetWuXing_eq (h0 : 0 ≤ ns.index) (h1 : ns.index < 9) :
    Gen.FnS.calendar_NineStar_GetWuXing ns = .ok (Model.strGetD calendar.«WU_XING» ns.index) := by
  unfold Gen.FnS.calendar_NineStar_GetWuXing; rw [s5_sidx9 _ s5_len_WU_XING _ h0 h1]
theorem nineStarGetPosition_eq (h0 : 0 ≤ ns.index) (h1 : ns.index < 9) :
    Gen.FnS.calendar_NineStar_GetPosition ns = .ok (Model.strGetD calendar.«POSITION» ns.index) := by
  unfold Gen.FnS.calendar_NineStar_GetPosition; rw [s5_sidx9 _ s5_len_POSITION _ h0 h1]
/-- `LunarUtil.POSITION_DESC[POSITION[index]]` (Go map read; "" for a missing key) -/
theorem nineStarGetPositionDesc_eq (h0 : 0 ≤ ns.index) (h1 : ns.index < 9) :
    Gen.FnS.calendar_NineStar_GetPositionDesc ns
      = .ok (Model.lookupStr LunarUtil.«POSITION_DESC» (Model.strGetD calendar.«POSITION» ns.index)) := by
  unfold Gen.FnS.calendar_NineStar_GetPositionDesc
  rw [nineStarGetPosition_eq ns h0 h1, sb_bind_ok, mlookupS_eq_lookupStr]; rfl
theorem nineStarGetNameInXuanKong_eq (h0 : 0 ≤ ns.index) (h1 : ns.index < 9) :
    Gen.FnS.calendar_NineStar_GetNameInXuanKong ns = .ok (Model.strGetD calendar.«NAME_XUAN_KONG» ns.index) := by
  unfold Gen.FnS.calendar_NineStar_GetNameInXuanKong; rw [s5_sidx9 _ s5_len_NAME_XUAN_KONG _ h0 h1]
theorem nineStarGetLuckInXuanKong_eq (h0 : 0 ≤ ns.index) (h1 : ns.index < 9) :
    Gen.FnS.calendar_NineStar_GetLuckInXuanKong ns = .ok (Model.strGetD calendar.«LUCK_XUAN_KONG» ns.index) := by
  unfold Gen.FnS.calendar_NineStar_GetLuckInXuanKong; rw [s5_sidx9 _ s5_len_LUCK_XUAN_KONG _ h0 h1]
theorem nineStarGetNameInBeiDou_eq (h0 : 0 ≤ ns.index) (h1 : ns.index < 9) :
    Gen.FnS.calendar_NineStar_GetNameInBeiDou ns = .ok (Model.strGetD calendar.«NAME_BEI_DOU» ns.index) := by
  unfold Gen.FnS.calendar_NineStar_GetNameInBeiDou; rw [s5_sidx9 _ s5_len_NAME_BEI_DOU _ h0 h1]
theorem nineStarGetNameInQiMen_eq (h0 : 0 ≤ ns.index) (h1 : ns.index < 9) :
    Gen.FnS.calendar_NineStar_GetNameInQiMen ns = .ok (Model.strGetD calendar.«NAME_QI_MEN» ns.index) := by
  unfold Gen.FnS.calendar_NineStar_GetNameInQiMen; rw [s5_sidx9 _ s5_len_NAME_QI_MEN _ h0 h1]
theorem nineStarGetBaMenInQiMen_eq (h0 : 0 ≤ ns.index) (h1 : ns.index < 9) :
    Gen.FnS.calendar_NineStar_GetBaMenInQiMen ns = .ok (Model.strGetD calendar.«BA_MEN_QI_MEN» ns.index) := by
  unfold Gen.FnS.calendar_NineStar_GetBaMenInQiMen; rw [s5_sidx9 _ s5_len_BA_MEN_QI_MEN _ h0 h1]
theorem nineStarGetYinYangInQiMen_eq (h0 : 0 ≤ ns.index) (h1 : ns.index < 9) :
    Gen.FnS.calendar_NineStar_GetYinYangInQiMen ns = .ok (Model.strGetD calendar.«YIN_YANG_QI_MEN» ns.index) := by
  unfold Gen.FnS.calendar_NineStar_GetYinYangInQiMen; rw [s5_sidx9 _ s5_len_YIN_YANG_QI_MEN _ h0 h1]
theorem nineStarGetLuckInQiMen_eq (h0 : 0 ≤ ns.index) (h1 : ns.index < 9) :
    Gen.FnS.calendar_NineStar_GetLuckInQiMen ns = .ok (Model.strGetD calendar.«LUCK_QI_MEN» ns.index) := by
  unfold Gen.FnS.calendar_NineStar_GetLuckInQiMen; rw [s5_sidx9 _ s5_len_LUCK_QI_MEN _ h0 h1]
theorem nineStarGetNameInTaiYi_eq (h0 : 0 ≤ ns.index) (h1 : ns.index < 9) :
    Gen.FnS.calendar_NineStar_GetNameInTaiYi ns = .ok (Model.strGetD calendar.«NAME_TAI_YI» ns.index) := by
  unfold Gen.FnS.calendar_NineStar_GetNameInTaiYi; rw [s5_sidx9 _ s5_len_NAME_TAI_YI _ h0 h1]
theorem nineStarGetTypeInTaiYi_eq (h0 : 0 ≤ ns.index) (h1 : ns.index < 9) :
    Gen.FnS.calendar_NineStar_GetTypeInTaiYi ns = .ok (Model.strGetD calendar.«TYPE_TAI_YI» ns.index) := by
  unfold Gen.FnS.calendar_NineStar_GetTypeInTaiYi; rw [s5_sidx9 _ s5_len_TYPE_TAI_YI _ h0 h1]
theorem nineStarGetSongInTaiYi_eq (h0 : 0 ≤ ns.index) (h1 : ns.index < 9) :
    Gen.FnS.calendar_NineStar_GetSongInTaiYi ns = .ok (Model.strGetD calendar.«SONG_TAI_YI» ns.index) := by
  unfold Gen.FnS.calendar_NineStar_GetSongInTaiYi; rw [s5_sidx9 _ s5_len_SONG_TAI_YI _ h0 h1]

/- outside 0..8 every table accessor panics (Go: index out of range) -/
theorem nineStarGetNumber_panic (h : ns.index < 0 ∨ 9 ≤ ns.index) :
    Gen.FnS.calendar_NineStar_GetNumber ns = .error .panic := by
  unfold Gen.FnS.calendar_NineStar_GetNumber; rw [s5_sidx9_panic _ s5_len_NUMBER _ h]
theorem nineStarGetColor_panic (h : ns.index < 0 ∨ 9 ≤ ns.index) :
    Gen.FnS.calendar_NineStar_GetColor ns = .error .panic := by
  unfold Gen.FnS.calendar_NineStar_GetColor; rw [s5_sidx9_panic _ s5_len_COLOR _ h]
theorem nineStarGetWuXing_panic (h : ns.index < 0 ∨ 9 ≤ ns.index) :
    Gen.FnS.calendar_NineStar_GetWuXing ns = .error .panic := by
  unfold Gen.FnS.calendar_NineStar_GetWuXing; rw [s5_sidx9_panic _ s5_len_WU_XING _ h]
theorem nineStarGetPosition_panic (h : ns.index < 0 ∨ 9 ≤ ns.index) :
    Gen.FnS.calendar_NineStar_GetPosition ns = .error .panic := by
  unfold Gen.FnS.calendar_NineStar_GetPosition; rw [s5_sidx9_panic _ s5_len_POSITION _ h]
theorem nineStarGetPositionDesc_panic (h : ns.index < 0 ∨ 9 ≤ ns.index) :
    Gen.FnS.calendar_NineStar_GetPositionDesc ns = .error .panic := by
  unfold Gen.FnS.calendar_NineStar_GetPositionDesc; rw [nineStarGetPosition_panic ns h]; rfl
theorem nineStarGetNameInXuanKong_panic (h : ns.index < 0 ∨ 9 ≤ ns.index) :
    Gen.FnS.calendar_NineStar_GetNameInXuanKong ns = .error .panic := by
  unfold Gen.FnS.calendar_NineStar_GetNameInXuanKong; rw [s5_sidx9_panic _ s5_len_NAME_XUAN_KONG _ h]
theorem nineStarGetLuckInXuanKong_panic (h : ns.index < 0 ∨ 9 ≤ ns.index) :
    Gen.FnS.calendar_NineStar_GetLuckInXuanKong ns = .error .panic := by
  unfold Gen.FnS.calendar_NineStar_GetLuckInXuanKong; rw [s5_sidx9_panic _ s5_len_LUCK_XUAN_KONG _ h]
theorem nineStarGetNameInBeiDou_panic (h : ns.index < 0 ∨ 9 ≤ ns.index) :
    Gen.FnS.calendar_NineStar_GetNameInBeiDou ns = .error .panic := by
  unfold Gen.FnS.calendar_NineStar_GetNameInBeiDou; rw [s5_sidx9_panic _ s5_len_NAME_BEI_DOU _ h]
theorem nineStarGetNameInQiMen_panic (h : ns.index < 0 ∨ 9 ≤ ns.index) :
    Gen.FnS.calendar_NineStar_GetNameInQiMen ns = .error .panic := by
  unfold Gen.FnS.calendar_NineStar_GetNameInQiMen; rw [s5_sidx9_panic _ s5_len_NAME_QI_MEN _ h]
theorem nineStarGetBaMenInQiMen_panic (h : ns.index < 0 ∨ 9 ≤ ns.index) :
    Gen.FnS.calendar_NineStar_GetBaMenInQiMen ns = .error .panic := by
  unfold Gen.FnS.calendar_NineStar_GetBaMenInQiMen; rw [s5_sidx9_panic _ s5_len_BA_MEN_QI_MEN _ h]
theorem nineStarGetYinYangInQiMen_panic (h : ns.index < 0 ∨ 9 ≤ ns.index) :
    Gen.FnS.calendar_NineStar_GetYinYangInQiMen ns = .error .panic := by
  unfold Gen.FnS.calendar_NineStar_GetYinYangInQiMen; rw [s5_sidx9_panic _ s5_len_YIN_YANG_QI_MEN _ h]
theorem nineStarGetLuckInQiMen_panic (h : ns.index < 0 ∨ 9 ≤ ns.index) :
    Gen.FnS.calendar_NineStar_GetLuckInQiMen ns = .error .panic := by
  unfold Gen.FnS.calendar_NineStar_GetLuckInQiMen; rw [s5_sidx9_panic _ s5_len_LUCK_QI_MEN _ h]
theorem nineStarGetNameInTaiYi_panic (h : ns.index < 0 ∨ 9 ≤ ns.index) :
    Gen.FnS.calendar_NineStar_GetNameInTaiYi ns = .error .panic := by
  unfold Gen.FnS.calendar_NineStar_GetNameInTaiYi; rw [s5_sidx9_panic _ s5_len_NAME_TAI_YI _ h]
theorem nineStarGetTypeInTaiYi_panic (h : ns.index < 0 ∨ 9 ≤ ns.index) :
    Gen.FnS.calendar_NineStar_GetTypeInTaiYi ns = .error .panic := by
  unfold Gen.FnS.calendar_NineStar_GetTypeInTaiYi; rw [s5_sidx9_panic _ s5_len_TYPE_TAI_YI _ h]
theorem nineStarGetSongInTaiYi_panic (h : ns.index < 0 ∨ 9 ≤ ns.index) :
    Gen.FnS.calendar_NineStar_GetSongInTaiYi ns = .error .panic := by
  unfold Gen.FnS.calendar_NineStar_GetSongInTaiYi; rw [s5_sidx9_panic _ s5_len_SONG_TAI_YI _ h]
end

/-- "all naming systems index the same star": on 0..8 every accessor succeeds -/
theorem nineStar_accessors_total (ns : Gen.FnS.NineStar) (h0 : 0 ≤ ns.index) (h1 : ns.index < 9) :
    (Gen.FnS.calendar_NineStar_GetNumber ns).isOk ∧ (Gen.FnS.calendar_NineStar_GetColor ns).isOk ∧
    (Gen.FnS.calendar_NineStar_GetWuXing ns).isOk ∧ (Gen.FnS.calendar_NineStar_GetPosition ns).isOk ∧
    (Gen.FnS.calendar_NineStar_GetPositionDesc ns).isOk ∧ (Gen.FnS.calendar_NineStar_GetNameInXuanKong ns).isOk ∧
    (Gen.FnS.calendar_NineStar_GetLuckInXuanKong ns).isOk ∧ (Gen.FnS.calendar_NineStar_GetNameInBeiDou ns).isOk ∧
    (Gen.FnS.calendar_NineStar_GetNameInQiMen ns).isOk ∧ (Gen.FnS.calendar_NineStar_GetBaMenInQiMen ns).isOk ∧
    (Gen.FnS.calendar_NineStar_GetYinYangInQiMen ns).isOk ∧ (Gen.FnS.calendar_NineStar_GetLuckInQiMen ns).isOk ∧
    (Gen.FnS.calendar_NineStar_GetNameInTaiYi ns).isOk ∧ (Gen.FnS.calendar_NineStar_GetTypeInTaiYi ns).isOk ∧
    (Gen.FnS.calendar_NineStar_GetSongInTaiYi ns).isOk ∧ (Gen.FnS.calendar_NineStar_GetIndex ns).isOk := by
  rw [nineStarGetNumber_eq ns h0 h1, nineStarGetColor_eq ns h0 h1, nineStarGetWuXing_eq ns h0 h1,
    nineStarGetPosition_eq ns h0 h1, nineStarGetPositionDesc_eq ns h0 h1, nineStarGetNameInXuanKong_eq ns h0 h1,
    nineStarGetLuckInXuanKong_eq ns h0 h1, nineStarGetNameInBeiDou_eq ns h0 h1, nineStarGetNameInQiMen_eq ns h0 h1,
    nineStarGetBaMenInQiMen_eq ns h0 h1, nineStarGetYinYangInQiMen_eq ns h0 h1, nineStarGetLuckInQiMen_eq ns h0 h1,
    nineStarGetNameInTaiYi_eq ns h0 h1, nineStarGetTypeInTaiYi_eq ns h0 h1, nineStarGetSongInTaiYi_eq ns h0 h1,
    nineStarGetIndex_eq]
  simp [Except.isOk, Except.toBool]

/-! ### `String` / `ToFullString` -/

/-- `NineStar.String()` = number ++ colour ++ element ++ Big-Dipper name -/
theorem nineStarString_eq (ns : Gen.FnS.NineStar) (h0 : 0 ≤ ns.index) (h1 : ns.index < 9) :
    Gen.FnS.calendar_NineStar_String ns
      = .ok (Model.strGetD calendar.«NUMBER» ns.index ++ Model.strGetD calendar.«COLOR» ns.index
              ++ Model.strGetD calendar.«WU_XING» ns.index ++ Model.strGetD calendar.«NAME_BEI_DOU» ns.index) := by
  unfold Gen.FnS.calendar_NineStar_String
  rw [nineStarGetNumber_eq ns h0 h1, nineStarGetColor_eq ns h0 h1, nineStarGetWuXing_eq ns h0 h1,
    nineStarGetNameInBeiDou_eq ns h0 h1]
  rfl

theorem nineStarString_panic (ns : Gen.FnS.NineStar) (h : ns.index < 0 ∨ 9 ≤ ns.index) :
    Gen.FnS.calendar_NineStar_String ns = .error .panic := by
  unfold Gen.FnS.calendar_NineStar_String; rw [nineStarGetNumber_panic ns h]; rfl

/-- the text `ToFullString` builds from the parts read at index `i` (the eight-gate part is omitted when the
gate name is empty — the centre star, index 4) -/
def s5_fullText (i : Int) : String :=
  Model.strGetD calendar.«NUMBER» i ++ Model.strGetD calendar.«COLOR» i ++ Model.strGetD calendar.«WU_XING» i
    ++ " " ++ Model.strGetD calendar.«POSITION» i
    ++ "(" ++ Model.lookupStr LunarUtil.«POSITION_DESC» (Model.strGetD calendar.«POSITION» i) ++ ") "
    ++ Model.strGetD calendar.«NAME_BEI_DOU» i
    ++ " 玄空[" ++ Model.strGetD calendar.«NAME_XUAN_KONG» i ++ " " ++ Model.strGetD calendar.«LUCK_XUAN_KONG» i
    ++ "] 奇门[" ++ Model.strGetD calendar.«NAME_QI_MEN» i ++ " " ++ Model.strGetD calendar.«LUCK_QI_MEN» i
    ++ (if Gen.FnS.strLen (Model.strGetD calendar.«BA_MEN_QI_MEN» i) > 0
          then " " ++ Model.strGetD calendar.«BA_MEN_QI_MEN» i ++ "门" else "")
    ++ " " ++ Model.strGetD calendar.«YIN_YANG_QI_MEN» i
    ++ "] 太乙[" ++ Model.strGetD calendar.«NAME_TAI_YI» i ++ " " ++ Model.strGetD calendar.«TYPE_TAI_YI» i ++ "]"


theorem nineStarToFullString_eq (ns : Gen.FnS.NineStar) (h0 : 0 ≤ ns.index) (h1 : ns.index < 9) :
    Gen.FnS.calendar_NineStar_ToFullString ns = .ok (s5_fullText ns.index) := by
  unfold Gen.FnS.calendar_NineStar_ToFullString
  rw [nineStarGetNumber_eq ns h0 h1, nineStarGetColor_eq ns h0 h1, nineStarGetWuXing_eq ns h0 h1,
    nineStarGetPosition_eq ns h0 h1, nineStarGetPositionDesc_eq ns h0 h1, nineStarGetNameInXuanKong_eq ns h0 h1,
    nineStarGetLuckInXuanKong_eq ns h0 h1, nineStarGetNameInBeiDou_eq ns h0 h1, nineStarGetNameInQiMen_eq ns h0 h1,
    nineStarGetBaMenInQiMen_eq ns h0 h1, nineStarGetYinYangInQiMen_eq ns h0 h1, nineStarGetLuckInQiMen_eq ns h0 h1,
    nineStarGetNameInTaiYi_eq ns h0 h1, nineStarGetTypeInTaiYi_eq ns h0 h1]
  simp only [sb_bind_ok]
  unfold s5_fullText
  by_cases hg : Gen.FnS.strLen (Model.strGetD calendar.«BA_MEN_QI_MEN» ns.index) > 0
  · rw [if_pos (decide_eq_true hg), if_pos hg]
    simp only [String.append_assoc]; rfl
  · rw [if_neg (by simpa using hg), if_neg hg]
    simp only [String.append_assoc, String.empty_append]; rfl

theorem nineStarToFullString_panic (ns : Gen.FnS.NineStar) (h : ns.index < 0 ∨ 9 ≤ ns.index) :
    Gen.FnS.calendar_NineStar_ToFullString ns = .error .panic := by
  unfold Gen.FnS.calendar_NineStar_ToFullString; rw [nineStarGetNumber_panic ns h]; rfl

/-- the eight-gate name is empty exactly for the centre star (index 4): only there `ToFullString` omits "…门" -/
theorem nineStar_baMen_nonempty_iff (i : Int) (h0 : 0 ≤ i) (h1 : i < 9) :
    Gen.FnS.strLen (Model.strGetD calendar.«BA_MEN_QI_MEN» i) > 0 ↔ i ≠ 4 := by
  have : i = 0 ∨ i = 1 ∨ i = 2 ∨ i = 3 ∨ i = 4 ∨ i = 5 ∨ i = 6 ∨ i = 7 ∨ i = 8 := by omega
  rcases this with h|h|h|h|h|h|h|h|h <;> subst h <;> decide


end FnSEq
