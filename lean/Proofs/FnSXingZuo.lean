/-
Proofs.FnSXingZuo — zodiac sign (string-mode generated code = model; split from the worker's FnS4; helper prefix `s4_`).
-/
import Proofs.FnSBase
import Model.TaoFoto
import Model.Fmt
import Model.CivilFest

namespace FnSEq
open Gen.Fn (Err)

/-! ### 3b. zodiac sign -/
theorem s4_xzLits : Model.xzLits = [11, 100, 321, 419, 0, 420, 520, 1, 521, 621, 2, 622, 722, 3, 723, 822, 4, 823, 922, 5, 923, 1023, 6, 1024, 1122, 7, 1123, 1221, 8, 1222, 119, 9, 218, 10] := by
  decide +kernel

/-- `Solar.GetXingZuo`'s index as a function of `y = month * 100 + day` -/
def s4_xz (y : Int) : Int :=
  if 321 ≤ y ∧ y ≤ 419 then 0 else if 420 ≤ y ∧ y ≤ 520 then 1 else if 521 ≤ y ∧ y ≤ 621 then 2
  else if 622 ≤ y ∧ y ≤ 722 then 3 else if 723 ≤ y ∧ y ≤ 822 then 4 else if 823 ≤ y ∧ y ≤ 922 then 5
  else if 923 ≤ y ∧ y ≤ 1023 then 6 else if 1024 ≤ y ∧ y ≤ 1122 then 7 else if 1123 ≤ y ∧ y ≤ 1221 then 8
  else if 1222 ≤ y ∨ y ≤ 119 then 9 else if y ≤ 218 then 10 else 11

theorem s4_xz_model (m d : Int) : Model.xingZuoIndex m d = s4_xz (m * 100 + d) := by
  unfold Model.xingZuoIndex
  simp only [Model.xzScan, s4_xzLits, Model.litAt, List.getD, List.getElem?_cons_succ, List.getElem?_cons_zero,
    Option.getD_some, ge_iff_le]
  generalize m * 100 + d = y
  unfold s4_xz
  by_cases h0 : 321 ≤ y ∧ y ≤ 419
  · simp only [if_pos h0]
  · simp only [if_neg h0]
    by_cases h1 : 420 ≤ y ∧ y ≤ 520
    · simp only [if_pos h1]
    · simp only [if_neg h1]
      by_cases h2 : 521 ≤ y ∧ y ≤ 621
      · simp only [if_pos h2]
      · simp only [if_neg h2]
        by_cases h3 : 622 ≤ y ∧ y ≤ 722
        · simp only [if_pos h3]
        · simp only [if_neg h3]
          by_cases h4 : 723 ≤ y ∧ y ≤ 822
          · simp only [if_pos h4]
          · simp only [if_neg h4]
            by_cases h5 : 823 ≤ y ∧ y ≤ 922
            · simp only [if_pos h5]
            · simp only [if_neg h5]
              by_cases h6 : 923 ≤ y ∧ y ≤ 1023
              · simp only [if_pos h6]
              · simp only [if_neg h6]
                by_cases h7 : 1024 ≤ y ∧ y ≤ 1122
                · simp only [if_pos h7]
                · simp only [if_neg h7]
                  by_cases h8 : 1123 ≤ y ∧ y ≤ 1221
                  · simp only [if_pos h8]
                  · simp only [if_neg h8]

theorem s4_xz_range (y : Int) : 0 ≤ s4_xz y ∧ s4_xz y < 12 := by
  unfold s4_xz
  by_cases h0 : 321 ≤ y ∧ y ≤ 419
  · simp only [if_pos h0]; omega
  · simp only [if_neg h0]
    by_cases h1 : 420 ≤ y ∧ y ≤ 520
    · simp only [if_pos h1]; omega
    · simp only [if_neg h1]
      by_cases h2 : 521 ≤ y ∧ y ≤ 621
      · simp only [if_pos h2]; omega
      · simp only [if_neg h2]
        by_cases h3 : 622 ≤ y ∧ y ≤ 722
        · simp only [if_pos h3]; omega
        · simp only [if_neg h3]
          by_cases h4 : 723 ≤ y ∧ y ≤ 822
          · simp only [if_pos h4]; omega
          · simp only [if_neg h4]
            by_cases h5 : 823 ≤ y ∧ y ≤ 922
            · simp only [if_pos h5]; omega
            · simp only [if_neg h5]
              by_cases h6 : 923 ≤ y ∧ y ≤ 1023
              · simp only [if_pos h6]; omega
              · simp only [if_neg h6]
                by_cases h7 : 1024 ≤ y ∧ y ≤ 1122
                · simp only [if_pos h7]; omega
                · simp only [if_neg h7]
                  by_cases h8 : 1123 ≤ y ∧ y ≤ 1221
                  · simp only [if_pos h8]; omega
                  · simp only [if_neg h8]
                    by_cases h9 : 1222 ≤ y ∨ y ≤ 119
                    · simp only [if_pos h9]; omega
                    · simp only [if_neg h9]
                      by_cases h10 : y ≤ 218
                      · simp only [if_pos h10]; omega
                      · simp only [if_neg h10]
                        omega

theorem s4_len_XINGZUO : Gen.Tables.SolarUtil.«XINGZUO».length = 12 := by decide

theorem s4_xz_gen (s : Gen.FnS.Solar) :
    Gen.FnS.calendar_Solar_GetXingZuo s = Gen.FnS.sidx Gen.Tables.SolarUtil.«XINGZUO» (s4_xz (s.month * 100 + s.day)) := by
  unfold Gen.FnS.calendar_Solar_GetXingZuo s4_xz
  simp only [ge_iff_le, Bool.and_eq_true, Bool.or_eq_true, decide_eq_true_eq]
  generalize s.month * 100 + s.day = y
  simp only [apply_ite (Gen.FnS.sidx Gen.Tables.SolarUtil.«XINGZUO»)]

/-- `Solar.GetXingZuo`: guard-free (the computed index always lies in 0..11) -/
theorem solarGetXingZuo_eq (s : Gen.FnS.Solar) :
    Gen.FnS.calendar_Solar_GetXingZuo s = .ok (Model.xingZuo s.month s.day) := by
  have hr := s4_xz_range (s.month * 100 + s.day)
  rw [s4_xz_gen, sidx_eq_getD _ _ hr.1 (by rw [s4_len_XINGZUO]; omega)]
  unfold Model.xingZuo
  rw [s4_xz_model]

theorem solarGetXingzuo_eq (s : Gen.FnS.Solar) :
    Gen.FnS.calendar_Solar_GetXingzuo s = .ok (Model.xingZuo s.month s.day) := by
  unfold Gen.FnS.calendar_Solar_GetXingzuo; rw [solarGetXingZuo_eq]


end FnSEq
